// Engine "l1" (property C17): drives the REAL l1.Client (l1.NewClient(...).Run) against a gated,
// scripted L1StateProvider and a real Blockchain on a memory database, and records one ndjson
// event per action of spec/l1/L1.tla (see L1Trace.tla for the event vocabulary).
//
// Every call the client makes into the provider blocks on a gate; the seeded scheduler acts on
// the scripted L1 node (mine / finalise / reorg / push logs / break the subscription) only while
// the client is blocked, then answers the call. That makes every linearisation point explicit;
// the only thing left to the Go scheduler is how many updates the client's select loop takes
// from its channel between two calls - observed through len(channel) at the next call.
//
// Second mode ("geth"): the same scripted node is served by an in-process go-ethereum rpc.Server
// over a websocket (eth_chainId, eth_blockNumber, eth_getBlockByNumber("finalized"), eth_getLogs,
// eth_subscribe("logs")) to the REAL l1.GethL1StateProvider (l1/geth_l1_state_provider.go: abigen
// filterer, forwardStateUpdates) feeding the real client. The gate sits in the rpc handlers; a log
// pushed to the subscription is waited for until it has reached the client's channel, so the same
// events, the same monitor and the same TLC trace validation apply.
//
// Besides the trace (validated by TLC) a direct monitor evaluates the property on the run:
// after every setL1Head the database must hold exactly the best merged, not removed event at or
// below the reported finalised height.
//
// Storage faults (the write-fault dimension of L1.tla): the Blockchain sits on the shared
// fault-injecting store (harness/internal/faultkv). When the scheduler answers the FinalisedHeight
// call of a setL1Head it may arm the store to fail the next durable mutation - in these runs only
// the Put of the L1-head record is one. The wrapper logs WriteFail at the failing Put; Run returning
// by itself is logged as Stopped, the head is read, and a new client is started on the same
// database (Restart). The monitor checks the conditional property: a client that is still running
// after a completed setL1Head has the best merged finalised event recorded, whatever happened to
// the write. The L1-head feed is drained by the scheduler whenever the client is blocked or has
// stopped (at most one SetL1Head lies between two provider calls, so nothing is lost): Feed events
// are part of the trace, and what the feed announced last must be what the database holds.
//
// The accessor (the accessor dimension of L1.tla).  The property is about the head the node REPORTS,
// Blockchain.L1Head(), not only about the database record.  (1) Every Restart builds a NEW Blockchain
// object on the same store, as a process restart does.  (2) Whenever the client is blocked the
// harness compares what the accessor answers with the record read straight from the store
// (l1:accessor:*).  (3) A free-running reader brackets every accessor call by two direct reads of
// the record: the answer must lie between them.  (4) Steered overlap: the store can hold a Get of
// the L1-head key after it has completed and before it returns, and a Put of it before it is
// applied.  In a share of the incarnations the first call of the accessor is made by a reader
// goroutine that is parked in its Get while the client performs a head-changing SetL1Head
// (ReadStart .. ReadEnd in the trace); in others the client is parked in front of its Put while a
// complete read runs.  A read entered after SetL1Head has returned must report the new head.
//
// Error kinds (the error-kind dimension of L1.tla): a failing answer is a transport error, a
// timeout (context.DeadlineExceeded), the real eth.ErrNotFound, or context.Canceled out of the
// provider; in geth mode a JSON-RPC error or a null answer to eth_getBlockByNumber("finalized"),
// which the real provider maps to eth.ErrNotFound.  After a failing FinalisedHeight answer inside
// setL1Head the client's next call must be FinalisedHeight again and the head must be untouched.
//
// Directed scenarios (TestL1Directed) run the same loop under a director instead of the seeded
// scheduler: every error kind while non-finalised commits are buffered, then a reorg of the
// non-finalised block; the restart / overlapping-read schedules.
package l1

import (
	"bytes"
	"context"
	"encoding/json"
	"errors"
	"fmt"
	"math/big"
	"math/rand"
	"net/http/httptest"
	"os"
	"path/filepath"
	"strings"
	"sync"
	"testing"
	"time"

	"github.com/NethermindEth/juno/blockchain"
	"github.com/NethermindEth/juno/blockchain/networks"
	"github.com/NethermindEth/juno/core"
	"github.com/NethermindEth/juno/core/felt"
	"github.com/NethermindEth/juno/db"
	"github.com/NethermindEth/juno/db/memory"
	"github.com/NethermindEth/juno/encoder"
	_ "github.com/NethermindEth/juno/encoder/registry"
	jl1 "github.com/NethermindEth/juno/l1"
	"github.com/NethermindEth/juno/l1/eth"
	"github.com/NethermindEth/juno/utils/log"
	"github.com/ethereum/go-ethereum/common"
	"github.com/ethereum/go-ethereum/common/hexutil"
	"github.com/ethereum/go-ethereum/core/types"
	"github.com/ethereum/go-ethereum/rpc"

	"verifharness/internal/faultkv"
	"verifharness/internal/vh"
)

// bounds of the scripted node; L1Trace.cfg must be at least as large
const (
	maxBlocks    = 10
	maxEvents    = 10
	maxPerBlock  = 2
	maxReorgs    = 3
	maxFail      = 4
	maxWriteFail = 2 // failed writes of the L1-head record per run
)

type event struct {
	Ev string `json:"ev"`
	X  int    `json:"x"`
	Y  int    `json:"y"`
	Q  int    `json:"q"`
	W  int    `json:"w"` // RetFin: 1 = the store is armed to fail the next Put of the L1-head record
	K  string `json:"k"` // Ret*: kind of the failure ("" for a successful answer)
}

// the kinds of failing answers (ErrKinds of L1.tla)
var errKinds = []string{"transport", "timeout", "notfound", "cancel"}

// kindErr is the error a provider method returns for a failure of that kind (scripted mode).
func kindErr(kind string) error {
	switch kind {
	case "timeout":
		return fmt.Errorf("scripted node: no answer in time: %w", context.DeadlineExceeded)
	case "notfound": // what GethL1StateProvider.FinalisedHeight returns for a null "finalized" block
		return fmt.Errorf("finalised block not found: %w", eth.ErrNotFound)
	case "cancel":
		return fmt.Errorf("scripted node: request aborted: %w", context.Canceled)
	}
	return errors.New("scripted failure: connection reset by peer")
}

type input struct {
	Traces   int    `json:"traces"`
	Seed     int64  `json:"seed"`
	Only     int    `json:"only"`      // >0: run just this trace index (replay)
	Rounds   int    `json:"rounds"`    // scheduler rounds per trace
	TraceOut string `json:"trace_out"` // file name (in scratch) for the concatenated trace
	Lag      bool   `json:"lag"`       // directed scenario WITHOUT the finality-after-notices assumption
	Geth     bool   `json:"geth"`      // serve the scripted node through go-ethereum rpc to the real GethL1StateProvider
	Scenario string `json:"scenario"`  // TestL1Directed: run just this scenario (replay)
}

// ---------------------------------------------------------------------------- gated provider

type gresp struct {
	val    uint64
	ids    []int // event ids answering a filter call (geth mode: turned into logs by the handler)
	events []*jl1.StateUpdate
	sub    jl1.Subscription
	err    error
	null   bool // geth mode: answer eth_getBlockByNumber("finalized") with null (the provider reports eth.ErrNotFound)
}

type gcall struct {
	m        string
	from, to uint64
	ch       chan<- *jl1.StateUpdate
	resp     chan gresp
}

type provider struct {
	calls chan *gcall
}

func (p *provider) do(ctx context.Context, c *gcall) (gresp, error) {
	c.resp = make(chan gresp, 1)
	select {
	case p.calls <- c:
	case <-ctx.Done():
		return gresp{}, ctx.Err()
	}
	select {
	case r := <-c.resp:
		return r, r.err
	case <-ctx.Done():
		return gresp{}, ctx.Err()
	}
}

func (p *provider) ChainID(ctx context.Context) (*big.Int, error) {
	_, err := p.do(ctx, &gcall{m: "ChainID"})
	if err != nil {
		return nil, err
	}
	return new(big.Int).Set(networks.Sepolia.L1ChainID), nil
}

func (p *provider) FinalisedHeight(ctx context.Context) (uint64, error) {
	r, err := p.do(ctx, &gcall{m: "Fin"})
	return r.val, err
}

func (p *provider) LatestHeight(ctx context.Context) (uint64, error) {
	r, err := p.do(ctx, &gcall{m: "Latest"})
	return r.val, err
}

func (p *provider) WatchStateUpdate(ctx context.Context, ch chan<- *jl1.StateUpdate) (jl1.Subscription, error) {
	r, err := p.do(ctx, &gcall{m: "Watch", ch: ch})
	if err != nil {
		return nil, err
	}
	return r.sub, nil
}

func (p *provider) FilterStateUpdate(ctx context.Context, from, to uint64) ([]*jl1.StateUpdate, error) {
	r, err := p.do(ctx, &gcall{m: "Filter", from: from, to: to})
	return r.events, err
}

func (p *provider) Close() {}

type gsub struct{ errCh chan error }

func (s *gsub) Err() <-chan error { return s.errCh }
func (s *gsub) Unsubscribe()      {}

// ---------------------------------------------------------------------------- geth mode: the node behind go-ethereum rpc

const coreContract = "0xc662c410C0ECf747543f5bA90660f6ABeBD9C8c4"

// keccak("LogStateUpdate(uint256,int256,uint256)"), see l1/geth/contract
var logStateUpdateTopic = common.HexToHash("0xd342ddf7a308dec111745b00315c14b7efb2bdae570a6856e088ed0c65a3576c")

// retained is a value the code under test handed out (or was handed), kept together with a copy
// taken at that moment: the content must never change afterwards (class "aliasing").
type retained struct {
	ptr  *jl1.StateUpdate
	copy jl1.StateUpdate
	via  string
}

// tapProvider is the real provider. It only (a) puts a channel of its own between
// forwardStateUpdates and the client so that every delivered *StateUpdate can be retained (pointer +
// copy) before it is passed on unchanged, (b) retains what FilterStateUpdate returns, and
// (c) remembers the client's channel so that the harness can observe its length.
type tapProvider struct {
	*jl1.GethL1StateProvider
	mu   sync.Mutex
	ch   chan<- *jl1.StateUpdate
	kept []retained
}

func (t *tapProvider) keep(u *jl1.StateUpdate, via string) {
	t.mu.Lock()
	t.kept = append(t.kept, retained{ptr: u, copy: *u, via: via})
	t.mu.Unlock()
}

func (t *tapProvider) WatchStateUpdate(ctx context.Context, ch chan<- *jl1.StateUpdate) (jl1.Subscription, error) {
	t.mu.Lock()
	t.ch = ch
	t.mu.Unlock()
	mid := make(chan *jl1.StateUpdate, 128)
	sub, err := t.GethL1StateProvider.WatchStateUpdate(ctx, mid)
	if err != nil {
		return nil, err
	}
	go func() {
		for {
			select {
			case u := <-mid:
				t.keep(u, "WatchStateUpdate")
				select {
				case ch <- u:
				case <-ctx.Done():
					return
				}
			case <-ctx.Done():
				return
			}
		}
	}()
	return sub, nil
}

func (t *tapProvider) FilterStateUpdate(ctx context.Context, from, to uint64) ([]*jl1.StateUpdate, error) {
	out, err := t.GethL1StateProvider.FilterStateUpdate(ctx, from, to)
	for _, u := range out {
		t.keep(u, "FilterStateUpdate")
	}
	return out, err
}

func (t *tapProvider) channel() chan<- *jl1.StateUpdate {
	t.mu.Lock()
	defer t.mu.Unlock()
	return t.ch
}

func (t *tapProvider) retainedSnapshot() []retained {
	t.mu.Lock()
	defer t.mu.Unlock()
	return append([]retained{}, t.kept...)
}

// checkRetained: every retained update still has the content it had when it was handed over, and
// distinct deliveries are distinct objects.
func checkRetained(kept []retained, who string) *violation {
	seen := map[*jl1.StateUpdate]int{}
	for i, k := range kept {
		if *k.ptr != k.copy {
			return &violation{"l1:retained-update-changed:" + who, fmt.Sprintf(
				"a StateUpdate handed over by %s changed afterwards: was {L2 %d hash %s L1 %d removed %v}, is {L2 %d hash %s L1 %d removed %v}",
				k.via, k.copy.L2BlockNumber, k.copy.L2BlockHash.String(), k.copy.L1RefHeight, k.copy.Removed,
				k.ptr.L2BlockNumber, k.ptr.L2BlockHash.String(), k.ptr.L1RefHeight, k.ptr.Removed)}
		}
		if j, dup := seen[k.ptr]; dup {
			return &violation{"l1:update-pointer-shared:" + who, fmt.Sprintf(
				"deliveries %d and %d (%s) are the same object", j+1, i+1, k.via)}
		}
		seen[k.ptr] = i
	}
	return nil
}

// ethNode is the "eth" namespace of the in-process node. Every handler blocks on the scheduler's
// gate, exactly like the methods of the scripted provider.
type ethNode struct {
	r     *run
	calls chan *gcall
	done  chan struct{}

	mu       sync.Mutex
	notifier *rpc.Notifier
	subID    rpc.ID
}

var errNodeGone = errors.New("scripted node: run is over")

func (n *ethNode) gate(c *gcall) (gresp, error) {
	c.resp = make(chan gresp, 1)
	select {
	case n.calls <- c:
	case <-n.done:
		return gresp{}, errNodeGone
	}
	select {
	case r := <-c.resp:
		return r, r.err
	case <-n.done:
		return gresp{}, errNodeGone
	}
}

func (n *ethNode) ChainId() (*hexutil.Big, error) { //nolint:revive,staticcheck
	if _, err := n.gate(&gcall{m: "ChainID"}); err != nil {
		return nil, err
	}
	return (*hexutil.Big)(new(big.Int).Set(networks.Sepolia.L1ChainID)), nil
}

func (n *ethNode) BlockNumber() (hexutil.Uint64, error) {
	r, err := n.gate(&gcall{m: "Latest"})
	return hexutil.Uint64(r.val), err
}

func (n *ethNode) GetBlockByNumber(number rpc.BlockNumber, _ bool) (map[string]any, error) {
	if number != rpc.FinalizedBlockNumber {
		return nil, fmt.Errorf("scripted node: unsupported block tag %d", number)
	}
	r, err := n.gate(&gcall{m: "Fin"})
	if err != nil {
		return nil, err
	}
	if r.null { // "the node cannot name a finalised block"
		return nil, nil
	}
	zero32 := "0x" + strings.Repeat("0", 64)
	return map[string]any{
		"parentHash": zero32, "sha3Uncles": zero32, "miner": "0x" + strings.Repeat("0", 40),
		"stateRoot": zero32, "transactionsRoot": zero32, "receiptsRoot": zero32,
		"logsBloom": "0x" + strings.Repeat("0", 512), "difficulty": "0x0",
		"number": hexutil.EncodeUint64(r.val), "gasLimit": "0x0", "gasUsed": "0x0", "timestamp": "0x0",
		"extraData": "0x", "mixHash": zero32, "nonce": "0x0000000000000000", "hash": "0x" + strings.Repeat("1", 64),
	}, nil
}

func blockArg(q map[string]any, key string) (uint64, error) {
	s, _ := q[key].(string)
	return hexutil.DecodeUint64(s)
}

func (n *ethNode) GetLogs(q map[string]any) ([]*types.Log, error) {
	from, err := blockArg(q, "fromBlock")
	if err != nil {
		return nil, fmt.Errorf("scripted node: fromBlock: %w", err)
	}
	to, err := blockArg(q, "toBlock")
	if err != nil {
		return nil, fmt.Errorf("scripted node: toBlock: %w", err)
	}
	r, err := n.gate(&gcall{m: "Filter", from: from, to: to})
	if err != nil {
		return nil, err
	}
	logs := []*types.Log{}
	for _, id := range r.ids {
		logs = append(logs, n.r.logOf(id, false))
	}
	return logs, nil
}

// Logs serves eth_subscribe("logs", ...).
func (n *ethNode) Logs(ctx context.Context, _ map[string]any) (*rpc.Subscription, error) {
	notifier, ok := rpc.NotifierFromContext(ctx)
	if !ok {
		return nil, rpc.ErrNotificationsUnsupported
	}
	sub := notifier.CreateSubscription()
	n.mu.Lock()
	n.notifier, n.subID = notifier, sub.ID
	n.mu.Unlock()
	if _, err := n.gate(&gcall{m: "Watch"}); err != nil {
		return nil, err
	}
	return sub, nil
}

func (n *ethNode) notify(lg *types.Log) error {
	n.mu.Lock()
	notifier, id := n.notifier, n.subID
	n.mu.Unlock()
	if notifier == nil {
		return errors.New("no subscription")
	}
	return notifier.Notify(id, lg)
}

func word(v uint64) []byte { return common.LeftPadBytes(new(big.Int).SetUint64(v).Bytes(), 32) }

// logOf is event id as the LogStateUpdate(globalRoot, blockNumber, blockHash) log the core
// contract emits; the field values are those of (*run).update.
func (r *run) logOf(id int, removed bool) *types.Log {
	data := append(append(word(uint64(1000+id)), word(uint64(r.l2of[id]))...), word(uint64(id))...)
	h := uint64(r.l1of[id])
	return &types.Log{
		Address:     common.HexToAddress(coreContract),
		Topics:      []common.Hash{logStateUpdateTopic},
		Data:        data,
		BlockNumber: h,
		TxHash:      common.BigToHash(new(big.Int).SetUint64(uint64(7000 + id))),
		BlockHash:   common.BigToHash(new(big.Int).SetUint64(0xb10c0000 + h)),
		Index:       uint(id),
		Removed:     removed,
	}
}

// ---------------------------------------------------------------------------- scripted L1 node + monitor

type msg struct {
	id      int
	removed bool
}

type run struct {
	rng   *rand.Rand
	idx   int
	chunk int
	lag   bool

	// the scripted node (mirror of the node half of L1.tla)
	blocks    [][]int // blocks[h-1] = event ids of height h
	fin       int
	nEv       int
	l1of      map[int]int
	l2of      map[int]int
	reorgs    int
	fails     int
	subUp     bool
	subPos    int
	sub       *gsub
	ch        chan<- *jl1.StateUpdate
	sent      []msg
	delivered map[int]bool

	// monitor (the property, evaluated on the run)
	filterApplied []int // events merged through FilterStateUpdate answers
	consumed      int   // messages of `sent` the client had taken at its last call
	expStored     int
	lastHeadL2    uint64
	announced     []int

	events []event
	mu     sync.Mutex
	closed bool
	bc     *blockchain.Blockchain

	base     int        // the head a restarted client found in the database (0 none)
	registry sync.Map   // event id -> [2]uint64{Starknet block number, state root}; read by the concurrent reader
	kept     []retained // scripted mode: what the harness handed to the client
	heads    []headSeen // what OnNewL1Head announced (pointer + copy)
	feedIDs  []int      // what the L1-head feed delivered

	// geth mode
	node      *ethNode
	tap       *tapProvider
	httpSrv   *httptest.Server
	forceFail bool   // the connection was dropped: the pending call cannot succeed
	broken    string // harness problem detected inside a node action

	// storage faults
	store       *headStore
	writeFailed int // event id of the head whose Put was failed since the scheduler last looked (0 none)
	wfails      int // failed writes so far
	prevStored  int // the expected head before the setL1Head that is being answered

	// the accessor
	noAccessor    bool // the first call of Blockchain.L1Head() of this incarnation is reserved for the steered reader
	accessorReads int
	lastReadL2    uint64 // Starknet block number the accessor reported last (reads at rest)
	raceNote      string // what was steered before, for the violation text
}

// headStore is the database under the Blockchain: the shared fault-injecting store with the outcome
// of a Put of the L1-head record observed (and logged) at the Put itself, the linearisation point,
// and with two gates on the L1-head key: a Get can be held after it has completed and before it
// returns, a Put before it is applied.
type headStore struct {
	*faultkv.Store
	r *run

	gmu     sync.Mutex
	getGate *kvGate
	putGate *kvGate
}

// kvGate: the operation reports the head it read / is about to write on parked and waits for release.
type kvGate struct {
	parked  chan int
	release chan struct{}
}

func newGate() *kvGate { return &kvGate{parked: make(chan int, 1), release: make(chan struct{})} }

func (s *headStore) armGet() *kvGate {
	g := newGate()
	s.gmu.Lock()
	s.getGate = g
	s.gmu.Unlock()
	return g
}

func (s *headStore) armPut() *kvGate {
	g := newGate()
	s.gmu.Lock()
	s.putGate = g
	s.gmu.Unlock()
	return g
}

// disarmGates removes gates nobody has reached.
func (s *headStore) disarmGates() {
	s.gmu.Lock()
	s.getGate, s.putGate = nil, nil
	s.gmu.Unlock()
}

func decodeHeadID(v []byte) int {
	var h core.L1Head
	if encoder.Unmarshal(v, &h) != nil {
		return -1
	}
	return headID(h)
}

func (s *headStore) Get(k []byte, cb func([]byte) error) error {
	if !bytes.Equal(k, db.L1Height.Key()) {
		return s.Store.Get(k, cb)
	}
	s.gmu.Lock()
	g := s.getGate
	s.getGate = nil
	s.gmu.Unlock()
	id := 0
	err := s.Store.Get(k, func(v []byte) error {
		id = decodeHeadID(v)
		return cb(v)
	})
	if g != nil { // the Get is complete; hold its return
		g.parked <- id
		<-g.release
	}
	return err
}

func (s *headStore) Put(k, v []byte) error {
	isHead := bytes.Equal(k, db.L1Height.Key())
	if isHead {
		s.gmu.Lock()
		g := s.putGate
		s.putGate = nil
		s.gmu.Unlock()
		if g != nil { // hold the Put before it is applied
			g.parked <- decodeHeadID(v)
			<-g.release
		}
	}
	err := s.Store.Put(k, v)
	if errors.Is(err, faultkv.ErrInjected) && isHead {
		id := decodeHeadID(v)
		s.r.log(event{Ev: "WriteFail", X: id})
		s.r.mu.Lock()
		s.r.writeFailed = id
		s.r.wfails++
		s.r.mu.Unlock()
	}
	return err
}

func (s *headStore) WithListener(db.EventListener) db.KeyValueStore { return s }

func (r *run) takeWriteFailed() int {
	r.mu.Lock()
	defer r.mu.Unlock()
	id := r.writeFailed
	r.writeFailed = 0
	return id
}

func (r *run) log(e event) {
	r.mu.Lock()
	if !r.closed {
		r.events = append(r.events, e)
	}
	r.mu.Unlock()
}

func (r *run) top() int { return len(r.blocks) }

func (r *run) canonical(e int) bool {
	h := r.l1of[e]
	if h < 1 || h > r.top() {
		return false
	}
	for _, x := range r.blocks[h-1] {
		if x == e {
			return true
		}
	}
	return false
}

func (r *run) nextL2() int {
	best := 0
	for e := 1; e <= r.nEv; e++ {
		if r.canonical(e) && e > best {
			best = e
		}
	}
	if best == 0 {
		return 0 // the first commit is Starknet block 0
	}
	return r.l2of[best] + 1
}

func (r *run) update(id int, removed bool) *jl1.StateUpdate {
	return &jl1.StateUpdate{
		L2BlockNumber: uint64(r.l2of[id]),
		L2BlockHash:   *new(felt.Felt).SetUint64(uint64(id)),
		StateRoot:     *new(felt.Felt).SetUint64(uint64(1000 + id)),
		L1RefHeight:   uint64(r.l1of[id]),
		Removed:       removed,
	}
}

func (r *run) send(id int, removed bool) {
	r.sent = append(r.sent, msg{id, removed})
	if r.node == nil {
		u := r.update(id, removed)
		r.kept = append(r.kept, retained{ptr: u, copy: *u, via: "the subscription"})
		r.ch <- u // buffered (128); the script never sends that many
		return
	}
	// geth mode: notify the subscription and wait until the log has travelled through the websocket,
	// the abigen watcher and forwardStateUpdates into the client's channel (the client is blocked in
	// an rpc call meanwhile, so the channel only grows)
	before := len(r.ch)
	if err := r.node.notify(r.logOf(id, removed)); err != nil {
		r.broken = "notify failed: " + err.Error()
		return
	}
	deadline := time.Now().Add(gateTimeout)
	for len(r.ch) != before+1 {
		if time.Now().After(deadline) {
			r.broken = "a pushed log never reached the client's update channel"
			return
		}
		time.Sleep(20 * time.Microsecond)
	}
}

func (r *run) eventsIn(lo, hi int) []int {
	var out []int
	for e := 1; e <= r.nEv; e++ {
		if r.canonical(e) && r.l1of[e] >= lo && r.l1of[e] <= hi {
			out = append(out, e)
		}
	}
	return out
}

func (r *run) unconsumed() []msg {
	n := 0
	if r.ch != nil {
		n = len(r.ch)
	}
	return r.sent[len(r.sent)-n:]
}

// --- node actions (each logs its trace event first, then acts)

func (r *run) mine(n int) {
	r.log(event{Ev: "Mine", X: n})
	l2 := r.nextL2()
	var ids []int
	for i := 0; i < n; i++ {
		r.nEv++
		r.l1of[r.nEv] = r.top() + 1
		r.l2of[r.nEv] = l2 + i
		r.registry.Store(r.nEv, [2]uint64{uint64(l2 + i), uint64(1000 + r.nEv)})
		ids = append(ids, r.nEv)
	}
	r.blocks = append(r.blocks, ids)
}

func (r *run) finalise(h int) {
	r.log(event{Ev: "Finalise", X: h})
	r.fin = h
}

func (r *run) canFinalise(h int) bool {
	if h <= r.fin || h > r.top() {
		return false
	}
	if r.lag {
		return true
	}
	for _, m := range r.unconsumed() { // the registered timing assumption (FinalityAfterNotices)
		if m.removed && r.l1of[m.id] <= h {
			return false
		}
	}
	return true
}

func (r *run) goneBy(k int) []int {
	var gone []int
	for _, e := range r.eventsIn(k+1, r.top()) {
		if r.delivered[e] {
			gone = append(gone, e)
		}
	}
	return gone
}

func (r *run) canReorg(k int) bool {
	return r.reorgs < maxReorgs && k >= r.fin && k < r.top() && (len(r.goneBy(k)) == 0 || r.subUp)
}

func (r *run) reorg(k int) {
	r.log(event{Ev: "Reorg", X: k})
	gone := r.goneBy(k)
	r.blocks = r.blocks[:k]
	r.reorgs++
	if r.subPos > k {
		r.subPos = k
	}
	for _, e := range gone {
		r.send(e, true)
	}
}

func (r *run) push() {
	r.log(event{Ev: "Push"})
	for _, e := range r.blocks[r.subPos] {
		r.delivered[e] = true
		r.send(e, false)
	}
	r.subPos++
}

func (r *run) subFail() {
	r.log(event{Ev: "SubFail"})
	r.subUp = false
	r.fails++
	if r.node != nil {
		// drop the websocket: the subscription errors out, and so does the call the client is blocked in
		r.forceFail = true
		r.httpSrv.CloseClientConnections()
		return
	}
	r.sub.errCh <- errors.New("subscription dropped")
}

// --- monitor

// live returns the merged, not removed events as of the client's last call.
func (r *run) live() map[int]bool {
	live := map[int]bool{}
	if r.base != 0 {
		live[r.base] = true
	}
	for _, e := range r.filterApplied {
		live[e] = true
	}
	for _, m := range r.sent[:r.consumed] {
		if m.removed {
			delete(live, m.id) // "subsequently reported as removed"
		} else {
			live[m.id] = true
		}
	}
	return live
}

func (r *run) best(f int) int {
	best := 0
	for e := range r.live() {
		if r.l1of[e] > f {
			continue
		}
		if best == 0 || r.l1of[e] > r.l1of[best] || (r.l1of[e] == r.l1of[best] && e > best) {
			best = e
		}
	}
	return best
}

func headID(h core.L1Head) int {
	if h.BlockHash == nil {
		return 0
	}
	return int(h.BlockHash.Uint64())
}

type violation struct {
	key, what string
}

type headSeen struct {
	ptr        *core.L1Head
	number     uint64
	hash, root felt.Felt
}

// record reads the L1-head record straight from the store: no accessor, no gate.
func (r *run) record() (core.L1Head, int, error) {
	h, err := core.GetL1Head(r.store.Store)
	if errors.Is(err, db.ErrKeyNotFound) {
		return h, 0, nil
	}
	if err != nil {
		return h, 0, err
	}
	return h, headID(h), nil
}

func sameHead(a, b core.L1Head) bool {
	if (a.BlockHash == nil) != (b.BlockHash == nil) || (a.StateRoot == nil) != (b.StateRoot == nil) {
		return false
	}
	return a.BlockNumber == b.BlockNumber && (a.BlockHash == nil || a.BlockHash.Equal(b.BlockHash)) &&
		(a.StateRoot == nil || a.StateRoot.Equal(b.StateRoot))
}

func (r *run) desc(e int) string {
	if e == 0 {
		return "none"
	}
	if _, ok := r.l1of[e]; !ok {
		return fmt.Sprintf("an unknown commit (hash id %d)", e)
	}
	return fmt.Sprintf("event %d (L1 block %d, Starknet block %d)", e, r.l1of[e], r.l2of[e])
}

// accessorVsRecord: nothing writes while the client is blocked or has stopped, and no read of a
// reader goroutine is in flight, so a call of Blockchain.L1Head() entered now must answer exactly the
// record (ReportedIsRecorded / AccessorIsRecord of L1.tla).  logIt: the read is a Read event of the trace.
func (r *run) accessorVsRecord(logIt bool) *violation {
	if r.noAccessor {
		return nil // the first call of the accessor in this incarnation is reserved for the steered reader
	}
	h, err := r.bc.L1Head()
	acc := 0
	if err == nil {
		acc = headID(h)
	} else if !errors.Is(err, db.ErrKeyNotFound) {
		return &violation{"l1:accessor:unreadable", "Blockchain.L1Head(): " + err.Error()}
	}
	if logIt {
		r.log(event{Ev: "Read", X: acc})
	}
	r.accessorReads++
	rh, rec, rerr := r.record()
	if rerr != nil {
		return &violation{"l1:head-unreadable", rerr.Error()}
	}
	if acc == rec && (acc == 0 || sameHead(h, rh)) {
		if acc != 0 {
			if h.BlockNumber < r.lastReadL2 {
				return &violation{"l1:accessor:regressed", fmt.Sprintf("consecutive calls of Blockchain.L1Head() went from Starknet block %d to %d", r.lastReadL2, h.BlockNumber)}
			}
			r.lastReadL2 = h.BlockNumber
		}
		return nil
	}
	kind := "other-commit"
	switch {
	case acc == 0:
		kind = "missing"
	case rec == 0:
		kind = "unrecorded"
	case acc == rec:
		kind = "fields"
	case h.BlockNumber < rh.BlockNumber:
		kind = "older-than-record"
	case h.BlockNumber > rh.BlockNumber:
		kind = "newer-than-record"
	}
	return &violation{"l1:accessor:" + kind, fmt.Sprintf(
		"with the client at rest and no other read in flight Blockchain.L1Head() reports %s while the database record is %s%s",
		r.desc(acc), r.desc(rec), r.raceNote)}
}

// checkHead compares the database record with the property, and the accessor with the record;
// called while the client is blocked or has stopped.
func (r *run) checkHead(lastFin int) *violation {
	av := r.accessorVsRecord(true)
	h, got, err := r.record()
	if err != nil {
		return &violation{"l1:head-unreadable", err.Error()}
	}
	if got == r.expStored {
		if got != 0 {
			if h.BlockNumber != uint64(r.l2of[got]) || h.StateRoot == nil || !h.StateRoot.Equal(new(felt.Felt).SetUint64(uint64(1000+got))) {
				return &violation{"l1:head-fields", fmt.Sprintf("head of event %d carries number %d root %s", got, h.BlockNumber, h.StateRoot)}
			}
			if h.BlockNumber < r.lastHeadL2 {
				return &violation{"l1:head-regressed", fmt.Sprintf("Starknet block number went from %d to %d", r.lastHeadL2, h.BlockNumber)}
			}
			r.lastHeadL2 = h.BlockNumber
		}
		return av
	}
	kind := "not-best"
	switch {
	case got != 0 && r.l1of[got] > lastFin:
		kind = "above-finalised"
	case got != 0 && !r.live()[got] && !r.isMerged(got):
		kind = "never-merged"
	case got != 0 && !r.live()[got]:
		kind = "removed"
	case got == 0:
		kind = "missing"
	case r.expStored != 0 && r.l1of[got] < r.l1of[r.expStored]:
		kind = "lower-than-best"
	case r.expStored == 0:
		kind = "unexpected"
	}
	return &violation{"l1:stored-head:" + kind, fmt.Sprintf(
		"after setL1Head with finalised height %d the database holds %s, the property demands %s",
		lastFin, r.desc(got), r.desc(r.expStored))}
}

func (r *run) isMerged(e int) bool {
	if e == r.base {
		return true
	}
	for _, x := range r.filterApplied {
		if x == e {
			return true
		}
	}
	for _, m := range r.sent[:r.consumed] {
		if m.id == e && !m.removed {
			return true
		}
	}
	return false
}

// ---------------------------------------------------------------------------- one run

type outcome struct {
	events []event
	viol   *violation
	broken string
	stats  map[string]int
}

const gateTimeout = 20 * time.Second

// decision is what a director wants done while the client is blocked in one provider call.
type decision struct {
	restart bool     // stop the client here and start a new node process on the same database
	acts    []func() // actions of the scripted node
	kind    string   // "" = answer the call; else the kind of failure
	done    bool     // wind down from here
	race    string   // around this FinalisedHeight answer of a setL1Head: "get" = a reader is held in its Get, "put" = the client is held before its Put while a read runs
}

// director replaces the seeded scheduler in a directed scenario.
type director struct {
	name         string
	reserve      bool // after a restart the first call of the accessor is kept for a reader steered with decision.race "get"
	reserveFirst bool // ... and so is the first call in the first process
	prelude      func(r *run)
	plan         func(r *run, c *gcall, q int, setHead bool) decision
}

type readRes struct {
	h        core.L1Head
	err      error
	panicked any
}

func readID(res readRes) int {
	if res.err != nil {
		return 0
	}
	return headID(res.h)
}

func oneRun(seed int64, idx, rounds int, lag, geth bool, dir *director) outcome {
	rng := rand.New(rand.NewSource(seed*1_000_003 + int64(idx)))
	if geth {
		rng = rand.New(rand.NewSource(seed*1_000_003 + int64(idx) + 500_000))
	}
	r := &run{rng: rng, idx: idx, lag: lag, l1of: map[int]int{}, l2of: map[int]int{}, delivered: map[int]bool{}}
	r.chunk = []int{1, 2, 3, 10}[rng.Intn(4)]
	st := map[string]int{}
	out := outcome{stats: st}
	r.log(event{Ev: "Reset", X: r.chunk})

	if dir != nil {
		dir.prelude(r)
	} else {
		// some history before the client starts (what catch-up has to find)
		// (commits tend to sit in the older blocks, so that the backward scan needs several chunks)
		for n := rng.Intn(8); n > 0; n-- {
			k := 0
			if rng.Intn(2+r.top()) < 2 {
				k = 1 + rng.Intn(maxPerBlock)
			}
			if r.nEv+k > maxEvents-4 {
				k = 0
			}
			r.mine(k)
		}
		if r.top() > 0 && rng.Intn(4) > 0 {
			r.finalise(1 + rng.Intn(1+r.top()/2))
		}
	}

	r.store = &headStore{Store: faultkv.Wrap(memory.New()), r: r}
	p := &provider{calls: make(chan *gcall)}
	// geth mode: every client incarnation gets its own in-process node endpoint (rpc server + websocket
	// listener). A request the OLD client managed to put on the wire while it was being cancelled must
	// never be taken for a call of the new one: closing the old endpoint releases its handlers.
	var closeNode func()
	openNode := func() {
		if closeNode != nil {
			closeNode()
		}
		node := &ethNode{r: r, calls: p.calls, done: make(chan struct{})}
		rpcServer := rpc.NewServer()
		if err := rpcServer.RegisterName("eth", node); err != nil {
			panic(err)
		}
		srv := httptest.NewServer(rpcServer.WebsocketHandler([]string{"*"}))
		r.node, r.httpSrv = node, srv
		closeNode = func() {
			close(node.done)
			srv.CloseClientConnections()
			rpcServer.Stop()
			srv.Close()
		}
	}
	if geth {
		defer func() { closeNode() }()
	}
	poll := []time.Duration{20 * time.Microsecond, 200 * time.Microsecond, 2 * time.Millisecond}[rng.Intn(3)]
	listener := jl1.SelectiveListener{OnNewL1HeadCb: func(h *core.L1Head) {
		r.log(event{Ev: "NewHead", X: headID(*h)})
		seen := headSeen{ptr: h, number: h.BlockNumber}
		if h.BlockHash != nil {
			seen.hash = *h.BlockHash
		}
		if h.StateRoot != nil {
			seen.root = *h.StateRoot
		}
		r.mu.Lock()
		r.heads = append(r.heads, seen)
		r.mu.Unlock()
	}}

	// ---- the node process: a Blockchain object on the store, a subscriber of its L1-head feed and a
	// free-running reader of its accessor (class "concurrency"). A restart closes it and opens a new one.
	var obsMu sync.Mutex
	var obsViol *violation
	observe := func(v *violation) {
		obsMu.Lock()
		if obsViol == nil {
			obsViol = v
		}
		obsMu.Unlock()
	}
	l2of := func(id int) (uint64, bool) { // safe for the reader goroutines
		f, ok := r.registry.Load(id)
		if !ok {
			return 0, false
		}
		return f.([2]uint64)[0], true
	}
	var (
		feedSub    blockchain.L1HeadSubscription
		stopObs    chan struct{}
		observers  sync.WaitGroup
		obsRunning bool
	)
	openChain := func() {
		r.bc = blockchain.New(r.store, &networks.Sepolia)
		feedSub = r.bc.SubscribeL1Head()
		stopObs = make(chan struct{})
		obsRunning = false
	}
	closeChain := func() {
		close(stopObs)
		observers.Wait()
		feedSub.Unsubscribe()
	}
	// startObserver: calls of Blockchain.L1Head() racing with the client's writes. Every call is
	// bracketed by two direct reads of the record: the answer is a value the record held in between
	// (the record only moves forward, so: not older than the first, not newer than the second).
	startObserver := func() {
		if obsRunning {
			return
		}
		obsRunning = true
		bc, stop := r.bc, stopObs
		observers.Add(1)
		go func() {
			defer observers.Done()
			defer func() {
				if p := recover(); p != nil {
					observe(&violation{"l1:concurrent-read:panic", fmt.Sprint("Blockchain.L1Head() panicked under a concurrent writer: ", p)})
				}
			}()
			var lastL2 uint64
			seenAny := false
			for n := 0; ; n++ {
				select {
				case <-stop:
					return
				default:
				}
				_, lo, lerr := r.record()
				h, err := bc.L1Head()
				_, hi, herr := r.record()
				val := 0
				switch {
				case errors.Is(err, db.ErrKeyNotFound):
					if seenAny {
						observe(&violation{"l1:concurrent-read:vanished", "a concurrent reader found no L1 head after it had seen one"})
						return
					}
				case err != nil:
					observe(&violation{"l1:concurrent-read:error", err.Error()})
					return
				default:
					val = headID(h)
					f, known := r.registry.Load(val)
					if !known || h.StateRoot == nil {
						observe(&violation{"l1:concurrent-read:unknown-commit", fmt.Sprintf("a concurrent reader saw a head that is no commit of the L1 node: number %d hash id %d", h.BlockNumber, val)})
						return
					}
					want := f.([2]uint64)
					if h.BlockNumber != want[0] || !h.StateRoot.Equal(new(felt.Felt).SetUint64(want[1])) {
						observe(&violation{"l1:concurrent-read:torn", fmt.Sprintf("a concurrent reader saw a head mixing two commits: number %d hash id %d root %s", h.BlockNumber, val, h.StateRoot)})
						return
					}
					if seenAny && h.BlockNumber < lastL2 {
						observe(&violation{"l1:concurrent-read:regressed", fmt.Sprintf("a concurrent reader saw the Starknet block number go from %d to %d", lastL2, h.BlockNumber)})
						return
					}
					seenAny, lastL2 = true, h.BlockNumber
				}
				if lerr == nil && herr == nil && val != lo && val != hi {
					vn, _ := l2of(val)
					ln, _ := l2of(lo)
					hn, _ := l2of(hi)
					switch {
					case lo != 0 && (val == 0 || vn < ln):
						observe(&violation{"l1:concurrent-read:older-than-record-at-start", fmt.Sprintf(
							"a call of Blockchain.L1Head() entered while the database record was commit %d (Starknet block %d) returned commit %d (Starknet block %d; 0 = none)", lo, ln, val, vn)})
						return
					case val != 0 && (hi == 0 || vn > hn):
						observe(&violation{"l1:concurrent-read:newer-than-record-at-end", fmt.Sprintf(
							"a call of Blockchain.L1Head() returned commit %d (Starknet block %d) while the database record, read after it returned, was commit %d (Starknet block %d; 0 = none)", val, vn, hi, hn)})
						return
					}
				}
				if n%8 == 0 {
					time.Sleep(5 * time.Microsecond)
				}
			}
		}()
	}
	// the L1-head feed: taken by the scheduler while the client is blocked or has stopped (the
	// subscription buffers one head and the client sends at most one between two provider calls)
	drainFeed := func() *violation {
		last := -1
		for {
			select {
			case h, ok := <-feedSub.Recv():
				if !ok {
					return nil
				}
				if h == nil {
					continue
				}
				last = headID(*h)
				r.log(event{Ev: "Feed", X: last})
				r.feedIDs = append(r.feedIDs, last)
				continue
			default:
			}
			break
		}
		if last < 0 {
			return nil
		}
		// write first, announce second: what the feed announced last is what the database holds
		_, got, _ := r.record()
		if got != last {
			return &violation{"l1:head-feed:announced-not-recorded", fmt.Sprintf(
				"the L1-head feed announced event %d while the database holds event %d (0 = none): the head was announced without being recorded", last, got)}
		}
		return nil
	}

	// ---- steered overlap of a read with the client's SetL1Head
	const (
		raceNone    = iota
		racePlanned // the first call of the accessor in this incarnation will be the steered reader's
		raceParked  // the reader sits in its Get, complete but not returned
		raceDone
	)
	race := raceNone
	var (
		parkedGate *kvGate
		parkedRes  chan readRes
		parkedID   int
	)
	spawnReader := func() chan readRes {
		bc := r.bc
		ch := make(chan readRes, 1)
		go func() {
			defer func() {
				if p := recover(); p != nil {
					ch <- readRes{panicked: p}
				}
			}()
			h, err := bc.L1Head()
			ch <- readRes{h: h, err: err}
		}()
		return ch
	}
	readFault := func(res readRes) *violation {
		if res.panicked != nil {
			return &violation{"l1:accessor:panic", fmt.Sprint("Blockchain.L1Head() panicked: ", res.panicked)}
		}
		if res.err != nil && !errors.Is(res.err, db.ErrKeyNotFound) {
			return &violation{"l1:accessor:unreadable", "Blockchain.L1Head(): " + res.err.Error()}
		}
		return nil
	}
	// startRace: called while the client is blocked in the FinalisedHeight call whose answer will make
	// it record another head. Returns a harness problem, if any.
	startRace := func() string {
		g := r.store.armGet()
		resCh := spawnReader()
		select {
		case id := <-g.parked:
			r.log(event{Ev: "ReadStart", X: id})
			parkedGate, parkedRes, parkedID = g, resCh, id
			race = raceParked
			st["overlapping_reads"]++
			if r.base != 0 {
				st["overlapping_reads_after_restart_with_head"]++
			}
		case res := <-resCh:
			// the accessor answered without a Get of the record: a read that overlaps nothing
			r.store.disarmGates()
			race = raceDone
			r.noAccessor = false
			st["steered_reads_without_get"]++
			if v := readFault(res); v != nil {
				out.viol = v
				return ""
			}
			acc := readID(res)
			r.log(event{Ev: "Read", X: acc})
			if _, rec, _ := r.record(); acc != rec {
				out.viol = &violation{"l1:accessor:first-read-not-the-record", fmt.Sprintf(
					"the first call of Blockchain.L1Head() in this process answered %s without reading the database, whose record is %s", r.desc(acc), r.desc(rec))}
			}
		case <-time.After(gateTimeout):
			return "the steered reader neither reached the store nor returned"
		}
		return ""
	}
	// endRace: the client is blocked again (or has stopped): its SetL1Head is over. Let the reader return.
	endRace := func(logIt bool) string {
		close(parkedGate.release)
		var res readRes
		select {
		case res = <-parkedRes:
		case <-time.After(gateTimeout):
			return "the steered reader did not return after its Get was released"
		}
		race = raceDone
		r.noAccessor = false
		if !logIt {
			return ""
		}
		if v := readFault(res); v != nil && out.viol == nil {
			out.viol = v
			return ""
		}
		val := readID(res)
		r.log(event{Ev: "ReadEnd", X: val})
		_, rec, _ := r.record()
		r.raceNote = fmt.Sprintf("; before that a reader's call of L1Head() had read %s from the database, was held there while the client recorded %s, and returned %s",
			r.desc(parkedID), r.desc(rec), r.desc(val))
		if val != parkedID && val != rec && out.viol == nil {
			out.viol = &violation{"l1:accessor:overlapping-read:never-recorded", fmt.Sprintf(
				"a call of Blockchain.L1Head() that overlapped a SetL1Head (record %s before, %s after) returned %s",
				r.desc(parkedID), r.desc(rec), r.desc(val))}
		}
		if rec != parkedID {
			st["overlapping_reads_across_a_write"]++
		}
		startObserver()
		return ""
	}

	type runEnd struct {
		err      error
		panicked any
	}
	var (
		cancel context.CancelFunc
		done   chan runEnd
	)
	// startClient creates a NEW client (and, in geth mode, a new real provider: Run closes its
	// provider when it returns) on the current Blockchain.
	startClient := func() string {
		var ctx context.Context
		ctx, cancel = context.WithCancel(context.Background())
		var prov jl1.L1StateProvider = p
		if geth {
			openNode()
			real, err := jl1.NewGethL1StateProvider(ctx, "ws"+strings.TrimPrefix(r.httpSrv.URL, "http"), eth.AddressFromString(coreContract))
			if err != nil {
				return "cannot connect the real GethL1StateProvider to the in-process node: " + err.Error()
			}
			if r.tap != nil {
				r.kept = append(r.kept, r.tap.retainedSnapshot()...)
			}
			r.tap = &tapProvider{GethL1StateProvider: real}
			prov = r.tap
		}
		client := jl1.NewClient(prov, r.bc, log.NewNopZapLogger(),
			jl1.WithPollFinalisedInterval(poll), jl1.WithResubscribeDelay(200*time.Microsecond),
			jl1.WithCatchUpChunkSize(uint64(r.chunk)), jl1.WithEventListener(listener))
		d := make(chan runEnd, 1)
		done = d
		go func() {
			defer func() {
				if p := recover(); p != nil {
					d <- runEnd{panicked: p}
				}
			}()
			d <- runEnd{err: client.Run(ctx)}
		}()
		return ""
	}
	// stopClient cancels the client and waits for Run to return.
	stopClient := func() string {
		cancel()
		select {
		case e := <-done:
			if e.panicked != nil && out.viol == nil {
				out.viol = &violation{"l1:panic", fmt.Sprint("l1.Client.Run panicked: ", e.panicked)}
			}
		case <-time.After(gateTimeout):
			return "client.Run did not return after cancellation"
		}
		return ""
	}
	finish := func() {
		r.mu.Lock()
		r.closed = true
		r.mu.Unlock()
		if race == raceParked {
			if msg := endRace(false); msg != "" && out.viol == nil {
				out.broken = msg
			}
		}
		r.store.disarmGates()
		if msg := stopClient(); msg != "" && out.viol == nil {
			out.broken = msg
		}
		closeChain()
		out.events = r.events
		st["accessor_reads"] += r.accessorReads
		if out.viol != nil {
			return
		}
		// ---- end-of-run checks on everything that was handed over or observed
		kept := r.kept
		who := "client" // scripted mode: only the client could have changed what the harness handed over
		if r.tap != nil {
			kept = append(kept, r.tap.retainedSnapshot()...)
			who = "provider"
		}
		if v := checkRetained(kept, who); v != nil {
			out.viol = v
			return
		}
		var announced []int
		for _, h := range r.heads {
			announced = append(announced, int(h.hash.Uint64()))
			if h.ptr.BlockNumber != h.number || h.ptr.BlockHash == nil || h.ptr.StateRoot == nil ||
				!h.ptr.BlockHash.Equal(&h.hash) || !h.ptr.StateRoot.Equal(&h.root) {
				out.viol = &violation{"l1:announced-head-changed", fmt.Sprintf(
					"the *core.L1Head passed to OnNewL1Head (Starknet block %d) was modified afterwards", h.number)}
				return
			}
		}
		i := 0
		for _, id := range r.feedIDs { // the feed is lossy: a subsequence of what was announced
			for i < len(announced) && announced[i] != id {
				i++
			}
			if i == len(announced) {
				out.viol = &violation{"l1:head-feed:not-announced", fmt.Sprintf(
					"the L1-head feed delivered %v, OnNewL1Head announced %v", r.feedIDs, announced)}
				return
			}
			i++
		}
		st["feed_heads_seen"] += len(r.feedIDs)
		obsMu.Lock()
		out.viol = obsViol
		obsMu.Unlock()
	}
	// planRace decides, for a new incarnation, whether its first call of the accessor is reserved for
	// a reader that is held in its Get across the first head-changing SetL1Head.
	planRace := func() {
		want := false
		switch {
		case dir != nil:
			want = (dir.reserve && r.expStored != 0) || (dir.reserveFirst && r.expStored == 0 && r.base == 0)
		case r.expStored != 0: // a restart with a head on disk
			want = rng.Intn(4) != 0
		default:
			want = rng.Intn(3) == 0
		}
		if want {
			race, r.noAccessor = racePlanned, true
			st["overlapping_reads_planned"]++
		} else {
			race, r.noAccessor = raceNone, false
			startObserver()
		}
	}
	openChain()
	planRace()
	if msg := startClient(); msg != "" {
		out.broken = msg
		closeChain()
		return out
	}

	restarted := false
	lastFin := 0
	checkPending := false      // a setL1Head completed since the last check
	checkAfterError := false   // a FinalisedHeight answer inside a setL1Head failed since the last check
	expectRetry := ""          // kind of that failure while the retry has not been seen
	nextFinIsSnapshot := false // the next FinalisedHeight call is catch-up's snapshot, not a setL1Head
	finalDone := false
	armed := false // the store fails the next Put of the head record
	live := false  // this client has subscribed: its setL1Head calls are those of the ticker
	dirDone := false
	// newIncarnation forgets everything the old node process knew and starts a new one - a new
	// Blockchain object, a new client - on the same database (the Restart action of L1.tla).
	newIncarnation := func() string {
		closeChain()
		r.base = r.expStored
		r.ch, r.sub, r.subUp = nil, nil, false
		r.sent, r.consumed, r.filterApplied = nil, 0, nil
		r.delivered = map[int]bool{}
		if r.base != 0 {
			r.delivered[r.base] = true
			st["restarts_with_head_on_disk"]++
		}
		r.forceFail = false
		nextFinIsSnapshot, checkPending, live = false, false, false
		checkAfterError, expectRetry = false, ""
		r.raceNote = ""
		openChain()
		planRace()
		return startClient()
	}
	phase := func() string {
		if !live {
			return "catchup"
		}
		return "tick"
	}
	var heldCall *gcall // a call that arrived while the scheduler was waiting for something else
	var heldEnd *runEnd // Run's return, likewise
	for round := 0; ; round++ {
		var c *gcall
		var ended *runEnd
		switch {
		case heldCall != nil:
			c, heldCall = heldCall, nil
		case heldEnd != nil:
			ended, heldEnd = heldEnd, nil
		default:
			select {
			case c = <-p.calls:
			case e := <-done:
				ended = &e
			case <-time.After(gateTimeout):
				out.broken = "client did not reach a provider call (quiescence timeout)"
				finish()
				return out
			}
		}
		if ended != nil {
			e := *ended
			// ---- Run returned by itself
			if e.panicked != nil {
				done <- e // finish() collects it
				out.viol = &violation{"l1:panic", fmt.Sprint("l1.Client.Run panicked: ", e.panicked)}
				finish()
				return out
			}
			cancel()
			endedCh := make(chan runEnd, 1) // finish() waits for a Run that has returned already
			endedCh <- e
			done = endedCh
			r.store.Disarm()
			armed = false
			if v := drainFeed(); v != nil {
				out.viol = v
				finish()
				return out
			}
			failed := r.takeWriteFailed()
			if failed != 0 {
				st["write_faults_fired"]++
			}
			if failed == 0 {
				// the specification (StopOnlyOnWriteFailure) knows one reason for Run to return while its
				// context is live: the head could not be written
				why := ""
				if expectRetry != "" {
					why = fmt.Sprintf(" (the last answer of FinalisedHeight was a failure of kind %q)", expectRetry)
				}
				out.viol = &violation{"l1:client-stopped:no-write-failure", fmt.Sprintf(
					"l1.Client.Run returned by itself (error: %v) although no write of the L1 head had failed%s", e.err, why)}
				finish()
				return out
			}
			okv := 0
			if e.err != nil {
				okv = 1
			}
			r.log(event{Ev: "Stopped", X: okv})
			st["stops_after_write_failure"]++
			if e.err != nil && errors.Is(e.err, faultkv.ErrInjected) {
				st["stops_with_the_store_error"]++
			}
			if race == raceParked {
				if msg := endRace(true); msg != "" {
					out.broken = msg
				}
				if out.broken != "" || out.viol != nil {
					finish()
					return out
				}
			}
			// the failed write left the record as it was
			r.expStored = r.prevStored
			checkPending = false
			if v := r.checkHead(lastFin); v != nil {
				if strings.HasPrefix(v.key, "l1:stored-head:") {
					v.key = "l1:head-write-failed:record-changed:" + strings.TrimPrefix(v.key, "l1:stored-head:")
				} else if strings.HasPrefix(v.key, "l1:accessor:") {
					v.key = "l1:head-write-failed:" + strings.TrimPrefix(v.key, "l1:")
					v.what = fmt.Sprintf("the Put of the L1-head record (event %d) failed and the client stopped; %s", failed, v.what)
				}
				out.viol = v
				finish()
				return out
			}
			// the node went down with the service; the operator starts it again
			st["restarts_after_stop"]++
			r.log(event{Ev: "Restart"})
			if msg := newIncarnation(); msg != "" {
				out.broken = msg
				finish()
				return out
			}
			continue
		}
		// ---- the client is blocked: what it did since its last call
		if armed {
			r.store.Disarm()
			armed = false
		}
		if v := drainFeed(); v != nil {
			out.viol = v
			finish()
			return out
		}
		failedWrite := r.takeWriteFailed() // != 0: a write of the head failed and the client is still running
		if failedWrite != 0 {
			st["write_faults_fired"]++
			st["running_after_write_failure"]++
		}
		// ---- log its arrival
		if r.tap != nil {
			r.ch = r.tap.channel()
		}
		q := -1
		if r.ch != nil {
			q = len(r.ch)
			r.consumed = len(r.sent) - q
		}
		switch c.m {
		case "Filter":
			r.log(event{Ev: "CallFilter", X: int(c.from), Y: int(c.to), Q: q})
		default:
			r.log(event{Ev: "Call" + c.m, Q: q})
		}
		if race == raceParked { // the SetL1Head the reader overlapped is over
			if msg := endRace(true); msg != "" {
				out.broken = msg
			}
			if out.broken != "" || out.viol != nil {
				finish()
				return out
			}
		}
		if expectRetry != "" {
			// every failing FinalisedHeight answer inside setL1Head is retried, whatever its kind
			// (FailedFinIsRetried): the helper calls FinalisedHeight again
			if c.m != "Fin" {
				out.viol = &violation{"l1:finalised-height-error:" + expectRetry + ":not-retried:" + c.m, fmt.Sprintf(
					"FinalisedHeight failed with an error of kind %q inside setL1Head (%s path); instead of asking again the client called %s",
					expectRetry, phase(), c.m)}
				finish()
				return out
			}
			st["fin_errors_retried_"+expectRetry]++
			expectRetry = ""
		}
		if checkPending || checkAfterError || rng.Intn(4) == 0 {
			if checkPending {
				st["setheads_checked"]++
			}
			afterError := checkAfterError && !checkPending
			checkPending, checkAfterError = false, false
			if v := r.checkHead(lastFin); v != nil {
				if failedWrite != 0 {
					// the conditional property: a client may stop on a failed write, it may not go on with a stale record
					if strings.HasPrefix(v.key, "l1:accessor:") {
						v.key = "l1:head-write-failed:" + strings.TrimPrefix(v.key, "l1:")
					} else {
						v.key = "l1:head-write-failed:running-with-stale-record:" + phase()
					}
					v.what = fmt.Sprintf("the Put of the L1-head record (event %d) failed, the client kept running (next call: %s) and %s",
						failedWrite, c.m, v.what)
				} else if afterError && strings.HasPrefix(v.key, "l1:stored-head:") {
					v.key = "l1:finalised-height-error:head-moved:" + strings.TrimPrefix(v.key, "l1:stored-head:")
					v.what = "a FinalisedHeight answer inside setL1Head failed (the L1 node reported no finalised height) and yet the head changed: " + v.what
				}
				out.viol = v
				finish()
				return out
			}
		} else if v := r.accessorVsRecord(false); v != nil { // the accessor is compared with the record at every step
			if failedWrite != 0 {
				v.key = "l1:head-write-failed:" + strings.TrimPrefix(v.key, "l1:")
			}
			out.viol = v
			finish()
			return out
		}
		setHead := c.m == "Fin" && !nextFinIsSnapshot
		var d decision
		if dir != nil && !dirDone {
			d = dir.plan(r, c, q, setHead)
			dirDone = d.done
		}
		winding := round >= rounds
		if dir != nil {
			winding = dirDone
		}
		if winding && c.m == "Fin" && !nextFinIsSnapshot && r.ch != nil && q == 0 {
			if finalDone {
				// quiescent end: everything sent was merged and the setL1Head after that was checked
				st["rounds"] += round
				finish()
				return out
			}
			finalDone = true
		}
		if (c.m == "Latest" || c.m == "Filter" || c.m == "ChainID") && r.ch != nil {
			// the live loop only ever asks for the finalised height and (re)subscribes
			out.viol = &violation{"l1:unexpected-call:" + c.m, "the client called " + c.m + " after the live subscription had started"}
			finish()
			return out
		}
		if round > rounds*4+400 {
			// not a verdict by itself: the recorded prefix still goes to TLC
			st["undrained_runs"]++
			finish()
			return out
		}

		// ---- restart: stop this node process while its client is blocked in the call, start a new one on the same database
		wantRestart := d.restart
		if dir == nil {
			wantRestart = !winding && !restarted && round > 2 && rng.Intn(40) == 0
		}
		if wantRestart {
			restarted = true
			st["restarts"]++
			r.log(event{Ev: "Restart"})
			if msg := stopClient(); msg != "" {
				out.broken = msg
				finish()
				return out
			}
			if out.viol != nil {
				finish()
				return out
			}
			select { // release the rpc handler of the abandoned call (geth mode)
			case c.resp <- gresp{err: errors.New("node restarted")}:
			default:
			}
			if msg := newIncarnation(); msg != "" {
				out.broken = msg
				finish()
				return out
			}
			continue
		}

		// ---- the scripted node acts
		for _, a := range d.acts {
			a()
			if r.broken != "" {
				out.broken = r.broken
				finish()
				return out
			}
		}
		if dir == nil && !winding {
			for n := rng.Intn(4); n > 0; n-- {
				switch a := rng.Intn(10); {
				case a < 3 && r.top() < maxBlocks:
					k := []int{0, 1, 1, 2}[rng.Intn(4)]
					if r.nEv+k > maxEvents {
						k = 0
					}
					r.mine(k)
					st["mines"]++
				case a < 5 && r.top() > r.fin:
					h := r.fin + 1 + rng.Intn(r.top()-r.fin)
					if r.canFinalise(h) {
						r.finalise(h)
						st["finalises"]++
					}
				case a < 6 && r.top() > r.fin:
					k := r.fin + rng.Intn(r.top()-r.fin)
					if r.subUp && rng.Intn(2) == 0 { // prefer a reorg that drops delivered logs
						for j := r.fin; j < r.top(); j++ {
							if len(r.goneBy(j)) > 0 {
								k = j
							}
						}
					}
					if r.canReorg(k) {
						if len(r.goneBy(k)) > 0 {
							st["reorgs_with_notices"]++
						}
						r.reorg(k)
						st["reorgs"]++
					}
				case a < 9 && r.subUp && r.subPos < r.top():
					r.push()
					st["pushes"]++
				case a == 9 && r.subUp && r.fails < maxFail && rng.Intn(2) == 0 &&
					(r.node == nil || (r.fails+2 <= maxFail && !r.forceFail)):
					r.subFail()
					st["subfails"]++
				}
				if r.broken != "" {
					out.broken = r.broken
					finish()
					return out
				}
			}
		}

		// ---- answer the call
		failOneIn := 7
		if r.ch == nil {
			failOneIn = 16 // keep most catch-up scans alive
		}
		dropped := r.forceFail // geth mode: the connection is gone, the pending call cannot succeed
		fail := dropped
		kind := ""
		if dir != nil {
			fail = fail || d.kind != ""
			kind = d.kind
		} else if !fail && !winding && r.fails < maxFail && rng.Intn(failOneIn) == 0 {
			fail = true
			kind = errKinds[rng.Intn(len(errKinds))]
			if c.m == "Fin" && rng.Intn(3) == 0 {
				kind = "notfound" // the one kind a provider documents for this call
			}
		}
		r.forceFail = false
		resp := gresp{}
		okv := 1
		if fail {
			if dropped || kind == "" || (r.node != nil && !(kind == "notfound" && c.m == "Fin")) {
				kind = "transport" // geth mode knows two kinds: a JSON-RPC / connection error and the null answer
			}
			r.fails++
			st["failed_calls"]++
			st["failed_calls_"+kind]++
			okv = 0
			resp.err = kindErr(kind)
			if r.node != nil && kind == "notfound" {
				resp.err, resp.null = nil, true
			}
		}
		putRace := false
		switch c.m {
		case "ChainID":
			r.log(event{Ev: "RetChainID", X: okv, K: kind})
		case "Latest":
			resp.val = uint64(r.top())
			r.log(event{Ev: "RetLatest", X: okv, Y: r.top(), K: kind})
			nextFinIsSnapshot = !fail
		case "Fin":
			resp.val = uint64(r.fin)
			w := 0
			if nextFinIsSnapshot {
				nextFinIsSnapshot = false
			} else if fail {
				// a failing answer inside setL1Head: retried, head untouched
				expectRetry, checkAfterError = kind, true
				st["fin_errors_in_sethead_"+kind]++
				if len(r.live()) > 0 && r.best(r.top()) != r.best(r.fin) {
					st["fin_errors_with_unfinalised_commits_buffered"]++
				}
			} else { // this answer completes a setL1Head
				lastFin = r.fin
				r.prevStored = r.expStored
				r.expStored = r.best(r.fin)
				checkPending = true
				st["setheads"]++
				moves := r.expStored != r.prevStored && r.expStored != 0
				wantGet := race == racePlanned && moves && (dir == nil || d.race == "get")
				wantPut := moves && !wantGet && !r.noAccessor && ((dir == nil && !winding && rng.Intn(6) == 0) || (dir != nil && d.race == "put"))
				switch {
				case wantGet:
					// a reader enters L1Head() now and is held in its Get until the client has recorded the new head
					if msg := startRace(); msg != "" {
						out.broken = msg
					}
					if out.broken != "" || out.viol != nil {
						r.log(event{Ev: "RetFin", X: okv, Y: r.fin, W: 0, K: kind})
						c.resp <- resp
						finish()
						return out
					}
				case wantPut:
					putRace = true
				case dir == nil && !winding && r.wfails < maxWriteFail:
					// storage fault: the Put of the head record, if this setL1Head gets that far, fails
					// (more often when the monitor expects the head to move: then there is a Put)
					oneIn := 24
					if r.expStored != r.prevStored {
						oneIn = 5
					}
					if rng.Intn(oneIn) == 0 {
						r.store.Arm(faultkv.FailAt, 1, nil)
						armed, w = true, 1
						st["write_faults_armed"]++
					}
				}
			}
			r.log(event{Ev: "RetFin", X: okv, Y: r.fin, W: w, K: kind})
		case "Filter":
			var got []int
			if !fail {
				got = r.eventsIn(int(c.from), int(c.to))
				resp.ids = got
				for _, e := range got {
					u := r.update(e, false)
					if r.node == nil {
						r.kept = append(r.kept, retained{ptr: u, copy: *u, via: "FilterStateUpdate"})
					}
					resp.events = append(resp.events, u)
					r.delivered[e] = true
					r.filterApplied = append(r.filterApplied, e)
				}
				st["filter_chunks"]++
			}
			r.log(event{Ev: "RetFilter", X: okv, Y: len(got), K: kind})
		case "Watch":
			if !fail {
				if r.node == nil {
					r.ch = c.ch
					r.sub = &gsub{errCh: make(chan error, 1)}
					resp.sub = r.sub
				}
				r.subUp = true
				r.subPos = r.top()
				live = true
			}
			r.log(event{Ev: "RetWatch", X: okv, K: kind})
		}
		var pg *kvGate
		if putRace {
			pg = r.store.armPut()
		}
		c.resp <- resp
		if putRace {
			// the client is on its way into SetL1Head: hold it in front of the Put of the record and let a
			// complete call of the accessor run there (it linearises before the write: the old record),
			// then let the Put go. The call after SetL1Head has returned is made at the next arrival.
			select {
			case <-pg.parked:
				st["reads_before_a_held_put"]++
				v := r.accessorVsRecord(false)
				close(pg.release)
				if v != nil {
					v.what += " (the client was held in front of its Put of the new head)"
					out.viol = v
					finish()
					return out
				}
				r.raceNote = "; before that a complete call of L1Head() ran while the client was held in front of its Put of the new head"
			case nc := <-p.calls: // no Put after all
				r.store.disarmGates()
				heldCall = nc
			case e := <-done:
				r.store.disarmGates()
				heldEnd = &e
			case <-time.After(gateTimeout):
				out.broken = "neither a Put of the L1 head nor another call after a setL1Head answer"
				finish()
				return out
			}
		}
	}
}

// ---------------------------------------------------------------------------- test entry points

func TestL1Record(t *testing.T) {
	if !vh.Enabled() {
		t.Skip()
	}
	var in input
	if err := vh.Input(&in); err != nil {
		t.Fatal(err)
	}
	out := vh.NewResult()
	defer out.Write()
	seed := in.Seed
	if seed == 0 {
		seed = vh.Seed()
	}
	rounds := in.Rounds
	if rounds == 0 {
		rounds = 30
	}
	name := in.TraceOut
	if name == "" {
		name = "l1trace.ndjson"
	}
	f, err := os.Create(filepath.Join(vh.Scratch(), name))
	if err != nil {
		t.Fatal(err)
	}
	defer f.Close()
	enc := json.NewEncoder(f)

	lo, hi := 1, in.Traces
	if in.Only > 0 {
		lo, hi = in.Only, in.Only
	}
	// runs are independent; a few at a time (each has its own client, chain and provider)
	type res struct {
		idx int
		o   outcome
	}
	const par = 4
	results := make([]outcome, hi-lo+1)
	var wg sync.WaitGroup
	sem := make(chan struct{}, par)
	for i := lo; i <= hi; i++ {
		wg.Add(1)
		sem <- struct{}{}
		go func(i int) {
			defer wg.Done()
			defer func() { <-sem }()
			results[i-lo] = oneRun(seed, i, rounds, in.Lag, in.Geth, nil)
		}(i)
	}
	wg.Wait()
	nEvents := 0
	for k, o := range results {
		idx := lo + k
		if o.broken != "" {
			out.Count("broken_runs", 1)
			out.Sample(vh.J{"broken": o.broken, "trace": idx})
			continue
		}
		for _, e := range o.events {
			if err := enc.Encode(e); err != nil {
				t.Fatal(err)
			}
		}
		nEvents += len(o.events)
		for k, v := range o.stats {
			out.Count(k, v)
		}
		if o.viol != nil {
			out.Diverge(vh.Divergence{
				Key: o.viol.key, What: o.viol.what, Step: len(o.events),
				Input:    vh.J{"seed": seed, "only": idx, "traces": in.Traces, "rounds": rounds, "lag": in.Lag, "geth": in.Geth},
				Observed: o.events,
			})
		}
		if idx <= lo+1 {
			out.Sample(vh.J{"trace": idx, "events": o.events})
		}
		out.Count("runs_recorded", 1)
	}
	out.Count("events_recorded", nEvents)
	out.Done(0, nEvents)
}

// ---------------------------------------------------------------------------- directed scenarios

// errKindScenario: the finalised height stays at 1 while two commits A (L1 block 3) and B (L1 block 4)
// are delivered and merged; three FinalisedHeight polls in a row fail with the given kind (nothing may
// be recorded: the L1 node has reported no finalised height above 1); an answered poll (still 1): no
// head; B's block is reorged away (a perfectly legal reorg of a non-finalised block), the notice is
// merged; the node finalises block 4: the head must be A.
func errKindScenario(kind string) *director {
	phase, n := 0, 0
	return &director{
		name:    "finalised-height-fails:" + kind,
		prelude: func(r *run) { r.mine(0); r.mine(0); r.finalise(1) },
		plan: func(r *run, c *gcall, q int, setHead bool) decision {
			if !setHead || r.ch == nil {
				return decision{}
			}
			switch phase {
			case 0:
				phase = 1
				return decision{acts: []func(){func() { r.mine(1) }, r.push, func() { r.mine(1) }, r.push}}
			case 1:
				if q != 0 {
					return decision{} // not merged yet
				}
				if n++; n == 3 {
					phase = 2
				}
				return decision{kind: kind}
			case 2:
				phase = 3
				return decision{acts: []func(){func() { r.reorg(r.top() - 1) }}}
			case 3:
				if q != 0 {
					return decision{} // the removal notice is still queued
				}
				phase = 4
				return decision{acts: []func(){func() { r.mine(0) }, func() { r.finalise(r.top()) }}, done: true}
			}
			return decision{done: true}
		},
	}
}

// restartRaceScenario: a first node process records commit A and merges a newer commit B; the
// process is restarted with A on disk; when the new process reaches the setL1Head that ends its
// catch-up scan B has become final.  how = "get": the first call of the accessor in the new process
// is a reader's, held in its database Get (it has read A) while the client records B, then released.
// how = "put": the accessor has been called before; the client is held in front of its Put of B while
// a complete call of the accessor runs.  Either way a call entered after SetL1Head returned reports B.
func restartRaceScenario(how string) *director {
	phase := 0
	return &director{
		name:    "restart-read-overlaps-sethead:" + how,
		reserve: how == "get",
		prelude: func(r *run) { r.mine(1); r.mine(0); r.finalise(2) },
		plan: func(r *run, c *gcall, q int, setHead bool) decision {
			switch phase {
			case 0:
				if !setHead || r.ch == nil {
					return decision{}
				}
				phase = 1
				return decision{acts: []func(){func() { r.mine(1) }, r.push}}
			case 1:
				if !setHead || q != 0 {
					return decision{}
				}
				phase = 2
				return decision{restart: true}
			case 2:
				if !setHead {
					return decision{}
				}
				phase = 3
				return decision{acts: []func(){func() { r.finalise(r.top()) }}, race: how}
			}
			return decision{done: true}
		},
	}
}

// noHeadRaceScenario: a fresh database; the first call of the accessor overlaps the very first
// SetL1Head (the reader's Get finds no record).  A call entered afterwards reports the head.
func noHeadRaceScenario() *director {
	phase := 0
	return &director{
		name:         "first-read-overlaps-first-sethead",
		reserveFirst: true,
		prelude:      func(r *run) { r.mine(0); r.mine(0) },
		plan: func(r *run, c *gcall, q int, setHead bool) decision {
			if !setHead || r.ch == nil {
				return decision{}
			}
			switch phase {
			case 0:
				phase = 1
				return decision{acts: []func(){func() { r.mine(1) }, r.push}}
			case 1:
				if q != 0 {
					return decision{}
				}
				phase = 2
				return decision{acts: []func(){func() { r.finalise(r.top()) }}, race: "get"}
			}
			return decision{done: true}
		},
	}
}

func directedScenarios(geth bool) []*director {
	var out []*director
	for _, k := range errKinds {
		if geth && k != "transport" && k != "notfound" {
			continue // behind the real provider: a JSON-RPC error and the null answer
		}
		out = append(out, errKindScenario(k))
	}
	return append(out, restartRaceScenario("get"), restartRaceScenario("put"), noHeadRaceScenario())
}

func TestL1Directed(t *testing.T) {
	if !vh.Enabled() {
		t.Skip()
	}
	var in input
	if err := vh.Input(&in); err != nil {
		t.Fatal(err)
	}
	out := vh.NewResult()
	defer out.Write()
	seed := in.Seed
	if seed == 0 {
		seed = vh.Seed()
	}
	name := in.TraceOut
	if name == "" {
		name = "l1directed.ndjson"
	}
	f, err := os.Create(filepath.Join(vh.Scratch(), name))
	if err != nil {
		t.Fatal(err)
	}
	defer f.Close()
	enc := json.NewEncoder(f)
	nEvents, nRuns := 0, 0
	for i, d := range directedScenarios(in.Geth) {
		if in.Scenario != "" && in.Scenario != d.name {
			continue
		}
		o := oneRun(seed, 900_000+i, 0, false, in.Geth, d)
		if o.broken != "" {
			out.Count("broken_runs", 1)
			out.Sample(vh.J{"broken": o.broken, "scenario": d.name})
			continue
		}
		for _, e := range o.events {
			if err := enc.Encode(e); err != nil {
				t.Fatal(err)
			}
		}
		nEvents += len(o.events)
		nRuns++
		for k, v := range o.stats {
			out.Count(k, v)
		}
		out.Count("scenario:"+d.name, 1)
		if o.viol != nil {
			out.Diverge(vh.Divergence{
				Key: o.viol.key, What: "scenario " + d.name + ": " + o.viol.what, Step: len(o.events),
				Input:    vh.J{"seed": seed, "scenario": d.name, "geth": in.Geth},
				Observed: o.events,
			})
		}
		out.Count("runs_recorded", 1)
	}
	out.Done(nRuns, nEvents)
}

// TestL1LagScenario is a DIRECTED schedule outside the registered timing assumption
// (FinalityAfterNotices): while the client is inside the FinalisedHeight call of a tick, the node
// reorgs away a block whose log the client has already merged, re-mines the height and reports it
// finalised. The removal notice is in the channel, but setL1Head runs before the select loop can
// take it. Reported as an observation, never as a verdict.
func TestL1LagScenario(t *testing.T) {
	if !vh.Enabled() {
		t.Skip()
	}
	out := vh.NewResult()
	defer out.Write()
	r := &run{rng: rand.New(rand.NewSource(1)), lag: true, chunk: 10, l1of: map[int]int{}, l2of: map[int]int{}, delivered: map[int]bool{}}
	r.log(event{Ev: "Reset", X: r.chunk})
	r.bc = blockchain.New(memory.New(), &networks.Sepolia)
	p := &provider{calls: make(chan *gcall)}
	client := jl1.NewClient(p, r.bc, log.NewNopZapLogger(),
		jl1.WithPollFinalisedInterval(200*time.Microsecond), jl1.WithResubscribeDelay(200*time.Microsecond),
		jl1.WithCatchUpChunkSize(uint64(r.chunk)), jl1.WithEventListener(jl1.SelectiveListener{}))
	ctx, cancel := context.WithCancel(context.Background())
	defer cancel()
	go func() { _ = client.Run(ctx) }()
	stage := 0
	for round := 0; round < 2000; round++ {
		var c *gcall
		select {
		case c = <-p.calls:
		case <-time.After(gateTimeout):
			out.Count("lag_scenario_timeout", 1)
			return
		}
		q := -1
		if r.ch != nil {
			q = len(r.ch)
			r.consumed = len(r.sent) - q
		}
		r.log(event{Ev: "Call" + c.m, X: int(c.from), Y: int(c.to), Q: q})
		resp := gresp{}
		switch c.m {
		case "Latest":
			resp.val = uint64(r.top())
		case "Watch":
			r.ch = c.ch
			r.sub = &gsub{errCh: make(chan error, 1)}
			resp.sub, r.subUp, r.subPos = r.sub, true, r.top()
		case "Fin":
			switch {
			case stage == 0 && r.ch != nil: // first tick: a commit is mined and pushed
				r.mine(1)
				r.push()
				stage = 1
			case stage == 1 && q == 0 && r.consumed == 1: // the commit has been merged; now, inside the call:
				r.reorg(0)    // ... its block is reorged away (the removal notice is queued),
				r.mine(0)     // ... the height is mined again without the commit
				r.finalise(1) // ... and reported finalised
				stage = 2
			case stage == 2:
				h, err := r.bc.L1Head()
				if err == nil && headID(h) == 1 && !r.canonical(1) {
					out.Count("lag_reproduced", 1)
					out.Sample(vh.J{"observation": "a removed commit was persisted as L1 head", "head": h.BlockNumber, "events": r.events})
				} else {
					out.Count("lag_not_reproduced", 1)
				}
				out.Done(1, len(r.events))
				return
			}
			resp.val = uint64(r.fin)
		}
		r.log(event{Ev: "Ret" + c.m, X: 1, Y: int(resp.val)})
		c.resp <- resp
	}
	out.Count("lag_not_reproduced", 1)
}

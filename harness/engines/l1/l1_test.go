// Engine "l1" (property C17): drives the REAL l1.Client (l1.NewClient(...).Run) against a gated,
// scripted L1StateProvider and a real Blockchain on a memory database, and records one ndjson
// event per action of spec/l1/L1.tla (see L1Trace.tla for the event vocabulary).
//
// Every call the client makes into the provider blocks on a gate; the seeded scheduler acts on
// the scripted L1 node (mine / finalise / reorg / push logs / break the subscription) only while
// the client is blocked, then answers the call. That makes every linearisation point explicit;
// the only thing left to the Go scheduler is how many updates the client's select loop takes
// from its channel between two calls - observed through len(channel) at the next call.
//
// Second mode ("geth"): the same scripted node is served by an in-process go-ethereum rpc.Server
// over a websocket (eth_chainId, eth_blockNumber, eth_getBlockByNumber("finalized"), eth_getLogs,
// eth_subscribe("logs")) to the REAL l1.GethL1StateProvider (l1/geth_l1_state_provider.go: abigen
// filterer, forwardStateUpdates) feeding the real client. The gate sits in the rpc handlers; a log
// pushed to the subscription is waited for until it has reached the client's channel, so the same
// events, the same monitor and the same TLC trace validation apply.
//
// Besides the trace (validated by TLC) a direct monitor evaluates the property on the run:
// after every setL1Head the database must hold exactly the best merged, not removed event at or
// below the reported finalised height.
//
// Storage faults (the write-fault dimension of L1.tla): the Blockchain sits on the shared
// fault-injecting store (harness/internal/faultkv). When the scheduler answers the FinalisedHeight
// call of a setL1Head it may arm the store to fail the next durable mutation - in these runs only
// the Put of the L1-head record is one. The wrapper logs WriteFail at the failing Put; Run returning
// by itself is logged as Stopped, the head is read, and a new client is started on the same
// database (Restart). The monitor checks the conditional property: a client that is still running
// after a completed setL1Head has the best merged finalised event recorded, whatever happened to
// the write. The L1-head feed is drained by the scheduler whenever the client is blocked or has
// stopped (at most one SetL1Head lies between two provider calls, so nothing is lost): Feed events
// are part of the trace, and what the feed announced last must be what the database holds.
package l1

import (
	"bytes"
	"context"
	"encoding/json"
	"errors"
	"fmt"
	"math/big"
	"math/rand"
	"net/http/httptest"
	"os"
	"path/filepath"
	"strings"
	"sync"
	"testing"
	"time"

	"github.com/NethermindEth/juno/blockchain"
	"github.com/NethermindEth/juno/blockchain/networks"
	"github.com/NethermindEth/juno/core"
	"github.com/NethermindEth/juno/core/felt"
	"github.com/NethermindEth/juno/db"
	"github.com/NethermindEth/juno/db/memory"
	"github.com/NethermindEth/juno/encoder"
	_ "github.com/NethermindEth/juno/encoder/registry"
	jl1 "github.com/NethermindEth/juno/l1"
	"github.com/NethermindEth/juno/l1/eth"
	"github.com/NethermindEth/juno/utils/log"
	"github.com/ethereum/go-ethereum/common"
	"github.com/ethereum/go-ethereum/common/hexutil"
	"github.com/ethereum/go-ethereum/core/types"
	"github.com/ethereum/go-ethereum/rpc"

	"verifharness/internal/faultkv"
	"verifharness/internal/vh"
)

// bounds of the scripted node; L1Trace.cfg must be at least as large
const (
	maxBlocks   = 10
	maxEvents   = 10
	maxPerBlock = 2
	maxReorgs   = 3
	maxFail     = 4
	maxWriteFail = 2 // failed writes of the L1-head record per run
)

type event struct {
	Ev string `json:"ev"`
	X  int    `json:"x"`
	Y  int    `json:"y"`
	Q  int    `json:"q"`
	W  int    `json:"w"` // RetFin: 1 = the store is armed to fail the next Put of the L1-head record
}

type input struct {
	Traces   int   `json:"traces"`
	Seed     int64 `json:"seed"`
	Only     int   `json:"only"`      // >0: run just this trace index (replay)
	Rounds   int   `json:"rounds"`    // scheduler rounds per trace
	TraceOut string `json:"trace_out"` // file name (in scratch) for the concatenated trace
	Lag      bool  `json:"lag"`       // directed scenario WITHOUT the finality-after-notices assumption
	Geth     bool  `json:"geth"`      // serve the scripted node through go-ethereum rpc to the real GethL1StateProvider
}

// ---------------------------------------------------------------------------- gated provider

type gresp struct {
	val    uint64
	ids    []int // event ids answering a filter call (geth mode: turned into logs by the handler)
	events []*jl1.StateUpdate
	sub    jl1.Subscription
	err    error
}

type gcall struct {
	m        string
	from, to uint64
	ch       chan<- *jl1.StateUpdate
	resp     chan gresp
}

type provider struct {
	calls chan *gcall
}

func (p *provider) do(ctx context.Context, c *gcall) (gresp, error) {
	c.resp = make(chan gresp, 1)
	select {
	case p.calls <- c:
	case <-ctx.Done():
		return gresp{}, ctx.Err()
	}
	select {
	case r := <-c.resp:
		return r, r.err
	case <-ctx.Done():
		return gresp{}, ctx.Err()
	}
}

func (p *provider) ChainID(ctx context.Context) (*big.Int, error) {
	_, err := p.do(ctx, &gcall{m: "ChainID"})
	if err != nil {
		return nil, err
	}
	return new(big.Int).Set(networks.Sepolia.L1ChainID), nil
}

func (p *provider) FinalisedHeight(ctx context.Context) (uint64, error) {
	r, err := p.do(ctx, &gcall{m: "Fin"})
	return r.val, err
}

func (p *provider) LatestHeight(ctx context.Context) (uint64, error) {
	r, err := p.do(ctx, &gcall{m: "Latest"})
	return r.val, err
}

func (p *provider) WatchStateUpdate(ctx context.Context, ch chan<- *jl1.StateUpdate) (jl1.Subscription, error) {
	r, err := p.do(ctx, &gcall{m: "Watch", ch: ch})
	if err != nil {
		return nil, err
	}
	return r.sub, nil
}

func (p *provider) FilterStateUpdate(ctx context.Context, from, to uint64) ([]*jl1.StateUpdate, error) {
	r, err := p.do(ctx, &gcall{m: "Filter", from: from, to: to})
	return r.events, err
}

func (p *provider) Close() {}

type gsub struct{ errCh chan error }

func (s *gsub) Err() <-chan error { return s.errCh }
func (s *gsub) Unsubscribe()      {}

// ---------------------------------------------------------------------------- geth mode: the node behind go-ethereum rpc

const coreContract = "0xc662c410C0ECf747543f5bA90660f6ABeBD9C8c4"

// keccak("LogStateUpdate(uint256,int256,uint256)"), see l1/geth/contract
var logStateUpdateTopic = common.HexToHash("0xd342ddf7a308dec111745b00315c14b7efb2bdae570a6856e088ed0c65a3576c")

// retained is a value the code under test handed out (or was handed), kept together with a copy
// taken at that moment: the content must never change afterwards (class "aliasing").
type retained struct {
	ptr  *jl1.StateUpdate
	copy jl1.StateUpdate
	via  string
}

// tapProvider is the real provider. It only (a) puts a channel of its own between
// forwardStateUpdates and the client so that every delivered *StateUpdate can be retained (pointer +
// copy) before it is passed on unchanged, (b) retains what FilterStateUpdate returns, and
// (c) remembers the client's channel so that the harness can observe its length.
type tapProvider struct {
	*jl1.GethL1StateProvider
	mu   sync.Mutex
	ch   chan<- *jl1.StateUpdate
	kept []retained
}

func (t *tapProvider) keep(u *jl1.StateUpdate, via string) {
	t.mu.Lock()
	t.kept = append(t.kept, retained{ptr: u, copy: *u, via: via})
	t.mu.Unlock()
}

func (t *tapProvider) WatchStateUpdate(ctx context.Context, ch chan<- *jl1.StateUpdate) (jl1.Subscription, error) {
	t.mu.Lock()
	t.ch = ch
	t.mu.Unlock()
	mid := make(chan *jl1.StateUpdate, 128)
	sub, err := t.GethL1StateProvider.WatchStateUpdate(ctx, mid)
	if err != nil {
		return nil, err
	}
	go func() {
		for {
			select {
			case u := <-mid:
				t.keep(u, "WatchStateUpdate")
				select {
				case ch <- u:
				case <-ctx.Done():
					return
				}
			case <-ctx.Done():
				return
			}
		}
	}()
	return sub, nil
}

func (t *tapProvider) FilterStateUpdate(ctx context.Context, from, to uint64) ([]*jl1.StateUpdate, error) {
	out, err := t.GethL1StateProvider.FilterStateUpdate(ctx, from, to)
	for _, u := range out {
		t.keep(u, "FilterStateUpdate")
	}
	return out, err
}

func (t *tapProvider) channel() chan<- *jl1.StateUpdate {
	t.mu.Lock()
	defer t.mu.Unlock()
	return t.ch
}

func (t *tapProvider) retainedSnapshot() []retained {
	t.mu.Lock()
	defer t.mu.Unlock()
	return append([]retained{}, t.kept...)
}

// checkRetained: every retained update still has the content it had when it was handed over, and
// distinct deliveries are distinct objects.
func checkRetained(kept []retained, who string) *violation {
	seen := map[*jl1.StateUpdate]int{}
	for i, k := range kept {
		if *k.ptr != k.copy {
			return &violation{"l1:retained-update-changed:" + who, fmt.Sprintf(
				"a StateUpdate handed over by %s changed afterwards: was {L2 %d hash %s L1 %d removed %v}, is {L2 %d hash %s L1 %d removed %v}",
				k.via, k.copy.L2BlockNumber, k.copy.L2BlockHash.String(), k.copy.L1RefHeight, k.copy.Removed,
				k.ptr.L2BlockNumber, k.ptr.L2BlockHash.String(), k.ptr.L1RefHeight, k.ptr.Removed)}
		}
		if j, dup := seen[k.ptr]; dup {
			return &violation{"l1:update-pointer-shared:" + who, fmt.Sprintf(
				"deliveries %d and %d (%s) are the same object", j+1, i+1, k.via)}
		}
		seen[k.ptr] = i
	}
	return nil
}

// ethNode is the "eth" namespace of the in-process node. Every handler blocks on the scheduler's
// gate, exactly like the methods of the scripted provider.
type ethNode struct {
	r     *run
	calls chan *gcall
	done  chan struct{}

	mu       sync.Mutex
	notifier *rpc.Notifier
	subID    rpc.ID
}

var errNodeGone = errors.New("scripted node: run is over")

func (n *ethNode) gate(c *gcall) (gresp, error) {
	c.resp = make(chan gresp, 1)
	select {
	case n.calls <- c:
	case <-n.done:
		return gresp{}, errNodeGone
	}
	select {
	case r := <-c.resp:
		return r, r.err
	case <-n.done:
		return gresp{}, errNodeGone
	}
}

func (n *ethNode) ChainId() (*hexutil.Big, error) { //nolint:revive,staticcheck
	if _, err := n.gate(&gcall{m: "ChainID"}); err != nil {
		return nil, err
	}
	return (*hexutil.Big)(new(big.Int).Set(networks.Sepolia.L1ChainID)), nil
}

func (n *ethNode) BlockNumber() (hexutil.Uint64, error) {
	r, err := n.gate(&gcall{m: "Latest"})
	return hexutil.Uint64(r.val), err
}

func (n *ethNode) GetBlockByNumber(number rpc.BlockNumber, _ bool) (map[string]any, error) {
	if number != rpc.FinalizedBlockNumber {
		return nil, fmt.Errorf("scripted node: unsupported block tag %d", number)
	}
	r, err := n.gate(&gcall{m: "Fin"})
	if err != nil {
		return nil, err
	}
	zero32 := "0x" + strings.Repeat("0", 64)
	return map[string]any{
		"parentHash": zero32, "sha3Uncles": zero32, "miner": "0x" + strings.Repeat("0", 40),
		"stateRoot": zero32, "transactionsRoot": zero32, "receiptsRoot": zero32,
		"logsBloom": "0x" + strings.Repeat("0", 512), "difficulty": "0x0",
		"number": hexutil.EncodeUint64(r.val), "gasLimit": "0x0", "gasUsed": "0x0", "timestamp": "0x0",
		"extraData": "0x", "mixHash": zero32, "nonce": "0x0000000000000000", "hash": "0x" + strings.Repeat("1", 64),
	}, nil
}

func blockArg(q map[string]any, key string) (uint64, error) {
	s, _ := q[key].(string)
	return hexutil.DecodeUint64(s)
}

func (n *ethNode) GetLogs(q map[string]any) ([]*types.Log, error) {
	from, err := blockArg(q, "fromBlock")
	if err != nil {
		return nil, fmt.Errorf("scripted node: fromBlock: %w", err)
	}
	to, err := blockArg(q, "toBlock")
	if err != nil {
		return nil, fmt.Errorf("scripted node: toBlock: %w", err)
	}
	r, err := n.gate(&gcall{m: "Filter", from: from, to: to})
	if err != nil {
		return nil, err
	}
	logs := []*types.Log{}
	for _, id := range r.ids {
		logs = append(logs, n.r.logOf(id, false))
	}
	return logs, nil
}

// Logs serves eth_subscribe("logs", ...).
func (n *ethNode) Logs(ctx context.Context, _ map[string]any) (*rpc.Subscription, error) {
	notifier, ok := rpc.NotifierFromContext(ctx)
	if !ok {
		return nil, rpc.ErrNotificationsUnsupported
	}
	sub := notifier.CreateSubscription()
	n.mu.Lock()
	n.notifier, n.subID = notifier, sub.ID
	n.mu.Unlock()
	if _, err := n.gate(&gcall{m: "Watch"}); err != nil {
		return nil, err
	}
	return sub, nil
}

func (n *ethNode) notify(lg *types.Log) error {
	n.mu.Lock()
	notifier, id := n.notifier, n.subID
	n.mu.Unlock()
	if notifier == nil {
		return errors.New("no subscription")
	}
	return notifier.Notify(id, lg)
}

func word(v uint64) []byte { return common.LeftPadBytes(new(big.Int).SetUint64(v).Bytes(), 32) }

// logOf is event id as the LogStateUpdate(globalRoot, blockNumber, blockHash) log the core
// contract emits; the field values are those of (*run).update.
func (r *run) logOf(id int, removed bool) *types.Log {
	data := append(append(word(uint64(1000+id)), word(uint64(r.l2of[id]))...), word(uint64(id))...)
	h := uint64(r.l1of[id])
	return &types.Log{
		Address:     common.HexToAddress(coreContract),
		Topics:      []common.Hash{logStateUpdateTopic},
		Data:        data,
		BlockNumber: h,
		TxHash:      common.BigToHash(new(big.Int).SetUint64(uint64(7000 + id))),
		BlockHash:   common.BigToHash(new(big.Int).SetUint64(0xb10c0000 + h)),
		Index:       uint(id),
		Removed:     removed,
	}
}

// ---------------------------------------------------------------------------- scripted L1 node + monitor

type msg struct {
	id      int
	removed bool
}

type run struct {
	rng   *rand.Rand
	idx   int
	chunk int
	lag   bool

	// the scripted node (mirror of the node half of L1.tla)
	blocks    [][]int // blocks[h-1] = event ids of height h
	fin       int
	nEv       int
	l1of      map[int]int
	l2of      map[int]int
	reorgs    int
	fails     int
	subUp     bool
	subPos    int
	sub       *gsub
	ch        chan<- *jl1.StateUpdate
	sent      []msg
	delivered map[int]bool

	// monitor (the property, evaluated on the run)
	filterApplied []int // events merged through FilterStateUpdate answers
	consumed      int   // messages of `sent` the client had taken at its last call
	expStored     int
	lastHeadL2    uint64
	announced     []int

	events []event
	mu     sync.Mutex
	closed bool
	bc     *blockchain.Blockchain

	base     int // the head a restarted client found in the database (0 none)
	registry sync.Map // event id -> [2]uint64{Starknet block number, state root}; read by the concurrent reader
	kept     []retained // scripted mode: what the harness handed to the client
	heads    []headSeen // what OnNewL1Head announced (pointer + copy)
	feedIDs  []int      // what the L1-head feed delivered

	// geth mode
	node      *ethNode
	tap       *tapProvider
	httpSrv   *httptest.Server
	forceFail bool   // the connection was dropped: the pending call cannot succeed
	broken    string // harness problem detected inside a node action

	// storage faults
	store       *headStore
	writeFailed int // event id of the head whose Put was failed since the scheduler last looked (0 none)
	wfails      int // failed writes so far
	prevStored  int // the expected head before the setL1Head that is being answered
}

// headStore is the database under the Blockchain: the shared fault-injecting store with the outcome
// of a Put of the L1-head record observed (and logged) at the Put itself, the linearisation point.
type headStore struct {
	*faultkv.Store
	r *run
}

func (s *headStore) Put(k, v []byte) error {
	err := s.Store.Put(k, v)
	if errors.Is(err, faultkv.ErrInjected) && bytes.Equal(k, db.L1Height.Key()) {
		var h core.L1Head
		id := -1
		if encoder.Unmarshal(v, &h) == nil {
			id = headID(h)
		}
		s.r.log(event{Ev: "WriteFail", X: id})
		s.r.mu.Lock()
		s.r.writeFailed = id
		s.r.wfails++
		s.r.mu.Unlock()
	}
	return err
}

func (s *headStore) WithListener(db.EventListener) db.KeyValueStore { return s }

func (r *run) takeWriteFailed() int {
	r.mu.Lock()
	defer r.mu.Unlock()
	id := r.writeFailed
	r.writeFailed = 0
	return id
}

func (r *run) log(e event) {
	r.mu.Lock()
	if !r.closed {
		r.events = append(r.events, e)
	}
	r.mu.Unlock()
}

func (r *run) top() int { return len(r.blocks) }

func (r *run) canonical(e int) bool {
	h := r.l1of[e]
	if h < 1 || h > r.top() {
		return false
	}
	for _, x := range r.blocks[h-1] {
		if x == e {
			return true
		}
	}
	return false
}

func (r *run) nextL2() int {
	best := 0
	for e := 1; e <= r.nEv; e++ {
		if r.canonical(e) && e > best {
			best = e
		}
	}
	if best == 0 {
		return 0 // the first commit is Starknet block 0
	}
	return r.l2of[best] + 1
}

func (r *run) update(id int, removed bool) *jl1.StateUpdate {
	return &jl1.StateUpdate{
		L2BlockNumber: uint64(r.l2of[id]),
		L2BlockHash:   *new(felt.Felt).SetUint64(uint64(id)),
		StateRoot:     *new(felt.Felt).SetUint64(uint64(1000 + id)),
		L1RefHeight:   uint64(r.l1of[id]),
		Removed:       removed,
	}
}

func (r *run) send(id int, removed bool) {
	r.sent = append(r.sent, msg{id, removed})
	if r.node == nil {
		u := r.update(id, removed)
		r.kept = append(r.kept, retained{ptr: u, copy: *u, via: "the subscription"})
		r.ch <- u // buffered (128); the script never sends that many
		return
	}
	// geth mode: notify the subscription and wait until the log has travelled through the websocket,
	// the abigen watcher and forwardStateUpdates into the client's channel (the client is blocked in
	// an rpc call meanwhile, so the channel only grows)
	before := len(r.ch)
	if err := r.node.notify(r.logOf(id, removed)); err != nil {
		r.broken = "notify failed: " + err.Error()
		return
	}
	deadline := time.Now().Add(gateTimeout)
	for len(r.ch) != before+1 {
		if time.Now().After(deadline) {
			r.broken = "a pushed log never reached the client's update channel"
			return
		}
		time.Sleep(20 * time.Microsecond)
	}
}

func (r *run) eventsIn(lo, hi int) []int {
	var out []int
	for e := 1; e <= r.nEv; e++ {
		if r.canonical(e) && r.l1of[e] >= lo && r.l1of[e] <= hi {
			out = append(out, e)
		}
	}
	return out
}

func (r *run) unconsumed() []msg {
	n := 0
	if r.ch != nil {
		n = len(r.ch)
	}
	return r.sent[len(r.sent)-n:]
}

// --- node actions (each logs its trace event first, then acts)

func (r *run) mine(n int) {
	r.log(event{Ev: "Mine", X: n})
	l2 := r.nextL2()
	var ids []int
	for i := 0; i < n; i++ {
		r.nEv++
		r.l1of[r.nEv] = r.top() + 1
		r.l2of[r.nEv] = l2 + i
		r.registry.Store(r.nEv, [2]uint64{uint64(l2 + i), uint64(1000 + r.nEv)})
		ids = append(ids, r.nEv)
	}
	r.blocks = append(r.blocks, ids)
}

func (r *run) finalise(h int) {
	r.log(event{Ev: "Finalise", X: h})
	r.fin = h
}

func (r *run) canFinalise(h int) bool {
	if h <= r.fin || h > r.top() {
		return false
	}
	if r.lag {
		return true
	}
	for _, m := range r.unconsumed() { // the registered timing assumption (FinalityAfterNotices)
		if m.removed && r.l1of[m.id] <= h {
			return false
		}
	}
	return true
}

func (r *run) goneBy(k int) []int {
	var gone []int
	for _, e := range r.eventsIn(k+1, r.top()) {
		if r.delivered[e] {
			gone = append(gone, e)
		}
	}
	return gone
}

func (r *run) canReorg(k int) bool {
	return r.reorgs < maxReorgs && k >= r.fin && k < r.top() && (len(r.goneBy(k)) == 0 || r.subUp)
}

func (r *run) reorg(k int) {
	r.log(event{Ev: "Reorg", X: k})
	gone := r.goneBy(k)
	r.blocks = r.blocks[:k]
	r.reorgs++
	if r.subPos > k {
		r.subPos = k
	}
	for _, e := range gone {
		r.send(e, true)
	}
}

func (r *run) push() {
	r.log(event{Ev: "Push"})
	for _, e := range r.blocks[r.subPos] {
		r.delivered[e] = true
		r.send(e, false)
	}
	r.subPos++
}

func (r *run) subFail() {
	r.log(event{Ev: "SubFail"})
	r.subUp = false
	r.fails++
	if r.node != nil {
		// drop the websocket: the subscription errors out, and so does the call the client is blocked in
		r.forceFail = true
		r.httpSrv.CloseClientConnections()
		return
	}
	r.sub.errCh <- errors.New("subscription dropped")
}

// --- monitor

// live returns the merged, not removed events as of the client's last call.
func (r *run) live() map[int]bool {
	live := map[int]bool{}
	if r.base != 0 {
		live[r.base] = true
	}
	for _, e := range r.filterApplied {
		live[e] = true
	}
	for _, m := range r.sent[:r.consumed] {
		if m.removed {
			delete(live, m.id) // "subsequently reported as removed"
		} else {
			live[m.id] = true
		}
	}
	return live
}

func (r *run) best(f int) int {
	best := 0
	for e := range r.live() {
		if r.l1of[e] > f {
			continue
		}
		if best == 0 || r.l1of[e] > r.l1of[best] || (r.l1of[e] == r.l1of[best] && e > best) {
			best = e
		}
	}
	return best
}

func headID(h core.L1Head) int {
	if h.BlockHash == nil {
		return 0
	}
	return int(h.BlockHash.Uint64())
}

type violation struct {
	key, what string
}

type headSeen struct {
	ptr        *core.L1Head
	number     uint64
	hash, root felt.Felt
}

// checkHead compares the database with the property; called while the client is blocked.
func (r *run) checkHead(lastFin int) *violation {
	h, err := r.bc.L1Head()
	got := 0
	if err == nil {
		got = headID(h)
	} else if !errors.Is(err, db.ErrKeyNotFound) {
		return &violation{"l1:head-unreadable", err.Error()}
	}
	r.log(event{Ev: "Read", X: got})
	if got == r.expStored {
		if got != 0 {
			if h.BlockNumber != uint64(r.l2of[got]) || !h.StateRoot.Equal(new(felt.Felt).SetUint64(uint64(1000+got))) {
				return &violation{"l1:head-fields", fmt.Sprintf("head of event %d carries number %d root %s", got, h.BlockNumber, h.StateRoot)}
			}
			if h.BlockNumber < r.lastHeadL2 {
				return &violation{"l1:head-regressed", fmt.Sprintf("Starknet block number went from %d to %d", r.lastHeadL2, h.BlockNumber)}
			}
			r.lastHeadL2 = h.BlockNumber
		}
		return nil
	}
	desc := func(e int) string {
		if e == 0 {
			return "none"
		}
		return fmt.Sprintf("event %d (L1 block %d, Starknet block %d)", e, r.l1of[e], r.l2of[e])
	}
	kind := "not-best"
	switch {
	case got != 0 && r.l1of[got] > lastFin:
		kind = "above-finalised"
	case got != 0 && !r.live()[got] && !r.isMerged(got):
		kind = "never-merged"
	case got != 0 && !r.live()[got]:
		kind = "removed"
	case got == 0:
		kind = "missing"
	case r.expStored != 0 && r.l1of[got] < r.l1of[r.expStored]:
		kind = "lower-than-best"
	case r.expStored == 0:
		kind = "unexpected"
	}
	return &violation{"l1:stored-head:" + kind, fmt.Sprintf(
		"after setL1Head with finalised height %d the database holds %s, the property demands %s",
		lastFin, desc(got), desc(r.expStored))}
}

func (r *run) isMerged(e int) bool {
	if e == r.base {
		return true
	}
	for _, x := range r.filterApplied {
		if x == e {
			return true
		}
	}
	for _, m := range r.sent[:r.consumed] {
		if m.id == e && !m.removed {
			return true
		}
	}
	return false
}

// ---------------------------------------------------------------------------- one run

type outcome struct {
	events []event
	viol   *violation
	broken string
	stats  map[string]int
}

const gateTimeout = 20 * time.Second

func oneRun(seed int64, idx, rounds int, lag, geth bool) outcome {
	rng := rand.New(rand.NewSource(seed*1_000_003 + int64(idx)))
	if geth {
		rng = rand.New(rand.NewSource(seed*1_000_003 + int64(idx) + 500_000))
	}
	r := &run{rng: rng, idx: idx, lag: lag, l1of: map[int]int{}, l2of: map[int]int{}, delivered: map[int]bool{}}
	r.chunk = []int{1, 2, 3, 10}[rng.Intn(4)]
	st := map[string]int{}
	out := outcome{stats: st}
	r.log(event{Ev: "Reset", X: r.chunk})

	// some history before the client starts (what catch-up has to find)
	// (commits tend to sit in the older blocks, so that the backward scan needs several chunks)
	for n := rng.Intn(8); n > 0; n-- {
		k := 0
		if rng.Intn(2+r.top()) < 2 {
			k = 1 + rng.Intn(maxPerBlock)
		}
		if r.nEv+k > maxEvents-4 {
			k = 0
		}
		r.mine(k)
	}
	if r.top() > 0 && rng.Intn(4) > 0 {
		r.finalise(1 + rng.Intn(1+r.top()/2))
	}

	r.store = &headStore{Store: faultkv.Wrap(memory.New()), r: r}
	r.bc = blockchain.New(r.store, &networks.Sepolia)
	p := &provider{calls: make(chan *gcall)}
	// geth mode: every client incarnation gets its own in-process node endpoint (rpc server + websocket
	// listener). A request the OLD client managed to put on the wire while it was being cancelled must
	// never be taken for a call of the new one: closing the old endpoint releases its handlers.
	var closeNode func()
	openNode := func() {
		if closeNode != nil {
			closeNode()
		}
		node := &ethNode{r: r, calls: p.calls, done: make(chan struct{})}
		rpcServer := rpc.NewServer()
		if err := rpcServer.RegisterName("eth", node); err != nil {
			panic(err)
		}
		srv := httptest.NewServer(rpcServer.WebsocketHandler([]string{"*"}))
		r.node, r.httpSrv = node, srv
		closeNode = func() {
			close(node.done)
			srv.CloseClientConnections()
			rpcServer.Stop()
			srv.Close()
		}
	}
	if geth {
		defer func() { closeNode() }()
	}
	poll := []time.Duration{20 * time.Microsecond, 200 * time.Microsecond, 2 * time.Millisecond}[rng.Intn(3)]
	listener := jl1.SelectiveListener{OnNewL1HeadCb: func(h *core.L1Head) {
		r.log(event{Ev: "NewHead", X: headID(*h)})
		seen := headSeen{ptr: h, number: h.BlockNumber}
		if h.BlockHash != nil {
			seen.hash = *h.BlockHash
		}
		if h.StateRoot != nil {
			seen.root = *h.StateRoot
		}
		r.mu.Lock()
		r.heads = append(r.heads, seen)
		r.mu.Unlock()
	}}

	// ---- observers that live as long as the run (class "concurrency"): a reader of
	// Blockchain.L1Head() racing with the client's writes, and a subscriber of the L1-head feed
	stopObservers := make(chan struct{})
	var observers sync.WaitGroup
	var obsMu sync.Mutex
	var obsViol *violation
	observe := func(v *violation) {
		obsMu.Lock()
		if obsViol == nil {
			obsViol = v
		}
		obsMu.Unlock()
	}
	observers.Add(1)
	go func() {
		defer observers.Done()
		defer func() {
			if p := recover(); p != nil {
				observe(&violation{"l1:concurrent-read:panic", fmt.Sprint("Blockchain.L1Head() panicked under a concurrent writer: ", p)})
			}
		}()
		var lastL2 uint64
		seenAny := false
		for n := 0; ; n++ {
			select {
			case <-stopObservers:
				return
			default:
			}
			h, err := r.bc.L1Head()
			switch {
			case errors.Is(err, db.ErrKeyNotFound):
				if seenAny {
					observe(&violation{"l1:concurrent-read:vanished", "a concurrent reader found no L1 head after it had seen one"})
					return
				}
			case err != nil:
				observe(&violation{"l1:concurrent-read:error", err.Error()})
				return
			default:
				id := headID(h)
				f, known := r.registry.Load(id)
				if !known || h.StateRoot == nil {
					observe(&violation{"l1:concurrent-read:unknown-commit", fmt.Sprintf("a concurrent reader saw a head that is no commit of the L1 node: number %d hash id %d", h.BlockNumber, id)})
					return
				}
				want := f.([2]uint64)
				if h.BlockNumber != want[0] || !h.StateRoot.Equal(new(felt.Felt).SetUint64(want[1])) {
					observe(&violation{"l1:concurrent-read:torn", fmt.Sprintf("a concurrent reader saw a head mixing two commits: number %d hash id %d root %s", h.BlockNumber, id, h.StateRoot)})
					return
				}
				if seenAny && h.BlockNumber < lastL2 {
					observe(&violation{"l1:concurrent-read:regressed", fmt.Sprintf("a concurrent reader saw the Starknet block number go from %d to %d", lastL2, h.BlockNumber)})
					return
				}
				seenAny, lastL2 = true, h.BlockNumber
			}
			if n%8 == 0 {
				time.Sleep(5 * time.Microsecond)
			}
		}
	}()
	// the L1-head feed: taken by the scheduler while the client is blocked or has stopped (the
	// subscription buffers one head and the client sends at most one between two provider calls)
	feedSub := r.bc.SubscribeL1Head()
	drainFeed := func() *violation {
		last := -1
		for {
			select {
			case h, ok := <-feedSub.Recv():
				if !ok {
					return nil
				}
				if h == nil {
					continue
				}
				last = headID(*h)
				r.log(event{Ev: "Feed", X: last})
				r.feedIDs = append(r.feedIDs, last)
				continue
			default:
			}
			break
		}
		if last < 0 {
			return nil
		}
		// write first, announce second: what the feed announced last is what the database holds
		got := 0
		if h, err := r.bc.L1Head(); err == nil {
			got = headID(h)
		}
		if got != last {
			return &violation{"l1:head-feed:announced-not-recorded", fmt.Sprintf(
				"the L1-head feed announced event %d while the database holds event %d (0 = none): the head was announced without being recorded", last, got)}
		}
		return nil
	}

	type runEnd struct {
		err      error
		panicked any
	}
	var (
		cancel context.CancelFunc
		done   chan runEnd
	)
	// startClient creates a NEW client (and, in geth mode, a new real provider: Run closes its
	// provider when it returns) on the same database.
	startClient := func() string {
		var ctx context.Context
		ctx, cancel = context.WithCancel(context.Background())
		var prov jl1.L1StateProvider = p
		if geth {
			openNode()
			real, err := jl1.NewGethL1StateProvider(ctx, "ws"+strings.TrimPrefix(r.httpSrv.URL, "http"), eth.AddressFromString(coreContract))
			if err != nil {
				return "cannot connect the real GethL1StateProvider to the in-process node: " + err.Error()
			}
			if r.tap != nil {
				r.kept = append(r.kept, r.tap.retainedSnapshot()...)
			}
			r.tap = &tapProvider{GethL1StateProvider: real}
			prov = r.tap
		}
		client := jl1.NewClient(prov, r.bc, log.NewNopZapLogger(),
			jl1.WithPollFinalisedInterval(poll), jl1.WithResubscribeDelay(200*time.Microsecond),
			jl1.WithCatchUpChunkSize(uint64(r.chunk)), jl1.WithEventListener(listener))
		d := make(chan runEnd, 1)
		done = d
		go func() {
			defer func() {
				if p := recover(); p != nil {
					d <- runEnd{panicked: p}
				}
			}()
			d <- runEnd{err: client.Run(ctx)}
		}()
		return ""
	}
	// stopClient cancels the client and waits for Run to return.
	stopClient := func() string {
		cancel()
		select {
		case e := <-done:
			if e.panicked != nil && out.viol == nil {
				out.viol = &violation{"l1:panic", fmt.Sprint("l1.Client.Run panicked: ", e.panicked)}
			}
		case <-time.After(gateTimeout):
			return "client.Run did not return after cancellation"
		}
		return ""
	}
	finish := func() {
		r.mu.Lock()
		r.closed = true
		r.mu.Unlock()
		if msg := stopClient(); msg != "" && out.viol == nil {
			out.broken = msg
		}
		close(stopObservers)
		feedSub.Unsubscribe()
		observers.Wait()
		out.events = r.events
		if out.viol != nil {
			return
		}
		// ---- end-of-run checks on everything that was handed over or observed
		kept := r.kept
		who := "client" // scripted mode: only the client could have changed what the harness handed over
		if r.tap != nil {
			kept = append(kept, r.tap.retainedSnapshot()...)
			who = "provider"
		}
		if v := checkRetained(kept, who); v != nil {
			out.viol = v
			return
		}
		var announced []int
		for _, h := range r.heads {
			announced = append(announced, int(h.hash.Uint64()))
			if h.ptr.BlockNumber != h.number || h.ptr.BlockHash == nil || h.ptr.StateRoot == nil ||
				!h.ptr.BlockHash.Equal(&h.hash) || !h.ptr.StateRoot.Equal(&h.root) {
				out.viol = &violation{"l1:announced-head-changed", fmt.Sprintf(
					"the *core.L1Head passed to OnNewL1Head (Starknet block %d) was modified afterwards", h.number)}
				return
			}
		}
		i := 0
		for _, id := range r.feedIDs { // the feed is lossy: a subsequence of what was announced
			for i < len(announced) && announced[i] != id {
				i++
			}
			if i == len(announced) {
				out.viol = &violation{"l1:head-feed:not-announced", fmt.Sprintf(
					"the L1-head feed delivered %v, OnNewL1Head announced %v", r.feedIDs, announced)}
				return
			}
			i++
		}
		st["feed_heads_seen"] += len(r.feedIDs)
		obsMu.Lock()
		out.viol = obsViol
		obsMu.Unlock()
	}
	if msg := startClient(); msg != "" {
		out.broken = msg
		close(stopObservers)
		feedSub.Unsubscribe()
		observers.Wait()
		return out
	}

	restarted := false
	lastFin := 0
	checkPending := false    // a setL1Head completed since the last check
	nextFinIsSnapshot := false // the next FinalisedHeight call is catch-up's snapshot, not a setL1Head
	finalDone := false
	armed := false // the store fails the next Put of the head record
	live := false  // this client has subscribed: its setL1Head calls are those of the ticker
	// newIncarnation forgets everything the old client object knew and starts a new client on the
	// same database (the Restart action of L1.tla).
	newIncarnation := func() string {
		r.base = r.expStored
		r.ch, r.sub, r.subUp = nil, nil, false
		r.sent, r.consumed, r.filterApplied = nil, 0, nil
		r.delivered = map[int]bool{}
		if r.base != 0 {
			r.delivered[r.base] = true
		}
		r.forceFail = false
		nextFinIsSnapshot, checkPending, live = false, false, false
		return startClient()
	}
	phase := func() string {
		if !live {
			return "catchup"
		}
		return "tick"
	}
	for round := 0; ; round++ {
		var c *gcall
		select {
		case c = <-p.calls:
		case e := <-done:
			// ---- Run returned by itself
			if e.panicked != nil {
				done <- e // finish() collects it
				out.viol = &violation{"l1:panic", fmt.Sprint("l1.Client.Run panicked: ", e.panicked)}
				finish()
				return out
			}
			cancel()
			ended := make(chan runEnd, 1) // finish() waits for a Run that has returned already
			ended <- e
			done = ended
			r.store.Disarm()
			armed = false
			if v := drainFeed(); v != nil {
				out.viol = v
				finish()
				return out
			}
			failed := r.takeWriteFailed()
			if failed != 0 {
				st["write_faults_fired"]++
			}
			if failed == 0 {
				// the specification (StopOnlyOnWriteFailure) knows one reason for Run to return while its
				// context is live: the head could not be written
				out.viol = &violation{"l1:client-stopped:no-write-failure", fmt.Sprintf(
					"l1.Client.Run returned by itself (error: %v) although no write of the L1 head had failed", e.err)}
				finish()
				return out
			}
			okv := 0
			if e.err != nil {
				okv = 1
			}
			r.log(event{Ev: "Stopped", X: okv})
			st["stops_after_write_failure"]++
			if e.err != nil && errors.Is(e.err, faultkv.ErrInjected) {
				st["stops_with_the_store_error"]++
			}
			// the failed write left the record as it was
			r.expStored = r.prevStored
			checkPending = false
			if v := r.checkHead(lastFin); v != nil {
				v.key = "l1:head-write-failed:record-changed:" + strings.TrimPrefix(v.key, "l1:stored-head:")
				out.viol = v
				finish()
				return out
			}
			// the node went down with the service; the operator starts it again
			st["restarts_after_stop"]++
			r.log(event{Ev: "Restart"})
			if msg := newIncarnation(); msg != "" {
				out.broken = msg
				finish()
				return out
			}
			continue
		case <-time.After(gateTimeout):
			out.broken = "client did not reach a provider call (quiescence timeout)"
			finish()
			return out
		}
		// ---- the client is blocked: what it did since its last call
		if armed {
			r.store.Disarm()
			armed = false
		}
		if v := drainFeed(); v != nil {
			out.viol = v
			finish()
			return out
		}
		failedWrite := r.takeWriteFailed() // != 0: a write of the head failed and the client is still running
		if failedWrite != 0 {
			st["write_faults_fired"]++
			st["running_after_write_failure"]++
		}
		// ---- log its arrival
		if r.tap != nil {
			r.ch = r.tap.channel()
		}
		q := -1
		if r.ch != nil {
			q = len(r.ch)
			r.consumed = len(r.sent) - q
		}
		switch c.m {
		case "Filter":
			r.log(event{Ev: "CallFilter", X: int(c.from), Y: int(c.to), Q: q})
		default:
			r.log(event{Ev: "Call" + c.m, Q: q})
		}
		if checkPending || rng.Intn(4) == 0 {
			if checkPending {
				st["setheads_checked"]++
			}
			checkPending = false
			if v := r.checkHead(lastFin); v != nil {
				if failedWrite != 0 {
					// the conditional property: a client may stop on a failed write, it may not go on with a stale record
					v.key = "l1:head-write-failed:running-with-stale-record:" + phase()
					v.what = fmt.Sprintf("the Put of the L1-head record (event %d) failed, the client kept running (next call: %s) and %s",
						failedWrite, c.m, v.what)
				}
				out.viol = v
				finish()
				return out
			}
		}
		winding := round >= rounds
		if winding && c.m == "Fin" && !nextFinIsSnapshot && r.ch != nil && q == 0 {
			if finalDone {
				// quiescent end: everything sent was merged and the setL1Head after that was checked
				st["rounds"] += round
				finish()
				return out
			}
			finalDone = true
		}
		if (c.m == "Latest" || c.m == "Filter" || c.m == "ChainID") && r.ch != nil {
			// the live loop only ever asks for the finalised height and (re)subscribes
			out.viol = &violation{"l1:unexpected-call:" + c.m, "the client called " + c.m + " after the live subscription had started"}
			finish()
			return out
		}
		if round > rounds*4+400 {
			// not a verdict by itself: the recorded prefix still goes to TLC
			st["undrained_runs"]++
			finish()
			return out
		}

		// ---- restart: stop this client while it is blocked in the call, start a new one on the same database
		if !winding && !restarted && round > 2 && rng.Intn(40) == 0 {
			restarted = true
			st["restarts"]++
			r.log(event{Ev: "Restart"})
			if msg := stopClient(); msg != "" {
				out.broken = msg
				finish()
				return out
			}
			if out.viol != nil {
				finish()
				return out
			}
			select { // release the rpc handler of the abandoned call (geth mode)
			case c.resp <- gresp{err: errors.New("node restarted")}:
			default:
			}
			if msg := newIncarnation(); msg != "" {
				out.broken = msg
				finish()
				return out
			}
			continue
		}

		// ---- the scripted node acts
		if !winding {
			for n := rng.Intn(4); n > 0; n-- {
				switch a := rng.Intn(10); {
				case a < 3 && r.top() < maxBlocks:
					k := []int{0, 1, 1, 2}[rng.Intn(4)]
					if r.nEv+k > maxEvents {
						k = 0
					}
					r.mine(k)
					st["mines"]++
				case a < 5 && r.top() > r.fin:
					h := r.fin + 1 + rng.Intn(r.top()-r.fin)
					if r.canFinalise(h) {
						r.finalise(h)
						st["finalises"]++
					}
				case a < 6 && r.top() > r.fin:
					k := r.fin + rng.Intn(r.top()-r.fin)
					if r.subUp && rng.Intn(2) == 0 { // prefer a reorg that drops delivered logs
						for j := r.fin; j < r.top(); j++ {
							if len(r.goneBy(j)) > 0 {
								k = j
							}
						}
					}
					if r.canReorg(k) {
						if len(r.goneBy(k)) > 0 {
							st["reorgs_with_notices"]++
						}
						r.reorg(k)
						st["reorgs"]++
					}
				case a < 9 && r.subUp && r.subPos < r.top():
					r.push()
					st["pushes"]++
				case a == 9 && r.subUp && r.fails < maxFail && rng.Intn(2) == 0 &&
					(r.node == nil || (r.fails+2 <= maxFail && !r.forceFail)):
					r.subFail()
					st["subfails"]++
				}
				if r.broken != "" {
					out.broken = r.broken
					finish()
					return out
				}
			}
		}

		// ---- answer the call
		failOneIn := 7
		if r.ch == nil {
			failOneIn = 16 // keep most catch-up scans alive
		}
		fail := r.forceFail || (!winding && r.fails < maxFail && rng.Intn(failOneIn) == 0)
		r.forceFail = false
		resp := gresp{}
		okv := 1
		if fail {
			r.fails++
			st["failed_calls"]++
			okv = 0
			resp.err = errors.New("scripted failure")
		}
		switch c.m {
		case "ChainID":
			r.log(event{Ev: "RetChainID", X: okv})
		case "Latest":
			resp.val = uint64(r.top())
			r.log(event{Ev: "RetLatest", X: okv, Y: r.top()})
			nextFinIsSnapshot = !fail
		case "Fin":
			resp.val = uint64(r.fin)
			w := 0
			if nextFinIsSnapshot {
				nextFinIsSnapshot = false
			} else if !fail { // this answer completes a setL1Head
				lastFin = r.fin
				r.prevStored = r.expStored
				r.expStored = r.best(r.fin)
				checkPending = true
				st["setheads"]++
				// storage fault: the Put of the head record, if this setL1Head gets that far, fails
				// (more often when the monitor expects the head to move: then there is a Put)
				if !winding && r.wfails < maxWriteFail {
					oneIn := 24
					if r.expStored != r.prevStored {
						oneIn = 5
					}
					if rng.Intn(oneIn) == 0 {
						r.store.Arm(faultkv.FailAt, 1, nil)
						armed, w = true, 1
						st["write_faults_armed"]++
					}
				}
			}
			r.log(event{Ev: "RetFin", X: okv, Y: r.fin, W: w})
		case "Filter":
			var got []int
			if !fail {
				got = r.eventsIn(int(c.from), int(c.to))
				resp.ids = got
				for _, e := range got {
					u := r.update(e, false)
					if r.node == nil {
						r.kept = append(r.kept, retained{ptr: u, copy: *u, via: "FilterStateUpdate"})
					}
					resp.events = append(resp.events, u)
					r.delivered[e] = true
					r.filterApplied = append(r.filterApplied, e)
				}
				st["filter_chunks"]++
			}
			r.log(event{Ev: "RetFilter", X: okv, Y: len(got)})
		case "Watch":
			if !fail {
				if r.node == nil {
					r.ch = c.ch
					r.sub = &gsub{errCh: make(chan error, 1)}
					resp.sub = r.sub
				}
				r.subUp = true
				r.subPos = r.top()
				live = true
			}
			r.log(event{Ev: "RetWatch", X: okv})
		}
		c.resp <- resp
	}
}

// ---------------------------------------------------------------------------- test entry points

func TestL1Record(t *testing.T) {
	if !vh.Enabled() {
		t.Skip()
	}
	var in input
	if err := vh.Input(&in); err != nil {
		t.Fatal(err)
	}
	out := vh.NewResult()
	defer out.Write()
	seed := in.Seed
	if seed == 0 {
		seed = vh.Seed()
	}
	rounds := in.Rounds
	if rounds == 0 {
		rounds = 30
	}
	name := in.TraceOut
	if name == "" {
		name = "l1trace.ndjson"
	}
	f, err := os.Create(filepath.Join(vh.Scratch(), name))
	if err != nil {
		t.Fatal(err)
	}
	defer f.Close()
	enc := json.NewEncoder(f)

	lo, hi := 1, in.Traces
	if in.Only > 0 {
		lo, hi = in.Only, in.Only
	}
	// runs are independent; a few at a time (each has its own client, chain and provider)
	type res struct {
		idx int
		o   outcome
	}
	const par = 4
	results := make([]outcome, hi-lo+1)
	var wg sync.WaitGroup
	sem := make(chan struct{}, par)
	for i := lo; i <= hi; i++ {
		wg.Add(1)
		sem <- struct{}{}
		go func(i int) {
			defer wg.Done()
			defer func() { <-sem }()
			results[i-lo] = oneRun(seed, i, rounds, in.Lag, in.Geth)
		}(i)
	}
	wg.Wait()
	nEvents := 0
	for k, o := range results {
		idx := lo + k
		if o.broken != "" {
			out.Count("broken_runs", 1)
			out.Sample(vh.J{"broken": o.broken, "trace": idx})
			continue
		}
		for _, e := range o.events {
			if err := enc.Encode(e); err != nil {
				t.Fatal(err)
			}
		}
		nEvents += len(o.events)
		for k, v := range o.stats {
			out.Count(k, v)
		}
		if o.viol != nil {
			out.Diverge(vh.Divergence{
				Key: o.viol.key, What: o.viol.what, Step: len(o.events),
				Input:    vh.J{"seed": seed, "only": idx, "traces": in.Traces, "rounds": rounds, "lag": in.Lag, "geth": in.Geth},
				Observed: o.events,
			})
		}
		if idx <= lo+1 {
			out.Sample(vh.J{"trace": idx, "events": o.events})
		}
		out.Count("runs_recorded", 1)
	}
	out.Count("events_recorded", nEvents)
	out.Done(0, nEvents)
}

// TestL1LagScenario is a DIRECTED schedule outside the registered timing assumption
// (FinalityAfterNotices): while the client is inside the FinalisedHeight call of a tick, the node
// reorgs away a block whose log the client has already merged, re-mines the height and reports it
// finalised. The removal notice is in the channel, but setL1Head runs before the select loop can
// take it. Reported as an observation, never as a verdict.
func TestL1LagScenario(t *testing.T) {
	if !vh.Enabled() {
		t.Skip()
	}
	out := vh.NewResult()
	defer out.Write()
	r := &run{rng: rand.New(rand.NewSource(1)), lag: true, chunk: 10, l1of: map[int]int{}, l2of: map[int]int{}, delivered: map[int]bool{}}
	r.log(event{Ev: "Reset", X: r.chunk})
	r.bc = blockchain.New(memory.New(), &networks.Sepolia)
	p := &provider{calls: make(chan *gcall)}
	client := jl1.NewClient(p, r.bc, log.NewNopZapLogger(),
		jl1.WithPollFinalisedInterval(200*time.Microsecond), jl1.WithResubscribeDelay(200*time.Microsecond),
		jl1.WithCatchUpChunkSize(uint64(r.chunk)), jl1.WithEventListener(jl1.SelectiveListener{}))
	ctx, cancel := context.WithCancel(context.Background())
	defer cancel()
	go func() { _ = client.Run(ctx) }()
	stage := 0
	for round := 0; round < 2000; round++ {
		var c *gcall
		select {
		case c = <-p.calls:
		case <-time.After(gateTimeout):
			out.Count("lag_scenario_timeout", 1)
			return
		}
		q := -1
		if r.ch != nil {
			q = len(r.ch)
			r.consumed = len(r.sent) - q
		}
		r.log(event{Ev: "Call" + c.m, X: int(c.from), Y: int(c.to), Q: q})
		resp := gresp{}
		switch c.m {
		case "Latest":
			resp.val = uint64(r.top())
		case "Watch":
			r.ch = c.ch
			r.sub = &gsub{errCh: make(chan error, 1)}
			resp.sub, r.subUp, r.subPos = r.sub, true, r.top()
		case "Fin":
			switch {
			case stage == 0 && r.ch != nil: // first tick: a commit is mined and pushed
				r.mine(1)
				r.push()
				stage = 1
			case stage == 1 && q == 0 && r.consumed == 1: // the commit has been merged; now, inside the call:
				r.reorg(0)    // ... its block is reorged away (the removal notice is queued),
				r.mine(0)     // ... the height is mined again without the commit
				r.finalise(1) // ... and reported finalised
				stage = 2
			case stage == 2:
				h, err := r.bc.L1Head()
				if err == nil && headID(h) == 1 && !r.canonical(1) {
					out.Count("lag_reproduced", 1)
					out.Sample(vh.J{"observation": "a removed commit was persisted as L1 head", "head": h.BlockNumber, "events": r.events})
				} else {
					out.Count("lag_not_reproduced", 1)
				}
				out.Done(1, len(r.events))
				return
			}
			resp.val = uint64(r.fin)
		}
		r.log(event{Ev: "Ret" + c.m, X: 1, Y: int(resp.val)})
		c.resp <- resp
	}
	out.Count("lag_not_reproduced", 1)
}

package syncengine

import (
	"context"
	"errors"
	"fmt"
	"math/rand"
	"strings"
	stdsync "sync"
	"sync/atomic"
	"time"

	"github.com/NethermindEth/juno/blockchain"
	"github.com/NethermindEth/juno/core"
	"github.com/NethermindEth/juno/core/felt"
	"github.com/NethermindEth/juno/starknet"
	jsync "github.com/NethermindEth/juno/sync"

	"verifharness/internal/chainkit"
	"verifharness/internal/refimpl"
	"verifharness/internal/vh"
)

// Decision is one choice of the environment (the scheduler). A run is reproducible from its
// scenario: the seed fixes the blocks, the decisions fix every answer and every source step.
type Decision struct {
	Op    string   `json:"op"`             // src | resp | sync | restart
	Kind  string   `json:"kind,omitempty"` // resp: block | latest
	H     uint64   `json:"h,omitempty"`    // resp/block: requested height
	R     string   `json:"r,omitempty"`    // resp: ok | bad | fg (forged) | wh (wrong height) | err
	BH    int      `json:"bh,omitempty"`   // resp wh: height of the block that is served instead
	Ver   int      `json:"ver,omitempty"`  // resp ok/bad: answering version
	SH    int      `json:"sh,omitempty"`   // resp/latest ok: height of the header served
	Corr  string   `json:"corr,omitempty"` // resp bad: corruption kind; resp fg: forgery kind (default diff-resealed)
	Below uint64   `json:"below,omitempty"`
	Len   int      `json:"len,omitempty"`
	Reqs  []uint64 `json:"reqs,omitempty"`
	NL    int      `json:"nl,omitempty"` // src: number of latest-header requests pending when it happened
	// resp/block, production data source only: the first class download this answer leads to fails
	ClassErr bool `json:"class_err,omitempty"`
	Burst    bool `json:"burst,omitempty"` // resp: do not wait for the node to settle first
}

type Scenario struct {
	Name      string            `json:"name"`
	Seed      int64             `json:"seed"`
	Mode      string            `json:"mode"` // random | script
	NewState  bool              `json:"new_state"`
	InitLen   int               `json:"init_len"`
	Plan      []SrcStep         `json:"plan"`
	Decisions []Decision        `json:"decisions,omitempty"`
	MaxFaults int               `json:"max_faults"`
	Restarts  int               `json:"restarts,omitempty"` // random mode: the node may be stopped and restarted this often
	Shapes    map[string]string `json:"shapes,omitempty"`   // tag -> block shape, overriding the default (see shapeNames)
	Classes   []ClassSpec       `json:"classes,omitempty"`  // classes mentioned by several blocks (see ClassSpec)
	// Prod: the Synchronizer is given the REAL sync.NewFeederGatewayDataSource over this run as a scripted
	// feeder (starknetdata.StarknetData) instead of this run as a scripted DataSource: which classes are
	// downloaded for a block is then decided by the code under test from the node's own state
	Prod bool `json:"prod,omitempty"`
	// Lenient: the decisions come from a behaviour of the specification (TLC simulation); the real node need
	// not offer the same requests in the same order: a decision that finds no taker is skipped after a short wait
	Lenient bool `json:"lenient,omitempty"`
	Steps   int  `json:"steps"`
}

type request struct {
	rid   int
	kind  string
	h     uint64
	ctx   context.Context
	v0    int
	reply chan reply
	call  *bbnCall // production data source: the BlockByNumber call this feeder request belongs to
}

type reply struct {
	cb  jsync.CommittedBlock
	hdr *core.Header
	err error
}

// a block answer handed to the node; Persisted tells what became of it
type delivery struct {
	rid, tag, ver int
	h             uint64 // requested height
	bh            uint64 // number of the block that was served
	r, corr       string
	seq           int
	persisted     chan error
	resolved      bool
	outcome       string
	accounted     bool
	loop          bool  // consumed by revertTask (requested height was already in the chain): never resolves
	nc            []int // ids of the classes in the NewClasses of the CommittedBlock
}

var (
	errInjected = errors.New("source: injected failure")
	errNotFound = errors.New("source: block not found")
	errClosed   = errors.New("source: closed")
)

type run struct {
	sc   *Scenario
	w    *world
	node *chainkit.Node

	mu        stdsync.Mutex
	seq       int
	events    []vh.J
	closed    bool
	lateWrite int
	pending   []*request
	nextRid   int
	curVer    int
	planPos   int
	deliv     []*delivery
	shadow    []int // tags of the node's chain according to Stored / Reverted
	lastWrite int   // seq of the last Stored / Reverted
	faults    int
	recorded  []Decision
	abort     chan struct{}
	rng       *rand.Rand
	note      string
	restarts  int
	broken    string
	hung      string       // the node neither calls the source nor returns (what was recorded before is still valid)
	panicked  string       // a panic of the real code, recovered on the goroutine that runs Synchronizer.Run
	spins     int          // OnReorg calls that did not move the head (logged up to a cap)
	extra     []finding    // findings of the concurrent reader / the retained-value checks / the database re-verification
	servedOK  map[int]bool // tags that were served honestly to the fetch pipeline (random mode: re-fetch adversary)
	live      *liveNode
	exited    atomic.Bool  // Run returned although nobody stopped the node
	refusals  int          // Store refused the honest successor of the head this often
	classGone map[int]bool // classes whose definition a revert has removed in this run
	cstats    map[string]int
}

func (r *run) log(ev vh.J) int {
	r.seq++
	ev["seq"] = r.seq
	r.events = append(r.events, ev)
	return r.seq
}

// ---------------------------------------------------------------- DataSource (the gates)

func (r *run) enter(kind string, h uint64, ctx context.Context, call *bbnCall) *request {
	r.mu.Lock()
	defer r.mu.Unlock()
	if r.closed {
		return nil
	}
	r.nextRid++
	rq := &request{rid: r.nextRid, kind: kind, h: h, ctx: ctx, v0: r.curVer, reply: make(chan reply, 1), call: call}
	if kind == "block" {
		r.log(vh.J{"ev": "Req", "rid": rq.rid, "h": int(h)})
	} else {
		r.log(vh.J{"ev": "ReqLatest", "rid": rq.rid})
	}
	r.pending = append(r.pending, rq)
	return rq
}

func (r *run) BlockByNumber(ctx context.Context, n uint64) (jsync.CommittedBlock, error) {
	rq := r.enter("block", n, ctx, nil)
	if rq == nil {
		return jsync.CommittedBlock{}, errClosed
	}
	select {
	case rp := <-rq.reply:
		return rp.cb, rp.err
	case <-r.abort:
		return jsync.CommittedBlock{}, errClosed
	}
}

func (r *run) BlockHeaderLatest(ctx context.Context) (*core.Header, error) {
	rq := r.enter("latest", 0, ctx, nil)
	if rq == nil {
		return nil, errClosed
	}
	select {
	case rp := <-rq.reply:
		return rp.hdr, rp.err
	case <-r.abort:
		return nil, errClosed
	}
}

func (r *run) PreConfirmedBlockByNumber(context.Context, uint64, string, uint64) (starknet.PreConfirmedUpdate, error) {
	return nil, errors.New("not served")
}

func (r *run) PreConfirmedBlockLatest(context.Context, string, uint64) (starknet.PreConfirmedUpdate, uint64, error) {
	return nil, 0, errors.New("not served")
}

func (r *run) Class(context.Context, *felt.Felt) (core.ClassDefinition, error) {
	return nil, errors.New("not served")
}

// ---------------------------------------------------------------- listeners

func classify(err error) string {
	switch {
	case err == nil:
		return "stored"
	case errors.Is(err, blockchain.ErrParentDoesNotMatchHead):
		return "parent"
	case errors.Is(err, context.Canceled):
		return "ctx"
	}
	return "error"
}

// scanOutcomes polls the Persisted channel of every delivered block (mu held). It runs inside the
// listener callbacks, i.e. on the goroutine that produced the outcomes.
func (r *run) scanOutcomes() {
	for _, d := range r.deliv {
		if d.resolved {
			continue
		}
		select {
		case err := <-d.persisted:
			d.resolved = true
			d.outcome = classify(err)
			ev := vh.J{"ev": "Obs", "rid": d.rid, "h": int(d.h), "bh": int(d.bh), "r": d.r, "tag": d.tag, "outcome": d.outcome}
			if d.outcome == "error" && d.r == "ok" && int(d.bh) == len(r.shadow) && r.w.blocks[d.tag].parent == r.headTag() {
				// Store refused the honest successor of the head (no write can have happened since: outcomes are
				// scanned before every Stored / Reverted is recorded)
				ev["refused"], ev["err"] = true, firstLine(err.Error())
				r.refusals++
			}
			r.log(ev)
		default:
		}
	}
}

func (r *run) headTag() int {
	if len(r.shadow) == 0 {
		return 0
	}
	return r.shadow[len(r.shadow)-1]
}

func (r *run) onStored(n uint64) {
	hdr, herr := r.node.BC.HeadsHeader()
	problems := r.reverify(n)
	var cprob []string
	if herr == nil {
		if tag, ok := r.w.byHash[*hdr.Hash]; ok {
			r.mu.Lock()
			chain := append(append([]int{}, r.shadow...), tag)
			r.mu.Unlock()
			if int(n) == len(chain)-1 {
				cprob = r.classProblems(chain)
			}
		}
	}
	r.mu.Lock()
	defer r.mu.Unlock()
	if r.closed {
		r.lateWrite++
		return
	}
	r.addClassFindings(cprob, fmt.Sprintf("after block %d was stored", n))
	if len(problems) > 0 {
		key := "sync:stored-block-fails-reverification:" + problems[0][:strings.IndexByte(problems[0], ':')]
		dup := false
		for _, f := range r.extra {
			dup = dup || f.key == key
		}
		if !dup {
			r.extra = append(r.extra, finding{key: key, step: len(r.events), what: fmt.Sprintf(
				"block %d, read back from the database right after it was stored, does not pass an independent full verification: %s",
				n, strings.Join(problems, "; "))})
		}
	}
	r.scanOutcomes()
	ev := vh.J{"ev": "Stored", "h": int(n), "rid": 0, "tag": -1, "bad": false, "hashok": false}
	var d *delivery
	for _, x := range r.deliv {
		if x.resolved && x.outcome == "stored" && !x.accounted && x.bh == n {
			d = x
			break
		}
	}
	if d != nil {
		d.accounted = true
		ev["rid"], ev["tag"], ev["bad"], ev["corr"], ev["ver"] = d.rid, d.tag, d.r == "bad" || d.r == "fg", d.corr, d.ver
		want := r.w.blocks[d.tag].built.Block.Hash
		ev["hashok"] = herr == nil && hdr.Number == n && hdr.Hash.Equal(want)
	} else if herr == nil {
		if t, ok := r.w.byHash[*hdr.Hash]; ok {
			ev["tag"] = t
		}
	}
	r.lastWrite = r.log(ev)
	r.shadow = append(r.shadow, ev["tag"].(int))
}

// reverify is the property's "every block the node stores passed full verification" evaluated on the
// CONTENT of the database at store time, without any trust in the node's own verifier having run: the
// block and state update are read back, the block hash is recomputed from the content (transaction
// hashes, transaction / event / receipt / state-diff commitments), the content is compared with the
// source's block of that hash, and the state tries in the database are re-hashed against the honest
// block's state root (the root a twin node obtained by applying the honest diffs). It runs on the
// goroutine that stored the block, before any other write can happen. Each problem starts with its
// one-word class and a colon.
func (r *run) reverify(n uint64) (problems []string) {
	bc := r.node.BC
	blk, e1 := bc.BlockByNumber(n)
	su, e2 := bc.StateUpdateByNumber(n)
	if e1 != nil || e2 != nil || blk == nil || su == nil || blk.Header == nil || blk.Hash == nil || su.StateDiff == nil {
		return []string{fmt.Sprintf("unreadable: block: %v, state update: %v", e1, e2)}
	}
	if blk.Number != n {
		problems = append(problems, fmt.Sprintf("number: the block stored at height %d says it is #%d", n, blk.Number))
	}
	if _, err := core.VerifyBlockHash(blk, chainkit.Network, su.StateDiff, core.DeprecatedTrieBackend); err != nil {
		problems = append(problems, "hash: the stored content does not hash to the hash it is stored under: "+firstLine(err.Error()))
	}
	if su.BlockHash == nil || !su.BlockHash.Equal(blk.Hash) || su.NewRoot == nil || !su.NewRoot.Equal(blk.GlobalStateRoot) {
		problems = append(problems, "update: the stored state update does not belong to the stored header (block hash / new root)")
	}
	want := blk.GlobalStateRoot
	if tag, ok := r.w.byHash[*blk.Hash]; !ok {
		problems = append(problems, "unknown: no version of the source has a block with hash "+blk.Hash.ShortString())
	} else {
		if got := digest(blk, su); got != r.w.digests[tag] {
			problems = append(problems, fmt.Sprintf("content: differs from the source's block b%d of the same hash: got %s want %s", tag, got, r.w.digests[tag]))
		}
		want = r.w.blocks[tag].built.Block.GlobalStateRoot
		if r.w.blocks[tag].height != n {
			problems = append(problems, fmt.Sprintf("height: b%d is the source's block at height %d", tag, r.w.blocks[tag].height))
		}
	}
	st, closer, err := bc.HeadState()
	if err != nil {
		return append(problems, "state: head state cannot be opened: "+err.Error())
	}
	defer func() { _ = closer() }()
	ct, e1 := st.ContractTrie()
	cl, e2 := st.ClassTrie()
	if e1 != nil || e2 != nil {
		return append(problems, fmt.Sprintf("state: tries cannot be opened: %v %v", e1, e2))
	}
	cr, e1 := ct.Hash()
	clr, e2 := cl.Hash()
	if e1 != nil || e2 != nil {
		return append(problems, fmt.Sprintf("state: tries cannot be hashed: %v %v", e1, e2))
	}
	if root := refimpl.StateCommitment(&cr, &clr, blk.ProtocolVersion >= "0.14.0"); !root.Equal(want) {
		problems = append(problems, fmt.Sprintf("state-root: the state in the database hashes to %s, the block's state root is %s",
			root.ShortString(), want.ShortString()))
	}
	return problems
}

func (r *run) onReverted(n uint64) {
	height, herr := r.node.BC.Height()
	var cprob []string
	r.mu.Lock()
	chain := append([]int{}, r.shadow...)
	r.mu.Unlock()
	if len(chain) > 0 && int(n) == len(chain)-1 && ((n == 0 && herr != nil) || (n > 0 && herr == nil && height == n-1)) {
		before, after := r.w.expectedDefs(chain), r.w.expectedDefs(chain[:len(chain)-1])
		cprob = r.classProblems(chain[:len(chain)-1])
		r.mu.Lock()
		for id := range before {
			if _, still := after[id]; !still {
				r.classGone[id] = true
			}
		}
		r.mu.Unlock()
	}
	r.mu.Lock()
	defer r.mu.Unlock()
	if r.closed {
		r.lateWrite++
		return
	}
	r.addClassFindings(cprob, fmt.Sprintf("after block %d was reverted", n))
	r.scanOutcomes()
	ev := vh.J{"ev": "Reverted", "h": int(n), "tag": -1, "headok": false}
	if herr == nil && height == n {
		// RevertHead failed and revertHead() went on regardless (it ignores the error); a node doing
		// this in a loop must not flood the recording
		if r.spins++; r.spins > 50 {
			return
		}
	}
	if len(r.shadow) > 0 && int(n) == len(r.shadow)-1 {
		ev["tag"] = r.shadow[len(r.shadow)-1]
		ok := false
		if n == 0 {
			ok = herr != nil
		} else {
			ok = herr == nil && height == n-1
		}
		ev["headok"] = ok
		if ok {
			r.shadow = r.shadow[:len(r.shadow)-1]
		}
	}
	r.lastWrite = r.log(ev)
}

// ---------------------------------------------------------------- scheduler

func (r *run) seqNow() int {
	r.mu.Lock()
	defer r.mu.Unlock()
	return r.seq
}

// settle waits until the node has stopped producing events for a moment (best effort: it only
// makes runs more reproducible, soundness does not depend on it).
func (r *run) settle() {
	last, quiet := r.seqNow(), 0
	for i := 0; i < 100 && quiet < 3; i++ {
		time.Sleep(80 * time.Microsecond)
		if s := r.seqNow(); s == last {
			quiet++
		} else {
			quiet, last = 0, s
		}
	}
}

func (r *run) cur() []int { return r.w.chain(r.curVer) }

func (r *run) removePending(rq *request) {
	for i, x := range r.pending {
		if x == rq {
			r.pending = append(r.pending[:i], r.pending[i+1:]...)
			return
		}
	}
}

// legal reports whether decision d is an answer the specification's source may give to rq now.
func (r *run) legal(rq *request, d *Decision) bool {
	if d.R == "err" {
		return true
	}
	if d.Ver < rq.v0 || d.Ver > r.curVer {
		return false
	}
	c := r.w.chain(d.Ver)
	if rq.kind == "block" {
		if d.R == "wh" {
			return d.BH >= 0 && d.BH < len(c) && d.BH != int(rq.h) && int(rq.h) >= len(r.shadow)
		}
		if d.R == "fg" && int(rq.h) < len(r.shadow) {
			return false
		}
		return int(rq.h) < len(c)
	}
	return d.SH >= 0 && d.SH < len(c)
}

// release answers rq as d says (mu held); the event is logged before the node can see the answer.
func (r *run) release(rq *request, d Decision) {
	r.removePending(rq)
	d.Op, d.Kind, d.H = "resp", rq.kind, rq.h
	if rq.ctx.Err() == nil { // failing a cancelled call is automatic in a replay, not a decision
		r.recorded = append(r.recorded, d)
	}
	var rp reply
	if rq.kind == "block" {
		ev := vh.J{"ev": "Resp", "rid": rq.rid, "h": int(rq.h), "r": d.R, "ver": 0, "tag": 0, "corr": "none", "nc": []int{}, "src": "script"}
		switch d.R {
		case "err":
			rp.err = errInjected
			if rq.ctx.Err() != nil {
				rp.err = rq.ctx.Err()
				ev["why"] = "ctx"
			} else if int(rq.h) >= len(r.cur()) {
				rp.err = errNotFound
				ev["why"] = "notfound"
			} else {
				r.faults++
				ev["why"] = "injected"
			}
		default:
			bh := rq.h
			if d.R == "wh" {
				bh = uint64(d.BH)
			}
			tag := r.w.chain(d.Ver)[bh]
			corr := ""
			old := r.w.oldFormat(tag)
			switch d.R {
			case "bad":
				corr = d.Corr
				if old && corr == "receipt" { // nothing in a pre-0.13.2 block commits to the receipts
					corr = "timestamp"
				}
				// ... nor to the state diff: verification cannot see it. (The revert loop never verifies; to it
				// the copy is what it is: a corrupted block with the honest hash and parent hash.)
				if old && corr == "diff" && int(rq.h) >= len(r.shadow) {
					d.R, corr = "fg", forgery
				}
			case "fg":
				corr = forgery
				if isForgery(d.Corr) {
					corr = d.Corr
				}
			}
			if d.R != "ok" {
				r.faults++
			} else if int(rq.h) >= len(r.shadow) {
				r.servedOK[tag] = true
			}
			rp.cb = r.w.committed(tag, corr)
			ev["r"], ev["ver"], ev["tag"], ev["bh"], ev["corr"], ev["kind"] = d.R, d.Ver, tag, int(bh), specCorr(corr), corr
			dl := &delivery{rid: rq.rid, tag: tag, ver: d.Ver, h: rq.h, bh: bh, r: d.R, corr: corr,
				loop: int(rq.h) < len(r.shadow)}
			r.deliv = append(r.deliv, dl)
			if rq.call != nil {
				// production data source: this is only the feeder's answer; the Resp event is recorded when the
				// real BlockByNumber returns, with the NewClasses it computed (see tap.returned)
				rq.call.ev, rq.call.dl, rq.call.classErr = ev, dl, d.ClassErr
				rq.reply <- rp
				return
			}
			dl.persisted, dl.nc = rp.cb.Persisted, r.w.mentions(tag)
			ev["nc"], ev["src"] = dl.nc, "script"
			dl.seq = r.log(ev)
			rq.reply <- rp
			return
		}
		r.log(ev)
		rq.reply <- rp
		return
	}
	ev := vh.J{"ev": "RespLatest", "rid": rq.rid, "r": d.R, "ver": 0, "h": 0, "tag": 0}
	if d.R == "err" {
		rp.err = errInjected
		if rq.ctx.Err() != nil {
			rp.err = rq.ctx.Err()
			ev["why"] = "ctx"
		} else {
			r.faults++
			ev["why"] = "injected"
		}
	} else {
		c := r.w.chain(d.Ver)
		tag := c[d.SH]
		if d.SH < len(c)-1 {
			r.faults++
			ev["stale"] = true
		}
		rp.hdr = r.w.header(tag)
		ev["ver"], ev["h"], ev["tag"] = d.Ver, d.SH, tag
	}
	r.log(ev)
	rq.reply <- rp
}

// honest is the answer of a well-behaved, up-to-date source.
func (r *run) honest(rq *request) Decision {
	if rq.ctx.Err() != nil {
		return Decision{R: "err"}
	}
	if rq.kind == "block" {
		if int(rq.h) < len(r.cur()) {
			return Decision{R: "ok", Ver: r.curVer}
		}
		return Decision{R: "err"}
	}
	return Decision{R: "ok", Ver: r.curVer, SH: len(r.cur()) - 1}
}

func (r *run) srcStep() bool {
	if r.planPos >= len(r.sc.Plan) {
		return false
	}
	r.planPos++
	r.curVer++
	rec := Decision{Op: "src"}
	for _, rq := range r.pending {
		if rq.kind == "block" {
			rec.Reqs = append(rec.Reqs, rq.h)
		} else {
			rec.NL++
		}
	}
	r.recorded = append(r.recorded, rec)
	r.log(vh.J{"ev": "Src", "ver": r.curVer, "chain": r.cur()})
	return true
}

// randomAnswer picks an answer for rq among those the specification allows.
func (r *run) randomAnswer(rq *request) Decision {
	if rq.ctx.Err() != nil { // a real client fails a call whose context is cancelled
		return Decision{R: "err"}
	}
	budget := r.faults < r.sc.MaxFaults
	p := r.rng.Float64()
	if rq.kind == "block" {
		var vers []int
		for v := rq.v0; v <= r.curVer; v++ {
			if int(rq.h) < len(r.w.chain(v)) {
				vers = append(vers, v)
			}
		}
		if len(vers) == 0 {
			return Decision{R: "err"}
		}
		ver := vers[len(vers)-1]
		if r.rng.Intn(3) == 0 { // "ok-later": computed at an earlier version, delivered now
			ver = vers[r.rng.Intn(len(vers))]
		}
		fetch := int(rq.h) >= len(r.shadow) // not a request of the revert loop
		// answers are chosen PER REQUEST: a block that was already served honestly and is asked for again
		// (a stream reset dropped it before it was stored) is a favourite target for altered content under
		// the honest header
		if budget && fetch && r.servedOK[r.w.chain(ver)[rq.h]] && r.rng.Intn(2) == 0 {
			return Decision{R: "bad", Ver: ver, Corr: keepsHash[r.rng.Intn(len(keepsHash))]}
		}
		switch {
		case budget && p < 0.07:
			return Decision{R: "err"}
		case budget && p < 0.15:
			return Decision{R: "bad", Ver: ver, Corr: corruptions[r.rng.Intn(len(corruptions))]}
		case budget && fetch && p < 0.19:
			return Decision{R: "fg", Ver: ver, Corr: forgeries[r.rng.Intn(len(forgeries))]}
		case budget && fetch && p < 0.24 && len(r.w.chain(ver)) > 1:
			bh := r.rng.Intn(len(r.w.chain(ver)) - 1)
			if bh >= int(rq.h) {
				bh++
			}
			return Decision{R: "wh", Ver: ver, BH: bh}
		case int(rq.h) >= len(r.cur()) && p < 0.5: // gone from the current chain: "not found" is free
			return Decision{R: "err"}
		}
		if r.sc.Prod && budget && r.rng.Intn(10) == 0 {
			return Decision{R: "ok", Ver: ver, ClassErr: true} // (a fault only if a class is downloaded at all)
		}
		return Decision{R: "ok", Ver: ver}
	}
	ver := r.curVer
	if r.rng.Intn(3) == 0 {
		ver = rq.v0 + r.rng.Intn(r.curVer-rq.v0+1)
	}
	c := r.w.chain(ver)
	switch {
	case budget && p < 0.07:
		return Decision{R: "err"}
	case budget && p < 0.17 && len(c) > 1:
		return Decision{R: "ok", Ver: ver, SH: r.rng.Intn(len(c) - 1)}
	}
	return Decision{R: "ok", Ver: ver, SH: len(c) - 1}
}

const stallTimeout = 8 * time.Second

// flushCancelled (mu held) fails every pending call whose context is cancelled, as a real client
// would; the node cannot restart its streams before these calls return.
func (r *run) flushCancelled() {
	for again := true; again; {
		again = false
		for _, rq := range r.pending {
			if rq.ctx.Err() != nil {
				r.release(rq, Decision{R: "err"})
				again = true
				break
			}
		}
	}
}

// waitPending blocks until pred finds a pending request (returned with mu HELD) or the timeout passes.
func (r *run) waitPending(pred func(*request) bool, timeout time.Duration, flush bool) *request {
	deadline := time.Now().Add(timeout)
	for {
		r.mu.Lock()
		if flush {
			r.flushCancelled()
		}
		for _, rq := range r.pending {
			if pred(rq) {
				return rq
			}
		}
		r.mu.Unlock()
		if time.Now().After(deadline) || r.exited.Load() {
			return nil
		}
		time.Sleep(100 * time.Microsecond)
	}
}

func anyReq(*request) bool { return true }

func (r *run) randomPhase() {
	steps := r.sc.Steps
	for i := 0; i < steps; i++ {
		burst := r.rng.Intn(5) == 0
		if !burst {
			r.settle()
		}
		r.mu.Lock()
		if r.planPos < len(r.sc.Plan) && r.rng.Float64() < 0.08 {
			r.srcStep()
			r.mu.Unlock()
			continue
		}
		r.mu.Unlock()
		if r.restarts < r.sc.Restarts && r.rng.Float64() < 0.03 {
			if !r.restartNode(r.rng.Intn(2) == 0) {
				return
			}
			continue
		}
		rq := r.waitPending(anyReq, stallTimeout, r.rng.Intn(2) == 0)
		if rq == nil {
			r.broken = "node stopped calling the source (random phase)"
			return
		}
		if n := len(r.pending); n > 1 && r.rng.Intn(2) == 0 {
			rq = r.pending[r.rng.Intn(n)]
		}
		d := r.randomAnswer(rq)
		d.Burst = burst
		r.release(rq, d)
		r.mu.Unlock()
	}
	// whatever is left of the plan happens now, at once
	r.mu.Lock()
	for r.srcStep() {
	}
	r.mu.Unlock()
}

func hasAll(pending []*request, hs []uint64) bool {
	for _, h := range hs {
		ok := false
		for _, rq := range pending {
			if rq.kind == "block" && rq.h == h {
				ok = true
			}
		}
		if !ok {
			return false
		}
	}
	return true
}

// scriptPhase follows the scenario's decisions; false = the node did not offer the request the
// script wanted (the script is then abandoned, the stable phase takes over).
func (r *run) scriptPhase() bool {
	misses := 0
	for _, d := range r.sc.Decisions {
		switch d.Op {
		case "src": // (a replayed step first waits for the requests that were pending when it was recorded)
			r.settle()
			deadline := time.Now().Add(1500 * time.Millisecond)
			for {
				r.mu.Lock()
				nl := 0
				for _, rq := range r.pending {
					if rq.kind == "latest" {
						nl++
					}
				}
				if (hasAll(r.pending, d.Reqs) && nl >= d.NL) || time.Now().After(deadline) {
					break
				}
				r.mu.Unlock()
				time.Sleep(100 * time.Microsecond)
			}
			r.srcStep()
			r.mu.Unlock()
		case "sync": // honest answers for latest-header requests and block requests below d.Below,
			// until the node's chain has d.Len blocks and requests for d.Reqs are all pending
			deadline := time.Now().Add(stallTimeout)
			// a node that keeps asking but never gets anywhere (e.g. it refuses the honest block) must not keep
			// this phase alive for ever: the script is abandoned and the stable phase judges convergence
			for answers, maxAnswers := 0, 60*(d.Len+len(d.Reqs)+4); ; {
				r.settle()
				r.mu.Lock()
				r.flushCancelled()
				if len(r.shadow) == d.Len && hasAll(r.pending, d.Reqs) {
					r.mu.Unlock()
					break
				}
				if answers > maxAnswers {
					r.mu.Unlock()
					r.note = "script: sync phase did not reach its target (answer budget)"
					return false
				}
				var rq *request
				for _, x := range r.pending {
					if x.kind == "latest" || x.h < d.Below {
						rq = x
						break
					}
				}
				if rq != nil {
					r.release(rq, r.honest(rq))
					deadline = time.Now().Add(stallTimeout)
					answers++
				}
				r.mu.Unlock()
				if time.Now().After(deadline) {
					r.note = "script: sync phase did not reach its target"
					return false
				}
			}
		case "resp":
			if !d.Burst {
				r.settle()
			}
			wait := 1500 * time.Millisecond
			if r.sc.Name != "" && len(r.sc.Decisions) > 12 { // a flattened recording: tolerate drift
				wait = 250 * time.Millisecond
			}
			if r.sc.Lenient {
				wait = 60 * time.Millisecond
			}
			rq := r.waitPending(func(x *request) bool {
				return x.ctx.Err() == nil && x.kind == d.Kind && (d.Kind == "latest" || x.h == d.H)
			}, wait, true)
			if rq == nil {
				misses++
				r.note = fmt.Sprintf("script: no pending %s request h=%d (%d misses)", d.Kind, d.H, misses)
				if misses >= r.maxMisses() || wait > time.Second {
					return false
				}
				continue
			}
			if !r.legal(rq, &d) {
				r.mu.Unlock()
				r.note = fmt.Sprintf("script: answer %+v is not legal for request v0=%d", d, rq.v0)
				misses++
				if misses >= r.maxMisses() || wait > time.Second {
					return false
				}
				continue
			}
			r.release(rq, d)
			if r.sc.Lenient {
				r.cstats["spec_behaviour_answers_applied"]++
			}
			r.mu.Unlock()
		case "restart":
			r.settle()
			if !r.restartNode(d.Burst) {
				return false
			}
		case "await": // a synchronisation point of a specification behaviour: the node's chain has d.Len blocks
			deadline := time.Now().Add(150 * time.Millisecond)
			for {
				r.mu.Lock()
				r.flushCancelled()
				ok := len(r.shadow) >= d.Len
				r.mu.Unlock()
				if ok || time.Now().After(deadline) {
					break
				}
				time.Sleep(100 * time.Microsecond)
			}
		default:
			r.broken = "unknown decision " + d.Op
			return false
		}
	}
	return true
}

func (r *run) maxMisses() int {
	if r.sc.Lenient {
		return 10
	}
	return 4
}

func equalInts(a, b []int) bool {
	if len(a) != len(b) {
		return false
	}
	for i := range a {
		if a[i] != b[i] {
			return false
		}
	}
	return true
}

// pipelineEmpty (mu held): nothing handed to the fetch pipeline is still on its way to storeTask.
func (r *run) pipelineEmpty() bool {
	r.scanOutcomes()
	for _, d := range r.deliv {
		if !d.resolved && !d.loop {
			return false
		}
	}
	return true
}

// stablePhase: the source no longer changes and answers every request honestly, oldest first.
// Returns true when the node's chain equals the source's and nothing was written or is in flight
// for quietNeeded consecutive answers.
func (r *run) stablePhase() bool {
	const quietNeeded = 14
	r.mu.Lock()
	budget := 50 * (len(r.cur()) + len(r.shadow) + 10)
	r.mu.Unlock()
	quiet, seenWrite := 0, -1
	for n := 0; n < budget; n++ {
		r.settle()
		rq := r.waitPending(anyReq, stallTimeout, false)
		if rq == nil {
			r.broken = "node stopped calling the source (stable phase)"
			return false
		}
		r.scanOutcomes()
		if r.refusals >= 8 { // Store keeps refusing the honest successor of the head: more answers will not help
			r.mu.Unlock()
			return false
		}
		if equalInts(r.shadow, r.cur()) && r.lastWrite == seenWrite && r.pipelineEmpty() {
			quiet++
		} else {
			quiet, seenWrite = 0, r.lastWrite
		}
		if quiet >= quietNeeded {
			r.mu.Unlock()
			return true
		}
		r.release(r.pending[0], r.honest(r.pending[0]))
		r.mu.Unlock()
	}
	return false
}

func (r *run) finalChain() []int {
	out := []int{}
	h, err := r.node.BC.Height()
	if err != nil {
		return out
	}
	for i := uint64(0); i <= h; i++ {
		hdr, err := r.node.BC.BlockHeaderByNumber(i)
		if err != nil {
			out = append(out, -1)
			continue
		}
		if t, ok := r.w.byHash[*hdr.Hash]; ok {
			out = append(out, t)
		} else {
			out = append(out, -1)
		}
	}
	return out
}

// execute performs one run and returns its events.

package syncengine

import (
	"fmt"

	"verifharness/internal/vh"
)

// The safety properties of spec/sync/Sync.tla evaluated directly on a recorded run (they are the
// specification's invariants; TLC evaluates the same conditions while validating the trace, and
// checks/C06.py requires both verdicts to agree).

type finding struct {
	key, what string
	step      int
}

type emission struct {
	seq    int
	s, e   int // reorg range (tags) or, for a new head, s = tag
	sn, en int
}

func gi(e vh.J, k string) int {
	if v, ok := e[k].(int); ok {
		return v
	}
	return 0
}

func gs(e vh.J, k string) string {
	if v, ok := e[k].(string); ok {
		return v
	}
	return ""
}

func gb(e vh.J, k string) bool {
	v, _ := e[k].(bool)
	return v
}

func monitor(r *run) []finding {
	var (
		fs        []finding
		seen      = map[string]bool{}
		w         = r.w
		cur       = 1
		heard     = map[int]bool{}
		shadow    []int
		revSince  []int
		heads     []emission
		reorgs    []emission
		headPos   = 0
		reorgPos  = 0
		lastWrite = 0 // seq
		resps     []vh.J
		parentObs vh.J
		byRid     = map[int]vh.J{} // block answers by request id
		refused   = false
	)
	ints := func(e vh.J, k string) []int {
		v, _ := e[k].([]int)
		return v
	}
	// the classes block `tag` mentions that are neither among the NewClasses of answer `resp` nor mentioned by a
	// block of `chain` (NewClassesSufficient of Sync.tla, negated)
	lacking := func(tag int, resp vh.J, chain []int) []*wclass {
		var out []*wclass
		have := w.expectedDefs(chain)
		for _, id := range w.mentions(tag) {
			if _, ok := have[id]; !ok && !containsInt(ints(resp, "nc"), id) {
				out = append(out, w.classes[id-1])
			}
		}
		return out
	}
	kindOf := func(c *wclass) string {
		if c.sierra {
			return "sierra"
		}
		return "cairo0"
	}
	add := func(step int, key, what string) {
		if !seen[key] {
			seen[key] = true
			fs = append(fs, finding{key: key, what: what, step: step})
		}
	}
	head := func() int {
		if len(shadow) == 0 {
			return 0
		}
		return shadow[len(shadow)-1]
	}
	for i, e := range r.events {
		seq := gi(e, "seq")
		switch gs(e, "ev") {
		case "Src":
			cur++
		case "Restart": // the new Synchronizer knows nothing of reverts that were not yet announced
			revSince, parentObs = nil, nil
		case "Resp":
			if gs(e, "r") != "err" {
				heard[gi(e, "ver")] = true
				resps = append(resps, e)
				byRid[gi(e, "rid")] = e
			}
		case "RespLatest":
			if gs(e, "r") == "ok" {
				heard[gi(e, "ver")] = true
			}
		case "Obs":
			if gs(e, "outcome") == "parent" {
				parentObs = e
			}
			if gb(e, "refused") {
				refused = true
				detail := "other"
				if resp := byRid[gi(e, "rid")]; resp != nil {
					for _, c := range lacking(gi(e, "tag"), resp, shadow) {
						detail = "newclasses-lack-declared-" + kindOf(c) + "-class"
					}
				}
				add(i, "sync:store-refuses-honest-successor:"+detail, fmt.Sprintf(
					"Store refused b%d, the source's successor of the node's head b%d, served unaltered (%s): %s",
					gi(e, "tag"), head(), detail, gs(e, "err")))
			}
		case "Stored":
			tag, h := gi(e, "tag"), gi(e, "h")
			switch {
			case gi(e, "rid") == 0 || tag <= 0:
				add(i, "sync:stored-unknown-block", fmt.Sprintf("block %d was stored but no answer of the source accounts for it", h))
			case gb(e, "bad"):
				add(i, "sync:stored-unverified-block:"+gs(e, "corr"),
					fmt.Sprintf("a corrupted copy (%s altered) of block b%d at height %d was stored", gs(e, "corr"), tag, h))
			default:
				if h != len(shadow) || w.blocks[tag].parent != head() {
					add(i, "sync:stored-non-successor", fmt.Sprintf("stored b%d (height %d, parent b%d) on head b%d of a chain of %d",
						tag, h, w.blocks[tag].parent, head(), len(shadow)))
				}
				if !gb(e, "hashok") {
					add(i, "sync:stored-hash-mismatch", fmt.Sprintf("head after storing b%d does not carry its hash", tag))
				}
			}
			if resp := byRid[gi(e, "rid")]; resp != nil && tag > 0 && h == len(shadow) {
				for _, c := range lacking(tag, resp, shadow) {
					add(i, "sync:newclasses-insufficient-at-store:"+kindOf(c), fmt.Sprintf(
						"b%d (height %d) was stored from an answer whose NewClasses %v lack class #%d, which the block mentions and no block below it does",
						tag, h, ints(resp, "nc"), c.id))
				}
			}
			if len(revSince) > 0 {
				s, en := revSince[len(revSince)-1], revSince[0]
				reorgs = append(reorgs, emission{seq: seq, s: s, e: en})
			}
			heads = append(heads, emission{seq: seq, s: tag})
			revSince, parentObs = nil, nil
			shadow = append(shadow, tag)
			lastWrite = seq
		case "Reverted":
			tag, h := gi(e, "tag"), gi(e, "h")
			if tag <= 0 || !gb(e, "headok") || tag != head() {
				add(i, "sync:revert-bookkeeping-mismatch", fmt.Sprintf("OnReorg(%d) does not match the chain the stores built (%v)", h, shadow))
				if gb(e, "headok") && len(shadow) > 0 {
					shadow = shadow[:len(shadow)-1]
				}
				lastWrite = seq
				continue
			}
			evidence := false
			for v := range heard {
				if !w.has(v, tag) {
					evidence = true
				}
			}
			if w.has(cur, tag) {
				cause := "unconditional"
				var cmp vh.J
				for _, x := range resps {
					if gi(x, "seq") > lastWrite && gi(x, "h") == h {
						cmp = x
					}
				}
				switch {
				case cmp != nil && gs(cmp, "r") == "bad":
					cause = "corrupt-remote-header"
				case cmp != nil:
					cause = "remote-compare"
				case parentObs != nil && gs(parentObs, "r") == "wh":
					cause = "wrong-height-answer"
				case parentObs != nil && gi(parentObs, "bh") == h+1:
					if w.has(cur, gi(parentObs, "tag")) {
						cause = "successor-mismatch"
					} else {
						cause = "stale-successor"
					}
				case len(revSince) > 0:
					// the revert task went on below the orphaned blocks without asking the source
					cause = "common-ancestor"
				}
				add(i, "sync:revert-of-block-source-still-has:"+cause,
					fmt.Sprintf("reverted b%d (height %d) although version %d of the source, current at that moment, still has it (%s)",
						tag, h, cur, cause))
			} else if !evidence {
				add(i, "sync:revert-without-evidence", fmt.Sprintf("reverted b%d before any consumed answer came from a version without it", tag))
			}
			revSince = append(revSince, tag)
			shadow = shadow[:len(shadow)-1]
			parentObs = nil
			lastWrite = seq
		case "NewHead":
			tag, ok := gi(e, "tag"), false
			for k := headPos; k < len(heads); k++ {
				if heads[k].s == tag && heads[k].seq < seq {
					headPos, ok = k+1, true
					break
				}
			}
			if !ok {
				add(i, "sync:newhead-notification-not-a-store", fmt.Sprintf(
					"newHeads delivered b%d (height %d) which is not a not-yet-notified stored block (extra, early or out of order)", tag, gi(e, "h")))
			}
		case "ReorgMsg":
			s, en, ok := gi(e, "s"), gi(e, "e"), false
			for k := reorgPos; k < len(reorgs); k++ {
				if reorgs[k].s == s && reorgs[k].e == en && reorgs[k].seq < seq {
					reorgPos, ok = k+1, true
					break
				}
			}
			if ok && (s <= 0 || en <= 0 || int(w.blocks[s].height) != gi(e, "sn") || int(w.blocks[en].height) != gi(e, "en")) {
				ok = false
			}
			if !ok {
				add(i, "sync:reorg-notification-wrong-range", fmt.Sprintf(
					"reorg feed delivered range b%d(#%d)..b%d(#%d) which is not the set of blocks reverted between two stores", s, gi(e, "sn"), en, gi(e, "en")))
			}
		case "End":
			final, _ := e["final"].([]int)
			if !equalInts(final, shadow) {
				add(i, "sync:chain-differs-from-reported-stores", fmt.Sprintf("database holds %v, stores/reverts reported %v", final, shadow))
			}
			if !gb(e, "conv") {
				c := w.chain(cur)
				detail := "other"
				if len(c) == 1 && len(shadow) > 1 && shadow[0] != c[0] {
					detail = "source-shrunk-to-new-genesis"
				} else if refused {
					detail = "honest-successor-refused"
				}
				add(i, "sync:no-convergence:"+detail, fmt.Sprintf(
					"source stable at %v and answering honestly, node stays at %v", c, shadow))
			}
		}
	}
	return fs
}

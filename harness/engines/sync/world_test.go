// Package syncengine is the C06 recorder: it runs the REAL sync.Synchronizer over a real Blockchain
// against a gated, scripted DataSource and records one event per observable action of
// spec/sync/Sync.tla (see SyncTrace.tla).
package syncengine

import (
	"fmt"
	"sort"

	"github.com/NethermindEth/juno/core"
	"github.com/NethermindEth/juno/core/felt"
	jsync "github.com/NethermindEth/juno/sync"

	"verifharness/internal/chainkit"
)

// A block of the source. Tags are handed out consecutively, so a tag determines the height and the
// whole ancestry (exactly as in the specification).
type block struct {
	tag    int
	height uint64
	parent int // tag of the parent, 0 for a genesis block
	shape  string
	built  *chainkit.Built
	// a well-formed transaction + receipt that is NOT in the block (for the "tx" corruption)
	spareTx core.Transaction
	spareRc *core.TransactionReceipt
}

// SrcStep replaces the last Drop blocks of the current chain by Add fresh ones (Drop = 0: extend).
type SrcStep struct {
	Drop int `json:"drop"`
	Add  int `json:"add"`
}

// world = every version of the source's chain for one run, with real blocks built once on twin nodes.
type world struct {
	newState bool
	gen      *chainkit.Gen
	blocks   map[int]*block
	byHash   map[felt.Felt]int
	versions [][]int        // versions[0] is version 1
	digests  map[int]string // content of every block when it was built
	nextTag  int
	tip      *chainkit.Node // twin node holding the last version
	shapes   map[int]string // scenario: shape of a tag, overriding the default
	classes  []*wclass      // every class of this world; classes[i].id == i+1
	byClass  map[felt.Felt]*wclass
}

// ClassSpec puts a class into the chain content (the `ment` of spec/sync/Sync.tla): the blocks with the
// given tags MENTION it. Since a tag determines its ancestry it also determines what the mention is: the
// first mention on a chain DECLARES the class (Cairo-0: DeclaredV0Classes, Sierra: DeclaredV1Classes), every
// later one USES it (a contract of that class is deployed at a fresh address). Two branches may so declare
// the same class hash at different heights, a reorg drops the declaring block, and the new branch declares
// the class again, never mentions it, or merely uses it.
//
// Kind "implicit" is the legacy form: a Cairo-0 class that is never declared - its first mention is already a
// deployed contract (pre-0.9 DEPLOY transactions), so only the data source's pass over the classes of DEPLOYED
// contracts brings its definition. As coded its definition survives a revert of the block that introduced it
// (State.Revert only removes classes of the declared lists): such classes are only allowed in scenarios
// whose source never reorgs.
type ClassSpec struct {
	Kind string `json:"kind"` // cairo0 | sierra | implicit
	Tags []int  `json:"tags"`
}

type wclass struct {
	id       int
	sierra   bool
	implicit bool
	hash     felt.Felt
	casm     felt.Felt
	def      core.ClassDefinition
	fp       string       // fingerprint of the definition (see classFingerprint)
	ment     map[int]bool // tags of the blocks mentioning it
}

func (w *world) addClass(sierra bool) *wclass {
	c := &wclass{id: len(w.classes) + 1, sierra: sierra, ment: map[int]bool{}}
	if sierra {
		h, c1, _, def := w.gen.SierraClass()
		c.hash, c.casm, c.def = h, c1, def
	} else {
		c.hash, c.def = w.gen.Cairo0Class()
	}
	c.fp = classFingerprint(c.def)
	w.classes = append(w.classes, c)
	w.byClass[c.hash] = c
	return c
}

// classFingerprint identifies a definition by what the generator made unique in it.
func classFingerprint(def core.ClassDefinition) string {
	switch c := def.(type) {
	case *core.DeprecatedCairoClass:
		if len(c.Externals) == 1 && c.Externals[0].Selector != nil && c.Externals[0].Offset != nil {
			return "cairo0:" + c.Externals[0].Selector.String() + ":" + c.Externals[0].Offset.String()
		}
		return fmt.Sprintf("cairo0:?%d", len(c.Externals))
	case *core.SierraClass:
		h, err := c.Hash()
		if err != nil {
			return "sierra:?" + err.Error()
		}
		return "sierra:" + h.String()
	}
	return fmt.Sprintf("%T", def)
}

// mentions: ids of the classes block `tag` mentions, ascending.
func (w *world) mentions(tag int) []int {
	out := []int{}
	for _, c := range w.classes {
		if c.ment[tag] {
			out = append(out, c.id)
		}
	}
	return out
}

// expectedDefs is ExpectedDefs of Sync.tla: class id -> height of the first block of `chain` mentioning it.
func (w *world) expectedDefs(chain []int) map[int]int {
	out := map[int]int{}
	for _, c := range w.classes {
		for h, t := range chain {
			if c.ment[t] {
				out[c.id] = h
				break
			}
		}
	}
	return out
}

// mentTable / sierraIDs: the class content as the Reset event carries it.
func (w *world) mentTable() [][]int {
	out := make([][]int, len(w.classes))
	for i, c := range w.classes {
		ts := []int{}
		for t := range c.ment {
			ts = append(ts, t)
		}
		sort.Ints(ts)
		out[i] = ts
	}
	return out
}

func (w *world) sierraIDs() []int {
	out := []int{}
	for _, c := range w.classes {
		if c.sierra {
			out = append(out, c.id)
		}
	}
	return out
}

// Block shapes: WHICH PARTS of a block are populated (the Shapes of spec/chain/BlockVerify.tla; the
// EmptyDiff set of spec/sync/Sync.tla is {empty, emptydiff}).
//
//	full       one transaction, a storage write and a nonce update
//	multi      three transactions of different kinds, a storage write and a nonce update
//	empty      no transaction, no state-diff entry: only the header distinguishes it
//	emptydiff  transactions (with events) but no state-diff entry
//	nonceonly  one transaction; the diff is a single nonce update (no storage section)
//	declare    one transaction; the diff only declares a Cairo-0 class (an entry that leaves the state
//	           commitment where it is)
//
// For empty / emptydiff / declare the state commitment after the block equals the one before it: the
// root checks of Store are all that separates the honest block from a re-sealed forgery of its roots.
var shapeNames = []string{"full", "multi", "empty", "emptydiff", "nonceonly", "declare"}

func defaultShape(tag int, height uint64) string {
	switch {
	case height == 0:
		return "full" // (plus the genesis class and contracts)
	case tag%5 == 0:
		return "empty"
	case tag%7 == 3:
		return "multi"
	case tag%10 == 2:
		return "emptydiff"
	case tag%10 == 7:
		return "nonceonly"
	case tag%10 == 9:
		return "declare"
	}
	return "full"
}

func (w *world) emptyDiff(tag int) bool {
	sh := w.blocks[tag].shape
	return w.blocks[tag].height > 0 && (sh == "empty" || sh == "emptydiff") && len(w.mentions(tag)) == 0
}

var (
	txKinds  = []string{"invoke3", "invoke1", "l1handler", "declare3", "deployaccount3", "invoke0"}
	versions = []string{"0.13.2", "0.13.4", "0.14.0", "0.14.1", "0.13.1"} // the last one: hash does not commit to the state diff
	addrs    = []uint64{0x100, 0x101, 0x102}
)

func newWorld(seed int64, newState bool, initLen int, plan []SrcStep, shapes map[string]string, pool []ClassSpec) (*world, error) {
	w := &world{
		newState: newState, gen: chainkit.NewGen(seed), blocks: map[int]*block{},
		byHash: map[felt.Felt]int{}, nextTag: 1, digests: map[int]string{}, shapes: map[int]string{},
		byClass: map[felt.Felt]*wclass{},
	}
	for _, cs := range pool {
		if cs.Kind != "cairo0" && cs.Kind != "sierra" && cs.Kind != "implicit" {
			return nil, fmt.Errorf("unknown class kind %q", cs.Kind)
		}
		c := w.addClass(cs.Kind == "sierra")
		if c.implicit = cs.Kind == "implicit"; c.implicit {
			for _, st := range plan {
				if st.Drop > 0 {
					return nil, fmt.Errorf("an implicitly declared class in a scenario with a reorg")
				}
			}
		}
		for _, t := range cs.Tags {
			c.ment[t] = true
		}
	}
	for k, v := range shapes {
		var t int
		if _, err := fmt.Sscanf(k, "%d", &t); err != nil || t < 1 {
			return nil, fmt.Errorf("bad tag %q in shapes", k)
		}
		ok := false
		for _, n := range shapeNames {
			ok = ok || n == v
		}
		if !ok {
			return nil, fmt.Errorf("unknown shape %q", v)
		}
		w.shapes[t] = v
	}
	w.tip = chainkit.NewNode(nil, newState)
	var chain []int
	for i := 0; i < initLen; i++ {
		b, err := w.appendBlock(w.tip, chain)
		if err != nil {
			return nil, err
		}
		chain = append(chain, b.tag)
	}
	w.versions = append(w.versions, chain)
	for _, st := range plan {
		cur := w.versions[len(w.versions)-1]
		if st.Drop > len(cur) || st.Add < 1 {
			return nil, fmt.Errorf("bad source step %+v on chain of %d", st, len(cur))
		}
		next := append([]int{}, cur[:len(cur)-st.Drop]...)
		if st.Drop > 0 {
			n := chainkit.NewNode(nil, newState)
			for _, t := range next {
				if err := n.StoreBuilt(w.blocks[t].built); err != nil {
					return nil, fmt.Errorf("twin replay of block %d: %w", t, err)
				}
			}
			w.tip = n
		}
		for i := 0; i < st.Add; i++ {
			b, err := w.appendBlock(w.tip, next)
			if err != nil {
				return nil, err
			}
			next = append(next, b.tag)
		}
		w.versions = append(w.versions, next)
	}
	return w, nil
}

// appendBlock builds the next block on n, whose chain is `below` (tags).
func (w *world) appendBlock(n *chainkit.Node, below []int) (*block, error) {
	tag := w.nextTag
	w.nextTag++
	var (
		height uint64
		parent int
	)
	if head, err := n.BC.HeadsHeader(); err == nil {
		height = head.Number + 1
		parent = w.byHash[*head.Hash]
	}
	d := chainkit.EmptyDiff()
	classes := map[felt.Felt]core.ClassDefinition{}
	if height == 0 {
		c := w.addClass(false)
		c.ment[tag] = true
		d.DeclaredV0Classes = append(d.DeclaredV0Classes, &c.hash)
		classes[c.hash] = c.def
		for _, a := range addrs {
			d.DeployedContracts[*chainkit.F(a)] = &c.hash
		}
	}
	// the classes of the scenario's pool this block mentions: declared when no block below mentions them, used
	// (a contract of the class is deployed) otherwise
	for _, c := range w.classes {
		if !c.ment[tag] || (height == 0 && c.id == len(w.classes)) {
			continue
		}
		first := true
		for _, t := range below {
			first = first && !c.ment[t]
		}
		switch {
		case c.implicit && first:
			d.DeployedContracts[*chainkit.F(uint64(0x10000 + tag*64 + c.id))] = &c.hash
			classes[c.hash] = c.def
		case !first:
			d.DeployedContracts[*chainkit.F(uint64(0x10000 + tag*64 + c.id))] = &c.hash
		case c.sierra:
			d.DeclaredV1Classes[c.hash] = &c.casm
			classes[c.hash] = c.def
		default:
			d.DeclaredV0Classes = append(d.DeclaredV0Classes, &c.hash)
			classes[c.hash] = c.def
		}
	}
	// shapes (see shapeNames): most blocks carry one transaction and one storage write
	var (
		txs []core.Transaction
		rcs []*core.TransactionReceipt
	)
	shape := defaultShape(tag, height)
	if s, ok := w.shapes[tag]; ok && height > 0 {
		shape = s
	}
	ntx := 1
	addr := *chainkit.F(addrs[tag%len(addrs)])
	switch shape {
	case "empty":
		ntx = 0
	case "emptydiff":
		ntx = 1 + tag%2
	case "nonceonly":
		d.Nonces[addr] = chainkit.F(uint64(tag))
	case "declare":
		c := w.addClass(false)
		c.ment[tag] = true
		d.DeclaredV0Classes = append(d.DeclaredV0Classes, &c.hash)
		classes[c.hash] = c.def
	case "multi":
		ntx = 3
		fallthrough
	default:
		// never a zero value: the legacy backend cannot revert a no-op zero write (C04's finding)
		d.StorageDiffs[addr] = map[felt.Felt]*felt.Felt{*chainkit.F(uint64(1 + tag%4)): chainkit.F(uint64(1000 + tag))}
		d.Nonces[addr] = chainkit.F(uint64(tag))
	}
	for i := 0; i < ntx; i++ {
		tx := w.gen.Tx(txKinds[(tag+i)%len(txKinds)])
		var evs []*core.Event
		if i%2 == 0 {
			evs = []*core.Event{{From: w.gen.Felt(), Keys: w.gen.Felts(1), Data: w.gen.Felts(1)}}
		}
		txs = append(txs, tx)
		rcs = append(rcs, w.gen.Receipt(tx, evs))
	}
	built, err := n.Append(chainkit.BlockSpec{
		Version: versions[tag%len(versions)], Diff: d, Classes: classes,
		Txs: txs, Receipts: rcs, Timestamp: uint64(1000 + tag),
	})
	if err != nil {
		return nil, fmt.Errorf("build block tag %d height %d: %w", tag, height, err)
	}
	b := &block{tag: tag, height: height, parent: parent, shape: shape, built: built}
	b.spareTx = w.gen.Tx(txKinds[(tag+4)%len(txKinds)])
	b.spareRc = w.gen.Receipt(b.spareTx, nil)
	w.blocks[tag] = b
	w.byHash[*built.Block.Hash] = tag
	w.digests[tag] = digest(built.Block, built.Update)
	return b, nil
}

func (w *world) chain(ver int) []int { return w.versions[ver-1] }

// oldFormat: the block's hash (pre-0.13.2) commits neither to its state diff nor to its receipts
func (w *world) oldFormat(tag int) bool { return w.blocks[tag].built.Block.ProtocolVersion == "0.13.1" }

// selfCheck: what the answer kinds are to the real verifier. Every "bad" copy must FAIL
// SanityCheckNewHeight (returned as accepted: a verifier that accepts one of them is the defect);
// the forged copy is expected to pass it (noted otherwise: the kind then degenerates to "bad").
func (w *world) selfCheck() (accepted []string, forgedRejected bool) {
	for tag, b := range w.blocks {
		for _, c := range append(append(append([]string{}, corruptions...), ""), forgeries...) {
			if w.oldFormat(tag) && (c == "receipt" || c == "diff") {
				continue
			}
			cb := w.committed(tag, c)
			_, err := w.tip.BC.SanityCheckNewHeight(cb.Block, cb.StateUpdate, cb.NewClasses)
			switch {
			case c == "" && err != nil:
				accepted = append(accepted, fmt.Sprintf("valid:%s", b.built.Block.ProtocolVersion))
			case isForgery(c):
				forgedRejected = forgedRejected || err != nil
			case c != "" && err == nil:
				accepted = append(accepted, c)
			}
		}
	}
	return accepted, forgedRejected
}

// digest renders what identifies the content of a block and its state update (canonical: the state
// diff enters through its commitment).
func digest(b *core.Block, su *core.StateUpdate) string {
	f := func(x *felt.Felt) string {
		if x == nil {
			return "nil"
		}
		return x.ShortString()
	}
	s := fmt.Sprintf("#%d %s p=%s root=%s ts=%d v=%s ntx=%d nev=%d seq=%s |", b.Number, f(b.Hash), f(b.ParentHash), f(b.GlobalStateRoot),
		b.Timestamp, b.ProtocolVersion, b.TransactionCount, b.EventCount, f(b.SequencerAddress))
	for _, tx := range b.Transactions {
		s += " tx " + f(tx.Hash())
	}
	for _, rc := range b.Receipts {
		s += fmt.Sprintf(" rc %s fee=%s ev=%d rev=%v", f(rc.TransactionHash), f(rc.Fee), len(rc.Events), rc.Reverted)
	}
	if su != nil {
		c := su.StateDiff.Commitment()
		s += fmt.Sprintf(" | su %s new=%s old=%s diff=%s len=%d", f(su.BlockHash), f(su.NewRoot), f(su.OldRoot), c.ShortString(), su.StateDiff.Length())
	}
	return s
}

// mutated reports a block whose content is no longer what was built.
func (w *world) mutated() (int, bool) {
	for tag, b := range w.blocks {
		if digest(b.built.Block, b.built.Update) != w.digests[tag] {
			return tag, true
		}
	}
	return 0, false
}

func (w *world) has(ver int, tag int) bool {
	for _, t := range w.chain(ver) {
		if t == tag {
			return true
		}
	}
	return false
}

// Corruption kinds: a deep-enough copy of the block with exactly one field altered. All but "hash"
// leave the header's Hash as it is: altered content UNDER THE HONEST HASH ("tx": the first
// transaction is replaced by another well-formed one, its receipt follows).
var corruptions = []string{"hash", "parent", "timestamp", "receipt", "diff", "root", "tx"}

// keepsHash: the corrupted copy claims the hash of the honest block.
var keepsHash = []string{"timestamp", "receipt", "diff", "root", "tx"}

// Forgeries: SanityCheckNewHeight accepts such a block (header, hash and state update are mutually
// consistent); only the state-root checks in Store can reject it.
//
//	diff-resealed  the state diff is altered and the block hash recomputed over the altered block (for
//	               a pre-0.13.2 block the hash does not commit to the diff and stays as it is)
//	root-resealed  the claimed new state root (header and state update) is altered and the block hash
//	               recomputed; the diff is the honest one
//	oldroot        the state update's old root is altered (nothing in the block commits to it)
const forgery = "diff-resealed"

var forgeries = []string{forgery, "root-resealed", "oldroot"}

func isForgery(c string) bool { return c == forgery || c == "root-resealed" || c == "oldroot" }

// specCorr maps a corruption kind to what the revert loop (which looks at Hash and ParentHash of an
// unverified block only) can see of it.
func specCorr(kind string) string {
	switch kind {
	case "hash", "parent":
		return kind
	case "":
		return "none"
	case forgery:
		return "diff"
	case "root-resealed":
		return "root"
	case "oldroot":
		return "oldroot"
	}
	return "other"
}

var feltOne = new(felt.Felt).SetUint64(1)

func bump(f *felt.Felt) *felt.Felt { return new(felt.Felt).Add(f, feltOne) }

// committed builds the answer object for one request: fresh Block / Header / StateUpdate structs
// (so that nothing the node might do to them leaks into another answer) over shared immutable parts.
func (w *world) committed(tag int, corr string) jsync.CommittedBlock {
	b := w.blocks[tag].built
	hc := *b.Block.Header
	blk := &core.Block{Header: &hc, Transactions: b.Block.Transactions, Receipts: b.Block.Receipts}
	su := *b.Update
	if (corr == "receipt" || corr == "tx") && len(blk.Receipts) == 0 { // an empty block has no receipt to corrupt
		corr = "timestamp"
	}
	reseal := func(sd *core.StateDiff) {
		h, _, err := core.BlockHash(blk, sd, chainkit.Network, nil, core.DeprecatedTrieBackend)
		if err != nil {
			panic("reseal: " + err.Error())
		}
		hc.Hash = &h
		su.BlockHash = &h
	}
	switch corr {
	case "":
	case "hash":
		nh := bump(hc.Hash)
		hc.Hash = nh
		su.BlockHash = nh
	case "parent":
		hc.ParentHash = bump(hc.ParentHash)
	case "timestamp":
		hc.Timestamp++
	case "receipt":
		rcs := append([]*core.TransactionReceipt{}, blk.Receipts...)
		rc := *rcs[0]
		rc.Fee = bump(rc.Fee)
		rcs[0] = &rc
		blk.Receipts = rcs
	case "diff", forgery:
		sd := *su.StateDiff
		sd.StorageDiffs = map[felt.Felt]map[felt.Felt]*felt.Felt{}
		first := true
		for a, m := range su.StateDiff.StorageDiffs {
			nm := map[felt.Felt]*felt.Felt{}
			for k, v := range m {
				if first {
					nm[k] = bump(v)
					first = false
				} else {
					nm[k] = v
				}
			}
			sd.StorageDiffs[a] = nm
		}
		if first { // an empty state diff: the alteration is an additional storage write
			sd.StorageDiffs[*chainkit.F(addrs[0])] = map[felt.Felt]*felt.Felt{*chainkit.F(77): chainkit.F(uint64(4000 + tag))}
		}
		su.StateDiff = &sd
		if corr == forgery {
			reseal(&sd)
		}
	case "root":
		su.NewRoot = bump(su.NewRoot)
	case "tx":
		w0 := w.blocks[tag]
		txs := append([]core.Transaction{}, blk.Transactions...)
		rcs := append([]*core.TransactionReceipt{}, blk.Receipts...)
		txs[0], rcs[0] = w0.spareTx, w0.spareRc
		blk.Transactions, blk.Receipts = txs, rcs
	case "root-resealed":
		nr := bump(su.NewRoot)
		hc.GlobalStateRoot, su.NewRoot = nr, nr
		reseal(su.StateDiff)
	case "oldroot":
		su.OldRoot = bump(su.OldRoot)
	default:
		panic("unknown corruption " + corr)
	}
	// the scripted DataSource hands over every class the block mentions (declared or used)
	nc := map[felt.Felt]core.ClassDefinition{}
	for _, c := range w.classes {
		if c.ment[tag] {
			nc[c.hash] = c.def
		}
	}
	return jsync.CommittedBlock{Block: blk, StateUpdate: &su, NewClasses: nc, Persisted: make(chan error, 1)}
}

func (w *world) header(tag int) *core.Header {
	h := *w.blocks[tag].built.Block.Header
	return &h
}

package syncengine

import (
	"bufio"
	"encoding/json"
	"fmt"
	"math/rand"
	"os"
	"runtime"
	"testing"

	"verifharness/internal/vh"
)

type input struct {
	GoMaxProcs int        `json:"gomaxprocs"`
	Scenarios  []Scenario `json:"scenarios"`
	Random     struct {
		N    int   `json:"n"`
		Seed int64 `json:"seed"`
	} `json:"random"`
	TraceOut string `json:"trace_out"`
}

func randomScenario(seed int64) Scenario {
	rng := rand.New(rand.NewSource(seed))
	sc := Scenario{
		Name: fmt.Sprintf("random-%d", seed), Seed: seed, Mode: "random", NewState: rng.Intn(2) == 0,
		InitLen: 1 + rng.Intn(9), MaxFaults: rng.Intn(4), Steps: 15 + rng.Intn(70),
	}
	if rng.Intn(3) == 0 {
		sc.Restarts = 1
	}
	n := sc.InitLen
	for k := rng.Intn(4); k > 0; k-- {
		var st SrcStep
		switch p := rng.Intn(100); {
		case p < 40:
			st = SrcStep{Drop: 0, Add: 1 + rng.Intn(3)}
		case p < 48:
			st = SrcStep{Drop: n, Add: 1 + rng.Intn(4)} // the whole chain, genesis included
		default:
			st = SrcStep{Drop: 1 + rng.Intn(n), Add: 1 + rng.Intn(4)}
		}
		if n-st.Drop+st.Add > 14 {
			st.Add = 1
		}
		n = n - st.Drop + st.Add
		sc.Plan = append(sc.Plan, st)
	}
	randomClasses(&sc, rng)
	return sc
}

// randomClasses gives the scenario a pool of 1-3 classes, each mentioned by about a third of all blocks of all
// versions (so that branches re-declare, drop, or merely use a class), and picks the wiring.
func randomClasses(sc *Scenario, rng *rand.Rand) {
	tags := sc.InitLen
	for _, st := range sc.Plan {
		tags += st.Add
	}
	for k := 1 + rng.Intn(3); k > 0; k-- {
		cs := ClassSpec{Kind: []string{"cairo0", "sierra"}[rng.Intn(2)]}
		for t := 1; t <= tags; t++ {
			if rng.Intn(3) == 0 {
				cs.Tags = append(cs.Tags, t)
			}
		}
		sc.Classes = append(sc.Classes, cs)
	}
	sc.Prod = rng.Intn(2) == 0
	reorgs := false
	for _, st := range sc.Plan {
		reorgs = reorgs || st.Drop > 0
	}
	if !reorgs { // (see ClassSpec)
		cs := ClassSpec{Kind: "implicit", Tags: []int{1 + rng.Intn(tags)}}
		for t := cs.Tags[0] + 1; t <= tags; t++ {
			if rng.Intn(3) == 0 {
				cs.Tags = append(cs.Tags, t)
			}
		}
		sc.Classes = append(sc.Classes, cs)
	}
}

// replayScenario turns what a run actually did into a script.
func replayScenario(r *run) Scenario {
	sc := *r.sc
	if sc.Mode == "script" {
		return sc
	}
	sc.Mode, sc.Decisions = "script", r.recorded
	return sc
}

func tail(evs []vh.J, upto, n int) []vh.J {
	lo := upto - n
	if lo < 0 {
		lo = 0
	}
	if upto >= len(evs) {
		upto = len(evs) - 1
	}
	return evs[lo : upto+1]
}

// TestSyncRecord runs the scenarios of the input, evaluates the property monitors on every recorded
// run and writes the concatenated traces (one ndjson event per line) for TLC.
func TestSyncRecord(t *testing.T) {
	if !vh.Enabled() {
		t.Skip()
	}
	var in input
	if err := vh.Input(&in); err != nil {
		t.Fatal(err)
	}
	out := vh.NewResult()
	defer out.Write()
	if in.GoMaxProcs > 0 {
		defer runtime.GOMAXPROCS(runtime.GOMAXPROCS(in.GoMaxProcs))
	}
	scs := append([]Scenario{}, in.Scenarios...)
	for i := 0; i < in.Random.N; i++ {
		scs = append(scs, randomScenario(in.Random.Seed*100003+int64(i)))
	}
	var tw *bufio.Writer
	if in.TraceOut != "" {
		f, err := os.Create(in.TraceOut)
		if err != nil {
			t.Fatal(err)
		}
		defer f.Close()
		tw = bufio.NewWriter(f)
		defer tw.Flush()
	}
	var (
		traces  = []vh.J{}
		line    = 0
		tr      = 0
		nEvents = 0
	)
	for i := range scs {
		sc := &scs[i]
		r, err := execute(sc, tr+1)
		if err == nil && i == 0 {
			// what the real verifier says about the answer kinds (a verifier that accepts a corrupted
			// copy is a defect of the tree under test, not of the machinery)
			accepted, forgedRejected := r.w.selfCheck()
			for _, c := range accepted {
				out.Diverge(vh.Divergence{
					Key:  "sync:verification-accepts-corrupt-block:" + c,
					What: "SanityCheckNewHeight accepts a copy of a source block with one field altered (" + c + ")",
					Input: vh.J{"gomaxprocs": in.GoMaxProcs, "scenarios": []Scenario{*sc}},
				})
			}
			if forgedRejected {
				out.Count("forged_kind_rejected_by_verifier", 1)
			}
		}
		if err != nil {
			out.Stats["broken"] = fmt.Sprintf("scenario %s: %s", sc.Name, err)
			t.Fatalf("scenario %s: %s", sc.Name, err)
		}
		if r.broken != "" || r.hung != "" || r.panicked != "" {
			// The real node stopped calling the source, never returned, or panicked. What the run had
			// shown before stands; if it had shown nothing, the stop itself is the violation (the
			// environment kept offering answers). No further scenario is run in this process.
			fs := append(monitor(r), r.extra...)
			why := r.broken + r.hung
			switch {
			case r.panicked != "":
				why = "panic: " + r.panicked
				fs = append(fs, finding{key: "sync:node-panicked", what: "the node panicked: " + firstLine(r.panicked), step: len(r.events) - 1})
			case len(fs) == 0 && r.hung != "":
				fs = append(fs, finding{key: "sync:node-does-not-stop", what: r.hung, step: len(r.events) - 1})
			case len(fs) == 0:
				fs = append(fs, finding{key: "sync:no-convergence:node-stopped-calling-source",
					what: "the node made no call to the source for " + stallTimeout.String() + " although its chain differs from the source's or it is expected to keep polling", step: len(r.events) - 1})
			}
			for _, f := range fs {
				out.Diverge(vh.Divergence{
					Key: f.key, What: f.what + " [scenario " + sc.Name + "; afterwards: " + firstLine(why) + "]",
					Input: vh.J{"gomaxprocs": in.GoMaxProcs, "scenarios": []Scenario{replayScenario(r)}},
					Step:  f.step, Observed: tail(r.events, f.step, 14),
				})
			}
			out.Count("runs_node_hung", 1)
			break
		}
		if r.lateWrite > 0 { // the node was not quiescent when the run was closed: inconclusive
			out.Count("runs_discarded_unsettled", 1)
			continue
		}
		tr++
		fs := append(monitor(r), r.extra...)
		keys := []string{}
		for _, f := range fs {
			keys = append(keys, f.key)
			out.Diverge(vh.Divergence{
				Key: f.key, What: f.what + " [scenario " + sc.Name + "]",
				Input: vh.J{"gomaxprocs": in.GoMaxProcs, "scenarios": []Scenario{replayScenario(r)}},
				Step:  f.step, Observed: tail(r.events, f.step, 14),
			})
		}
		first := line + 1
		counts := map[string]int{}
		for _, ev := range r.events {
			name := ev["ev"].(string)
			counts[name]++
			if name == "Obs" {
				continue
			}
			line++
			if tw != nil {
				b, _ := json.Marshal(ev)
				tw.Write(b)
				tw.WriteByte('\n')
			}
		}
		nEvents += len(r.events)
		for k, v := range counts {
			out.Count("ev_"+k, v)
		}
		for k, v := range r.cstats {
			out.Count(k, v)
		}
		if sc.Prod {
			out.Count("runs_production_data_source", 1)
		}
		if counts["Reverted"] > 0 {
			out.Count("runs_with_reverts", 1)
		}
		if len(sc.Plan) > 0 {
			out.Count("runs_with_source_steps", 1)
		}
		traces = append(traces, vh.J{
			"tr": tr, "name": sc.Name, "first": first, "last": line, "keys": keys, "note": r.note,
			"events": len(r.events), "replay": vh.J{"gomaxprocs": in.GoMaxProcs, "scenarios": []Scenario{replayScenario(r)}},
		})
		if len(fs) == 0 && counts["Reverted"] > 0 {
			out.Sample(vh.J{"scenario": sc.Name, "events": compact(r.events, 60)})
		}
	}
	out.Stats["traces"] = traces
	out.Done(tr, nEvents)
}

func firstLine(s string) string {
	for i, c := range s {
		if c == '\n' {
			return s[:i]
		}
	}
	return s
}

// compact renders events tersely for the evidence file.
func compact(evs []vh.J, max int) []string {
	var s []string
	for _, e := range evs {
		if len(s) >= max {
			s = append(s, "...")
			break
		}
		switch e["ev"] {
		case "Req":
			s = append(s, fmt.Sprintf("Req#%v(h=%v)", e["rid"], e["h"]))
		case "Resp":
			s = append(s, fmt.Sprintf("Resp#%v(h=%v %v v%v b%v)", e["rid"], e["h"], e["r"], e["ver"], e["tag"]))
		case "ReqLatest":
			s = append(s, fmt.Sprintf("ReqLatest#%v", e["rid"]))
		case "RespLatest":
			s = append(s, fmt.Sprintf("RespLatest#%v(%v v%v h=%v)", e["rid"], e["r"], e["ver"], e["h"]))
		case "Src":
			s = append(s, fmt.Sprintf("Src%v", e["chain"]))
		case "Reset":
			s = append(s, fmt.Sprintf("Reset%v", e["chain"]))
		case "Stop", "Restart":
			s = append(s, fmt.Sprint(e["ev"]))
		case "Stored", "Reverted", "NewHead":
			s = append(s, fmt.Sprintf("%v(b%v)", e["ev"], e["tag"]))
		case "ReorgMsg":
			s = append(s, fmt.Sprintf("ReorgMsg(b%v..b%v)", e["s"], e["e"]))
		case "End":
			s = append(s, fmt.Sprintf("End(conv=%v %v)", e["conv"], e["final"]))
		}
	}
	return s
}

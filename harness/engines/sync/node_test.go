package syncengine

import (
	"context"
	"fmt"
	"math/rand"
	"os"
	"runtime"
	"runtime/debug"
	stdsync "sync"
	"time"

	"github.com/NethermindEth/juno/core"
	"github.com/NethermindEth/juno/core/felt"
	jsync "github.com/NethermindEth/juno/sync"
	"github.com/NethermindEth/juno/utils/log"

	"verifharness/internal/chainkit"
	"verifharness/internal/vh"
)

// liveNode is one incarnation of the node: a Synchronizer over a Blockchain object on the run's
// database, its feeds, the goroutines that read them and the concurrent reader.
type liveNode struct {
	s       *jsync.Synchronizer
	cancel  context.CancelFunc
	done    chan struct{}
	stop    chan struct{}
	heads   jsync.NewHeadSubscription
	reorgs  jsync.ReorgSubscription
	readers stdsync.WaitGroup
	start   int // chain length when it was started
}

// what a feed delivered: the pointer the node handed out and a copy of what it said at that moment
type keptHead struct {
	b            *core.Block
	hash, parent felt.Felt
	number       uint64
	txs          int
}

type keptReorg struct {
	m          *jsync.ReorgBlockRange
	start, end felt.Felt
	sn, en     uint64
}

func val(f *felt.Felt) felt.Felt {
	if f == nil {
		return felt.Felt{}
	}
	return *f
}

func (r *run) addExtra(key, what string) {
	r.mu.Lock()
	defer r.mu.Unlock()
	for _, f := range r.extra {
		if f.key == key {
			return
		}
	}
	r.extra = append(r.extra, finding{key: key, what: what, step: len(r.events) - 1})
}

func (r *run) startNode() {
	n := &liveNode{done: make(chan struct{}), stop: make(chan struct{})}
	r.mu.Lock()
	n.start = len(r.shadow)
	r.mu.Unlock()
	n.s = jsync.New(r.node.BC, r.dataSource(), log.NewNopZapLogger(), 0, false, r.node.Store).WithListener(&jsync.SelectiveListener{
		OnSyncStepDoneCb: func(op string, h uint64, _ time.Duration) {
			if op == jsync.OpStore {
				r.onStored(h)
			}
		},
		OnReorgCb: r.onReverted,
	})
	n.heads, n.reorgs = n.s.SubscribeNewHeads(), n.s.SubscribeReorg()
	w := r.w
	n.readers.Add(3)
	go func() { // newHeads: log at receipt; keep pointer + copy, compare when the node stops
		defer n.readers.Done()
		var kept []keptHead
		for b := range n.heads.Recv() {
			hash, parent := val(b.Hash), val(b.ParentHash)
			r.mu.Lock()
			if !r.closed {
				t, ok := w.byHash[hash]
				if !ok {
					t = -1
				}
				r.log(vh.J{"ev": "NewHead", "tag": t, "h": int(b.Number)})
			}
			r.mu.Unlock()
			kept = append(kept, keptHead{b: b, hash: hash, parent: parent, number: b.Number, txs: len(b.Transactions)})
		}
		for _, k := range kept {
			if k.b.Hash == nil || *k.b.Hash != k.hash || k.b.ParentHash == nil || *k.b.ParentHash != k.parent ||
				k.b.Number != k.number || len(k.b.Transactions) != k.txs {
				r.addExtra("sync:notification-mutated-after-delivery:newhead",
					fmt.Sprintf("the block #%d delivered by the newHeads feed was modified after it had been delivered", k.number))
			}
		}
	}()
	go func() { // reorg feed
		defer n.readers.Done()
		var kept []keptReorg
		for m := range n.reorgs.Recv() {
			cp := keptReorg{m: m, start: val(m.StartBlockHash), end: val(m.EndBlockHash), sn: m.StartBlockNum, en: m.EndBlockNum}
			r.mu.Lock()
			if !r.closed {
				st, ok1 := w.byHash[cp.start]
				en, ok2 := w.byHash[cp.end]
				if !ok1 {
					st = -1
				}
				if !ok2 {
					en = -1
				}
				r.log(vh.J{"ev": "ReorgMsg", "s": st, "e": en, "sn": int(cp.sn), "en": int(cp.en)})
			}
			r.mu.Unlock()
			kept = append(kept, cp)
		}
		for _, k := range kept {
			if k.m.StartBlockHash == nil || *k.m.StartBlockHash != k.start || k.m.EndBlockHash == nil || *k.m.EndBlockHash != k.end ||
				k.m.StartBlockNum != k.sn || k.m.EndBlockNum != k.en {
				r.addExtra("sync:notification-mutated-after-delivery:reorg",
					fmt.Sprintf("the reorg range #%d..#%d delivered by the reorg feed was modified after it had been delivered", k.sn, k.en))
			}
		}
	}()
	go func() { // concurrent reader, for the whole life of this incarnation
		defer n.readers.Done()
		defer func() {
			if p := recover(); p != nil {
				r.addExtra("sync:reader-panicked", fmt.Sprintf("a read during sync panicked: %v", p))
			}
		}()
		for {
			select {
			case <-n.stop:
				return
			default:
			}
			if hdr, err := r.node.BC.HeadsHeader(); err == nil {
				if t, ok := w.byHash[*hdr.Hash]; !ok || w.blocks[t].height != hdr.Number {
					r.addExtra("sync:reader-saw-head-that-is-no-source-block",
						fmt.Sprintf("a concurrent HeadsHeader() returned block #%d with a hash no version of the source has at that height", hdr.Number))
				}
			}
			if hi := n.s.HighestBlockHeader(); hi != nil && hi.Hash != nil {
				if t, ok := w.byHash[*hi.Hash]; !ok || w.blocks[t].height != hi.Number {
					r.addExtra("sync:highest-header-is-no-source-block", fmt.Sprintf("HighestBlockHeader() = #%d, unknown to the source", hi.Number))
				}
			}
			if st, err := n.s.StartingBlockHeader(); err == nil && st != nil {
				if int(st.Number) != n.start {
					r.addExtra("sync:starting-header-wrong-height", fmt.Sprintf("StartingBlockHeader() = #%d, the node started at %d", st.Number, n.start))
				}
			}
			time.Sleep(40 * time.Microsecond)
		}
	}()
	ctx, cancel := context.WithCancel(context.Background())
	n.cancel = cancel
	go func() {
		defer close(n.done)
		defer func() {
			if p := recover(); p != nil {
				r.mu.Lock()
				r.panicked = fmt.Sprintf("%v\n%s", p, debug.Stack())
				r.mu.Unlock()
			}
			select {
			case <-n.stop:
			default:
				r.exited.Store(true)
			}
		}()
		_ = n.s.Run(ctx)
	}()
	r.live = n
}

// stopNode cancels the node's context, fails the calls that are still in the gates (as a real client
// would) until Run has returned, and ends the feed readers. false = Run did not return.
func (r *run) stopNode(final bool) bool {
	n := r.live
	close(n.stop)
	n.cancel()
	if final {
		close(r.abort)
	}
	deadline := time.Now().Add(15 * time.Second)
	for returned := false; !returned; {
		select {
		case <-n.done:
			returned = true
		default:
			if !final {
				r.mu.Lock()
				r.flushCancelled()
				r.mu.Unlock()
			}
			if time.Now().After(deadline) {
				buf := make([]byte, 1<<18)
				buf = buf[:runtime.Stack(buf, true)]
				fmt.Fprintf(os.Stderr, "goroutines after cancellation:\n%s\n", buf)
				r.hung = "Synchronizer.Run did not return within 15 s of its context being cancelled"
				return false
			}
			time.Sleep(100 * time.Microsecond)
		}
	}
	if !final { // the poller is not waited for by Run: fail its call too
		r.mu.Lock()
		r.flushCancelled()
		r.mu.Unlock()
	}
	n.heads.Unsubscribe()
	n.reorgs.Unsubscribe()
	n.readers.Wait()
	return true
}

// restartNode: Stop, wait for Run, new Blockchain + Synchronizer objects on the same database.
func (r *run) restartNode(graceful bool) bool {
	r.mu.Lock()
	r.recorded = append(r.recorded, Decision{Op: "restart", Burst: graceful})
	r.log(vh.J{"ev": "Stop"})
	r.mu.Unlock()
	if !r.stopNode(false) {
		return false
	}
	if graceful {
		_ = r.node.BC.WriteRunningEventFilter()
	}
	r.settle()
	r.mu.Lock()
	r.flushCancelled()
	r.restarts++
	r.node = r.node.Restart()
	r.log(vh.J{"ev": "Restart", "graceful": graceful, "len": len(r.shadow)})
	r.mu.Unlock()
	r.startNode()
	return true
}

// execute performs one run and returns its events.
func execute(sc *Scenario, tr int) (*run, error) {
	w, err := newWorld(sc.Seed, sc.NewState, sc.InitLen, sc.Plan, sc.Shapes, sc.Classes)
	if err != nil {
		return nil, err
	}
	r := &run{
		sc: sc, w: w, node: chainkit.NewNode(nil, sc.NewState), curVer: 1, abort: make(chan struct{}),
		rng: rand.New(rand.NewSource(sc.Seed*7919 + 13)), servedOK: map[int]bool{},
		classGone: map[int]bool{}, cstats: map[string]int{},
	}
	r.mu.Lock()
	r.log(vh.J{"ev": "Reset", "tr": tr, "chain": r.cur(), "name": sc.Name, "ment": w.mentTable(), "sierra": w.sierraIDs(), "prod": sc.Prod})
	r.mu.Unlock()
	r.startNode()

	if sc.Mode == "script" {
		r.scriptPhase()
	} else {
		r.randomPhase()
	}
	converged := false
	if r.broken == "" && r.hung == "" {
		r.mu.Lock()
		for r.srcStep() { // a script that was abandoned still applies the rest of its plan
		}
		r.mu.Unlock()
		converged = r.stablePhase()
	}
	r.settle()
	r.mu.Lock()
	writesBefore := r.lastWrite
	r.mu.Unlock()
	final := r.finalChain()
	r.checkStoredContent()
	r.mu.Lock()
	if r.lastWrite != writesBefore { // the chain changed while it was being read: inconclusive run
		r.lateWrite++
	}
	r.log(vh.J{"ev": "End", "tr": tr, "final": final, "conv": converged, "src": r.cur(), "local": append([]int{}, r.shadow...)})
	r.closed = true
	r.mu.Unlock()

	if r.hung != "" || !r.stopNode(true) {
		return r, nil
	}
	if after := r.finalChain(); !equalInts(after, final) {
		r.lateWrite++
	}
	if tag, ok := w.mutated(); ok {
		r.addExtra("sync:source-block-mutated-by-node", fmt.Sprintf("block b%d handed to the node (shared transactions / receipts / state diff) was modified", tag))
	}
	return r, nil
}

// checkStoredContent: every block of the node's chain, read back through the Blockchain readers,
// is the source's block: header hash, transactions, receipts and state diff.
func (r *run) checkStoredContent() {
	h, err := r.node.BC.Height()
	if err != nil {
		return
	}
	for i := uint64(0); i <= h; i++ {
		blk, err1 := r.node.BC.BlockByNumber(i)
		su, err2 := r.node.BC.StateUpdateByNumber(i)
		if err1 != nil || err2 != nil {
			r.addExtra("sync:stored-block-unreadable", fmt.Sprintf("block %d of the node's chain cannot be read back: %v %v", i, err1, err2))
			return
		}
		tag, ok := r.w.byHash[*blk.Hash]
		if !ok {
			continue // reported by the chain comparison
		}
		if got, want := digest(blk, su), r.w.digests[tag]; got != want {
			r.addExtra("sync:stored-block-differs-from-source",
				fmt.Sprintf("block %d (b%d) read back from the node differs from the source's block of the same hash:\n got  %s\n want %s", i, tag, got, want))
			return
		}
	}
}

package syncengine

import (
	"context"
	"errors"
	"fmt"
	"sort"
	"strings"

	"github.com/NethermindEth/juno/core"
	"github.com/NethermindEth/juno/core/felt"
	"github.com/NethermindEth/juno/starknet"
	jsync "github.com/NethermindEth/juno/sync"

	"verifharness/internal/vh"
)

// The second wiring of the recorder (Scenario.Prod): the Synchronizer is given the REAL data source of the
// node, sync.NewFeederGatewayDataSource, over this run as the feeder (starknetdata.StarknetData). The
// data source decides which class definitions accompany a block: it looks every class the state update
// mentions up in the node's own head state and downloads what it does not find (fetchUnknownClasses) -
// that decision, and any state the data source keeps between calls, is part of "what gets stored".
//
//	Synchronizer -> tap (observes the call and what it returns) -> feederGatewayDataSource (real) -> feeder (gates)
//
// The feeder's StateUpdateWithBlock / BlockHeaderLatest are the same gates as the scripted DataSource's
// BlockByNumber / BlockHeaderLatest. Class downloads are answered at once (honestly; the first download
// of a call fails when the answer's decision says so). The Resp event of a block answer is recorded
// when the real BlockByNumber RETURNS and carries the ids of the classes in the CommittedBlock's
// NewClasses, which SyncTrace.tla explains by what the local state held while the request was out.

type callKey struct{}

// bbnCall is one BlockByNumber call of the real data source.
type bbnCall struct {
	ev        vh.J      // the Resp event prepared when the feeder's answer was released (nil: none / an error, recorded at once)
	dl        *delivery // ... and its delivery
	classErr  bool      // the first class download fails
	downloads []int     // ids of the classes downloaded
}

type tap struct {
	jsync.DataSource
	r *run
}

func (t *tap) BlockByNumber(ctx context.Context, n uint64) (jsync.CommittedBlock, error) {
	call := &bbnCall{}
	cb, err := t.DataSource.BlockByNumber(context.WithValue(ctx, callKey{}, call), n)
	t.r.returned(ctx, call, &cb, err)
	return cb, err
}

// returned records the Resp event of a block answer of the production data source (see above).
func (r *run) returned(ctx context.Context, call *bbnCall, cb *jsync.CommittedBlock, err error) {
	r.mu.Lock()
	defer r.mu.Unlock()
	if call.ev == nil || r.closed {
		if call.dl != nil {
			call.dl.resolved, call.dl.outcome = true, "dropped"
		}
		return
	}
	ev, dl := call.ev, call.dl
	if err != nil {
		// the feeder's answer was a block, but BlockByNumber failed: a class download failed (or the local state
		// could not be read). To the pipeline this is a failed request.
		why := "class"
		if ctx.Err() != nil {
			why = "ctx"
		}
		r.log(vh.J{"ev": "Resp", "rid": ev["rid"], "h": ev["h"], "r": "err", "ver": 0, "tag": 0, "corr": "none",
			"nc": []int{}, "src": "prod", "why": why, "err": firstLine(err.Error()), "fed": ev["tag"]})
		dl.resolved, dl.outcome = true, "dropped"
		return
	}
	nc := []int{}
	for h := range cb.NewClasses {
		if c, ok := r.w.byClass[h]; ok {
			nc = append(nc, c.id)
		} else {
			nc = append(nc, 0) // a class no block of this world mentions
		}
	}
	sort.Ints(nc)
	if want := r.w.servedHash(dl); cb.Block == nil || cb.StateUpdate == nil || cb.Block.Hash == nil || (want != nil && !cb.Block.Hash.Equal(want)) {
		r.extra = append(r.extra, finding{key: "sync:data-source-returns-another-block", step: len(r.events),
			what: fmt.Sprintf("BlockByNumber(%v) of the production data source did not return the block the feeder served", ev["h"])})
	}
	ev["nc"], ev["src"], ev["dl"] = nc, "prod", append([]int{}, call.downloads...)
	dl.persisted, dl.nc = cb.Persisted, nc
	dl.seq = r.log(ev)
	known := 0
	for _, id := range r.w.mentions(dl.tag) {
		if !containsInt(nc, id) {
			known++
		}
	}
	r.cstats["prod_block_answers"]++
	r.cstats["prod_classes_downloaded"] += len(nc)
	r.cstats["prod_classes_found_in_state"] += known
}

func containsInt(xs []int, x int) bool {
	for _, y := range xs {
		if y == x {
			return true
		}
	}
	return false
}

// servedHash: the hash an honest answer carries (nil for the other kinds: a "hash" corruption claims another
// one, forged copies are re-sealed).
func (w *world) servedHash(dl *delivery) *felt.Felt {
	if dl.r == "ok" {
		return w.blocks[dl.tag].built.Block.Hash
	}
	return nil
}

// feeder is the run as a starknetdata.StarknetData.
type feeder struct{ r *run }

var errNotServed = errors.New("feeder: not served")

func (f feeder) StateUpdateWithBlock(ctx context.Context, n uint64) (*core.StateUpdate, *core.Block, error) {
	call, _ := ctx.Value(callKey{}).(*bbnCall)
	rq := f.r.enter("block", n, ctx, call)
	if rq == nil {
		return nil, nil, errClosed
	}
	select {
	case rp := <-rq.reply:
		if rp.err != nil {
			return nil, nil, rp.err
		}
		return rp.cb.StateUpdate, rp.cb.Block, nil
	case <-f.r.abort:
		return nil, nil, errClosed
	}
}

func (f feeder) BlockHeaderLatest(ctx context.Context) (core.Header, error) {
	hdr, err := f.r.BlockHeaderLatest(ctx)
	if err != nil {
		return core.Header{}, err
	}
	return *hdr, nil
}

func (f feeder) Class(ctx context.Context, hash *felt.Felt) (core.ClassDefinition, error) {
	call, _ := ctx.Value(callKey{}).(*bbnCall)
	r := f.r
	r.mu.Lock()
	defer r.mu.Unlock()
	if r.closed {
		return nil, errClosed
	}
	if ctx.Err() != nil { // a real client fails a call whose context is cancelled
		return nil, ctx.Err()
	}
	c, ok := r.w.byClass[*hash]
	if !ok {
		return nil, errNotFound
	}
	if call != nil && call.classErr {
		call.classErr = false
		r.faults++
		r.cstats["prod_class_downloads_failed"]++
		return nil, errInjected
	}
	if call != nil {
		call.downloads = append(call.downloads, c.id)
	}
	return c.def, nil
}

func (f feeder) BlockByNumber(context.Context, uint64) (*core.Block, error) { return nil, errNotServed }
func (f feeder) BlockLatest(context.Context) (*core.Block, error)           { return nil, errNotServed }
func (f feeder) Transaction(context.Context, *felt.Felt) (core.Transaction, error) {
	return nil, errNotServed
}
func (f feeder) StateUpdate(context.Context, uint64) (*core.StateUpdate, error) {
	return nil, errNotServed
}

func (f feeder) PreConfirmedBlockByNumber(context.Context, uint64, string, uint64) (starknet.PreConfirmedUpdate, error) {
	return nil, errNotServed
}

func (f feeder) PreConfirmedBlockLatest(context.Context, string, uint64) (starknet.PreConfirmedUpdate, uint64, error) {
	return nil, 0, errNotServed
}

// dataSource: what the Synchronizer of this run is given.
func (r *run) dataSource() jsync.DataSource {
	if !r.sc.Prod {
		return r
	}
	return &tap{DataSource: jsync.NewFeederGatewayDataSource(r.node.BC, feeder{r}), r: r}
}

// ---------------------------------------------------------------- the node's class table vs the chain

// classProblems is ClassesExact of Sync.tla evaluated on the real node: the class definitions readable
// from the node - head state and historical states - are exactly what `chain` (the node's chain) says: a
// class has a definition iff a block of the chain mentions it, declared at the height of the first such
// block, with the source's definition. It runs on the goroutine that has just stored / reverted a block.
// Each problem is "<detail>: <text>"; the detail becomes part of the finding's key.
func (r *run) classProblems(chain []int) (problems []string) {
	w, bc := r.w, r.node.BC
	want := w.expectedDefs(chain)
	if len(chain) == 0 {
		return nil // no head state to read
	}
	st, closer, err := bc.HeadState()
	if err != nil {
		return []string{"state-unreadable: head state: " + err.Error()}
	}
	defer func() { _ = closer() }()
	kind := func(c *wclass) string {
		if c.sierra {
			return "sierra"
		}
		return "cairo0"
	}
	head := uint64(len(chain) - 1)
	histFound := func(c *wclass, at uint64) (bool, error) {
		hs, hc, err := bc.StateAtBlockNumber(at)
		if err != nil {
			return false, err
		}
		defer func() { _ = hc() }()
		_, err = hs.Class(&c.hash)
		return err == nil, nil
	}
	for _, c := range w.classes {
		e, has := want[c.id]
		dc, err := st.Class(&c.hash)
		switch {
		case has && err != nil:
			r.mu.Lock()
			how := "never-had-it"
			if r.classGone[c.id] {
				how = "removed-by-a-revert-and-mentioned-again"
			}
			r.mu.Unlock()
			problems = append(problems, fmt.Sprintf("definition-missing:%s:%s: block %d of the node's chain mentions class #%d (%s) but the head state has no definition of it: %v",
				kind(c), how, e, c.id, c.hash.ShortString(), err))
			continue
		case !has && err == nil:
			problems = append(problems, fmt.Sprintf("definition-without-block:%s: no block of the node's chain mentions class #%d (%s) but the head state has a definition of it (declared at %d)",
				kind(c), c.id, c.hash.ShortString(), dc.At))
			continue
		case !has:
			continue
		}
		if dc.At != uint64(e) {
			problems = append(problems, fmt.Sprintf("declared-at-wrong-height:%s: class #%d is first mentioned by block %d of the node's chain, its definition says declared at %d",
				kind(c), c.id, e, dc.At))
		}
		if fp := classFingerprint(dc.Class); fp != c.fp {
			problems = append(problems, fmt.Sprintf("wrong-definition:%s: the definition stored for class #%d is not the source's (%s vs %s)", kind(c), c.id, fp, c.fp))
		}
		// historical states: readable from its declaration height on, not before
		for _, q := range []struct {
			at   int
			want bool
		}{{e, true}, {e - 1, false}, {int(head), true}} {
			if q.at < 0 || uint64(q.at) > head {
				continue
			}
			got, err := histFound(c, uint64(q.at))
			if err != nil {
				problems = append(problems, fmt.Sprintf("state-unreadable: state at block %d: %v", q.at, err))
				break
			}
			if got != q.want {
				problems = append(problems, fmt.Sprintf("history:%s: class #%d (first mentioned by block %d): the state at block %d has a definition: %v, expected %v",
					kind(c), c.id, e, q.at, got, q.want))
				break
			}
		}
	}
	return problems
}

// addClassFindings (mu held) turns class problems into findings, one per detail.
func (r *run) addClassFindings(problems []string, when string) {
	for _, p := range problems {
		i := strings.Index(p, ": ")
		key := "sync:class-table-differs-from-chain:" + p[:i]
		dup := false
		for _, f := range r.extra {
			dup = dup || f.key == key
		}
		if !dup {
			r.extra = append(r.extra, finding{key: key, step: len(r.events), what: p[i+2:] + " (" + when + ")"})
		}
	}
}

package statehist

import (
	"errors"
	"fmt"
	"testing"

	"github.com/NethermindEth/juno/core"
	"github.com/NethermindEth/juno/core/felt"
	"github.com/NethermindEth/juno/db"

	"verifharness/internal/chainkit"
)

func rd(v felt.Felt, err error) string {
	if err == nil {
		return v.String()
	}
	if errors.Is(err, db.ErrKeyNotFound) {
		return "NF"
	}
	return "ERR:" + err.Error()
}

func TestExplore(t *testing.T) {
	for _, ns := range []bool{false, true} {
		n := chainkit.NewNode(nil, ns)
		g := chainkit.NewGen(7)
		addr := *chainkit.F(0x100)
		sys := *chainkit.F(1)
		ch, cls := g.Cairo0Class()
		s1 := *chainkit.F(5)
		mk := func(f func(d *core.StateDiff, cl map[felt.Felt]core.ClassDefinition)) {
			d := chainkit.EmptyDiff()
			cl := map[felt.Felt]core.ClassDefinition{}
			f(d, cl)
			_, err := n.Append(chainkit.BlockSpec{Diff: d, Classes: cl})
			if err != nil {
				t.Logf("ns=%v append: %v", ns, err)
			}
		}
		// block 0: implicit class by deploy (class def passed, not in declared list)
		mk(func(d *core.StateDiff, cl map[felt.Felt]core.ClassDefinition) {
			cl[ch] = cls
			d.DeployedContracts[addr] = &ch
		})
		// block 1: sys slot := 7
		mk(func(d *core.StateDiff, cl map[felt.Felt]core.ClassDefinition) {
			d.StorageDiffs[sys] = map[felt.Felt]*felt.Felt{s1: chainkit.F(7)}
		})
		// block 2: sys slot := 0
		mk(func(d *core.StateDiff, cl map[felt.Felt]core.ClassDefinition) {
			d.StorageDiffs[sys] = map[felt.Felt]*felt.Felt{s1: chainkit.F(0)}
		})
		h, _ := n.BC.HeadsHeader()
		t.Logf("ns=%v head=%d root=%s", ns, h.Number, h.GlobalStateRoot)
		for m := uint64(0); m <= h.Number; m++ {
			st, _, err := n.BC.StateAtBlockNumber(m)
			if err != nil {
				t.Fatal(err)
			}
			t.Logf("ns=%v @%d sys.stor=%s sys.cls=%s sys.nonce=%s", ns, m, rd(st.ContractStorage(&sys, &s1)), rd(st.ContractClassHash(&sys)), rd(st.ContractNonce(&sys)))
		}
		// block 3: unrelated
		mk(func(d *core.StateDiff, cl map[felt.Felt]core.ClassDefinition) {
			d.StorageDiffs[addr] = map[felt.Felt]*felt.Felt{s1: chainkit.F(9)}
		})
		for i := 0; i < 4; i++ {
			err := n.BC.RevertHead()
			hh, _ := n.BC.Height()
			t.Logf("ns=%v revert -> %v height now %d", ns, err, hh)
			if err != nil {
				break
			}
		}
		hs, _, err := n.BC.HeadState()
		if err == nil {
			c, e := hs.Class(&ch)
			t.Logf("ns=%v class after reverts: %v %v", ns, c != nil, e)
		} else {
			t.Logf("ns=%v no head: %v", ns, err)
			// look for the class directly
			c, e := core.GetClass(n.Store, &ch)
			t.Logf("ns=%v class in db after full revert: %v %v", ns, c != nil, e)
		}
		fmt.Println()
	}
}

package statehist

import (
	"fmt"
	"strings"
	"sync"
	"sync/atomic"
	"testing"

	"github.com/NethermindEth/juno/core"
	"github.com/NethermindEth/juno/core/felt"

	"verifharness/internal/chainkit"
	"verifharness/internal/faultkv"
	"verifharness/internal/vh"
)

// overwriteSpec is a block on top of the chain whose state is `t` that changes everything a
// reader of an EARLIER block could be asked about: every slot of every deployed contract gets a
// different value, every nonce moves, every user contract whose class can be replaced gets another
// declared class. Readers of retained blocks must not see any of it.
func (w *world) overwriteSpec(t stateT, version string, number uint64) chainkit.BlockSpec {
	d := chainkit.EmptyDiff()
	other := func(cur string) string {
		for _, k := range w.classIDs {
			if k != cur && t.Cl[k] != "none" {
				return k
			}
		}
		return ""
	}
	for _, c := range w.conIDs {
		ct := t.Con[c]
		if !ct.Dep {
			continue
		}
		a := w.addr[c]
		sys := strings.HasPrefix(c, "sys")
		if !sys {
			d.Nonces[a] = chainkit.F(uint64(ct.Nonce + 1))
			if k := other(ct.Cls); k != "" {
				h := w.classHash(k)
				d.ReplacedClasses[a] = &h
			}
		}
		d.StorageDiffs[a] = map[felt.Felt]*felt.Felt{}
		for _, s := range w.slotIDs {
			nv := ct.Stor[s]%(len(w.val)-1) + 1 // a different, non-zero value
			if nv == ct.Stor[s] {
				nv = nv%(len(w.val)-1) + 1
			}
			d.StorageDiffs[a][w.slot[s]] = w.value(nv)
		}
	}
	return chainkit.BlockSpec{Version: version, Timestamp: 5000 + number, Diff: d, Classes: map[felt.Felt]core.ClassDefinition{}}
}

// TestHistConcurrent: the real Blockchain is read by RPC handlers and the VM while the
// synchroniser stores and reverts blocks. The chain of a replayed behaviour is the retained part;
// a writer stores and reverts an "overwrite everything" block on top of it again and again while
// reader goroutines - for the writer's whole lifetime - ask every state query of every retained
// block by number and by hash (fresh readers and readers obtained before the writer started).
// The monitor is the spec's invariant ReadsAgree restricted to the retained blocks. C03 and C04
// quantify over histories, not over schedules, so an answer that is wrong only while the writer's
// commit lands in the middle of the read is recorded as an OBSERVATION. Verdicts come from what
// is observable once the race has ended: every retained block is read again sequentially (C03),
// the database must equal the one before the round, Store / RevertHead must never have failed
// (C04), and no goroutine may have crashed.
func TestHistConcurrent(t *testing.T) {
	if !vh.Enabled() {
		t.Skip()
	}
	var in struct {
		input
		Rounds  int    `json:"rounds"`
		Readers int    `json:"readers"`
		Mode    string `json:"mode"` // "reads" (C03) or "revert" (C04)
	}
	if err := vh.Input(&in); err != nil {
		t.Fatal(err)
	}
	if in.Rounds == 0 {
		in.Rounds = 40
	}
	if in.Readers == 0 {
		in.Readers = 4
	}
	out := vh.NewResult()
	defer out.Write()
	var reads, cycles atomic.Int64
	done := 0
	// C03 / C04 quantify over histories, not schedules: an answer that is wrong only because the
	// writer's commit landed in the middle of the read is an OBSERVATION, never a verdict.
	var obsMu sync.Mutex
	obsCount := 0
	obsSeen := map[string]bool{}
	var obsList []vh.J
	observe := func(key, what string) {
		if in.Mode == "revert" {
			return // the reads are C03's business
		}
		obsMu.Lock()
		defer obsMu.Unlock()
		obsCount++
		if !obsSeen[key] && len(obsList) < 60 {
			obsSeen[key] = true
			obsList = append(obsList, vh.J{"key": key, "what": what})
		}
	}
	defer func() {
		out.Count("observations", obsCount)
		out.Stats["observation_list"] = obsList
	}()
	for bi := range in.Behaviours {
		b := &in.Behaviours[bi]
		w := newWorld(b.Seed, b)
		for _, be := range backendsOf(&in.input) {
			func() {
				g := newGuard(out, be, b)
				defer g.finish()
				var mu sync.Mutex
				reported := map[string]bool{}
				diverge := func(key, what string, exp, obs any) {
					// C03 judges the reads, C04 the writer and the database; crashes concern both
					isRead := strings.HasPrefix(key, "hist-read") || strings.HasPrefix(key, "reader-unavailable")
					isCrash := strings.HasPrefix(key, "crash:")
					if !isCrash && ((in.Mode == "reads" && !isRead) || (in.Mode == "revert" && isRead)) {
						return
					}
					mu.Lock()
					defer mu.Unlock()
					if reported[key] {
						return
					}
					reported[key] = true
					in2 := in
					in2.Behaviours = []behaviour{*b}
					in2.Backends = []string{be}
					out.Diverge(vh.Divergence{Key: key, What: what, Input: in2, Step: len(b.Steps), Expected: exp, Observed: obs})
					_ = out.Write()
				}
				// the retained chain: replay the behaviour sequentially
				nd := newNode(be)
				var truth []stateT
				for si := range b.Steps {
					st := &b.Steps[si]
					g.kick(si)
					var err error
					switch st.A.Name {
					case "Apply":
						err = nd.apply(w, &st.A)
					case "Revert":
						if st.Res != "ok" {
							return
						}
						err = nd.revert()
					case "Restart":
						err = nd.restart(st.A.Graceful)
					}
					if err != nil {
						return // the sequential replays report this
					}
					truth = st.Truth
				}
				head := len(nd.builts) - 1
				if head < 1 {
					return
				}
				x, err := nd.n.Build(w.overwriteSpec(truth[head], nd.builts[head].Block.ProtocolVersion, uint64(head+1)))
				if err != nil {
					diverge("store-failed:"+be+":overwrite-block", fmt.Sprintf("%s backend: cannot build the overwrite block: %v", be, err), "ok", err.Error())
					return
				}
				before := dump(nd.n.Store)
				expected := make([]map[string]string, head+1)
				// every reader goroutine has its own readers obtained before the writer starts
				// (a state reader belongs to one request)
				helds := make([][]reader, in.Readers)
				for m := 0; m <= head; m++ {
					expected[m] = w.expected(truth, m)
					for ri := range helds {
						rs, err := nd.readers(m, -1) // by number and by hash, no head reader
						if err != nil {
							diverge("reader-unavailable:"+be, fmt.Sprintf("%s backend: no state reader for retained block %d: %v", be, m, err), "reader", err.Error())
							return
						}
						helds[ri] = append(helds[ri], rs...)
					}
				}
				check := func(r reader, how string) {
					for _, qa := range w.stateAnswers(r) {
						reads.Add(1)
						if want := expected[r.m][qa[0]]; want != qa[1] {
							qk := strings.SplitN(qa[0], ":", 2)[0]
							where := "below-head"
							if r.m == head {
								where = "at-head"
							}
							observe(fmt.Sprintf("hist-read-concurrent:%s:%s:%s:%s:%s->%s:%s", be, how, r.kind, qk, kindOf(want), kindOf(qa[1]), where),
								fmt.Sprintf("%s backend: while block %d is being stored / reverted, the %s %s reader of retained block %d answers %s = %s; the chain's state diffs give %s",
									be, head+1, how, r.kind, r.m, qa[0], qa[1], want))
							return
						}
					}
				}
				readStall.Add(1)
				defer readStall.Add(-1)
				var stop atomic.Bool
				var wg sync.WaitGroup
				for ri := 0; ri < in.Readers; ri++ {
					wg.Add(1)
					go func(ri int) {
						defer wg.Done()
						defer func() {
							if r := recover(); r != nil {
								diverge("crash:"+be+":concurrent-reader", fmt.Sprintf("%s backend: reader goroutine panicked: %v", be, r), "no panic", fmt.Sprint(r))
							}
						}()
						for n := 0; !stop.Load(); n++ { // for the writer's whole lifetime
							m := head - (n+ri)%(head+1)
							if ri%2 == 1 {
								m = head // every other reader stays at the boundary block
							}
							if (n+ri)%3 == 0 {
								for _, h := range helds[ri] {
									if h.m == m {
										check(h, "held")
									}
								}
								continue
							}
							rs, err := nd.readers(m, -1)
							if err != nil {
								observe("reader-unavailable:"+be+":concurrent", fmt.Sprintf("%s backend: no state reader for retained block %d while block %d is stored / reverted: %v", be, m, head+1, err))
								continue
							}
							for _, r := range rs {
								check(r, "fresh")
							}
						}
					}(ri)
				}
				// the writer
				func() {
					defer func() {
						if r := recover(); r != nil {
							diverge("crash:"+be+":"+junoFrame(debugStack()), fmt.Sprintf("%s backend: writer panicked: %v", be, r), "no panic", fmt.Sprint(r))
						}
					}()
					for c := 0; c < in.Rounds; c++ {
						g.kick(len(b.Steps))
						if err := nd.n.StoreBuilt(x); err != nil {
							diverge("store-failed:"+be+":under-readers:"+shortErr(err), fmt.Sprintf("%s backend: storing block %d while readers are active failed in cycle %d: %v", be, head+1, c, err), "ok", err.Error())
							return
						}
						if err := nd.n.BC.RevertHead(); err != nil {
							diverge("revert-failed:"+be+":under-readers:"+shortErr(err), fmt.Sprintf("%s backend: RevertHead of block %d while readers are active failed in cycle %d: %v", be, head+1, c, err), "ok", err.Error())
							return
						}
						cycles.Add(1)
					}
				}()
				stop.Store(true)
				wg.Wait()
				// what is left AFTER the race has ended is judged: every retained block read again,
				// sequentially, through fresh readers and through the readers held during the round
				for m := 0; m <= head; m++ {
					rs, err := nd.readers(m, head)
					if err != nil {
						diverge("reader-unavailable:"+be+":after-concurrent-round", fmt.Sprintf("%s backend: no state reader for retained block %d after the concurrent round: %v", be, m, err), "reader", err.Error())
						break
					}
					for _, h := range helds[0] {
						if h.m == m {
							rs = append(rs, reader{"held-" + h.kind, h.m, h.st})
						}
					}
					for _, r := range rs {
						for _, qa := range w.stateAnswers(r) {
							if want := expected[m][qa[0]]; want != qa[1] {
								qk := strings.SplitN(qa[0], ":", 2)[0]
								diverge(fmt.Sprintf("hist-read:%s:%s:%s:after-concurrent-round", be, r.kind, qk),
									fmt.Sprintf("%s backend: after %d Store ; RevertHead cycles under readers, the %s reader of block %d answers %s = %s; the chain's state diffs give %s", be, in.Rounds, r.kind, m, qa[0], qa[1], want), want, qa[1])
								break
							}
						}
					}
				}
				if df := faultkv.Diff(dump(nd.n.Store), before, lifecycleBuckets, 8); len(df) > 0 {
					diverge(dumpKey("revert-not-exact", be, df)+":under-readers", fmt.Sprintf("%s backend: %d Store ; RevertHead cycles under concurrent readers do not restore the database: %v", be, in.Rounds, df), "identical dumps", df)
				}
				done++
			}()
		}
	}
	out.Count("concurrent_reads", int(reads.Load()))
	out.Count("store_revert_cycles_under_readers", int(cycles.Load()))
	out.Done(done, done*in.Rounds*2)
}

package statehist

import (
	"bytes"
	"sync/atomic"
	"time"

	"github.com/NethermindEth/juno/db"
)

// poisonStore enforces the lending contract of db.KeyValueReader on a store that (like db/memory)
// would otherwise hand out its internal buffers: the value passed to a Get callback, an iterator's
// Key() and UncopiedValue() are valid only until the callback returns / the iterator moves. The
// wrapper hands out a private copy and scribbles over it afterwards, so code that keeps such a
// buffer (a lazily decoded result, a cached key) reads garbage instead of silently working on
// db/memory and failing on pebble.
type poisonStore struct {
	db.KeyValueStore
}

func scribble(b []byte) {
	for i := range b {
		b[i] = 0xA5
	}
}

type getter interface {
	Get(key []byte, cb func([]byte) error) error
}

// readStall > 0 (concurrent rounds only): every few reads the calling goroutine pauses right after
// the read returned, so that a caller which composes its answer from two reads of the live database
// (check-then-read, seek-then-fallback) leaves a window a concurrent commit can fall into.
var (
	readStall atomic.Int32
	readCount atomic.Uint64
)

func stall() {
	if readStall.Load() > 0 && readCount.Add(1)%4 == 0 {
		time.Sleep(20 * time.Microsecond)
	}
}

func poisonGet(r getter, key []byte, cb func([]byte) error) error {
	err := r.Get(key, func(v []byte) error {
		c := bytes.Clone(v)
		err := cb(c)
		scribble(c)
		return err
	})
	stall()
	return err
}

func (s *poisonStore) Get(key []byte, cb func([]byte) error) error {
	return poisonGet(s.KeyValueStore, key, cb)
}

func (s *poisonStore) NewIterator(prefix []byte, ub bool) (db.Iterator, error) {
	it, err := s.KeyValueStore.NewIterator(prefix, ub)
	if err != nil {
		return nil, err
	}
	return &poisonIter{Iterator: it}, nil
}

func (s *poisonStore) NewIndexedBatch() db.IndexedBatch {
	return &poisonBatch{s.KeyValueStore.NewIndexedBatch()}
}

func (s *poisonStore) NewIndexedBatchWithSize(n int) db.IndexedBatch {
	return &poisonBatch{s.KeyValueStore.NewIndexedBatchWithSize(n)}
}

func (s *poisonStore) Update(fn func(db.IndexedBatch) error) error {
	b := s.NewIndexedBatch()
	if err := fn(b); err != nil {
		_ = b.Close()
		return err
	}
	return b.Write()
}

func (s *poisonStore) NewSnapshot() db.Snapshot {
	return &poisonSnap{s.KeyValueStore.NewSnapshot()}
}

func (s *poisonStore) WithListener(db.EventListener) db.KeyValueStore { return s }

type poisonBatch struct{ db.IndexedBatch }

func (b *poisonBatch) Get(key []byte, cb func([]byte) error) error {
	return poisonGet(b.IndexedBatch, key, cb)
}

func (b *poisonBatch) NewIterator(prefix []byte, ub bool) (db.Iterator, error) {
	it, err := b.IndexedBatch.NewIterator(prefix, ub)
	if err != nil {
		return nil, err
	}
	return &poisonIter{Iterator: it}, nil
}

type poisonSnap struct{ db.Snapshot }

func (s *poisonSnap) Get(key []byte, cb func([]byte) error) error {
	return poisonGet(s.Snapshot, key, cb)
}

func (s *poisonSnap) NewIterator(prefix []byte, ub bool) (db.Iterator, error) {
	it, err := s.Snapshot.NewIterator(prefix, ub)
	if err != nil {
		return nil, err
	}
	return &poisonIter{Iterator: it}, nil
}

// poisonIter lends copies of the key and of the uncopied value; they die when the iterator moves.
type poisonIter struct {
	db.Iterator
	lent [][]byte
}

func (i *poisonIter) expire() {
	for _, b := range i.lent {
		scribble(b)
	}
	i.lent = i.lent[:0]
}

func (i *poisonIter) lend(b []byte) []byte {
	if b == nil {
		return nil
	}
	c := bytes.Clone(b)
	i.lent = append(i.lent, c)
	return c
}

func (i *poisonIter) Key() []byte { return i.lend(i.Iterator.Key()) }

func (i *poisonIter) UncopiedValue() ([]byte, error) {
	v, err := i.Iterator.UncopiedValue()
	if err != nil {
		return nil, err
	}
	return i.lend(v), nil
}

func (i *poisonIter) First() bool        { i.expire(); return i.Iterator.First() }
func (i *poisonIter) Next() bool         { i.expire(); return i.Iterator.Next() }
func (i *poisonIter) Prev() bool         { i.expire(); return i.Iterator.Prev() }
func (i *poisonIter) Seek(k []byte) bool { i.expire(); ok := i.Iterator.Seek(k); stall(); return ok }
func (i *poisonIter) Close() error       { i.expire(); return i.Iterator.Close() }

package statehist

import (
	"bytes"
	"encoding/json"
	"fmt"
	"os"
	"testing"

	"github.com/NethermindEth/juno/db"
	"verifharness/internal/faultkv"
)

func TestDbg(t *testing.T) {
	p := os.Getenv("DBG_REPLAY")
	if p == "" {
		t.Skip()
	}
	raw, _ := os.ReadFile(p)
	var rp struct {
		Input input `json:"input"`
	}
	if err := json.Unmarshal(raw, &rp); err != nil {
		t.Fatal(err)
	}
	b := &rp.Input.Behaviours[0]
	w := newWorld(b.Seed, b)
	nd := newNode(rp.Input.Backends[0])
	var dumps [][]faultkv.KV
	for si := range b.Steps {
		st := &b.Steps[si]
		var err error
		if st.A.Name == "Apply" {
			d, _ := faultkv.Dump(nd.n.Store)
			dumps = append(dumps, d)
			err = nd.apply(w, &st.A)
			fmt.Println("step", si, "apply", actionsOf(&behaviour{Steps: []step{*st}}), err)
		} else {
			err = nd.revert()
			fmt.Println("step", si, "revert", err)
			if err != nil {
				break
			}
			before := dumps[len(dumps)-1]
			dumps = dumps[:len(dumps)-1]
			after, _ := faultkv.Dump(nd.n.Store)
			am := map[string][]byte{}
			for _, kv := range after {
				am[string(kv.K)] = kv.V
			}
			bm := map[string][]byte{}
			for _, kv := range before {
				bm[string(kv.K)] = kv.V
			}
			for k, v := range am {
				if bv, ok := bm[k]; !ok {
					fmt.Printf("   only-after  %s %x = %x\n", db.Bucket(k[0]), k[1:], v)
				} else if !bytes.Equal(bv, v) {
					fmt.Printf("   differs     %s %x\n      after  %x\n      before %x\n", db.Bucket(k[0]), k[1:], v, bv)
				}
			}
			for k, v := range bm {
				if _, ok := am[k]; !ok {
					fmt.Printf("   only-before %s %x = %x\n", db.Bucket(k[0]), k[1:], v)
				}
			}
		}
	}
}

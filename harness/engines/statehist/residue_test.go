// Raw history buckets against the specification's encoding projection (`enc` of every step of a
// behaviour generated from StateHistoryMBT.tla / StateHistoryScripts.tla).
//
// StateHistory.tla holds both history encodings explicitly (ndb / ldb / cdb). After every Apply and
// Revert step the replayer lists what the real database holds in the history buckets of the backend
// under test - storage / nonce / class-hash history, deployment heights (new: the DeployedHeight of
// the contract record), class records (At) and CASM metadata - and compares it, entry by entry, with
// the specification's. An entry that a RevertHead leaves behind is thereby reported AT the revert
// (`hist-residue:<backend>:<bucket>:<kind>`), whether or not a later read happens to hit it.
package statehist

import (
	"encoding/binary"
	"encoding/json"
	"errors"
	"fmt"
	"sort"
	"strings"

	"github.com/NethermindEth/juno/core"
	"github.com/NethermindEth/juno/core/felt"
	"github.com/NethermindEth/juno/core/state"
	"github.com/NethermindEth/juno/db"
)

// looseMap decodes a TLA+ function printed by ToJson: an object, or `[]` when its domain is empty.
type looseMap[V any] map[string]V

func (m *looseMap[V]) UnmarshalJSON(b []byte) error {
	s := strings.TrimSpace(string(b))
	if s == "[]" || s == "null" {
		*m = map[string]V{}
		return nil
	}
	var x map[string]V
	if err := json.Unmarshal(b, &x); err != nil {
		return err
	}
	*m = x
	return nil
}

type logE struct {
	A   string `json:"a"`
	S   string `json:"s"`
	N   int    `json:"n"`
	New any    `json:"new"`
	Old any    `json:"old"`
}

type casmE struct {
	Decl int  `json:"decl"`
	Mig  int  `json:"mig"`
	V1   bool `json:"v1"`
}

type encT struct {
	NS   []logE          `json:"nS"`
	NN   []logE          `json:"nN"`
	NC   []logE          `json:"nC"`
	NDh  looseMap[int]   `json:"nDh"`
	NAt  looseMap[int]   `json:"nAt"`
	LS   []logE          `json:"lS"`
	LN   []logE          `json:"lN"`
	LC   []logE          `json:"lC"`
	LDh  looseMap[int]   `json:"lDh"`
	LAt  looseMap[int]   `json:"lAt"`
	Casm looseMap[casmE] `json:"casm"`
}

func jsonVal(v any) string {
	switch x := v.(type) {
	case float64:
		return fmt.Sprint(int(x))
	case string:
		return x
	}
	return fmt.Sprint(v)
}

// expectedRaw renders the specification's encoding of backend be as "bucket|key" -> value.
func (e *encT) expectedRaw(be string) map[string]string {
	out := map[string]string{}
	logs := func(bucket string, ls []logE, slot, newer bool) {
		for _, l := range ls {
			k := bucket + "|" + l.A
			if slot {
				k += "|" + l.S
			}
			k += fmt.Sprintf("|%d", l.N)
			if newer {
				out[k] = jsonVal(l.New)
			} else {
				out[k] = jsonVal(l.Old)
			}
		}
	}
	var dh, at looseMap[int]
	if be == "new" {
		logs("storage", e.NS, true, true)
		logs("nonce", e.NN, false, true)
		logs("classhash", e.NC, false, true)
		dh, at = e.NDh, e.NAt
	} else {
		logs("storage", e.LS, true, false)
		logs("nonce", e.LN, false, false)
		logs("classhash", e.LC, false, false)
		dh, at = e.LDh, e.LAt
	}
	for a, h := range dh {
		if h >= 0 {
			out["deployed|"+a] = fmt.Sprint(h)
		}
	}
	for c, h := range at {
		if h >= 0 {
			out["class|"+c] = fmt.Sprint(h)
		}
	}
	for c, m := range e.Casm {
		if m.Decl >= 0 {
			out["casm|"+c] = fmt.Sprintf("decl=%d mig=%d v1=%v", m.Decl, m.Mig, m.V1)
		}
	}
	return out
}

// reverse lookups: concrete felts -> model ids (unknown felts are rendered in hex, so a stray entry
// under a key the behaviour never used is still listed)
type revWorld struct {
	addr, slot, class, val map[felt.Felt]string
}

func (w *world) reverse() *revWorld {
	r := &revWorld{map[felt.Felt]string{}, map[felt.Felt]string{}, map[felt.Felt]string{}, map[felt.Felt]string{}}
	for id, f := range w.addr {
		r.addr[f] = id
	}
	for id, f := range w.slot {
		r.slot[f] = id
	}
	for id, c := range w.class {
		r.class[c.hash] = id
	}
	r.class[felt.Zero] = "zero"
	for v := len(w.val) - 1; v >= 0; v-- {
		r.val[w.val[v]] = fmt.Sprint(v)
	}
	return r
}

func name(m map[felt.Felt]string, f *felt.Felt) string {
	if id, ok := m[*f]; ok {
		return id
	}
	return f.String()
}

func feltOf(b []byte) felt.Felt { return *new(felt.Felt).SetBytes(b) }

func scan(store db.KeyValueReader, bucket db.Bucket, fn func(key, val []byte) error) error {
	it, err := store.NewIterator(bucket.Key(), true)
	if err != nil {
		return err
	}
	defer it.Close()
	for ok := it.First(); ok; ok = it.Next() {
		k := append([]byte{}, it.Key()...)
		if len(k) == 0 || k[0] != byte(bucket) {
			break
		}
		v, err := it.Value()
		if err != nil {
			return err
		}
		if err := fn(k[1:], v); err != nil {
			return err
		}
	}
	return nil
}

// observedRaw lists what the database of backend be holds, in the format of expectedRaw.
func (w *world) observedRaw(store db.KeyValueReader, be string, rw *revWorld) (map[string]string, error) {
	out := map[string]string{}
	const fb = felt.Bytes
	storB, nonceB, clsB := db.ContractStorageHistory, db.ContractNonceHistory, db.ContractClassHashHistory
	if be != "new" {
		storB, nonceB, clsB = db.DeprecatedContractStorageHistory, db.DeprecatedContractNonceHistory, db.DeprecatedContractClassHashHistory
	}
	err := scan(store, storB, func(k, v []byte) error {
		if len(k) != 2*fb+8 {
			out["storage|malformed:"+fmt.Sprintf("%x", k)] = fmt.Sprintf("%x", v)
			return nil
		}
		a, s := feltOf(k[:fb]), feltOf(k[fb:2*fb])
		val := feltOf(v)
		out[fmt.Sprintf("storage|%s|%s|%d", name(rw.addr, &a), name(rw.slot, &s), binary.BigEndian.Uint64(k[2*fb:]))] = name(rw.val, &val)
		return nil
	})
	if err != nil {
		return nil, err
	}
	err = scan(store, nonceB, func(k, v []byte) error {
		if len(k) != fb+8 {
			out["nonce|malformed:"+fmt.Sprintf("%x", k)] = fmt.Sprintf("%x", v)
			return nil
		}
		a := feltOf(k[:fb])
		val := feltOf(v)
		s := val.String()
		if small := new(felt.Felt).SetUint64(val.Uint64()); small.Equal(&val) {
			s = fmt.Sprint(val.Uint64())
		}
		out[fmt.Sprintf("nonce|%s|%d", name(rw.addr, &a), binary.BigEndian.Uint64(k[fb:]))] = s
		return nil
	})
	if err != nil {
		return nil, err
	}
	err = scan(store, clsB, func(k, v []byte) error {
		if len(k) != fb+8 {
			out["classhash|malformed:"+fmt.Sprintf("%x", k)] = fmt.Sprintf("%x", v)
			return nil
		}
		a := feltOf(k[:fb])
		val := feltOf(v)
		out[fmt.Sprintf("classhash|%s|%d", name(rw.addr, &a), binary.BigEndian.Uint64(k[fb:]))] = name(rw.class, &val)
		return nil
	})
	if err != nil {
		return nil, err
	}
	// deployment heights
	if be == "new" {
		err = scan(store, db.Contract, func(k, _ []byte) error {
			a := feltOf(k)
			c, err := state.GetContract(store, &a)
			if err != nil {
				return err
			}
			out["deployed|"+name(rw.addr, &a)] = fmt.Sprint(c.DeployedHeight)
			return nil
		})
	} else {
		err = scan(store, db.ContractDeploymentHeight, func(k, v []byte) error {
			a := feltOf(k)
			if len(v) != 8 {
				out["deployed|"+name(rw.addr, &a)] = fmt.Sprintf("malformed:%x", v)
				return nil
			}
			out["deployed|"+name(rw.addr, &a)] = fmt.Sprint(binary.BigEndian.Uint64(v))
			return nil
		})
	}
	if err != nil {
		return nil, err
	}
	// class records
	err = scan(store, db.Class, func(k, _ []byte) error {
		h := feltOf(k)
		dc, err := core.GetClass(store, &h)
		if err != nil {
			return err
		}
		out["class|"+name(rw.class, &h)] = fmt.Sprint(dc.At)
		return nil
	})
	if err != nil {
		return nil, err
	}
	// CASM metadata: the fields are private; declared-at and migrated-at are read off its own accessors
	err = scan(store, db.ClassCasmHashMetadata, func(k, _ []byte) error {
		h := feltOf(k)
		md, err := core.GetClassCasmHashMetadata(store, (*felt.SierraClassHash)(&h))
		if err != nil {
			return err
		}
		decl, mig := -2, 0
		for x := uint64(0); x < 64; x++ {
			if _, err := md.CasmHashAt(x); err == nil {
				decl = int(x)
				break
			} else if !errors.Is(err, db.ErrKeyNotFound) {
				return err
			}
		}
		if md.IsMigrated() {
			mig = -2
			for x := uint64(0); x < 64; x++ {
				if md.IsMigratedAt(x) {
					mig = int(x)
					break
				}
			}
		}
		out["casm|"+name(rw.class, &h)] = fmt.Sprintf("decl=%d mig=%d v1=%v", decl, mig, !md.IsDeclaredWithV2())
		return nil
	})
	if err != nil {
		return nil, err
	}
	return out, nil
}

type rawDiff struct {
	kind     string // extra, missing, wrong
	key      string // bucket|...
	want, is string
}

func compareRaw(exp, obs map[string]string) []rawDiff {
	var out []rawDiff
	for _, k := range sortedKeys(obs) {
		if want, ok := exp[k]; !ok {
			out = append(out, rawDiff{"extra", k, "(no entry)", obs[k]})
		} else if want != obs[k] {
			out = append(out, rawDiff{"wrong", k, want, obs[k]})
		}
	}
	for _, k := range sortedKeys(exp) {
		if _, ok := obs[k]; !ok {
			out = append(out, rawDiff{"missing", k, exp[k], "(no entry)"})
		}
	}
	sort.SliceStable(out, func(i, j int) bool { return out[i].kind < out[j].kind })
	return out
}

// residueKind names what a leftover entry is the leftover of, from the diff of the reverted block
// (reverted = its Apply action, prev = the state before it, n = its number).
func residueKind(d rawDiff, reverted *action, prev *stateT, n int) string {
	p := strings.Split(d.key, "|")
	find := func(k, a, s string) *op {
		for i := range reverted.Ops {
			o := &reverted.Ops[i]
			if o.K == k && (a == "" || o.A == a) && (s == "" || o.S == s) {
				return o
			}
		}
		return nil
	}
	atN := func(i int) bool { return len(p) > i && p[i] == fmt.Sprint(n) }
	switch p[0] {
	case "storage":
		if len(p) != 4 || !atN(3) {
			return "other-height"
		}
		o := find("stor", p[1], p[2])
		if o == nil {
			return "untouched-key"
		}
		old := 0
		if prev != nil && prev.Con[o.A].Dep {
			old = prev.Con[o.A].Stor[o.S]
		}
		switch {
		case o.V == 0:
			return "zero-write"
		case o.V == old:
			return "same-value"
		}
		return "write"
	case "nonce":
		if !atN(2) {
			return "other-height"
		}
		if find("nonce", p[1], "") != nil {
			return "nonce"
		}
		if find("dep", p[1], "") != nil {
			return "deployed-contract"
		}
		return "untouched-key"
	case "classhash":
		if !atN(2) {
			return "other-height"
		}
		if find("rep", p[1], "") != nil {
			return "replaced-class"
		}
		if find("dep", p[1], "") != nil {
			return "deployed-class"
		}
		return "untouched-key"
	case "deployed":
		return "deployment-height"
	case "class":
		return "class-record"
	case "casm":
		return "casm-metadata"
	}
	return "unknown"
}

// checkRaw compares the raw history buckets of nd with the specification's encoding after step si.
// Returns (key, what, expected, observed) of the first difference, preferring leftovers.
// Entries already reported (known maps "bucket|key" of earlier differences) are not reported again: a
// leftover stays in the database until something overwrites it.
func (w *world) checkRaw(nd *node, be string, rw *revWorld, st *step, reverted *action, prev *stateT, known map[string]bool) (key, what string, exp, obs any, err error) {
	if len(st.Enc) == 0 {
		return "", "", nil, nil, nil
	}
	var e encT
	if err := json.Unmarshal(st.Enc, &e); err != nil {
		return "", "", nil, nil, fmt.Errorf("enc: %w", err)
	}
	want := e.expectedRaw(be)
	got, err := w.observedRaw(nd.n.Store, be, rw)
	if err != nil {
		return "", "", nil, nil, err
	}
	var diffs []rawDiff
	for _, d := range compareRaw(want, got) {
		if !known[d.key] {
			known[d.key] = true
			diffs = append(diffs, d)
		}
	}
	if len(diffs) == 0 {
		return "", "", nil, nil, nil
	}
	d := diffs[0]
	bucket := strings.SplitN(d.key, "|", 2)[0]
	after := "after-" + strings.ToLower(st.A.Name)
	n := len(st.Truth) // the number of the block a Revert step removed
	switch {
	case d.kind == "extra" && st.A.Name == "Revert" && reverted != nil:
		kind := residueKind(d, reverted, prev, n)
		key = fmt.Sprintf("hist-residue:%s:%s:%s", be, bucket, kind)
		what = fmt.Sprintf("%s backend: RevertHead of block %d leaves the %s history entry %s = %s behind (%s of the reverted block); the specification's encoding has no such entry",
			be, n, bucket, d.key, d.is, kind)
	case d.kind == "extra":
		key = fmt.Sprintf("hist-extra:%s:%s:%s", be, bucket, after)
		what = fmt.Sprintf("%s backend: the %s history holds %s = %s, the specification's encoding has no such entry", be, bucket, d.key, d.is)
	case d.kind == "missing":
		key = fmt.Sprintf("hist-missing:%s:%s:%s", be, bucket, after)
		what = fmt.Sprintf("%s backend: the %s history lacks %s = %s of the specification's encoding", be, bucket, d.key, d.want)
	default:
		key = fmt.Sprintf("hist-wrong:%s:%s:%s", be, bucket, after)
		what = fmt.Sprintf("%s backend: the %s history holds %s = %s, the specification's encoding %s", be, bucket, d.key, d.is, d.want)
	}
	var all []string
	for i, x := range diffs {
		if i == 8 {
			all = append(all, fmt.Sprintf("... %d more", len(diffs)-8))
			break
		}
		all = append(all, fmt.Sprintf("%s %s: spec %s, database %s", x.kind, x.key, x.want, x.is))
	}
	return key, what, "history buckets = encoding of the specification", all, nil
}

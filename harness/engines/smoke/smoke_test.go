package smoke

import (
	"testing"

	"github.com/NethermindEth/juno/core"
	"github.com/NethermindEth/juno/core/felt"
	"github.com/NethermindEth/juno/db/memory"

	"verifharness/internal/chainkit"
	"verifharness/internal/faultkv"
)

// TestChainkit is a self-test of the shared kit (not a property check).
func TestChainkit(t *testing.T) {
	for _, newState := range []bool{false, true} {
		fk := faultkv.Wrap(memory.New())
		n := chainkit.NewNode(fk, newState)
		twin := chainkit.NewNode(nil, newState)
		g := chainkit.NewGen(7)
		addr := *chainkit.F(0x100)
		ch, cls := g.Cairo0Class()
		sh, c1, _, scls := g.SierraClass()
		for i := 0; i < 6; i++ {
			d := chainkit.EmptyDiff()
			classes := map[felt.Felt]core.ClassDefinition{}
			if i == 0 {
				d.DeclaredV0Classes = append(d.DeclaredV0Classes, &ch)
				classes[ch] = cls
				d.DeclaredV1Classes[sh] = &c1
				classes[sh] = scls
				d.DeployedContracts[addr] = &ch
			}
			d.StorageDiffs[addr] = map[felt.Felt]*felt.Felt{*chainkit.F(1): chainkit.F(uint64(i + 1))}
			d.Nonces[addr] = chainkit.F(uint64(i))
			var txs []core.Transaction
			var rcs []*core.TransactionReceipt
			for _, k := range chainkit.TxKinds {
				tx := g.Tx(k)
				txs = append(txs, tx)
				rcs = append(rcs, g.Receipt(tx, []*core.Event{{From: g.Felt(), Keys: g.Felts(2), Data: g.Felts(1)}}))
			}
			ver := []string{"0.13.2", "0.13.4", "0.14.0", "0.14.1"}[i%4]
			b, err := twin.Append(chainkit.BlockSpec{Version: ver, Diff: d, Classes: classes, Txs: txs, Receipts: rcs, Timestamp: uint64(1000 + i)})
			if err != nil {
				t.Fatalf("newState=%v block %d: %v", newState, i, err)
			}
			if err := n.StoreBuilt(b); err != nil {
				t.Fatalf("store on second node: %v", err)
			}
		}
		h, _ := n.BC.Height()
		if h != 5 {
			t.Fatalf("height %d", h)
		}
		if err := n.BC.RevertHead(); err != nil {
			t.Fatal(err)
		}
		if err := twin.BC.RevertHead(); err != nil {
			t.Fatal(err)
		}
		a, _ := faultkv.Dump(n.Store)
		b, _ := faultkv.Dump(twin.Store)
		if d := faultkv.Diff(a, b, nil, 10); len(d) > 0 {
			t.Fatalf("dumps differ: %v", d)
		}
		t.Logf("newState=%v ok, %d keys, %d mutations", newState, len(a), fk.Count())
	}
}

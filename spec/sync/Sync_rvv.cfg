\* design AS CODED for the revert loop comparing an unverified remote header: RevertsJustified must FAIL
CONSTANTS
  InitLen = 3
  MaxLen = 3
  MaxSrcSteps = 1
  MaxReorgs = 1
  MaxNew = 1
  W = 2
  WV = 2
  Lag = 0
  MaxFaults = 1
  MaxPolls = 1
  MaxRestarts = 0
  FixH13 = TRUE
  FixRevertVerify = FALSE
  FixUnderflow = TRUE
  Fine = FALSE
  EmptyDiff = {2, 4}
  RootCheckedOnEmptyDiff = TRUE
  VerdictPerAnswer = TRUE
INIT Init
NEXT Next
INVARIANTS TypeOK LocalIsSourceBlocks ReorgExact StoredOnlyVerified
PROPERTIES StoreSafe HeadMovesOnlyByStoreOrRevert RevertsJustified RevertsHaveEvidence
CHECK_DEADLOCK TRUE

------------------------------ MODULE SyncMBT ------------------------------
(* Behaviour generation for the recorder (spec -> code): Sync plus a history of the ENVIRONMENT's decisions.

   One -simulate run yields many behaviours: at MaxSteps (or once the node has converged and the source has no
   step left) the history is printed as one JSON line and the machine is reset with a NEW random class content
   (ment: which blocks mention which class; sierra: which classes are Sierra classes).

   What is logged is what the recorder can steer on the real node: the class content of the run, every source
   step (the new chain), every answer (kind, requested height, answer kind, answering version, corruption / forgery
   kind, stale height), and - as synchronisation points - every store (the length of the node's chain after it), so
   that an answer the specification delivered while the head was still below the block's parent (the fetch ran ahead
   of the store: a class declared by a block in flight is downloaded again) is released on the real node in the same
   situation.  The node's internal steps are not logged: the real node takes them as it pleases, and the run is judged
   by the monitors and by trace validation against SyncTrace, never by comparison with this behaviour.

   The model generating the behaviours is the code AS IT IS (all Fix* switches FALSE, set in Sync_sim.cfg).

   Guidance (never via CONSTRAINT): the source mostly waits until the node has (nearly) caught up, so that the blocks
   that declare classes are stored - and looked up by later fetches - before a reorg drops them; two answers out of
   three are the honest block of the current version. *)
EXTENDS MCSync, Json, Randomization

CONSTANTS MaxSteps,   \* steps per behaviour
          MaxTag,     \* tags 1..MaxTag may mention classes
          NClasses

VARIABLES hist, steps
mbtvars == <<vars, hist, steps>>

R(S) == {RandomElement(S)}
RandMent == [c \in 1..NClasses |-> RandomSubset(RandomElement(2..5), 1..MaxTag)]
RandSierra == RandomSubset(RandomElement(0..NClasses), 1..NClasses)
Header(m, sr) == [a |-> "init", ment |-> m, sierra |-> sr, init |-> InitLen]

MBTInit ==
  \E m \in {RandMent}, sr \in {RandSierra} :
     InitWith(m, sr) /\ hist = <<Header(m, sr)>> /\ steps = 0

Log(e) == hist' = Append(hist, e)
Quiet == hist' = hist

\* two out of three: the honest answer of the current version (when there is one)
Prefer(S, good) == IF good # {} /\ RandomElement(1..3) # 1 THEN R(good) ELSE R(S)
BlockChoice(S) == Prefer(S, {r \in S : r.r = "ok" /\ r.ver = Len(versions)})
LatestChoice(S) == Prefer(S, {r \in S : r.r = "ok" /\ r.ver = Len(versions) /\ r.h = Len(Cur) - 1})

\* the chains SrcExtend / SrcReorg may produce
NextChains ==
  (IF Len(Cur) < MaxLen THEN {Append(Cur, nextTag)} ELSE {}) \cup
  (IF nReorgs < MaxReorgs
   THEN UNION {{Prefix(Cur, Len(Cur) - d) \o Fresh(n) : n \in {x \in 1..MaxNew : Len(Cur) - d + x <= MaxLen}} : d \in 1..Len(Cur)}
   ELSE {})

BlockEntry(h, resp) ==
  [a |-> "resp", kind |-> "block", h |-> h, r |-> resp.r, ver |-> resp.ver, corr |-> resp.corr,
   bh |-> IF resp.r = "err" THEN 0 ELSE HeightOf(resp.tag), len |-> Len(local)]
LatestEntry(resp) == [a |-> "resp", kind |-> "latest", r |-> resp.r, ver |-> resp.ver, sh |-> resp.h]

EnvStep ==
  \/ /\ ((Len(local) >= Len(Cur) - 1 /\ Len(local) <= Len(Cur) /\ local = Prefix(Cur, Len(local))) \/ RandomElement(1..40) = 1)
     /\ srcSteps < MaxSrcSteps
     /\ NextChains # {}
     /\ \E c \in R(NextChains) : SrcSet(c)      \* ONE random successor chain: a source step is one successor state
     /\ Log([a |-> "src", chain |-> versions'[Len(versions')]])
  \/ \E i \in 1..Len(fq) :
       /\ fq[i].st = "wait"
       /\ \E resp \in BlockChoice({x \in BlockResps(fq[i].v0, fq[i].h) : Budget(BlockRespCost(fq[i].v0, fq[i].h, x, cancelled))}) :
            /\ FetchReturn(i, resp, IF resp.r = "err" THEN {} ELSE LookupNow(resp.tag), "prod")
            /\ Log(BlockEntry(fq[i].h, resp))
  \/ \E i \in 1..Len(fq) :
       /\ fq[i].st = "lwait"
       /\ \E resp \in LatestChoice({x \in LatestResps(fq[i].v0) : Budget(LatestRespCost(x, cancelled))}) :
            IsRevReturn(i, resp) /\ Log(LatestEntry(resp))
  \/ /\ rv.on /\ rv.st = "wait"
     /\ \E resp \in BlockChoice({x \in RevertResps(rv.v0, Len(local) - 1) : Budget(BlockRespCost(rv.v0, Len(local) - 1, x, cancelled))}) :
          /\ RevertReturn(resp) /\ Log(BlockEntry(Len(local) - 1, resp))
  \/ /\ poll.st = "wait"
     /\ \E resp \in LatestChoice({x \in LatestResps(poll.v0) : Budget(LatestRespCost(x, stopping))}) :
          PollReturn(resp) /\ Log(LatestEntry(resp))

NodeStep ==
  \/ StoreApply /\ Log([a |-> "stored", len |-> Len(local')])
  \/ /\ Quiet
     /\ \/ Spawn
        \/ \E i \in 1..Len(fq) : FetchExit(i) \/ FetchCheck(i) \/ IsRevFast(i) \/ FetchCall(i, 0) \/ IsRevCall(i, 0)
        \/ FetchCallback
        \/ \E i \in 1..Len(vq) : VerifyDone(i)
        \/ VerifyFail \/ StoreSkip \/ StoreErr \/ StoreMismatch \/ RevertStart
        \/ StoreCheck \/ StorePost \/ StoreAck
        \/ RevertBreak \/ RevertUncond \/ RevertDo \/ RevertEnd \/ RevertAck \/ RevertCall(0)
        \/ Restart
        \/ PollApply \/ PollCall(0)

Step == (EnvStep \/ NodeStep) /\ steps' = steps + 1

Emit ==
  /\ PrintT(ToJson(hist))
  /\ \E m \in {RandMent}, sr \in {RandSierra} :
       /\ versions' = << [j \in 1..InitLen |-> j] >> /\ nextTag' = InitLen + 1 /\ srcSteps' = 0 /\ nReorgs' = 0 /\ faults' = 0
       /\ local' = <<>>
       /\ cancelled' = FALSE /\ nextFetch' = 0 /\ weff' = 1 /\ fq' = <<>> /\ vq' = <<>> /\ rv' = NoRv /\ sp' = NoSp
       /\ highest' = -1 /\ catchUp' = FALSE /\ poll' = IdlePoll /\ polls' = 0
       /\ curr' = NoReorg /\ revSince' = <<>> /\ seenVers' = {}
       /\ stopping' = FALSE /\ restarts' = 0
       /\ memo' = {} /\ tainted' = {}
       /\ ment' = m /\ sierra' = sr /\ defs' = [c \in 1..Len(m) |-> -1] /\ known' = {}
       /\ hist' = <<Header(m, sr)>> /\ steps' = 0

Final == Converged /\ srcSteps = MaxSrcSteps /\ steps > 20
MBTNext == IF steps >= MaxSteps THEN Emit ELSE (Step \/ (Final /\ Emit))
=============================================================================

------------------------------ MODULE SyncTrace ------------------------------
(* Trace validation of the real sync.Synchronizer against Sync.tla.

   The recorder (harness/engines/sync) drives the real Synchronizer over a real Blockchain with a
   gated scripted DataSource and logs, in one global order, every OBSERVABLE action:
     Reset       new run: the source's first chain                      (environment)
     Src         the source switches to a new chain (extend / reorg)    (environment)
     Stop / Restart  the node's context is cancelled / Run has returned and a new Synchronizer
                 over a new Blockchain object on the same database was started   (environment)
     Req / Resp  a BlockByNumber call enters the gate / is answered     (node / environment)
     ReqLatest / RespLatest   the same for BlockHeaderLatest
     Stored      OnSyncStepDone(OpStore): Blockchain.Store returned nil for the block of answer rid
     Reverted    OnReorg: the head was reverted
     NewHead / ReorgMsg       a message received from the newHeads / reorg feed subscription
     End         the source was held stable and honest until the node went quiet; final chain

   Classes: the Reset event carries the class content of every block of the run (ment[c] = tags mentioning class c,
   sierra = the Sierra classes).  A Resp event is logged when the data source's BlockByNumber RETURNS and carries
   nc, the classes in the NewClasses of the CommittedBlock that was returned, and src: "prod" when the answer was
   produced by the real sync.NewFeederGatewayDataSource over a scripted feeder (NewClasses computed by the code under
   test from the local state: every class left out must have been in the local state at some moment while the request
   was out, every class downloaded must have been missing at some moment - FetchReturn with Windows = TRUE), "script"
   when the scripted DataSource itself handed over the block with all its classes.

   A Resp event carries the answer kind r (ok / bad / fg / wh / err) and corr: for a corrupted copy
   what the altered field is to code that looks at Hash and ParentHash only (hash / parent / other:
   "other" = altered content under the honest hash), for a forged copy its kind (diff / root /
   oldroot).  The traces are validated against the model of the code as it is: root checks on every
   shape, a verdict per answer — a Stored event for any altered answer has no explanation.

   Every observable action is the corresponding action of Sync.tla WITH ITS GUARD, bound to the
   logged values.  Everything else the pipeline does (spawning fetchers, context checks, running
   callbacks in order, verification, the store attempts that fail, starting and ending a revert
   task, resetting the streams) is not logged; those actions are composed in as silent steps that
   leave the trace position unchanged.  TLC therefore accepts a trace iff SOME scheduling of the
   internal steps explains the observed ones: a store of a block whose answer was never verified
   or that does not extend the head, a revert the design has no reason for, a notification that
   is not the next one — none of these has an explanation.  The order in which goroutines did
   their internal work is never a reason for rejection.

   The two feeds are 1-slot and lossy: a received message must be one of the not yet received
   emissions, later than the previously received one (subsequence); a missing message is fine.

   Violations of the PROPERTY that the design itself permits (the known findings, switches FALSE)
   do not make a trace unexplainable; they are collected in `flags` and printed with the verdict
   of the trace at its End event: ACCEPT <trace> <flags>. *)
EXTENDS Sync, Json

VARIABLES l,        \* next trace line
          headsQ,   \* newHeads emissions not yet received (tags)
          reorgQ,   \* reorg emissions not yet received (<<start, end>>)
          flags     \* property violations seen in this trace

tvars == <<vars, l, headsQ, reorgQ, flags>>

Trace == ndJsonDeserialize("trace.ndjson")

TraceInit ==
  /\ Init
  /\ l = 1 /\ headsQ = <<>> /\ reorgQ = <<>> /\ flags = {}

IsEvent(e) == l <= Len(Trace) /\ Trace[l].ev = e /\ l' = l + 1
Ev == Trace[l]
Quiet == UNCHANGED <<headsQ, reorgQ, flags>>

TReset ==
  /\ IsEvent("Reset")
  /\ versions' = <<Ev.chain>> /\ nextTag' = Len(Ev.chain) + 1 /\ srcSteps' = 0 /\ nReorgs' = 0 /\ faults' = 0
  /\ Ev.chain = [j \in 1..Len(Ev.chain) |-> j]
  /\ local' = <<>>
  /\ cancelled' = FALSE /\ nextFetch' = 0 /\ weff' = 1 /\ fq' = <<>> /\ vq' = <<>> /\ rv' = NoRv /\ sp' = NoSp
  /\ highest' = -1 /\ catchUp' = FALSE /\ poll' = IdlePoll /\ polls' = 0
  /\ curr' = NoReorg /\ revSince' = <<>> /\ seenVers' = {}
  /\ stopping' = FALSE /\ restarts' = 0
  /\ memo' = {} /\ tainted' = {}
  /\ ment' = [c \in 1..Len(Ev.ment) |-> Range(Ev.ment[c])] /\ sierra' = Range(Ev.sierra)
  /\ defs' = [c \in 1..Len(Ev.ment) |-> -1] /\ known' = {}
  /\ headsQ' = <<>> /\ reorgQ' = <<>> /\ flags' = {}

TSrc == IsEvent("Src") /\ SrcSet(Ev.chain) /\ Quiet

\* the harness cancels the Synchronizer's context / has seen Run return and started a new Synchronizer
\* (new feeds: whatever the old subscriptions had not delivered is gone)
TStop == IsEvent("Stop") /\ Shutdown /\ Quiet
TRestart ==
  /\ IsEvent("Restart") /\ NodeRestart
  /\ headsQ' = <<>> /\ reorgQ' = <<>> /\ UNCHANGED flags

BlockResp == [r |-> Ev.r, ver |-> Ev.ver, tag |-> Ev.tag, corr |-> Ev.corr]
LatestResp == [r |-> Ev.r, ver |-> Ev.ver, h |-> Ev.h, tag |-> Ev.tag]

TReq ==
  /\ IsEvent("Req") /\ Quiet
  /\ \/ \E i \in 1..Len(fq) : fq[i].h = Ev.h /\ FetchCall(i, Ev.rid)
     \/ (Len(local) - 1 = Ev.h /\ RevertCall(Ev.rid))

TResp ==
  /\ IsEvent("Resp") /\ Quiet
  /\ \/ \E i \in 1..Len(fq) : fq[i].st = "wait" /\ fq[i].rid = Ev.rid /\ fq[i].h = Ev.h /\ FetchReturn(i, BlockResp, Range(Ev.nc), Ev.src)
     \/ (rv.on /\ rv.st = "wait" /\ rv.rid = Ev.rid /\ Len(local) - 1 = Ev.h /\ RevertReturn(BlockResp))

TReqLatest ==
  /\ IsEvent("ReqLatest") /\ Quiet
  /\ \/ \E i \in 1..Len(fq) : IsRevCall(i, Ev.rid)
     \/ PollCall(Ev.rid)

TRespLatest ==
  /\ IsEvent("RespLatest") /\ Quiet
  /\ \/ \E i \in 1..Len(fq) : fq[i].st = "lwait" /\ fq[i].rid = Ev.rid /\ IsRevReturn(i, LatestResp)
     \/ (poll.st = "wait" /\ poll.rid = Ev.rid /\ PollReturn(LatestResp))

TStored ==
  /\ IsEvent("Stored")
  /\ sp.on /\ sp.rid = Ev.rid /\ sp.tag = Ev.tag /\ sp.h = Ev.h
  /\ StoreAck
  /\ headsQ' = Append(headsQ, Ev.tag)
  /\ reorgQ' = IF curr.on THEN Append(reorgQ, <<curr.s, curr.e>>) ELSE reorgQ
  /\ flags' = flags \cup (IF ReorgExact THEN {} ELSE {<<"ReorgExact", "store", "-">>})

TReverted ==
  /\ IsEvent("Reverted")
  /\ rv.on /\ rv.tag = Ev.tag /\ Len(local) = Ev.h
  /\ RevertAck
  /\ flags' = flags \cup (IF SourceStillHas(Ev.tag) THEN {<<"RevertsJustified", rv.why, rv.how>>}
                          ELSE IF ~Evidence(Ev.tag) THEN {<<"RevertsHaveEvidence", rv.why, rv.how>>}
                          ELSE {})
  /\ UNCHANGED <<headsQ, reorgQ>>

TNewHead ==
  /\ IsEvent("NewHead")
  /\ \E k \in 1..Len(headsQ) : headsQ[k] = Ev.tag /\ headsQ' = SubSeq(headsQ, k + 1, Len(headsQ))
  /\ UNCHANGED <<vars, reorgQ, flags>>

TReorgMsg ==
  /\ IsEvent("ReorgMsg")
  /\ Ev.s > 0 /\ Ev.e > 0 /\ HeightOf(Ev.s) = Ev.sn /\ HeightOf(Ev.e) = Ev.en
  /\ \E k \in 1..Len(reorgQ) : reorgQ[k] = <<Ev.s, Ev.e>> /\ reorgQ' = SubSeq(reorgQ, k + 1, Len(reorgQ))
  /\ UNCHANGED <<vars, headsQ, flags>>

\* End: the source was held stable and honest until the node went quiet (or a generous budget of
\* answers ran out).  The chain in the database must be the one the stores and reverts built;
\* not having converged is a violation of the property that no finite trace can "explain", so it is
\* reported as a flag of the trace rather than as a rejection.
EndFlags == flags \cup (IF local = Cur THEN {} ELSE {<<"Converges", "-", "-">>})
TEnd ==
  /\ IsEvent("End")
  /\ local = Ev.final
  /\ PrintT(<<"ACCEPT", Ev.tr, EndFlags>>)
  /\ UNCHANGED <<vars, headsQ, reorgQ, flags>>

Silent == NodeInternal /\ UNCHANGED <<l, headsQ, reorgQ, flags>>

TraceNext ==
  \/ TReset \/ TSrc \/ TStop \/ TRestart \/ TReq \/ TResp \/ TReqLatest \/ TRespLatest
  \/ TStored \/ TReverted \/ TNewHead \/ TReorgMsg \/ TEnd
  \/ Silent

TraceSpec == TraceInit /\ [][TraceNext]_tvars

(* acceptance: some behaviour consumed the whole trace (high-water mark in a TLC register) *)
ASSUME TLCSet(1, 0)
HighWater == IF l > TLCGet(1) THEN TLCSet(1, l) ELSE TRUE
TraceConstraint == HighWater
TraceAccepted == IF TLCGet(1) = Len(Trace) + 1 THEN TRUE
                 ELSE PrintT(<<"HIGHWATER", TLCGet(1)>>) /\ FALSE
=============================================================================

\* THOROUGH: convergence + safety of the repaired design, chain <= 4.
\* Measured: 519 059 distinct states, depth 67.
CONSTANTS
  InitLen = 3
  MaxLen = 4
  MaxSrcSteps = 1
  MaxReorgs = 1
  MaxNew = 1
  W = 2
  WV = 2
  Lag = 0
  MaxFaults = 1
  MaxPolls = 1
  MaxRestarts = 0
  FixH13 = TRUE
  FixRevertVerify = TRUE
  FixUnderflow = TRUE
  Fine = FALSE
  EmptyDiff = {2, 4}
  RootCheckedOnEmptyDiff = TRUE
  VerdictPerAnswer = TRUE
SPECIFICATION FairSpec
INVARIANTS TypeOK LocalIsSourceBlocks ReorgExact StoredOnlyVerified
PROPERTIES EventuallyConverges StoreSafe HeadMovesOnlyByStoreOrRevert RevertsJustified RevertsHaveEvidence
CHECK_DEADLOCK TRUE

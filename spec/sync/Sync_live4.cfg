\* THOROUGH: convergence + safety of the repaired design, chain <= 4.
\* Measured: 519 059 distinct states, depth 67.
CONSTANTS
  InitLen = 3
  MaxLen = 4
  MaxSrcSteps = 1
  MaxReorgs = 1
  MaxNew = 1
  W = 2
  WV = 2
  Lag = 0
  MaxFaults = 1
  MaxPolls = 1
  MaxRestarts = 0
  FixH13 = TRUE
  FixRevertVerify = TRUE
  FixUnderflow = TRUE
  Fine = FALSE
  EmptyDiff = {}
  RootCheckedOnEmptyDiff = TRUE
  VerdictPerAnswer = TRUE
  ClassA = {2, 4}
  ClassB = {1, 4}
  SierraSet = {2}
  RememberKnown = FALSE
  Windows = FALSE
SPECIFICATION FairSpec
INVARIANTS TypeOK LocalIsSourceBlocks ReorgExact StoredOnlyVerified ClassesExact StoredClassesComplete KnownIsCurrent
PROPERTIES EventuallyConverges StoreSafe HeadMovesOnlyByStoreOrRevert RevertsJustified RevertsHaveEvidence NewClassesSufficient
CHECK_DEADLOCK TRUE

\* trace validation: the model of the code AS IT IS (all three switches FALSE); no budgets
CONSTANTS
  InitLen = 1
  MaxLen = 1000
  MaxSrcSteps = 1000
  MaxReorgs = 1000
  MaxNew = 1000
  W = 2
  WV = 2
  Lag = 2
  MaxFaults = 1000000
  MaxPolls = 1000000
  MaxRestarts = 1000000
  FixH13 = FALSE
  FixRevertVerify = FALSE
  FixUnderflow = FALSE
  Fine = TRUE
  EmptyDiff = {}
  RootCheckedOnEmptyDiff = TRUE
  VerdictPerAnswer = TRUE
  ClassA = {}
  ClassB = {}
  SierraSet = {}
  RememberKnown = FALSE
  Windows = TRUE
INIT TraceInit
NEXT TraceNext
CONSTRAINT TraceConstraint
POSTCONDITION TraceAccepted
CHECK_DEADLOCK FALSE

\* EXPECTED VIOLATION (self-test of StoredClassesComplete / ClassesExact / KnownIsCurrent): the fetch layer remembers the
\* class hashes it found in the local state and never looks them up (or downloads them) again; nothing forgets them
\* when blocks are reverted.  Class 1 (Cairo-0) is declared by block 2, used by block 3, and mentioned again by the
\* block that replaces them after a reorg.  TLC must find: 2 stored, 3 fetched (class found in the state, remembered),
\* reorg below 2, 2 reverted (definition gone), block 4 fetched WITHOUT the class and stored: a block whose class has
\* no definition in the node.
CONSTANTS
  InitLen = 3
  MaxLen = 3
  MaxSrcSteps = 1
  MaxReorgs = 1
  MaxNew = 1
  W = 2
  WV = 2
  Lag = 0
  MaxFaults = 0
  MaxPolls = 1
  MaxRestarts = 0
  FixH13 = TRUE
  FixRevertVerify = TRUE
  FixUnderflow = TRUE
  Fine = FALSE
  EmptyDiff = {}
  RootCheckedOnEmptyDiff = TRUE
  VerdictPerAnswer = TRUE
  ClassA = {2, 3, 4}
  ClassB = {}
  SierraSet = {}
  RememberKnown = TRUE
  Windows = FALSE
INIT Init
NEXT Next
INVARIANTS TypeOK LocalIsSourceBlocks ReorgExact StoredOnlyVerified StoredClassesComplete
CHECK_DEADLOCK TRUE

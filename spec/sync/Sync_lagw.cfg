\* THOROUGH: catch-up threshold as in the code (Lag = W = 2), chain <= 5 starting from 5 blocks, one source step, safety.
\* (with liveness: 1 358 282 distinct states, holds, 8.5 min on 4 busy cores — measured once)
CONSTANTS
  InitLen = 5
  MaxLen = 5
  MaxSrcSteps = 1
  MaxReorgs = 1
  MaxNew = 1
  W = 2
  WV = 2
  Lag = 2
  MaxFaults = 1
  MaxPolls = 1
  MaxRestarts = 0
  FixH13 = TRUE
  FixRevertVerify = TRUE
  FixUnderflow = TRUE
  Fine = FALSE
  EmptyDiff = {}
  RootCheckedOnEmptyDiff = TRUE
  VerdictPerAnswer = TRUE
  ClassA = {2, 4, 6}
  ClassB = {3, 6}
  SierraSet = {2}
  RememberKnown = FALSE
  Windows = FALSE
INIT Init
NEXT Next
INVARIANTS TypeOK LocalIsSourceBlocks ReorgExact StoredOnlyVerified ClassesExact StoredClassesComplete KnownIsCurrent
PROPERTIES StoreSafe HeadMovesOnlyByStoreOrRevert RevertsJustified RevertsHaveEvidence NewClassesSufficient
CHECK_DEADLOCK TRUE

\* THOROUGH: catch-up threshold as in the code (Lag = W = 2), chain <= 5 starting from 5 blocks, one source step, safety.
\* (with liveness: 1 358 282 distinct states, holds, 8.5 min on 4 busy cores — measured once)
CONSTANTS
  InitLen = 5
  MaxLen = 5
  MaxSrcSteps = 1
  MaxReorgs = 1
  MaxNew = 1
  W = 2
  WV = 2
  Lag = 2
  MaxFaults = 1
  MaxPolls = 1
  MaxRestarts = 0
  FixH13 = TRUE
  FixRevertVerify = TRUE
  FixUnderflow = TRUE
  Fine = FALSE
  EmptyDiff = {2, 4}
  RootCheckedOnEmptyDiff = TRUE
  VerdictPerAnswer = TRUE
INIT Init
NEXT Next
INVARIANTS TypeOK LocalIsSourceBlocks ReorgExact StoredOnlyVerified
PROPERTIES StoreSafe HeadMovesOnlyByStoreOrRevert RevertsJustified RevertsHaveEvidence
CHECK_DEADLOCK TRUE

\* EXPECTED VIOLATION (liveness): as Sync_x_known.cfg, but the class is a SIERRA class: the block that declares it
\* again after the reorg reaches Store without the definition, the class-trie leaf is not written, the state root
\* does not match, Store fails, the streams are reset, the block is fetched again - without the class - for ever.
\* EventuallyConverges must FAIL (lasso).
CONSTANTS
  InitLen = 3
  MaxLen = 3
  MaxSrcSteps = 1
  MaxReorgs = 1
  MaxNew = 1
  W = 2
  WV = 2
  Lag = 0
  MaxFaults = 0
  MaxPolls = 1
  MaxRestarts = 0
  FixH13 = TRUE
  FixRevertVerify = TRUE
  FixUnderflow = TRUE
  Fine = FALSE
  EmptyDiff = {}
  RootCheckedOnEmptyDiff = TRUE
  VerdictPerAnswer = TRUE
  ClassA = {2, 3, 4}
  ClassB = {}
  SierraSet = {1}
  RememberKnown = TRUE
  Windows = FALSE
SPECIFICATION FairSpec
INVARIANTS TypeOK StoredClassesComplete
PROPERTIES EventuallyConverges
CHECK_DEADLOCK TRUE

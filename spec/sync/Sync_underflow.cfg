\* design AS CODED for remoteHeight-1 underflow in isReverting: EventuallyConverges must FAIL
CONSTANTS
  InitLen = 3
  MaxLen = 4
  MaxSrcSteps = 1
  MaxReorgs = 1
  MaxNew = 1
  W = 2
  WV = 2
  Lag = 0
  MaxFaults = 1
  MaxPolls = 1
  MaxRestarts = 0
  FixH13 = TRUE
  FixRevertVerify = TRUE
  FixUnderflow = FALSE
  Fine = FALSE
  EmptyDiff = {}
  RootCheckedOnEmptyDiff = TRUE
  VerdictPerAnswer = TRUE
  ClassA = {2, 4}
  ClassB = {3, 4}
  SierraSet = {2}
  RememberKnown = FALSE
  Windows = FALSE
SPECIFICATION FairSpec
PROPERTIES EventuallyConverges 
CHECK_DEADLOCK TRUE

\* THOROUGH: repaired design, chain <= 4, 1 source step, 2 faults, safety
CONSTANTS
  InitLen = 3
  MaxLen = 4
  MaxSrcSteps = 1
  MaxReorgs = 1
  MaxNew = 1
  W = 2
  WV = 2
  Lag = 0
  MaxFaults = 2
  MaxPolls = 1
  MaxRestarts = 0
  FixH13 = TRUE
  FixRevertVerify = TRUE
  FixUnderflow = TRUE
  Fine = FALSE
  EmptyDiff = {}
  RootCheckedOnEmptyDiff = TRUE
  VerdictPerAnswer = TRUE
  ClassA = {2, 4}
  ClassB = {3, 4}
  SierraSet = {1}
  RememberKnown = FALSE
  Windows = FALSE
INIT Init
NEXT Next
INVARIANTS TypeOK LocalIsSourceBlocks ReorgExact StoredOnlyVerified ClassesExact StoredClassesComplete KnownIsCurrent
PROPERTIES StoreSafe HeadMovesOnlyByStoreOrRevert RevertsJustified RevertsHaveEvidence NewClassesSufficient
CHECK_DEADLOCK TRUE

\* faithful to the current code for H13: RevertsJustified must FAIL
CONSTANTS
  InitLen = 3
  MaxLen = 4
  MaxSrcSteps = 2
  MaxReorgs = 2
  MaxNew = 1
  W = 2
  WV = 2
  Lag = 0
  MaxFaults = 1
  MaxPolls = 1
  FixH13 = FALSE
  FixRevertVerify = TRUE
  FixUnderflow = TRUE
INIT Init
NEXT Next
INVARIANTS TypeOK LocalIsSourceBlocks ReorgExact
PROPERTIES StoreSafe HeadMovesOnlyByStoreOrRevert RevertsJustified RevertsHaveEvidence
CHECK_DEADLOCK TRUE

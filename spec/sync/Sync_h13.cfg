\* design AS CODED for H13 (revertTask(n-2) after ErrParentDoesNotMatchHead): RevertsJustified must FAIL.
\* Measured: counterexample of 29 states after ~17 000 distinct states, < 10 s.
CONSTANTS
  InitLen = 3
  MaxLen = 3
  MaxSrcSteps = 1
  MaxReorgs = 1
  MaxNew = 1
  W = 2
  WV = 2
  Lag = 0
  MaxFaults = 0
  MaxPolls = 1
  MaxRestarts = 0
  FixH13 = FALSE
  FixRevertVerify = TRUE
  FixUnderflow = TRUE
  Fine = FALSE
  EmptyDiff = {2, 4}
  RootCheckedOnEmptyDiff = TRUE
  VerdictPerAnswer = TRUE
INIT Init
NEXT Next
INVARIANTS TypeOK LocalIsSourceBlocks ReorgExact StoredOnlyVerified
PROPERTIES StoreSafe HeadMovesOnlyByStoreOrRevert RevertsJustified RevertsHaveEvidence
CHECK_DEADLOCK TRUE

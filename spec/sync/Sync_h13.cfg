\* design AS CODED for H13 (revertTask(n-2) after ErrParentDoesNotMatchHead): RevertsJustified must FAIL.
\* Measured: counterexample of 29 states after ~17 000 distinct states, < 10 s.
CONSTANTS
  InitLen = 3
  MaxLen = 3
  MaxSrcSteps = 1
  MaxReorgs = 1
  MaxNew = 1
  W = 2
  WV = 2
  Lag = 0
  MaxFaults = 0
  MaxPolls = 1
  MaxRestarts = 0
  FixH13 = FALSE
  FixRevertVerify = TRUE
  FixUnderflow = TRUE
  Fine = FALSE
  EmptyDiff = {}
  RootCheckedOnEmptyDiff = TRUE
  VerdictPerAnswer = TRUE
  ClassA = {2, 4}
  ClassB = {3, 4}
  SierraSet = {2}
  RememberKnown = FALSE
  Windows = FALSE
INIT Init
NEXT Next
INVARIANTS TypeOK LocalIsSourceBlocks ReorgExact StoredOnlyVerified ClassesExact StoredClassesComplete KnownIsCurrent
PROPERTIES StoreSafe HeadMovesOnlyByStoreOrRevert RevertsJustified RevertsHaveEvidence NewClassesSufficient
CHECK_DEADLOCK TRUE

-------------------------------- MODULE Sync --------------------------------
(* C06 — the block synchronisation pipeline of juno (sync/sync.go) at the granularity of its code
   steps, together with the freedom of the block source.

   Blocks.  A block is a TAG (a positive integer).  Tags are handed out fresh, so a tag determines
   its height and its whole ancestry: two chains that agree on the tag at height h agree on every
   height below (a block hash commits to its parent hash).  A chain is a sequence of tags, the block
   of chain c at height h is c[h+1].

   Source.  `versions` is the sequence of chains the source has had; Cur is the last one.  A source
   step extends Cur or replaces a suffix by fresh blocks (reorg, any depth up to the whole chain).
   Every request remembers the version that was current when it was made (v0); its answer may be
   computed at any version between v0 and the version current at delivery ("ok-now" / "ok-later"),
   may be an error, a corrupted copy of the block (bad), a forged copy whose hash was recomputed
   over an altered state diff (fg), a valid block of ANOTHER height (wh), or — for the latest
   header — a stale height of the answering version.  All of these are FAULTS and
   are budgeted (MaxFaults): the property only promises convergence once the source is stable.

   Every answer is chosen PER REQUEST: the same height may be answered honestly the first time it is
   asked for and with a corrupted / forged copy when it is asked for again after a stream reset (and
   the other way round).  A corrupted copy ("bad") either claims another hash (corr = "hash") or
   carries the HONEST header hash over altered content (any other corr); a forged copy ("fg") is
   one of ForgedKinds: "diff" (state diff altered, hash re-sealed), "root" (claimed new state root
   altered in header and state update, hash re-sealed: header, hash and state update are mutually
   consistent and the diff is the honest one), "oldroot" (the state update's old root altered;
   nothing commits to it but the state the block is applied to).  Forged copies pass the stateless
   verification (SanityCheckNewHeight); only the state-root checks inside Blockchain.Store can
   refuse them.

   Block SHAPES.  EmptyDiff is the set of blocks whose state diff has no entry (empty blocks, blocks
   whose transactions touched no state): applying such a diff leaves the state where it is, so for
   them the root checks of Store are the ONLY thing that distinguishes the honest block from a
   "root" / "oldroot" forgery.

   What the database holds.  `tainted` is the set of blocks that were ever stored with content that
   is not the source's block of that tag; StoredOnlyVerified (tainted = {}) is the property "every
   block the node stores passed full verification" stated over the CONTENT of the database instead
   of over the steps the pipeline took.  Two mechanisms stand between a faulty answer and the
   database, each with a switch (TRUE = the code as it is; FALSE = the mechanism fails, TLC must
   find StoredOnlyVerified violated — Sync_x_emptyroot.cfg, Sync_x_memo.cfg):
     RootCheckedOnEmptyDiff  Store checks old and new state root also for a block without diff entries;
     VerdictPerAnswer        the verifier's verdict belongs to the ANSWER it was computed on; FALSE: a
                             verdict is remembered under the claimed block hash (`memo`) and reused
                             for a later answer that claims the same hash.

   CLASSES.  Class definitions are a dimension of chain content.  A block MENTIONS classes (ment[c] = the tags of
   the blocks mentioning class c); since a tag determines its ancestry, so does it determine what a mention is:
   the first mention of c on a chain is its DECLARATION (a Cairo-0 or Sierra declare), every later one a USE (a
   contract of class c is deployed).  So two branches may declare the same class hash at different heights, a reorg
   reverts the declaring block, and the new branch declares the class again, never mentions it, or merely uses it
   (when the declaring block survived) - all from one assignment of mentions to tags.
   A fetched block is (header + transactions, state update, NewClasses); NewClasses is computed by the DATA SOURCE
   (sync/data_source.go: fetchUnknownClasses) from the classes the state update mentions MINUS what the local head
   state has at fetch time.  Fetching runs ahead of storing: block n+2 is fetched while the head is n, so a class
   declared by the in-flight block n+1 is downloaded again for n+2; Store keeps the first definition (StoreDefs).
   Store writes the definitions in NewClasses; it FAILS (state root mismatch) when a declared Sierra class has no
   definition in NewClasses, and stores the block WITHOUT the definition when a Cairo-0 class is missing.  Reverting
   a block removes the definitions of the classes it declared.  A revert always ends in a stream reset, so no answer
   computed against the state before a revert reaches Store after it (KnownIsCurrent, NewClassesSufficient).
   Not modelled: the legacy class that is never declared but introduced by a DEPLOYED contract (pre-0.9 DEPLOY
   transactions).  To the fetch step it is one more mentioned class (the pass over the classes of deployed contracts);
   as coded State.Revert (both backends) removes only classes of the declared lists, so its definition survives a
   revert of the block that introduced it - the recorder uses such classes only in runs whose source never reorgs.
     RememberKnown          FALSE = the code as it is: every fetch asks the local state anew.  TRUE = the fetch layer
                            remembers the hashes it found in the local state (`known`) and never looks them up or
                            downloads them again; nothing forgets them when blocks are reverted.  TLC must find
                            StoredClassesComplete violated (Cairo-0, Sync_x_known.cfg) and convergence violated
                            (Sierra: Store refuses the honest block for ever, Sync_x_known_sierra.cfg).

   Node (one action per code step; the numbers are lines of sync/sync.go at the pinned commit):
     Spawn                 syncBlocks:509  fetchers.Go(fetcherTask(nextHeight)); nextHeight++
     FetchExit / FetchCheck / FetchCall   fetcherTask:183-187  ctx check; dataSource.BlockByNumber
     FetchReturn           fetcherTask:188-205  block -> callback "verify"; error -> isReverting
     IsRevFast             isReverting:217-226  exit 1: not waiting for the very next block
     IsRevCall/IsRevReturn isReverting:229-258  exit 2: remote head newer / unavailable;
                                                exit 3: hash comparison with the local header
     FetchCallback         stream callbacker: callbacks run in submission order; verifiers.Go
     VerifyDone            verifierTask:320     SanityCheckNewHeight
     VerifyFail            verifierTask:326-335 resetStreams
     StoreSkip / StoreErr / StoreMismatch             storeTask:350-374
     StoreApply / StoreAck / StorePost                storeTask:361 (Store returns nil), :382 (listener),
                                                      :384-402 (mode switch, highest, notifications)
     RevertStart           callback created at fetcherTask:190-196
     RevertCall / RevertReturn / RevertUncond / RevertDo / RevertAck / RevertBreak / RevertEnd
                           revertTask:422-452, revertHead:532-555 (RevertHead, currReorg, listener)
     Restart               syncBlocks:488-505   wait for both streams, restart at height+1
     PollCall / PollReturn / PollApply   pollLatest:608-613 (call, answer, highestBlockHeader.Store)

   Granularity.  A store (a revert) takes effect inside Blockchain.Store (RevertHead); the listener
   that makes it OBSERVABLE runs a little later on the same goroutine, and the bookkeeping that other
   goroutines can see (stream reset, highestBlockHeader) later still.  With Fine = TRUE these are
   separate steps (Apply / Ack / Post, End), which is what trace validation needs: another goroutine
   may act in between.  With Fine = FALSE each group is one atomic step (a sound reduction for the
   design-level properties: the steps in a group belong to one goroutine and only the first one
   changes the chain).

   Known design finding (DESIGN.md H13), CONSTANT switch FixH13:
     FALSE = the code as it is: after ErrParentDoesNotMatchHead storeTask calls
             revertTask(block.Number-2), which reverts the head WITHOUT asking the source about it;
     TRUE  = repaired design: revertTask(block.Number-1), i.e. the head itself is compared with the
             source first.
   Second switch FixRevertVerify (found by TLC on this spec, see RevertReturn):
     FALSE = the code as it is: revertTask compares the local head with the header of an
             UNVERIFIED remote block, so a corrupted answer (wrong hash) reverts a block the source
             still has;  TRUE = the remote block is verified first (a bad one ends the task).
   Third switch FixUnderflow (found by TLC's liveness check on this spec, see IsRevReturn):
     FALSE = the code as it is: isReverting returns remoteHeight-1 as uint64; for a remote head at
             height 0 (the source replaced its whole chain by a single different genesis block while
             the node is higher) this is 2^64-1, revertTask then asks the source for the block at
             the local head's height, which it does not have, gives up, restarts, and repeats for
             ever: the node never converges;  TRUE = 0 is returned for remote height 0. *)
EXTENDS Integers, Sequences, FiniteSets, TLC

CONSTANTS
  InitLen,         \* length of the source's first chain (blocks 1..InitLen)
  MaxLen,          \* longest source chain
  MaxSrcSteps,     \* source steps (extend + reorg)
  MaxReorgs,       \* of which reorgs
  MaxNew,          \* a reorg adds 1..MaxNew fresh blocks
  W,               \* maxWorkers(): fetch workers in catch-up mode (1 when following the tip)
  WV,              \* verifier pool size
  Lag,             \* catch-up iff highest > stored + Lag   (maxWorkers() in the code)
  MaxFaults,       \* budget of injected errors / corrupt blocks / stale heads
  MaxPolls,        \* pollLatest iterations (one per minute in the code), per incarnation of the node
  MaxRestarts,     \* the node is stopped (context cancelled) and started again on the same database
  EmptyDiff,       \* tags of the blocks whose state diff has no entry
  RootCheckedOnEmptyDiff,
  VerdictPerAnswer,
  FixH13,
  FixRevertVerify,
  FixUnderflow,
  Fine,            \* TRUE: apply / acknowledge / post-process are separate steps
  ClassA, ClassB,  \* tags of the blocks that MENTION class 1 / class 2 (see "Classes" above)
  SierraSet,       \* which of the classes 1, 2 are Sierra classes (the others are Cairo-0 classes)
  RememberKnown,   \* FALSE = the code as it is; TRUE = the fetch layer remembers class hashes it found in the
                   \* local state and never asks the state (or the source) about them again (expected violation)
  Windows          \* TRUE (trace validation only): NewClasses of an answer is what was recorded; it must be
                   \* explained by what the local state held between the request and its return

VARIABLES
  versions, nextTag, srcSteps, nReorgs, faults,           \* source / environment
  local,                                                   \* the node's chain
  cancelled, nextFetch, weff, fq, vq, rv, sp,              \* stream generation, queues, revert task, store in progress
  highest, catchUp, poll, polls,                           \* highestBlockHeader, catchUpMode, pollLatest
  curr,                                                    \* currReorg
  revSince, seenVers,                                      \* history: reverted since last store; versions heard from
  stopping, restarts,                                      \* the Synchronizer's context is cancelled; restarts so far
  memo,                                                    \* claimed hashes (tags) with a remembered verdict (VerdictPerAnswer = FALSE only)
  tainted,                                                 \* blocks ever stored with content that is not the source's
  ment, sierra,                                            \* chain content: ment[c] = tags of the blocks mentioning class c; the Sierra classes
  defs,                                                    \* the node's class table: defs[c] = height its definition was stored at (-1: none)
  known                                                    \* class hashes the fetch layer remembers as known (RememberKnown = TRUE only)

srcVars  == <<versions, nextTag, srcSteps, nReorgs, ment, sierra>>
pipeVars == <<cancelled, nextFetch, weff, fq, vq, rv, sp>>
modeVars == <<highest, catchUp, poll, polls>>
lifeVars == <<stopping, restarts>>
auxVars  == <<memo, tainted>>
clsVars  == <<defs, known>>
vars == <<versions, nextTag, srcSteps, nReorgs, faults, local, cancelled, nextFetch, weff, fq, vq, rv, sp,
          highest, catchUp, poll, polls, curr, revSince, seenVers, stopping, restarts, memo, tainted,
          ment, sierra, defs, known>>

INF == 1000000                       \* uint64 underflow of "height - 1" / "height - 2"
Prefix(c, n) == SubSeq(c, 1, n)
Range(s) == {s[i] : i \in 1..Len(s)}
Cur == versions[Len(versions)]
HeadTag(c) == IF Len(c) = 0 THEN 0 ELSE c[Len(c)]
Min(a, b) == IF a < b THEN a ELSE b

\* parent of a tag (0 for a genesis block): every version containing t has the same prefix below it
ParentOf(t) ==
  LET v == CHOOSE v \in 1..Len(versions) : t \in Range(versions[v])
      k == CHOOSE k \in 1..Len(versions[v]) : versions[v][k] = t
  IN IF k = 1 THEN 0 ELSE versions[v][k - 1]
HeightOf(t) ==
  LET v == CHOOSE v \in 1..Len(versions) : t \in Range(versions[v])
  IN (CHOOSE k \in 1..Len(versions[v]) : versions[v][k] = t) - 1

NoRv    == [on |-> FALSE, lv |-> 0, st |-> "iter", v0 |-> 0, rid |-> 0, cont |-> FALSE, why |-> "none", tag |-> 0, how |-> "none"]
NoSp    == [on |-> FALSE, acked |-> FALSE, tag |-> 0, h |-> 0, rid |-> 0, hs |-> -1, ck |-> FALSE]
NoReorg == [on |-> FALSE, s |-> 0, e |-> 0]
IdlePoll == [st |-> "idle", v0 |-> 0, rid |-> 0, got |-> -1]
NewTask(h) == [h |-> h, st |-> "run", v0 |-> 0, rid |-> 0, L |-> 0, kind |-> "none", blk |-> 0, bh |-> 0,
               bad |-> FALSE, forged |-> FALSE, alt |-> FALSE, keep |-> FALSE, lv |-> 0,
               nc |-> {}, seen |-> {}, always |-> {}]

-----------------------------------------------------------------------------
(* Classes *)
Classes == 1..Len(ment)
Mentions(t) == {c \in Classes : t \in ment[c]}
KnownIn(d) == {c \in Classes : d[c] # -1}
Known == KnownIn(defs)                                   \* the classes the local state has a definition of
MentionedOn(chain) == {c \in Classes : \E k \in 1..Len(chain) : chain[k] \in ment[c]}
\* what block t DECLARES when it is (stored as / reverted from being) the successor of the last block of `chain`
DeclaresOn(chain, t) == Mentions(t) \ MentionedOn(chain)
FirstAt(chain, c) ==
  LET ks == {k \in 1..Len(chain) : chain[k] \in ment[c]}
  IN IF ks = {} THEN -1 ELSE (CHOOSE k \in ks : \A j \in ks : k <= j) - 1
ExpectedDefs(chain) == [c \in Classes |-> FirstAt(chain, c)]
\* the fetch step of the data source (sync/data_source.go fetchUnknownClasses): every class the state update
\* mentions (classes of deployed contracts, declared Cairo-0 classes, declared Sierra classes) is looked up in the
\* local HEAD state of that moment; what is not found there is downloaded and becomes NewClasses
LookupNow(t) == {c \in Mentions(t) : defs[c] = -1 /\ c \notin known}
Remember(t) == IF RememberKnown THEN known \cup (Mentions(t) \cap Known) ELSE known
\* Blockchain.Store / State.Update: a definition in NewClasses is written unless the class already has one (the
\* first declaration height stays); the class-trie leaf of a DECLARED Sierra class is only written when NewClasses
\* carries its definition - without it the new state root does not match and Store fails
StoreDefs(h, nc) == [c \in Classes |-> IF c \in nc /\ defs[c] = -1 THEN h ELSE defs[c]]
SierraOK(t, nc) == (DeclaresOn(local, t) \cap sierra) \subseteq nc
\* RevertHead / State.Revert: the definitions of the classes the head block declared, stored at its height, go
RevertDefs ==
  LET h == Len(local) - 1 IN
  [c \in Classes |-> IF c \in DeclaresOn(Prefix(local, h), HeadTag(local)) /\ defs[c] = h THEN -1 ELSE defs[c]]
\* trace validation: what the local state held while a request was out.  A store (revert) that has taken effect
\* but is not yet observable (the Stored / Reverted event follows) may as well fall on the other side of the request:
\* what it added counts as "not always there", what it removed as "seen" - so that both orders of the request and
\* the unobservable write lead to the same state.
PendingAdded == IF sp.on /\ ~sp.acked THEN {c \in Classes : defs[c] = sp.h} ELSE {}
PendingRemoved == IF rv.on /\ rv.st = "ack" THEN Mentions(rv.tag) \ MentionedOn(local) ELSE {}
WinStore(q, kn) == IF Windows THEN [i \in 1..Len(q) |-> IF q[i].st = "wait" THEN [q[i] EXCEPT !.seen = @ \cup kn] ELSE q[i]] ELSE q
WinRevert(q, kn) == IF Windows THEN [i \in 1..Len(q) |-> IF q[i].st = "wait" THEN [q[i] EXCEPT !.always = @ \cap kn] ELSE q[i]] ELSE q

InitWith(m, sr) ==
  /\ versions = << [j \in 1..InitLen |-> j] >> /\ nextTag = InitLen + 1 /\ srcSteps = 0 /\ nReorgs = 0 /\ faults = 0
  /\ local = <<>>
  /\ cancelled = FALSE /\ nextFetch = 0 /\ weff = 1 /\ fq = <<>> /\ vq = <<>> /\ rv = NoRv /\ sp = NoSp
  /\ highest = -1 /\ catchUp = FALSE /\ poll = IdlePoll /\ polls = 0
  /\ curr = NoReorg /\ revSince = <<>> /\ seenVers = {}
  /\ stopping = FALSE /\ restarts = 0
  /\ memo = {} /\ tainted = {}
  /\ ment = m /\ sierra = sr
  /\ defs = [c \in 1..Len(m) |-> -1] /\ known = {}
Init == InitWith(<<ClassA, ClassB>>, SierraSet)

-----------------------------------------------------------------------------
(* Source *)

\* c is a legal successor of Cur: a common prefix followed by >= 1 consecutive fresh tags
LegalNext(c) ==
  /\ Len(c) >= 1
  /\ \E k \in 0..Min(Len(Cur), Len(c) - 1) :
       /\ Prefix(c, k) = Prefix(Cur, k)
       /\ \A j \in (k + 1)..Len(c) : c[j] = nextTag + (j - k - 1)

SrcSet(c) ==
  /\ LegalNext(c)
  /\ versions' = Append(versions, c)
  /\ nextTag' = HeadTag(c) + 1
  /\ srcSteps' = srcSteps + 1
  /\ nReorgs' = IF Len(c) > Len(Cur) /\ Prefix(c, Len(Cur)) = Cur THEN nReorgs ELSE nReorgs + 1
  /\ UNCHANGED <<ment, sierra, faults, local, pipeVars, modeVars, curr, revSince, seenVers, lifeVars, auxVars, clsVars>>

Fresh(n) == [j \in 1..n |-> nextTag + j - 1]

SrcExtend ==
  /\ srcSteps < MaxSrcSteps /\ Len(Cur) < MaxLen
  /\ SrcSet(Append(Cur, nextTag))

SrcReorg ==
  /\ srcSteps < MaxSrcSteps /\ nReorgs < MaxReorgs
  /\ \E d \in 1..Len(Cur), n \in 1..MaxNew :
       /\ Len(Cur) - d + n <= MaxLen
       /\ SrcSet(Prefix(Cur, Len(Cur) - d) \o Fresh(n))

\* what a request made at version v0 may be answered with
VerRange(v0) == v0..Len(versions)
BlockAt(v, h) == versions[v][h + 1]
HasBlock(v, h) == h < Len(versions[v])

\* a block answer: r = "ok" | "bad" (corrupted copy) | "err"
\* r = "ok"  the block of version ver at the requested height
\*     "bad" a corrupted copy of it that verification (SanityCheckNewHeight) rejects
\*     "fg"  a FORGED copy (resp.corr \in ForgedKinds): header, hash and claimed roots are consistent;
\*           verification accepts it, only the state-root checks of Store can reject it
\*     "wh"  WRONG HEIGHT: a valid block of version ver at another height (stale / mixed-up answer)
\*     "err"
LegalBlockResp(v0, h, resp, ctxDone) ==
  \/ /\ resp.r \in {"ok", "bad", "fg"}
     /\ resp.ver \in VerRange(v0) /\ HasBlock(resp.ver, h) /\ resp.tag = BlockAt(resp.ver, h)
  \/ /\ resp.r = "wh"
     /\ resp.ver \in VerRange(v0) /\ resp.tag \in Range(versions[resp.ver]) /\ resp.tag # 0
     /\ ~(HasBlock(resp.ver, h) /\ resp.tag = BlockAt(resp.ver, h))
  \/ resp.r = "err"
\* the revert loop's answers: honest, failed or corrupted (see the limits in checks/C06.py)
LegalRevertResp(v0, h, resp, ctxDone) == resp.r \in {"ok", "bad", "err"} /\ LegalBlockResp(v0, h, resp, ctxDone)
BlockRespCost(v0, h, resp, ctxDone) ==
  CASE resp.r = "ok"  -> 0
    [] resp.r \in {"bad", "fg", "wh"} -> 1
    [] OTHER -> IF ctxDone \/ \E v \in VerRange(v0) : ~HasBlock(v, h) THEN 0 ELSE 1
\* corr: what a corrupted copy looks like to code that reads only Hash and ParentHash of the header
\* ("hash": the hash differs; "parent": the parent hash differs; "other": neither)
BlockRespsC(v0, h, corrs) ==
  {[r |-> "err", ver |-> 0, tag |-> 0, corr |-> "none"]} \cup
  {[r |-> "ok", ver |-> v, tag |-> BlockAt(v, h), corr |-> "none"] : v \in {x \in VerRange(v0) : HasBlock(x, h)}} \cup
  {[r |-> "bad", ver |-> v, tag |-> BlockAt(v, h), corr |-> c] : v \in {x \in VerRange(v0) : HasBlock(x, h)}, c \in corrs}
\* exhaustive runs: wrong heights one below and one above the requested one
WrongHeightResps(v0, h) ==
  UNION {{[r |-> "wh", ver |-> v, tag |-> BlockAt(v, g), corr |-> "none"] : g \in {x \in {h - 1, h + 1} : x >= 0 /\ HasBlock(v, x)}}
         : v \in VerRange(v0)}
ForgedKinds == {"diff", "root", "oldroot"}
ForgedResps(v0, h) ==
  {[r |-> "fg", ver |-> v, tag |-> BlockAt(v, h), corr |-> k] : v \in {x \in VerRange(v0) : HasBlock(x, h)}, k \in ForgedKinds}
\* do the state-root checks of Store refuse forgery k of block t?  (a "diff" forgery of a block without diff
\* entries has an entry)
RootBites(t, k) == RootCheckedOnEmptyDiff \/ t \notin EmptyDiff \/ k = "diff"
\* does a corrupted copy claim the hash of the honest block?
KeepsHash(resp) == resp.r = "bad" /\ resp.corr # "hash"
BlockResps(v0, h) ==           \* the fetch pipeline verifies every answer: any corruption is the same to it,
                               \* unless verdicts are remembered by claimed hash
  BlockRespsC(v0, h, IF VerdictPerAnswer THEN {"other"} ELSE {"hash", "other"})
    \cup WrongHeightResps(v0, h) \cup ForgedResps(v0, h)
RevertResps(v0, h) == BlockRespsC(v0, h, {"hash", "parent", "other"})

\* a latest-header answer: r = "ok" (height rh of version ver; stale when below its tip) | "err"
LegalLatestResp(v0, resp) ==
  \/ /\ resp.r = "ok" /\ resp.ver \in VerRange(v0) /\ HasBlock(resp.ver, resp.h)
     /\ resp.tag = BlockAt(resp.ver, resp.h)
  \/ resp.r = "err"
LatestRespCost(resp, ctxDone) ==
  IF resp.r = "ok" THEN (IF resp.h = Len(versions[resp.ver]) - 1 THEN 0 ELSE 1)
  ELSE (IF ctxDone THEN 0 ELSE 1)
LatestResps(v0) ==
  {[r |-> "err", ver |-> 0, h |-> 0, tag |-> 0]} \cup
  UNION {{[r |-> "ok", ver |-> v, h |-> h, tag |-> BlockAt(v, h)] : h \in 0..(Len(versions[v]) - 1)} : v \in VerRange(v0)}

Heard(resp) == IF resp.r = "err" THEN seenVers ELSE seenVers \cup {resp.ver}

-----------------------------------------------------------------------------
(* Fetchers *)

Running(q) == Cardinality({i \in 1..Len(q) : q[i].st # "done"})
SetFq(i, r) == fq' = [fq EXCEPT ![i] = r]

Spawn ==
  /\ ~cancelled /\ Running(fq) < weff /\ Len(fq) < weff + 2
  /\ fq' = Append(fq, NewTask(nextFetch))
  /\ nextFetch' = nextFetch + 1
  /\ UNCHANGED <<srcVars, auxVars, clsVars, lifeVars, faults, local, cancelled, weff, vq, rv, sp, modeVars, curr, revSince, seenVers>>

FetchExit(i) ==                       \* top of the retry loop: ctx.Done
  /\ fq[i].st = "run" /\ cancelled
  /\ SetFq(i, [fq[i] EXCEPT !.st = "done", !.kind = "none"])
  /\ UNCHANGED <<srcVars, auxVars, clsVars, lifeVars, faults, local, cancelled, nextFetch, weff, vq, rv, sp, modeVars, curr, revSince, seenVers>>

FetchCheck(i) ==                      \* top of the retry loop: ctx not done (a reset may still slip in before the call)
  /\ fq[i].st = "run" /\ ~cancelled
  /\ SetFq(i, [fq[i] EXCEPT !.st = "go"])
  /\ UNCHANGED <<srcVars, auxVars, clsVars, lifeVars, faults, local, cancelled, nextFetch, weff, vq, rv, sp, modeVars, curr, revSince, seenVers>>

FetchCall(i, rid) ==                  \* observable: request BlockByNumber(h)
  /\ fq[i].st = "go"
  /\ SetFq(i, [fq[i] EXCEPT !.st = "wait", !.v0 = Len(versions), !.rid = rid,
                             !.seen = IF Windows THEN Known \cup PendingRemoved ELSE {},
                             !.always = IF Windows THEN Known \ PendingAdded ELSE {}])
  /\ UNCHANGED <<srcVars, auxVars, clsVars, lifeVars, faults, local, cancelled, nextFetch, weff, vq, rv, sp, modeVars, curr, revSince, seenVers>>

\* NewClasses of an answer.  src = "prod": computed by the data source from the local state.  As coded the lookup
\* is one step with the delivery (a sound reduction: the answer is visible to nobody before BlockByNumber returns);
\* with Windows every class left out must have been in the local state at some moment while the request was out, every
\* class downloaded must have been missing at some moment.  src = "script": a data source that hands over every
\* class the block mentions.
NcLegal(task, resp, nc, src) ==
  IF resp.r = "err" THEN nc = {}
  ELSE IF src = "script" THEN nc = Mentions(resp.tag)
  ELSE IF Windows THEN /\ (Mentions(resp.tag) \ task.seen) \subseteq nc
                       /\ nc \subseteq (Mentions(resp.tag) \ task.always)
  ELSE nc = LookupNow(resp.tag)

FetchReturn(i, resp, nc, src) ==      \* observable: the answer is delivered (BlockByNumber returns)
  /\ fq[i].st = "wait"
  /\ LegalBlockResp(fq[i].v0, fq[i].h, resp, cancelled)
  /\ NcLegal(fq[i], resp, nc, src)
  /\ known' = IF resp.r = "err" \/ src = "script" THEN known ELSE Remember(resp.tag)
  /\ faults' = faults + BlockRespCost(fq[i].v0, fq[i].h, resp, cancelled)
  /\ seenVers' = Heard(resp)
  /\ IF resp.r = "err"
     THEN SetFq(i, [fq[i] EXCEPT !.st = "chk", !.seen = {}, !.always = {}])
     ELSE SetFq(i, [fq[i] EXCEPT !.st = "done", !.kind = "block", !.blk = resp.tag, !.bh = HeightOf(resp.tag),
                                 !.bad = (resp.r = "bad"),
                                 !.forged = (resp.r = "fg" /\ RootBites(resp.tag, resp.corr)),
                                 !.alt = (resp.r \in {"bad", "fg"}),
                                 !.keep = (~VerdictPerAnswer /\ KeepsHash(resp)),
                                 !.nc = nc, !.seen = {}, !.always = {}])
  /\ UNCHANGED <<srcVars, auxVars, defs, lifeVars, local, cancelled, nextFetch, weff, vq, rv, sp, modeVars, curr, revSince>>

IsRevFast(i) ==                       \* exit 1 (also: Height() fails on an empty chain)
  /\ fq[i].st = "chk"
  /\ (Len(local) = 0 \/ Len(local) # fq[i].h)
  /\ SetFq(i, [fq[i] EXCEPT !.st = "run"])
  /\ UNCHANGED <<srcVars, auxVars, clsVars, lifeVars, faults, local, cancelled, nextFetch, weff, vq, rv, sp, modeVars, curr, revSince, seenVers>>

IsRevCall(i, rid) ==                  \* observable: request BlockHeaderLatest
  /\ fq[i].st = "chk"
  /\ Len(local) > 0 /\ Len(local) = fq[i].h
  /\ SetFq(i, [fq[i] EXCEPT !.st = "lwait", !.L = Len(local) - 1, !.v0 = Len(versions), !.rid = rid])
  /\ UNCHANGED <<srcVars, auxVars, clsVars, lifeVars, faults, local, cancelled, nextFetch, weff, vq, rv, sp, modeVars, curr, revSince, seenVers>>

IsRevReturn(i, resp) ==               \* observable: exits 2 and 3
  /\ fq[i].st = "lwait"
  /\ LegalLatestResp(fq[i].v0, resp)
  /\ faults' = faults + LatestRespCost(resp, cancelled)
  /\ seenVers' = Heard(resp)
  /\ LET L == fq[i].L IN
     IF resp.r = "err" \/ resp.h > L
     THEN SetFq(i, [fq[i] EXCEPT !.st = "run"])
     ELSE LET hl == resp.h IN          \* min(remote height, local height) = remote height here
          IF hl + 1 > Len(local) \/ local[hl + 1] = resp.tag
          THEN SetFq(i, [fq[i] EXCEPT !.st = "run"])
          ELSE SetFq(i, [fq[i] EXCEPT !.st = "done", !.kind = "revert",
                                       !.lv = IF resp.h = 0 THEN (IF FixUnderflow THEN 0 ELSE INF)
                                             ELSE resp.h - 1])
  /\ UNCHANGED <<srcVars, auxVars, clsVars, lifeVars, local, cancelled, nextFetch, weff, vq, rv, sp, modeVars, curr, revSince>>

\* fetch callbacks run in submission order; each submits a verifier task (blocks while the pool is full)
FetchCallback ==
  /\ Len(fq) > 0 /\ fq[1].st = "done"
  /\ fq[1].kind # "none" => (Running(vq) < WV /\ Len(vq) < WV + 2)
  /\ fq' = Tail(fq)
  \* h of a verifier task is the NUMBER OF THE BLOCK it carries (not the height that was asked for)
  /\ vq' = CASE fq[1].kind = "block"  -> Append(vq, [kind |-> "block", blk |-> fq[1].blk, bad |-> fq[1].bad,
                                                   forged |-> fq[1].forged, alt |-> fq[1].alt, keep |-> fq[1].keep,
                                                   h |-> fq[1].bh, rid |-> fq[1].rid, st |-> "run", lv |-> 0, nc |-> fq[1].nc])
             [] fq[1].kind = "revert" -> Append(vq, [kind |-> "revert", blk |-> 0, bad |-> FALSE, forged |-> FALSE,
                                                   alt |-> FALSE, keep |-> FALSE,
                                                   h |-> fq[1].h, rid |-> 0, st |-> "done", lv |-> fq[1].lv, nc |-> {}])
             [] OTHER -> vq
  /\ UNCHANGED <<srcVars, auxVars, clsVars, lifeVars, faults, local, cancelled, nextFetch, weff, rv, sp, modeVars, curr, revSince, seenVers>>

-----------------------------------------------------------------------------
(* Verifiers; their callbacks (store / revert) run in submission order on one goroutine *)

\* SanityCheckNewHeight finished.  From here on `bad` is the VERDICT the pipeline acts on.  As coded the
\* verdict is computed on this very answer (bad stays what the answer is).  With VerdictPerAnswer = FALSE a
\* verdict is remembered under the claimed hash: an honest answer records its tag, and a corrupted copy
\* claiming a recorded hash is waved through.
VerifyDone(i) ==
  /\ vq[i].st = "run"
  /\ LET hit == ~VerdictPerAnswer /\ vq[i].bad /\ vq[i].keep /\ vq[i].blk \in memo IN
     /\ vq' = [vq EXCEPT ![i].st = "done", ![i].bad = vq[i].bad /\ ~hit]
     /\ memo' = IF ~VerdictPerAnswer /\ ~vq[i].alt THEN memo \cup {vq[i].blk} ELSE memo
  /\ UNCHANGED <<srcVars, tainted, clsVars, lifeVars, faults, local, cancelled, nextFetch, weff, fq, rv, sp, modeVars, curr, revSince, seenVers>>

CallbackReady == ~rv.on /\ ~sp.on /\ Len(vq) > 0 /\ vq[1].st = "done"
StartRevert(lv, why) == rv' = [NoRv EXCEPT !.on = TRUE, !.lv = lv, !.st = "iter", !.why = why]

VerifyFail ==                         \* sanity check failed: resetStreams()
  /\ CallbackReady /\ vq[1].kind = "block" /\ vq[1].bad
  /\ vq' = Tail(vq) /\ cancelled' = TRUE
  /\ UNCHANGED <<srcVars, auxVars, clsVars, lifeVars, faults, local, nextFetch, weff, fq, rv, sp, modeVars, curr, revSince, seenVers>>

\* storeTask looks at the context first and calls Store afterwards; a stop of the node may fall in between
\* (a stream reset cannot: resets come from this very goroutine).  Fine = TRUE keeps the two apart.
StoreCheck ==                         \* storeTask: ctx not done
  /\ Fine /\ CallbackReady /\ vq[1].kind = "block" /\ ~vq[1].bad /\ ~cancelled /\ ~sp.ck
  /\ sp' = [sp EXCEPT !.ck = TRUE]
  /\ UNCHANGED <<srcVars, auxVars, clsVars, lifeVars, faults, local, cancelled, nextFetch, weff, fq, vq, rv, modeVars, curr, revSince, seenVers>>
PassedCtxCheck == IF Fine THEN sp.ck ELSE ~cancelled

StoreSkip ==                          \* storeTask sees ctx.Done
  /\ CallbackReady /\ vq[1].kind = "block" /\ ~vq[1].bad /\ cancelled /\ ~sp.ck
  /\ vq' = Tail(vq)
  /\ UNCHANGED <<srcVars, auxVars, clsVars, lifeVars, faults, local, cancelled, nextFetch, weff, fq, rv, sp, modeVars, curr, revSince, seenVers>>

StoreErr ==                           \* any error but ErrParentDoesNotMatchHead: "expected block #n" (a block of
                                      \* another height), or a state-root check refusing a forged successor
                                      \* (forged = "is a forgery the root checks refuse", see FetchReturn)
  /\ CallbackReady /\ vq[1].kind = "block" /\ ~vq[1].bad /\ PassedCtxCheck
  /\ \/ vq[1].h # Len(local)
     \/ (vq[1].forged /\ ParentOf(vq[1].blk) = HeadTag(local))
     \* the definition of a Sierra class the block declares is not among NewClasses: its class-trie leaf is not
     \* written, the new state root does not match
     \/ (vq[1].h = Len(local) /\ ParentOf(vq[1].blk) = HeadTag(local) /\ ~SierraOK(vq[1].blk, vq[1].nc))
  /\ vq' = Tail(vq) /\ cancelled' = TRUE /\ sp' = NoSp
  /\ UNCHANGED <<srcVars, auxVars, clsVars, lifeVars, faults, local, nextFetch, weff, fq, rv, modeVars, curr, revSince, seenVers>>

StoreMismatch ==                      \* ErrParentDoesNotMatchHead -> revertTask(n-2)  [H13]
  /\ CallbackReady /\ vq[1].kind = "block" /\ ~vq[1].bad /\ PassedCtxCheck
  /\ vq[1].h = Len(local) /\ ParentOf(vq[1].blk) # HeadTag(local)
  /\ vq' = Tail(vq) /\ sp' = NoSp
  /\ LET n == vq[1].h IN
     StartRevert(IF FixH13 THEN n - 1 ELSE (IF n >= 2 THEN n - 2 ELSE INF), "parent")
  /\ UNCHANGED <<srcVars, auxVars, clsVars, lifeVars, faults, local, cancelled, nextFetch, weff, fq, modeVars, curr, revSince, seenVers>>

\* what storeTask does after the listener: catch-up mode switch (resets the streams), highest block,
\* reorg notification (currReorg is cleared) and newHeads notification.  hs is the value of
\* highestBlockHeader storeTask loaded; pollLatest may have replaced it since, in which case the
\* CompareAndSwap fails and the poller's value stays.
PostOps(n, hs) ==
  LET behind == hs > n + Lag IN
  /\ IF hs >= 0 /\ catchUp # behind
     THEN cancelled' = TRUE /\ catchUp' = behind
     ELSE UNCHANGED <<cancelled, catchUp>>
  /\ highest' = IF hs < n /\ highest = hs THEN n ELSE highest
  /\ curr' = NoReorg /\ revSince' = <<>>

StoreApply ==                         \* Blockchain.Store returned nil: the chain has a new head
  /\ CallbackReady /\ vq[1].kind = "block" /\ ~vq[1].bad /\ ~vq[1].forged /\ PassedCtxCheck
  /\ vq[1].h = Len(local) /\ ParentOf(vq[1].blk) = HeadTag(local)
  /\ SierraOK(vq[1].blk, vq[1].nc)
  /\ vq' = Tail(vq)
  /\ local' = Append(local, vq[1].blk)
  /\ defs' = StoreDefs(vq[1].h, vq[1].nc)
  /\ fq' = WinStore(fq, KnownIn(defs'))
  /\ tainted' = IF vq[1].alt THEN tainted \cup {vq[1].blk} ELSE tainted   \* what went into the database
  /\ IF Fine
     THEN /\ sp' = [on |-> TRUE, acked |-> FALSE, tag |-> vq[1].blk, h |-> vq[1].h, rid |-> vq[1].rid, hs |-> -1, ck |-> FALSE]
          /\ UNCHANGED <<cancelled, catchUp, highest, curr, revSince>>
     ELSE PostOps(vq[1].h, highest) /\ UNCHANGED sp
  /\ UNCHANGED <<srcVars, memo, known, lifeVars, faults, nextFetch, weff, rv, poll, polls, seenVers>>

StoreAck ==                           \* observable: Stored(b) (OnSyncStepDone(OpStore))
  /\ sp.on /\ ~sp.acked
  /\ sp' = [sp EXCEPT !.acked = TRUE, !.hs = highest]      \* highestBlockHeader.Load() follows the listener
  /\ UNCHANGED <<srcVars, auxVars, clsVars, lifeVars, faults, local, cancelled, nextFetch, weff, fq, vq, rv, modeVars, curr, revSince, seenVers>>

StorePost ==
  /\ sp.on /\ sp.acked
  /\ PostOps(sp.h, sp.hs)
  /\ sp' = NoSp
  /\ UNCHANGED <<srcVars, auxVars, clsVars, lifeVars, faults, local, nextFetch, weff, fq, vq, rv, poll, polls, seenVers>>

RevertStart ==                        \* the callback built by fetcherTask after isReverting said "reorg"
  /\ CallbackReady /\ vq[1].kind = "revert"
  /\ vq' = Tail(vq)
  /\ StartRevert(vq[1].lv, "latest")
  /\ UNCHANGED <<srcVars, auxVars, clsVars, lifeVars, faults, local, cancelled, nextFetch, weff, fq, sp, modeVars, curr, revSince, seenVers>>

\* revertHead(): RevertHead + currReorg bookkeeping
RevertHeadOp ==
  /\ local' = Prefix(local, Len(local) - 1)
  /\ defs' = RevertDefs
  /\ fq' = WinRevert(fq, KnownIn(defs'))
  /\ curr' = IF curr.on THEN [curr EXCEPT !.s = HeadTag(local)]
             ELSE [on |-> TRUE, s |-> HeadTag(local), e |-> HeadTag(local)]
  /\ revSince' = Append(revSince, HeadTag(local))

\* after a revert took effect (cont: the loop goes on): acknowledge (listener), then loop or end the task
AfterRevert(cont, how) ==
  IF Fine THEN rv' = [rv EXCEPT !.st = "ack", !.cont = cont, !.tag = HeadTag(local), !.how = how] /\ UNCHANGED cancelled
  ELSE IF cont THEN rv' = [rv EXCEPT !.st = "iter"] /\ UNCHANGED cancelled
  ELSE rv' = NoRv /\ cancelled' = TRUE
\* the task ends: defer resetStreams()
EndTask ==
  IF Fine THEN rv' = [rv EXCEPT !.st = "fin"] /\ UNCHANGED cancelled
  ELSE rv' = NoRv /\ cancelled' = TRUE

RevertBreak ==                        \* HeadsHeader fails on an empty chain
  /\ rv.on /\ rv.st = "iter" /\ Len(local) = 0
  /\ EndTask
  /\ UNCHANGED <<srcVars, auxVars, clsVars, lifeVars, faults, local, nextFetch, weff, fq, vq, sp, modeVars, curr, revSince, seenVers>>

RevertUncond ==                       \* the head is above lastPossiblyValidHeight: RevertHead took effect
  /\ rv.on /\ rv.st = "iter" /\ Len(local) > 0 /\ Len(local) - 1 > rv.lv
  /\ RevertHeadOp
  /\ AfterRevert(TRUE, "uncond")
  /\ UNCHANGED <<srcVars, auxVars, known, lifeVars, faults, nextFetch, weff, vq, sp, modeVars, seenVers>>

RevertCall(rid) ==                    \* observable: request BlockByNumber(head.Number)
  /\ rv.on /\ rv.st = "iter" /\ Len(local) > 0 /\ Len(local) - 1 <= rv.lv
  /\ rv' = [rv EXCEPT !.st = "wait", !.v0 = Len(versions), !.rid = rid]
  /\ UNCHANGED <<srcVars, auxVars, clsVars, lifeVars, faults, local, cancelled, nextFetch, weff, fq, vq, sp, modeVars, curr, revSince, seenVers>>

RevertReturn(resp) ==                 \* observable: the answer; compare hashes
  /\ rv.on /\ rv.st = "wait"
  /\ LegalRevertResp(rv.v0, Len(local) - 1, resp, cancelled)
  /\ faults' = faults + BlockRespCost(rv.v0, Len(local) - 1, resp, cancelled)
  /\ seenVers' = Heard(resp)
  /\ known' = IF resp.r = "err" THEN known ELSE Remember(resp.tag)   \* this BlockByNumber looks classes up as well
  /\ LET realCont == ParentOf(resp.tag) # ParentOf(HeadTag(local)) IN
     CASE resp.r = "err" -> EndTask
       [] resp.r = "ok" ->
            IF resp.tag = HeadTag(local) THEN EndTask
            ELSE rv' = [rv EXCEPT !.st = "rev", !.cont = realCont] /\ UNCHANGED cancelled
       [] resp.r = "bad" ->
            \* the code compares Hash / ParentHash of an UNVERIFIED block
            IF FixRevertVerify THEN EndTask
            ELSE LET differs == (resp.corr = "hash") \/ resp.tag # HeadTag(local)
                     cont    == (resp.corr = "parent") \/ realCont
                 IN IF differs THEN rv' = [rv EXCEPT !.st = "rev", !.cont = cont] /\ UNCHANGED cancelled
                    ELSE EndTask
  /\ UNCHANGED <<srcVars, auxVars, defs, lifeVars, local, nextFetch, weff, fq, vq, sp, modeVars, curr, revSince>>

RevertDo ==                           \* RevertHead took effect after a hash comparison
  /\ rv.on /\ rv.st = "rev"
  /\ RevertHeadOp
  /\ AfterRevert(rv.cont, "compare")
  /\ UNCHANGED <<srcVars, auxVars, known, lifeVars, faults, nextFetch, weff, vq, sp, modeVars, seenVers>>

RevertAck ==                          \* observable: Reverted(b) (OnReorg)
  /\ rv.on /\ rv.st = "ack"
  /\ rv' = [rv EXCEPT !.st = IF rv.cont THEN "iter" ELSE "fin"]
  /\ UNCHANGED <<srcVars, auxVars, clsVars, lifeVars, faults, local, cancelled, nextFetch, weff, fq, vq, sp, modeVars, curr, revSince, seenVers>>

RevertEnd ==                          \* defer resetStreams()
  /\ rv.on /\ rv.st = "fin"
  /\ rv' = NoRv /\ cancelled' = TRUE
  /\ UNCHANGED <<srcVars, auxVars, clsVars, lifeVars, faults, local, nextFetch, weff, fq, vq, sp, modeVars, curr, revSince, seenVers>>

-----------------------------------------------------------------------------
(* Stream reset and the latest-header poller *)

Restart ==
  /\ cancelled /\ ~stopping /\ fq = <<>> /\ vq = <<>> /\ ~rv.on /\ ~sp.on
  /\ cancelled' = FALSE /\ nextFetch' = Len(local)
  /\ weff' = IF catchUp THEN W ELSE 1
  /\ UNCHANGED <<srcVars, auxVars, clsVars, lifeVars, faults, local, fq, vq, rv, sp, modeVars, curr, revSince, seenVers>>

PollCall(rid) ==                      \* observable: request BlockHeaderLatest (pollLatest)
  /\ poll.st = "idle" /\ polls < MaxPolls
  /\ (~stopping \/ polls = 0)        \* the first call is made without looking at the context
  /\ poll' = [poll EXCEPT !.st = "wait", !.v0 = Len(versions), !.rid = rid]
  /\ UNCHANGED <<srcVars, auxVars, clsVars, lifeVars, faults, local, pipeVars, highest, catchUp, polls, curr, revSince, seenVers>>

PollReturn(resp) ==                   \* observable
  /\ poll.st = "wait"
  /\ LegalLatestResp(poll.v0, resp)
  /\ faults' = faults + LatestRespCost(resp, stopping)
  /\ seenVers' = Heard(resp)
  /\ IF Fine
     THEN poll' = [poll EXCEPT !.st = "got", !.got = IF resp.r = "ok" THEN resp.h ELSE -1]
          /\ UNCHANGED <<highest, polls>>
     ELSE highest' = (IF resp.r = "ok" THEN resp.h ELSE highest) /\ poll' = IdlePoll /\ polls' = polls + 1
  /\ UNCHANGED <<srcVars, auxVars, clsVars, lifeVars, local, pipeVars, catchUp, curr, revSince>>

PollApply ==                          \* highestBlockHeader.Store(header)
  /\ poll.st = "got"
  /\ highest' = IF poll.got >= 0 THEN poll.got ELSE highest
  /\ poll' = IdlePoll /\ polls' = polls + 1
  /\ UNCHANGED <<srcVars, auxVars, clsVars, lifeVars, faults, local, pipeVars, catchUp, curr, revSince, seenVers>>

-----------------------------------------------------------------------------
(* The node is stopped and started again: the Synchronizer's context is cancelled (which cancels the
   stream context), Run returns once both streams have drained, and a NEW Synchronizer over a new
   Blockchain object on the same database starts at height+1 in tip mode.  Everything it kept in
   memory is gone: catch-up mode, highest header, and a reorg notification that was still pending. *)
Shutdown ==                           \* observable (environment): Stop
  /\ restarts < MaxRestarts /\ ~stopping
  /\ stopping' = TRUE /\ cancelled' = TRUE
  /\ UNCHANGED <<srcVars, auxVars, clsVars, restarts, faults, local, nextFetch, weff, fq, vq, rv, sp, modeVars, curr, revSince, seenVers>>

NodeRestart ==                        \* observable (environment): Restart
  /\ stopping /\ fq = <<>> /\ vq = <<>> /\ ~rv.on /\ ~sp.on /\ poll.st = "idle"
  /\ stopping' = FALSE /\ restarts' = restarts + 1
  /\ cancelled' = FALSE /\ nextFetch' = Len(local) /\ weff' = 1
  /\ highest' = -1 /\ catchUp' = FALSE /\ polls' = 0
  /\ curr' = NoReorg /\ revSince' = <<>>
  /\ memo' = {} /\ known' = {}
  /\ UNCHANGED <<srcVars, tainted, defs, faults, local, fq, vq, rv, sp, poll, seenVers>>

Budget(c) == faults + c <= MaxFaults

\* "some legal answer within the fault budget is delivered"
FetchReturnAny(i) ==
  /\ fq[i].st = "wait"
  /\ \E resp \in BlockResps(fq[i].v0, fq[i].h) :
       /\ Budget(BlockRespCost(fq[i].v0, fq[i].h, resp, cancelled))
       /\ FetchReturn(i, resp, IF resp.r = "err" THEN {} ELSE LookupNow(resp.tag), "prod")
IsRevReturnAny(i) ==
  /\ fq[i].st = "lwait"
  /\ \E resp \in LatestResps(fq[i].v0) : Budget(LatestRespCost(resp, cancelled)) /\ IsRevReturn(i, resp)
RevertReturnAny ==
  /\ rv.on /\ rv.st = "wait"
  /\ \E resp \in RevertResps(rv.v0, Len(local) - 1) :
       Budget(BlockRespCost(rv.v0, Len(local) - 1, resp, cancelled)) /\ RevertReturn(resp)
PollReturnAny ==
  /\ poll.st = "wait"
  /\ \E resp \in LatestResps(poll.v0) : Budget(LatestRespCost(resp, stopping)) /\ PollReturn(resp)

NodeInternal ==
  \/ Spawn
  \/ \E i \in 1..Len(fq) : FetchExit(i) \/ FetchCheck(i) \/ IsRevFast(i)
  \/ FetchCallback
  \/ \E i \in 1..Len(vq) : VerifyDone(i)
  \/ VerifyFail \/ StoreSkip \/ StoreErr \/ StoreMismatch \/ RevertStart
  \/ StoreCheck \/ StoreApply \/ StorePost
  \/ RevertBreak \/ RevertUncond \/ RevertDo \/ RevertEnd
  \/ Restart
  \/ PollApply

Next ==
  \/ SrcExtend \/ SrcReorg
  \/ Shutdown \/ NodeRestart
  \/ NodeInternal
  \/ \E i \in 1..Len(fq) : FetchCall(i, 0) \/ FetchReturnAny(i) \/ IsRevCall(i, 0) \/ IsRevReturnAny(i)
  \/ StoreAck \/ RevertAck
  \/ RevertCall(0) \/ RevertReturnAny
  \/ PollCall(0) \/ PollReturnAny

Spec == Init /\ [][Next]_vars

-----------------------------------------------------------------------------
(* Properties *)

TypeOK ==
  /\ Len(versions) >= 1 /\ \A v \in 1..Len(versions) : Len(versions[v]) \in 1..MaxLen
  /\ Len(local) <= MaxLen
  /\ Len(fq) <= W + 2 /\ Len(vq) <= WV + 2
  /\ faults \in 0..MaxFaults /\ highest \in -1..(MaxLen - 1)
  /\ weff \in {1, W}
  /\ VerdictPerAnswer => memo = {}
  /\ defs \in [Classes -> -1..(MaxLen - 1)] /\ known \subseteq Classes
  /\ ~RememberKnown => known = {}

\* every block of the local chain is a block some version of the source had, with the same ancestry
LocalIsSourceBlocks ==
  \A k \in 1..Len(local) : \E v \in 1..Len(versions) :
     Len(versions[v]) >= k /\ Prefix(versions[v], k) = Prefix(local, k)

IsStoreStep  == Len(local') = Len(local) + 1
IsRevertStep == Len(local') = Len(local) - 1

\* Stored(b): b passed verification, is the successor of the head, and the chain only grows by one
StoreSafe ==
  [][IsStoreStep =>
       /\ Prefix(local', Len(local)) = local
       /\ CallbackReady /\ vq[1].kind = "block" /\ ~vq[1].bad /\ ~vq[1].forged /\ ~vq[1].alt /\ PassedCtxCheck
       /\ vq[1].blk = HeadTag(local')
       /\ ParentOf(HeadTag(local')) = HeadTag(local)]_vars

\* ... stated over what the database holds: no block was ever stored with content other than the source's
StoredOnlyVerified == tainted = {}

(* Classes.  The node's class table is exactly what its chain says: a class has a definition iff a block of the local
   chain mentions it, stored at the height of the FIRST such block (its declaration).  This is what the engine reads
   back from the real node after every store and every revert (head state and historical states). *)
ClassesExact == defs = ExpectedDefs(local)
\* ... of which the part the property needs: after Store of block b every class b declares / uses is readable
StoredClassesComplete ==
  \A k \in 1..Len(local) : \A c \in Mentions(local[k]) : defs[c] # -1 /\ defs[c] <= k - 1
\* what is handed to Store suffices: every class the block mentions is among NewClasses or in the local state
NewClassesSufficient ==
  [][IsStoreStep => Mentions(vq[1].blk) \subseteq (vq[1].nc \cup Known)]_vars
\* no "known" verdict survives a revert: whatever the fetch layer believes the local state to have - a class it left
\* out of the NewClasses of an answer that can still reach Store, or one it remembers - the local state has
Believed(t, nc) == Mentions(t) \ nc
LiveBeliefs ==
  IF cancelled \/ rv.on THEN {}
  ELSE UNION ({Believed(fq[i].blk, fq[i].nc) : i \in {j \in 1..Len(fq) : fq[j].st = "done" /\ fq[j].kind = "block"}}
              \cup {Believed(vq[i].blk, vq[i].nc) : i \in {j \in 1..Len(vq) : vq[j].kind = "block"}})
KnownIsCurrent == (known \cup LiveBeliefs) \subseteq Known

HeadMovesOnlyByStoreOrRevert ==
  [][local' # local => (IsStoreStep \/ (IsRevertStep /\ local' = Prefix(local, Len(local) - 1)))]_vars

\* Reverted(b): the source no longer has b ...
SourceStillHas(b) == b \in Range(Cur)
RevertsJustified == [][IsRevertStep => ~SourceStillHas(HeadTag(local))]_vars
\* ... and the node has consumed an answer produced at a version that does not contain b
Evidence(b) == \E v \in seenVers : b \notin Range(versions[v])
RevertsHaveEvidence == [][IsRevertStep => Evidence(HeadTag(local))]_vars

\* notifications: the reorg message sent with the next store = exactly the blocks reverted since the
\* previous store (End = first reverted, Start = last reverted, contiguous), none if nothing was reverted
ReorgExact ==
  /\ curr.on <=> revSince # <<>>
  /\ curr.on => /\ curr.e = revSince[1] /\ curr.s = revSince[Len(revSince)]
                /\ \A k \in 1..(Len(revSince) - 1) : ParentOf(revSince[k]) = revSince[k + 1]
                /\ ~sp.on => ParentOf(curr.s) = HeadTag(local)

\* stopping and restarting the node does not touch the chain (and nothing else moves the head meanwhile
\* except the stores / reverts the pipeline was already committed to)
RestartIsNoOp == [][(stopping' # stopping) => local' = local]_vars

Converged == local = Cur
EventuallyConverges == <>[](local = Cur)

(* Fairness: every node step and the delivery of every outstanding answer is weakly fair, per task
   (a single WF(Next) would let the tip fetcher's retry loop starve the callbacks). *)
Slots == 1..(W + 2)
VSlots == 1..(WV + 2)
Fairness ==
  /\ WF_vars(Spawn) /\ WF_vars(FetchCallback)
  /\ WF_vars(VerifyFail) /\ WF_vars(StoreSkip) /\ WF_vars(StoreErr) /\ WF_vars(StoreMismatch)
  /\ WF_vars(StoreCheck) /\ WF_vars(StoreApply) /\ WF_vars(StoreAck) /\ WF_vars(StorePost) /\ WF_vars(RevertStart)
  /\ WF_vars(RevertBreak) /\ WF_vars(RevertUncond) /\ WF_vars(RevertCall(0)) /\ WF_vars(RevertDo)
  /\ WF_vars(RevertAck) /\ WF_vars(RevertEnd) /\ WF_vars(PollApply)
  /\ WF_vars(RevertReturnAny)
  /\ WF_vars(Restart) /\ WF_vars(NodeRestart)
  /\ WF_vars(PollCall(0)) /\ WF_vars(PollReturnAny)
  /\ \A i \in Slots :
       /\ WF_vars(i <= Len(fq) /\ FetchExit(i))
       /\ WF_vars(i <= Len(fq) /\ FetchCheck(i))
       /\ WF_vars(i <= Len(fq) /\ FetchCall(i, 0))
       /\ WF_vars(i <= Len(fq) /\ FetchReturnAny(i))
       /\ WF_vars(i <= Len(fq) /\ IsRevFast(i))
       /\ WF_vars(i <= Len(fq) /\ IsRevCall(i, 0))
       /\ WF_vars(i <= Len(fq) /\ IsRevReturnAny(i))
  /\ \A i \in VSlots : WF_vars(i <= Len(vq) /\ VerifyDone(i))

FairSpec == Spec /\ Fairness
=============================================================================

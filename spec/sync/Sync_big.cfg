\* OPTIONAL (VERIF_C06_BIG=1): repaired design, chain <= 4, 2 source steps (<= 2 reorgs), 2 faults, safety.
\* Measured once: 10 502 715 distinct / 41 047 381 generated states, depth 60, 18 min on 6 busy cores, no error.
CONSTANTS
  InitLen = 3
  MaxLen = 4
  MaxSrcSteps = 2
  MaxReorgs = 2
  MaxNew = 1
  W = 2
  WV = 2
  Lag = 0
  MaxFaults = 2
  MaxPolls = 1
  MaxRestarts = 0
  FixH13 = TRUE
  FixRevertVerify = TRUE
  FixUnderflow = TRUE
  Fine = FALSE
  EmptyDiff = {}
  RootCheckedOnEmptyDiff = TRUE
  VerdictPerAnswer = TRUE
  ClassA = {2, 4, 5}
  ClassB = {3, 5}
  SierraSet = {2}
  RememberKnown = FALSE
  Windows = FALSE
INIT Init
NEXT Next
INVARIANTS TypeOK LocalIsSourceBlocks ReorgExact StoredOnlyVerified ClassesExact StoredClassesComplete KnownIsCurrent
PROPERTIES StoreSafe HeadMovesOnlyByStoreOrRevert RevertsJustified RevertsHaveEvidence NewClassesSufficient
CHECK_DEADLOCK TRUE

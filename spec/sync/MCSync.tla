------------------------------- MODULE MCSync -------------------------------
(* Model-checking instance of Sync: nothing a .cfg cannot express is needed beyond a VIEW that
   forgets the request ids (always 0 at design level). *)
EXTENDS Sync

MCView == vars
=============================================================================

------------------------------- MODULE MCSync -------------------------------
(* Model-checking instance of Sync.  Every bound of Sync is a scalar CONSTANT assigned in the
   Sync_*.cfg files (no function-valued constants, no VIEW, no CONSTRAINT: all bounds are action
   guards so that the liveness check cannot miss a non-progress cycle).

   Configurations (measured on this machine, 4-6 busy cores):
     Sync_quick.cfg      repaired, chain <= 3, 1 source step, 1 fault, safety + liveness 291 164 states
     Sync_restart.cfg    repaired, one stop/restart of the node, safety + liveness + RestartIsNoOp 135 421 states
     Sync_h13.cfg        as coded for H13: RevertsJustified fails (29-35 step counterexample) ~17 000 states
     Sync_rvv.cfg        as coded for the unverified remote header: RevertsJustified fails
     Sync_underflow.cfg  as coded for the uint64 underflow: EventuallyConverges fails (lasso)
     Sync_live4.cfg      repaired, chain <= 4, safety + liveness                       519 059 states
     Sync_fine.cfg       repaired, Fine = TRUE (the model the traces are validated against) 717 215 states
     Sync_lagw.cfg       repaired, Lag = W = 2 as in the code, chain 5, safety         2 907 211 states
     Sync_faults2.cfg    repaired, chain <= 4, 1 source step, 2 faults, safety         2 523 682 states
     Sync_thorough.cfg   repaired, chain <= 4, 2 source steps, 1 fault, safety         8 628 206 states
     Sync_x_emptyroot.cfg  EXPECTED VIOLATION: state-root checks of Store skipped for blocks without diff entries
                         (EmptyDiff = {2}): StoredOnlyVerified fails, 15-step counterexample ("root" forgery of block 2
                         stored)                                                        ~1 900 states, 2 s
     Sync_x_memo.cfg     EXPECTED VIOLATION: verdict remembered by claimed hash: StoredOnlyVerified fails, 26-step
                         counterexample (block verified, dropped by the tip -> catch-up stream reset, fetched again,
                         answered with altered content under the honest header, stored)  ~49 000 states, 6 s
     (adding EmptyDiff / the forged kinds / memo / tainted left the distinct-state counts of the repaired
      configurations unchanged: the three forged kinds and the two kinds of corrupted copy lead to the same
      successor state while both mechanisms are in place)
     Sync_big.cfg        repaired, chain <= 4, 2 source steps, 2 faults, safety (optional; 10.5 M states before the
                         wrong-height / forged answers were added, not re-measured) *)
EXTENDS Sync
=============================================================================

------------------------------- MODULE MCSync -------------------------------
(* Model-checking instance of Sync.  Every bound of Sync is a scalar CONSTANT assigned in the
   Sync_*.cfg files (no function-valued constants, no VIEW, no CONSTRAINT: all bounds are action
   guards so that the liveness check cannot miss a non-progress cycle).

   Configurations (distinct states as measured with the class dimension; ClassA / ClassB / SierraSet per configuration
   so that the one reorg block re-declares, uses or never mentions a class, at the tip, below it and in a new genesis):
     Sync_quick.cfg      repaired, chain <= 3, 1 source step, 1 fault, safety + liveness        306 311 states
     Sync_restart.cfg    repaired, one stop/restart of the node, safety + liveness + RestartIsNoOp 145 092 states
     Sync_h13.cfg        as coded for H13: RevertsJustified fails (28-35 step counterexample) ~17 000 states
     Sync_rvv.cfg        as coded for the unverified remote header: RevertsJustified fails
     Sync_underflow.cfg  as coded for the uint64 underflow: EventuallyConverges fails (lasso)
     Sync_live4.cfg      repaired, chain <= 4, safety + liveness                         631 626 states
     Sync_fine.cfg       repaired, Fine = TRUE (the model the traces are validated against) 778 830 states
     Sync_lagw.cfg       repaired, Lag = W = 2 as in the code, chain 5, safety         3 906 467 states
     Sync_faults2.cfg    repaired, chain <= 4, 1 source step, 2 faults, safety         2 842 161 states
     Sync_thorough.cfg   repaired, chain <= 4, 2 source steps, 1 fault, safety        10 191 143 states
     Sync_x_emptyroot.cfg  EXPECTED VIOLATION: state-root checks of Store skipped for blocks without diff entries
                         (EmptyDiff = {2}): StoredOnlyVerified fails, 15-step counterexample ("root" forgery of block 2
                         stored)                                                        ~1 900 states, 2 s
     Sync_x_memo.cfg     EXPECTED VIOLATION: verdict remembered by claimed hash: StoredOnlyVerified fails, 26-step
                         counterexample (block verified, dropped by the tip -> catch-up stream reset, fetched again,
                         answered with altered content under the honest header, stored)  ~49 000 states, 6 s
     Sync_x_known.cfg    EXPECTED VIOLATION: the fetch layer remembers the class hashes it found in the local state
                         (RememberKnown): StoredClassesComplete fails, 43-step counterexample (class declared by block 2,
                         found in the state when block 3 is fetched, reorg below 2, block 2 reverted, block 4 - which
                         mentions the class - fetched without it and stored)             ~36 500 states, 11 s
     Sync_x_known_sierra.cfg  the same with a Sierra class: Store refuses block 4 for ever; EventuallyConverges fails
                         (lasso through Restart)                                        ~38 800 states, 24 s
     Sync_sim.cfg        behaviour generation for the recorder (SyncMBT.tla, -simulate): the code as it is, chain <= 7,
                         3 source steps, random class content per behaviour
     (EmptyDiff / the forged kinds / memo / tainted left the distinct-state counts of the repaired configurations
      unchanged; the class dimension adds 5-35 %: NewClasses of an answer depends on what the local state held when it
      was delivered)
     Sync_big.cfg        repaired, chain <= 4, 2 source steps, 2 faults, safety (optional; 10.5 M states before the
                         wrong-height / forged answers and classes were added, not re-measured) *)
EXTENDS Sync
=============================================================================

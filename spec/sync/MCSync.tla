------------------------------- MODULE MCSync -------------------------------
(* Model-checking instance of Sync.  Every bound of Sync is a scalar CONSTANT assigned in the
   Sync_*.cfg files (no function-valued constants, no VIEW, no CONSTRAINT: all bounds are action
   guards so that the liveness check cannot miss a non-progress cycle).

   Configurations (measured on this machine, 4-6 busy cores):
     Sync_quick.cfg      repaired, chain <= 3, 1 source step, 1 fault, safety + liveness 291 164 states
     Sync_restart.cfg    repaired, one stop/restart of the node, safety + liveness + RestartIsNoOp 135 421 states
     Sync_h13.cfg        as coded for H13: RevertsJustified fails (29-35 step counterexample) ~17 000 states
     Sync_rvv.cfg        as coded for the unverified remote header: RevertsJustified fails
     Sync_underflow.cfg  as coded for the uint64 underflow: EventuallyConverges fails (lasso)
     Sync_live4.cfg      repaired, chain <= 4, safety + liveness                       519 059 states
     Sync_fine.cfg       repaired, Fine = TRUE (the model the traces are validated against) 717 215 states
     Sync_lagw.cfg       repaired, Lag = W = 2 as in the code, chain 5, safety         2 907 211 states
     Sync_faults2.cfg    repaired, chain <= 4, 1 source step, 2 faults, safety         2 523 682 states
     Sync_thorough.cfg   repaired, chain <= 4, 2 source steps, 1 fault, safety         8 628 206 states
     Sync_big.cfg        repaired, chain <= 4, 2 source steps, 2 faults, safety (optional; 10.5 M states before the
                         wrong-height / forged answers were added, not re-measured) *)
EXTENDS Sync
=============================================================================

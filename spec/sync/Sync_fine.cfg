\* THOROUGH: the fine-grained model used for trace validation (apply / ack / post as separate steps), repaired, safety + liveness
CONSTANTS
  InitLen = 3
  MaxLen = 3
  MaxSrcSteps = 1
  MaxReorgs = 1
  MaxNew = 1
  W = 2
  WV = 2
  Lag = 0
  MaxFaults = 1
  MaxPolls = 1
  MaxRestarts = 0
  FixH13 = TRUE
  FixRevertVerify = TRUE
  FixUnderflow = TRUE
  Fine = TRUE
  EmptyDiff = {}
  RootCheckedOnEmptyDiff = TRUE
  VerdictPerAnswer = TRUE
  ClassA = {2, 4}
  ClassB = {3}
  SierraSet = {1}
  RememberKnown = FALSE
  Windows = FALSE
SPECIFICATION FairSpec
INVARIANTS TypeOK LocalIsSourceBlocks ReorgExact StoredOnlyVerified ClassesExact StoredClassesComplete KnownIsCurrent
PROPERTIES EventuallyConverges StoreSafe HeadMovesOnlyByStoreOrRevert RevertsJustified RevertsHaveEvidence NewClassesSufficient
CHECK_DEADLOCK TRUE

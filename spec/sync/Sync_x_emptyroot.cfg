\* EXPECTED VIOLATION (self-test of StoredOnlyVerified): the state-root checks of Store are skipped for blocks
\* whose state diff has no entry (block 2 here).  TLC must find a forged copy of block 2 ("root" or "oldroot"
\* forgery: header, hash and state update mutually consistent) in the database.
CONSTANTS
  InitLen = 3
  MaxLen = 3
  MaxSrcSteps = 0
  MaxReorgs = 0
  MaxNew = 1
  W = 2
  WV = 2
  Lag = 0
  MaxFaults = 1
  MaxPolls = 1
  MaxRestarts = 0
  FixH13 = TRUE
  FixRevertVerify = TRUE
  FixUnderflow = TRUE
  Fine = FALSE
  EmptyDiff = {2}
  RootCheckedOnEmptyDiff = FALSE
  VerdictPerAnswer = TRUE
  ClassA = {}
  ClassB = {}
  SierraSet = {}
  RememberKnown = FALSE
  Windows = FALSE
INIT Init
NEXT Next
INVARIANTS TypeOK LocalIsSourceBlocks ReorgExact StoredOnlyVerified
CHECK_DEADLOCK TRUE

\* repaired design (both switches TRUE): all safety properties, exhaustive
CONSTANTS
  MaxLen = 4
  MaxSrcSteps = 3
  MaxReorgs = 2
  MaxNew = 1
  W = 2
  WV = 2
  Lag = 1
  MaxFaults = 1
  MaxPolls = 1
  FixH13 = TRUE
  FixRevertVerify = TRUE
INIT Init
NEXT Next
INVARIANTS TypeOK LocalIsSourceBlocks ReorgExact
PROPERTIES StoreSafe HeadMovesOnlyByStoreOrRevert RevertsJustified RevertsHaveEvidence
CHECK_DEADLOCK TRUE

\* QUICK: repaired design (all switches TRUE): every safety property and convergence under per-action weak
\* fairness with a budgeted environment; no CONSTRAINT (bounds are action guards).
\* Measured: 291 164 distinct states, depth 67, ~30 s on 4 busy cores.
CONSTANTS
  InitLen = 3
  MaxLen = 3
  MaxSrcSteps = 1
  MaxReorgs = 1
  MaxNew = 1
  W = 2
  WV = 2
  Lag = 0
  MaxFaults = 1
  MaxPolls = 1
  MaxRestarts = 0
  FixH13 = TRUE
  FixRevertVerify = TRUE
  FixUnderflow = TRUE
  Fine = FALSE
  EmptyDiff = {2, 4}
  RootCheckedOnEmptyDiff = TRUE
  VerdictPerAnswer = TRUE
SPECIFICATION FairSpec
INVARIANTS TypeOK LocalIsSourceBlocks ReorgExact StoredOnlyVerified
PROPERTIES EventuallyConverges StoreSafe HeadMovesOnlyByStoreOrRevert RevertsJustified RevertsHaveEvidence
CHECK_DEADLOCK TRUE

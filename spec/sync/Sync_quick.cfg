\* QUICK: repaired design (all switches TRUE): every safety property and convergence under per-action weak
\* fairness with a budgeted environment; no CONSTRAINT (bounds are action guards).
\* Measured: 306 311 distinct states, depth 67 (291 164 and ~30 s on 4 busy cores before the class dimension).
CONSTANTS
  InitLen = 3
  MaxLen = 3
  MaxSrcSteps = 1
  MaxReorgs = 1
  MaxNew = 1
  W = 2
  WV = 2
  Lag = 0
  MaxFaults = 1
  MaxPolls = 1
  MaxRestarts = 0
  FixH13 = TRUE
  FixRevertVerify = TRUE
  FixUnderflow = TRUE
  Fine = FALSE
  EmptyDiff = {}
  RootCheckedOnEmptyDiff = TRUE
  VerdictPerAnswer = TRUE
  ClassA = {2, 4}
  ClassB = {3, 4}
  SierraSet = {2}
  RememberKnown = FALSE
  Windows = FALSE
SPECIFICATION FairSpec
INVARIANTS TypeOK LocalIsSourceBlocks ReorgExact StoredOnlyVerified ClassesExact StoredClassesComplete KnownIsCurrent
PROPERTIES EventuallyConverges StoreSafe HeadMovesOnlyByStoreOrRevert RevertsJustified RevertsHaveEvidence NewClassesSufficient
CHECK_DEADLOCK TRUE

\* THOROUGH: repaired design, chain <= 4, 2 source steps (<= 2 reorgs), 1 fault, safety.
\* Measured: 8 628 206 distinct / 33 047 000 generated states, depth 85, ~4.5 min on 6 cores
CONSTANTS
  InitLen = 3
  MaxLen = 4
  MaxSrcSteps = 2
  MaxReorgs = 2
  MaxNew = 1
  W = 2
  WV = 2
  Lag = 0
  MaxFaults = 1
  MaxPolls = 1
  MaxRestarts = 0
  FixH13 = TRUE
  FixRevertVerify = TRUE
  FixUnderflow = TRUE
  Fine = FALSE
  EmptyDiff = {2, 4}
  RootCheckedOnEmptyDiff = TRUE
  VerdictPerAnswer = TRUE
INIT Init
NEXT Next
INVARIANTS TypeOK LocalIsSourceBlocks ReorgExact StoredOnlyVerified
PROPERTIES StoreSafe HeadMovesOnlyByStoreOrRevert RevertsJustified RevertsHaveEvidence
CHECK_DEADLOCK TRUE

\* THOROUGH: repaired design, chain <= 4, 2 source steps (<= 2 reorgs), 1 fault, safety.
\* Measured: 10 191 143 distinct / 39 338 206 generated states (8 628 206 / 33 047 000, depth 85, ~4.5 min on 6 cores before the class dimension)
CONSTANTS
  InitLen = 3
  MaxLen = 4
  MaxSrcSteps = 2
  MaxReorgs = 2
  MaxNew = 1
  W = 2
  WV = 2
  Lag = 0
  MaxFaults = 1
  MaxPolls = 1
  MaxRestarts = 0
  FixH13 = TRUE
  FixRevertVerify = TRUE
  FixUnderflow = TRUE
  Fine = FALSE
  EmptyDiff = {}
  RootCheckedOnEmptyDiff = TRUE
  VerdictPerAnswer = TRUE
  ClassA = {2, 4, 5}
  ClassB = {3, 5}
  SierraSet = {2}
  RememberKnown = FALSE
  Windows = FALSE
INIT Init
NEXT Next
INVARIANTS TypeOK LocalIsSourceBlocks ReorgExact StoredOnlyVerified ClassesExact StoredClassesComplete KnownIsCurrent
PROPERTIES StoreSafe HeadMovesOnlyByStoreOrRevert RevertsJustified RevertsHaveEvidence NewClassesSufficient
CHECK_DEADLOCK TRUE

\* repaired design with ONE STOP / RESTART of the node on the same database at any moment (no other fault):
\* safety and convergence; RestartIsNoOp: the chain is untouched by stop and restart.
CONSTANTS
  InitLen = 3
  MaxLen = 3
  MaxSrcSteps = 1
  MaxReorgs = 1
  MaxNew = 1
  W = 2
  WV = 2
  Lag = 0
  MaxFaults = 0
  MaxPolls = 1
  MaxRestarts = 1
  FixH13 = TRUE
  FixRevertVerify = TRUE
  FixUnderflow = TRUE
  Fine = FALSE
  EmptyDiff = {2, 4}
  RootCheckedOnEmptyDiff = TRUE
  VerdictPerAnswer = TRUE
SPECIFICATION FairSpec
INVARIANTS TypeOK LocalIsSourceBlocks ReorgExact StoredOnlyVerified
PROPERTIES RestartIsNoOp EventuallyConverges StoreSafe HeadMovesOnlyByStoreOrRevert RevertsJustified RevertsHaveEvidence
CHECK_DEADLOCK TRUE

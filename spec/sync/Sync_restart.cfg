\* repaired design with ONE STOP / RESTART of the node on the same database at any moment (no other fault):
\* safety and convergence; RestartIsNoOp: the chain is untouched by stop and restart.
CONSTANTS
  InitLen = 3
  MaxLen = 3
  MaxSrcSteps = 1
  MaxReorgs = 1
  MaxNew = 1
  W = 2
  WV = 2
  Lag = 0
  MaxFaults = 0
  MaxPolls = 1
  MaxRestarts = 1
  FixH13 = TRUE
  FixRevertVerify = TRUE
  FixUnderflow = TRUE
  Fine = FALSE
  EmptyDiff = {}
  RootCheckedOnEmptyDiff = TRUE
  VerdictPerAnswer = TRUE
  ClassA = {2, 3, 4}
  ClassB = {2}
  SierraSet = {2}
  RememberKnown = FALSE
  Windows = FALSE
SPECIFICATION FairSpec
INVARIANTS TypeOK LocalIsSourceBlocks ReorgExact StoredOnlyVerified ClassesExact StoredClassesComplete KnownIsCurrent
PROPERTIES RestartIsNoOp EventuallyConverges StoreSafe HeadMovesOnlyByStoreOrRevert RevertsJustified RevertsHaveEvidence NewClassesSufficient
CHECK_DEADLOCK TRUE

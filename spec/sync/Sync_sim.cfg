\* behaviour generation (tlc -simulate) for the recorder: the model of the code AS IT IS, chains up to 7 blocks,
\* up to 3 source steps (2 reorgs of any depth, up to 3 fresh blocks each), 2 faults, random class content per
\* behaviour (3 classes over 12 tags)
CONSTANTS
  InitLen = 4
  MaxLen = 7
  MaxSrcSteps = 3
  MaxReorgs = 2
  MaxNew = 3
  W = 2
  WV = 2
  Lag = 2
  MaxFaults = 2
  MaxPolls = 1
  MaxRestarts = 0
  FixH13 = FALSE
  FixRevertVerify = FALSE
  FixUnderflow = FALSE
  Fine = FALSE
  EmptyDiff = {}
  RootCheckedOnEmptyDiff = TRUE
  VerdictPerAnswer = TRUE
  ClassA = {}
  ClassB = {}
  SierraSet = {}
  RememberKnown = FALSE
  Windows = FALSE
  MaxSteps = 260
  MaxTag = 13
  NClasses = 3
INIT MBTInit
NEXT MBTNext
CHECK_DEADLOCK FALSE

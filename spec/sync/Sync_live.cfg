\* liveness of the repaired design under per-action weak fairness and a budgeted environment;
\* no CONSTRAINT (all bounds are action guards), so no non-progress cycle is hidden
CONSTANTS
  InitLen = 3
  MaxLen = 4
  MaxSrcSteps = 1
  MaxReorgs = 1
  MaxNew = 1
  W = 2
  WV = 2
  Lag = 0
  MaxFaults = 1
  MaxPolls = 1
  FixH13 = TRUE
  FixRevertVerify = TRUE
  FixUnderflow = TRUE
SPECIFICATION FairSpec
PROPERTIES EventuallyConverges
CHECK_DEADLOCK TRUE

\* EXPECTED VIOLATION (self-test of StoredOnlyVerified): the verifier's verdict is remembered under the CLAIMED
\* block hash and reused for a later answer claiming the same hash.  TLC must find the history: a block is
\* fetched and verified honestly, dropped by a stream reset before it is stored, fetched again and answered with
\* altered content under the honest header -> stored.
CONSTANTS
  InitLen = 2
  MaxLen = 3
  MaxSrcSteps = 1
  MaxReorgs = 0
  MaxNew = 1
  W = 2
  WV = 2
  Lag = 0
  MaxFaults = 1
  MaxPolls = 1
  MaxRestarts = 0
  FixH13 = TRUE
  FixRevertVerify = TRUE
  FixUnderflow = TRUE
  Fine = FALSE
  EmptyDiff = {}
  RootCheckedOnEmptyDiff = TRUE
  VerdictPerAnswer = FALSE
  ClassA = {}
  ClassB = {}
  SierraSet = {}
  RememberKnown = FALSE
  Windows = FALSE
INIT Init
NEXT Next
INVARIANTS TypeOK LocalIsSourceBlocks ReorgExact StoredOnlyVerified
CHECK_DEADLOCK TRUE

\* liveness under fairness (repaired), sending side: published unless cancelled / closed, loop and callers stop, a re-send happens
CONSTANTS BMsgs <- B2 EMsgs <- E0 Key <- KeyA Class <- ClassA
  NCallers = 1 QCap = 1 SubCap = 1 OutCap = 1
  WithBroadcaster = TRUE WithListener = FALSE WithRebro = TRUE
  Timed = FALSE InitI = 1 RetryI = 2 RebI = 3 MaxTime = 0 MaxTicks = 1
  MaxFail = 1 AllowClose = TRUE AllowDeadline = TRUE AllowCancel = TRUE NetFIFO = TRUE
  FixCtx = TRUE Mut = "none"
SPECIFICATION FairSpec
INVARIANTS TypeOK
PROPERTIES EventuallyPublished LoopsStop RebroHappens
CHECK_DEADLOCK FALSE

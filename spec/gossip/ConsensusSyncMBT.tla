-------------------------- MODULE ConsensusSyncMBT --------------------------
(* Behaviour generation for the replay of ConsensusSync.tla on the REAL driver, state machine,
   MessageExtractor, proposal store, commit listener and BlockFetcher (inside a testing/synctest
   bubble; the peers are real p2p/server instances behind an in-memory host).  The harness acts when
   everything is blocked; what the driver and the fetch goroutines do by themselves (sending a
   body, taking it, committing, starting the next fetch) has priority and is not recorded.
     Quorum H     precommits of a quorum of validators for height H are delivered
     Other e      a prevote is delivered: a fresh one of the current height (e = "other": its
                  actions write the log) or one of a past height (e = "none": no actions)
     Decide       the proposal and a quorum of precommits of the current height are delivered
     Fetch i o    the i-th fetch that waits for its peer ends with outcome o:
                  block | err (no peer reachable) | empty (the peer does not have the block) |
                  fork (the peer serves another block of that height; ends the behaviour)
   Recorded: the action and the quiescent projection BEFORE it; the last entry carries the final
   projection. *)
EXTENDS ConsensusSync, Json

CONSTANT MaxSteps
VARIABLES hist, steps, act, forked

R(S) == {RandomElement(S)}
Auto == (\E f \in fetches : FetchPush(f)) \/ DriverRecv
Quiescent == ~ENABLED Auto

Running == {f \in fetches : f.st = "run"}
RunSeq == LET ids == {f.id : f \in Running}
              ord[i \in 1..Cardinality(ids)] == CHOOSE k \in ids : Cardinality({j \in ids : j < k}) = i - 1
          IN [i \in 1..Cardinality(ids) |-> (CHOOSE f \in Running : f.id = ord[i])]
Proj == [h |-> h, lts |-> lts, lqs |-> lqS, lqd |-> lqD, parked |-> [i \in DOMAIN RunSeq |-> RunSeq[i].x],
         commits |-> commits, dup |-> dup, chan |-> Len(chan)]

Harness ==
  \/ h < MaxQ /\ \E H \in R((h + 1)..MaxQ) : FutureQuorum(H) /\ act' = [name |-> "Quorum", n |-> H, i |-> 0, o |-> "-"] /\ UNCHANGED forked
  \/ \E e \in R({"other", "other", "none"}) : Other(e) /\ act' = [name |-> "Other", n |-> 0, i |-> 0, o |-> e] /\ UNCHANGED forked
  \/ Decide /\ act' = [name |-> "Decide", n |-> h, i |-> 0, o |-> "-"] /\ UNCHANGED forked
  \/ \E k \in 1..2 : RunSeq # <<>> /\ \E i \in R(DOMAIN RunSeq) : \E o \in R({"block", "block", "block", "err", "err", "empty", "fork"}) :
        /\ CASE o = "block" -> FetchBlock(RunSeq[i], Canon(RunSeq[i].x))
             [] o = "fork"  -> AllowFork /\ RunSeq[i].x = h /\ RunSeq[i].x >= 1 /\ FetchBlock(RunSeq[i], Fork(RunSeq[i].x))
             [] o = "err"   -> FetchErr(RunSeq[i])
             [] o = "empty" -> FetchEmpty(RunSeq[i])
        /\ forked' = (forked \/ o = "fork")
        /\ act' = [name |-> "Fetch", n |-> RunSeq[i].x, i |-> i, o |-> o]

MBTInit == Init /\ hist = <<>> /\ steps = 0 /\ act = [name |-> "Init"] /\ forked = FALSE

Emit ==
  /\ PrintT(ToJson(Append(hist, [a |-> [name |-> "End", n |-> 0, i |-> 0, o |-> "-"], pre |-> Proj])))
  /\ h' = H0 /\ lts' = 0 /\ lqS' = 0 /\ lqD' = 0 /\ fetches' = {} /\ chan' = <<>> /\ lastActs' = "start" /\ dup' = 0
  /\ commits' = <<>> /\ spawned' = <<>> /\ quorums' = {} /\ nerr' = 0 /\ nempty' = 0 /\ nother' = 0 /\ nid' = 0 /\ cancelled' = FALSE
  /\ hist' = <<>> /\ steps' = 0 /\ act' = [name |-> "Init"] /\ forked' = FALSE

MBTNext ==
  IF ~Quiescent THEN Auto /\ UNCHANGED <<hist, steps, act, forked>>
  ELSE IF steps >= MaxSteps \/ forked \/ ~ENABLED Harness THEN Emit
  ELSE Harness /\ steps' = steps + 1 /\ hist' = Append(hist, [a |-> act', pre |-> Proj])
=============================================================================

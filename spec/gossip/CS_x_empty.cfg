\* EXPECTED VIOLATION CatchUp (temporal): as coded a fetch that ends without a body is never retried
CONSTANTS H0 = 1 MaxH = 2 MaxQ = 3 MaxErr = 0 MaxEmpty = 1 MaxOther = 0 MaxFetches = 5
  AllowDecide = FALSE AllowFork = FALSE StaleFix = TRUE RetryEmptyFix = FALSE Mut = "none"
SPECIFICATION FairSpec
PROPERTIES CatchUp
CHECK_DEADLOCK FALSE

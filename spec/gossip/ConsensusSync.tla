--------------------------- MODULE ConsensusSync ---------------------------
(* G13 — the consensus catch-up path as it is coded:
     consensus/tendermint/process.go   ProcessPrecommit: hasFuturePrecommitQuorum -> triggerSync
                                       ProcessSync(proposal, precommits)
     consensus/driver/driver.go        triggerSync, syncCurrentHeight, hasFutureQuorum, the
                                       syncListener branch of listen (capacity-1 channel)
     consensus/sync/sync.go            MessageExtractor.Extract: a fetched block becomes a proposal of
                                       its sequencer (round = the first round that sequencer proposes)
                                       plus ONE precommit of the placeholder sender that carries the
                                       whole voting power (consensus/mock.go)
     p2p/sync BlockFetcher.ProcessBlock(ctx, height, out) as the environment (examined by G10).

   WHAT THE CODE DOES.  A precommit that completes a quorum at a height H above the current one
   (and above lastTriggerSync) makes the state machine return TriggerSync{.., End = lastQuorum}.
   The driver keeps lastQuorum = max of the Ends; it starts ONE fetch of the CURRENT height when
   it had no future quorum before; after every commit (by consensus or by sync) and after every
   error body it starts a fetch of the current height while lastQuorum > height.  A fetch ends in
   one of four ways: a block body is sent on syncListener; an error body is sent (adapt / sanity
   failure); ProcessBlock returns an error, which the driver's goroutine turns into an error body;
   or ProcessBlock returns nil having sent NOTHING (the peer does not have the block).  A block
   body for the current height is committed at once — no vote is looked at: the placeholder
   precommit is a quorum by itself —, one for a lower height is ignored.  The catch-up stops when
   height >= lastQuorum.

   SWITCHES (FALSE = as coded).
     StaleFix      the error-body branch leaves the loop variable `actions` untouched, so the
                   actions of the PREVIOUS event are executed a second time (log entries, broadcasts,
                   timers); TRUE: nothing is executed for an error body.
     RetryEmptyFix a fetch that ends without a body and without an error is never retried — the
                   node waits for ever (no later quorum starts a fetch either: it "has a future
                   quorum" already); TRUE: such a fetch is treated like a failed one.
   DESIGN LIMITS (expected violations): the committed block need not be the one the quorum voted
   for (SyncedIsCanonical); fetches of one height can overlap (NoDuplicateFetch).              *)
EXTENDS Integers, Sequences, FiniteSets, TLC

CONSTANTS H0,          \* height the node starts at
          MaxH,        \* the network has decided heights up to MaxH (peers can serve them)
          MaxQ,        \* highest height a future quorum is announced for (<= MaxH + 1)
          MaxErr, MaxEmpty, MaxOther, MaxFetches,
          AllowDecide, \* the current height can also be decided by consensus messages
          AllowFork,   \* a peer may serve a block of another fork
          StaleFix, RetryEmptyFix, Mut

VARIABLES h, lts, lqS,     \* state machine: height, lastTriggerSync, lastQuorum
          lqD,             \* driver: lastQuorum
          fetches,         \* in-flight fetch goroutines: [id, x, st : "run" | "push", body]
          chan,            \* syncListener (capacity 1)
          lastActs,        \* what the loop variable `actions` holds: "start" | "other" | "sync" | "none"
          dup,             \* stale executions of effects
          commits, spawned, quorums, nerr, nempty, nother, nid, cancelled
vars == <<h, lts, lqS, lqD, fetches, chan, lastActs, dup, commits, spawned, quorums, nerr, nempty, nother, nid, cancelled>>

Max2(a, b) == IF a > b THEN a ELSE b
Canon(x) == x              \* id of the decided block of height x
Fork(x) == x + 100         \* id of a block of another fork at height x

Init == /\ h = H0 /\ lts = 0 /\ lqS = 0 /\ lqD = 0 /\ fetches = {} /\ chan = <<>> /\ lastActs = "start" /\ dup = 0
        /\ commits = <<>> /\ spawned = <<>> /\ quorums = {} /\ nerr = 0 /\ nempty = 0 /\ nother = 0 /\ nid = 0 /\ cancelled = FALSE

(* driver.syncCurrentHeight with the state machine at height hh and the driver's lastQuorum lq *)
SpawnIf(hh, lq, fs) ==
  IF lq > hh /\ nid < MaxFetches /\ Mut # "nospawn"
  THEN /\ fetches' = fs \cup {[id |-> nid + 1, x |-> (IF Mut = "fetchnext" THEN hh + 1 ELSE hh), st |-> "run", body |-> [k |-> "none", x |-> 0, b |-> 0]]}
       /\ spawned' = Append(spawned, [x |-> (IF Mut = "fetchnext" THEN hh + 1 ELSE hh), atH |-> hh, lq |-> lq])
       /\ nid' = nid + 1
  ELSE fetches' = fs /\ UNCHANGED <<spawned, nid>>

(* a precommit completes a quorum at height H above the current one *)
FutureQuorum(H) ==
  /\ ~cancelled /\ H > h /\ H <= MaxQ /\ H > lts
  /\ lqS' = Max2(lqS, H) /\ lts' = Max2(lqS, H) /\ quorums' = quorums \cup {H}
  /\ lqD' = Max2(lqD, Max2(lqS, H))
  /\ IF lqD > h /\ Mut # "alwaysspawn" THEN UNCHANGED <<fetches, spawned, nid>> ELSE SpawnIf(h, lqD', fetches)
  /\ lastActs' = "sync"
  /\ UNCHANGED <<h, chan, dup, commits, nerr, nempty, nother, cancelled>>

(* any other consensus message: its actions have effects ("other") or there are none *)
Other(e) ==
  /\ ~cancelled /\ nother < MaxOther /\ nother' = nother + 1 /\ lastActs' = e
  /\ UNCHANGED <<h, lts, lqS, lqD, fetches, chan, dup, commits, spawned, quorums, nerr, nempty, nid, cancelled>>

(* the current height is decided by consensus messages; then syncCurrentHeight, then ProcessStart *)
Decide ==
  /\ ~cancelled /\ AllowDecide /\ h <= MaxH
  /\ commits' = Append(commits, [x |-> h, via |-> "consensus", b |-> Canon(h)]) /\ h' = h + 1
  /\ SpawnIf(h + 1, lqD, fetches) /\ lastActs' = "start"
  /\ UNCHANGED <<lts, lqS, lqD, chan, dup, quorums, nerr, nempty, nother, cancelled>>

(* BlockFetcher.ProcessBlock ends *)
FetchBlock(f, b) ==
  /\ f \in fetches /\ f.st = "run" /\ f.x <= MaxH /\ (b = Canon(f.x) \/ (AllowFork /\ b = Fork(f.x)))
  /\ fetches' = (fetches \ {f}) \cup {[f EXCEPT !.st = "push", !.body = [k |-> "block", x |-> f.x, b |-> b]]}
  /\ UNCHANGED <<h, lts, lqS, lqD, chan, lastActs, dup, commits, spawned, quorums, nerr, nempty, nother, nid, cancelled>>
FetchErr(f) ==
  /\ f \in fetches /\ f.st = "run" /\ nerr < MaxErr /\ nerr' = nerr + 1
  /\ fetches' = (fetches \ {f}) \cup {[f EXCEPT !.st = "push", !.body = [k |-> "err", x |-> f.x, b |-> 0]]}
  /\ UNCHANGED <<h, lts, lqS, lqD, chan, lastActs, dup, commits, spawned, quorums, nempty, nother, nid, cancelled>>
FetchEmpty(f) ==
  /\ f \in fetches /\ f.st = "run" /\ nempty < MaxEmpty /\ nempty' = nempty + 1
  /\ IF RetryEmptyFix
     THEN fetches' = (fetches \ {f}) \cup {[f EXCEPT !.st = "push", !.body = [k |-> "err", x |-> f.x, b |-> 0]]}
     ELSE fetches' = fetches \ {f}
  /\ UNCHANGED <<h, lts, lqS, lqD, chan, lastActs, dup, commits, spawned, quorums, nerr, nother, nid, cancelled>>
FetchPush(f) ==
  /\ f \in fetches /\ f.st = "push" /\ chan = <<>> /\ ~cancelled
  /\ chan' = <<f.body>> /\ fetches' = fetches \ {f}
  /\ UNCHANGED <<h, lts, lqS, lqD, lastActs, dup, commits, spawned, quorums, nerr, nempty, nother, nid, cancelled>>
FetchQuit(f) ==
  /\ f \in fetches /\ cancelled /\ fetches' = fetches \ {f}
  /\ UNCHANGED <<h, lts, lqS, lqD, chan, lastActs, dup, commits, spawned, quorums, nerr, nempty, nother, nid, cancelled>>

(* the driver's loop takes a body from syncListener *)
DriverRecv ==
  /\ ~cancelled /\ chan # <<>> /\ chan' = <<>>
  /\ LET body == chan[1] IN
     IF body.k = "err"
     THEN /\ SpawnIf(h, lqD, fetches)
          /\ dup' = IF ~StaleFix /\ lastActs \in {"start", "other"} THEN dup + 1 ELSE dup
          /\ lastActs' = IF StaleFix THEN "none" ELSE lastActs
          /\ UNCHANGED <<h, commits>>
     ELSE IF body.x = h \/ Mut = "anyheight"
          THEN /\ commits' = Append(commits, [x |-> h, via |-> "sync", b |-> body.b]) /\ h' = h + 1
               /\ SpawnIf(h + 1, lqD, fetches) /\ lastActs' = "start" /\ UNCHANGED dup
          ELSE /\ lastActs' = "none" /\ UNCHANGED <<h, commits, fetches, spawned, nid, dup>>
  /\ UNCHANGED <<lts, lqS, lqD, quorums, nerr, nempty, nother, cancelled>>

Cancel == /\ ~cancelled /\ cancelled' = TRUE
          /\ UNCHANGED <<h, lts, lqS, lqD, fetches, chan, lastActs, dup, commits, spawned, quorums, nerr, nempty, nother, nid>>

FetchStep == \E f \in fetches : FetchErr(f) \/ FetchEmpty(f) \/ FetchPush(f) \/ FetchQuit(f) \/ \E b \in {Canon(f.x), Fork(f.x)} : FetchBlock(f, b)
Next == (\E H \in (H0 + 1)..MaxQ : FutureQuorum(H)) \/ (\E e \in {"other", "none"} : Other(e)) \/ Decide \/ FetchStep \/ DriverRecv \/ Cancel
Spec == Init /\ [][Next]_vars
FairSpec == Spec /\ WF_vars(DriverRecv) /\ \A i \in 1..MaxFetches :
              /\ WF_vars(\E f \in fetches : f.id = i /\ (FetchPush(f) \/ FetchQuit(f)))
              /\ WF_vars(\E f \in fetches : f.id = i /\ (FetchErr(f) \/ FetchEmpty(f) \/ FetchBlock(f, Canon(f.x))))
              /\ SF_vars(\E f \in fetches : f.id = i /\ FetchBlock(f, Canon(f.x)))

--------------------------------------------------------------------------
TypeOK == /\ h \in H0..(MaxH + 2) /\ lqD \in 0..(MaxH + 1) /\ Len(chan) <= 1 /\ dup \in Nat
          /\ lastActs \in {"start", "other", "sync", "none"}
(* blocks are committed once per height, in height order *)
CommitsInOrder == /\ h = H0 + Len(commits) /\ \A i \in DOMAIN commits : commits[i].x = H0 + i - 1
(* a block is committed through the catch-up path only below a height for which a precommit
   quorum was seen *)
SyncOnlyUnderQuorum == /\ lqD \in quorums \cup {0} /\ lqS = lqD /\ lts = lqS
                       /\ \A i \in DOMAIN commits : commits[i].via = "sync" => commits[i].x < lqD
(* a fetch is started for the current height only, and only while a future quorum is known:
   the catch-up stops when height >= lastQuorum *)
FetchOnlyCurrent == \A i \in DOMAIN spawned : spawned[i].x = spawned[i].atH /\ spawned[i].lq > spawned[i].x
(* nothing is executed twice *)
NoStaleReexecution == dup = 0
(* design limits *)
SyncedIsCanonical == \A i \in DOMAIN commits : commits[i].b = Canon(commits[i].x)
NoDuplicateFetch == \A f, g \in fetches : f.x = g.x => f = g
FetchesBounded == Cardinality(fetches) <= 2
(* LIVENESS: while the network is ahead and peers serve the blocks, the node reaches the height
   of the quorum it saw *)
CatchUp == (lqD > h) ~> (h >= lqD \/ cancelled)
=============================================================================

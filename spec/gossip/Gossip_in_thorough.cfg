\* receiving side, larger: five peer messages (two junk), subscription buffer 2, output channels 2
CONSTANTS BMsgs <- B2 EMsgs <- E5 Key <- KeyA Class <- ClassA
  NCallers = 1 QCap = 1 SubCap = 2 OutCap = 2
  WithBroadcaster = FALSE WithListener = TRUE WithRebro = FALSE
  Timed = FALSE InitI = 1 RetryI = 2 RebI = 3 MaxTime = 0 MaxTicks = 2
  MaxFail = 1 AllowClose = TRUE AllowDeadline = TRUE AllowCancel = TRUE NetFIFO = TRUE
  FixCtx = TRUE Mut = "none"
INIT Init
NEXT Next
INVARIANTS TypeOK Bounded InOrderExactlyOnce TypedRouting JunkCounted Conservation NoHotSpin
PROPERTIES DropOnlyWhenFull DoneIsFinal
CHECK_DEADLOCK FALSE

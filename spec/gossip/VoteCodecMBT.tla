---------------------------- MODULE VoteCodecMBT ----------------------------
(* Outcome-table export of VoteCodec.tla for the replay on the real converters: one JSON line
   per row: (i) every wire form with ToVote's outcome and the listener's decision and (ii) every
   in-memory vote x type with FromVote's wire form. *)
EXTENDS VoteCodec, Json

WireRow(w) == [row |-> "wire", strict |-> Strict, w |-> w, out |-> ToVote(w), wout |-> ToVoteWire(w), listen |-> Listener(w)]
EncRow(v, t) == [row |-> "enc", strict |-> Strict, v |-> v, t |-> t, w |-> FromVote(v, t)]

MBTInit == case = [k |-> "start"]
MBTNext == case.k = "start" /\ case' = [k |-> "done"] /\ (\A w \in Wires : PrintT(ToJson(WireRow(w)))) /\ (\A v \in Votes, t \in {"pv", "pc"} : PrintT(ToJson(EncRow(v, t))))
=============================================================================

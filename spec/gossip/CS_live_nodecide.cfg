\* catch-up, repaired: by the catch-up path alone
CONSTANTS H0 = 1 MaxH = 3 MaxQ = 4 MaxErr = 1 MaxEmpty = 1 MaxOther = 0 MaxFetches = 6
  AllowDecide = FALSE AllowFork = FALSE StaleFix = TRUE RetryEmptyFix = TRUE Mut = "none"
SPECIFICATION FairSpec
INVARIANTS TypeOK
PROPERTIES CatchUp
CHECK_DEADLOCK FALSE

\* behaviour generation for the replay (the check rewrites QCap / SubCap / OutCap / WithRebro / NCallers)
CONSTANTS BMsgs <- BT EMsgs <- ET Key <- KeyT Class <- ClassT
  NCallers = 2 QCap = 1 SubCap = 2 OutCap = 1
  WithBroadcaster = TRUE WithListener = TRUE WithRebro = TRUE
  Timed = TRUE InitI = 2 RetryI = 2 RebI = 3 MaxTime = 100000 MaxTicks = 100000
  MaxFail = 100000 AllowClose = TRUE AllowDeadline = FALSE AllowCancel = TRUE NetFIFO = TRUE
  FixCtx = TRUE Mut = "none" MaxSteps = 45
INIT MBTInit
NEXT MBTNext
CHECK_DEADLOCK FALSE

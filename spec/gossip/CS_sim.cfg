\* behaviour generation for the replay (the check rewrites StaleFix / RetryEmptyFix)
CONSTANTS H0 = 1 MaxH = 6 MaxQ = 7 MaxErr = 1000 MaxEmpty = 1000 MaxOther = 1000 MaxFetches = 1000
  AllowDecide = TRUE AllowFork = TRUE StaleFix = FALSE RetryEmptyFix = FALSE Mut = "none" MaxSteps = 24
INIT MBTInit
NEXT MBTNext
CHECK_DEADLOCK FALSE

\* sending side, timed, larger: 4 messages, channel of 2, two callers, two failing attempts
CONSTANTS BMsgs <- B4 EMsgs <- E0 Key <- KeyA Class <- ClassA
  NCallers = 2 QCap = 2 SubCap = 1 OutCap = 1
  WithBroadcaster = TRUE WithListener = FALSE WithRebro = TRUE
  Timed = TRUE InitI = 1 RetryI = 2 RebI = 3 MaxTime = 9 MaxTicks = 2
  MaxFail = 2 AllowClose = FALSE AllowDeadline = FALSE AllowCancel = TRUE NetFIFO = TRUE
  FixCtx = TRUE Mut = "none"
INIT Init
NEXT Next
INVARIANTS TypeOK Bounded NoSilentLoss FirstPubFIFO RebroBurstShape NoRebroWithoutStrategy
PROPERTIES AbortOnlyOnCtx RebroOnlyLatest RetryNotEarly RebroNotEarly DoneIsFinal
CHECK_DEADLOCK FALSE

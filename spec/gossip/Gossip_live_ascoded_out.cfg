\* liveness, the code as it is, sending side: contexts end by cancellation only and nothing is closed
CONSTANTS BMsgs <- B2 EMsgs <- E0 Key <- KeyA Class <- ClassA
  NCallers = 1 QCap = 1 SubCap = 1 OutCap = 1
  WithBroadcaster = TRUE WithListener = FALSE WithRebro = TRUE
  Timed = FALSE InitI = 1 RetryI = 2 RebI = 3 MaxTime = 0 MaxTicks = 1
  MaxFail = 1 AllowClose = FALSE AllowDeadline = FALSE AllowCancel = TRUE NetFIFO = TRUE
  FixCtx = FALSE Mut = "none"
SPECIFICATION FairSpec
INVARIANTS TypeOK
PROPERTIES EventuallyPublished LoopsStop RebroHappens
CHECK_DEADLOCK FALSE

\* sending side, timed: 3 messages (two of height 1, one of height 2), channel of 1, two callers, rebroadcast, a failing attempt, cancel
CONSTANTS BMsgs <- B3 EMsgs <- E0 Key <- KeyA Class <- ClassA
  NCallers = 2 QCap = 1 SubCap = 1 OutCap = 1
  WithBroadcaster = TRUE WithListener = FALSE WithRebro = TRUE
  Timed = TRUE InitI = 1 RetryI = 2 RebI = 3 MaxTime = 8 MaxTicks = 2
  MaxFail = 1 AllowClose = FALSE AllowDeadline = FALSE AllowCancel = TRUE NetFIFO = TRUE
  FixCtx = TRUE Mut = "none"
INIT Init
NEXT Next
INVARIANTS TypeOK Bounded NoSilentLoss FirstPubFIFO RebroBurstShape NoRebroWithoutStrategy
PROPERTIES AbortOnlyOnCtx RebroOnlyLatest RetryNotEarly RebroNotEarly DoneIsFinal
CHECK_DEADLOCK FALSE

------------------------------- MODULE Gossip -------------------------------
(* G13 — the consensus gossip layer of juno as it is coded:
     consensus/p2p/buffered/proto_broadcaster.go   ProtoBroadcaster.Broadcast / Loop
     consensus/p2p/buffered/rebroadcast_strategy.go  rebroadcastStrategy.Receive
     consensus/p2p/buffered/topic_subscription.go  TopicSubscription.Loop
     consensus/p2p/vote/vote_broadcasters.go, vote_listeners.go   (typed wrappers, two output channels)
     consensus/p2p/p2p.go   (one broadcaster loop + one subscription loop per topic, one context)
   with libp2p-pubsub's Topic.Publish / Subscription.Next as the environment (their behaviour is
   transcribed from go-libp2p-pubsub v0.17.0 and confirmed by the replay on real pubsub objects).

   WHAT THE CODE DOES (read off the source; the only documentation is the Broadcaster interface comment
   "Broadcast will broadcast the message to the whole validator set. The function should not be blocking."):

   Broadcast(ctx, m)  select { <-ctx.Done: return ; ch <- m }.   ch has capacity QCap.  A full
        channel BLOCKS the caller (nothing is ever dropped); an ended context lets it return without
        enqueueing; with both possible Go picks either.
   Loop(ctx, topic)   sleeps 2 x GossipSubHeartbeatInitialDelay (not cancellable), then
        select { <-ctx.Done: return ; m := <-ch ; <-trigger }.
        m: marshal, then   for { err := Publish ; if err != nil && !errors.Is(err, context.Canceled)
        { sleep(retryInterval) ; continue } ; break }   — EVERY error except context.Canceled is retried
        for ever, the sleep is not cancellable, the context is not looked at inside the loop.  After the
        break (success OR context.Canceled) strategy.Receive(m) is called.
        trigger: every cached message is published once, errors are logged, never retried.
   Receive(m)         cache[key(m)] = bytes ; returns a NEW time.Tick(interval) and the cache's values:
        the period restarts at every first publication, the cache never shrinks.
   TopicSubscription.Loop   Subscribe(WithBufferSize(SubCap)); for { msg, err := Next(ctx);
        err: if errors.Is(err, context.Canceled) return, else log and continue ; callback(msg) }.
        pubsub drops a message for a subscription whose buffer is full (slow consumer).
   vote listeners     callback: unmarshal, ToVote; failure => dropped; Prevote / Precommit => blocking
        send on that kind's output channel (capacity OutCap) or ctx.Done.

   One action per step another goroutine (or the harness) can observe.  Time is explicit and
   discrete when Timed (timers are urgent: time does not pass a due timer); when ~Timed timers may
   fire at any moment (used for liveness and for trace validation, where time is not logged).

   SWITCHES.  FixCtx = FALSE is the code as it is: only context.Canceled ends the two loops — a
   context that ends with DeadlineExceeded or a closed topic make them retry / spin for ever.
   FixCtx = TRUE is the repair (both loops look at ctx.Err() and return).  (A subscription is never
   cancelled under its loop: pubsub does not close subscriptions when it shuts down, and only the
   loop itself holds the Subscription.)  Mut names a design mutant (vacuity guards).            *)
EXTENDS Integers, Sequences, FiniteSets, TLC

CONSTANTS
  BMsgs,        \* ids of the messages callers hand to Broadcast
  EMsgs,        \* ids of messages published by OTHER peers on the topic (listener side)
  Key,          \* [BMsgs -> Nat]  rebroadcast key (for votes: the height)
  Class,        \* [BMsgs \cup EMsgs -> {"pv", "pc", "junk"}]  what the vote listener sees
  NCallers, QCap, SubCap, OutCap,
  WithBroadcaster, WithListener, WithRebro,
  Timed, InitI, RetryI, RebI, MaxTime, MaxTicks,
  MaxFail,      \* failing publish attempts (transient errors) per behaviour
  AllowClose,   \* the topic may be closed under the broadcaster
  AllowDeadline,\* a context may end with DeadlineExceeded instead of Canceled
  AllowCancel,
  NetFIFO,      \* TRUE: one hop, settled between publications; FALSE: pubsub's parallel validation workers may reorder
  FixCtx, Mut

Callers == 1..NCallers
Kinds == {"pv", "pc"}
Msgs == BMsgs \cup EMsgs
Keys == {Key[m] : m \in BMsgs}
Range(s) == {s[i] : i \in DOMAIN s}
Last(s) == s[Len(s)]
NoDup(s) == \A i, j \in DOMAIN s : i # j => s[i] # s[j]
RECURSIVE IsSubseq(_, _)
IsSubseq(s, t) == IF s = <<>> THEN TRUE ELSE IF t = <<>> THEN FALSE
                  ELSE IF Head(s) = Head(t) THEN IsSubseq(Tail(s), Tail(t)) ELSE IsSubseq(s, Tail(t))
IsPrefix(s, t) == Len(s) <= Len(t) /\ s = SubSeq(t, 1, Len(s))
Perms(S) == {p \in [1..Cardinality(S) -> S] : \A i, j \in 1..Cardinality(S) : i # j => p[i] # p[j]}

VARIABLES
  \* ---- sending side
  cl,        \* [Callers -> [st : {"idle","send"}, m]]   a caller inside Broadcast
  handed,    \* messages a caller has started to broadcast
  res,       \* [BMsgs -> {"none","sent","aborted"}]  how Broadcast returned
  q,         \* the buffered channel b.ch
  bpc,       \* the Loop goroutine: "init" | "idle" | "pub" | "wait" | "rebro" | "done"
  cur,       \* the message whose first publication is under way (0: none)
  rl,        \* what is left of the current rebroadcast burst
  cache,     \* [Keys -> BMsgs \cup {0}]   rebroadcastStrategy.cache
  armed, tickAt, tickPending, ticks,   \* the time.Tick channel handed out by the last Receive
  wakeAt,    \* when the current time.Sleep ends
  now,
  ctxA,      \* "live" | "cancelled" | "deadline"
  topicClosed,
  fails,
  \* ---- histories of the sending side
  enq, deq, recv, pubs, lostc, failedAt, lastRecvAt, lastBurstAt,
  \* ---- the network and the receiving side
  net,       \* accepted publications on their way to the subscription
  envDone,   \* EMsgs already published
  subBuf,    \* the pubsub subscription's channel
  spc,       \* TopicSubscription.Loop: "next" | "cb" | "done"
  held,      \* the message the callback is trying to hand over (0: none)
  out,       \* [Kinds -> Seq]  the listeners' output channels
  ctxB, spun,
  \* ---- histories of the receiving side
  arr, drops, junked, got, lostB

svars == <<cl, handed, res, q, bpc, cur, rl, cache, armed, tickAt, tickPending, ticks, wakeAt, now, ctxA, topicClosed, fails,
           enq, deq, recv, pubs, lostc, failedAt, lastRecvAt, lastBurstAt>>
rvars == <<envDone, subBuf, spc, held, out, ctxB, spun, arr, drops, junked, got, lostB>>
vars == <<svars, net, rvars>>

Init ==
  /\ cl = [c \in Callers |-> [st |-> "idle", m |-> 0]] /\ handed = {} /\ res = [m \in BMsgs |-> "none"]
  /\ q = <<>> /\ bpc = (IF WithBroadcaster THEN "init" ELSE "done") /\ cur = 0 /\ rl = <<>>
  /\ cache = [k \in Keys |-> 0] /\ armed = FALSE /\ tickAt = 0 /\ tickPending = FALSE /\ ticks = 0
  /\ wakeAt = InitI /\ now = 0 /\ ctxA = "live" /\ topicClosed = FALSE /\ fails = 0
  /\ enq = <<>> /\ deq = <<>> /\ recv = <<>> /\ pubs = <<>> /\ lostc = {} /\ failedAt = 0 /\ lastRecvAt = 0 /\ lastBurstAt = 0
  /\ net = <<>> /\ envDone = {} /\ subBuf = <<>>
  /\ spc = (IF WithListener THEN "next" ELSE "done") /\ held = 0
  /\ out = [k \in Kinds |-> <<>>] /\ ctxB = "live" /\ spun = FALSE
  /\ arr = <<>> /\ drops = <<>> /\ junked = 0 /\ got = [k \in Kinds |-> <<>>] /\ lostB = <<>>

(* back to the initial state (behaviour generation and trace validation concatenate runs) *)
ResetAll ==
  /\ cl' = [c \in Callers |-> [st |-> "idle", m |-> 0]] /\ handed' = {} /\ res' = [m \in BMsgs |-> "none"]
  /\ q' = <<>> /\ bpc' = (IF WithBroadcaster THEN "init" ELSE "done") /\ cur' = 0 /\ rl' = <<>>
  /\ cache' = [k \in Keys |-> 0] /\ armed' = FALSE /\ tickAt' = 0 /\ tickPending' = FALSE /\ ticks' = 0
  /\ wakeAt' = InitI /\ now' = 0 /\ ctxA' = "live" /\ topicClosed' = FALSE /\ fails' = 0
  /\ enq' = <<>> /\ deq' = <<>> /\ recv' = <<>> /\ pubs' = <<>> /\ lostc' = {} /\ failedAt' = 0 /\ lastRecvAt' = 0 /\ lastBurstAt' = 0
  /\ net' = <<>> /\ envDone' = {} /\ subBuf' = <<>>
  /\ spc' = (IF WithListener THEN "next" ELSE "done") /\ held' = 0
  /\ out' = [k \in Kinds |-> <<>>] /\ ctxB' = "live" /\ spun' = FALSE
  /\ arr' = <<>> /\ drops' = <<>> /\ junked' = 0 /\ got' = [k \in Kinds |-> <<>>] /\ lostB' = <<>>

Send(m) == IF WithListener THEN net' = Append(net, m) ELSE UNCHANGED net

--------------------------------------------------------------------------
(* Broadcast(ctx, m) *)
BStart(c, m) ==
  /\ WithBroadcaster /\ cl[c].st = "idle" /\ m \in BMsgs \ handed
  /\ cl' = [cl EXCEPT ![c] = [st |-> "send", m |-> m]] /\ handed' = handed \cup {m}
  /\ UNCHANGED <<res, q, bpc, cur, rl, cache, armed, tickAt, tickPending, ticks, wakeAt, now, ctxA, topicClosed, fails,
                 enq, deq, recv, pubs, lostc, failedAt, lastRecvAt, lastBurstAt, net, rvars>>

BEnqueue(c) ==
  /\ cl[c].st = "send" /\ Len(q) < QCap
  /\ q' = Append(q, cl[c].m) /\ enq' = Append(enq, cl[c].m)
  /\ res' = [res EXCEPT ![cl[c].m] = "sent"] /\ cl' = [cl EXCEPT ![c] = [st |-> "idle", m |-> 0]]
  /\ UNCHANGED <<handed, bpc, cur, rl, cache, armed, tickAt, tickPending, ticks, wakeAt, now, ctxA, topicClosed, fails,
                 deq, recv, pubs, lostc, failedAt, lastRecvAt, lastBurstAt, net, rvars>>

BAbort(c) ==
  /\ cl[c].st = "send" /\ ctxA # "live"
  /\ res' = [res EXCEPT ![cl[c].m] = "aborted"] /\ cl' = [cl EXCEPT ![c] = [st |-> "idle", m |-> 0]]
  /\ UNCHANGED <<handed, q, bpc, cur, rl, cache, armed, tickAt, tickPending, ticks, wakeAt, now, ctxA, topicClosed, fails,
                 enq, deq, recv, pubs, lostc, failedAt, lastRecvAt, lastBurstAt, net, rvars>>

(* mutant "dropfull": a non-blocking send — the caller is told nothing, the message is gone *)
BDrop(c) ==
  /\ Mut = "dropfull" /\ cl[c].st = "send" /\ Len(q) = QCap
  /\ res' = [res EXCEPT ![cl[c].m] = "sent"] /\ cl' = [cl EXCEPT ![c] = [st |-> "idle", m |-> 0]]
  /\ UNCHANGED <<handed, q, bpc, cur, rl, cache, armed, tickAt, tickPending, ticks, wakeAt, now, ctxA, topicClosed, fails,
                 enq, deq, recv, pubs, lostc, failedAt, lastRecvAt, lastBurstAt, net, rvars>>

--------------------------------------------------------------------------
(* ProtoBroadcaster.Loop *)
Due(t) == ~Timed \/ now = t

InitDone ==
  /\ bpc = "init" /\ Due(wakeAt) /\ bpc' = "idle"
  /\ UNCHANGED <<cl, handed, res, q, cur, rl, cache, armed, tickAt, tickPending, ticks, wakeAt, now, ctxA, topicClosed, fails,
                 enq, deq, recv, pubs, lostc, failedAt, lastRecvAt, lastBurstAt, net, rvars>>

LoopExit ==
  /\ bpc = "idle" /\ ctxA # "live" /\ bpc' = "done"
  /\ UNCHANGED <<cl, handed, res, q, cur, rl, cache, armed, tickAt, tickPending, ticks, wakeAt, now, ctxA, topicClosed, fails,
                 enq, deq, recv, pubs, lostc, failedAt, lastRecvAt, lastBurstAt, net, rvars>>

LoopTake ==
  /\ bpc = "idle" /\ q # <<>>
  /\ \E i \in (IF Mut = "reorder" THEN DOMAIN q ELSE {1}) :
       /\ cur' = q[i] /\ deq' = Append(deq, q[i])
       /\ q' = [j \in 1..(Len(q) - 1) |-> IF j < i THEN q[j] ELSE q[j + 1]]
  /\ bpc' = "pub"
  /\ UNCHANGED <<cl, handed, res, rl, cache, armed, tickAt, tickPending, ticks, wakeAt, now, ctxA, topicClosed, fails,
                 enq, recv, pubs, lostc, failedAt, lastRecvAt, lastBurstAt, net, rvars>>

(* rebroadcastStrategy.Receive *)
Receive(m) ==
  IF ~WithRebro THEN UNCHANGED <<cache, armed, tickAt, tickPending, recv, lastRecvAt, lastBurstAt>>
  ELSE /\ cache' = [cache EXCEPT ![Key[m]] = IF Mut = "keepfirst" /\ cache[Key[m]] # 0 THEN @ ELSE m]
       /\ recv' = Append(recv, m) /\ lastRecvAt' = now
       /\ armed' = TRUE
       /\ IF Mut = "noreset" /\ armed
          THEN UNCHANGED <<tickAt, tickPending>>
          ELSE tickAt' = now + RebI /\ tickPending' = FALSE
       /\ lastBurstAt' = IF armed THEN lastBurstAt ELSE now

NoReceive == UNCHANGED <<cache, armed, tickAt, tickPending, recv, lastRecvAt, lastBurstAt>>

PubOk ==
  /\ bpc = "pub" /\ ~topicClosed
  /\ pubs' = Append(pubs, [m |-> cur, k |-> "first"]) /\ Send(cur)
  /\ Receive(cur) /\ bpc' = "idle" /\ cur' = 0
  /\ UNCHANGED <<cl, handed, res, q, rl, ticks, wakeAt, now, ctxA, topicClosed, fails, enq, deq, lostc, failedAt, rvars>>

(* a failing attempt: a transient error (validation failure, full queue), or the closed topic *)
PubFail(why) ==
  /\ bpc = "pub"
  /\ \/ why = "err" /\ ~topicClosed /\ fails < MaxFail /\ fails' = fails + 1
     \/ why = "closed" /\ topicClosed /\ UNCHANGED fails
     \/ why = "deadline" /\ ~FixCtx /\ ctxA = "deadline" /\ UNCHANGED fails   \* as coded: DeadlineExceeded is "an error"
  /\ failedAt' = now
  /\ IF Mut = "noretry"
     THEN bpc' = "idle" /\ cur' = 0 /\ UNCHANGED wakeAt
     ELSE IF FixCtx /\ ctxA # "live"
          THEN bpc' = "done" /\ cur' = 0 /\ UNCHANGED wakeAt      \* repaired: the retry loop looks at the context
          ELSE bpc' = "wait" /\ wakeAt' = now + RetryI /\ UNCHANGED cur
  /\ lostc' = IF bpc' = "done" THEN lostc \cup {cur} ELSE lostc
  /\ NoReceive
  /\ UNCHANGED <<cl, handed, res, q, rl, ticks, now, ctxA, topicClosed, enq, deq, pubs, net, rvars>>

(* Publish returned the context's error *)
PubCtx ==
  /\ bpc = "pub" /\ ctxA # "live" /\ (ctxA = "cancelled" \/ FixCtx)
  /\ lostc' = lostc \cup {cur} /\ cur' = 0
  /\ IF FixCtx THEN bpc' = "done" /\ NoReceive
     ELSE bpc' = "idle" /\ Receive(cur)          \* as coded: break, Receive, back to the select
  /\ UNCHANGED <<cl, handed, res, q, rl, ticks, wakeAt, now, ctxA, topicClosed, fails, enq, deq, pubs, failedAt, net, rvars>>

RetryWake ==
  /\ bpc = "wait" /\ (Due(wakeAt) \/ Mut = "earlyretry")
  /\ IF FixCtx /\ ctxA # "live"
     THEN bpc' = "done" /\ lostc' = lostc \cup {cur} /\ cur' = 0     \* repaired: select on ctx.Done while waiting
     ELSE bpc' = "pub" /\ UNCHANGED <<lostc, cur>>
  /\ UNCHANGED <<cl, handed, res, q, rl, cache, armed, tickAt, tickPending, ticks, wakeAt, now, ctxA, topicClosed, fails,
                 enq, deq, recv, pubs, failedAt, lastRecvAt, lastBurstAt, net, rvars>>

(* repaired only: the wait is a select on ctx.Done *)
WaitAbort ==
  /\ FixCtx /\ bpc = "wait" /\ ctxA # "live"
  /\ bpc' = "done" /\ lostc' = lostc \cup {cur} /\ cur' = 0
  /\ UNCHANGED <<cl, handed, res, q, rl, cache, armed, tickAt, tickPending, ticks, wakeAt, now, ctxA, topicClosed, fails,
                 enq, deq, recv, pubs, failedAt, lastRecvAt, lastBurstAt, net, rvars>>

CacheVals == {cache[k] : k \in Keys} \ {0}
LoopTick ==
  /\ bpc = "idle" /\ tickPending /\ tickPending' = FALSE
  /\ \E p \in Perms(IF Mut = "rebroall" THEN Range(recv) ELSE CacheVals) : rl' = p
  /\ bpc' = "rebro" /\ lastBurstAt' = now
  /\ UNCHANGED <<cl, handed, res, q, cur, cache, armed, tickAt, ticks, wakeAt, now, ctxA, topicClosed, fails,
                 enq, deq, recv, pubs, lostc, failedAt, lastRecvAt, net, rvars>>

RebroEnd(o) ==
  /\ bpc = "rebro" /\ rl # <<>>
  /\ \/ o = "ok" /\ ~topicClosed /\ pubs' = Append(pubs, [m |-> Head(rl), k |-> "re"]) /\ Send(Head(rl)) /\ UNCHANGED fails
     \/ o = "err" /\ ~topicClosed /\ fails < MaxFail /\ fails' = fails + 1 /\ UNCHANGED <<pubs, net>>
     \/ o = "closed" /\ topicClosed /\ UNCHANGED <<pubs, net, fails>>
     \/ o = "ctx" /\ ctxA # "live" /\ UNCHANGED <<pubs, net, fails>>
  /\ rl' = Tail(rl) /\ bpc' = IF Tail(rl) = <<>> THEN "idle" ELSE "rebro"
  /\ UNCHANGED <<cl, handed, res, q, cur, cache, armed, tickAt, tickPending, ticks, wakeAt, now, ctxA, topicClosed,
                 enq, deq, recv, lostc, failedAt, lastRecvAt, lastBurstAt, rvars>>

TickFire ==
  /\ armed /\ Due(tickAt) /\ ticks < MaxTicks /\ bpc # "done"
  /\ tickPending' = TRUE /\ tickAt' = now + RebI /\ ticks' = ticks + 1
  /\ UNCHANGED <<cl, handed, res, q, bpc, cur, rl, cache, armed, wakeAt, now, ctxA, topicClosed, fails,
                 enq, deq, recv, pubs, lostc, failedAt, lastRecvAt, lastBurstAt, net, rvars>>

TimerDue == \/ bpc \in {"init", "wait"} /\ wakeAt = now
            \/ armed /\ tickAt = now /\ ticks < MaxTicks /\ bpc # "done"
Advance ==
  /\ Timed /\ now < MaxTime /\ ~TimerDue /\ now' = now + 1
  /\ UNCHANGED <<cl, handed, res, q, bpc, cur, rl, cache, armed, tickAt, tickPending, ticks, wakeAt, ctxA, topicClosed, fails,
                 enq, deq, recv, pubs, lostc, failedAt, lastRecvAt, lastBurstAt, net, rvars>>

CancelA(kind) ==
  /\ WithBroadcaster /\ AllowCancel /\ ctxA = "live" /\ (kind = "deadline" => AllowDeadline) /\ ctxA' = kind
  /\ UNCHANGED <<cl, handed, res, q, bpc, cur, rl, cache, armed, tickAt, tickPending, ticks, wakeAt, now, topicClosed, fails,
                 enq, deq, recv, pubs, lostc, failedAt, lastRecvAt, lastBurstAt, net, rvars>>

CloseTopic ==
  /\ WithBroadcaster /\ AllowClose /\ ~topicClosed /\ topicClosed' = TRUE
  /\ UNCHANGED <<cl, handed, res, q, bpc, cur, rl, cache, armed, tickAt, tickPending, ticks, wakeAt, now, ctxA, fails,
                 enq, deq, recv, pubs, lostc, failedAt, lastRecvAt, lastBurstAt, net, rvars>>

--------------------------------------------------------------------------
(* the topic towards the subscription, TopicSubscription.Loop, the vote listeners, their consumer *)
EnvPublish(m) ==
  /\ WithListener /\ m \in EMsgs \ envDone /\ envDone' = envDone \cup {m} /\ net' = Append(net, m)
  /\ UNCHANGED <<svars, subBuf, spc, held, out, ctxB, spun, arr, drops, junked, got, lostB>>

NetDeliverAt(i) ==
  /\ i \in DOMAIN net
  /\ net' = [j \in 1..(Len(net) - 1) |-> IF j < i THEN net[j] ELSE net[j + 1]]
  /\ IF Len(subBuf) < SubCap
     THEN subBuf' = Append(subBuf, net[i]) /\ arr' = Append(arr, net[i]) /\ UNCHANGED drops
     ELSE drops' = Append(drops, net[i]) /\ UNCHANGED <<subBuf, arr>>
  /\ UNCHANGED <<svars, envDone, spc, held, out, ctxB, spun, junked, got, lostB>>
NetDeliver == \E i \in (IF NetFIFO THEN {1} ELSE DOMAIN net) : NetDeliverAt(i)

SubTake ==
  /\ spc = "next" /\ subBuf # <<>>
  /\ \E i \in (IF Mut = "reorderin" THEN DOMAIN subBuf ELSE {1}) :
       /\ subBuf' = [j \in 1..(Len(subBuf) - 1) |-> IF j < i THEN subBuf[j] ELSE subBuf[j + 1]]
       /\ IF Class[subBuf[i]] = "junk" /\ Mut # "junkthrough"
          THEN junked' = junked + 1 /\ UNCHANGED <<spc, held>>
          ELSE held' = subBuf[i] /\ spc' = "cb" /\ UNCHANGED junked
  /\ UNCHANGED <<svars, net, envDone, out, ctxB, spun, arr, drops, got, lostB>>

KindOf(m) == IF Class[m] = "junk" THEN "pv" ELSE Class[m]
CbPush ==
  /\ spc = "cb" /\ Len(out[KindOf(held)]) < OutCap
  /\ out' = [out EXCEPT ![KindOf(held)] = Append(@, held)]
  /\ IF Mut = "dup" THEN UNCHANGED <<spc, held>> ELSE spc' = "next" /\ held' = 0
  /\ UNCHANGED <<svars, net, envDone, subBuf, ctxB, spun, arr, drops, junked, got, lostB>>

CbAbort ==
  /\ spc = "cb" /\ ctxB # "live"
  /\ lostB' = Append(lostB, held) /\ held' = 0 /\ spc' = "next"
  /\ UNCHANGED <<svars, net, envDone, subBuf, out, ctxB, spun, arr, drops, junked, got>>

(* Next(ctx) returned an error *)
SubExit ==
  /\ spc = "next"
  /\ \/ ctxB = "cancelled"
     \/ FixCtx /\ ctxB = "deadline"
  /\ spc' = "done"
  /\ UNCHANGED <<svars, net, envDone, subBuf, held, out, ctxB, spun, arr, drops, junked, got, lostB>>

(* as coded: any other error is logged and Next is called again at once — a busy loop *)
SubSpin ==
  /\ ~FixCtx /\ spc = "next" /\ ctxB = "deadline"
  /\ spun' = TRUE
  /\ UNCHANGED <<svars, net, envDone, subBuf, spc, held, out, ctxB, arr, drops, junked, got, lostB>>

Consume(k) ==
  /\ out[k] # <<>> /\ got' = [got EXCEPT ![k] = Append(@, Head(out[k]))] /\ out' = [out EXCEPT ![k] = Tail(@)]
  /\ UNCHANGED <<svars, net, envDone, subBuf, spc, held, ctxB, spun, arr, drops, junked, lostB>>

CancelB(kind) ==
  /\ WithListener /\ AllowCancel /\ ctxB = "live" /\ (kind = "deadline" => AllowDeadline) /\ ctxB' = kind
  /\ UNCHANGED <<svars, net, envDone, subBuf, spc, held, out, spun, arr, drops, junked, got, lostB>>

--------------------------------------------------------------------------
CallerStep == \E c \in Callers : BEnqueue(c) \/ BAbort(c) \/ BDrop(c) \/ \E m \in BMsgs : BStart(c, m)
LoopStep == InitDone \/ LoopExit \/ LoopTake \/ PubOk \/ PubCtx \/ RetryWake \/ WaitAbort \/ LoopTick
            \/ (\E w \in {"err", "closed", "deadline"} : PubFail(w)) \/ (\E o \in {"ok", "err", "closed", "ctx"} : RebroEnd(o))
SubStep == SubTake \/ CbPush \/ CbAbort \/ SubExit \/ SubSpin
Env == TickFire \/ Advance \/ CloseTopic \/ (\E k \in {"cancelled", "deadline"} : CancelA(k) \/ CancelB(k))
       \/ (\E m \in EMsgs : EnvPublish(m))
Next == CallerStep \/ LoopStep \/ NetDeliver \/ SubStep \/ (\E k \in Kinds : Consume(k)) \/ Env

Spec == Init /\ [][Next]_vars
(* fairness: every goroutine that can take a step takes one; the topic does not fail for ever
   (MaxFail bounds "err"); timers fire; the consumer keeps reading *)
FairSpec ==
  /\ Spec
  /\ \A c \in Callers : WF_vars(BEnqueue(c) \/ BAbort(c))
  /\ WF_vars(InitDone) /\ WF_vars(LoopExit) /\ WF_vars(LoopTake) /\ WF_vars(PubOk \/ PubCtx \/ \E w \in {"err", "closed", "deadline"} : PubFail(w))
  /\ WF_vars(PubOk) /\ WF_vars(PubCtx)
  /\ WF_vars(RetryWake) /\ WF_vars(WaitAbort) /\ WF_vars(LoopTick) /\ WF_vars(\E o \in {"ok", "err", "closed", "ctx"} : RebroEnd(o))
  /\ WF_vars(TickFire)
  /\ WF_vars(NetDeliver) /\ WF_vars(SubTake) /\ WF_vars(CbPush) /\ WF_vars(CbAbort) /\ WF_vars(SubExit)
  /\ \A k \in Kinds : WF_vars(Consume(k))

--------------------------------------------------------------------------
(* PROPERTIES *)
FirstSeq == [i \in 1..Len(SelectSeq(pubs, LAMBDA p : p.k = "first")) |-> SelectSeq(pubs, LAMBDA p : p.k = "first")[i].m]
ReSeq == SelectSeq(pubs, LAMBDA p : p.k = "re")
InFlight == IF cur = 0 THEN <<>> ELSE <<cur>>

TypeOK ==
  /\ bpc \in {"init", "idle", "pub", "wait", "rebro", "done"} /\ spc \in {"next", "cb", "done"}
  /\ cur \in BMsgs \cup {0} /\ (cur # 0) = (bpc \in {"pub", "wait"})
  /\ (rl # <<>>) = (bpc = "rebro") /\ (held # 0) = (spc = "cb")
  /\ ctxA \in {"live", "cancelled", "deadline"} /\ ctxB \in {"live", "cancelled", "deadline"}
  /\ fails \in 0..MaxFail /\ now \in 0..MaxTime

Bounded == Len(q) <= QCap /\ Len(subBuf) <= SubCap /\ \A k \in Kinds : Len(out[k]) <= OutCap

(* Broadcast never loses a message silently: what a caller was told is "sent" went through the
   channel exactly once; the channel is FIFO; a dequeued message is published, or being
   published, or was given up because the context ended — never skipped. *)
NoSilentLoss ==
  /\ \A m \in BMsgs : (res[m] = "sent") = (m \in Range(enq))
  /\ NoDup(enq) /\ enq = deq \o q
  /\ \A i \in DOMAIN deq : deq[i] \in Range(FirstSeq) \cup lostc \cup {cur}
  /\ (lostc # {}) => ctxA # "live"
(* first publications happen in the order of the Broadcast calls, each message at most once *)
FirstPubFIFO ==
  /\ NoDup(FirstSeq) /\ IsSubseq(FirstSeq, enq)
  /\ lostc = {} => IsPrefix(FirstSeq \o InFlight, enq)
(* Broadcast returns without enqueueing only on an ended context *)
AbortOnlyOnCtx == [][\A m \in BMsgs : res[m] # "aborted" /\ res'[m] = "aborted" => ctxA # "live"]_vars
(* the interface comment "should not be blocking" — NOT what the code does (expected violation):
   a caller is inside Broadcast while the channel is full *)
NonBlockingBroadcast == \A c \in Callers : cl[c].st = "send" => Len(q) < QCap \/ ctxA # "live"

(* rebroadcast: only messages that went through the channel, only the latest per key, each key
   once per burst *)
LatestOfKey(k) == LET idx == {i \in DOMAIN recv : Key[recv[i]] = k} IN
                  IF idx = {} THEN 0 ELSE recv[CHOOSE i \in idx : \A j \in idx : j <= i]
RebroOnlyLatest ==
  [][Len(pubs') > Len(pubs) /\ Last(pubs').k = "re" =>
        /\ Last(pubs').m \in Range(deq)
        /\ Last(pubs').m = LatestOfKey(Key[Last(pubs').m])]_vars
RebroBurstShape == NoDup(rl) /\ \A i, j \in DOMAIN rl : i # j => Key[rl[i]] # Key[rl[j]]
NoRebroWithoutStrategy == ~WithRebro => ReSeq = <<>>
(* timing (Timed): a retry comes RetryI after the failed attempt, a burst not before RebI after
   the last first publication *)
RetryNotEarly == [][Timed /\ bpc = "wait" /\ bpc' = "pub" => now >= failedAt + RetryI]_vars
RebroNotEarly == [][Timed /\ bpc = "idle" /\ bpc' = "rebro" => now >= lastRecvAt + RebI]_vars
(* design limits of the strategy as coded (expected violations):
   - every first publication restarts the period, so steady traffic starves the re-sends;
   - the cache never forgets: messages of old keys (heights) are re-sent for ever *)
RebroPeriodic == (armed /\ bpc = "idle" /\ ~tickPending /\ ticks < MaxTicks /\ q = <<>>) => now <= lastBurstAt + RebI
MaxKeyRecv == IF recv = <<>> THEN 0 ELSE CHOOSE k \in {Key[recv[i]] : i \in DOMAIN recv} : \A i \in DOMAIN recv : Key[recv[i]] <= k
RebroForgetsOldKeys == [][Len(pubs') > Len(pubs) /\ Last(pubs').k = "re" => Key[Last(pubs').m] = MaxKeyRecv]_vars
(* a finished loop does nothing *)
DoneIsFinal == [][/\ bpc = "done" => bpc' = "done" /\ pubs' = pubs /\ deq' = deq
                  /\ spc = "done" => spc' = "done" /\ arr' \o <<>> = arr' /\ \A k \in Kinds : Len(out'[k]) <= Len(out[k])]_vars

(* the listener: every message that entered the subscription's buffer is handled once, in arrival
   order; well-formed ones come out of the channel of their kind, malformed ones nowhere *)
Taken == SubSeq(arr, 1, Len(arr) - Len(subBuf))
HeldOf(k) == IF held # 0 /\ KindOf(held) = k THEN <<held>> ELSE <<>>
OfKind(s, k) == SelectSeq(s, LAMBDA m : Class[m] = k)
InOrderExactlyOnce ==
  /\ arr = Taken \o subBuf
  /\ \A k \in Kinds : LET h == got[k] \o out[k] \o HeldOf(k) IN
        /\ IsSubseq(h, OfKind(Taken, k))
        /\ lostB = <<>> => h = OfKind(Taken, k)
  /\ (lostB # <<>>) => ctxB # "live"
TypedRouting == \A k \in Kinds : \A m \in Range(got[k]) \cup Range(out[k]) : Class[m] = k
JunkCounted == junked = Len(OfKind(Taken, "junk"))
DropOnlyWhenFull == [][Len(drops') > Len(drops) => Len(subBuf) = SubCap]_vars
Conservation == Len(arr) + Len(drops) + Len(net) = (IF WithListener THEN Len(pubs) ELSE 0) + Cardinality(envDone)
(* as coded a loop never spins (expected violation with a deadline context) *)
NoHotSpin == ~spun

(* LIVENESS (FairSpec, ~Timed) *)
EventuallyPublished == \A m \in BMsgs : (res[m] = "sent") ~> (m \in Range(FirstSeq) \/ ctxA # "live" \/ topicClosed)
LoopsStop == /\ (ctxA # "live") ~> (bpc = "done" /\ \A c \in Callers : cl[c].st = "idle")
             /\ (ctxB # "live") ~> (spc = "done")
ListenerDrains == (ctxB = "live") ~> ((net = <<>> /\ subBuf = <<>> /\ held = 0 /\ \A k \in Kinds : out[k] = <<>>) \/ ctxB # "live")
RebroHappens == (armed /\ ctxA = "live" /\ ~topicClosed /\ ticks < MaxTicks) ~> (ReSeq # <<>> \/ ctxA # "live" \/ topicClosed \/ ticks = MaxTicks)
=============================================================================

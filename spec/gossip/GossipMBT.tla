------------------------------ MODULE GossipMBT ------------------------------
(* Behaviour generation for the sequential replay of Gossip.tla on the real objects inside a
   testing/synctest bubble (three libp2p hosts on an in-memory mocknet: A runs the broadcaster's
   Loop, B the vote listeners' Loop, E is another peer).  The harness acts only when every
   goroutine is durably blocked; the internal steps of Gossip.tla have priority and are not
   recorded.  What the harness controls:
     Call c m     a goroutine of the harness calls Broadcast(ctx, vote m)
     Accept / Reject    the topic validator of host A — the point every publish attempt of the
                  Loop passes — lets the attempt through / fails it (a transient error)
     Burst o      every attempt of the rebroadcast burst under way gets outcome o (the burst
                  walks a Go map: its order is not controllable, its outcome set is)
     Tick         the fake clock advances by one tick (100 ms)
     CloseTopic   host A's topic is closed (only while no attempt is parked in the validator:
                  Topic.Close waits for the lock Publish holds)
     EnvPub m     peer E publishes message m (well-formed vote of another validator, or junk)
     Take k       the consumer receives from the prevote / precommit listener
   A behaviour ends with the cancellation of both contexts; what happens after it is not
   compared step by step (Go's select picks among ready cases at random): the harness checks
   that both loops and every caller return and that nothing is left behind.
   Recorded per step: the action and the quiescent projection BEFORE it; the last entry carries
   the final projection.
   Assumption used for generation only: goroutines parked on a channel send are served in
   arrival order (parkq).                                                                     *)
EXTENDS MCGossip, Json

CONSTANT MaxSteps
VARIABLES hist, steps, act, parkq, bo
mbtvars == <<vars, hist, steps, act, parkq, bo>>

R(S) == {RandomElement(S)}
Keep == UNCHANGED <<hist, steps, act>>

Auto ==
  \/ parkq # <<>> /\ BEnqueue(Head(parkq)) /\ parkq' = Tail(parkq) /\ UNCHANGED bo
  \/ (InitDone \/ LoopTake \/ RetryWake \/ LoopTick \/ TickFire \/ NetDeliver \/ SubTake \/ CbPush) /\ UNCHANGED <<parkq, bo>>
  \/ topicClosed /\ PubFail("closed") /\ UNCHANGED <<parkq, bo>>
  \/ topicClosed /\ RebroEnd("closed") /\ bo' = "none" /\ UNCHANGED parkq
  \/ ~topicClosed /\ bo # "none" /\ RebroEnd(bo) /\ bo' = (IF bpc' = "rebro" THEN bo ELSE "none") /\ UNCHANGED parkq
Quiescent == ~ENABLED Auto

NextB == IF BMsgs \ handed = {} THEN 0 ELSE CHOOSE m \in BMsgs \ handed : \A x \in BMsgs \ handed : m <= x
NextE == IF EMsgs \ envDone = {} THEN 0 ELSE CHOOSE m \in EMsgs \ envDone : \A x \in EMsgs \ envDone : m <= x
IdleCallers == {c \in Callers : cl[c].st = "idle"}

Proj == [att |-> IF bpc = "pub" /\ ~topicClosed THEN cur ELSE 0,
         burst |-> IF bpc = "rebro" THEN Len(rl) ELSE 0,
         qlen |-> Len(q), blocked |-> parkq, done |-> bpc = "done",
         sent |-> Cardinality({m \in BMsgs : res[m] = "sent"}),
         first |-> FirstSeq, nre |-> Len(ReSeq),
         re |-> [i \in DOMAIN ReSeq |-> ReSeq[i].m],
         closed |-> topicClosed, now |-> now,
         outpv |-> Len(out["pv"]), outpc |-> Len(out["pc"]),
         gotpv |-> got["pv"], gotpc |-> got["pc"],
         drops |-> drops, junked |-> junked, sdone |-> spc = "done"]

Harness ==
  \/ \E i \in 1..2 : NextB # 0 /\ IdleCallers # {} /\ \E c \in R(IdleCallers) : BStart(c, NextB) /\ parkq' = Append(parkq, c) /\ bo' = bo
        /\ act' = [name |-> "Call", c |-> c, m |-> NextB, o |-> "-"]
  \/ \E i \in 1..2 : bpc = "pub" /\ ~topicClosed /\ PubOk /\ UNCHANGED <<parkq, bo>> /\ act' = [name |-> "Accept", c |-> 0, m |-> cur, o |-> "ok"]
  \/ bpc = "pub" /\ ~topicClosed /\ PubFail("err") /\ UNCHANGED <<parkq, bo>> /\ act' = [name |-> "Reject", c |-> 0, m |-> cur, o |-> "err"]
  \/ \E o \in R({"ok", "ok", "err"}) : bpc = "rebro" /\ bo = "none" /\ ~topicClosed /\ bo' = o /\ UNCHANGED <<vars, parkq>>
        /\ act' = [name |-> "Burst", c |-> 0, m |-> 0, o |-> o]
  \/ \E i \in 1..(IF armed THEN 5 ELSE 2) : bpc # "rebro" /\ Advance /\ UNCHANGED <<parkq, bo>> /\ act' = [name |-> "Tick", c |-> 0, m |-> 0, o |-> "-"]
  \/ bpc \notin {"pub", "rebro"} /\ 3 * steps > 2 * MaxSteps /\ RandomElement(1..5) = 1 /\ CloseTopic /\ UNCHANGED <<parkq, bo>> /\ act' = [name |-> "CloseTopic", c |-> 0, m |-> 0, o |-> "-"]
  \/ NextE # 0 /\ EnvPublish(NextE) /\ UNCHANGED <<parkq, bo>> /\ act' = [name |-> "EnvPub", c |-> 0, m |-> NextE, o |-> "-"]
  \/ \E k \in Kinds : Consume(k) /\ UNCHANGED <<parkq, bo>> /\ act' = [name |-> "Take", c |-> 0, m |-> Head(out[k]), o |-> k]

MBTInit == Init /\ hist = <<>> /\ steps = 0 /\ act = [name |-> "Init"] /\ parkq = <<>> /\ bo = "none"

Emit ==
  /\ PrintT(ToJson(Append(hist, [a |-> [name |-> "End", c |-> 0, m |-> 0, o |-> "-"], pre |-> Proj])))
  /\ ResetAll /\ hist' = <<>> /\ steps' = 0 /\ act' = [name |-> "Init"] /\ parkq' = <<>> /\ bo' = "none"

MBTNext ==
  IF ~Quiescent THEN Auto /\ Keep
  ELSE IF steps >= MaxSteps \/ ~ENABLED Harness THEN Emit
  ELSE Harness /\ steps' = steps + 1 /\ hist' = Append(hist, [a |-> act', pre |-> Proj])
=============================================================================

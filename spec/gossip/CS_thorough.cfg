\* catch-up, repaired, larger: two failing fetches, two other events, six fetches
CONSTANTS H0 = 1 MaxH = 3 MaxQ = 4 MaxErr = 2 MaxEmpty = 1 MaxOther = 2 MaxFetches = 6
  AllowDecide = TRUE AllowFork = FALSE StaleFix = TRUE RetryEmptyFix = TRUE Mut = "none"
INIT Init
NEXT Next
INVARIANTS TypeOK CommitsInOrder SyncOnlyUnderQuorum FetchOnlyCurrent NoStaleReexecution SyncedIsCanonical
CHECK_DEADLOCK FALSE

\* EXPECTED VIOLATION FetchOnlyCurrent: mutant fetchnext
CONSTANTS H0 = 1 MaxH = 3 MaxQ = 4 MaxErr = 2 MaxEmpty = 1 MaxOther = 2 MaxFetches = 6
  AllowDecide = TRUE AllowFork = FALSE StaleFix = TRUE RetryEmptyFix = TRUE Mut = "fetchnext"
INIT Init
NEXT Next
INVARIANTS FetchOnlyCurrent
CHECK_DEADLOCK FALSE

------------------------------ MODULE MCGossip ------------------------------
(* Constant tables a .cfg cannot express.  Message ids: 1..3 (4) are handed to Broadcast, 11.. are
   published by other peers.  Key = the height of a vote; Class = what the vote listener makes of it. *)
EXTENDS Gossip

B2 == {1, 2}
B3 == {1, 2, 3}
B4 == {1, 2, 3, 4}
E0 == {}
E2 == {11, 12}
E3 == {11, 12, 13}
E5 == {11, 12, 13, 14, 15}
\* two messages of height 1 (the later replaces the earlier in the cache), then height 2
KeyA == [m \in 1..4 |-> IF m <= 2 THEN 1 ELSE 2]
\* all of one height
KeyS == [m \in 1..4 |-> 1]
\* every message its own key
KeyD == [m \in 1..4 |-> m]
\* 1 prevote, 2 precommit, 3 prevote, 4 precommit; peers: 11 junk, 12 precommit, 13 prevote, 14 precommit, 15 junk
ClassA == [m \in (1..4) \cup (11..15) |-> CASE m \in {11, 15} -> "junk" [] m \in {2, 4, 12, 14} -> "pc" [] OTHER -> "pv"]
\* trace validation / replay: up to 40 own messages, key = id \div 4 + 1, kinds alternate; peers 101..120 (every third is junk)
BT == 1..40
ET == 101..120
KeyT == [m \in 1..40 |-> (m \div 4) + 1]
KeyT1 == [m \in 1..40 |-> 1]     \* one key: a rebroadcast burst is one message (its order cannot matter downstream)
ClassT == [m \in (1..40) \cup (101..120) |-> IF m > 100 /\ m % 3 = 2 THEN "junk" ELSE IF m % 2 = 0 THEN "pc" ELSE "pv"]
=============================================================================

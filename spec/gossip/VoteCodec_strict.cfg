\* design option: a decoder that insists on canonical felts — one wire form per vote
CONSTANTS Strict = TRUE
INIT Init
NEXT Next
INVARIANTS RoundTrip RoundWraps RejectsUntyped NilIsNotZero Decided CanonicalOnly
CHECK_DEADLOCK FALSE

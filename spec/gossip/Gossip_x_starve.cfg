\* EXPECTED VIOLATION RebroPeriodic: design — every first publication restarts the period, traffic starves the re-sends
CONSTANTS BMsgs <- B3 EMsgs <- E0 Key <- KeyA Class <- ClassA
  NCallers = 2 QCap = 1 SubCap = 1 OutCap = 1
  WithBroadcaster = TRUE WithListener = FALSE WithRebro = TRUE
  Timed = TRUE InitI = 1 RetryI = 2 RebI = 3 MaxTime = 8 MaxTicks = 2
  MaxFail = 0 AllowClose = FALSE AllowDeadline = FALSE AllowCancel = FALSE NetFIFO = TRUE
  FixCtx = TRUE Mut = "none"
INIT Init
NEXT Next
INVARIANTS RebroPeriodic
CHECK_DEADLOCK FALSE

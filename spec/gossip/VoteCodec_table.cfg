CONSTANTS Strict = FALSE
INIT MBTInit
NEXT MBTNext
CHECK_DEADLOCK FALSE

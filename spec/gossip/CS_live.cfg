\* catch-up, repaired: the node reaches the height of the quorum it saw (fairness)
CONSTANTS H0 = 1 MaxH = 2 MaxQ = 3 MaxErr = 1 MaxEmpty = 1 MaxOther = 0 MaxFetches = 5
  AllowDecide = TRUE AllowFork = FALSE StaleFix = TRUE RetryEmptyFix = TRUE Mut = "none"
SPECIFICATION FairSpec
INVARIANTS TypeOK
PROPERTIES CatchUp
CHECK_DEADLOCK FALSE

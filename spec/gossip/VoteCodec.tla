------------------------------ MODULE VoteCodec ------------------------------
(* G13 — consensus/p2p/vote/vote.go: starknetVoteAdapter.ToVote / FromVote, and what the vote
   listener (vote_listeners.go, onMessage) does with the bytes of a message on the votes topic.

   A wire vote is described by field presence x value class:
     vt      "pv" | "pc" | "unk"              the enum value (7 stands for every undefined one)
     bn      "0" | "mid" | "max"              block_number 0, 5, 2^64-1
     rd      "0" | "mid" | "max"              round 0, 3, 2^32-1
     voter, pcm  (Address / Hash sub-message)
        "absent"   the field is not on the wire
        "nilelem"  the sub-message is present, its `elements` field is not (Elements == nil)
        "empty"    `elements` present with length 0: a non-nil empty slice in a Go value; on the wire
                   protobuf-go reads a zero-length bytes field back as nil, i.e. as "nilelem"
        "short"    2 bytes  0x01 0x02                         value 258
        "zero32"   32 zero bytes                              value 0
        "canon"    32 bytes, a value below the field prime    value C
        "gep"      32 bytes, the value P + 5                  value 5 after reduction
        "long"     33 bytes  0x01 00..00 = 2^256              value 2^256 mod P
   Felt values are abstract names: "0", "258", "C", "5", "2^256modP".

   ToVote AS CODED: unknown enum value -> error; voter.GetElements() == nil -> error "voter is nil";
   otherwise it succeeds: felts are read with SetBytes — any length, reduced modulo the prime —,
   a commitment whose Elements is nil is the NIL vote, an empty or all-zero one is the ZERO hash.
   There is no check of the canonical form (Strict = TRUE describes a decoder that insists on 32
   bytes below the prime; it is a design option, the code is Strict = FALSE).
   FromVote AS CODED never fails: uint32(Round) truncates (a negative or > 2^32-1 round wraps),
   a nil ID gives an absent commitment, every felt is written as its 32 canonical bytes.
   Listener: bytes that do not parse, or ToVote's error => dropped (an error is logged); otherwise
   the vote goes to the channel of its type.                                                 *)
EXTENDS Integers, Sequences, FiniteSets, TLC

CONSTANT Strict

Types   == {"pv", "pc", "unk"}
Nums    == {"0", "mid", "max"}
Bytes   == {"absent", "nilelem", "empty", "short", "zero32", "canon", "gep", "long"}
Rounds  == {"0", "mid", "max", "neg1", "over"}      \* in-memory rounds: also -1 and 2^32 + 3
Felts   == {"0", "258", "C", "5", "2^256modP"}

Wires == [vt : Types, bn : Nums, rd : Nums, voter : Bytes, pcm : Bytes]

ValOf(b) == CASE b = "empty" -> "0" [] b = "short" -> "258" [] b = "zero32" -> "0" [] b = "canon" -> "C"
              [] b = "gep" -> "5" [] b = "long" -> "2^256modP" [] OTHER -> "none"
HasElems(b) == b \notin {"absent", "nilelem"}
Canonical(b) == b \in {"zero32", "canon"}

Err(e) == [ok |-> FALSE, err |-> e, kind |-> "-", h |-> "-", r |-> "-", sender |-> "-", id |-> "-"]
ToVote(w) ==
  IF w.vt = "unk" THEN Err("type")
  ELSE IF Strict /\ w.pcm # "absent" /\ ~Canonical(w.pcm) THEN Err("noncanonical")
  ELSE IF ~HasElems(w.voter) THEN Err("voter")
  ELSE IF Strict /\ ~Canonical(w.voter) THEN Err("noncanonical")
  ELSE [ok |-> TRUE, err |-> "-", kind |-> w.vt, h |-> w.bn, r |-> w.rd, sender |-> ValOf(w.voter),
        id |-> IF HasElems(w.pcm) THEN ValOf(w.pcm) ELSE "nil"]

(* the same vote after Marshal / Unmarshal: an empty `elements` is gone *)
Unm(b) == IF b = "empty" THEN "nilelem" ELSE b
OnWire(w) == [w EXCEPT !.voter = Unm(w.voter), !.pcm = Unm(w.pcm)]
ToVoteWire(w) == ToVote(OnWire(w))

(* what the listener does with the message: "drop" or the channel it goes to *)
Listener(w) == IF ToVoteWire(w).ok THEN ToVoteWire(w).kind ELSE "drop"

(* in-memory votes and their encoding *)
Votes == [h : Nums, r : Rounds, sender : {"0", "C"}, id : {"nil", "0", "C"}]
Enc(f) == IF f = "0" THEN "zero32" ELSE "canon"
WrapRound(r) == CASE r = "neg1" -> "max" [] r = "over" -> "mid" [] OTHER -> r
FromVote(v, t) == [vt |-> t, bn |-> v.h, rd |-> WrapRound(v.r), voter |-> Enc(v.sender),
                   pcm |-> IF v.id = "nil" THEN "absent" ELSE Enc(v.id)]
InDomain(v) == v.r \in Nums

(* TLC evaluates the properties case by case: one initial state per wire form / per (vote, type) *)
VARIABLE case
Init == case \in [k : {"wire"}, w : Wires] \cup [k : {"vote"}, v : Votes, t : {"pv", "pc"}]
Next == UNCHANGED case
IsWire == case.k = "wire"
IsVote == case.k = "vote"

(* encode -> decode is the identity on the well-formed domain, and keeps the type *)
RoundTrip == (IsVote /\ InDomain(case.v)) =>
  LET d == ToVote(FromVote(case.v, case.t)) IN
    d.ok /\ d.kind = case.t /\ d.h = case.v.h /\ d.r = case.v.r /\ d.sender = case.v.sender /\ d.id = case.v.id
(* outside the domain the round is silently changed (recorded; the state machine emits rounds >= 0) *)
RoundWraps == (IsVote /\ ~InDomain(case.v)) => ToVote(FromVote(case.v, case.t)).r # case.v.r
(* a vote of an undefined type or without a voter never reaches the consensus *)
RejectsUntyped == (IsWire /\ ToVote(case.w).ok) => case.w.vt # "unk" /\ HasElems(case.w.voter)
(* NIL and the zero hash are different votes *)
NilIsNotZero == (IsWire /\ ToVote(case.w).ok) => ((ToVote(case.w).id = "nil") = ~HasElems(case.w.pcm))
(* a decoded vote determines the wire form: NOT the case as coded (expected violation) —
   several encodings of one felt are accepted *)
CanonicalOnly == (IsWire /\ ToVote(case.w).ok) =>
  LET d == ToVote(case.w) IN
    /\ d.sender \in {"0", "C"} /\ d.id \in {"nil", "0", "C"}
    /\ FromVote([h |-> case.w.bn, r |-> case.w.rd, sender |-> d.sender, id |-> d.id], case.w.vt) = case.w
Decided == IsWire => Listener(case.w) \in {"pv", "pc", "drop"}
=============================================================================

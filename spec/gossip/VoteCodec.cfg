\* the converters as coded: round trip, typing, nil vs zero
CONSTANTS Strict = FALSE
INIT Init
NEXT Next
INVARIANTS RoundTrip RoundWraps RejectsUntyped NilIsNotZero Decided
CHECK_DEADLOCK FALSE

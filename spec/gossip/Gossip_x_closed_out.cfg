\* EXPECTED VIOLATION LoopsStop (temporal): as coded a closed topic is retried for ever, also after cancellation
CONSTANTS BMsgs <- B2 EMsgs <- E0 Key <- KeyA Class <- ClassA
  NCallers = 1 QCap = 1 SubCap = 1 OutCap = 1
  WithBroadcaster = TRUE WithListener = FALSE WithRebro = TRUE
  Timed = FALSE InitI = 1 RetryI = 2 RebI = 3 MaxTime = 0 MaxTicks = 1
  MaxFail = 1 AllowClose = TRUE AllowDeadline = FALSE AllowCancel = TRUE NetFIFO = TRUE
  FixCtx = FALSE Mut = "none"
SPECIFICATION FairSpec
PROPERTIES LoopsStop
CHECK_DEADLOCK FALSE

\* EXPECTED VIOLATION RebroOnlyLatest: mutant keepfirst
CONSTANTS BMsgs <- B3 EMsgs <- E0 Key <- KeyA Class <- ClassA
  NCallers = 2 QCap = 1 SubCap = 1 OutCap = 1
  WithBroadcaster = TRUE WithListener = FALSE WithRebro = TRUE
  Timed = TRUE InitI = 1 RetryI = 2 RebI = 3 MaxTime = 8 MaxTicks = 2
  MaxFail = 1 AllowClose = FALSE AllowDeadline = FALSE AllowCancel = TRUE NetFIFO = TRUE
  FixCtx = TRUE Mut = "keepfirst"
INIT Init
NEXT Next
PROPERTIES RebroOnlyLatest
CHECK_DEADLOCK FALSE

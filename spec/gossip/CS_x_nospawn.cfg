\* EXPECTED VIOLATION CatchUp (temporal): mutant nospawn
CONSTANTS H0 = 1 MaxH = 2 MaxQ = 3 MaxErr = 1 MaxEmpty = 1 MaxOther = 0 MaxFetches = 5
  AllowDecide = FALSE AllowFork = FALSE StaleFix = TRUE RetryEmptyFix = TRUE Mut = "nospawn"
SPECIFICATION FairSpec
PROPERTIES CatchUp
CHECK_DEADLOCK FALSE

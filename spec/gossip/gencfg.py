#!/usr/bin/env python3
"""Regenerates the exhaustive / expected-violation configs of Gossip.tla and ConsensusSync.tla (run
in this directory).  The .cfg files are committed; this script documents how they relate."""

base = dict(BMsgs="B3", EMsgs="E0", Key="KeyA", Class="ClassA", NCallers=2, QCap=1, SubCap=1, OutCap=1,
            WithBroadcaster="TRUE", WithListener="FALSE", WithRebro="TRUE",
            Timed="TRUE", InitI=1, RetryI=2, RebI=3, MaxTime=8, MaxTicks=2,
            MaxFail=1, AllowClose="FALSE", AllowDeadline="FALSE", AllowCancel="TRUE", NetFIFO="TRUE", FixCtx="TRUE", Mut='"none"')

OUT_INV = "TypeOK Bounded NoSilentLoss FirstPubFIFO RebroBurstShape NoRebroWithoutStrategy"
OUT_ACT = "AbortOnlyOnCtx RebroOnlyLatest RetryNotEarly RebroNotEarly DoneIsFinal"
IN_INV = "TypeOK Bounded InOrderExactlyOnce TypedRouting JunkCounted Conservation NoHotSpin"
IN_ACT = "DropOnlyWhenFull DoneIsFinal"

# distinct / generated states measured with TLC (expected-violation runs stop at the first violation)
MEASURED = {}


def cfg(name, header, over, inv="", props="", spec=None):
    c = dict(base)
    c.update(over)
    lines = ["\\* " + header]
    if name in MEASURED:
        lines.append("\\* measured: " + MEASURED[name] + " (distinct / generated states)")
    lines.append("CONSTANTS BMsgs <- %(BMsgs)s EMsgs <- %(EMsgs)s Key <- %(Key)s Class <- %(Class)s" % c)
    lines.append("  NCallers = %(NCallers)s QCap = %(QCap)s SubCap = %(SubCap)s OutCap = %(OutCap)s" % c)
    lines.append("  WithBroadcaster = %(WithBroadcaster)s WithListener = %(WithListener)s WithRebro = %(WithRebro)s" % c)
    lines.append("  Timed = %(Timed)s InitI = %(InitI)s RetryI = %(RetryI)s RebI = %(RebI)s MaxTime = %(MaxTime)s MaxTicks = %(MaxTicks)s" % c)
    lines.append("  MaxFail = %(MaxFail)s AllowClose = %(AllowClose)s AllowDeadline = %(AllowDeadline)s AllowCancel = %(AllowCancel)s NetFIFO = %(NetFIFO)s" % c)
    lines.append("  FixCtx = %(FixCtx)s Mut = %(Mut)s" % c)
    lines += ["SPECIFICATION " + spec] if spec else ["INIT Init", "NEXT Next"]
    if inv:
        lines.append("INVARIANTS " + inv)
    if props:
        lines.append("PROPERTIES " + props)
    lines.append("CHECK_DEADLOCK FALSE")
    open(name, "w").write("\n".join(lines) + "\n")


def mut(m):
    return '"%s"' % m


UNTIMED = dict(Timed="FALSE", MaxTime=0)
LISTEN = dict(BMsgs="B2", EMsgs="E3", WithBroadcaster="FALSE", WithListener="TRUE", WithRebro="FALSE", NCallers=1, **UNTIMED)
BOTH = dict(BMsgs="B2", EMsgs="E2", WithListener="TRUE", NCallers=1, MaxTicks=1, MaxFail=0, **UNTIMED)

# ---- the repaired design: every property
cfg("Gossip_out_quick.cfg", "sending side, timed: 3 messages (two of height 1, one of height 2), channel of 1, two callers, "
    "rebroadcast, a failing attempt, cancel", {}, OUT_INV, OUT_ACT)
cfg("Gossip_out_close.cfg", "sending side, timed: the topic is closed under the loop, contexts end by cancel or deadline",
    dict(NCallers=1, AllowClose="TRUE", AllowDeadline="TRUE", MaxTicks=1), OUT_INV, OUT_ACT)
cfg("Gossip_out_norebro.cfg", "sending side as the vote broadcaster is built (no rebroadcast strategy)",
    dict(WithRebro="FALSE", BMsgs="B4", QCap=2, MaxFail=2), OUT_INV, OUT_ACT)
cfg("Gossip_in_quick.cfg", "receiving side: subscription buffer 1, output channels 1, a junk message, cancel / deadline",
    dict(LISTEN, AllowClose="TRUE", AllowDeadline="TRUE"), IN_INV, IN_ACT)
cfg("Gossip_in_thorough.cfg", "receiving side, larger: five peer messages (two junk), subscription buffer 2, output channels 2",
    dict(LISTEN, EMsgs="E5", SubCap=2, OutCap=2, AllowClose="TRUE", AllowDeadline="TRUE"), IN_INV, IN_ACT)
cfg("Gossip_both_quick.cfg", "both sides on one topic (p2p.Run): a node's publications and a peer's arrive at its own listeners",
    BOTH, OUT_INV + " " + IN_INV.replace("TypeOK Bounded ", ""), OUT_ACT + " DropOnlyWhenFull")
cfg("Gossip_both_thorough.cfg", "both sides, larger: a failing attempt", dict(BOTH, MaxFail=1),
    OUT_INV + " " + IN_INV.replace("TypeOK Bounded ", ""), OUT_ACT + " DropOnlyWhenFull")
LIVE_OUT = "EventuallyPublished LoopsStop RebroHappens"
LIVE_IN = "LoopsStop ListenerDrains"
OUT1 = dict(BMsgs="B2", NCallers=1, MaxTicks=1, **UNTIMED)
cfg("Gossip_live_out.cfg", "liveness under fairness (repaired), sending side: published unless cancelled / closed, loop and callers stop, a re-send happens",
    dict(OUT1, AllowClose="TRUE", AllowDeadline="TRUE"), "TypeOK", LIVE_OUT, spec="FairSpec")
cfg("Gossip_live_in.cfg", "liveness under fairness (repaired), receiving side: the loop stops, the listener drains",
    dict(LISTEN, AllowDeadline="TRUE"), "TypeOK", LIVE_IN, spec="FairSpec")
cfg("Gossip_live_ascoded_out.cfg", "liveness, the code as it is, sending side: contexts end by cancellation only and nothing is closed",
    dict(OUT1, FixCtx="FALSE"), "TypeOK", LIVE_OUT, spec="FairSpec")
cfg("Gossip_live_ascoded_in.cfg", "liveness, the code as it is, receiving side (cancellation only)",
    dict(LISTEN, FixCtx="FALSE"), "TypeOK NoHotSpin", LIVE_IN, spec="FairSpec")
cfg("Gossip_ascoded.cfg", "the code as it is: every safety property (cancel only, nothing closed)",
    dict(FixCtx="FALSE"), OUT_INV, OUT_ACT)
cfg("Gossip_ascoded_quick.cfg", "the code as it is, one caller: every safety property (cancel only, nothing closed)",
    dict(FixCtx="FALSE", NCallers=1), OUT_INV, OUT_ACT)
cfg("Gossip_ascoded_in.cfg", "the code as it is, receiving side (cancel only, nothing closed)",
    dict(LISTEN, FixCtx="FALSE"), IN_INV, IN_ACT)
cfg("Gossip_noreset.cfg", "design variant: Receive keeps the running ticker — the re-sends are periodic whatever the traffic",
    dict(Mut=mut("noreset"), AllowCancel="FALSE", MaxFail=0), "TypeOK RebroPeriodic", "")

# ---- expected violations: the defect (FixCtx = FALSE) ...
cfg("Gossip_x_deadline_out.cfg", "EXPECTED VIOLATION LoopsStop (temporal): as coded the retry loop treats DeadlineExceeded as a transient error",
    dict(OUT1, FixCtx="FALSE", AllowDeadline="TRUE"), "", "LoopsStop", spec="FairSpec")
cfg("Gossip_x_closed_out.cfg", "EXPECTED VIOLATION LoopsStop (temporal): as coded a closed topic is retried for ever, also after cancellation",
    dict(OUT1, FixCtx="FALSE", AllowClose="TRUE"), "", "LoopsStop", spec="FairSpec")
cfg("Gossip_x_deadline_in.cfg", "EXPECTED VIOLATION NoHotSpin: as coded Next's DeadlineExceeded is logged and Next called again at once",
    dict(LISTEN, FixCtx="FALSE", AllowDeadline="TRUE"), "NoHotSpin", "")
# ---- ... stated design limits ...
cfg("Gossip_x_blocking.cfg", "EXPECTED VIOLATION NonBlockingBroadcast: design — a full channel blocks the caller (the interface comment says it should not)",
    {}, "NonBlockingBroadcast", "")
cfg("Gossip_x_starve.cfg", "EXPECTED VIOLATION RebroPeriodic: design — every first publication restarts the period, traffic starves the re-sends",
    dict(AllowCancel="FALSE", MaxFail=0), "RebroPeriodic", "")
cfg("Gossip_x_forget.cfg", "EXPECTED VIOLATION RebroForgetsOldKeys: design — the cache never forgets, old heights are re-sent for ever",
    {}, "", "RebroForgetsOldKeys")
# ---- ... and mutants (vacuity guards)
for name, m, prop, kind, over in [
    ("dropfull", "dropfull", "NoSilentLoss", "inv", {}),
    ("noretry", "noretry", "NoSilentLoss", "inv", {}),
    ("reorder", "reorder", "FirstPubFIFO", "inv", dict(QCap=2)),
    ("rebroall", "rebroall", "RebroOnlyLatest", "act", {}),
    ("keepfirst", "keepfirst", "RebroOnlyLatest", "act", {}),
    ("noreset", "noreset", "RebroNotEarly", "act", {}),
    ("earlyretry", "earlyretry", "RetryNotEarly", "act", {}),
    ("junkthrough", "junkthrough", "TypedRouting", "inv", LISTEN),
    ("dup", "dup", "InOrderExactlyOnce", "inv", dict(LISTEN, OutCap=2)),
    ("reorderin", "reorderin", "InOrderExactlyOnce", "inv", dict(LISTEN, SubCap=2)),
]:
    cfg("Gossip_x_%s.cfg" % name, "EXPECTED VIOLATION %s: mutant %s" % (prop, m), dict(over, Mut=mut(m)),
        prop if kind == "inv" else "", prop if kind == "act" else "")

# ------------------------------------------------------------------ ConsensusSync.tla
cs_base = dict(H0=1, MaxH=3, MaxQ=4, MaxErr=2, MaxEmpty=1, MaxOther=2, MaxFetches=6, AllowDecide="TRUE", AllowFork="FALSE",
               StaleFix="TRUE", RetryEmptyFix="TRUE", Mut='"none"')
CS_INV = "TypeOK CommitsInOrder SyncOnlyUnderQuorum FetchOnlyCurrent NoStaleReexecution SyncedIsCanonical"


def cs(name, header, over, inv="", props="", spec=None):
    c = dict(cs_base)
    c.update(over)
    lines = ["\\* " + header]
    if name in MEASURED:
        lines.append("\\* measured: " + MEASURED[name] + " (distinct / generated states)")
    lines.append("CONSTANTS H0 = %(H0)s MaxH = %(MaxH)s MaxQ = %(MaxQ)s MaxErr = %(MaxErr)s MaxEmpty = %(MaxEmpty)s MaxOther = %(MaxOther)s MaxFetches = %(MaxFetches)s" % c)
    lines.append("  AllowDecide = %(AllowDecide)s AllowFork = %(AllowFork)s StaleFix = %(StaleFix)s RetryEmptyFix = %(RetryEmptyFix)s Mut = %(Mut)s" % c)
    lines += ["SPECIFICATION " + spec] if spec else ["INIT Init", "NEXT Next"]
    if inv:
        lines.append("INVARIANTS " + inv)
    if props:
        lines.append("PROPERTIES " + props)
    lines.append("CHECK_DEADLOCK FALSE")
    open(name, "w").write("\n".join(lines) + "\n")


LIVE_CS = dict(MaxH=2, MaxQ=3, MaxErr=1, MaxEmpty=1, MaxOther=0, MaxFetches=5)
cs("CS_quick.cfg", "catch-up, repaired: three decided heights, quorums up to height 4, a failing and an empty fetch, decisions by consensus in between",
   dict(MaxErr=1, MaxOther=1, MaxFetches=5), CS_INV)
cs("CS_thorough.cfg", "catch-up, repaired, larger: two failing fetches, two other events, six fetches", {}, CS_INV)
cs("CS_live.cfg", "catch-up, repaired: the node reaches the height of the quorum it saw (fairness)", dict(LIVE_CS), "TypeOK", "CatchUp", spec="FairSpec")
cs("CS_live_nodecide.cfg", "catch-up, repaired: by the catch-up path alone", dict(LIVE_CS, AllowDecide="FALSE", MaxH=3, MaxQ=4, MaxFetches=6), "TypeOK", "CatchUp", spec="FairSpec")
cs("CS_ascoded.cfg", "catch-up as coded: what holds in spite of the two defects", dict(StaleFix="FALSE", RetryEmptyFix="FALSE"),
   CS_INV.replace(" NoStaleReexecution", ""))
cs("CS_x_stale.cfg", "EXPECTED VIOLATION NoStaleReexecution: as coded an error body re-executes the previous event's actions",
   dict(StaleFix="FALSE"), "NoStaleReexecution")
cs("CS_x_empty.cfg", "EXPECTED VIOLATION CatchUp (temporal): as coded a fetch that ends without a body is never retried",
   dict(LIVE_CS, RetryEmptyFix="FALSE", AllowDecide="FALSE", MaxErr=0), "", "CatchUp", spec="FairSpec")
cs("CS_x_fork.cfg", "EXPECTED VIOLATION SyncedIsCanonical: design — the fetched block is committed on the placeholder precommit, whatever the quorum voted for",
   dict(AllowFork="TRUE"), "SyncedIsCanonical")
cs("CS_x_dupfetch.cfg", "EXPECTED VIOLATION NoDuplicateFetch: design — fetches of one height overlap (a decision by consensus, then an error body of the older fetch)",
   {}, "NoDuplicateFetch")
cs("CS_x_nospawn.cfg", "EXPECTED VIOLATION CatchUp (temporal): mutant nospawn", dict(LIVE_CS, Mut=mut("nospawn"), AllowDecide="FALSE"), "", "CatchUp", spec="FairSpec")
cs("CS_x_fetchnext.cfg", "EXPECTED VIOLATION FetchOnlyCurrent: mutant fetchnext", dict(Mut=mut("fetchnext")), "FetchOnlyCurrent")
cs("CS_x_anyheight.cfg", "EXPECTED VIOLATION CommitsInOrder... SyncedIsCanonical: mutant anyheight (a stale body is committed as the current height)",
   dict(Mut=mut("anyheight")), "SyncedIsCanonical")
cs("CS_x_alwaysspawn.cfg", "EXPECTED VIOLATION FetchesBounded: mutant alwaysspawn (every trigger starts a fetch)", dict(Mut=mut("alwaysspawn"), MaxQ=4, MaxH=3), "FetchesBounded")

\* catch-up, repaired: three decided heights, quorums up to height 4, a failing and an empty fetch, decisions by consensus in between
CONSTANTS H0 = 1 MaxH = 3 MaxQ = 4 MaxErr = 1 MaxEmpty = 1 MaxOther = 1 MaxFetches = 5
  AllowDecide = TRUE AllowFork = FALSE StaleFix = TRUE RetryEmptyFix = TRUE Mut = "none"
INIT Init
NEXT Next
INVARIANTS TypeOK CommitsInOrder SyncOnlyUnderQuorum FetchOnlyCurrent NoStaleReexecution SyncedIsCanonical
CHECK_DEADLOCK FALSE

\* EXPECTED VIOLATION CanonicalOnly: design — felts are read with SetBytes (any length, reduced modulo the prime): several wire forms decode to one vote
CONSTANTS Strict = FALSE
INIT Init
NEXT Next
INVARIANTS CanonicalOnly
CHECK_DEADLOCK FALSE

\* catch-up as coded: what holds in spite of the two defects
CONSTANTS H0 = 1 MaxH = 3 MaxQ = 4 MaxErr = 2 MaxEmpty = 1 MaxOther = 2 MaxFetches = 6
  AllowDecide = TRUE AllowFork = FALSE StaleFix = FALSE RetryEmptyFix = FALSE Mut = "none"
INIT Init
NEXT Next
INVARIANTS TypeOK CommitsInOrder SyncOnlyUnderQuorum FetchOnlyCurrent SyncedIsCanonical
CHECK_DEADLOCK FALSE

\* both sides on one topic (p2p.Run): a node's publications and a peer's arrive at its own listeners
CONSTANTS BMsgs <- B2 EMsgs <- E2 Key <- KeyA Class <- ClassA
  NCallers = 1 QCap = 1 SubCap = 1 OutCap = 1
  WithBroadcaster = TRUE WithListener = TRUE WithRebro = TRUE
  Timed = FALSE InitI = 1 RetryI = 2 RebI = 3 MaxTime = 0 MaxTicks = 1
  MaxFail = 0 AllowClose = FALSE AllowDeadline = FALSE AllowCancel = TRUE NetFIFO = TRUE
  FixCtx = TRUE Mut = "none"
INIT Init
NEXT Next
INVARIANTS TypeOK Bounded NoSilentLoss FirstPubFIFO RebroBurstShape NoRebroWithoutStrategy InOrderExactlyOnce TypedRouting JunkCounted Conservation NoHotSpin
PROPERTIES AbortOnlyOnCtx RebroOnlyLatest RetryNotEarly RebroNotEarly DoneIsFinal DropOnlyWhenFull
CHECK_DEADLOCK FALSE

\* liveness, the code as it is, receiving side (cancellation only)
CONSTANTS BMsgs <- B2 EMsgs <- E3 Key <- KeyA Class <- ClassA
  NCallers = 1 QCap = 1 SubCap = 1 OutCap = 1
  WithBroadcaster = FALSE WithListener = TRUE WithRebro = FALSE
  Timed = FALSE InitI = 1 RetryI = 2 RebI = 3 MaxTime = 0 MaxTicks = 2
  MaxFail = 1 AllowClose = FALSE AllowDeadline = FALSE AllowCancel = TRUE NetFIFO = TRUE
  FixCtx = FALSE Mut = "none"
SPECIFICATION FairSpec
INVARIANTS TypeOK NoHotSpin
PROPERTIES LoopsStop ListenerDrains
CHECK_DEADLOCK FALSE

----------------------------- MODULE GossipTrace -----------------------------
(* Trace validation for the free-running rounds of Gossip.tla: real goroutines (two callers of
   Broadcast, the broadcaster's Loop, a peer publishing well-formed and malformed messages, the
   vote listeners' Loop, a consumer of both output channels) over real pubsub on an in-memory
   network; one global order of logged events (ndjson, field ev):
     Reset
     BStart c m | BEnd c m res      around Broadcast
     Pub m ok                       inside the publishing host's topic validator: a publish attempt
                                    of the Loop and what the (seeded) environment answers
     EnvPub m                       before the peer's Publish
     Drop m                         pubsub's tracer: a message a full subscription buffer did not take
     Take k m                       the consumer received m from the prevote / precommit channel
     CancelA | CancelB              the contexts are cancelled
     End                            both loops and every caller have returned
   Everything else — the channel send inside Broadcast, the Loop's dequeue, timers, the network
   hop (pubsub validates in parallel workers: NetFIFO = FALSE), the subscription's receive, the
   hand-over to the output channel — are SILENT steps TLC places between the events.  Time is
   not logged (Timed = FALSE).  The trace is accepted iff some placement explains every event. *)
EXTENDS MCGossip, Json

VARIABLE l
tvars == <<vars, l>>
Trace == ndJsonDeserialize("trace.ndjson")

TraceInit == Init /\ l = 1
IsEvent(e) == l <= Len(Trace) /\ Trace[l].ev = e /\ l' = l + 1
E == Trace[l]

TReset  == IsEvent("Reset") /\ ResetAll
TBStart == IsEvent("BStart") /\ BStart(E.c, E.m)
TBEnd   == IsEvent("BEnd") /\ cl[E.c].st = "idle" /\ res[E.m] = E.res /\ UNCHANGED vars
TPub    == /\ IsEvent("Pub")
           /\ \/ bpc = "pub" /\ cur = E.m /\ (IF E.ok THEN PubOk ELSE PubFail("err"))
              \/ bpc = "rebro" /\ Head(rl) = E.m /\ (IF E.ok THEN RebroEnd("ok") ELSE RebroEnd("err"))
TEnvPub == IsEvent("EnvPub") /\ EnvPublish(E.m)
TDrop   == IsEvent("Drop") /\ Len(subBuf) = SubCap /\ \E i \in DOMAIN net : net[i] = E.m /\ NetDeliverAt(i)
TTake   == IsEvent("Take") /\ out[E.k] # <<>> /\ Head(out[E.k]) = E.m /\ Consume(E.k)
TCancelA == IsEvent("CancelA") /\ CancelA("cancelled")
TCancelB == IsEvent("CancelB") /\ CancelB("cancelled")
TEnd    == IsEvent("End") /\ bpc = "done" /\ spc = "done" /\ (\A c \in Callers : cl[c].st = "idle") /\ UNCHANGED vars

Silent ==
  /\ \/ \E c \in Callers : BEnqueue(c) \/ BAbort(c)
     \/ InitDone \/ LoopExit \/ LoopTake \/ PubCtx \/ RetryWake \/ WaitAbort \/ LoopTick \/ TickFire \/ RebroEnd("ctx")
     \/ (\E i \in DOMAIN net : Len(subBuf) < SubCap /\ NetDeliverAt(i))
     \/ SubTake \/ CbPush \/ CbAbort \/ SubExit
  /\ UNCHANGED l

TraceNext == TReset \/ TBStart \/ TBEnd \/ TPub \/ TEnvPub \/ TDrop \/ TTake \/ TCancelA \/ TCancelB \/ TEnd \/ Silent

(* histories do not decide what can happen next: states that agree on the rest are one *)
TraceView == <<cl, handed, res, q, bpc, cur, rl, cache, armed, tickPending, ctxA, net, envDone, subBuf, spc, held, out, ctxB, l>>

ASSUME TLCSet(1, 0)
HighWater == IF l > TLCGet(1) THEN TLCSet(1, l) ELSE TRUE
TraceConstraint == HighWater
TraceAccepted == IF TLCGet(1) = Len(Trace) + 1 THEN TRUE
                 ELSE PrintT(<<"HIGHWATER", TLCGet(1)>>) /\ FALSE
=============================================================================

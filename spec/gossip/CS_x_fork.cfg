\* EXPECTED VIOLATION SyncedIsCanonical: design — the fetched block is committed on the placeholder precommit, whatever the quorum voted for
CONSTANTS H0 = 1 MaxH = 3 MaxQ = 4 MaxErr = 2 MaxEmpty = 1 MaxOther = 2 MaxFetches = 6
  AllowDecide = TRUE AllowFork = TRUE StaleFix = TRUE RetryEmptyFix = TRUE Mut = "none"
INIT Init
NEXT Next
INVARIANTS SyncedIsCanonical
CHECK_DEADLOCK FALSE

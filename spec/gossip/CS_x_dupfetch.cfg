\* EXPECTED VIOLATION NoDuplicateFetch: design — fetches of one height overlap (a decision by consensus, then an error body of the older fetch)
CONSTANTS H0 = 1 MaxH = 3 MaxQ = 4 MaxErr = 2 MaxEmpty = 1 MaxOther = 2 MaxFetches = 6
  AllowDecide = TRUE AllowFork = FALSE StaleFix = TRUE RetryEmptyFix = TRUE Mut = "none"
INIT Init
NEXT Next
INVARIANTS NoDuplicateFetch
CHECK_DEADLOCK FALSE

\* trace validation of the free-running rounds (the check rewrites QCap / SubCap / OutCap / WithRebro / FixCtx)
CONSTANTS BMsgs <- BT EMsgs <- ET Key <- KeyT Class <- ClassT
  NCallers = 2 QCap = 1 SubCap = 2 OutCap = 1
  WithBroadcaster = TRUE WithListener = TRUE WithRebro = TRUE
  Timed = FALSE InitI = 2 RetryI = 2 RebI = 3 MaxTime = 0 MaxTicks = 1000000
  MaxFail = 1000000 AllowClose = FALSE AllowDeadline = FALSE AllowCancel = TRUE NetFIFO = FALSE
  FixCtx = FALSE Mut = "none"
INIT TraceInit
NEXT TraceNext
VIEW TraceView
CONSTRAINT TraceConstraint
POSTCONDITION TraceAccepted
INVARIANTS TypeOK Bounded NoSilentLoss FirstPubFIFO InOrderExactlyOnce TypedRouting
CHECK_DEADLOCK FALSE

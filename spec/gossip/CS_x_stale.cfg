\* EXPECTED VIOLATION NoStaleReexecution: as coded an error body re-executes the previous event's actions
CONSTANTS H0 = 1 MaxH = 3 MaxQ = 4 MaxErr = 2 MaxEmpty = 1 MaxOther = 2 MaxFetches = 6
  AllowDecide = TRUE AllowFork = FALSE StaleFix = FALSE RetryEmptyFix = TRUE Mut = "none"
INIT Init
NEXT Next
INVARIANTS NoStaleReexecution
CHECK_DEADLOCK FALSE

\* EXPECTED VIOLATION CommitsInOrder... SyncedIsCanonical: mutant anyheight (a stale body is committed as the current height)
CONSTANTS H0 = 1 MaxH = 3 MaxQ = 4 MaxErr = 2 MaxEmpty = 1 MaxOther = 2 MaxFetches = 6
  AllowDecide = TRUE AllowFork = FALSE StaleFix = TRUE RetryEmptyFix = TRUE Mut = "anyheight"
INIT Init
NEXT Next
INVARIANTS SyncedIsCanonical
CHECK_DEADLOCK FALSE

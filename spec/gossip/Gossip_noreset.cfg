\* design variant: Receive keeps the running ticker — the re-sends are periodic whatever the traffic
CONSTANTS BMsgs <- B3 EMsgs <- E0 Key <- KeyA Class <- ClassA
  NCallers = 2 QCap = 1 SubCap = 1 OutCap = 1
  WithBroadcaster = TRUE WithListener = FALSE WithRebro = TRUE
  Timed = TRUE InitI = 1 RetryI = 2 RebI = 3 MaxTime = 8 MaxTicks = 2
  MaxFail = 0 AllowClose = FALSE AllowDeadline = FALSE AllowCancel = FALSE NetFIFO = TRUE
  FixCtx = TRUE Mut = "noreset"
INIT Init
NEXT Next
INVARIANTS TypeOK RebroPeriodic
CHECK_DEADLOCK FALSE

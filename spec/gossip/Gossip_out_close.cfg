\* sending side, timed: the topic is closed under the loop, contexts end by cancel or deadline
CONSTANTS BMsgs <- B3 EMsgs <- E0 Key <- KeyA Class <- ClassA
  NCallers = 1 QCap = 1 SubCap = 1 OutCap = 1
  WithBroadcaster = TRUE WithListener = FALSE WithRebro = TRUE
  Timed = TRUE InitI = 1 RetryI = 2 RebI = 3 MaxTime = 8 MaxTicks = 1
  MaxFail = 1 AllowClose = TRUE AllowDeadline = TRUE AllowCancel = TRUE NetFIFO = TRUE
  FixCtx = TRUE Mut = "none"
INIT Init
NEXT Next
INVARIANTS TypeOK Bounded NoSilentLoss FirstPubFIFO RebroBurstShape NoRebroWithoutStrategy
PROPERTIES AbortOnlyOnCtx RebroOnlyLatest RetryNotEarly RebroNotEarly DoneIsFinal
CHECK_DEADLOCK FALSE

\* sending side as the vote broadcaster is built (no rebroadcast strategy)
CONSTANTS BMsgs <- B4 EMsgs <- E0 Key <- KeyA Class <- ClassA
  NCallers = 2 QCap = 2 SubCap = 1 OutCap = 1
  WithBroadcaster = TRUE WithListener = FALSE WithRebro = FALSE
  Timed = TRUE InitI = 1 RetryI = 2 RebI = 3 MaxTime = 8 MaxTicks = 2
  MaxFail = 2 AllowClose = FALSE AllowDeadline = FALSE AllowCancel = TRUE NetFIFO = TRUE
  FixCtx = TRUE Mut = "none"
INIT Init
NEXT Next
INVARIANTS TypeOK Bounded NoSilentLoss FirstPubFIFO RebroBurstShape NoRebroWithoutStrategy
PROPERTIES AbortOnlyOnCtx RebroOnlyLatest RetryNotEarly RebroNotEarly DoneIsFinal
CHECK_DEADLOCK FALSE

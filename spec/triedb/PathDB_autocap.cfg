\* pathdb, repaired design, Update flattening by itself (the code: at 128 layers; here at 2): 4 updates (forks, repeated
\* roots, empty blocks) on 2 tries of height 1, graceful shutdown, crash, crash inside Commit, 1 restart
\* measured: 209 932 distinct states, depth 10 (2 min, 4 workers)
CONSTANTS
  H = 1
  MaxV = 1
  Tries = {"ct", "s1"}
  MaxUpdates = 4
  MaxRestarts = 1
  CapKeeps = {}
  UpdKeys = 2
  AutoCap = 2
  FixJournalStale = TRUE
  FixDiskRoot = TRUE
  FixDropByChain = TRUE
  Bug = "none"
INIT Init
NEXT NextCompact
VIEW view
INVARIANTS ReadsRight StaleIsError DiskIsOneState FlushNeverRefused OpensAfterRestart RestartServesJournaled CommitDurable CapKeepsBranch CleanCoherent NeverTainted
CHECK_DEADLOCK FALSE

\* pathdb, repaired design, Update flattening by itself (the code: at 128 layers; here at 2): 4 updates
\* (forks, repeated roots, empty blocks) on 2 tries of height 1, journal, 1 restart, crash inside Commit
CONSTANTS
  H = 1
  MaxV = 1
  Tries = {"ct", "s1"}
  MaxUpdates = 4
  MaxRestarts = 1
  CapKeeps = {}
  UpdKeys = 2
  AutoCap = 2
  FixJournalStale = TRUE
  FixDiskRoot = TRUE
  FixDropByChain = TRUE
  Bug = "none"
INIT Init
NEXT NextCompact
VIEW view
INVARIANTS ReadsRight StaleIsError DiskIsOneState FlushNeverRefused OpensAfterRestart RestartServesJournaled CommitDurable CapKeepsBranch CleanCoherent NeverTainted
CHECK_DEADLOCK FALSE

------------------------------- MODULE HashDB -------------------------------
(* The hash-keyed trie database core/trie2/triedb/hashdb (growth check G07): nodes are stored under
   (trie bucket, owner, path, HASH); nothing is ever deleted ("archive"), there is no reference
   counting; Update puts the new nodes of a block into a dirty cache, Commit writes the whole dirty
   cache in one batch and moves it to the clean cache, Close does nothing (an uncommitted dirty
   cache is lost with the process).  Tries are opened by their own root hash (NewFromRootHash); the
   state root given to Update / NodeReader is ignored.

   database.go  Update     every non-deleted node of the merged node sets -> insert (skip if dirty has it)
                readNode   clean cache (keyed by path and hash ONLY: shared by all tries) -> dirty -> disk
                           (a disk hit fills the clean cache)
                Commit     one batch with every dirty node, the clean cache filled, dirty cache reset

   A node is the canonical term of the sub-trie at its path (Trie.tla): the term doubles as its hash.
   A content is readable when every node of its canonical sparse trie is found by readNode. *)
EXTENDS Trie

CONSTANTS Tries, MaxUpdates, MaxRestarts, UpdKeys,
          Bug      \* "none" | "commit-skips-cached" | "update-skips-cached" | "close-keeps-nothing" (= none) ...

VARIABLES dirty,     \* set of <<trie, path, term>>
          clean,     \* set of <<path, term>>
          disk,      \* set of <<trie, path, term>>
          volatile,  \* ghost: contents handed to Update since the last Commit (this process)
          durable,   \* ghost: contents whose Update was followed by a Commit
          nupd, nrst, act
vars == <<dirty, clean, disk, volatile, durable, nupd, nrst, act>>
view == <<dirty, clean, disk, volatile, durable, nupd, nrst>>

Content == [Tries -> [Keys -> 0..MaxV]]
EmptyC == [t \in Tries |-> EmptyKV]
TrieNodes(t, m) == {<<t, p, SubRoot(m, p)>> : p \in SparsePaths(m)}
Nodes(c) == UNION {TrieNodes(t, c[t]) : t \in Tries}

Found(e) == <<e[2], e[3]>> \in clean \/ e \in dirty \/ e \in disk
TrieReadable(t, m) == \A e \in TrieNodes(t, m) : Found(e)
Readable(c) == \A t \in Tries : TrieReadable(t, c[t])
RootFound(t, m) == PresentKeys(m) = {} \/ Found(<<t, <<>>, SubRoot(m, <<>>)>>)

Init == /\ dirty = {} /\ clean = {} /\ disk = {} /\ volatile = {} /\ durable = {EmptyC}
        /\ nupd = 0 /\ nrst = 0 /\ act = [name |-> "Init"]

\* the tries of `parent` are opened by root hash, changed and committed: the node sets hold every
\* node of c that parent does not have at the same path (deletions are ignored by the database)
Update(parent, c) ==
  LET new == Nodes(c) \ Nodes(parent)
      ins == IF Bug = "update-skips-cached" THEN {e \in new : <<e[2], e[3]>> \notin clean} ELSE new IN
  /\ nupd < MaxUpdates /\ (Readable(parent) = TRUE)      \* (= TRUE: keeps TLC from splitting the action on the disjunctions inside)
  /\ nupd' = nupd + 1
  /\ act' = [name |-> "Update", parent |-> parent, root |-> c]
  /\ dirty' = dirty \cup ins
  /\ volatile' = volatile \cup {c}
  /\ UNCHANGED <<clean, disk, durable, nrst>>

Commit ==
  LET wr == IF Bug = "commit-skips-cached" THEN {e \in dirty : <<e[2], e[3]>> \notin clean} ELSE dirty IN
  /\ act' = [name |-> "Commit"]
  /\ disk' = disk \cup wr
  /\ clean' = clean \cup {<<e[2], e[3]>> : e \in dirty}
  /\ dirty' = {}
  /\ durable' = durable \cup volatile /\ volatile' = {}
  /\ UNCHANGED <<nupd, nrst>>

\* reads that reach the disk fill the clean cache (all at once)
Warm ==
  /\ {e \in disk : <<e[2], e[3]>> \notin clean} # {}
  /\ act' = [name |-> "Warm"]
  /\ clean' = clean \cup {<<e[2], e[3]>> : e \in disk}
  /\ UNCHANGED <<dirty, disk, volatile, durable, nupd, nrst>>

\* Close (a no-op) and a new process, or a crash: both caches are gone
Reopen ==
  /\ nrst < MaxRestarts
  /\ nrst' = nrst + 1
  /\ act' = [name |-> "Reopen"]
  /\ dirty' = {} /\ clean' = {} /\ volatile' = {}
  /\ UNCHANGED <<disk, durable, nupd>>

Succ(c) == {[c EXCEPT ![t][k] = v] : t \in Tries, k \in {x \in Keys : BitsVal(x) < UpdKeys}, v \in 0..MaxV}
Known == volatile \cup durable
Next ==
  \/ \E p \in Known : \E c \in Succ(p) : Update(p, c)
  \/ Commit \/ Warm \/ Reopen
Spec == Init /\ [][Next]_vars

----------------------------------------------------------------------------
\* P1: every state updated in this process, and every state ever committed, reads completely
KnownReadable == \A c \in Known : Readable(c)
\* ... the committed ones from the disk alone (they survive any crash)
DurableOnDisk == \A c \in durable : Nodes(c) \subseteq disk
\* P2/P3: a trie is found completely or its root node is missing: never a partial trie, whatever
\* was lost in a crash (GetTrieRootNodes is a sound crash detector)
\* (stated on the buckets themselves, which is what GetTrieRootNodes reads; lookups through the
\* clean cache are shared between tries, see P5)
NoPartialTrie == \A t \in Tries : \A m \in [Keys -> 0..MaxV] :
                   /\ (PresentKeys(m) # {} /\ <<t, <<>>, SubRoot(m, <<>>)>> \in disk) => TrieNodes(t, m) \subseteq disk
                   /\ (PresentKeys(m) # {} /\ <<t, <<>>, SubRoot(m, <<>>)>> \in disk \cup dirty) => TrieNodes(t, m) \subseteq disk \cup dirty
\* the clean cache only holds persisted nodes
CleanIsDurable == \A x \in clean : \E e \in disk : <<e[2], e[3]>> = x
\* P5: DurableOnDisk is stated per bucket (trie, owner): a state is durable in ITS OWN buckets.  The
\* clean cache is keyed by (path, hash) only, so a cached node of one trie answers a read of another
\* trie for the same (path, hash) - harmless, the hash commits to the content; WitnessSharedCache
\* shows the model reaches it
\* vacuity witnesses (expected violations)
WitnessLostOnCrash == ~(act.name = "Reopen" /\ \E c \in Content : ~Readable(c) /\ \E e \in Nodes(c) : e \in disk)
WitnessPartialThroughCache == \A t \in Tries : \A m \in [Keys -> 0..MaxV] : RootFound(t, m) => TrieReadable(t, m)
WitnessSharedCache == \A t \in Tries : \A m \in [Keys -> 0..MaxV] :
             TrieReadable(t, m) => \A e \in TrieNodes(t, m) : e \in dirty \/ e \in disk
=============================================================================

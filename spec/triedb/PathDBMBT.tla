----------------------------- MODULE PathDBMBT -----------------------------
(* Behaviour generation for the replayer (engine "triedb", TestPathReplay): PathDB plus a history
   variable and NAMES for roots (a root is a content; the harness knows it by the number it got when
   it was first created).  Projection after every step: the status of every named root
   ("L" registered and live, "S" registered over a stale base, "A" not registered), whether a layer
   registered under a label that is no state's commitment exists, the ghost flags.
   One long -simulate run yields many behaviours (reset on Emit). *)
EXTENDS PathDB, Json

CONSTANTS MBTLen,
          Deep      \* TRUE: mostly extend the head (used with AutoCap = 128)
VARIABLES hist, names, head
mbtvars == <<vars, hist, names, head>>

MBTInit == Init /\ hist = <<>> /\ names = (ZeroRoot :> 0) /\ head = ZeroRoot

R(S) == IF S = {} THEN {} ELSE {RandomElement(S)}
Pres(c) == {e \in {[t |-> t, k |-> k, v |-> c[t][k]] : t \in Tries, k \in Keys} : e.v # 0}
Changed(c0, c1) == {[t |-> t, k |-> k, v |-> c1[t][k]] : t \in Tries, k \in Keys} \ {[t |-> t, k |-> k, v |-> c0[t][k]] : t \in Tries, k \in Keys}

KnownContents == {r.c : r \in {x \in DOMAIN names : x.ok}}
HeadOr(S) == IF head \in S THEN {head} ELSE R(S)
Slots == Tries \X Keys \X (0..MaxV)
Set1(c, x) == [c EXCEPT ![x[1]][x[2]] = x[3]]
PresentSlots(c) == {<<t, k, 0>> : <<t, k>> \in {y \in Tries \X Keys : c[y[1]][y[2]] # 0}}

\* One action schema per step, drawn from a weighted bag (simulation would otherwise pick uniformly
\* among successor STATES and evaluate every schema at every step).  Every random draw is bound
\* BEFORE the schema is evaluated (ENABLED and the action must see the same draw); a schema that is
\* not enabled in the current state yields a recorded no-op ("Skip", ignored by the replayer)
Bag == IF Deep THEN <<"u1", "u1", "u1", "u2", "u3", "ud", "rev", "empty", "warm", "journal">>
       ELSE <<"u1", "u1", "u2", "u3", "ud", "fork", "fork", "forkd", "rev", "rev", "empty", "cap", "cap", "capany", "commit", "commitany",
              "warm", "journal", "shut", "shutany", "reopen", "crash">>
Chosen(kind, ph, pr, x1, x2, x3, k, j, kc) ==
  CASE kind = "u1" -> Update(ph, Set1(ph.c, x1))
    [] kind = "u2" -> Update(ph, Set1(Set1(ph.c, x1), x2))
    [] kind = "u3" -> Update(ph, Set1(Set1(Set1(ph.c, x1), x2), x3))
    [] kind = "ud" -> \E d \in R(PresentSlots(ph.c)) : Update(ph, Set1(ph.c, d))
    [] kind = "fork" -> Update(pr, Set1(Set1(pr.c, x1), x2))
    [] kind = "forkd" -> \E d \in R(PresentSlots(pr.c)) : Update(pr, Set1(pr.c, d))
    [] kind = "rev" -> Update(ph, kc)                       \* back to an older root
    [] kind = "empty" -> Update(ph, ph.c)                   \* empty block
    [] kind = "cap" -> Cap(ph, k)
    [] kind = "capany" -> Cap(pr, k)
    [] kind = "commit" -> Cap(ph, 0)
    [] kind = "commitany" -> Cap(pr, 0)
    [] kind = "warm" -> Warm
    [] kind = "journal" -> JournalA(ph)
    [] kind = "shut" -> Shutdown(ph)
    [] kind = "shutany" -> Shutdown(pr)
    [] kind = "reopen" -> Reopen
    [] kind = "crash" -> CommitCrash(ph, j)
Skip == act' = [name |-> "Skip"] /\ UNCHANGED <<layers, lmap, nl, buf, bufLayers, clean, eager, dnodes, pid, journal, dcontent, tainted, failed, nupd, nrst>>
SimNext ==
  \E i \in R(1..Len(Bag)), ph \in HeadOr(LiveRoots), pr \in R(LiveRoots), x1 \in R(Slots), x2 \in R(Slots), x3 \in R(Slots),
     k \in R(CapKeeps), j \in R(1..4), kc \in R(KnownContents) :
       IF Bag[i] \in {"ud", "forkd"} THEN (Chosen(Bag[i], ph, pr, x1, x2, x3, k, j, kc) \/ (PresentSlots(IF Bag[i] = "ud" THEN ph.c ELSE pr.c) = {} /\ Skip))
       ELSE IF ENABLED Chosen(Bag[i], ph, pr, x1, x2, x3, k, j, kc) THEN Chosen(Bag[i], ph, pr, x1, x2, x3, k, j, kc) ELSE Skip

Status(r) == IF r \notin DOMAIN lmap' THEN "A" ELSE IF LiveIn([layers |-> layers'], lmap'[r]) THEN "L" ELSE "S"
NameOf(nm, r) == IF r \in DOMAIN nm THEN nm[r] ELSE -1

Step ==
  /\ SimNext
  /\ LET isUpd == act'.name = "Update"
         nm == IF isUpd /\ act'.root \notin DOMAIN names THEN (act'.root :> Cardinality(DOMAIN names)) @@ names ELSE names
         a == CASE isUpd -> [name |-> "Update", parent |-> nm[act'.parent], root |-> nm[act'.root],
                             ch |-> Changed(act'.parent.c, act'.root.c), pres |-> Pres(act'.root.c)]
                [] act'.name \in {"Cap", "Journal", "Shutdown"} -> [act' EXCEPT !.root = nm[act'.root]]
                [] act'.name = "CommitCrash" -> [act' EXCEPT !.root = nm[act'.root]]
                [] OTHER -> act'
         inv == [i \in 0..(Cardinality(DOMAIN nm) - 1) |-> CHOOSE r \in DOMAIN nm : nm[r] = i]
     IN /\ names' = nm
        /\ head' = IF isUpd THEN act'.root
                   ELSE IF head \in DOMAIN lmap' /\ LiveIn([layers |-> layers'], lmap'[head]) THEN head
                   ELSE IF \E r \in DOMAIN lmap' : r.ok /\ r \in DOMAIN nm THEN CHOOSE r \in DOMAIN lmap' : r.ok /\ r \in DOMAIN nm ELSE head
        /\ hist' = Append(hist, [a |-> a,
                                 st |-> [i \in 0..(Cardinality(DOMAIN nm) - 1) |-> Status(inv[i])],
                                 unnamed |-> Cardinality(DOMAIN lmap' \ DOMAIN nm),
                                 disk |-> NameOf(nm, RootOfC(dcontent')),
                                 eager |-> eager', tainted |-> tainted', failed |-> failed'])

Emit ==
  /\ PrintT(ToJson(hist))
  /\ layers' = (1 :> [kind |-> "disk", root |-> ZeroRoot, sid |-> 0, stale |-> FALSE, parent |-> 0, nodes |-> NoFn])
  /\ lmap' = (ZeroRoot :> 1) /\ nl' = 1
  /\ buf' = NoFn /\ bufLayers' = 0 /\ clean' = NoFn /\ eager' = RandomElement(BOOLEAN)
  /\ dnodes' = NoFn /\ pid' = 0 /\ journal' = NoJournal /\ dcontent' = EmptyC
  /\ tainted' = FALSE /\ failed' = FALSE /\ nupd' = 0 /\ nrst' = 0 /\ act' = [name |-> "Init"]
  /\ hist' = <<>> /\ names' = (ZeroRoot :> 0) /\ head' = ZeroRoot

MBTNext == IF Len(hist) >= MBTLen \/ tainted \/ failed \/ LiveRoots = {} THEN Emit ELSE Step
=============================================================================

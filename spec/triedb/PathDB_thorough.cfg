\* pathdb, repaired design, exhaustive, thorough: as quick, updates touch 3 keys, Journal as a separate action (a journal
\* can be followed by more work and a crash), 2 restarts (stale journals)
\* measured: 411 905 distinct states, depth 11 (4 min, 4 workers); with all 4 keys: 887 130 states (6 min)
CONSTANTS
  H = 2
  MaxV = 1
  Tries = {"ct", "s1"}
  MaxUpdates = 3
  MaxRestarts = 2
  CapKeeps = {1, 2}
  UpdKeys = 3
  AutoCap = 0
  FixJournalStale = TRUE
  FixDiskRoot = TRUE
  FixDropByChain = TRUE
  Bug = "none"
INIT Init
NEXT Next
VIEW view
INVARIANTS ReadsRight StaleIsError DiskIsOneState FlushNeverRefused OpensAfterRestart RestartServesJournaled CommitDurable CapKeepsBranch CleanCoherent NeverTainted
CHECK_DEADLOCK FALSE

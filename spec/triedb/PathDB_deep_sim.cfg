\* behaviour generation for the flatten that Update runs by itself at 128 layers: long behaviours that
\* mostly extend the head (reverts to earlier roots and empty blocks included), journal now and then
CONSTANTS
  H = 3
  MaxV = 2
  Tries = {"cl", "ct", "s1", "s2"}
  MaxUpdates = 1000000
  MaxRestarts = 1000000
  CapKeeps = {1}
  UpdKeys = 8
  AutoCap = 128
  FixJournalStale = TRUE
  FixDiskRoot = TRUE
  FixDropByChain = TRUE
  Bug = "none"
  MBTLen = 150
  Deep = TRUE
INIT MBTInit
NEXT MBTNext
CHECK_DEADLOCK FALSE

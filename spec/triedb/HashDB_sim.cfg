\* behaviour generation (tlc -simulate) for hashdb
CONSTANTS
  H = 3
  MaxV = 2
  Tries = {"cl", "ct", "s1", "s2"}
  MaxUpdates = 1000000
  MaxRestarts = 1000000
  UpdKeys = 8
  Bug = "none"
  MBTLen = 30
INIT MBTInit
NEXT MBTNext
CHECK_DEADLOCK FALSE

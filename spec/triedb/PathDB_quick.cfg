\* pathdb, repaired design (all three switches TRUE), exhaustive, quick: 2 tries (contract + one storage trie) of
\* height 2 (4 keys, 7 node positions each), <= 3 updates touching the first 2 keys (forks, repeated roots, empty blocks),
\* Cap keeping 1 or 2 layers, Commit, cache warm-up, graceful shutdown (Journal; Close; New), crash (New without journal),
\* crash inside Commit after any of its flushes, 1 restart, lazy and eager write buffer
\* measured: 28 564 distinct states, depth 9 (25 s, 4 workers)
CONSTANTS
  H = 2
  MaxV = 1
  Tries = {"ct", "s1"}
  MaxUpdates = 3
  MaxRestarts = 1
  CapKeeps = {1, 2}
  UpdKeys = 2
  AutoCap = 0
  FixJournalStale = TRUE
  FixDiskRoot = TRUE
  FixDropByChain = TRUE
  Bug = "none"
INIT Init
NEXT NextCompact
VIEW view
INVARIANTS ReadsRight StaleIsError DiskIsOneState FlushNeverRefused OpensAfterRestart RestartServesJournaled CommitDurable CapKeepsBranch CleanCoherent NeverTainted
CHECK_DEADLOCK FALSE

\* pathdb, repaired design (all switches TRUE), exhaustive: 2 tries (contract + one storage trie), H = 2
\* (4 keys, 7 paths per trie), <= 3 updates (forks allowed), 1 restart, Cap keeping 1 or 2 layers, Commit,
\* journal, reopen, crash inside Commit, lazy and eager write buffer
CONSTANTS
  H = 2
  MaxV = 1
  Tries = {"ct", "s1"}
  MaxUpdates = 3
  MaxRestarts = 1
  CapKeeps = {1, 2}
  UpdKeys = 2
  AutoCap = 0
  FixJournalStale = TRUE
  FixDiskRoot = TRUE
  FixDropByChain = TRUE
  Bug = "none"
INIT Init
NEXT NextCompact
VIEW view
INVARIANTS ReadsRight StaleIsError DiskIsOneState FlushNeverRefused OpensAfterRestart RestartServesJournaled CommitDurable CapKeepsBranch CleanCoherent NeverTainted
CHECK_DEADLOCK FALSE

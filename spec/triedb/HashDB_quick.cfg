\* hashdb, exhaustive (quick): updates touch 3 of the 4 keys
\* (forks are free: the database does not track state roots), Commit / cache warm-up / restart anywhere
CONSTANTS
  H = 2
  MaxV = 1
  Tries = {"ct", "s1"}
  MaxUpdates = 3
  MaxRestarts = 2
  UpdKeys = 3
  Bug = "none"
INIT Init
NEXT Next
VIEW view
INVARIANTS KnownReadable DurableOnDisk NoPartialTrie CleanIsDurable
CHECK_DEADLOCK FALSE

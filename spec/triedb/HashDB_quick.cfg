\* hashdb, exhaustive, quick: 2 tries of height 2, <= 3 updates touching 3 keys from any known state (forks are free: the
\* database does not track state roots), Commit / cache warm-up / restart (2) anywhere
\* measured: 16 411 distinct states, depth 8 (14 s, 4 workers)
CONSTANTS
  H = 2
  MaxV = 1
  Tries = {"ct", "s1"}
  MaxUpdates = 3
  MaxRestarts = 2
  UpdKeys = 3
  Bug = "none"
INIT Init
NEXT Next
VIEW view
INVARIANTS KnownReadable DurableOnDisk NoPartialTrie CleanIsDurable
CHECK_DEADLOCK FALSE

------------------------------- MODULE PathDB -------------------------------
(* The path-keyed LAYERED trie database core/trie2/triedb/pathdb (growth check G07), at the
   granularity of its calls and of single trie nodes.

   A state root commits to the content of several tries (class trie "cl", contract trie "ct",
   per-contract storage tries "s1", "s2" distinguished by their owner).  In the model a root IS the
   content it commits to (Content), so two equal roots are the same state, exactly as with a
   collision-free hash; a trie node is the canonical TERM of the sub-trie at its path (Trie.tla).

   What is transcribed (file:function):
     layertree.go  add      Update(parent, root): a diff layer [root, id = parent.id + 1, nodes, parent]
                            registered under its root (an existing entry of that root is REPLACED:
                            the cycle test compares pointers and never fires)
     layertree.go  cap      Cap(root, k) / Commit(root) = cap(root, 0): walk k-1 parents, persist
                            everything below, re-hang, drop what links into a stale disk layer
                            (children are found BY ROOT HASH of the parent layer)
     difflayer.go  persist  recursion to the bottom-most diff, then diskLayer.commit
     disklayer.go  commit   marks the old disk layer stale, merges the bottom nodes into the shared
                            dirty buffer, flushes when forced or full, returns a new disk layer
     buffer.go     flush    persisted id + merged layers = target id, one batch: nodes + id
     disklayer.go  node     stale? -> buffer -> clean cache -> disk (fills the clean cache)
     difflayer.go  node     own nodes (deletion marker = not found) -> parent
     journal.go    Journal  the chain from the disk layer (with its buffer) to `root`, one key
                   loadJournal / loadLayers / getStateRoot   (Reopen)

   Confirmed deviations of the code as it is, each behind a switch (FALSE = the code, TRUE = repaired):
     FixJournalStale  the journal is neither deleted after loading nor checked against the disk: a
                      journal left behind by an EARLIER shutdown is loaded after a later crash and
                      layered over the nodes of a newer state
     FixDropByChain   cap finds the layers to drop by the ROOT HASH of their parent, starting from the
                      registered stale disk layers: when a root occurs twice on a branch (a block
                      reverted and the chain continued, a storage slot toggled back) the entry of the
                      repeated root is the flattened base, which goes stale at the next flatten, and
                      everything above the later occurrence - the head just added included - is dropped;
                      siblings of the re-hung layer keep a registered entry over a stale base.
                      Repaired: drop exactly the entries whose chain ends in a stale disk layer
     FixDiskRoot      without a journal the disk layer is labelled by getStateRoot, which hashes the
                      class root with Pedersen and answers 0 when either trie is empty: the
                      persisted state cannot be opened under its root

   Not a deviation, modelled as it is: layertree.add compares root and parent root by POINTER, so the
   "cyclic layer" test never fires; a block that leaves the state root unchanged (empty block) gets a
   layer registered under the root of its parent, which it shadows (WitnessRootReplaced).

   Properties (end of the module): ReadsRight (P1), StaleIsError (P2), DiskIsOneState /
   FlushNeverRefused / OpensAfterRestart / RestartServesJournaled / CommitDurable (P3), CapKeepsBranch
   with ReadsRight after every flatten (P4), ReadsRight over several tries keyed as the code keys them
   (P5), CleanCoherent. *)
EXTENDS Trie

CONSTANTS Tries,            \* subset of {"cl", "ct", "s1", "s2"}
          MaxUpdates,       \* bound on Update actions of a behaviour
          MaxRestarts,      \* bound on Reopen actions
          CapKeeps,         \* `layers` arguments of Cap (Commit = 0 is separate)
          UpdKeys,          \* exhaustive search: updates touch the first UpdKeys keys of every trie only
          AutoCap,          \* 0 = Update does not flatten; n > 0: Update runs cap(root, n) (the code: 128)
          FixJournalStale, FixDiskRoot, FixDropByChain,
          Bug               \* "none" | seeded defects of the MODEL (vacuity guards, see the cfgs)

VARIABLES layers,     \* layer id -> layer record (only layers reachable from lmap are kept)
          lmap,       \* tree.layers: root -> layer id
          nl,         \* ids handed out so far
          buf,        \* the disk layer's dirty buffer: node key -> node | Del   (one shared object)
          bufLayers,  \* buffer.layers
          clean,      \* clean cache: node key -> node
          eager,      \* WriteBufferSize = 0 (every non-empty flatten flushes) / huge (only forced flushes)
          dnodes,     \* DISK: node key -> node
          pid,        \* DISK: persisted state id
          journal,    \* DISK: NoJournal or [for (ghost), disk |-> [root, sid, nodes], diffs |-> <<[root, nodes]>>]
          dcontent,   \* ghost: the content whose canonical node table the last flush wrote
          tainted,    \* ghost: a deviation of the code as it is has been triggered (as-is model only)
          failed,     \* ghost: an operation returned an error the caller cannot recover from
          nupd, nrst, act
vars == <<layers, lmap, nl, buf, bufLayers, clean, eager, dnodes, pid, journal, dcontent, tainted, failed, nupd, nrst, act>>
view == <<layers, lmap, buf, bufLayers, clean, eager, dnodes, pid, journal, dcontent, tainted, failed, nupd, nrst>>

----------------------------------------------------------------------------
(* contents, roots, nodes *)
Content == [Tries -> [Keys -> 0..MaxV]]
EmptyC == [t \in Tries |-> EmptyKV]
RootOfC(c) == [ok |-> TRUE, c |-> c]
Garbage == [ok |-> FALSE, c |-> EmptyC]      \* a label that is no state's commitment
ZeroRoot == RootOfC(EmptyC)

NK == Tries \X AllPaths                       \* node keys: (trie, path)
\* how the code tells tries apart: nodeSet.node / nodeKeyByPath / nodeKey (owner, path, isClass)
KeyOf(k) == IF Bug = "owner-omitted" /\ k[1] \in {"s1", "s2"} THEN <<"ct", k[2]>> ELSE k

None == [t |-> "none"]          \* no node at this position
Del == [t |-> "deleted"]        \* trienode.DeletedNode
StaleErr == [t |-> "stale"]     \* ErrDiskLayerStale
NodeAt(c, k) == IF k[2] \in SparsePaths(c[k[1]]) THEN SubRoot(c[k[1]], k[2]) ELSE None
NodeTable(c) == LET ks == {k \in NK : NodeAt(c, k) # None} IN [k \in ks |-> NodeAt(c, k)]
\* what the committed tries hand to Update: every changed position, deletion markers included
Delta(c0, c1) == LET ks == {k \in NK : NodeAt(c0, k) # NodeAt(c1, k)} IN
                 [k \in ks |-> IF NodeAt(c1, k) = None THEN Del ELSE NodeAt(c1, k)]

NoFn == [x \in {} |-> 0]
\* nodeSet.merge: the newer set wins
MergeNodes(old, new) ==
  LET newer == IF Bug = "drop-del-at-flatten" THEN [k \in {x \in DOMAIN new : new[x] # Del} |-> new[k]] ELSE new IN
  [k \in {KeyOf(x) : x \in DOMAIN old \cup DOMAIN newer} |->
     LET fromNew == {x \in DOMAIN newer : KeyOf(x) = k}
         fromOld == {x \in DOMAIN old : KeyOf(x) = k} IN
     IF Bug = "older-over-newer"
     THEN IF fromOld # {} THEN old[CHOOSE x \in fromOld : TRUE] ELSE newer[CHOOSE x \in fromNew : TRUE]
     ELSE IF fromNew # {} THEN newer[CHOOSE x \in fromNew : TRUE] ELSE old[CHOOSE x \in fromOld : TRUE]]
\* nodeSet.write on a table (disk or clean cache): deletions remove, the rest is put
WriteNodes(table, set, putAll) ==
  LET dels == {k \in DOMAIN set : set[k] = Del}
      puts == {k \in DOMAIN set : set[k] # Del} IN
  [k \in ((DOMAIN table \ dels) \cup (IF putAll THEN puts ELSE puts \cap DOMAIN table)) |->
     IF k \in puts THEN set[k] ELSE table[k]]

NoJournal == [none |-> TRUE]

----------------------------------------------------------------------------
(* the in-memory tree as one record, so that the recursive persist can thread it *)
Mem == [layers |-> layers, lmap |-> lmap, nl |-> nl, buf |-> buf, bufLayers |-> bufLayers, clean |-> clean,
        dnodes |-> dnodes, pid |-> pid, dcontent |-> dcontent, failed |-> failed]

IsDiff(m, id) == m.layers[id].kind = "diff"
RECURSIVE Bottom(_, _)
Bottom(m, id) == IF IsDiff(m, id) THEN Bottom(m, m.layers[id].parent) ELSE id
LiveIn(m, id) == ~m.layers[Bottom(m, id)].stale
Live(id) == LiveIn(Mem, id)

\* layer.node
RECURSIVE ReadL(_, _, _)
ReadL(m, id, k) ==
  LET l == m.layers[id] kk == KeyOf(k) IN
  IF l.kind = "diff"
  THEN IF kk \in DOMAIN l.nodes THEN (IF l.nodes[kk] = Del THEN None ELSE l.nodes[kk])
       ELSE ReadL(m, l.parent, k)
  ELSE IF l.stale /\ Bug # "no-stale-check" THEN StaleErr
  ELSE IF kk \in DOMAIN m.buf THEN (IF m.buf[kk] = Del THEN None ELSE m.buf[kk])
  ELSE IF kk \in DOMAIN m.clean THEN m.clean[kk]
  ELSE IF kk \in DOMAIN m.dnodes THEN m.dnodes[kk] ELSE None
Read(id, k) == ReadL(Mem, id, k)

\* diskLayer.commit(bottom, force): returns the memory after it and the id of the new disk layer
DiskCommit(m, did, bid, force) ==
  LET b == m.layers[bid]
      merged == MergeNodes(m.buf, b.nodes)
      nlayers == m.bufLayers + 1
      full == eager /\ merged # NoFn
      flush == force \/ full
      idOk == m.pid + nlayers = b.sid
      newId == m.nl + 1
      newDisk == [kind |-> "disk", root |-> b.root, sid |-> b.sid, stale |-> FALSE, parent |-> 0, nodes |-> NoFn]
      staleOld == [m.layers EXCEPT ![did].stale = TRUE]
  IN
  IF flush /\ ~idOk
  THEN \* buffer.flush refuses; the old disk layer is already stale and no new one exists
       [m |-> [m EXCEPT !.layers = staleOld, !.buf = merged, !.bufLayers = nlayers, !.failed = TRUE], base |-> did, ok |-> FALSE]
  ELSE [m |-> [m EXCEPT !.layers = (newId :> newDisk) @@ staleOld,
                        !.nl = newId,
                        !.buf = IF flush THEN NoFn ELSE merged,
                        !.bufLayers = IF flush THEN 0 ELSE nlayers,
                        !.dnodes = IF flush THEN WriteNodes(m.dnodes, merged, TRUE) ELSE m.dnodes,
                        !.clean = IF flush /\ Bug # "no-clean-invalidate" THEN WriteNodes(m.clean, merged, TRUE) ELSE m.clean,
                        !.pid = IF flush THEN b.sid ELSE m.pid,
                        !.dcontent = IF flush THEN b.root.c ELSE m.dcontent],
        base |-> newId, ok |-> TRUE]

\* diffLayer.persist(force)
RECURSIVE Persist(_, _, _)
Persist(m, id, force) ==
  LET l == m.layers[id] IN
  IF IsDiff(m, l.parent)
  THEN LET r == Persist(m, l.parent, force) IN
       IF ~r.ok THEN r
       ELSE DiskCommit([r.m EXCEPT !.layers[id].parent = r.base], r.base, id, force)
  ELSE DiskCommit(m, l.parent, id, force)

\* the tail of layerTree.cap: drop every layer that hangs (by root hash) under a stale disk layer
ChildrenOf(m, r) == {x \in DOMAIN m.lmap : IsDiff(m, m.lmap[x]) /\ m.layers[m.layers[m.lmap[x]].parent].root = r}
RECURSIVE Closure(_, _)
Closure(m, S) == LET S2 == S \cup UNION {ChildrenOf(m, r) : r \in S} IN IF S2 = S THEN S ELSE Closure(m, S2)
DropStale(m) ==
  LET start == {r \in DOMAIN m.lmap : ~IsDiff(m, m.lmap[r]) /\ m.layers[m.lmap[r]].stale}
      gone == IF FixDropByChain THEN {r \in DOMAIN m.lmap : ~LiveIn(m, m.lmap[r])}
              ELSE IF Bug = "keep-stale-links" THEN start ELSE Closure(m, start) IN
  [m EXCEPT !.lmap = [r \in (DOMAIN m.lmap \ gone) |-> m.lmap[r]]]

RECURSIVE Ancestor(_, _, _)     \* walk n parents while they are diff layers; 0 = reached the disk layer
Ancestor(m, id, n) == IF n = 0 THEN id
                      ELSE IF IsDiff(m, m.layers[id].parent) THEN Ancestor(m, m.layers[id].parent, n - 1) ELSE 0

\* layerTree.cap(root, k), for the layer registered under root
CapId(m, id, k) ==
  IF ~IsDiff(m, id) THEN m
  ELSE IF k = 0
  THEN LET r == Persist(m, id, TRUE) IN
       IF ~r.ok THEN r.m
       ELSE [r.m EXCEPT !.lmap = (r.m.layers[r.base].root :> r.base)]
  ELSE LET diff == Ancestor(m, id, k - 1) IN
       IF diff = 0 \/ ~IsDiff(m, m.layers[diff].parent) THEN m
       ELSE LET r == Persist(m, m.layers[diff].parent, FALSE) IN
            IF ~r.ok THEN r.m
            ELSE DropStale([r.m EXCEPT !.lmap = (r.m.layers[r.base].root :> r.base) @@ r.m.lmap,
                                       !.layers[diff].parent = r.base])
CapM(m, root, k) == CapId(m, m.lmap[root], k)

\* keep only what the tree can still reach (garbage collection of the Go heap; keeps the state space small)
RECURSIVE Chain(_, _)
Chain(m, id) == IF IsDiff(m, id) THEN {id} \cup Chain(m, m.layers[id].parent) ELSE {id}
Reachable(m) == UNION {Chain(m, m.lmap[r]) : r \in DOMAIN m.lmap}
Gc(m) == [m EXCEPT !.layers = [i \in Reachable(m) |-> m.layers[i]]]

SetMem(m0) ==
  LET m == Gc(m0) IN
  /\ layers' = m.layers /\ lmap' = m.lmap /\ nl' = m.nl /\ buf' = m.buf /\ bufLayers' = m.bufLayers
  /\ clean' = m.clean /\ dnodes' = m.dnodes /\ pid' = m.pid /\ dcontent' = m.dcontent /\ failed' = m.failed

----------------------------------------------------------------------------
Init ==
  /\ layers = (1 :> [kind |-> "disk", root |-> ZeroRoot, sid |-> 0, stale |-> FALSE, parent |-> 0, nodes |-> NoFn])
  /\ lmap = (ZeroRoot :> 1) /\ nl = 1
  /\ buf = NoFn /\ bufLayers = 0 /\ clean = NoFn /\ eager \in BOOLEAN
  /\ dnodes = NoFn /\ pid = 0 /\ journal = NoJournal /\ dcontent = EmptyC
  /\ tainted = FALSE /\ failed = FALSE /\ nupd = 0 /\ nrst = 0 /\ act = [name |-> "Init"]

Usable == ~tainted /\ ~failed
LiveRoots == {r \in DOMAIN lmap : Live(lmap[r])}

\* Database.Update(root, parent, ...): tries opened on `parent`, changed, committed; the node sets form a diff layer
Update(parent, c) ==
  LET pid0 == lmap[parent]
      newId == nl + 1
      lay == [kind |-> "diff", root |-> RootOfC(c), sid |-> layers[pid0].sid + 1, stale |-> FALSE,
              parent |-> pid0, nodes |-> MergeNodes(NoFn, Delta(parent.c, c))]
      m1 == [Mem EXCEPT !.layers = (newId :> lay) @@ layers, !.nl = newId,
                        !.lmap = (RootOfC(c) :> newId) @@ lmap]
      m2 == IF AutoCap > 0 THEN CapM(m1, RootOfC(c), AutoCap) ELSE m1
  IN /\ Usable /\ nupd < MaxUpdates
     /\ parent \in LiveRoots /\ parent.ok
     /\ nupd' = nupd + 1
     /\ act' = [name |-> "Update", parent |-> parent, root |-> RootOfC(c)]
     /\ SetMem(m2)
     /\ UNCHANGED <<eager, journal, tainted, nrst>>

Cap(root, k) ==
  /\ Usable /\ root \in LiveRoots
  /\ act' = [name |-> "Cap", root |-> root, k |-> k, diff |-> IsDiff(Mem, lmap[root])]
  /\ SetMem(CapM(Mem, root, k))
  /\ UNCHANGED <<eager, journal, tainted, nupd, nrst>>

\* a read that reaches the disk fills the clean cache: here, every unshadowed persisted node at once
Warm ==
  /\ Usable
  /\ {k \in DOMAIN dnodes : k \notin DOMAIN buf /\ k \notin DOMAIN clean} # {}
  /\ act' = [name |-> "Warm"]
  /\ clean' = [k \in (DOMAIN clean \cup (DOMAIN dnodes \ DOMAIN buf)) |-> IF k \in DOMAIN clean THEN clean[k] ELSE dnodes[k]]
  /\ UNCHANGED <<layers, lmap, nl, buf, bufLayers, eager, dnodes, pid, journal, dcontent, tainted, failed, nupd, nrst>>

RECURSIVE ChainSeq(_)       \* diff layers from the bottom-most to id
ChainSeq(id) == IF layers[id].kind = "diff" THEN Append(ChainSeq(layers[id].parent), id) ELSE <<>>
JournalOf(id) ==
  LET d == layers[Bottom(Mem, id)]
      ds == ChainSeq(id)
      ds2 == IF Bug = "journal-misses-top" /\ Len(ds) > 0 THEN SubSeq(ds, 1, Len(ds) - 1) ELSE ds IN
  [for |-> layers[id].root,      \* ghost: the root the journal was asked for
   disk |-> [root |-> d.root, sid |-> d.sid, nodes |-> buf],
   diffs |-> [i \in 1..Len(ds2) |-> [root |-> layers[ds2[i]].root, nodes |-> layers[ds2[i]].nodes]]]

\* Database.Journal(root); a stale bottom is an error and nothing is written
JournalA(root) ==
  /\ Usable /\ root \in LiveRoots
  /\ act' = [name |-> "Journal", root |-> root]
  /\ journal' = JournalOf(lmap[root])
  /\ UNCHANGED <<layers, lmap, nl, buf, bufLayers, clean, eager, dnodes, pid, dcontent, tainted, failed, nupd, nrst>>

\* a new process on the same disk (after Close, or after a crash): pathdb.New -> loadJournal.
\* dn / pd / dc: the disk at that moment (node table, persisted id, ghost content)
ReopenFrom(dn, pd, dc, a) ==
  LET stale == journal # NoJournal /\ pd > journal.disk.sid
      useJournal == journal # NoJournal /\ ~(FixJournalStale /\ stale)
      label == IF FixDiskRoot THEN RootOfC(dc)
               ELSE IF dn = NoFn THEN ZeroRoot
               ELSE IF "ct" \in Tries /\ "cl" \in Tries /\ <<"ct", <<>>>> \in DOMAIN dn /\ <<"cl", <<>>>> \in DOMAIN dn THEN Garbage
               ELSE ZeroRoot
      n == IF useJournal THEN Len(journal.diffs) ELSE 0
      diskL == IF useJournal
               THEN [kind |-> "disk", root |-> journal.disk.root, sid |-> journal.disk.sid, stale |-> FALSE, parent |-> 0, nodes |-> NoFn]
               ELSE [kind |-> "disk", root |-> label, sid |-> pd, stale |-> FALSE, parent |-> 0, nodes |-> NoFn]
      ls == [i \in 1..(n + 1) |->
               IF i = 1 THEN diskL
               ELSE [kind |-> "diff", root |-> journal.diffs[i - 1].root, sid |-> diskL.sid + (i - 1), stale |-> FALSE,
                     parent |-> i - 1, nodes |-> journal.diffs[i - 1].nodes]]
      \* layerTree.reset walks from the head down: a deeper layer of an equal root overwrites the entry
      lm == [r \in {ls[i].root : i \in 1..(n + 1)} |-> CHOOSE i \in 1..(n + 1) : ls[i].root = r /\ \A j \in 1..(n + 1) : ls[j].root = r => i <= j]
  IN /\ ~failed /\ nrst < MaxRestarts
     /\ nrst' = nrst + 1
     /\ act' = a @@ [journal |-> useJournal]
     /\ eager' = eager
     /\ tainted' = (tainted \/ (useJournal /\ stale) \/ (~useJournal /\ diskL.root # RootOfC(dc)))
     /\ SetMem([layers |-> ls, lmap |-> lm, nl |-> n + 1,
                buf |-> IF useJournal THEN journal.disk.nodes ELSE NoFn,
                bufLayers |-> IF useJournal THEN journal.disk.sid - pd ELSE 0,
                clean |-> NoFn, dnodes |-> dn, pid |-> pd, dcontent |-> dc, failed |-> FALSE])
     /\ UNCHANGED <<journal, nupd>>

Reopen == ReopenFrom(dnodes, pid, dcontent, [name |-> "Reopen"])

\* Commit(root) interrupted by a crash after j of its flushes (each persisted layer is its own
\* batch): the disk is what Commit of the j-th diff layer from the bottom leaves; then a new process
CommitCrash(root, j) ==
  /\ Usable /\ root \in LiveRoots /\ j \in 1..Len(ChainSeq(lmap[root]))
  /\ LET m == CapId(Mem, ChainSeq(lmap[root])[j], 0) IN
     /\ ~m.failed
     /\ ReopenFrom(m.dnodes, m.pid, m.dcontent, [name |-> "CommitCrash", root |-> root, j |-> j])

\* graceful shutdown: Journal(root); Close; a new process
Shutdown(root) ==
  /\ Usable /\ root \in LiveRoots /\ ~failed /\ nrst < MaxRestarts
  /\ LET jn == JournalOf(lmap[root])
         n == Len(jn.diffs)
         diskL == [kind |-> "disk", root |-> jn.disk.root, sid |-> jn.disk.sid, stale |-> FALSE, parent |-> 0, nodes |-> NoFn]
         ls == [i \in 1..(n + 1) |->
                  IF i = 1 THEN diskL
                  ELSE [kind |-> "diff", root |-> jn.diffs[i - 1].root, sid |-> diskL.sid + (i - 1), stale |-> FALSE,
                        parent |-> i - 1, nodes |-> jn.diffs[i - 1].nodes]]
         lm == [r \in {ls[i].root : i \in 1..(n + 1)} |-> CHOOSE i \in 1..(n + 1) : ls[i].root = r /\ \A j \in 1..(n + 1) : ls[j].root = r => i <= j]
     IN /\ journal' = jn
        /\ SetMem([layers |-> ls, lmap |-> lm, nl |-> n + 1, buf |-> jn.disk.nodes, bufLayers |-> jn.disk.sid - pid,
                   clean |-> NoFn, dnodes |-> dnodes, pid |-> pid, dcontent |-> dcontent, failed |-> FALSE])
  /\ nrst' = nrst + 1
  /\ act' = [name |-> "Shutdown", root |-> root, journal |-> TRUE]
  /\ UNCHANGED <<eager, tainted, nupd>>

Succ(c) == {[c EXCEPT ![t][k] = v] : t \in Tries, k \in {x \in Keys : BitsVal(x) < UpdKeys}, v \in 0..MaxV}

Next ==
  \/ \E p \in LiveRoots : \E c \in Succ(p.c) : Update(p, c)
  \/ \E r \in LiveRoots, k \in CapKeeps : Cap(r, k)
  \/ \E r \in LiveRoots : Cap(r, 0)
  \/ Warm
  \/ \E r \in LiveRoots : JournalA(r)
  \/ Reopen
  \/ \E r \in LiveRoots, j \in 1..MaxUpdates : CommitCrash(r, j)
\* the same without a separate Journal action (journal only at shutdown): smaller state space
NextCompact ==
  \/ \E p \in LiveRoots : \E c \in Succ(p.c) : Update(p, c)
  \/ \E r \in LiveRoots, k \in CapKeeps : Cap(r, k)
  \/ \E r \in LiveRoots : Cap(r, 0)
  \/ Warm
  \/ \E r \in LiveRoots : Shutdown(r)
  \/ Reopen
  \/ \E r \in LiveRoots, j \in 1..MaxUpdates : CommitCrash(r, j)
Spec == Init /\ [][Next]_vars

----------------------------------------------------------------------------
(* properties (checked with both switches TRUE; the configuration of the code as it is violates P3) *)

\* P1: through any number of diff layers, before and after flatten / commit / journal;reopen, every
\* node read under a live root is the node of the canonical trie of the content the root commits to
ReadsRight ==
  \A r \in DOMAIN lmap : Live(lmap[r]) =>
     /\ r.ok
     /\ \A k \in NK : Read(lmap[r], k) = NodeAt(r.c, k)
\* P2: a layer that lost its base answers with the stale error or with its own state's node, never
\* with a node of another state (unknown roots have no entry at all: NodeReader fails)
StaleIsError ==
  \A r \in DOMAIN lmap : ~Live(lmap[r]) => \A k \in NK : Read(lmap[r], k) \in {StaleErr, NodeAt(r.c, k)}
\* P3: the disk is always the complete node table of ONE state (flushes are atomic, newer wins,
\* deletions applied), the buffer bookkeeping never refuses a flush, a new process serves a live root
DiskIsOneState == dnodes = NodeTable(dcontent)
FlushNeverRefused == ~failed
OpensAfterRestart == act.name \in {"Reopen", "CommitCrash", "Shutdown"} => (LiveRoots # {} /\ (~act.journal => RootOfC(dcontent) \in LiveRoots))
\* Journal(root); Close; New serves root (and a journal that is loaded serves the root it was written for)
RestartServesJournaled == (act.name \in {"Shutdown", "Reopen"} /\ act.journal) => journal.for \in LiveRoots
\* what Commit(root) promises: the state of root is on disk, and only it is left
CommitDurable == (act.name = "Cap" /\ act.k = 0 /\ act.diff /\ ~failed) => (dcontent = act.root.c /\ DOMAIN lmap = {act.root} /\ buf = NoFn)
\* P4: flatten keeps the branch it was asked to keep
CapKeepsBranch == (act.name = "Cap" /\ ~failed) => (act.root \in LiveRoots)
\* the clean cache never disagrees with the disk
CleanCoherent == \A k \in DOMAIN clean : k \in DOMAIN dnodes /\ clean[k] = dnodes[k]
NeverTainted == ~tainted

\* vacuity witnesses (expected violations)
WitnessSemiStale == \A r \in DOMAIN lmap : Live(lmap[r])
WitnessForkDropped == ~(act.name = "Cap" /\ act.k > 0 /\ Cardinality(DOMAIN lmap) >= 2 /\ \E r \in DOMAIN lmap : ~Live(lmap[r]))
WitnessBufferedJournal == ~(act.name \in {"Reopen", "Shutdown"} /\ act.journal /\ buf # NoFn /\ Cardinality(DOMAIN lmap) >= 2)
WitnessRootReplaced == ~(\E i \in DOMAIN layers : layers[i].kind = "diff" /\ layers[i].root = layers[layers[i].parent].root)
=============================================================================

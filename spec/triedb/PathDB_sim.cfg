\* behaviour generation (tlc -simulate) for pathdb, repaired design; the check rewrites the three
\* Fix switches to what its probe finds in the code under test
CONSTANTS
  H = 3
  MaxV = 2
  Tries = {"cl", "ct", "s1", "s2"}
  MaxUpdates = 1000000
  MaxRestarts = 1000000
  CapKeeps = {1, 2, 3}
  UpdKeys = 8
  AutoCap = 0
  FixJournalStale = TRUE
  FixDiskRoot = TRUE
  FixDropByChain = TRUE
  Bug = "none"
  MBTLen = 30
  Deep = FALSE
INIT MBTInit
NEXT MBTNext
CHECK_DEADLOCK FALSE

----------------------------- MODULE HashDBMBT -----------------------------
(* Behaviour generation for the replayer (engine "triedb", TestHashReplay): HashDB plus a history
   variable and names for contents.  Projection after every step, per named content:
   "D" every node in its own buckets on disk, "R" every node in its buckets on disk or in the dirty
   cache, "A" otherwise (lost in a crash). *)
EXTENDS HashDB, Json

CONSTANT MBTLen
VARIABLES hist, names, head
mbtvars == <<vars, hist, names, head>>

MBTInit == Init /\ hist = <<>> /\ names = (EmptyC :> 0) /\ head = EmptyC

R(S) == IF S = {} THEN {} ELSE {RandomElement(S)}
Pres(c) == {e \in {[t |-> t, k |-> k, v |-> c[t][k]] : t \in Tries, k \in Keys} : e.v # 0}
Changed(c0, c1) == {[t |-> t, k |-> k, v |-> c1[t][k]] : t \in Tries, k \in Keys} \ {[t |-> t, k |-> k, v |-> c0[t][k]] : t \in Tries, k \in Keys}
Slots == Tries \X Keys \X (0..MaxV)
Set1(c, x) == [c EXCEPT ![x[1]][x[2]] = x[3]]
PresentSlots(c) == {<<t, k, 0>> : <<t, k>> \in {y \in Tries \X Keys : c[y[1]][y[2]] # 0}}
\* parents: states whose nodes are in their own buckets (the clean cache of the real database is filled by the replayer's own sweeps)
Usable == {c \in DOMAIN names : Nodes(c) \subseteq disk \cup dirty}
HeadOr(S) == IF head \in S THEN {head} ELSE R(S)

Bag == <<"u1", "u1", "u2", "u3", "ud", "fork", "forkd", "rev", "empty", "commit", "commit", "warm", "reopen">>
Chosen(kind, ph, pr, x1, x2, x3, kc) ==
  CASE kind = "u1" -> Update(ph, Set1(ph, x1))
    [] kind = "u2" -> Update(ph, Set1(Set1(ph, x1), x2))
    [] kind = "u3" -> Update(ph, Set1(Set1(Set1(ph, x1), x2), x3))
    [] kind = "ud" -> \E d \in R(PresentSlots(ph)) : Update(ph, Set1(ph, d))
    [] kind = "fork" -> Update(pr, Set1(Set1(pr, x1), x2))
    [] kind = "forkd" -> \E d \in R(PresentSlots(pr)) : Update(pr, Set1(pr, d))
    [] kind = "rev" -> Update(ph, kc)
    [] kind = "empty" -> Update(ph, ph)
    [] kind = "commit" -> Commit
    [] kind = "warm" -> Warm
    [] kind = "reopen" -> Reopen
Skip == act' = [name |-> "Skip"] /\ UNCHANGED <<dirty, clean, disk, volatile, durable, nupd, nrst>>
SimNext ==
  \E i \in R(1..Len(Bag)), ph \in HeadOr(Usable), pr \in R(Usable), x1 \in R(Slots), x2 \in R(Slots), x3 \in R(Slots), kc \in R(DOMAIN names) :
    IF Bag[i] \in {"ud", "forkd"} THEN (Chosen(Bag[i], ph, pr, x1, x2, x3, kc) \/ (PresentSlots(IF Bag[i] = "ud" THEN ph ELSE pr) = {} /\ Skip))
    ELSE IF ENABLED Chosen(Bag[i], ph, pr, x1, x2, x3, kc) THEN Chosen(Bag[i], ph, pr, x1, x2, x3, kc) ELSE Skip

Status(c) == IF Nodes(c) \subseteq disk' THEN "D" ELSE IF Nodes(c) \subseteq disk' \cup dirty' THEN "R" ELSE "A"

Step ==
  /\ SimNext
  /\ LET isUpd == act'.name = "Update"
         nm == IF isUpd /\ act'.root \notin DOMAIN names THEN (act'.root :> Cardinality(DOMAIN names)) @@ names ELSE names
         a == IF isUpd THEN [name |-> "Update", parent |-> nm[act'.parent], root |-> nm[act'.root],
                             ch |-> Changed(act'.parent, act'.root), pres |-> Pres(act'.root)]
              ELSE act'
         inv == [i \in 0..(Cardinality(DOMAIN nm) - 1) |-> CHOOSE c \in DOMAIN nm : nm[c] = i]
     IN /\ names' = nm
        /\ head' = IF isUpd THEN act'.root ELSE head
        /\ hist' = Append(hist, [a |-> a, st |-> [i \in 0..(Cardinality(DOMAIN nm) - 1) |-> Status(inv[i])]])

Emit ==
  /\ PrintT(ToJson(hist))
  /\ dirty' = {} /\ clean' = {} /\ disk' = {} /\ volatile' = {} /\ durable' = {EmptyC}
  /\ nupd' = 0 /\ nrst' = 0 /\ act' = [name |-> "Init"]
  /\ hist' = <<>> /\ names' = (EmptyC :> 0) /\ head' = EmptyC

MBTNext == IF Len(hist) >= MBTLen THEN Emit ELSE Step
=============================================================================

\* pathdb, the three switches one at a time FALSE (the check rewrites one of them): TLC refutes
\* CapKeepsBranch (FixDropByChain), OpensAfterRestart RestartServesJournaled (FixDiskRoot), ReadsRight (FixJournalStale).
\* Small on purpose (height 1: 2 keys, 3 paths per trie): the shortest refutations need 3 updates and 2 restarts
CONSTANTS
  H = 1
  MaxV = 1
  Tries = {"ct", "s1"}
  MaxUpdates = 3
  MaxRestarts = 2
  CapKeeps = {1, 2}
  UpdKeys = 2
  AutoCap = 0
  FixJournalStale = TRUE
  FixDiskRoot = TRUE
  FixDropByChain = TRUE
  Bug = "none"
INIT Init
NEXT NextCompact
VIEW view
INVARIANTS ReadsRight StaleIsError DiskIsOneState FlushNeverRefused OpensAfterRestart RestartServesJournaled CommitDurable CapKeepsBranch CleanCoherent
CHECK_DEADLOCK FALSE

\* hashdb, exhaustive, thorough: as quick with all 4 keys
\* measured: 40 853 distinct states, depth 8 (23 s, 4 workers); with 4 updates: 992 199 states (12 min)
CONSTANTS
  H = 2
  MaxV = 1
  Tries = {"ct", "s1"}
  MaxUpdates = 3
  MaxRestarts = 2
  UpdKeys = 4
  Bug = "none"
INIT Init
NEXT Next
VIEW view
INVARIANTS KnownReadable DurableOnDisk NoPartialTrie CleanIsDurable
CHECK_DEADLOCK FALSE

\* hashdb, exhaustive (thorough): 2 tries of height 2 (4 keys, 7 paths each), <= 3 updates from any known state
\* (forks are free: the database does not track state roots), Commit / cache warm-up / restart anywhere
CONSTANTS
  H = 2
  MaxV = 1
  Tries = {"ct", "s1"}
  MaxUpdates = 3
  MaxRestarts = 2
  UpdKeys = 4
  Bug = "none"
INIT Init
NEXT Next
VIEW view
INVARIANTS KnownReadable DurableOnDisk NoPartialTrie CleanIsDurable
CHECK_DEADLOCK FALSE

\* behaviour generation (tlc -simulate) for the legacy trie: H = 5 (32 model keys)
CONSTANTS
  H = 5
  MaxV = 3
  MaxSteps = 1000000
  Bug = "none"
  MBTLen = 30
INIT MBTInit
NEXT MBTNext
CHECK_DEADLOCK FALSE

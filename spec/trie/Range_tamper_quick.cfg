\* range proofs, the repaired design: every single tampering of a proof node under a true / singly falsified claim
\* measured: 37 key sets, ~5 s (4 workers)
CONSTANTS
  H = 3
  MaxV = 1
  MaxKeys = 2
  EmptyTrieVerifies = TRUE
  CheckValueDepth = TRUE
  DirtyOnUnset = {"above", "fork", "below"}
  UnsetBoundaryLeaves = TRUE
  CopyOnResolve = TRUE
  RehashResolved = TRUE
INIT Init
NEXT Next
VIEW view
INVARIANTS RangeTamperSound
CHECK_DEADLOCK FALSE

\* shared proof sets, the code as it is (Mutant = "none"): exhaustive over every key/value set with <= 4 present keys
\* at H = 3 over the value alphabet {1, 2} (equal values under different keys: equal sub-tries at different
\* positions, e.g. 000 001 110 111 -> 1 2 1 2), every request of 1..2 distinct keys (present and absent) in both
\* orders, both implementations: every key verifies against the accumulated set; the set is the union of the
\* single-key proofs
\* measured: 849 key/value sets (one of each pair of value-renamed images) x 64 requests x 2, ~10 s
CONSTANTS
  H = 3
  MaxV = 2
  MaxKeys = 4
  EmptyTrieVerifies = TRUE
  CheckValueDepth = TRUE
  MaxReq = 2
  Canonical = TRUE
  Mutant = "none"
INIT SetInit
NEXT SetNext
INVARIANTS SharedSetComplete SharedSetIsUnion
CHECK_DEADLOCK FALSE

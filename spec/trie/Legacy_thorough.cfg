\* legacy trie, exhaustive: H = 3 (8 keys), values {1,2}, <= 5 Put calls, Commit/Reopen anywhere
\* measured: 1 185 573 distinct states (4 min 41 s, 4 workers)
CONSTANTS
  H = 3
  MaxV = 2
  MaxSteps = 5
  Bug = "none"
INIT Init
NEXT Next
VIEW view
INVARIANTS RootIsCanonical GetIsKV Structure CachedValuesRight ReopenIsNoOp
CHECK_DEADLOCK FALSE

-------------------------------- MODULE Trie --------------------------------
(* The protocol-level definition shared by every trie specification (C01, C10).

   A trie of height H maps H-bit keys to values; value 0 = absent.  Its commitment is the
   canonical TERM Root(kv): Empty | Leaf(v) | Bin(l, r) | Edge(child, path).  Hashes are left
   uninterpreted: two terms are equal iff they are the same tree, so equality of terms is equality
   of commitments for any collision-free hash.  (The numeric encoding  H(child, path) + len  and
   H(l, r)  enters only through the harness's independent refimpl.Root.) *)
EXTENDS Integers, Sequences, FiniteSets, TLC

CONSTANTS H,      \* height (key length in bits)
          MaxV    \* values 1..MaxV; 0 = absent / delete

Vals == 1..MaxV
Bits == {0, 1}

RECURSIVE SeqsOfLen(_)
SeqsOfLen(n) == IF n = 0 THEN {<<>>} ELSE {Append(s, b) : s \in SeqsOfLen(n - 1), b \in Bits}
Keys == SeqsOfLen(H)
AllPaths == UNION {SeqsOfLen(n) : n \in 0..H}

Take(s, n) == SubSeq(s, 1, n)
Drop(s, n) == SubSeq(s, n + 1, Len(s))
IsPrefixOf(a, b) == Len(a) <= Len(b) /\ SubSeq(b, 1, Len(a)) = a
RECURSIVE CommonLenFrom(_, _, _)
CommonLenFrom(a, b, i) ==
  IF i > Len(a) \/ i > Len(b) \/ a[i] # b[i] THEN i - 1 ELSE CommonLenFrom(a, b, i + 1)
CommonLen(a, b) == CommonLenFrom(a, b, 1)
Common(a, b) == Take(a, CommonLen(a, b))

\* key <-> index (for compact JSON projections): most significant bit first
RECURSIVE BitsVal(_)
BitsVal(s) == IF s = <<>> THEN 0 ELSE 2 * BitsVal(Take(s, Len(s) - 1)) + s[Len(s)]
KeyOfIndex(i) == CHOOSE k \in Keys : BitsVal(k) = i

----------------------------------------------------------------------------
(* Hash terms *)
Empty == [t |-> "empty"]
Leaf(v) == [t |-> "leaf", v |-> v]
Bin(l, r) == [t |-> "bin", l |-> l, r |-> r]
Edge(c, p) == [t |-> "edge", c |-> c, p |-> p]
\* the commitment of a subtree whose cached/bottom commitment is val, seen through `p` more bits
Wrap(val, p) == IF p = <<>> THEN val ELSE Edge(val, p)

----------------------------------------------------------------------------
(* The canonical commitment of a key/value map (the protocol definition). *)
EmptyKV == [k \in Keys |-> 0]
PresentKeys(m) == {k \in Keys : m[k] # 0}

RECURSIVE CP(_)   \* longest common prefix of a non-empty set of keys
CP(S) == LET k == CHOOSE x \in S : TRUE IN
         IF S = {k} THEN k ELSE Common(k, CP(S \ {k}))

Under(S, p) == {k \in S : IsPrefixOf(p, k)}

RECURSIVE Canon(_, _, _)
\* commitment of the subtree holding the keys S (all extending prefix), seen from position `prefix`
Canon(m, S, prefix) ==
  IF S = {} THEN Empty
  ELSE LET cp == CP(S) IN
       IF Len(cp) > Len(prefix)
       THEN Edge(Canon(m, S, cp), Drop(cp, Len(prefix)))
       ELSE IF Len(prefix) = H THEN Leaf(m[CHOOSE k \in S : TRUE])
       ELSE Bin(Canon(m, Under(S, Append(prefix, 0)), Append(prefix, 0)),
                Canon(m, Under(S, Append(prefix, 1)), Append(prefix, 1)))
Root(m) == Canon(m, PresentKeys(m), <<>>)
\* commitment of whatever lives at/below position p (Empty if nothing)
SubRoot(m, p) == Canon(m, Under(PresentKeys(m), p), p)

----------------------------------------------------------------------------
(* Canonical node positions.
   DensePaths: where the legacy ("dense") trie keeps a node: one per branching point and per leaf.
   SparsePaths: where the protocol's sparse trie has a node (edge XOR binary XOR leaf): trie2's
   path-keyed database holds exactly one entry per such position. *)
RECURSIVE DensePathsOf(_)
DensePathsOf(S) ==
  IF S = {} THEN {}
  ELSE LET cp == CP(S) IN
       IF Len(cp) = H THEN {cp}
       ELSE {cp} \cup DensePathsOf(Under(S, Append(cp, 0))) \cup DensePathsOf(Under(S, Append(cp, 1)))
DensePaths(m) == DensePathsOf(PresentKeys(m))

RECURSIVE SparsePathsOf(_, _)
SparsePathsOf(S, prefix) ==
  IF S = {} THEN {}
  ELSE LET cp == CP(S) IN
       IF Len(cp) > Len(prefix) THEN {prefix} \cup SparsePathsOf(S, cp)
       ELSE IF Len(prefix) = H THEN {prefix}
       ELSE {prefix} \cup SparsePathsOf(Under(S, Append(prefix, 0)), Append(prefix, 0))
                     \cup SparsePathsOf(Under(S, Append(prefix, 1)), Append(prefix, 1))
SparsePaths(m) == SparsePathsOf(PresentKeys(m), <<>>)

\* function helpers
PutF(f, k, v) == [x \in (DOMAIN f \cup {k}) |-> IF x = k THEN v ELSE f[x]]
DelF(f, k) == [x \in (DOMAIN f \ {k}) |-> f[x]]
=============================================================================

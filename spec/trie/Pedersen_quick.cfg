\* the Pedersen table algorithm against its definition, exhaustive over a scaled-down field:
\* windows of 2 bits, 2 low windows (low part 4 bits), 3 high bits, field prime 67 (2^6 < 67 < 2^7: the top
\* bit of the high part can be set, as in p = 2^251 + 17*2^192 + 1), group Z_1009
\* measured: 4 489 distinct states (1 s)
CONSTANTS
  WinBits = 2
  NLow = 2
  HighBits = 3
  FP = 67
  Q = 1009
  G0 = 17
  G1 = 101
  G2 = 233
  G3 = 389
  G4 = 577
  Bug = "none"
INIT Init
NEXT Next
INVARIANTS AlgIsDef
CHECK_DEADLOCK FALSE

\* the Pedersen table algorithm against its definition, exhaustive over a scaled-down field:
\* windows of 2 bits, 3 low windows (low part 6 bits), 4 high bits, field prime 521 (2^9 < 521 < 2^10: the top
\* bit of the high part can be set, as in p = 2^251 + 17*2^192 + 1), group Z_100003
\* measured: 271 441 distinct states
CONSTANTS
  WinBits = 2
  NLow = 3
  HighBits = 4
  FP = 521
  Q = 100003
  G0 = 17
  G1 = 101
  G2 = 233
  G3 = 389
  G4 = 577
  Bug = "none"
INIT Init
NEXT Next
INVARIANTS AlgIsDef
CHECK_DEADLOCK FALSE

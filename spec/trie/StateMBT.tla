------------------------------ MODULE StateMBT ------------------------------
(* Behaviour generation for TestStateReplay: StateCommit plus a history variable.  Each step is one
   atomic update or an EndBlock; EndBlock steps carry the abstract state the block must commit to.
   The replayer applies the updates through Blockchain.Finalise on both state backends, with the
   model's block boundaries and with other splits of the same update sequence. *)
EXTENDS StateCommit, Json

CONSTANT MBTLen
VARIABLE hist
mbtvars == <<vars, hist>>
MBTInit == Init /\ hist = <<>>

R(S) == IF S = {} THEN {} ELSE {RandomElement(S)}
LiveSet == {c \in Contracts : Live(c)}
SimNext ==
  \/ /\ DiffSize(diff) < MaxDiff
     /\ \/ \E c \in R(Contracts), h \in R(Classes) : AddDeploy(c, h)
        \/ \E c \in R(Contracts), h \in R(Classes) : AddDeploy(c, h)
        \/ \E c \in R(LiveSet), h \in R(Classes) : AddReplace(c, h)
        \/ \E c \in R(LiveSet), n \in R(1..MaxNonce) : AddNonce(c, n)
        \/ \E a \in R(LiveSet \cup {Sys}), s \in R(Slots), v \in R(1..MaxVal) : AddWrite(a, s, v)
        \/ \E a \in R(LiveSet), s \in R(Slots), v \in R(1..MaxVal) : AddWrite(a, s, v)
        \/ \E a \in R(LiveSet), s \in R(Slots), v \in R(1..MaxVal) : AddWrite(a, s, v)
        \/ \E a \in R(LiveSet) : \E s \in R({x \in Slots : store[a][x] # 0}) : AddWrite(a, s, 0)
        \/ \E a \in R(LiveSet), s \in R(Slots) : AddWrite(a, s, 0)
        \/ \E k \in R(Sierra), x \in R(Compiled) : AddDeclare(k, x)
     /\ UNCHANGED <<deployed, nonce, store, declared, ctrie, cltrie, blocks>>
  \/ Restart
  \/ EndBlock
  \/ (EndBlock /\ diff # EmptyDiff)
  \/ (EndBlock /\ diff # EmptyDiff /\ blocks >= 0)

Proj == [deployed |-> deployed', nonce |-> nonce', store |-> store', declared |-> declared']
Step == SimNext /\ hist' = Append(hist, IF act'.name = "EndBlock" THEN [a |-> act', st |-> Proj] ELSE [a |-> act'])

Emit ==
  /\ PrintT(ToJson(hist))
  /\ deployed' = [a \in Addrs |-> None] /\ nonce' = [a \in Addrs |-> 0]
  /\ store' = [a \in Addrs |-> [s \in Slots |-> 0]] /\ declared' = [k \in Sierra |-> None]
  /\ ctrie' = [a \in Addrs |-> NoLeaf] /\ cltrie' = [k \in Sierra |-> NoLeaf]
  /\ diff' = EmptyDiff /\ blocks' = 0 /\ act' = [name |-> "Init"] /\ hist' = <<>>

\* a behaviour always ends with a block boundary so that its last updates are committed
MBTNext == IF Len(hist) >= MBTLen /\ diff = EmptyDiff THEN Emit
           ELSE IF Len(hist) >= MBTLen THEN EndBlock /\ hist' = Append(hist, [a |-> act', st |-> Proj])
           ELSE Step
=============================================================================

------------------------------ MODULE StateMBT ------------------------------
(* Behaviour generation for TestStateReplay: StateCommit plus a history variable.  Each step is one
   atomic update or an EndBlock; EndBlock steps carry the abstract state the block must commit to.
   The replayer applies the updates through Blockchain.Finalise on both state backends, with the
   model's block boundaries and with other splits of the same update sequence.

   Value-domain dimension (FeltDomain.tla): every behaviour carries a magnitude class for each storage
   value index, class hash, compiled class hash and nonce value; the replayer concretises them as felts
   of that class, so that extreme felts reach every operand position of the contract leaf
   H(H(H(class_hash, storage_root), nonce), 0), of the storage tries' leaves and bottom binary nodes
   (adjacent slots) and of the class leaf.
   Read-fault dimension: a ReadFault step marks the block under construction: the replayer applies that
   block once per read position with that read failing (on a copy of the node), see StateCommit.tla. *)
EXTENDS StateCommit, Json, FeltDomain

CONSTANT MBTLen
VARIABLES hist, mag
mbtvars == <<vars, hist, mag>>

R(S) == IF S = {} THEN {} ELSE {RandomElement(S)}
\* (an operator with a parameter: TLC evaluates a constant-level definition only once)
RandomMag(x) == [val |-> RandomElement(MagAssignments(1..MaxVal)), class |-> RandomElement(MagAssignments(Classes)),
              comp |-> RandomElement(MagAssignments(Compiled)), nonce |-> RandomElement(MagAssignments(1..MaxNonce))]
MBTInit == Init /\ hist = <<>> /\ mag = RandomMag(0)
LiveSet == {c \in Contracts : Live(c)}
SimNext ==
  \/ /\ DiffSize(diff) < MaxDiff
     /\ \/ \E c \in R(Contracts), h \in R(Classes) : AddDeploy(c, h)
        \/ \E c \in R(Contracts), h \in R(Classes) : AddDeploy(c, h)
        \/ \E c \in R(LiveSet), h \in R(Classes) : AddReplace(c, h)
        \/ \E c \in R(LiveSet), n \in R(1..MaxNonce) : AddNonce(c, n)
        \/ \E a \in R(LiveSet \cup {Sys}), s \in R(Slots), v \in R(1..MaxVal) : AddWrite(a, s, v)
        \/ \E a \in R(LiveSet), s \in R(Slots), v \in R(1..MaxVal) : AddWrite(a, s, v)
        \/ \E a \in R(LiveSet), s \in R(Slots), v \in R(1..MaxVal) : AddWrite(a, s, v)
        \/ \E a \in R(LiveSet) : \E s \in R({x \in Slots : store[a][x] # 0}) : AddWrite(a, s, 0)
        \/ \E a \in R(LiveSet), s \in R(Slots) : AddWrite(a, s, 0)
        \/ \E k \in R(Sierra), x \in R(Compiled) : AddDeclare(k, x)
     /\ UNCHANGED <<deployed, nonce, store, declared, ctrie, cltrie, blocks>>
  \/ Restart
  \/ \E f \in R(FaultPos) : ReadFault(f)
  \/ EndBlock
  \/ (EndBlock /\ diff # EmptyDiff)
  \/ (EndBlock /\ diff # EmptyDiff /\ blocks >= 0)

Proj == [deployed |-> deployed', nonce |-> nonce', store |-> store', declared |-> declared']
\* the first step of a behaviour carries the behaviour's magnitude assignment
Rec == LET base == IF act'.name = "EndBlock" THEN [a |-> act', st |-> Proj] ELSE [a |-> act']
       IN IF hist = <<>> THEN base @@ [mag |-> mag] ELSE base
Step == SimNext /\ mag' = mag /\ hist' = Append(hist, Rec)

Emit ==
  /\ PrintT(ToJson(hist))
  /\ deployed' = [a \in Addrs |-> None] /\ nonce' = [a \in Addrs |-> 0]
  /\ store' = [a \in Addrs |-> [s \in Slots |-> 0]] /\ declared' = [k \in Sierra |-> None]
  /\ ctrie' = [a \in Addrs |-> NoLeaf] /\ cltrie' = [k \in Sierra |-> NoLeaf]
  /\ diff' = EmptyDiff /\ blocks' = 0 /\ act' = [name |-> "Init"] /\ hist' = <<>>
  /\ mag' = RandomMag(hist)

\* a behaviour always ends with a block boundary so that its last updates are committed
MBTNext == IF Len(hist) >= MBTLen /\ diff = EmptyDiff THEN Emit
           ELSE IF Len(hist) >= MBTLen THEN EndBlock /\ hist' = Append(hist, [a |-> act', st |-> Proj]) /\ mag' = mag
           ELSE Step
=============================================================================

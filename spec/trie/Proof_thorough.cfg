\* membership proofs, repaired design (all switches TRUE), exhaustive over every key/value set with
\* <= 4 present keys (values {1,2}) at H = 3, every queried key, both implementations, every single tampering
CONSTANTS
  H = 3
  MaxV = 2
  MaxKeys = 4
  EmptyTrieVerifies = TRUE
  CheckValueDepth = TRUE
INIT Init
NEXT Next
VIEW view
INVARIANTS Completeness Soundness
CHECK_DEADLOCK FALSE

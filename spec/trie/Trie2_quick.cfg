\* trie2, repaired design (FixValueDeletePath = TRUE), exhaustive: H = 3, values {1}, <= 4 updates,
\* Get / Hash / Commit / Reopen anywhere
\* measured: 23 628 distinct states (10 s, 4 workers)
CONSTANTS
  H = 3
  MaxV = 1
  MaxSteps = 4
  FixValueDeletePath = TRUE
  Bug = "none"
INIT Init
NEXT Next
VIEW view
INVARIANTS RootRight CachesRight Canonical RefsOk GetRight DbRight NoOrphans
CHECK_DEADLOCK FALSE

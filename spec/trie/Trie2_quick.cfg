\* trie2, repaired design (FixValueDeletePath = TRUE), exhaustive: H = 3, values {1}, <= 4 updates,
\* Get / Hash / Commit / Reopen anywhere
CONSTANTS
  H = 3
  MaxV = 1
  MaxSteps = 4
  FixValueDeletePath = TRUE
  Bug = "none"
INIT Init
NEXT Next
VIEW view
INVARIANTS RootRight CachesRight Canonical RefsOk GetRight DbRight NoOrphans
CHECK_DEADLOCK FALSE

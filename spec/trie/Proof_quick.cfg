\* membership proofs, repaired design (all switches TRUE), exhaustive over every key/value set with
\* <= 3 present keys at H = 3, every queried key, both implementations, every single tampering
\* measured: 93 distinct key/value sets x 8 keys x 2 implementations x every tampering (8 s)
CONSTANTS
  H = 3
  MaxV = 1
  MaxKeys = 3
  EmptyTrieVerifies = TRUE
  CheckValueDepth = TRUE
INIT Init
NEXT Next
VIEW view
INVARIANTS Completeness Soundness
CHECK_DEADLOCK FALSE

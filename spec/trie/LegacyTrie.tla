----------------------------- MODULE LegacyTrie -----------------------------
(* Transcription of core/trie (the legacy "dense" Merkle-Patricia trie) at the granularity of its
   public calls:

     Put(k, v)   core/trie/trie.go:507 Put = updateLeaf | handleEmptyTrie | deleteExistingKey ->
                 deleteLast (:757) | zero no-op | insertOrUpdateValue (:434)
     Commit      Hash()/Commit() (:802) = persist rootKey if dirty, updateValueIfDirty (:637) from
                 the root restricted to prefixes of dirty keys, clear dirtyNodes
     Reopen      a new Trie object on the same storage (newTrieReader reads the persisted root key)

   Storage is the node table `tbl` keyed by path (one node per branching point and per leaf) with
   left/right links and a CACHED commitment `val`; `dirty` is dirtyNodes; rootKey/rootDirty/diskRoot
   are rootKey / rootKeyIsDirty / the persisted root key.  The cached value of a node that is not a
   proper prefix of a dirty key is kept at commit - exactly where a stale-hash bug would live.

   Property (C01): after every Commit the root term equals Root(kv) of Trie.tla, the table is
   canonical, Reopen is a no-op.  Bug is a seeded-defect switch used to show the property bites. *)
EXTENDS Trie

CONSTANTS MaxSteps,   \* bound on Put calls
          Bug         \* "none" | "nodirty-on-delete" | "nodirty-on-split" | "stale-root"

NoKey == <<2>>        \* the nil *BitArray

VARIABLES kv,         \* abstract map: key -> value (0 = absent); the specification's view
          tbl,        \* stored nodes: path -> [val, left, right]
          rootKey, rootDirty, diskRoot,
          dirty,      \* dirtyNodes (as a set of paths)
          committed,  \* no Put since the last Commit
          steps, act
vars == <<kv, tbl, rootKey, rootDirty, diskRoot, dirty, committed, steps, act>>
view == <<kv, tbl, rootKey, rootDirty, diskRoot, dirty, committed, steps>>

Stored == DOMAIN tbl
LeafNode(v) == [val |-> Leaf(v), left |-> NoKey, right |-> NoKey]
\* path(key, parentKey): drop the parent's bits and the branch bit; the whole key under the root
PathFrom(key, parent) == IF parent = NoKey THEN key ELSE Drop(key, Len(parent) + 1)
\* Node.Hash(path): value if the path is empty, else H(value, path) + len
ChildHash(t, child, parent) == Wrap(t[child].val, PathFrom(child, parent))
RootTerm == IF rootKey = NoKey THEN Empty ELSE Wrap(tbl[rootKey].val, rootKey)

Init ==
  /\ kv = EmptyKV /\ tbl = << >> /\ rootKey = NoKey /\ rootDirty = FALSE /\ diskRoot = NoKey
  /\ dirty = {} /\ committed = TRUE /\ steps = 0 /\ act = [name |-> "Init"]

\* nodesFromRoot(key): the stored nodes met walking from the root towards key
RECURSIVE Walk(_, _, _)
Walk(t, cur, key) ==
  IF cur = NoKey THEN <<>>
  ELSE IF Len(cur) >= Len(key) \/ ~IsPrefixOf(cur, key) THEN <<cur>>
  ELSE <<cur>> \o Walk(t, IF key[Len(cur) + 1] = 1 THEN t[cur].right ELSE t[cur].left, key)

Relink(node, old, new) == IF node.left = old THEN [node EXCEPT !.left = new] ELSE [node EXCEPT !.right = new]

Put(k, v) ==
  LET nodes == Walk(tbl, rootKey, k)
      n == Len(nodes) IN
  /\ steps < MaxSteps
  /\ steps' = steps + 1 /\ committed' = FALSE
  /\ act' = [name |-> "Put", k |-> k, v |-> v]
  /\ kv' = [kv EXCEPT ![k] = v]
  /\ UNCHANGED diskRoot
  /\ IF v # 0 /\ k \in Stored                                     \* updateLeaf
     THEN /\ tbl' = PutF(tbl, k, LeafNode(v)) /\ dirty' = dirty \cup {k}
          /\ UNCHANGED <<rootKey, rootDirty>>
     ELSE IF n = 0                                                  \* handleEmptyTrie
     THEN IF v = 0 THEN UNCHANGED <<tbl, rootKey, rootDirty, dirty>>
          ELSE /\ tbl' = PutF(tbl, k, LeafNode(v)) /\ rootKey' = k /\ rootDirty' = TRUE
               /\ UNCHANGED dirty
     ELSE LET sib == nodes[n] IN
          IF sib = k                                                \* deleteLast (v = 0 here)
          THEN IF n = 1 THEN /\ tbl' = DelF(tbl, k) /\ rootKey' = NoKey /\ rootDirty' = TRUE
                             /\ UNCHANGED dirty
               ELSE LET par == nodes[n - 1]
                        other == IF tbl[par].left = k THEN tbl[par].right ELSE tbl[par].left
                        t1 == DelF(DelF(tbl, k), par) IN
                    IF n = 2 THEN /\ tbl' = t1 /\ rootKey' = other /\ rootDirty' = TRUE
                                  /\ UNCHANGED dirty
                    ELSE LET gp == nodes[n - 2] IN
                         /\ tbl' = PutF(t1, gp, Relink(tbl[gp], par, other))
                         /\ UNCHANGED <<rootKey, rootDirty>>
                         /\ dirty' = IF Bug = "nodirty-on-delete" THEN dirty ELSE dirty \cup {other}
          ELSE IF v = 0 THEN UNCHANGED <<tbl, rootKey, rootDirty, dirty>>   \* zero to an absent key
          ELSE                                                      \* insertOrUpdateValue
            LET ck == Common(k, sib)
                newIsRight == k[Len(ck) + 1] = 1
                t1 == PutF(tbl, k, LeafNode(v))
                lk == IF newIsRight THEN sib ELSE k
                rk == IF newIsRight THEN k ELSE sib
                \* the new parent's value is computed eagerly from the sibling's CACHED value
                pn == [val |-> Bin(ChildHash(t1, lk, ck), ChildHash(t1, rk, ck)), left |-> lk, right |-> rk]
                t2 == PutF(t1, ck, pn) IN
            IF n > 1
            THEN LET sp == nodes[n - 1] IN
                 /\ tbl' = PutF(t2, sp, Relink(tbl[sp], sib, ck))
                 /\ dirty' = IF Bug = "nodirty-on-split" THEN dirty ELSE dirty \cup {ck}
                 /\ UNCHANGED <<rootKey, rootDirty>>
            ELSE /\ tbl' = t2 /\ rootKey' = ck /\ rootDirty' = TRUE /\ UNCHANGED dirty

\* updateValueIfDirty: recompute the cached value of every inner node that is a proper prefix of a dirty key
ShouldUpdate(K) == Len(K) < H /\ \E d \in dirty : Len(K) < Len(d) /\ IsPrefixOf(K, d)
RECURSIVE NewVal(_)
NewVal(K) ==
  IF ~ShouldUpdate(K) THEN tbl[K].val
  ELSE Bin(Wrap(NewVal(tbl[K].left), PathFrom(tbl[K].left, K)),
           Wrap(NewVal(tbl[K].right), PathFrom(tbl[K].right, K)))
\* (ShouldUpdate is closed under taking prefixes, so every such node is reached from the root)

Commit ==
  /\ act' = [name |-> "Commit"]
  /\ committed' = TRUE
  /\ rootDirty' = FALSE
  /\ diskRoot' = IF rootDirty /\ Bug # "stale-root" THEN rootKey ELSE diskRoot
  /\ IF rootKey = NoKey
     THEN UNCHANGED <<tbl, dirty>>               \* Hash() returns zero before clearing dirtyNodes
     ELSE /\ tbl' = [K \in Stored |-> [tbl[K] EXCEPT !.val = NewVal(K)]]
          /\ dirty' = {}
  /\ UNCHANGED <<kv, rootKey, steps>>

\* a new Trie object over the same storage; callers always Commit before dropping a trie
Reopen ==
  /\ committed
  /\ act' = [name |-> "Reopen"]
  /\ rootKey' = diskRoot /\ rootDirty' = FALSE /\ dirty' = {}
  /\ UNCHANGED <<kv, tbl, diskRoot, committed, steps>>

PutAny == \E k \in Keys, v \in 0..MaxV : Put(k, v)
CommitDirty == ~committed /\ Commit
Next == PutAny \/ CommitDirty \/ Reopen
Spec == Init /\ [][Next]_vars

----------------------------------------------------------------------------
(* Properties *)
RootIsCanonical == committed => RootTerm = Root(kv)

\* Get reads the leaf node directly by its full key
GetOf(k) == IF k \in Stored THEN tbl[k].val ELSE Leaf(0)
GetIsKV == \A k \in Keys : GetOf(k) = Leaf(kv[k])

RECURSIVE ReachFrom(_)
ReachFrom(K) == IF K = NoKey THEN {} ELSE IF Len(K) = H THEN {K}
                ELSE {K} \cup ReachFrom(tbl[K].left) \cup ReachFrom(tbl[K].right)
\* dense canonical form: a node per branching point and per leaf, nothing else, links consistent
Structure ==
  /\ Stored = DensePaths(kv)
  /\ ReachFrom(rootKey) = Stored
  /\ \A K \in Stored : Len(K) < H =>
        /\ tbl[K].left \in Stored /\ tbl[K].right \in Stored
        /\ IsPrefixOf(Append(K, 0), tbl[K].left) /\ IsPrefixOf(Append(K, 1), tbl[K].right)
\* every cached inner value is right once committed (stronger than the root alone)
CachedValuesRight == committed => \A K \in Stored : tbl[K].val = SubRoot(kv, K)
ReopenIsNoOp == committed => diskRoot = rootKey
=============================================================================

\* behaviour generation for a tree that still has the trie.go:511 value-delete defect (picked by the probe only)
CONSTANTS
  H = 5
  MaxV = 3
  MaxSteps = 1000000
  FixValueDeletePath = FALSE
  Bug = "none"
  MBTLen = 30
INIT MBTInit
NEXT MBTNext
CHECK_DEADLOCK FALSE

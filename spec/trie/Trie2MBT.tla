------------------------------ MODULE Trie2MBT ------------------------------
(* Behaviour generation for the replayer (engine "trie", TestTrieReplay): Trie2 plus a history
   variable; see LegacyMBT.  Projection: present key/value pairs, the set of database paths after
   the step, the predicted orphans (database entries outside the canonical sparse trie). *)
EXTENDS Trie2, Json, FeltDomain

CONSTANT MBTLen
VARIABLES hist,
          mag    \* value-domain dimension (FeltDomain.tla): magnitude class of every abstract value, per behaviour
mbtvars == <<vars, hist, mag>>

MBTInit == Init /\ hist = <<>> /\ mag \in MagAssignments(Vals)

R(S) == IF S = {} THEN {} ELSE {RandomElement(S)}
FlipAt(k, i) == [k EXCEPT ![i] = 1 - @]
Near == {FlipAt(k, i) : k \in PresentKeys(kv), i \in 1..H}
Sibling == {FlipAt(k, H) : k \in PresentKeys(kv)}

SimNext ==
  \/ \E k \in R(Keys), v \in R(Vals) : Update(k, v)
  \/ \E k \in R(Near), v \in R(Vals) : Update(k, v)
  \/ \E k \in R(Sibling), v \in R(Vals) : Update(k, v)
  \/ \E k \in R(PresentKeys(kv)), v \in R(Vals) : Update(k, v)
  \/ \E k \in R(PresentKeys(kv)) : Update(k, 0)
  \/ \E k \in R(PresentKeys(kv)) : Update(k, 0)
  \/ \E k \in R(Near) : Update(k, 0)
  \/ \E k \in R(Keys \cup PresentKeys(kv)) : Get(k)
  \/ HashOp
  \/ Commit
  \/ (Commit /\ steps >= 0)
  \/ Reopen

Proj == [pres |-> {[k |-> k, v |-> kv'[k]] : k \in PresentKeys(kv')},
         dbpaths |-> DOMAIN db',
         orphans |-> DOMAIN db' \ SparsePaths(ckv'),
         dead |-> dead']

Step == SimNext /\ hist' = Append(hist, [a |-> act', mag |-> mag] @@ Proj) /\ mag' = mag

Emit ==
  /\ PrintT(ToJson(hist))
  /\ kv' = EmptyKV /\ ckv' = EmptyKV /\ root' = NilN /\ tr' = [ins |-> {}, del |-> {}]
  /\ db' = NoFn /\ dead' = FALSE /\ steps' = 0 /\ act' = [name |-> "Init"] /\ hist' = <<>>
  /\ mag' \in R(MagAssignments(Vals))

MBTNext == IF Len(hist) >= MBTLen THEN Emit ELSE Step
=============================================================================

\* shared proof sets, the code as it is, at H = 4 (thorough tier): every key set with <= 5 keys of one value (every
\* sub-trie shape repeats; edges of DIFFERENT LENGTH above equal sub-tries need 5 keys: 0000 0001 1000 1100 1101), every
\* request of 1..2 distinct keys in both orders, both implementations.  Put histories from the empty set (Proof.tla
\* Init / Next) so that TLC's workers share the states
\* measured: 6 885 key sets, ~5 min (4 workers on a loaded machine)
CONSTANTS
  H = 4
  MaxV = 1
  MaxKeys = 5
  EmptyTrieVerifies = TRUE
  CheckValueDepth = TRUE
  MaxReq = 2
  Canonical = FALSE
  Mutant = "none"
INIT Init
NEXT Next
VIEW view
INVARIANTS SharedSetComplete SharedSetIsUnion
CHECK_DEADLOCK FALSE

\* as Range_tamper_quick.cfg with <= 3 keys
CONSTANTS
  H = 3
  MaxV = 1
  MaxKeys = 3
  EmptyTrieVerifies = TRUE
  CheckValueDepth = TRUE
  DirtyOnUnset = {"above", "fork", "below"}
  UnsetBoundaryLeaves = TRUE
  CopyOnResolve = TRUE
  RehashResolved = TRUE
INIT Init
NEXT Next
VIEW view
INVARIANTS RangeTamperSound
CHECK_DEADLOCK FALSE

\* as Range_repaired_quick.cfg with <= 4 keys and two values
CONSTANTS
  H = 3
  MaxV = 2
  MaxKeys = 4
  EmptyTrieVerifies = TRUE
  CheckValueDepth = TRUE
  DirtyOnUnset = {"above", "fork", "below"}
  UnsetBoundaryLeaves = TRUE
  CopyOnResolve = TRUE
  RehashResolved = TRUE
INIT Init
NEXT Next
VIEW view
INVARIANTS RangeContractStrict RangeNoPanic
CHECK_DEADLOCK FALSE

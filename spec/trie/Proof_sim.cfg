\* behaviour generation for membership / range proofs, the code as it is
CONSTANTS
  H = 4
  MaxV = 3
  MaxKeys = 7
  EmptyTrieVerifies = FALSE
  CheckValueDepth = FALSE
  LeftEdgeChecked = FALSE
  MBTLen = 40
INIT MBTInit
NEXT MBTNext
CHECK_DEADLOCK FALSE

------------------------------- MODULE Proof -------------------------------
(* C10: Merkle proofs over the canonical trie of Trie.tla.

   Prove(impl, k)   the node sequence the code collects, root first:
                    core/trie/proof.go:70 Prove (nodesFromRoot; every dense node contributes its edge
                    and its binary part, the node where the walk leaves the key's path included);
                    core/trie2/proof.go:24 Prove (path nodes with collapsed children; stops at the
                    edge that does not match).
   Verify(impl, root, k, proof)   transcribed from core/trie/proof.go:144 and core/trie2/proof.go:110
                    VerifyProof: look the expected hash up, compare the node's hash, binary = one key
                    bit, edge = verifyEdgePath / PathMatches (an authenticated mismatch proves
                    absence), stop when the key is consumed (legacy) / at a value child (trie2).
   Tamper           an alphabet of single alterations of a proof: drop a node; alter a child hash
                    (junk, copy of the sibling); swap children; flip / shorten / lengthen an edge
                    path; replace the leaf value (alone, or re-hashing the whole path); query another
                    key; store the altered node under its old key or under its new hash; retype a
                    trie2 child between hash and value.  Every altered node is REBUILT from its
                    content (no cached hash): a proof received from outside never carries
                    nodeFlag.Hash, so "altered in place with the cache kept" is not a tampering of a
                    proof but an artefact of mutating in-memory objects, and is not generated.

   Hashes are injective terms.  Properties, for every key/value set, key and tampering:
     Completeness   Verify(Root(kv), k, Prove(k)) = kv[k]   (absent keys at every divergence depth)
     Soundness      Verify on a tampered proof = error or the TRUE value, never a false value/absence.

   Proof SETS (section "shared proof sets" below; properties and configs in ProofSet.tla): the code never hands
   the result of ONE Prove call to a verifier - rpc/v{8,9,10}/storage.go and GetRangeProof fill one ProofNodeSet
   per trie with one Prove call per requested key, in request order.  The identity of a node in that set is its
   HASH, not its position, and the value alphabet allows EQUAL values under different keys, so equal sub-tries
   at different positions (same nodes below, different edges above) exist in the small model.
     SharedSetComplete   for every request (ordered list of distinct keys, present and absent) EVERY key of the
                         request verifies against the accumulated set and yields its value / absence.

   Switches (FALSE/TRUE = the code as it is / repaired), each a confirmed deviation of the code:
     EmptyTrieVerifies   code: both verifiers answer "proof node not found" for the empty trie
     CheckValueDepth     code (trie2): a child TYPED as value ends the walk at any depth, so a node whose
                         hash child is retyped as value "proves" an inner hash as the key's value
   (trie2's hasher.hash trusts nodeFlag.Hash of a proof node; honest nodes returned by Prove carry a
   correct cache and rebuilt nodes carry none, so the cache never changes a MEMBERSHIP verdict.  It can
   change a range verdict: VerifyRangeProof cuts subtrees out of the proof nodes and re-hashes them, so
   there the provenance of honest nodes - with / without cache - is a dimension: RangeProof.tla.) *)
EXTENDS Trie

CONSTANTS MaxKeys, EmptyTrieVerifies, CheckValueDepth

VARIABLES kv, act, res
vars == <<kv, act, res>>

Impls == {"legacy", "trie2"}
NoHash == [t |-> "none"]
Err == [t |-> "err"]
Val(x) == [t |-> "val", v |-> x]
Junk == Leaf(MaxV + 1)            \* a value/hash that occurs nowhere in the trie

\* a child reference inside a proof node: kind matters to trie2 only (HashNode / ValueNode)
Ref(kind, h) == [k |-> kind, h |-> h]
RefAt(m, pos) == Ref(IF Len(pos) = H THEN "value" ELSE "hash", SubRoot(m, pos))
BinNode(l, r, cache) == [t |-> "bin", l |-> l, r |-> r, cache |-> cache]
EdgeNode(c, p, cache) == [t |-> "edge", c |-> c, p |-> p, cache |-> cache]
NodeHash(n) == IF n.t = "bin" THEN Bin(n.l.h, n.r.h) ELSE Edge(n.c.h, n.p)
Fresh(n) == [n EXCEPT !.cache = NoHash]

----------------------------------------------------------------------------
(* Prove: canonical nodes met from the root towards k.  cached = the trie was hashed / loaded from
   the database, so trie2's nodes carry their hash in nodeFlag. *)
CanonBin(m, pos) == BinNode(RefAt(m, Append(pos, 0)), RefAt(m, Append(pos, 1)), NoHash)
WithCache(n, impl, cached) == IF impl = "trie2" /\ cached THEN [n EXCEPT !.cache = NodeHash(n)] ELSE n

RECURSIVE ProvePath(_, _, _, _)
ProvePath(m, impl, k, pos) ==
  LET S == Under(PresentKeys(m), pos) IN
  IF S = {} \/ Len(pos) = H THEN <<>>
  ELSE LET cp == CP(S) IN
       IF Len(cp) > Len(pos)
       THEN LET e == EdgeNode(RefAt(m, cp), Drop(cp, Len(pos)), NoHash) IN
            IF IsPrefixOf(cp, k) THEN <<e>> \o ProvePath(m, impl, k, cp)
            ELSE IF impl = "legacy" /\ Len(cp) < H THEN <<e, CanonBin(m, cp)>>   \* the dense node's binary part
            ELSE <<e>>
       ELSE <<CanonBin(m, pos)>> \o ProvePath(m, impl, k, Append(pos, k[Len(pos) + 1]))

\* a proof is a sequence of [key, n]: the OrderedSet keyed by hash, in insertion order
Prove(m, impl, k, cached) ==
  LET ns == ProvePath(m, impl, k, <<>>) IN
  [i \in 1..Len(ns) |-> [key |-> NodeHash(ns[i]), n |-> WithCache(ns[i], impl, cached)]]

Has(pf, h) == \E i \in 1..Len(pf) : pf[i].key = h
\* OrderedSet.Put on an existing key replaces the value: the LAST entry of a key is the one found
Lookup(pf, h) == pf[CHOOSE i \in 1..Len(pf) : pf[i].key = h /\ \A j \in (i + 1)..Len(pf) : pf[j].key # h].n

----------------------------------------------------------------------------
(* Shared proof sets.

   rpc/v10/storage.go getClassProof / getContractProofWith(Deprecated)Trie / getContractStorageProof (v8, v9
   alike) and both GetRangeProof: `set := NewProofNodeSet(); for _, key := range keys { t.Prove(&key, set) }`.
   The set is utils.OrderedSet: hash -> node in insertion order; Put on a hash that is present REPLACES the node
   in place.  SharedSet(m, impl, req, cached, mut) is the set after the Prove calls of the request `req` (a
   sequence of keys), each call putting the nodes of ProvePath top-down.

   `mut` says how a Prove call treats what EARLIER calls left in the set.  "none" is the code as it is (Prove
   never reads the set).  The others are the designs a multi-key "optimisation" arrives at when it takes the
   hash of a node for its position; each is an expected-violation config of ProofSet.tla:
     "skip-known-child"   a node whose CHILD hash the set already holds is not put: "an earlier call went
                          through the node below, so it went through this one" (legacy: the storage node whose
                          binary part is in the set is skipped together with its edge).  Wrong when the trie
                          holds two equal sub-tries below different edges.
     "stop-at-known"      the walk ends at the first node the set already holds: "the rest of the path is
                          there" (a visited-set shared between the calls).  Wrong as soon as two keys part
                          below a common node.
     "key-by-child"       an edge is filed under the hash of its child: the identity of a node is the sub-trie
                          below it.  Loses the edge to the binary node filed under the same hash. *)
Muts == {"none", "skip-known-child", "stop-at-known", "key-by-child"}
SetHas(set, h) == \E i \in 1..Len(set) : set[i].key = h
SetPut(set, h, n) ==
  IF SetHas(set, h) THEN [i \in 1..Len(set) |-> IF set[i].key = h THEN [key |-> h, n |-> n] ELSE set[i]]
  ELSE Append(set, [key |-> h, n |-> n])
RECURSIVE PutNodes(_, _, _, _)
PutNodes(set, ns, i, mut) ==
  IF i > Len(ns) THEN set
  ELSE LET n == ns[i]
           h == NodeHash(n) IN
       IF mut = "stop-at-known" /\ SetHas(set, h) THEN set
       ELSE IF mut = "skip-known-child" /\ n.t = "edge" /\ SetHas(set, n.c.h) THEN PutNodes(set, ns, i + 1, mut)
       ELSE PutNodes(SetPut(set, IF mut = "key-by-child" /\ n.t = "edge" THEN n.c.h ELSE h, n), ns, i + 1, mut)
\* one more Prove(k) call on the set
ProveInto(set, m, impl, k, cached, mut) ==
  LET ns == ProvePath(m, impl, k, <<>>) IN
  PutNodes(set, [i \in 1..Len(ns) |-> WithCache(ns[i], impl, cached)], 1, mut)
RECURSIVE ProveReq(_, _, _, _, _, _, _)
ProveReq(set, m, impl, req, i, cached, mut) ==
  IF i > Len(req) THEN set
  ELSE ProveReq(ProveInto(set, m, impl, req[i], cached, mut), m, impl, req, i + 1, cached, mut)
SharedSet(m, impl, req, cached, mut) == ProveReq(<<>>, m, impl, req, 1, cached, mut)
\* the same with the node sequences of the single calls given (paths[k] = the nodes Prove(k) collects): lets a
\* property evaluate ProvePath once per key instead of once per request
RECURSIVE AccumulateFrom(_, _, _, _, _)
AccumulateFrom(set, paths, req, i, mut) ==
  IF i > Len(req) THEN set ELSE AccumulateFrom(PutNodes(set, paths[req[i]], 1, mut), paths, req, i + 1, mut)
Accumulate(paths, req, mut) == AccumulateFrom(<<>>, paths, req, 1, mut)
SetKeys(set) == {set[i].key : i \in 1..Len(set)}

\* two equal sub-tries (a binary node on top) at different positions, reached through different edges: the
\* shape on which "the hash of a node" and "the position of a node" part
EdgeInto(m, q) ==      \* the edge node of the canonical trie that ends at position q (<<>> = none: q hangs directly under a binary node / is the root)
  LET ups == {n \in 0..(Len(q) - 1) : Cardinality({x \in Bits : Under(PresentKeys(m), Append(Take(q, n), x)) # {}}) = 2}
      from == IF ups = {} THEN 0 ELSE 1 + (CHOOSE n \in ups : \A x \in ups : x <= n) IN
  Drop(q, from)
Twins(m) == {pq \in DensePaths(m) \X DensePaths(m) :
               /\ pq[1] # pq[2] /\ Len(pq[1]) = Len(pq[2]) /\ Len(pq[1]) < H
               /\ SubRoot(m, pq[1]).t = "bin" /\ SubRoot(m, pq[1]) = SubRoot(m, pq[2])
               /\ EdgeInto(m, pq[1]) # EdgeInto(m, pq[2])}

----------------------------------------------------------------------------
(* Verify *)
\* BitArray.EqualMSBs: equal when of equal length, otherwise compare the common prefix length
EqualMSBs(a, b) == IF Len(a) = Len(b) THEN a = b
                   ELSE IF Len(a) = 0 \/ Len(b) = 0 THEN TRUE
                   ELSE LET n == IF Len(a) < Len(b) THEN Len(a) ELSE Len(b) IN Take(a, n) = Take(b, n)
DropSafe(s, n) == IF n >= Len(s) THEN <<>> ELSE Drop(s, n)

RECURSIVE VLegacy(_, _, _, _, _)
VLegacy(pf, key, expected, pos, fuel) ==
  IF fuel = 0 THEN Err            \* (only reachable through forged cycles; the code would spin)
  ELSE IF ~Has(pf, expected) THEN Err
  ELSE LET n == Lookup(pf, expected) IN
       IF NodeHash(n) # expected THEN Err
       ELSE IF n.t = "bin"
       THEN IF H <= pos THEN Err
            ELSE LET nx == IF key[pos + 1] = 1 THEN n.r.h ELSE n.l.h IN
                 IF pos + 1 >= H THEN Val(nx) ELSE VLegacy(pf, key, nx, pos + 1, fuel - 1)
       ELSE IF ~EqualMSBs(DropSafe(key, pos), n.p) THEN Val(Leaf(0))
            ELSE IF pos + Len(n.p) >= H THEN Val(n.c.h)
            ELSE VLegacy(pf, key, n.c.h, pos + Len(n.p), fuel - 1)

\* a cached hash, when present, is the node's own hash (honest nodes) - see the header
HashUsed(n) == NodeHash(n)
RECURSIVE VTrie2(_, _, _, _)
VTrie2(pf, rem, expected, fuel) ==
  IF fuel = 0 THEN Err
  ELSE IF ~Has(pf, expected) THEN Err
  ELSE LET n == Lookup(pf, expected) IN
       IF HashUsed(n) # expected THEN Err
       ELSE IF n.t = "edge" /\ ~EqualMSBs(n.p, rem) THEN Val(Leaf(0))
       ELSE LET child == IF n.t = "edge" THEN n.c ELSE IF rem # <<>> /\ rem[1] = 1 THEN n.r ELSE n.l
                rem2 == IF n.t = "edge" THEN DropSafe(rem, Len(n.p)) ELSE DropSafe(rem, 1) IN
            IF child.k = "value"
            THEN IF CheckValueDepth /\ rem2 # <<>> THEN Err ELSE Val(child.h)
            ELSE IF rem2 = <<>> THEN Val(child.h) ELSE VTrie2(pf, rem2, child.h, fuel - 1)

Verify(impl, root, key, pf) ==
  IF root = Empty /\ EmptyTrieVerifies THEN Val(Leaf(0))
  ELSE IF impl = "legacy" THEN VLegacy(pf, key, root, 0, H + 2)
  ELSE VTrie2(pf, key, root, H + 2)

----------------------------------------------------------------------------
(* Tampering.  A tamper is a record; Apply yields the tampered proof (and Target the queried key). *)
AlterOps == {"l:=junk", "r:=junk", "l:=r", "r:=l", "swap", "c:=junk", "flip", "short", "long", "retype-l", "retype-r", "retype-c"}
Modes == {"keep", "rekey"}   \* the rebuilt node is stored under the old key | under its new hash

Retyped(r) == Ref(IF r.k = "hash" THEN "value" ELSE "hash", r.h)
Applicable(n, op) ==
  IF n.t = "bin" THEN op \in {"l:=junk", "r:=junk", "l:=r", "r:=l", "swap", "retype-l", "retype-r"} /\ (op \in {"l:=r", "r:=l", "swap"} => n.l.h # n.r.h)
  ELSE op \in {"c:=junk", "flip", "long", "retype-c"} \/ (op = "short" /\ Len(n.p) > 1)
Altered(n, op) ==
  CASE op = "l:=junk" -> [n EXCEPT !.l = Ref(@.k, Junk)]
    [] op = "r:=junk" -> [n EXCEPT !.r = Ref(@.k, Junk)]
    [] op = "l:=r" -> [n EXCEPT !.l = Ref(@.k, n.r.h)]
    [] op = "r:=l" -> [n EXCEPT !.r = Ref(@.k, n.l.h)]
    [] op = "swap" -> [n EXCEPT !.l = n.r, !.r = n.l]
    [] op = "c:=junk" -> [n EXCEPT !.c = Ref(@.k, Junk)]
    [] op = "flip" -> [n EXCEPT !.p = [@ EXCEPT ![Len(@)] = 1 - @]]
    [] op = "short" -> [n EXCEPT !.p = Take(@, Len(@) - 1)]
    [] op = "long" -> [n EXCEPT !.p = Append(@, 0)]
    [] op = "retype-l" -> [n EXCEPT !.l = Retyped(@)]
    [] op = "retype-r" -> [n EXCEPT !.r = Retyped(@)]
    [] op = "retype-c" -> [n EXCEPT !.c = Retyped(@)]

AlterAt(pf, i, op, mode) ==
  LET n2 == Altered(pf[i].n, op) IN
  [pf EXCEPT ![i] = CASE mode = "keep" -> [key |-> pf[i].key, n |-> Fresh(n2)]
                      [] mode = "rekey" -> [key |-> NodeHash(n2), n |-> Fresh(n2)]]

DropAt(pf, i) == [j \in 1..(Len(pf) - 1) |-> IF j < i THEN pf[j] ELSE pf[j + 1]]

\* replace the value the proof ends in by junk and re-hash every node above it (a self-consistent
\* forged path whose root differs from the trusted root); every node is stored under its new hash
KeySide(n, key, pos) == IF n.t = "edge" THEN "c" ELSE IF pos < H /\ key[pos + 1] = 1 THEN "r" ELSE "l"
Repoint(n, side, h) == CASE side = "c" -> [n EXCEPT !.c = Ref(@.k, h)]
                         [] side = "r" -> [n EXCEPT !.r = Ref(@.k, h)]
                         [] side = "l" -> [n EXCEPT !.l = Ref(@.k, h)]
RECURSIVE RehashFrom(_, _, _, _)
RehashFrom(pf, key, i, pos) ==
  LET n == pf[i].n
      nextpos == IF n.t = "edge" THEN pos + Len(n.p) ELSE pos + 1
      lower == IF i = Len(pf) THEN pf ELSE RehashFrom(pf, key, i + 1, nextpos)
      below == IF i = Len(pf) THEN Junk ELSE lower[i + 1].key
      n2 == Fresh(Repoint(n, KeySide(n, key, pos), below))
  IN [lower EXCEPT ![i] = [key |-> NodeHash(n2), n |-> n2]]

Tampers(pf, impl) ==
  {[op |-> "none"]}
  \cup {[op |-> "drop", i |-> i] : i \in 1..Len(pf)}
  \cup {[op |-> o, i |-> i, mode |-> md] : o \in AlterOps, i \in 1..Len(pf), md \in Modes}
  \cup {[op |-> "otherkey", k2 |-> k2] : k2 \in Keys}
  \cup {[op |-> "leaf-rehash"]}

Enabled(pf, impl, tm) ==
  CASE tm.op \in {"none", "drop", "otherkey"} -> TRUE
    [] tm.op = "leaf-rehash" -> Len(pf) > 0
    [] OTHER -> /\ tm.i \in 1..Len(pf)
                /\ Applicable(pf[tm.i].n, tm.op)
                /\ (tm.op \in {"retype-l", "retype-r", "retype-c"} => impl = "trie2" /\ tm.mode # "rekey")

Apply(pf, key, tm) ==
  CASE tm.op = "none" -> pf
    [] tm.op = "drop" -> DropAt(pf, tm.i)
    [] tm.op = "otherkey" -> pf
    [] tm.op = "leaf-rehash" -> RehashFrom(pf, key, 1, 0)
    [] OTHER -> AlterAt(pf, tm.i, tm.op, tm.mode)
Target(key, tm) == IF tm.op = "otherkey" THEN tm.k2 ELSE key

Outcome(m, impl, k, cached, tm) ==
  Verify(impl, Root(m), Target(k, tm), Apply(Prove(m, impl, k, cached), k, tm))

----------------------------------------------------------------------------
(* state machine: build a key/value set; queries are evaluated by the properties (exhaustive) and by
   the Query action (behaviour generation) *)
Init == kv = EmptyKV /\ act = [name |-> "Init"] /\ res = Err

Put(k, v) == /\ (v # 0 /\ kv[k] = 0 => Cardinality(PresentKeys(kv)) < MaxKeys)
             /\ kv' = [kv EXCEPT ![k] = v]
             /\ act' = [name |-> "Put", k |-> k, v |-> v] /\ res' = Err
Query(k, impl, cached, tm) ==
  /\ Enabled(Prove(kv, impl, k, cached), impl, tm)
  /\ act' = [name |-> "Query", k |-> k, impl |-> impl, cached |-> cached, tm |-> tm]
  /\ res' = Outcome(kv, impl, k, cached, tm)
  /\ UNCHANGED kv
Next == \E k \in Keys, v \in 0..MaxV : Put(k, v)
Spec == Init /\ [][Next]_vars
view == kv

TrueVal(m, k) == Val(Leaf(m[k]))
AllQueries(m) == {<<k, impl, cached>> : k \in Keys, impl \in Impls, cached \in BOOLEAN}

Completeness ==
  \A q \in AllQueries(kv) : Outcome(kv, q[2], q[1], q[3], [op |-> "none"]) = TrueVal(kv, q[1])
Soundness ==
  \A q \in AllQueries(kv) :
    LET pf == Prove(kv, q[2], q[1], q[3]) IN
    \A tm \in Tampers(pf, q[2]) :
      Enabled(pf, q[2], tm) =>
        LET o == Verify(q[2], Root(kv), Target(q[1], tm), Apply(pf, q[1], tm)) IN
        o = Err \/ o = TrueVal(kv, Target(q[1], tm))
\* what holds for the code as it is: wire-level tampering (children typed by depth, i.e. no retyping)
\* never forges; completeness except for the empty trie
WireLevel(tm) == tm.op \notin {"retype-l", "retype-r", "retype-c"}
SoundnessWire ==
  \A q \in AllQueries(kv) :
    LET pf == Prove(kv, q[2], q[1], q[3]) IN
    \A tm \in Tampers(pf, q[2]) :
      (Enabled(pf, q[2], tm) /\ WireLevel(tm)) =>
        LET o == Verify(q[2], Root(kv), Target(q[1], tm), Apply(pf, q[1], tm)) IN
        o = Err \/ o = TrueVal(kv, Target(q[1], tm))
CompletenessNonEmpty == PresentKeys(kv) # {} => Completeness
\* the proof of an absent key ends where the key's path leaves the trie: every divergence depth occurs
AbsenceDepths == {Len(ProvePath(kv, "trie2", k, <<>>)) : k \in {x \in Keys : kv[x] = 0}}
=============================================================================

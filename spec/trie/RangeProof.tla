----------------------------- MODULE RangeProof -----------------------------
(* C10, range proofs: the verifier of core/trie2/proof.go transcribed WITH the mechanism it relies on
   (cached node hashes), and the contract it must satisfy.

   VerifyRangeProof(root, first, keys, values, proof) - core/trie2/proof.go:
     verifyProofData        keys non-decreasing, no zero value
     proof = nil            the claim is the whole trie: rebuild, compare the root
     no keys                verifyEmptyRangeProof: proofToPath(first), no value and no right element
     one key = first        verifySingleElementProof: proofToPath(first) must end in the claimed value
     otherwise              verifyRangeWithProof: proofToPath(first), proofToPath(last) LINK the proof
                            nodes (looked up by hash in the proof set) into one object graph;
                            unsetInternal / unset cut everything between the two paths out of it and
                            MARK EVERY VISITED NODE DIRTY (nodeFlag reset, which drops the cached hash);
                            the claimed pairs are inserted with Trie.Update (a copy-on-write insert: every
                            ancestor of a changed leaf is re-created with fresh flags, an insert that meets
                            the same value changes nothing); Trie.Hash() (hasher.hash returns a node's
                            cached hash when it has one) must equal the root; hasRightElement = has-more.

   The dimension the membership part of Proof.tla could ignore and this part cannot - PROVENANCE of the
   proof nodes: "mem" = the objects Prove / GetRangeProof return on a hashed (or database-loaded) trie;
   they are copies of the trie's nodes and carry nodeFlag.Hash, the hash of the ORIGINAL subtree;
   "wire" = nodes rebuilt from their encoding: no cache.  Both are honest proofs.  A verifier that cuts
   a node's subtree and keeps trusting the node's cached hash accepts claims that omit keys.

   Proof objects are identified by their key in the proof set (a hash): two positions of the trie with
   the same commitment resolve to ONE object, as in the code (utils.OrderedSet keyed by felt), so the
   aliasing effects of in-place mutation are part of the model.

   Switches; the first value is the code as it is:
     DirtyOnUnset = {"above","fork","below"}  which visited nodes unsetInternal ("above" the fork point, the
                          "fork" node) and unset ("below") mark dirty.  Removing any element is a defect of
                          the class "the verifier trusts a cached hash of a node whose subtree it has cut".
     UnsetBoundaryLeaves  FALSE: a boundary leaf hanging directly under a binary node is left in place, so
                          a claim that omits the existing `first` key verifies (DESIGN H10, left-edge
                          omission); TRUE: it is removed and must be claimed.
     CopyOnResolve        FALSE: proofToPath links the objects of the proof set themselves; two positions with
                          the same commitment are ONE object, so what unset cuts below one position is cut
                          below the other, and unsetInternal (fork point = pointer inequality of the two
                          children) walks past a fork whose children are that one object; TRUE: every
                          resolution copies the node.
     RehashResolved       FALSE: proofToPath trusts the key a node is stored under; only the general case
                          re-hashes (through the final root comparison), the single-element and empty
                          cases never do, so there a node altered in place under its old key forges a
                          claim; TRUE: every node taken from the proof set is re-hashed from its content.
     EmptyTrieVerifies    (Proof.tla) the true empty claim on the empty trie.

   Contract (RangeSound / RangeComplete / HasMoreRight): for every key/value set, every `first` (present,
   absent, at every divergence position), every claim derived from the truth (every subset of the range
   omitted, a value altered, a key added inside / beyond / below the range, the empty claim, the whole trie
   with proof = nil), both provenances, and every single tampering of a proof node (Proof.tla's alphabet):
   accepted => the claimed pairs are exactly the trie's pairs in [first, last] and has-more is right;
   the honest proof of the true claim is accepted. *)
EXTENDS Proof

CONSTANTS DirtyOnUnset, UnsetBoundaryLeaves, CopyOnResolve, RehashResolved

----------------------------------------------------------------------------
(* helpers over bit sequences (core/trie BitArray) *)
BitAt(k, pos) == IF pos < 0 \/ pos >= Len(k) THEN 0 ELSE k[pos + 1]        \* Bit(n): 0 beyond the end
\* BitArray.Cmp: by length first, then by value
Cmp(a, b) == IF Len(a) < Len(b) THEN -1 ELSE IF Len(a) > Len(b) THEN 1
             ELSE IF BitsVal(a) < BitsVal(b) THEN -1 ELSE IF BitsVal(a) > BitsVal(b) THEN 1 ELSE 0
PadZeros(p, n) == p \o [i \in 1..n |-> 0]
KLess(a, b) == BitsVal(a) < BitsVal(b)
KLeq(a, b) == BitsVal(a) <= BitsVal(b)

----------------------------------------------------------------------------
(* the proof set as an object store: key (hash) -> node; a child reference is
     [k |-> "hash" | "value", h]   as collected by Prove (collapsed children)
     [k |-> "node", h |-> id]      linked by proofToPath to the object stored under id
     [k |-> "nil"]                 cut by unset *)
NilRef == [k |-> "nil", h |-> NoHash]
NodeRef(id) == [k |-> "node", h |-> id]
SideOfBit(b) == IF b = 1 THEN "r" ELSE "l"
SideFor(n, rem) == IF n.t = "edge" THEN "c" ELSE SideOfBit(BitAt(rem, 0))
SetChild(St, id, side, ref) == [St EXCEPT ![id] = [St[id] EXCEPT ![side] = ref]]
Mark(St, id, what) == IF what \in DirtyOnUnset THEN [St EXCEPT ![id] = [St[id] EXCEPT !.cache = NoHash]] ELSE St

StoreOf(pf) == [h \in {pf[i].key : i \in 1..Len(pf)} |-> Lookup(pf, h)]
\* GetRangeProof: Prove(first) then Prove(last) into one set
RProof(m, first, last, cached) ==
  LET a == Prove(m, "trie2", first, cached) IN
  IF first = last THEN a ELSE a \o Prove(m, "trie2", last, cached)
\* hasher.hash of a proof object: the cache when present
ObjHash(n) == IF n.cache # NoHash THEN n.cache ELSE NodeHash(n)

----------------------------------------------------------------------------
(* proofToPath (core/trie2/proof.go:299): resolve the path of `key` below object id, linking children.
   PS is the proof set (hash -> node as delivered); St holds the objects resolved so far.  The code links the
   objects OF THE PROOF SET themselves, so two positions with the same commitment resolve to one object
   (identity = hash); with CopyOnResolve every resolution yields an object of its own (identity = hash, position). *)
Id(h, prefix) == IF CopyOnResolve THEN <<h, prefix>> ELSE <<h>>
LOk(St, val) == [s |-> "ok", st |-> St, val |-> val]
LErr == [s |-> "err"]
Fetch(PS, h) == h \in DOMAIN PS /\ (RehashResolved => ObjHash(PS[h]) = h)
Resolve(St, PS, h, prefix) == IF Id(h, prefix) \in DOMAIN St THEN St ELSE PutF(St, Id(h, prefix), PS[h])
RECURSIVE Link(_, _, _, _, _, _, _)
Link(St, PS, id, key, pos, allowNE, fuel) ==
  IF fuel = 0 THEN LErr
  ELSE LET n == St[id]
           rem == DropSafe(key, pos)
           side == SideFor(n, rem)
           pos2 == IF n.t = "edge" THEN pos + Len(n.p) ELSE pos + 1 IN
       IF (n.t = "edge" /\ ~EqualMSBs(n.p, rem)) \/ n[side].k = "nil"
       THEN IF allowNE THEN LOk(St, NoHash) ELSE LErr
       ELSE LET child == n[side] IN
            CASE child.k = "node" -> Link(St, PS, child.h, key, pos2, allowNE, fuel - 1)
              [] child.k = "hash" ->
                 IF ~Fetch(PS, child.h) THEN LErr
                 ELSE LET cid == Id(child.h, Take(key, IF pos2 > Len(key) THEN Len(key) ELSE pos2)) IN
                      Link(SetChild(Resolve(St, PS, child.h, Take(key, IF pos2 > Len(key) THEN Len(key) ELSE pos2)), id, side, NodeRef(cid)),
                           PS, cid, key, pos2, allowNE, fuel - 1)
              [] child.k = "value" -> LOk(St, child.h)
RootId(root) == Id(root, <<>>)
LinkRoot(St, PS, root, key, allowNE) ==
  IF ~Fetch(PS, root) THEN LErr ELSE Link(Resolve(St, PS, root, <<>>), PS, RootId(root), key, 0, allowNE, H + 3)

----------------------------------------------------------------------------
(* unsetInternal / handleEdgeFork / handleBinaryFork / unset (core/trie2/proof.go:376-566) *)
NoParent == <<>>
UOk(St, e) == [s |-> "ok", st |-> St, empty |-> e]
UErr == [s |-> "err"]
UPanic == [s |-> "panic"]
\* parent.(*BinaryNode).Children[bit] = nil
NilChildOfBin(St, pid, bit) ==
  IF St[pid].t # "bin" THEN UPanic ELSE UOk(SetChild(St, pid, SideOfBit(bit), NilRef), FALSE)

RECURSIVE Unset(_, _, _, _, _, _, _)
Unset(St, pid, ref, key, pos, removeLeft, fuel) ==
  IF fuel = 0 THEN UPanic
  ELSE IF ref.k # "node"
  THEN IF ref.k = "value" /\ UnsetBoundaryLeaves THEN NilChildOfBin(St, pid, BitAt(key, pos - 1))
       ELSE UOk(St, FALSE)
  ELSE LET id == ref.h
           c == St[id] IN
       IF c.t = "bin"
       THEN LET kb == BitAt(key, pos)
                St1 == Mark(St, id, "below")
                St2 == IF removeLeft THEN (IF kb = 1 THEN SetChild(St1, id, "l", NilRef) ELSE St1)
                       ELSE (IF kb = 0 THEN SetChild(St1, id, "r", NilRef) ELSE St1) IN
            Unset(St2, id, St2[id][SideOfBit(kb)], key, pos + 1, removeLeft, fuel - 1)
       ELSE LET keyPos == DropSafe(key, pos)
                kb == BitAt(key, pos - 1) IN
            IF ~EqualMSBs(c.p, keyPos)
            THEN LET cmp == Cmp(PadZeros(c.p, Len(keyPos) - Len(c.p)), keyPos) IN
                 IF (removeLeft /\ cmp < 0) \/ (~removeLeft /\ cmp > 0) THEN NilChildOfBin(St, pid, kb)
                 ELSE UOk(St, FALSE)
            ELSE IF c.c.k = "value" THEN NilChildOfBin(St, pid, kb)
            ELSE Unset(Mark(St, id, "below"), id, c.c, key, pos + Len(c.p), removeLeft, fuel - 1)

HandleBinFork(St, id, L, R, pos) ==
  LET lb == BitAt(L, pos)
      rb == BitAt(R, pos)
      St1 == IF lb = 0 /\ rb = 0 THEN SetChild(St, id, "r", NilRef)
             ELSE IF lb = 1 /\ rb = 1 THEN SetChild(St, id, "l", NilRef) ELSE St
      u1 == Unset(St1, id, St1[id][SideOfBit(lb)], DropSafe(L, pos), 1, FALSE, H + 3) IN
  IF u1.s # "ok" THEN u1
  ELSE Unset(u1.st, id, u1.st[id][SideOfBit(rb)], DropSafe(R, pos), 1, TRUE, H + 3)

HandleEdgeFork(St, id, pid, L, R, pos, fl, fr) ==
  LET n == St[id]
      DropFromParent(key) == IF pid = NoParent THEN UOk(St, TRUE) ELSE NilChildOfBin(St, pid, BitAt(key, pos - 1)) IN
  IF (fl = -1 /\ fr = -1) \/ (fl = 1 /\ fr = 1) THEN UErr
  ELSE IF fl # 0 /\ fr # 0 THEN DropFromParent(L)
  ELSE IF fr # 0
  THEN IF n.c.k = "value" THEN DropFromParent(L) ELSE Unset(St, id, n.c, DropSafe(L, pos), Len(n.p), FALSE, H + 3)
  ELSE IF n.c.k = "value" THEN DropFromParent(R) ELSE Unset(St, id, n.c, DropSafe(R, pos), Len(n.p), TRUE, H + 3)

RECURSIVE UInt(_, _, _, _, _, _, _)
UInt(St, ref, pid, pos, L, R, fuel) ==
  IF fuel = 0 \/ ref.k # "node" THEN UPanic
  ELSE LET id == ref.h
           n == St[id] IN
       IF n.t = "edge"
       THEN LET Seg(k) == IF Len(k) - pos < Len(n.p) THEN DropSafe(k, pos) ELSE SubSeq(k, pos + 1, pos + Len(n.p))
                fl == Cmp(Seg(L), n.p)
                fr == Cmp(Seg(R), n.p)
                fork == fl # 0 \/ fr # 0
                St1 == Mark(St, id, IF fork THEN "fork" ELSE "above") IN
            IF fork THEN HandleEdgeFork(St1, id, pid, L, R, pos, fl, fr)
            ELSE UInt(St1, n.c, id, pos + Len(n.p), L, R, fuel - 1)
       ELSE LET lb == BitAt(L, pos)
                rb == BitAt(R, pos)
                ln == n[SideOfBit(lb)]
                rn == n[SideOfBit(rb)]
                same == lb = rb \/ (ln.k = "node" /\ rn.k = "node" /\ ln.h = rn.h)    \* leftnode == rightnode (pointers)
                fork == ln.k = "nil" \/ rn.k = "nil" \/ ~same
                St1 == Mark(St, id, IF fork THEN "fork" ELSE "above") IN
            IF fork THEN HandleBinFork(St1, id, L, R, pos)
            ELSE UInt(St1, ln, id, pos + 1, L, R, fuel - 1)

----------------------------------------------------------------------------
(* the object graph as a tree value; Trie.insert (core/trie2/trie.go:334) and hasher.hash on it *)
Nil == [t |-> "nil"]
Bad == [t |-> "bad"]
VNode(h) == [t |-> "val", h |-> h]
BinT(l, r, cache) == [t |-> "bin", l |-> l, r |-> r, cache |-> cache]
EdgeT(p, c, cache) == [t |-> "edge", p |-> p, c |-> c, cache |-> cache]

RECURSIVE Mat(_, _, _)
Mat(St, ref, fuel) ==
  IF fuel = 0 THEN Bad
  ELSE CASE ref.k = "nil" -> Nil
         [] ref.k = "hash" -> [t |-> "hash", h |-> ref.h]
         [] ref.k = "value" -> VNode(ref.h)
         [] ref.k = "node" ->
            LET n == St[ref.h] IN
            IF n.t = "bin" THEN BinT(Mat(St, n.l, fuel - 1), Mat(St, n.r, fuel - 1), n.cache)
            ELSE EdgeT(n.p, Mat(St, n.c, fuel - 1), n.cache)

InsNil(key, sub) == IF key = <<>> THEN sub ELSE EdgeT(key, sub, NoHash)
RECURSIVE Ins(_, _, _)
Ins(T, key, vn) ==     \* returns [n |-> new node, d |-> dirty]
  IF key = <<>> THEN [n |-> vn, d |-> ~(T.t = "val" /\ T.h = vn.h)]
  ELSE CASE T.t = "nil" -> [n |-> EdgeT(key, vn, NoHash), d |-> TRUE]
         [] T.t = "edge" ->
            LET ml == CommonLen(T.p, key) IN
            IF ml = Len(T.p)
            THEN LET r == Ins(T.c, Drop(key, ml), vn) IN
                 IF r.d THEN [n |-> EdgeT(T.p, r.n, NoHash), d |-> TRUE] ELSE [n |-> T, d |-> FALSE]
            ELSE IF ml >= Len(key) THEN [n |-> Bad, d |-> TRUE]
            ELSE LET ob == InsNil(Drop(T.p, ml + 1), T.c)
                     nb == InsNil(Drop(key, ml + 1), vn)
                     br == IF T.p[ml + 1] = 0 THEN BinT(ob, nb, NoHash) ELSE BinT(nb, ob, NoHash) IN
                 [n |-> IF ml = 0 THEN br ELSE EdgeT(Take(key, ml), br, NoHash), d |-> TRUE]
         [] T.t = "bin" ->
            LET r == Ins(IF key[1] = 1 THEN T.r ELSE T.l, Drop(key, 1), vn) IN
            IF ~r.d THEN [n |-> T, d |-> FALSE]
            ELSE [n |-> IF key[1] = 1 THEN BinT(T.l, r.n, NoHash) ELSE BinT(r.n, T.r, NoHash), d |-> TRUE]
         [] OTHER -> [n |-> Bad, d |-> TRUE]      \* an unresolved hash node (no database behind the verifier's trie)

RECURSIVE InsAll(_, _, _)
InsAll(T, cl, i) == IF i > Len(cl) THEN T ELSE InsAll(Ins(T, cl[i].k, VNode(Leaf(cl[i].v))).n, cl, i + 1)

RECURSIVE HashT(_)
HashT(T) ==
  CASE T.t = "nil" -> Leaf(0)
    [] T.t = "hash" -> T.h
    [] T.t = "val" -> T.h
    [] T.t = "bin" -> IF T.cache # NoHash THEN T.cache ELSE Bin(HashT(T.l), HashT(T.r))
    [] T.t = "edge" -> IF T.cache # NoHash THEN T.cache ELSE Edge(HashT(T.c), T.p)
    [] OTHER -> Bad
RootHashT(T) == IF T.t = "nil" THEN Empty ELSE HashT(T)

\* hasRightElement (core/trie2/proof.go:569): "yes" | "no" | "panic"
RECURSIVE HasRight(_, _)
HasRight(T, key) ==
  CASE T.t = "nil" -> "no"
    [] T.t = "bin" -> IF BitAt(key, 0) = 0 /\ T.r.t # "nil" THEN "yes"
                      ELSE HasRight(IF BitAt(key, 0) = 1 THEN T.r ELSE T.l, DropSafe(key, 1))
    [] T.t = "edge" -> IF ~EqualMSBs(T.p, key)
                       THEN IF Cmp(PadZeros(T.p, Len(key) - Len(T.p)), key) > 0 THEN "yes" ELSE "no"
                       ELSE HasRight(T.c, DropSafe(key, Len(T.p)))
    [] T.t = "val" -> "no"
    [] OTHER -> "panic"

----------------------------------------------------------------------------
(* VerifyRangeProof.  cl: sequence of [k, v] as claimed (the caller's order); pf: the proof set as a
   sequence of [key, n] (Proof.tla); whole: proof = nil *)
Acc(more) == [r |-> "accept", more |-> more]
Rej == [r |-> "reject"]
Pan == [r |-> "panic"]
ProofDataOK(cl) == /\ \A i \in 1..(Len(cl) - 1) : KLeq(cl[i].k, cl[i + 1].k)
                   /\ \A i \in 1..Len(cl) : cl[i].v # 0
WithMore(hr) == IF hr = "panic" THEN Pan ELSE Acc(hr = "yes")

NoObjects == [x \in {} |-> NoHash]
VRGeneral(root, first, last, cl, PS) ==
  LET l1 == LinkRoot(NoObjects, PS, root, first, TRUE) IN
  IF l1.s # "ok" THEN Rej
  ELSE LET l2 == LinkRoot(l1.st, PS, root, last, TRUE) IN
  IF l2.s # "ok" THEN Rej
  ELSE LET u == UInt(l2.st, NodeRef(RootId(root)), NoParent, 0, first, last, H + 3) IN
  IF u.s = "panic" THEN Pan
  ELSE IF u.s = "err" THEN Rej
  ELSE LET T0 == Mat(u.st, NodeRef(RootId(root)), H + 3)
           T1 == InsAll(IF u.empty THEN Nil ELSE T0, cl, 1) IN
       IF RootHashT(T1) # root THEN Rej ELSE WithMore(HasRight(T0, last))

VRange(root, first, cl, pf, whole) ==
  IF ~ProofDataOK(cl) THEN Rej
  ELSE IF whole THEN (IF RootHashT(InsAll(Nil, cl, 1)) = root THEN Acc(FALSE) ELSE Rej)
  ELSE IF root = Empty /\ EmptyTrieVerifies /\ Len(cl) = 0 THEN Acc(FALSE)
  ELSE LET St0 == StoreOf(pf) IN
  IF Len(cl) = 0
  THEN LET l == LinkRoot(NoObjects, St0, root, first, TRUE) IN
       IF l.s # "ok" THEN Rej
       ELSE IF l.val # NoHash THEN Rej
       ELSE LET hr == HasRight(Mat(l.st, NodeRef(RootId(root)), H + 3), first) IN
            IF hr = "panic" THEN Pan ELSE IF hr = "yes" THEN Rej ELSE Acc(FALSE)
  ELSE LET last == cl[Len(cl)].k IN
  IF Len(cl) = 1 /\ first = last
  THEN LET l == LinkRoot(NoObjects, St0, root, first, FALSE) IN
       IF l.s # "ok" THEN Rej
       ELSE IF l.val # Leaf(cl[1].v) THEN Rej
       ELSE WithMore(HasRight(Mat(l.st, NodeRef(RootId(root)), H + 3), first))
  ELSE IF ~KLess(first, last) THEN Rej
  ELSE VRGeneral(root, first, last, cl, St0)

----------------------------------------------------------------------------
(* claims, derived from the truth *)
RECURSIVE SortPairs(_)
SortPairs(S) == IF S = {} THEN <<>>
                ELSE LET x == CHOOSE p \in S : \A q \in S : KLeq(p.k, q.k) IN <<x>> \o SortPairs(S \ {x})
PairsOf(m, S) == {[k |-> k, v |-> m[k]] : k \in S}
InRange(m, first, last) == {k \in PresentKeys(m) : KLeq(first, k) /\ KLeq(k, last)}
AltV == MaxV + 1          \* a value that occurs nowhere in the trie (= Proof.tla's Junk leaf)

\* a claim: [m |-> shape, cl |-> sequence of pairs, last |-> right end of the proven range, whole]
ClaimsFor(m, first) ==
  UNION {
    \* the responder's range ends at a present key `last`: every subset of the other in-range keys withheld
    UNION { LET T == InRange(m, first, last) IN
            {[m |-> IF om = {} THEN "true" ELSE "omit", cl |-> SortPairs(PairsOf(m, T \ om)), last |-> last, whole |-> FALSE] :
                om \in SUBSET (T \ {last})}
            \cup {[m |-> "alter-value", cl |-> SortPairs(PairsOf(m, T \ {x}) \cup {[k |-> x, v |-> AltV]}), last |-> last, whole |-> FALSE] :
                    x \in T}
            \cup {[m |-> "add-inside", cl |-> SortPairs(PairsOf(m, T) \cup {[k |-> x, v |-> 1]}), last |-> last, whole |-> FALSE] :
                    x \in {y \in Keys : m[y] = 0 /\ KLeq(first, y) /\ KLess(y, last)}}
            \cup {[m |-> "add-below", cl |-> SortPairs(PairsOf(m, T) \cup {[k |-> x, v |-> IF m[x] = 0 THEN 1 ELSE m[x]]}), last |-> last, whole |-> FALSE] :
                    x \in {y \in Keys : KLess(y, first)}}
          : last \in {k \in PresentKeys(m) : KLeq(first, k)} },
    \* ... or at an absent key claimed as present
    { [m |-> "add-beyond", cl |-> SortPairs(PairsOf(m, InRange(m, first, x)) \cup {[k |-> x, v |-> 1]}), last |-> x, whole |-> FALSE] :
        x \in {y \in Keys : m[y] = 0 /\ KLeq(first, y)} },
    {[m |-> "empty", cl |-> <<>>, last |-> first, whole |-> FALSE]} }

WholeClaims(m) ==
  LET T == PresentKeys(m) IN
  {[m |-> IF om = {} THEN "true" ELSE "omit", cl |-> SortPairs(PairsOf(m, T \ om)), last |-> CHOOSE k \in Keys : TRUE, whole |-> TRUE] :
      om \in {{}} \cup {{x} : x \in T}}

\* the contract.  ClaimTrue: the claim is exactly the trie's content in [first, last] (what an honest responder
\* sends; it must be accepted).  ClaimHolds: what acceptance may establish - every claimed pair is a pair of the
\* trie and no pair of the trie in [first, last] is missing (a claim that additionally lists a TRUE pair below
\* `first` is harmless: the pair is authenticated by the same root comparison).
ClaimSet(c) == {c.cl[i] : i \in 1..Len(c.cl)}
NoDup(c) == \A i, j \in 1..Len(c.cl) : c.cl[i].k = c.cl[j].k => i = j
ClaimTrue(m, first, c) ==
  IF c.whole THEN ClaimSet(c) = PairsOf(m, PresentKeys(m)) /\ NoDup(c)
  ELSE IF Len(c.cl) = 0 THEN \A k \in PresentKeys(m) : KLess(k, first)
  ELSE ClaimSet(c) = PairsOf(m, InRange(m, first, c.last)) /\ NoDup(c)
ClaimHolds(m, first, c) ==
  IF c.whole \/ Len(c.cl) = 0 THEN ClaimTrue(m, first, c)
  ELSE /\ ClaimSet(c) \subseteq PairsOf(m, PresentKeys(m))
       /\ PairsOf(m, InRange(m, first, c.last)) \subseteq ClaimSet(c)
       /\ NoDup(c)
MoreTrue(m, c) == ~c.whole /\ Len(c.cl) > 0 /\ \E k \in PresentKeys(m) : KLess(c.last, k)

\* the verifier on claim c with the honest proof of provenance prov ("mem" | "wire"), tampered by tm
ProofFor(m, first, c, prov) == RProof(m, first, c.last, prov = "mem")
Verdict(m, first, c, prov, tm) ==
  VRange(Root(m), first, c.cl, Apply(ProofFor(m, first, c, prov), first, tm), c.whole)

Provs == {"mem", "wire"}
\* tamperings of a range proof: Proof.tla's alphabet without the membership-only ones
RTampers(pf) ==
  {[op |-> "none"]}
  \cup {[op |-> "drop", i |-> i] : i \in 1..Len(pf)}
  \cup {[op |-> o, i |-> i, mode |-> md] : o \in AlterOps \ {"retype-l", "retype-r", "retype-c"}, i \in 1..Len(pf), md \in Modes}
REnabled(pf, tm) == tm.op \in {"none", "drop"} \/ (tm.i \in 1..Len(pf) /\ Applicable(pf[tm.i].n, tm.op))

\* the deviations of the code as it is that leave a verdict open (each closed by its switch)
NodeAliased(m) ==
  \E p, q \in {x \in SparsePaths(m) : Len(x) < H} : p # q /\ SubRoot(m, p) = SubRoot(m, q)
LeftEdgeOpen(m, first, c) ==
  \* the claim is the truth without the existing `first` key (a leaf left in place by unset)
  /\ ~c.whole /\ Len(c.cl) > 0 /\ m[first] # 0
  /\ ClaimSet(c) = PairsOf(m, InRange(m, first, c.last) \ {first}) /\ NoDup(c)
KnownOpen(m, first, c) ==
  \/ ~UnsetBoundaryLeaves /\ LeftEdgeOpen(m, first, c)
  \/ ~CopyOnResolve /\ NodeAliased(m)

RFirsts == Keys
HonestSound(m) ==
  \A first \in RFirsts, prov \in Provs :
    \A c \in ClaimsFor(m, first) \cup (IF BitsVal(first) = 0 THEN WholeClaims(m) ELSE {}) :
      LET o == Verdict(m, first, c, prov, [op |-> "none"]) IN
      /\ o.r = "accept" => (ClaimHolds(m, first, c) /\ o.more = MoreTrue(m, c)) \/ KnownOpen(m, first, c)
      /\ (ClaimTrue(m, first, c) /\ (PresentKeys(m) # {} \/ EmptyTrieVerifies) /\ ~(~CopyOnResolve /\ NodeAliased(m)))
            => o = Acc(MoreTrue(m, c))
NoPanic(m) ==
  \A first \in RFirsts, prov \in Provs :
    \A c \in ClaimsFor(m, first) : Verdict(m, first, c, prov, [op |-> "none"]).r # "panic"

\* tampered proof nodes: with a true or a singly falsified claim, an accepted claim is true
TamperClaims(m, first) == {c \in ClaimsFor(m, first) : c.m \in {"true", "alter-value", "empty"} \/ (c.m = "omit" /\ Len(c.cl) + 1 = Cardinality(InRange(m, first, c.last)))}
\* the cases of VerifyRangeProof: only "general" recomputes the root from the proof nodes
CaseOf(first, c) == IF c.whole THEN "whole" ELSE IF Len(c.cl) = 0 THEN "empty"
                    ELSE IF Len(c.cl) = 1 /\ c.cl[1].k = first THEN "single" ELSE "general"
TamperSound(m, cases, modes) ==
  \A first \in RFirsts :
    \A c \in {x \in TamperClaims(m, first) : CaseOf(first, x) \in cases} :
      LET pf == ProofFor(m, first, c, "wire") IN
      \A tm \in RTampers(pf) :
        (REnabled(pf, tm) /\ (tm.op \in {"none", "drop"} \/ tm.mode \in modes)) =>
          LET o == VRange(Root(m), first, c.cl, Apply(pf, first, tm), FALSE) IN
          o.r = "accept" => ClaimHolds(m, first, c) \/ KnownOpen(m, first, c)

\* the contract without any open verdict (what the repaired design satisfies; each switch alone breaks it)
StrictContract(m) ==
  \A first \in RFirsts, prov \in Provs :
    \A c \in ClaimsFor(m, first) \cup (IF BitsVal(first) = 0 THEN WholeClaims(m) ELSE {}) :
      LET o == Verdict(m, first, c, prov, [op |-> "none"]) IN
      /\ o.r = "accept" => ClaimHolds(m, first, c) /\ o.more = MoreTrue(m, c)
      /\ ClaimTrue(m, first, c) => o = Acc(MoreTrue(m, c))
RangeContract == HonestSound(kv)
RangeContractStrict == StrictContract(kv)
RangeNoPanic == NoPanic(kv)
RangeTamperSound == TamperSound(kv, {"empty", "single", "general"}, Modes)
\* the code as it is: sound against dropped nodes and nodes stored under their new hash
RangeTamperSoundRekey == TamperSound(kv, {"empty", "single", "general"}, {"rekey"})
=============================================================================

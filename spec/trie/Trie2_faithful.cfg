\* trie2 as the pinned code is (FixValueDeletePath = FALSE): every property except NoOrphans holds,
\* and the only database garbage are stale leaf entries
\* measured: 24 708 distinct states
CONSTANTS
  H = 3
  MaxV = 1
  MaxSteps = 4
  FixValueDeletePath = FALSE
  Bug = "none"
INIT Init
NEXT Next
VIEW view
INVARIANTS RootRight CachesRight Canonical RefsOk GetRight DbRight OrphansAreLeaves
CHECK_DEADLOCK FALSE

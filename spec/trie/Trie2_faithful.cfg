\* trie2 WITHOUT the fix of trie.go:511 (FixValueDeletePath = FALSE; run only when the probe finds the defect in the tree
\* under test): every property except NoOrphans holds, and the only database garbage are stale leaf entries
\* measured: 24 708 distinct states
CONSTANTS
  H = 3
  MaxV = 1
  MaxSteps = 4
  FixValueDeletePath = FALSE
  Bug = "none"
INIT Init
NEXT Next
VIEW view
INVARIANTS RootRight CachesRight Canonical RefsOk GetRight DbRight OrphansAreLeaves
CHECK_DEADLOCK FALSE

----------------------------- MODULE PedersenWin -----------------------------
(* The hash primitive under the commitments (C01; core/crypto/pedersen.go is an anchor of the
   property): a scaled-down, EXHAUSTIVELY checkable transcription of  pedersen(a, b)  against the
   protocol definition

        h(a, b) = [ P0 + a_low * P1 + a_high * P2 + b_low * P3 + b_high * P4 ]_x

   where x_low is the low part of an operand and x_high its high part.  The code does not evaluate
   this directly: it cuts the low part into windows (bytes), looks every window up in a table of
   precomputed multiples  v * 2^(8i) * P  (pedersenLowIndexed), and looks the high part - the top
   nibble, MASKED out of the most significant byte - up in a second table (pedersenHighIndexed).
   Whether that equals the definition depends on the operand's magnitude: the field prime exceeds
   2^(bits-1), so the highest bit of the high part CAN be set (values in [2^251, p), e.g. p-1).

   Scaling: windows of WinBits bits, NLow low windows, HighBits high bits, field prime FP with
   2^(WinBits*NLow + HighBits - 1) < FP < 2^(WinBits*NLow + HighBits).  The curve group is replaced
   by the additive group Z_Q (a point = an integer mod Q; "x-coordinate" = the integer): enough to
   see a dropped / misplaced / doubled term, which is what table and mask defects are.

   Property: AlgIsDef - for EVERY pair of field elements the table algorithm equals the definition.
   Bug is a seeded-defect switch (expected-violation configurations): the specification bites. *)
EXTENDS Integers, FiniteSets, TLC

CONSTANTS WinBits, NLow, HighBits, FP, Q,
          G0, G1, G2, G3, G4,   \* the constant points P0..P4 as integers mod Q
          Bug   \* "none" | "mask-a-drops-top-bit" | "mask-b-drops-top-bit" | "low-windows-short"
                \*        | "b-low-uses-a-table" | "high-table-off-by-one"

RECURSIVE Pow2(_)
Pow2(n) == IF n = 0 THEN 1 ELSE 2 * Pow2(n - 1)
LowBits == WinBits * NLow
G == <<G0, G1, G2, G3, G4>>
Felts == 0..(FP - 1)

ASSUME /\ Pow2(LowBits + HighBits - 1) < FP /\ FP < Pow2(LowBits + HighBits)
       /\ \A i \in 1..5 : G[i] \in 1..(Q - 1)

----------------------------------------------------------------------------
(* The definition *)
Low(x) == x % Pow2(LowBits)
High(x) == x \div Pow2(LowBits)
Def(x, y) == (G[1] + Low(x) * G[2] + High(x) * G[3] + Low(y) * G[4] + High(y) * G[5]) % Q

----------------------------------------------------------------------------
(* The table algorithm (pedersen.go init() and pedersen()) *)
\* pedersenLowIndexed[t][i][v] = v * 2^(WinBits*i) * (P1 | P3)
LowPoint(t) == IF t = 0 THEN G[2] ELSE IF Bug = "b-low-uses-a-table" THEN G[2] ELSE G[4]
LowTable(t, i, v) == (v * Pow2(WinBits * i) * LowPoint(t)) % Q
\* pedersenHighIndexed[t][h] = h * (P2 | P4)
HighTable(t, h) == ((IF Bug = "high-table-off-by-one" /\ h > 0 THEN h - 1 ELSE h) * (IF t = 0 THEN G[3] ELSE G[5])) % Q

\* bytes[fp.Bytes-1-byteIndex]: window i of the low part; aBytes[0]: everything above the low windows
Window(x, i) == (x \div Pow2(WinBits * i)) % Pow2(WinBits)
TopByte(x) == x \div Pow2(LowBits)
\* `aBytes[0] & 0x0F`: a mask of m bits keeps  TopByte % 2^m
MaskBits(t) == IF (t = 0 /\ Bug = "mask-a-drops-top-bit") \/ (t = 1 /\ Bug = "mask-b-drops-top-bit")
               THEN HighBits - 1 ELSE HighBits
NWindows(t) == IF t = 0 /\ Bug = "low-windows-short" THEN NLow - 1 ELSE NLow

RECURSIVE AccLow(_, _, _)
AccLow(x, t, n) == IF n = 0 THEN 0
                   ELSE AccLow(x, t, n - 1) + (IF Window(x, n - 1) > 0 THEN LowTable(t, n - 1, Window(x, n - 1)) ELSE 0)
AccHigh(x, t) == LET high == TopByte(x) % Pow2(MaskBits(t)) IN IF high > 0 THEN HighTable(t, high) ELSE 0
Alg(x, y) == (G[1] + AccLow(x, 0, NWindows(0)) + AccHigh(x, 0) + AccLow(y, 1, NWindows(1)) + AccHigh(y, 1)) % Q

----------------------------------------------------------------------------
(* Magnitude classes of FeltDomain.tla in the scaled-down field (what the replayer's classes stand for) *)
ClassOf(x) == IF x = 0 THEN "zero" ELSE IF x = 1 THEN "one" ELSE IF x = FP - 1 THEN "pm1"
              ELSE IF x < Pow2(LowBits) THEN "small"
              ELSE IF x < Pow2(LowBits + HighBits - 2) THEN "b248"
              ELSE IF x < Pow2(LowBits + HighBits - 1) THEN "b250" ELSE "b251"
\* every class is inhabited, so the exhaustive check below covers every (class, class) operand pair
ASSUME {ClassOf(x) : x \in Felts} = {"zero", "one", "small", "b248", "b250", "b251", "pm1"}

VARIABLES a, b
vars == <<a, b>>
Init == a \in Felts /\ b \in Felts
Next == UNCHANGED vars
AlgIsDef == Alg(a, b) = Def(a, b)
=============================================================================

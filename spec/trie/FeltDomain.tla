----------------------------- MODULE FeltDomain -----------------------------
(* The VALUE DOMAIN of the commitments (C01): values, class hashes, nonces and compiled class hashes
   are field elements of F_p, p = 2^251 + 17*2^192 + 1, and "for all key/value sets" quantifies over
   all of them.  The trie / state specifications treat hashes as uninterpreted injective terms, so
   the magnitude of a value cannot matter THERE; it matters in the hash primitive (PedersenWin.tla:
   the operand is cut into a low part of 248 bits and a high part of 4 bits, and bit 251 can be set
   because p > 2^251) and in every place that serialises or truncates a felt.

   This module gives every abstract value a MAGNITUDE CLASS.  The behaviour generators (LegacyMBT,
   Trie2MBT, StateMBT) choose a class assignment per behaviour; the replayer's concretisation maps
   (class, index) to a concrete felt of that class:

     "small"  [2, 2^248)          the high part of the operand is zero
     "one"    1                   (singleton)
     "b248"   [2^248, 2^250)      lowest bits of the high part
     "b250"   [2^250, 2^251)      bit 250: the largest values that are still 251-bit integers
     "b251"   [2^251, p-1)        bit 251 set - field elements that are not 251-bit integers
     "pm1"    p - 1               "felt -1" (singleton)

   The terms argument of the specifications needs the concretisation to be injective and never zero:
   an assignment is Realisable iff no singleton class is used for two abstract values. *)
EXTENDS Integers, FiniteSets

Mag == {"small", "one", "b248", "b250", "b251", "pm1"}
SingletonMag == {"one", "pm1"}
\* classes whose members have bit 251 set (only possible because p > 2^251)
AboveBit251 == {"b251", "pm1"}

Realisable(f) == \A c \in SingletonMag : Cardinality({x \in DOMAIN f : f[x] = c}) <= 1
MagAssignments(D) == {f \in [D -> Mag] : Realisable(f)}
\* at least one value of the behaviour lies at or above 2^248 (the generators steer towards these)
Extreme(f) == \E x \in DOMAIN f : f[x] \notin {"small", "one"}
=============================================================================

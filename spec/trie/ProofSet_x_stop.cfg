\* EXPECTED VIOLATION (spec self-test): Prove treats what earlier calls left in the set as "stop-at-known"
\* (Proof.tla, shared proof sets) - TLC must refute SharedSetComplete
CONSTANTS
  H = 3
  MaxV = 2
  MaxKeys = 4
  EmptyTrieVerifies = TRUE
  CheckValueDepth = TRUE
  MaxReq = 2
  Canonical = TRUE
  Mutant = "stop-at-known"
INIT SetInit
NEXT SetNext
INVARIANTS SharedSetComplete
CHECK_DEADLOCK FALSE

\* EXPECTED VIOLATION (spec self-test): Prove treats what earlier calls left in the set as "key-by-child"
\* (Proof.tla, shared proof sets) - TLC must refute SharedSetComplete
CONSTANTS
  H = 3
  MaxV = 2
  MaxKeys = 4
  EmptyTrieVerifies = TRUE
  CheckValueDepth = TRUE
  MaxReq = 2
  Canonical = TRUE
  Mutant = "key-by-child"
INIT SetInit
NEXT SetNext
INVARIANTS SharedSetComplete
CHECK_DEADLOCK FALSE

---------------------------- MODULE StateCommit ----------------------------
(* The state level of C01: the global state commitment as both state backends maintain it
   (core/deprecatedstate/state.go Update :228 / updateContracts / updateContractStorages /
   updateDeclaredClassesTrie :569; core/state/state.go Update / commit), block by block.

   The abstract state (what the protocol speaks about): deployed contracts with class hash, nonce
   and storage; declared Sierra classes with their compiled class hash.  The implementation-shaped
   part: the contracts trie's key/value set `ctrie` (address -> leaf) and the classes trie's
   `cltrie` are maintained INCREMENTALLY - a block only rewrites the leaves of the contracts its
   state diff touches, in the code's order (declare, deploy, replace, nonce, storage).  Trie roots
   are the uninterpreted injective function TrieRoot(kv) here; that a trie's root is a function of
   its key/value set is what LegacyTrie.tla / Trie2.tla establish.

   Properties: after every block, ctrie/cltrie are exactly the leaves the protocol defines for the
   abstract state (LeavesRight), hence the commitment is a function of the abstract state alone:
   independent of how updates were split into blocks.  Commitment(ver) is the protocol formula on
   both sides of 0.14.0.

   Read faults.  Applying a block READS the stored tries (the root node of every trie it opens:
   core/trie2 New -> resolveNode, core/trie newTrieReader; then the nodes on the paths it touches).
   The property is about the root the node "computes and stores": a block application that meets a
   failing read may fail as a whole, but it must never SUCCEED on a trie it could not read.
   ReadFault(f) is the attempt that meets a fault at position f (the storage trie of a written
   contract, the contracts trie or the classes trie); in the faithful model it is a no-op on
   everything (FailedUpdateIsNoOp) and the diff can be retried.  Bug = "root-read-fault-as-empty"
   is the mechanism that can fail: the unreadable trie is taken for an EMPTY one, the block is
   applied on top of nothing and its nodes overwrite the real ones - LeavesRight / CommitmentRight
   are violated (expected-violation configuration). *)
EXTENDS Integers, Sequences, FiniteSets, TLC

CONSTANTS Contracts,   \* ordinary contract addresses
          Sys,         \* system contract (0x1): never deployed explicitly, storage writes deploy it with class "0"
          Slots, MaxVal, Classes, MaxNonce, Sierra, Compiled, MaxBlocks, MaxDiff,
          ReadFaults,  \* BOOLEAN: block applications may meet a failing storage read
          Bug          \* "none" | "root-read-fault-as-empty"

Addrs == Contracts \cup {Sys}
None == "-"

VARIABLES deployed,    \* addr -> class hash | None
          nonce,       \* addr -> 0..MaxNonce
          store,       \* addr -> slot -> 0..MaxVal
          declared,    \* sierra class -> compiled hash | None
          ctrie,       \* addr -> contract leaf term | NoLeaf     (contracts trie content)
          cltrie,      \* sierra class -> class leaf term | NoLeaf (classes trie content)
          diff,        \* the state diff being assembled for the next block
          blocks, act
vars == <<deployed, nonce, store, declared, ctrie, cltrie, diff, blocks, act>>
view == <<deployed, nonce, store, declared, ctrie, cltrie, diff, blocks>>

NoLeaf == [t |-> "noleaf"]
TrieRoot(kv) == [t |-> "root", kv |-> kv]
StorageRoot(m) == TrieRoot(m)                      \* zero values are "absent": see Canon below
\* H(H(H(class_hash, storage_root), nonce), 0)
ContractLeaf(class, sroot, n) == [t |-> "cleaf", class |-> class, sroot |-> sroot, nonce |-> n]
\* poseidon("CONTRACT_CLASS_LEAF_V0", compiled_class_hash)
ClassLeaf(compiled) == [t |-> "klass", compiled |-> compiled]

EmptyDiff == [deploy |-> [c \in Contracts |-> None], replace |-> [c \in Contracts |-> None],
              nonces |-> [c \in Contracts |-> -1], writes |-> [a \in Addrs |-> [s \in Slots |-> -1]],
              declare |-> [k \in Sierra |-> None]]
DiffSize(d) == Cardinality({c \in Contracts : d.deploy[c] # None}) + Cardinality({c \in Contracts : d.replace[c] # None})
               + Cardinality({c \in Contracts : d.nonces[c] # -1}) + Cardinality({k \in Sierra : d.declare[k] # None})
               + Cardinality({<<a, s>> \in Addrs \X Slots : d.writes[a][s] # -1})

Init ==
  /\ deployed = [a \in Addrs |-> None] /\ nonce = [a \in Addrs |-> 0]
  /\ store = [a \in Addrs |-> [s \in Slots |-> 0]] /\ declared = [k \in Sierra |-> None]
  /\ ctrie = [a \in Addrs |-> NoLeaf] /\ cltrie = [k \in Sierra |-> NoLeaf]
  /\ diff = EmptyDiff /\ blocks = 0 /\ act = [name |-> "Init"]

\* a contract exists for the block under construction if deployed before or by this diff
Live(c) == deployed[c] # None \/ (c \in Contracts /\ diff.deploy[c] # None)

\* ---- assembling a state diff (a map: the last update of a key wins)
AddDeploy(c, h) == /\ c \in Contracts /\ deployed[c] = None /\ diff.deploy[c] = None
                   /\ diff' = [diff EXCEPT !.deploy[c] = h]
                   /\ act' = [name |-> "Deploy", c |-> c, h |-> h]
AddReplace(c, h) == /\ c \in Contracts /\ deployed[c] # None /\ deployed[c] # h
                    /\ diff' = [diff EXCEPT !.replace[c] = h]
                    /\ act' = [name |-> "Replace", c |-> c, h |-> h]
AddNonce(c, n) == /\ c \in Contracts /\ Live(c) /\ n > nonce[c]
                  /\ diff' = [diff EXCEPT !.nonces[c] = n]
                  /\ act' = [name |-> "Nonce", c |-> c, n |-> n]
AddWrite(a, s, v) == /\ (a = Sys \/ Live(a))
                     /\ (a = Sys => v # 0)        \* block-hash registry entries are never zeroed
                     /\ diff' = [diff EXCEPT !.writes[a][s] = v]
                     /\ act' = [name |-> "Write", c |-> a, s |-> s, v |-> v]
AddDeclare(k, x) == /\ declared[k] = None /\ diff.declare[k] = None
                    /\ diff' = [diff EXCEPT !.declare[k] = x]
                    /\ act' = [name |-> "Declare", k |-> k, x |-> x]
Add == /\ blocks < MaxBlocks /\ DiffSize(diff) < MaxDiff
       /\ \/ \E c \in Contracts, h \in Classes : AddDeploy(c, h) \/ AddReplace(c, h)
          \/ \E c \in Contracts, n \in 1..MaxNonce : AddNonce(c, n)
          \/ \E a \in Addrs, s \in Slots, v \in 0..MaxVal : AddWrite(a, s, v)
          \/ \E k \in Sierra, x \in Compiled : AddDeclare(k, x)
       /\ UNCHANGED <<deployed, nonce, store, declared, ctrie, cltrie, blocks>>

\* ---- applying the block, in the code's order; only touched leaves are rewritten
Written(a) == \E s \in Slots : diff.writes[a][s] # -1
\* Apply(emptyS, emptyC, emptyK): the block is applied; emptyS = contracts whose stored storage trie is taken
\* for empty, emptyC / emptyK = the stored contracts / classes trie is taken for empty (all FALSE / {} in the
\* faithful model: these parameters exist for the seeded defect only)
Apply(emptyS, emptyC, emptyK) ==
  LET dep1 == [a \in Addrs |-> IF a \in Contracts /\ diff.deploy[a] # None THEN diff.deploy[a] ELSE deployed[a]]
      dep2 == [a \in Addrs |-> IF a \in Contracts /\ diff.replace[a] # None THEN diff.replace[a] ELSE dep1[a]]
      \* storage writes to the system contract deploy it with class hash 0
      dep3 == [a \in Addrs |-> IF a = Sys /\ Written(a) /\ dep2[a] = None THEN "0" ELSE dep2[a]]
      non1 == [a \in Addrs |-> IF a \in Contracts /\ diff.nonces[a] # -1 THEN diff.nonces[a] ELSE nonce[a]]
      sto1 == [a \in Addrs |-> [s \in Slots |-> IF diff.writes[a][s] # -1 THEN diff.writes[a][s] ELSE store[a][s]]]
      \* what the implementation hashes for contract a's storage: the stored trie (or nothing) plus the writes
      stoI == [a \in Addrs |-> [s \in Slots |-> IF diff.writes[a][s] # -1 THEN diff.writes[a][s]
                                                 ELSE IF a \in emptyS THEN 0 ELSE store[a][s]]]
      touched == {a \in Addrs : (a \in Contracts /\ (diff.deploy[a] # None \/ diff.replace[a] # None \/ diff.nonces[a] # -1))
                                \/ Written(a)}
  IN
  /\ blocks < MaxBlocks
  /\ blocks' = blocks + 1
  /\ declared' = [k \in Sierra |-> IF diff.declare[k] # None THEN diff.declare[k] ELSE declared[k]]
  /\ cltrie' = [k \in Sierra |-> IF diff.declare[k] # None THEN ClassLeaf(diff.declare[k])
                                 ELSE IF emptyK THEN NoLeaf ELSE cltrie[k]]
  /\ deployed' = dep3 /\ nonce' = non1 /\ store' = sto1
  /\ ctrie' = [a \in Addrs |-> IF a \in touched THEN ContractLeaf(dep3[a], StorageRoot(stoI[a]), non1[a])
                                ELSE IF emptyC THEN NoLeaf ELSE ctrie[a]]
  /\ diff' = EmptyDiff

EndBlock == Apply({}, FALSE, FALSE) /\ act' = [name |-> "EndBlock"]

\* ---- a block application that meets a failing read
FaultPos == {a \in Addrs : Written(a)} \cup {"ctrie", "cltrie"}
ReadFault(f) ==
  /\ ReadFaults /\ blocks < MaxBlocks /\ diff # EmptyDiff /\ f \in FaultPos
  /\ IF Bug = "root-read-fault-as-empty"
     THEN /\ Apply(IF f \in Addrs THEN {f} ELSE {}, f = "ctrie", f = "cltrie")
          /\ act' = [name |-> "EndBlock"]          \* the defect: the attempt "succeeds"
     ELSE /\ act' = [name |-> "ReadFault", f |-> f]
          /\ UNCHANGED <<deployed, nonce, store, declared, ctrie, cltrie, diff, blocks>>

\* a restart of the node between two blocks: new Blockchain / state / trie objects on the same store.
\* Nothing of the abstract state, of the trie contents or of the commitment may depend on it.
Restart == /\ diff = EmptyDiff
           /\ act' = [name |-> "Restart"]
           /\ UNCHANGED <<deployed, nonce, store, declared, ctrie, cltrie, diff, blocks>>

Next == Add \/ EndBlock \/ Restart \/ \E f \in Addrs \cup {"ctrie", "cltrie"} : ReadFault(f)
Spec == Init /\ [][Next]_vars

----------------------------------------------------------------------------
(* The protocol definition, from the abstract state alone *)
SpecCTrie == [a \in Addrs |-> IF deployed[a] = None THEN NoLeaf
                              ELSE ContractLeaf(deployed[a], StorageRoot(store[a]), nonce[a])]
SpecClTrie == [k \in Sierra |-> IF declared[k] = None THEN NoLeaf ELSE ClassLeaf(declared[k])]
LeavesRight == ctrie = SpecCTrie /\ cltrie = SpecClTrie

Zero == [t |-> "zero"]
RootOf(kv, dom) == IF \A x \in dom : kv[x] = NoLeaf THEN Zero ELSE TrieRoot(kv)
\* ver: "pre" (< 0.14.0) | "post" (>= 0.14.0)
Commitment(ct, clt, ver) ==
  LET cr == RootOf(ct, Addrs)
      kr == RootOf(clt, Sierra) IN
  IF cr = Zero /\ kr = Zero THEN Zero
  ELSE IF kr = Zero /\ ver = "pre" THEN cr
  ELSE [t |-> "poseidon", tag |-> "STARKNET_STATE_V0", c |-> cr, k |-> kr]
\* the commitment the node stores equals the commitment of the abstract state, for both formulas
CommitmentRight == \A ver \in {"pre", "post"} : Commitment(ctrie, cltrie, ver) = Commitment(SpecCTrie, SpecClTrie, ver)
\* the two formulas differ exactly when there are contracts but no declared class
VersionsDifferOnlyWithoutClasses ==
  (Commitment(ctrie, cltrie, "pre") # Commitment(ctrie, cltrie, "post"))
     <=> (RootOf(cltrie, Sierra) = Zero /\ RootOf(ctrie, Addrs) # Zero)
\* (action property) a restart is a no-op on everything the commitment is computed from
RestartIsNoOp == [][act'.name = "Restart" => UNCHANGED <<deployed, nonce, store, declared, ctrie, cltrie>>]_vars
\* (action property) a block application that failed on a read changed nothing; its diff can be retried
FailedUpdateIsNoOp == [][act'.name = "ReadFault" => UNCHANGED <<deployed, nonce, store, declared, ctrie, cltrie, diff, blocks>>]_vars
=============================================================================

------------------------------ MODULE ProofSet ------------------------------
(* C10: proof SETS shared between the keys of one request (definitions in Proof.tla, "shared proof sets").

   What a client of starknet_getStorageProof (or of GetRangeProof) receives is never the result of one Prove
   call: per trie, the handler fills ONE set (hash -> node) with one Prove call per requested key, in request
   order.  The property of the single-key configs (Verify(Root, k, Prove(k)) = kv[k]) says nothing about it.

   State space (SetInit): every key/value set with <= MaxKeys present keys over the value alphabet 1..MaxV - values are
   NOT tied to keys, so equal values under different keys, hence equal sub-tries at different positions
   (keys 000 001 110 111 with values a b a b: the binary node over (a, b) hangs below the edges <<0>> and <<1>>),
   are part of it.  Requests: every sequence of 1..MaxReq DISTINCT keys (the handlers de-duplicate with
   utils.Set, keeping the first occurrence), present and absent, in every order.

     SharedSetComplete   every key of the request verifies against the accumulated set and yields its value /
                         its absence (the transcribed verifiers of Proof.tla), for both implementations
     SharedSetIsUnion    the accumulated set holds exactly the nodes of the single-key proofs of its keys,
                         every node filed under its own hash: nothing missing, nothing foreign, whatever the order

   Mutant = "none" is the code as it is; every other value of Proof.tla's Muts is an expected-violation config
   (ProofSet_x_*.cfg): TLC must refute SharedSetComplete.  "skip-known-child" and "stop-at-known" satisfy the
   single-key Completeness of Proof.tla (a single call starts from the empty set), which is why that property
   alone cannot see them. *)
EXTENDS Proof

CONSTANTS MaxReq,   \* longest request
          Mutant    \* \in Muts

ASSUME Mutant \in Muts

Requests == {s \in UNION {[1..n -> Keys] : n \in 1..MaxReq} : \A i, j \in DOMAIN s : i # j => s[i] # s[j]}

Answerable == PresentKeys(kv) # {} \/ EmptyTrieVerifies

\* Paths(impl)[k] = the node sequence of one Prove(k) call (what PutNodes files into the set).
\* (\A x \in {e} : ... binds the VALUE of e: TLC re-evaluates a LET definition at every use.)
Paths(impl) == [k \in Keys |-> ProvePath(kv, impl, k, <<>>)]

SharedSetComplete ==
  Answerable =>
    \A impl \in Impls : \A paths \in {Paths(impl)} : \A root \in {Root(kv)} :
      \A req \in Requests : \A set \in {Accumulate(paths, req, Mutant)} :
        \A i \in 1..Len(req) : Verify(impl, root, req[i], set) = TrueVal(kv, req[i])

SharedSetIsUnion ==
  \A impl \in Impls : \A paths \in {Paths(impl)} :
    \A req \in Requests : \A set \in {Accumulate(paths, req, Mutant)} :
      \* nothing missing ...
      /\ \A j \in 1..Len(req) : \A x \in 1..Len(paths[req[j]]) : SetHas(set, NodeHash(paths[req[j]][x]))
      \* ... nothing foreign, every node under its own hash, once
      /\ \A i \in 1..Len(set) :
           /\ NodeHash(set[i].n) = set[i].key
           /\ \E j \in 1..Len(req) : \E x \in 1..Len(paths[req[j]]) : paths[req[j]][x] = set[i].n
           /\ \A i2 \in (i + 1)..Len(set) : set[i2].key # set[i].key

\* the single-key property of Proof.tla, under the mutant (a request of one key): holds for the mutants that only
\* read what EARLIER calls left in the set
SingleKeyComplete ==
  Answerable =>
    \A impl \in Impls : \A k \in Keys :
      Verify(impl, Root(kv), k, SharedSet(kv, impl, <<k>>, FALSE, Mutant)) = TrueVal(kv, k)

\* the two formulations of the accumulated set agree
AccumulateIsSharedSet ==
  \A impl \in Impls : \A req \in Requests : Accumulate(Paths(impl), req, Mutant) = SharedSet(kv, impl, req, FALSE, Mutant)

\* The state space directly: every key/value set is an initial state (no Put histories to enumerate).  Hash terms
\* are uninterpreted, so renaming the values is a symmetry of every definition above: with Canonical = TRUE only
\* the sets whose smallest present key holds value 1 are taken (for MaxV = 2: one of each pair of mirror images).
CONSTANT Canonical
KVSets == {m \in [Keys -> 0..MaxV] :
             /\ Cardinality(PresentKeys(m)) <= MaxKeys
             /\ (Canonical /\ PresentKeys(m) # {}) =>
                   m[CHOOSE k \in PresentKeys(m) : \A x \in PresentKeys(m) : BitsVal(k) <= BitsVal(x)] = 1}
SetInit == kv \in KVSets /\ act = [name |-> "Init"] /\ res = Err
SetNext == UNCHANGED vars

\* vacuity: tries with two equal sub-tries below different edges are reachable (run with this as INVARIANT: TLC
\* must find a counterexample)
NoTwins == Twins(kv) = {}
=============================================================================

\* behaviour generation for range-proof sweeps and tampered range proofs (SQuery / TQuery only). Registered default: the repaired design; checks/C10.py sets a switch to FALSE
\* only for a deviation that known_findings.json lists as `known` (never by looking at the tree under test)
CONSTANTS
  H = 4
  MaxV = 3
  MaxKeys = 7
  EmptyTrieVerifies = TRUE
  CheckValueDepth = TRUE
  LeftEdgeChecked = TRUE
  MBTLen = 26
  SweepMax = 5
  BuildLen = 8
  SweepOnly = TRUE
  SharedOnly = FALSE
  DirtyOnUnset = {"above", "fork", "below"}
  UnsetBoundaryLeaves = TRUE
  CopyOnResolve = TRUE
  RehashResolved = TRUE
INIT MBTInit
NEXT MBTNext
CHECK_DEADLOCK FALSE

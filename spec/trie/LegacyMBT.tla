----------------------------- MODULE LegacyMBT -----------------------------
(* Behaviour generation for the replayer (engine "trie", TestTrieReplay): LegacyTrie plus a history
   variable.  After MBTLen steps the history is printed as one JSON line and the machine is reset,
   so one long -simulate run yields many behaviours.  Each step carries the action and the
   projection the replayer compares on the real trie: present key/value pairs, the stored node
   table (paths with their left/right links) and the root key. *)
EXTENDS LegacyTrie, Json, FeltDomain

CONSTANT MBTLen
VARIABLES hist,
          mag    \* value-domain dimension (FeltDomain.tla): magnitude class of every abstract value, per behaviour
mbtvars == <<vars, hist, mag>>

MBTInit == Init /\ hist = <<>> /\ mag \in MagAssignments(Vals)

R(S) == IF S = {} THEN {} ELSE {RandomElement(S)}
FlipAt(k, i) == [k EXCEPT ![i] = 1 - @]
\* keys next to a present key: same prefix, one bit flipped (deep splits, sibling collapses)
Near == {FlipAt(k, i) : k \in PresentKeys(kv), i \in 1..H}

(* Simulation picks uniformly among successor states; one random parameter choice per schema and
   step keeps the schemas balanced and steers towards overwrite / delete / split near present keys. *)
SimNext ==
  \/ \E k \in R(Keys), v \in R(Vals) : Put(k, v)
  \/ \E k \in R(Near), v \in R(Vals) : Put(k, v)
  \/ \E k \in R(Near), v \in R(Vals) : Put(k, v)
  \/ \E k \in R(PresentKeys(kv)), v \in R(Vals) : Put(k, v)
  \/ \E k \in R(PresentKeys(kv)) : Put(k, 0)
  \/ \E k \in R(PresentKeys(kv)) : Put(k, 0)
  \/ \E k \in R(Near) : Put(k, 0)
  \/ (~committed /\ Commit)
  \/ (~committed /\ Commit /\ steps >= 0)
  \/ (~committed /\ Commit /\ steps >= -1)
  \/ Reopen

Proj == [pres |-> {[k |-> k, v |-> kv'[k]] : k \in PresentKeys(kv')},
         nodes |-> {[p |-> K, l |-> tbl'[K].left, r |-> tbl'[K].right] : K \in DOMAIN tbl'},
         rootKey |-> rootKey',
         committed |-> committed']

Step == SimNext /\ hist' = Append(hist, [a |-> act', mag |-> mag] @@ Proj) /\ mag' = mag

Emit ==
  /\ PrintT(ToJson(hist))
  /\ kv' = EmptyKV /\ tbl' = << >> /\ rootKey' = NoKey /\ rootDirty' = FALSE /\ diskRoot' = NoKey
  /\ dirty' = {} /\ committed' = TRUE /\ steps' = 0 /\ act' = [name |-> "Init"] /\ hist' = <<>>
  /\ mag' \in R(MagAssignments(Vals))

MBTNext == IF Len(hist) >= MBTLen THEN Emit ELSE Step
=============================================================================

\* membership proofs, the code as it is (all switches FALSE): sound against wire-level tampering,
\* complete except for the empty trie
CONSTANTS
  H = 3
  MaxV = 1
  MaxKeys = 3
  EmptyTrieVerifies = FALSE
  CheckValueDepth = FALSE
INIT Init
NEXT Next
VIEW view
INVARIANTS CompletenessNonEmpty SoundnessWire
CHECK_DEADLOCK FALSE

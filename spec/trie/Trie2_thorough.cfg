\* trie2, repaired design (FixValueDeletePath = TRUE), exhaustive: H = 3, values {1}, <= 5 updates,
\* Get / Hash / Commit / Reopen anywhere
\* measured: 98 888 distinct states (1 min 27 s, 4 workers)
CONSTANTS
  H = 3
  MaxV = 1
  MaxSteps = 5
  FixValueDeletePath = TRUE
  Bug = "none"
INIT Init
NEXT Next
VIEW view
INVARIANTS RootRight CachesRight Canonical RefsOk GetRight DbRight NoOrphans
CHECK_DEADLOCK FALSE

\* range proofs, the verifier as it is: sound against dropped nodes and nodes stored under their NEW hash (it is not
\* against nodes altered under their old key: RehashResolved)
CONSTANTS
  H = 3
  MaxV = 1
  MaxKeys = 2
  EmptyTrieVerifies = FALSE
  CheckValueDepth = FALSE
  DirtyOnUnset = {"above", "fork", "below"}
  UnsetBoundaryLeaves = FALSE
  CopyOnResolve = FALSE
  RehashResolved = FALSE
INIT Init
NEXT Next
VIEW view
INVARIANTS RangeTamperSoundRekey
CHECK_DEADLOCK FALSE

\* range proofs, the repaired design (all switches TRUE): the full contract, no open verdict, no panic
\* measured: 93 key sets, ~8 s (4 workers)
CONSTANTS
  H = 3
  MaxV = 1
  MaxKeys = 3
  EmptyTrieVerifies = TRUE
  CheckValueDepth = TRUE
  DirtyOnUnset = {"above", "fork", "below"}
  UnsetBoundaryLeaves = TRUE
  CopyOnResolve = TRUE
  RehashResolved = TRUE
INIT Init
NEXT Next
VIEW view
INVARIANTS RangeContractStrict RangeNoPanic
CHECK_DEADLOCK FALSE

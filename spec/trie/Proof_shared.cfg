\* behaviour generation for proof sets shared between the keys of one request (Graft / Multi steps only): key/value
\* sets over 16 model keys with sub-tries copied to other positions, requests of 2..4 keys. Registered default: the repaired design; checks/C10.py sets a switch to FALSE
\* only for a deviation that known_findings.json lists as `known` (never by looking at the tree under test)
CONSTANTS
  H = 4
  MaxV = 3
  MaxKeys = 7
  EmptyTrieVerifies = TRUE
  CheckValueDepth = TRUE
  LeftEdgeChecked = TRUE
  MBTLen = 24
  SweepMax = 5
  BuildLen = 4
  SweepOnly = FALSE
  SharedOnly = TRUE
  DirtyOnUnset = {"above", "fork", "below"}
  UnsetBoundaryLeaves = TRUE
  CopyOnResolve = TRUE
  RehashResolved = TRUE
INIT MBTInit
NEXT MBTNext
CHECK_DEADLOCK FALSE

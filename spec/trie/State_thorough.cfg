\* state commitment level, exhaustive: 2 contracts + system contract, 2 slots, values {0,1}, 2 class hashes,
\* 1 Sierra class, <= 3 blocks of <= 3 updates
\* measured: 538 600 distinct states (54 s)
CONSTANTS
  Contracts = {"c1", "c2"}
  Sys = "sys"
  Slots = {"s1", "s2"}
  MaxVal = 1
  Classes = {"h1", "h2"}
  MaxNonce = 1
  Sierra = {"k1"}
  Compiled = {"x1"}
  MaxBlocks = 3
  MaxDiff = 3
  ReadFaults = TRUE
  Bug = "none"
INIT Init
NEXT Next
VIEW view
INVARIANTS LeavesRight CommitmentRight VersionsDifferOnlyWithoutClasses
PROPERTIES RestartIsNoOp FailedUpdateIsNoOp
CHECK_DEADLOCK FALSE

\* legacy trie, exhaustive: H = 3 (8 keys), values {1,2}, <= 4 Put calls, Commit/Reopen anywhere
\* measured: 115 395 distinct states (13 s, 4 workers)
CONSTANTS
  H = 3
  MaxV = 2
  MaxSteps = 4
  Bug = "none"
INIT Init
NEXT Next
VIEW view
INVARIANTS RootIsCanonical GetIsKV Structure CachedValuesRight ReopenIsNoOp
CHECK_DEADLOCK FALSE

\* as Range_quick.cfg with two values (distinct sibling subtrees, i.e. the non-aliased forms of every shape)
CONSTANTS
  H = 3
  MaxV = 2
  MaxKeys = 4
  EmptyTrieVerifies = FALSE
  CheckValueDepth = FALSE
  DirtyOnUnset = {"above", "fork", "below"}
  UnsetBoundaryLeaves = FALSE
  CopyOnResolve = FALSE
  RehashResolved = FALSE
INIT Init
NEXT Next
VIEW view
INVARIANTS RangeContract
CHECK_DEADLOCK FALSE

------------------------------- MODULE Trie2 -------------------------------
(* Transcription of core/trie2 (the new sparse Merkle-Patricia trie) with its path-keyed node
   database (triedb/rawdb), at the granularity of its public calls:

     Update(k, v)  trie.go:136 Update -> insert (:334) for v # 0, delete (:435) for v = 0; the
                   nodeTracer (tracer.go) records inserted / deleted node paths
     Get(k)        trie.go:153 (resolves hash nodes from the database and caches them in the trie)
     HashOp        trie.go:194 Hash: hasher.hash caches a hash in every node that has none
     Commit        trie.go:203: Hash, then collector.collect (collector.go) gathers every dirty node
                   and every value node below a dirty node, keyed by path, plus a delete marker for
                   every traced deletion; rawdb.Update applies the set.  The trie is unusable after
     Reopen        trie2.New on the same database: the root is decoded from path <<>>, children
                   are hash references resolved lazily

   In-memory nodes carry the code's flags: `hash` (cached commitment or NoHash) and `dirty`.  The
   database maps a path to the TERM of the node stored there (the collapsed node: its immediate
   structure are the child hashes / the edge path).

   Property (C01): the root term is always Root(kv); cached hashes are never stale; the trie stays
   canonical (no edge under an edge, no binary node with an empty child); after Commit the database
   holds exactly the canonical sparse trie of kv (DbRight, and NoOrphans when repaired).

   FixValueDeletePath: TRUE = the code since fix 85c68cc (registered default). FALSE = before it: deleting a value node that hangs directly under a
   binary node calls nodeTracer.onDelete(key) with the REMAINING key (empty) instead of the leaf's
   path (trie.go:511), so the leaf's database entry is never deleted (an orphan that
   core/state.StateReader.ContractStorage then still reads). *)
EXTENDS Trie

CONSTANTS MaxSteps, FixValueDeletePath,
          Bug       \* "none" | "keep-flags-on-insert" | "no-edge-merge" | "forget-edge-delete"

NoHash == [t |-> "none"]
NilN == [t |-> "nil"]
ValN(v) == [t |-> "val", v |-> v]
HashN(h) == [t |-> "hash", h |-> h]
EdgeN(p, c, hash, dirty) == [t |-> "edge", p |-> p, c |-> c, hash |-> hash, dirty |-> dirty]
BinN(l, r, hash, dirty) == [t |-> "bin", l |-> l, r |-> r, hash |-> hash, dirty |-> dirty]
NewEdge(p, c) == EdgeN(p, c, NoHash, TRUE)          \* trienode.NewNodeFlag(): dirty, no cached hash
NewBin(l, r) == BinN(l, r, NoHash, TRUE)
Child(n, b) == IF b = 0 THEN n.l ELSE n.r
WithChild(n, b, c) == IF b = 0 THEN [n EXCEPT !.l = c] ELSE [n EXCEPT !.r = c]
Inner(n) == n.t = "edge" \/ n.t = "bin"

VARIABLES kv,       \* the specification's view of the current content
          ckv,      \* content as of the last Commit (what the database must describe)
          root,     \* in-memory trie
          tr,       \* nodeTracer: [ins, del] sets of paths
          db,       \* path -> term of the stored (collapsed) node
          dead,     \* committed = TRUE: the Trie object is unusable
          steps, act
vars == <<kv, ckv, root, tr, db, dead, steps, act>>
view == <<kv, ckv, root, tr, db, dead, steps>>

NoFn == [x \in {} |-> 0]
Merge(f, g) == [x \in (DOMAIN f \cup DOMAIN g) |-> IF x \in DOMAIN f THEN f[x] ELSE g[x]]
One(p, e) == [x \in {p} |-> e]

Init == /\ kv = EmptyKV /\ ckv = EmptyKV /\ root = NilN /\ tr = [ins |-> {}, del |-> {}]
        /\ db = NoFn /\ dead = FALSE /\ steps = 0 /\ act = [name |-> "Init"]

----------------------------------------------------------------------------
(* commitments *)
RECURSIVE TermOf(_)     \* true commitment of an in-memory subtree, ignoring every cache
TermOf(n) == CASE n.t = "nil" -> Empty
               [] n.t = "val" -> Leaf(n.v)
               [] n.t = "hash" -> n.h
               [] n.t = "edge" -> Edge(TermOf(n.c), n.p)
               [] n.t = "bin" -> Bin(TermOf(n.l), TermOf(n.r))

RECURSIVE HashOf(_)     \* hasher.hash: a cached hash is trusted
HashOf(n) == CASE n.t = "nil" -> Leaf(0)                     \* trienode.NilValueNode
               [] n.t = "val" -> Leaf(n.v)
               [] n.t = "hash" -> n.h
               [] Inner(n) /\ n.hash # NoHash -> n.hash
               [] n.t = "edge" -> Edge(HashOf(n.c), n.p)
               [] n.t = "bin" -> Bin(HashOf(n.l), HashOf(n.r))
RECURSIVE Cached(_)     \* the "cached" copy hasher.hash returns: every inner node gets its hash
Cached(n) == CASE n.t = "nil" -> ValN(0)
               [] Inner(n) /\ n.hash # NoHash -> n
               [] n.t = "edge" -> [n EXCEPT !.c = IF Inner(n.c) THEN Cached(n.c) ELSE n.c, !.hash = HashOf(n)]
               [] n.t = "bin" -> [n EXCEPT !.l = Cached(n.l), !.r = Cached(n.r), !.hash = HashOf(n)]
               [] OTHER -> n

(* database decoding: trienode.DecodeNode *)
DecodeChild(term, pos) == IF pos = H THEN ValN(term.v) ELSE HashN(term)
Decode(e, hash, path) ==
  CASE Len(path) = H -> ValN(e.v)
    [] e.t = "edge" -> EdgeN(e.p, DecodeChild(e.c, Len(path) + Len(e.p)), hash, FALSE)
    [] e.t = "bin" -> BinN(DecodeChild(e.l, Len(path) + 1), DecodeChild(e.r, Len(path) + 1), hash, FALSE)
Resolve(h, path) == IF path \in DOMAIN db THEN Decode(db[path], h, path) ELSE NilN

----------------------------------------------------------------------------
(* get / insert / delete: results are [n |-> new node, d |-> dirty, ev |-> tracer events] *)
Ev(op, p) == [op |-> op, p |-> p]

RECURSIVE GetR(_, _, _)
GetR(n, prefix, key) ==
  CASE n.t = "edge" ->
         IF ~IsPrefixOf(n.p, key) THEN [v |-> 0, n |-> n, r |-> FALSE]
         ELSE LET s == GetR(n.c, prefix \o n.p, Drop(key, Len(n.p))) IN
              [v |-> s.v, n |-> IF s.r THEN [n EXCEPT !.c = s.n] ELSE n, r |-> s.r]
    [] n.t = "bin" ->
         LET b == key[1]
             s == GetR(Child(n, b), Append(prefix, b), Drop(key, 1)) IN
         [v |-> s.v, n |-> IF s.r THEN WithChild(n, b, s.n) ELSE n, r |-> s.r]
    [] n.t = "hash" ->
         LET s == GetR(Resolve(n.h, prefix), prefix, key) IN [v |-> s.v, n |-> s.n, r |-> TRUE]
    [] n.t = "val" -> [v |-> n.v, n |-> n, r |-> FALSE]
    [] n.t = "nil" -> [v |-> 0, n |-> n, r |-> FALSE]

Touch(n) == IF Bug = "keep-flags-on-insert" THEN [n EXCEPT !.dirty = TRUE]
            ELSE [n EXCEPT !.hash = NoHash, !.dirty = TRUE]

RECURSIVE Ins(_, _, _, _)
Ins(n, prefix, key, val) ==
  IF key = <<>> THEN [n |-> val, d |-> ~(n.t = "val" /\ n = val), ev |-> <<>>]
  ELSE CASE n.t = "nil" -> [n |-> NewEdge(key, val), d |-> TRUE, ev |-> <<Ev("ins", prefix)>>]
    [] n.t = "edge" ->
         LET m == CommonLen(n.p, key) IN
         IF m = Len(n.p)
         THEN LET s == Ins(n.c, prefix \o n.p, Drop(key, m), val) IN
              IF ~s.d THEN [n |-> n, d |-> FALSE, ev |-> s.ev]
              ELSE [n |-> NewEdge(n.p, s.n), d |-> TRUE, ev |-> s.ev]
         ELSE LET a == Ins(NilN, prefix \o Take(n.p, m + 1), Drop(n.p, m + 1), n.c)
                  b == Ins(NilN, prefix \o Take(key, m + 1), Drop(key, m + 1), val)
                  br == IF n.p[m + 1] = 0 THEN NewBin(a.n, b.n) ELSE NewBin(b.n, a.n) IN
              IF m = 0 THEN [n |-> br, d |-> TRUE, ev |-> a.ev \o b.ev]
              ELSE [n |-> NewEdge(Take(key, m), br), d |-> TRUE,
                    ev |-> a.ev \o b.ev \o <<Ev("ins", prefix \o Take(key, m))>>]
    [] n.t = "bin" ->
         LET b == key[1]
             s == Ins(Child(n, b), Append(prefix, b), Drop(key, 1), val) IN
         IF ~s.d THEN [n |-> n, d |-> FALSE, ev |-> s.ev]
         ELSE [n |-> WithChild(Touch(n), b, s.n), d |-> TRUE, ev |-> s.ev]
    [] n.t = "hash" ->
         LET c == Resolve(n.h, prefix)
             s == Ins(c, prefix, key, val) IN
         IF ~s.d THEN [n |-> c, d |-> FALSE, ev |-> s.ev] ELSE s

RECURSIVE Del(_, _, _)
Del(n, prefix, key) ==
  CASE n.t = "nil" -> [n |-> NilN, d |-> FALSE, ev |-> <<>>]
    [] n.t = "edge" ->
         LET m == CommonLen(n.p, key) IN
         IF m < Len(n.p) THEN [n |-> n, d |-> FALSE, ev |-> <<>>]
         ELSE IF m = Len(key)
         THEN [n |-> NilN, d |-> TRUE, ev |-> <<Ev("del", prefix), Ev("del", prefix \o key)>>]
         ELSE LET s == Del(n.c, prefix \o n.p, Drop(key, Len(n.p))) IN
              IF ~s.d THEN [n |-> n, d |-> FALSE, ev |-> s.ev]
              ELSE IF s.n.t = "edge" /\ Bug # "no-edge-merge"
              THEN [n |-> NewEdge(n.p \o s.n.p, s.n.c), d |-> TRUE,
                    ev |-> IF Bug = "forget-edge-delete" THEN s.ev ELSE s.ev \o <<Ev("del", prefix \o n.p)>>]
              ELSE [n |-> NewEdge(n.p, s.n), d |-> TRUE, ev |-> s.ev]
    [] n.t = "bin" ->
         LET b == key[1]
             s == Del(Child(n, b), Append(prefix, b), Drop(key, 1)) IN
         IF ~s.d THEN [n |-> n, d |-> FALSE, ev |-> s.ev]
         ELSE IF s.n.t # "nil" THEN [n |-> WithChild(Touch(n), b, s.n), d |-> TRUE, ev |-> s.ev]
         ELSE LET o == 1 - b
                  oc0 == Child(n, o)
                  oc == IF oc0.t = "hash" THEN Resolve(oc0.h, Append(prefix, o)) ELSE oc0 IN
              IF oc.t = "edge"
              THEN [n |-> NewEdge(<<o>> \o oc.p, oc.c), d |-> TRUE,
                    ev |-> s.ev \o <<Ev("del", Append(prefix, o))>>]
              ELSE [n |-> NewEdge(<<o>>, oc), d |-> TRUE, ev |-> s.ev]
    [] n.t = "val" ->   \* `key` is exhausted here; the code passes it to onDelete instead of the leaf's path
         [n |-> NilN, d |-> TRUE, ev |-> <<Ev("del", IF FixValueDeletePath THEN prefix ELSE key)>>]
    [] n.t = "hash" ->
         LET c == Resolve(n.h, prefix)
             s == Del(c, prefix, key) IN
         IF ~s.d THEN [n |-> c, d |-> FALSE, ev |-> s.ev] ELSE s

\* nodeTracer.onInsert / onDelete cancel each other
OnEv(t, e) ==
  IF e.op = "ins"
  THEN IF e.p \in t.del THEN [t EXCEPT !.del = @ \ {e.p}] ELSE [t EXCEPT !.ins = @ \cup {e.p}]
  ELSE IF e.p \in t.ins THEN [t EXCEPT !.ins = @ \ {e.p}] ELSE [t EXCEPT !.del = @ \cup {e.p}]
RECURSIVE ApplyEv(_, _)
ApplyEv(t, evs) == IF evs = <<>> THEN t ELSE ApplyEv(OnEv(t, evs[1]), Tail(evs))

----------------------------------------------------------------------------
(* actions *)
Update(k, v) ==
  LET r == IF v = 0 THEN Del(root, <<>>, k) ELSE Ins(root, <<>>, k, ValN(v)) IN
  /\ ~dead /\ steps < MaxSteps
  /\ steps' = steps + 1
  /\ act' = [name |-> "Put", k |-> k, v |-> v]
  /\ kv' = [kv EXCEPT ![k] = v]
  /\ root' = r.n
  /\ tr' = ApplyEv(tr, r.ev)
  /\ UNCHANGED <<ckv, db, dead>>

Get(k) ==
  /\ ~dead
  /\ act' = [name |-> "Get", k |-> k, v |-> GetR(root, <<>>, k).v]
  /\ root' = IF GetR(root, <<>>, k).r THEN GetR(root, <<>>, k).n ELSE root
  /\ UNCHANGED <<kv, ckv, tr, db, dead, steps>>

HashOp ==
  /\ ~dead
  /\ act' = [name |-> "Hash"]
  /\ root' = IF root = NilN THEN NilN ELSE Cached(root)
  /\ UNCHANGED <<kv, ckv, tr, db, dead, steps>>

\* collector.collect on a fully hashed trie: path -> term for every node to be written
RECURSIVE Collect(_, _)
Collect(path, n) ==
  CASE n.t = "val" -> One(path, Leaf(n.v))
    [] Inner(n) /\ ~n.dirty -> NoFn
    [] n.t = "edge" -> Merge(One(path, n.hash), Collect(path \o n.p, n.c))
    [] n.t = "bin" -> Merge(One(path, n.hash), Merge(Collect(Append(path, 0), n.l), Collect(Append(path, 1), n.r)))
    [] OTHER -> NoFn      \* hash node

Commit ==
  /\ ~dead
  /\ act' = [name |-> "Commit"]
  /\ dead' = TRUE /\ ckv' = kv
  /\ IF root = NilN
     THEN /\ db' = [p \in (DOMAIN db \ tr.del) |-> db[p]]
          /\ root' = root
     ELSE LET hashed == Cached(root) IN
          IF ~hashed.dirty THEN db' = db /\ root' = HashN(hashed.hash)
          ELSE LET st == Collect(<<>>, hashed) IN
               /\ db' = [p \in ((DOMAIN db \ tr.del) \cup DOMAIN st) |-> IF p \in DOMAIN st THEN st[p] ELSE db[p]]
               /\ root' = HashN(hashed.hash)
  /\ UNCHANGED <<kv, tr, steps>>

Reopen ==
  /\ dead
  /\ act' = [name |-> "Reopen"]
  /\ dead' = FALSE
  /\ root' = Resolve(NoHash, <<>>)
  /\ tr' = [ins |-> {}, del |-> {}]
  /\ UNCHANGED <<kv, ckv, db, steps>>

UpdateAny == \E k \in Keys, v \in 0..MaxV : Update(k, v)
GetAny == \E k \in Keys : Get(k)
Next == UpdateAny \/ GetAny \/ HashOp \/ Commit \/ Reopen
Spec == Init /\ [][Next]_vars

----------------------------------------------------------------------------
(* properties *)
RootRight == TermOf(root) = Root(kv)

RECURSIVE CachesRightIn(_)
CachesRightIn(n) ==
  CASE n.t = "edge" -> (n.hash # NoHash => n.hash = TermOf(n)) /\ CachesRightIn(n.c)
    [] n.t = "bin" -> (n.hash # NoHash => n.hash = TermOf(n)) /\ CachesRightIn(n.l) /\ CachesRightIn(n.r)
    [] OTHER -> TRUE
CachesRight == CachesRightIn(root)

RECURSIVE CanonicalIn(_)
CanonicalIn(n) ==
  CASE n.t = "edge" -> Len(n.p) > 0 /\ n.c.t \in {"bin", "val", "hash"} /\ CanonicalIn(n.c)
    [] n.t = "bin" -> n.l.t # "nil" /\ n.r.t # "nil" /\ CanonicalIn(n.l) /\ CanonicalIn(n.r)
    [] OTHER -> TRUE
Canonical == CanonicalIn(root)

\* every hash reference in memory points at the database entry of that very commitment
RECURSIVE RefsOkIn(_, _)
RefsOkIn(n, path) ==
  CASE n.t = "hash" -> path \in DOMAIN db /\ db[path] = n.h
    [] n.t = "edge" -> RefsOkIn(n.c, path \o n.p)
    [] n.t = "bin" -> RefsOkIn(n.l, Append(path, 0)) /\ RefsOkIn(n.r, Append(path, 1))
    [] OTHER -> TRUE
RefsOk == RefsOkIn(root, <<>>)

GetRight == ~dead => \A k \in Keys : GetR(root, <<>>, k).v = kv[k]

\* the database is the canonical sparse trie of the committed content ...
DbRight == \A p \in SparsePaths(ckv) : p \in DOMAIN db /\ db[p] = SubRoot(ckv, p)
\* ... and nothing else (holds for the repaired design only)
Orphans == DOMAIN db \ SparsePaths(ckv)
NoOrphans == Orphans = {}
\* faithful model: the only garbage are stale leaves
OrphansAreLeaves == \A p \in Orphans : Len(p) = H
=============================================================================

\* range proofs, trie2's verifier AS IT IS (all switches FALSE): exhaustive over every key set with <= 4 keys at
\* H = 3 x every `first` x every claim shape (every subset withheld, value altered, key added inside / below /
\* beyond, empty, whole trie) x both provenances of the proof nodes: the contract with the known deviations
\* (left-edge omission of an existing `first`, aliased proof-set objects) left open
\* measured: 163 key sets, ~10 s (4 workers)
CONSTANTS
  H = 3
  MaxV = 1
  MaxKeys = 4
  EmptyTrieVerifies = FALSE
  CheckValueDepth = FALSE
  DirtyOnUnset = {"above", "fork", "below"}
  UnsetBoundaryLeaves = FALSE
  CopyOnResolve = FALSE
  RehashResolved = FALSE
INIT Init
NEXT Next
VIEW view
INVARIANTS RangeContract
CHECK_DEADLOCK FALSE

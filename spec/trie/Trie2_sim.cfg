\* behaviour generation (tlc -simulate) for trie2, faithful to the code as it is
CONSTANTS
  H = 5
  MaxV = 3
  MaxSteps = 1000000
  FixValueDeletePath = FALSE
  Bug = "none"
  MBTLen = 30
INIT MBTInit
NEXT MBTNext
CHECK_DEADLOCK FALSE

\* behaviour generation (tlc -simulate) for trie2 (registered default: the repaired code, FixValueDeletePath = TRUE)
CONSTANTS
  H = 5
  MaxV = 3
  MaxSteps = 1000000
  FixValueDeletePath = TRUE
  Bug = "none"
  MBTLen = 30
INIT MBTInit
NEXT MBTNext
CHECK_DEADLOCK FALSE

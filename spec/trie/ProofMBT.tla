------------------------------ MODULE ProofMBT ------------------------------
(* Behaviour generation for TestProofReplay (engine "trie"): Proof plus a history variable.  A
   behaviour builds a key/value set and then asks membership queries (honest and tampered, both
   implementations) and range-proof claims; every step carries the model's verdict.

   Range proofs are specified by their CONTRACT (not transcribed): VerifyRangeProof(root, first,
   keys, values, GetRangeProof(first, last)) must accept exactly the claims whose pairs are all
   pairs of the trie in [first, last], and report whether a key > last exists.  LeftEdgeChecked:
   FALSE = the code as it is: claims that omit present keys at the LEFT edge (between `first` and
   the smallest claimed key) are accepted by both implementations (DESIGN H10; TODO in
   core/trie/proof.go:220) - the model leaves the verdict on exactly these claims open. *)
EXTENDS Proof, Json

CONSTANTS MBTLen, LeftEdgeChecked
VARIABLE hist
mbtvars == <<vars, hist>>
MBTInit == Init /\ hist = <<>>

R(S) == IF S = {} THEN {} ELSE {RandomElement(S)}
FlipAt(k, i) == [k EXCEPT ![i] = 1 - @]
Near == {FlipAt(k, i) : k \in PresentKeys(kv), i \in 1..H}
Less(a, b) == BitsVal(a) < BitsVal(b)
Leq(a, b) == BitsVal(a) <= BitsVal(b)

\* ---- membership queries
Simplify(o) == IF o = Err THEN [kind |-> "err"]
               ELSE IF o.v.t = "leaf" THEN [kind |-> "leaf", v |-> o.v.v]
               ELSE [kind |-> "inner"]
Shape(pf) == [i \in 1..Len(pf) |-> [t |-> pf[i].n.t, plen |-> IF pf[i].n.t = "edge" THEN Len(pf[i].n.p) ELSE 0]]

TamperChoice(pf, impl) ==
  LET idx == 1..Len(pf) IN
  UNION { {[op |-> "none"]},
          {[op |-> "drop", i |-> i] : i \in R(idx)},
          {[op |-> o, i |-> i, mode |-> md] : o \in R({"l:=junk", "r:=junk", "l:=r", "r:=l", "swap", "c:=junk"}), i \in R(idx), md \in R(Modes)},
          {[op |-> o, i |-> i, mode |-> md] : o \in R({"flip", "short", "long"}), i \in R(idx), md \in R(Modes)},
          {[op |-> o, i |-> i, mode |-> md] : o \in R({"retype-l", "retype-r", "retype-c"}), i \in R(idx), md \in R({"keep"})},
          {[op |-> o, i |-> i, mode |-> md] : o \in R({"l:=junk", "r:=junk", "c:=junk"}), i \in (idx \cap {Len(pf)}), md \in R(Modes)},
          {[op |-> "otherkey", k2 |-> k2] : k2 \in R(Keys \cup Near)},
          {[op |-> "leaf-rehash"]} }

MQuery ==
  \E k \in R(Keys \cup Near \cup PresentKeys(kv)), impl \in R(Impls), cached \in R(BOOLEAN) :
    LET pf == Prove(kv, impl, k, cached) IN
    \E tm \in R({t \in TamperChoice(pf, impl) : Enabled(pf, impl, t)}) :
      /\ Query(k, impl, cached, tm)
      /\ hist' = Append(hist, [a |-> act', out |-> Simplify(res'), shape |-> Shape(pf),
                               truth |-> kv[Target(k, tm)],
                               pres |-> {[k |-> x, v |-> kv[x]] : x \in PresentKeys(kv)}])

\* ---- range claims
(* The left boundary `first` of a claim is a model key, or a key that agrees with a model key k on its
   first j bits and then LEAVES THE KEY SPACE OF THE MODEL inside the padding run that follows bit j
   under the harness's bit-expansion embedding (j = 0: inside the root edge; 0 < j < H: inside an
   internal or leaf edge), on the LEFT side of that edge (dir = "below": smaller than every key with
   that prefix) or on its RIGHT side (dir = "above").  Such a key is always absent; the real tries
   have a long edge exactly there.  j = H, dir = "exact" is the model key itself. *)
Firsts(ks) == {[k |-> k, j |-> H, dir |-> "exact"] : k \in ks}
              \cup {[k |-> k, j |-> j, dir |-> d] : k \in ks, j \in 0..(H - 1), d \in {"below", "above"}}
\* first <= p
GeF(p, f) == IF f.j = H THEN Leq(f.k, p)
             ELSE IF Take(p, f.j) = Take(f.k, f.j) THEN f.dir = "below"
             ELSE BitsVal(Take(f.k, f.j)) < BitsVal(Take(p, f.j))
RangeTrue(f, last) == {k \in PresentKeys(kv) : GeF(k, f) /\ Leq(k, last)}
MinKey(S) == CHOOSE k \in S : \A x \in S : Leq(k, x)
Pairs(S) == {[k |-> k, v |-> kv[k]] : k \in S}
\* a mutation: [m, claim, cls, om]; cls "accept" | "reject" | "omit" (om = the omitted true keys)
RangeMutations(f, last) ==
  LET T == RangeTrue(f, last) IN
  {[m |-> "none", claim |-> Pairs(T), cls |-> "accept", om |-> {}]}
  \cup (IF Cardinality(T) >= 2
        THEN {[m |-> "omit-left", claim |-> Pairs(T \ {MinKey(T)}), cls |-> "omit", om |-> {MinKey(T)}]}
        ELSE {})
  \cup (IF Cardinality(T) >= 3
        THEN {[m |-> "omit-left-2", claim |-> Pairs(T \ {MinKey(T), MinKey(T \ {MinKey(T)})}), cls |-> "omit",
               om |-> {MinKey(T), MinKey(T \ {MinKey(T)})}]}
        ELSE {})
  \cup {[m |-> "omit-mid", claim |-> Pairs(T \ {x}), cls |-> "omit", om |-> {x}] :
          x \in {y \in T : y # last /\ y # MinKey(T)}}
  \* every in-range key below one prefix (one subtree / one internal edge of the real trie) is withheld
  \cup {[m |-> "omit-subtree", claim |-> Pairs(T \ Under(T, q)), cls |-> "omit", om |-> Under(T, q)] :
          q \in {pq \in {Take(x, n) : x \in T, n \in 1..(H - 1)} : ~IsPrefixOf(pq, last)}}
  \cup {[m |-> "alter-value", claim |-> (Pairs(T \ {x}) \cup {[k |-> x, v |-> (kv[x] % MaxV) + 1]}), cls |-> "reject", om |-> {}] :
          x \in {y \in T : MaxV > 1}}
  \cup {[m |-> "add-absent", claim |-> (Pairs(T) \cup {[k |-> x, v |-> 1]}), cls |-> "reject", om |-> {}] :
          x \in {y \in Keys : kv[y] = 0 /\ GeF(y, f) /\ Less(y, last) /\ (f.j = H => y # f.k)}}
  \cup {[m |-> "claim-empty", claim |-> {}, cls |-> "reject", om |-> {}]}

(* The verdict the contract demands.  An omission is a LEFT-EDGE omission when every withheld key is
   smaller than every claimed key.  With LeftEdgeChecked = FALSE (the code as it is, DESIGN H10) the
   verdict on left-edge omissions is left open - for the legacy verifier always, for trie2 ONLY when the
   withheld keys include the existing `first` key itself (the boundary leaf is unset and never
   re-inserted) or when the trie has two sibling subtrees with the same commitment (Aliased below);
   every other omission must be rejected by trie2, also with an absent `first`. *)
\* two sibling subtrees with the same commitment (same shape, same values): trie2's proofToPath resolves
\* both from the hash-keyed proof set to ONE node object, and unsetInternal detects the fork point of the two
\* boundary paths by pointer inequality of the children, so it walks past the fork (the code as it is)
Aliased == \E q \in AllPaths : Len(q) < H /\ SubRoot(kv, Append(q, 0)) # Empty
                                /\ SubRoot(kv, Append(q, 0)) = SubRoot(kv, Append(q, 1))
Expect(impl, f, last, mu) ==
  IF mu.cls # "omit" THEN mu.cls
  ELSE LET rest == RangeTrue(f, last) \ mu.om IN
       IF ~(\A x \in mu.om, y \in rest : Less(x, y)) THEN "reject"
       ELSE IF LeftEdgeChecked THEN "reject"
       ELSE IF impl = "legacy" \/ (f.j = H /\ f.k \in mu.om) THEN "left-edge"
       ELSE IF Aliased THEN "left-edge-aliased"
       ELSE "reject"

PresProj == {[k |-> x, v |-> kv[x]] : x \in PresentKeys(kv)}
RQuery ==
  \E impl \in R(Impls), cached \in R(BOOLEAN), f \in R(Firsts(Keys \cup Near)) :
    LET later == {k \in PresentKeys(kv) : GeF(k, f)} IN
    IF later = {}
    THEN \* nothing at or after `first`: the empty claim is the true one
      /\ act' = [name |-> "Range", impl |-> impl, cached |-> cached, first |-> f, m |-> "none-empty", claim |-> {}, whole |-> FALSE]
      /\ res' = Err /\ UNCHANGED kv
      /\ hist' = Append(hist, [a |-> act', expect |-> "accept", more |-> FALSE, pres |-> PresProj])
    ELSE \E last \in R(later) : \E mu \in R(RangeMutations(f, last)) :
      /\ act' = [name |-> "Range", impl |-> impl, cached |-> cached, first |-> f, m |-> mu.m, claim |-> mu.claim, whole |-> FALSE]
      /\ res' = Err /\ UNCHANGED kv
      /\ hist' = Append(hist, [a |-> act', expect |-> Expect(impl, f, last, mu), more |-> (\E k \in PresentKeys(kv) : Less(last, k)),
                               pres |-> PresProj])

\* a GAPPED answer, directed: the boundary runs into the subtree below prefix q (it extends q and is absent or
\* leaves the trie inside an edge there), and every in-range key of that subtree is withheld
GQuery ==
  \E impl \in R(Impls), cached \in R(BOOLEAN) :
    \E q \in R({Take(x, n) : x \in PresentKeys(kv), n \in 1..(H - 1)}) :
      \E f \in R({g \in Firsts(Under(Keys, q)) : g.j >= Len(q) /\ (g.j = H => kv[g.k] = 0)}) :
        \E last \in R({k \in PresentKeys(kv) : GeF(k, f) /\ ~IsPrefixOf(q, k)}) :
          LET T == RangeTrue(f, last)
              mu == [m |-> "omit-subtree", claim |-> Pairs(T \ Under(T, q)), cls |-> "omit", om |-> Under(T, q)] IN
          /\ mu.om # {}
          /\ act' = [name |-> "Range", impl |-> impl, cached |-> cached, first |-> f, m |-> mu.m, claim |-> mu.claim, whole |-> FALSE]
          /\ res' = Err /\ UNCHANGED kv
          /\ hist' = Append(hist, [a |-> act', expect |-> Expect(impl, f, last, mu), more |-> (\E k \in PresentKeys(kv) : Less(last, k)),
                                   pres |-> PresProj])

\* the EMPTY claim ("nothing at or after first") for a boundary at every divergence position: true iff no
\* present key is >= first; a responder that withholds entries must be caught by the has-right-element test
EQuery ==
  \E impl \in R(Impls), cached \in R(BOOLEAN), f \in R(Firsts(Keys \cup Near \cup PresentKeys(kv))) :
    LET later == {k \in PresentKeys(kv) : GeF(k, f)} IN
    /\ act' = [name |-> "Range", impl |-> impl, cached |-> cached, first |-> f, m |-> IF later = {} THEN "none-empty" ELSE "claim-empty",
               claim |-> {}, whole |-> FALSE]
    /\ res' = Err /\ UNCHANGED kv
    /\ hist' = Append(hist, [a |-> act', expect |-> IF later = {} THEN "accept" ELSE "reject", more |-> FALSE, pres |-> PresProj])
\* ... and the same with a boundary inside an edge, on its left side: the shape that needs the has-right test
EQueryLeft ==
  \E impl \in R(Impls), cached \in R(BOOLEAN), k \in R(PresentKeys(kv) \cup Near), j \in R(0..(H - 1)) :
    LET f == [k |-> k, j |-> j, dir |-> "below"]
        later == {x \in PresentKeys(kv) : GeF(x, f)} IN
    /\ act' = [name |-> "Range", impl |-> impl, cached |-> cached, first |-> f, m |-> IF later = {} THEN "none-empty" ELSE "claim-empty",
               claim |-> {}, whole |-> FALSE]
    /\ res' = Err /\ UNCHANGED kv
    /\ hist' = Append(hist, [a |-> act', expect |-> IF later = {} THEN "accept" ELSE "reject", more |-> FALSE, pres |-> PresProj])

\* the whole trie without any proof (proof = nil): the claim must be the complete content
WQuery ==
  \E impl \in R(Impls), cached \in R(BOOLEAN) :
    LET T == PresentKeys(kv) IN
    \E mu \in R({[m |-> "none", claim |-> Pairs(T), expect |-> "accept"]}
               \cup {[m |-> "omit", claim |-> Pairs(T \ {x}), expect |-> "reject"] : x \in T}) :
      /\ act' = [name |-> "Range", impl |-> impl, cached |-> cached, first |-> [k |-> [i \in 1..H |-> 0], j |-> H, dir |-> "exact"], m |-> mu.m, claim |-> mu.claim, whole |-> TRUE]
      /\ res' = Err /\ UNCHANGED kv
      /\ hist' = Append(hist, [a |-> act', expect |-> mu.expect, more |-> FALSE,
                               pres |-> {[k |-> x, v |-> kv[x]] : x \in PresentKeys(kv)}])

PutStep ==
  /\ \/ \E k \in R(Keys), v \in R(Vals) : Put(k, v)
     \/ \E k \in R(Near), v \in R(Vals) : Put(k, v)
     \/ \E k \in R(Near), v \in R(Vals) : Put(k, v)
     \/ \E k \in R(PresentKeys(kv)) : Put(k, 0)
  /\ hist' = Append(hist, [a |-> act', pres |-> {[k |-> x, v |-> kv'[x]] : x \in PresentKeys(kv')}])

\* build first (a few keys), then query
Step == IF Len(hist) < 5 THEN PutStep
        ELSE \/ MQuery \/ MQuery \/ MQuery \/ RQuery \/ RQuery \/ GQuery \/ GQuery \/ EQuery \/ EQueryLeft \/ WQuery \/ PutStep

Emit == /\ PrintT(ToJson(hist))
        /\ kv' = EmptyKV /\ act' = [name |-> "Init"] /\ res' = Err /\ hist' = <<>>

MBTNext == IF Len(hist) >= MBTLen THEN Emit ELSE Step
=============================================================================

------------------------------ MODULE ProofMBT ------------------------------
(* Behaviour generation for TestProofReplay (engine "trie"): Proof plus a history variable.  A
   behaviour builds a key/value set and then asks membership queries (honest and tampered, both
   implementations) and range-proof claims; every step carries the model's verdict.

   Range proofs are specified by their CONTRACT (not transcribed): VerifyRangeProof(root, first,
   keys, values, GetRangeProof(first, last)) must accept exactly the claims whose pairs are all
   pairs of the trie in [first, last], and report whether a key > last exists.  LeftEdgeChecked:
   FALSE = the code as it is: claims that omit present keys at the LEFT edge (between `first` and
   the smallest claimed key) are accepted by both implementations (DESIGN H10; TODO in
   core/trie/proof.go:220) - the model leaves the verdict on exactly these claims open.

   Sweep steps (SQuery) enumerate, for one (first, last), EVERY claim of the contract's shapes (every subset of
   the in-range keys withheld, each value altered, a key added inside / below / beyond the range, the empty
   claim); the engine runs each of them with the proof nodes of every provenance (in-memory nodes of a hashed
   trie, of a never hashed trie, of the database-loaded trie, nodes re-decoded from their encoding).  For trie2
   and a model-key `first` each claim also carries the verdict of RangeProof.tla's transcription of the code as
   it is (mv), which closes the verdicts the contract leaves open.  TQuery steps tamper one node of a range
   proof (RangeProof.tla RTampers) under a true or singly falsified claim.

   Shared proof sets (SharedOnly = TRUE, Proof_shared.cfg; engines TestSharedProofSets / TestStorageProofSharedSets):
   Graft steps copy the sub-trie below one prefix to another prefix of the same length (equal sub-tries at different
   positions, preferably below different edges: Proof.tla Twins); Multi steps are requests of 2..4 distinct keys whose
   proofs are accumulated in ONE set, one Prove call per key, and carry the verdict of every key against that set. *)
EXTENDS RangeProof, Json

CONSTANTS MBTLen, LeftEdgeChecked, SweepMax, SweepOnly, BuildLen,
          SharedOnly   \* TRUE: behaviours of shared proof sets only (Graft / Multi steps; Proof_shared.cfg)
VARIABLE hist
mbtvars == <<vars, hist>>
MBTInit == Init /\ hist = <<>>

R(S) == IF S = {} THEN {} ELSE {RandomElement(S)}
FlipAt(k, i) == [k EXCEPT ![i] = 1 - @]
Near == {FlipAt(k, i) : k \in PresentKeys(kv), i \in 1..H}
Less(a, b) == BitsVal(a) < BitsVal(b)
Leq(a, b) == BitsVal(a) <= BitsVal(b)

\* ---- membership queries
Simplify(o) == IF o = Err THEN [kind |-> "err"]
               ELSE IF o.v.t = "leaf" THEN [kind |-> "leaf", v |-> o.v.v]
               ELSE [kind |-> "inner"]
Shape(pf) == [i \in 1..Len(pf) |-> [t |-> pf[i].n.t, plen |-> IF pf[i].n.t = "edge" THEN Len(pf[i].n.p) ELSE 0]]

TamperChoice(pf, impl) ==
  LET idx == 1..Len(pf) IN
  UNION { {[op |-> "none"]},
          {[op |-> "drop", i |-> i] : i \in R(idx)},
          {[op |-> o, i |-> i, mode |-> md] : o \in R({"l:=junk", "r:=junk", "l:=r", "r:=l", "swap", "c:=junk"}), i \in R(idx), md \in R(Modes)},
          {[op |-> o, i |-> i, mode |-> md] : o \in R({"flip", "short", "long"}), i \in R(idx), md \in R(Modes)},
          {[op |-> o, i |-> i, mode |-> md] : o \in R({"retype-l", "retype-r", "retype-c"}), i \in R(idx), md \in R({"keep"})},
          {[op |-> o, i |-> i, mode |-> md] : o \in R({"l:=junk", "r:=junk", "c:=junk"}), i \in (idx \cap {Len(pf)}), md \in R(Modes)},
          {[op |-> "otherkey", k2 |-> k2] : k2 \in R(Keys \cup Near)},
          {[op |-> "leaf-rehash"]} }

MQuery ==
  \E k \in R(Keys \cup Near \cup PresentKeys(kv)), impl \in R(Impls), cached \in R(BOOLEAN) :
    LET pf == Prove(kv, impl, k, cached) IN
    \E tm \in R({t \in TamperChoice(pf, impl) : Enabled(pf, impl, t)}) :
      /\ Query(k, impl, cached, tm)
      /\ hist' = Append(hist, [a |-> act', out |-> Simplify(res'), shape |-> Shape(pf),
                               truth |-> kv[Target(k, tm)],
                               pres |-> {[k |-> x, v |-> kv[x]] : x \in PresentKeys(kv)}])

\* ---- range claims
(* The left boundary `first` of a claim is a model key, or a key that agrees with a model key k on its
   first j bits and then LEAVES THE KEY SPACE OF THE MODEL inside the padding run that follows bit j
   under the harness's bit-expansion embedding (j = 0: inside the root edge; 0 < j < H: inside an
   internal or leaf edge), on the LEFT side of that edge (dir = "below": smaller than every key with
   that prefix) or on its RIGHT side (dir = "above").  Such a key is always absent; the real tries
   have a long edge exactly there.  j = H, dir = "exact" is the model key itself. *)
Firsts(ks) == {[k |-> k, j |-> H, dir |-> "exact"] : k \in ks}
              \cup {[k |-> k, j |-> j, dir |-> d] : k \in ks, j \in 0..(H - 1), d \in {"below", "above"}}
\* first <= p
GeF(p, f) == IF f.j = H THEN Leq(f.k, p)
             ELSE IF Take(p, f.j) = Take(f.k, f.j) THEN f.dir = "below"
             ELSE BitsVal(Take(f.k, f.j)) < BitsVal(Take(p, f.j))
RangeTrue(f, last) == {k \in PresentKeys(kv) : GeF(k, f) /\ Leq(k, last)}
MinKey(S) == CHOOSE k \in S : \A x \in S : Leq(k, x)
Pairs(S) == {[k |-> k, v |-> kv[k]] : k \in S}
\* a mutation: [m, claim, cls, om]; cls "accept" | "reject" | "omit" (om = the omitted true keys)
RangeMutations(f, last) ==
  LET T == RangeTrue(f, last) IN
  {[m |-> "none", claim |-> Pairs(T), cls |-> "accept", om |-> {}]}
  \cup (IF Cardinality(T) >= 2
        THEN {[m |-> "omit-left", claim |-> Pairs(T \ {MinKey(T)}), cls |-> "omit", om |-> {MinKey(T)}]}
        ELSE {})
  \cup (IF Cardinality(T) >= 3
        THEN {[m |-> "omit-left-2", claim |-> Pairs(T \ {MinKey(T), MinKey(T \ {MinKey(T)})}), cls |-> "omit",
               om |-> {MinKey(T), MinKey(T \ {MinKey(T)})}]}
        ELSE {})
  \cup {[m |-> "omit-mid", claim |-> Pairs(T \ {x}), cls |-> "omit", om |-> {x}] :
          x \in {y \in T : y # last /\ y # MinKey(T)}}
  \* every in-range key below one prefix (one subtree / one internal edge of the real trie) is withheld
  \cup {[m |-> "omit-subtree", claim |-> Pairs(T \ Under(T, q)), cls |-> "omit", om |-> Under(T, q)] :
          q \in {pq \in {Take(x, n) : x \in T, n \in 1..(H - 1)} : ~IsPrefixOf(pq, last)}}
  \cup {[m |-> "alter-value", claim |-> (Pairs(T \ {x}) \cup {[k |-> x, v |-> (kv[x] % MaxV) + 1]}), cls |-> "reject", om |-> {}] :
          x \in {y \in T : MaxV > 1}}
  \cup {[m |-> "add-absent", claim |-> (Pairs(T) \cup {[k |-> x, v |-> 1]}), cls |-> "reject", om |-> {}] :
          x \in {y \in Keys : kv[y] = 0 /\ GeF(y, f) /\ Less(y, last) /\ (f.j = H => y # f.k)}}
  \cup {[m |-> "claim-empty", claim |-> {}, cls |-> "reject", om |-> {}]}

(* The verdict the contract demands.  An omission is a LEFT-EDGE omission when every withheld key is
   smaller than every claimed key.  With LeftEdgeChecked = FALSE (the code as it is, DESIGN H10) the
   verdict on left-edge omissions is left open - for the legacy verifier always, for trie2 ONLY when the
   withheld keys include the existing `first` key itself (the boundary leaf is unset and never
   re-inserted) or when the trie has two sibling subtrees with the same commitment (Aliased below);
   every other omission must be rejected by trie2, also with an absent `first`. *)
\* two sibling subtrees with the same commitment (same shape, same values): trie2's proofToPath resolves
\* both from the hash-keyed proof set to ONE node object, and unsetInternal detects the fork point of the two
\* boundary paths by pointer inequality of the children, so it walks past the fork (the code as it is)
Aliased == \E q \in AllPaths : Len(q) < H /\ SubRoot(kv, Append(q, 0)) # Empty
                                /\ SubRoot(kv, Append(q, 0)) = SubRoot(kv, Append(q, 1))
Expect(impl, f, last, mu) ==
  IF mu.cls # "omit" THEN mu.cls
  ELSE LET rest == RangeTrue(f, last) \ mu.om IN
       IF ~(\A x \in mu.om, y \in rest : Less(x, y)) THEN "reject"
       ELSE IF LeftEdgeChecked THEN "reject"
       ELSE IF impl = "legacy" \/ (f.j = H /\ f.k \in mu.om) THEN "left-edge"
       ELSE IF Aliased THEN "left-edge-aliased"
       ELSE "reject"

PresProj == {[k |-> x, v |-> kv[x]] : x \in PresentKeys(kv)}
RQuery ==
  \E impl \in R(Impls), cached \in R(BOOLEAN), f \in R(Firsts(Keys \cup Near)) :
    LET later == {k \in PresentKeys(kv) : GeF(k, f)} IN
    IF later = {}
    THEN \* nothing at or after `first`: the empty claim is the true one
      /\ act' = [name |-> "Range", impl |-> impl, cached |-> cached, first |-> f, m |-> "none-empty", claim |-> {}, whole |-> FALSE]
      /\ res' = Err /\ UNCHANGED kv
      /\ hist' = Append(hist, [a |-> act', expect |-> "accept", more |-> FALSE, pres |-> PresProj])
    ELSE \E last \in R(later) : \E mu \in R(RangeMutations(f, last)) :
      /\ act' = [name |-> "Range", impl |-> impl, cached |-> cached, first |-> f, m |-> mu.m, claim |-> mu.claim, whole |-> FALSE]
      /\ res' = Err /\ UNCHANGED kv
      /\ hist' = Append(hist, [a |-> act', expect |-> Expect(impl, f, last, mu), more |-> (\E k \in PresentKeys(kv) : Less(last, k)),
                               pres |-> PresProj])

\* a GAPPED answer, directed: the boundary runs into the subtree below prefix q (it extends q and is absent or
\* leaves the trie inside an edge there), and every in-range key of that subtree is withheld
GQuery ==
  \E impl \in R(Impls), cached \in R(BOOLEAN) :
    \E q \in R({Take(x, n) : x \in PresentKeys(kv), n \in 1..(H - 1)}) :
      \E f \in R({g \in Firsts(Under(Keys, q)) : g.j >= Len(q) /\ (g.j = H => kv[g.k] = 0)}) :
        \E last \in R({k \in PresentKeys(kv) : GeF(k, f) /\ ~IsPrefixOf(q, k)}) :
          LET T == RangeTrue(f, last)
              mu == [m |-> "omit-subtree", claim |-> Pairs(T \ Under(T, q)), cls |-> "omit", om |-> Under(T, q)] IN
          /\ mu.om # {}
          /\ act' = [name |-> "Range", impl |-> impl, cached |-> cached, first |-> f, m |-> mu.m, claim |-> mu.claim, whole |-> FALSE]
          /\ res' = Err /\ UNCHANGED kv
          /\ hist' = Append(hist, [a |-> act', expect |-> Expect(impl, f, last, mu), more |-> (\E k \in PresentKeys(kv) : Less(last, k)),
                                   pres |-> PresProj])

\* the EMPTY claim ("nothing at or after first") for a boundary at every divergence position: true iff no
\* present key is >= first; a responder that withholds entries must be caught by the has-right-element test
EQuery ==
  \E impl \in R(Impls), cached \in R(BOOLEAN), f \in R(Firsts(Keys \cup Near \cup PresentKeys(kv))) :
    LET later == {k \in PresentKeys(kv) : GeF(k, f)} IN
    /\ act' = [name |-> "Range", impl |-> impl, cached |-> cached, first |-> f, m |-> IF later = {} THEN "none-empty" ELSE "claim-empty",
               claim |-> {}, whole |-> FALSE]
    /\ res' = Err /\ UNCHANGED kv
    /\ hist' = Append(hist, [a |-> act', expect |-> IF later = {} THEN "accept" ELSE "reject", more |-> FALSE, pres |-> PresProj])
\* ... and the same with a boundary inside an edge, on its left side: the shape that needs the has-right test
EQueryLeft ==
  \E impl \in R(Impls), cached \in R(BOOLEAN), k \in R(PresentKeys(kv) \cup Near), j \in R(0..(H - 1)) :
    LET f == [k |-> k, j |-> j, dir |-> "below"]
        later == {x \in PresentKeys(kv) : GeF(x, f)} IN
    /\ act' = [name |-> "Range", impl |-> impl, cached |-> cached, first |-> f, m |-> IF later = {} THEN "none-empty" ELSE "claim-empty",
               claim |-> {}, whole |-> FALSE]
    /\ res' = Err /\ UNCHANGED kv
    /\ hist' = Append(hist, [a |-> act', expect |-> IF later = {} THEN "accept" ELSE "reject", more |-> FALSE, pres |-> PresProj])

\* ---- sweeps: every claim shape over one (first, last)
SibPresent(k) == kv[FlipAt(k, H)] # 0
PosClass(k) == IF kv[k] = 0 THEN "absent" ELSE IF SibPresent(k) THEN "leaf-under-bin" ELSE "leaf-at-edge"
FirstClass(f) == IF f.j = H THEN PosClass(f.k) ELSE "in-edge-" \o f.dir
MaxKeyOf(S) == CHOOSE k \in S : \A x \in S : Leq(x, k)
OmitShape(f, T, last, om) ==
  LET fk == IF f.j = H /\ kv[f.k] # 0 THEN {f.k} ELSE {} IN
  IF om = {} THEN "true"
  ELSE IF fk \subseteq om /\ fk # {} THEN (IF om = fk THEN "omit-first-only" ELSE IF om = T \ {last} THEN "omit-all-but-last" ELSE "omit-first-and-some")
  ELSE IF om = (T \ {last}) \ fk THEN (IF fk = {} THEN "omit-all-but-last" ELSE "omit-interior-all")
  ELSE "omit-interior-some"
\* the verdict of the transcription of the code as it is (trie2, `first` a model key): "accept+" (has more) |
\* "accept-" | "reject" | "panic"; "" when the transcription does not apply
MV(impl, f, claim) ==
  IF impl # "trie2" \/ f.j # H THEN ""
  ELSE LET cl == SortPairs(claim)
           last == IF claim = {} THEN f.k ELSE cl[Len(cl)].k
           o == VRange(Root(kv), f.k, cl, RProof(kv, f.k, last, TRUE), FALSE) IN
       IF o.r = "accept" THEN (IF o.more THEN "accept+" ELSE "accept-") ELSE o.r
SClaim(impl, f, last, m, claim, cls, om) ==
  LET rl == IF claim = {} THEN last ELSE MaxKeyOf({p.k : p \in claim}) IN
  [m |-> m, claim |-> claim, expect |-> Expect(impl, f, last, [cls |-> cls, om |-> om]),
   more |-> (\E k \in PresentKeys(kv) : Less(rl, k)), mv |-> MV(impl, f, claim)]
SweepClaims(impl, f, last) ==
  LET T == RangeTrue(f, last) IN
  {SClaim(impl, f, last, OmitShape(f, T, last, om), Pairs(T \ om), IF om = {} THEN "accept" ELSE "omit", om) : om \in SUBSET (T \ {last})}
  \cup {SClaim(impl, f, last, "alter-value", Pairs(T \ {x}) \cup {[k |-> x, v |-> MaxV + 1]}, "reject", {}) : x \in T}
  \cup {SClaim(impl, f, last, "add-inside", Pairs(T) \cup {[k |-> x, v |-> 1]}, "reject", {}) :
          x \in {y \in Keys : kv[y] = 0 /\ GeF(y, f) /\ Less(y, last) /\ (f.j = H => y # f.k)}}
  \cup {SClaim(impl, f, last, "add-below-absent", Pairs(T) \cup {[k |-> x, v |-> 1]}, "reject", {}) :
          x \in R({y \in Keys : kv[y] = 0 /\ ~GeF(y, f)})}
  \cup {SClaim(impl, f, last, "add-beyond", Pairs(RangeTrue(f, x)) \cup {[k |-> x, v |-> 1]}, "reject", {}) :
          x \in R({y \in Keys : kv[y] = 0 /\ Less(last, y)})}
  \cup {SClaim(impl, f, last, "claim-empty", {}, "reject", {})}
SLater(f) == {k \in PresentKeys(kv) : GeF(k, f) /\ Cardinality(RangeTrue(f, k)) <= SweepMax}
\* bias: 1 an existing key, 2 / 6 an existing key whose last-bit sibling exists (a leaf directly under a bottom-level
\* binary node; 6: the right end too), 3 an absent model key, 4 / 5 any boundary incl. those inside an edge
SCands(bias) ==
  LET ex == {g \in Firsts(PresentKeys(kv)) : g.j = H}
      c == {g \in (CASE bias = 1 -> ex
                     [] bias \in {2, 6} -> {x \in ex : SibPresent(x.k)}
                     [] bias = 3 -> {x \in Firsts(Keys \ PresentKeys(kv)) : x.j = H}
                     [] bias = 4 -> Firsts(PresentKeys(kv))
                     [] OTHER -> Firsts(Keys \cup Near)) : SLater(g) # {}} IN
  IF c = {} THEN ex ELSE c
SLasts(f, bias) ==
  LET later == SLater(f)
      big == {k \in later : Cardinality(RangeTrue(f, k)) >= 3}
      sib == {k \in later : SibPresent(k) /\ (f.j = H => k # f.k /\ k # FlipAt(f.k, H))}    \* ... under ANOTHER bottom-level binary node
      bigsib == big \cap sib IN
  IF bias \in {3, 6} /\ bigsib # {} THEN bigsib
  ELSE IF bias \in {3, 6} /\ sib # {} THEN sib
  ELSE IF bias # 1 /\ big # {} THEN big ELSE later      \* bias 1: any length, single- and two-element ranges included
SQuery ==
  \E impl \in R(Impls), bias \in R(1..6) :
    \E f \in R(SCands(bias)) :
      \E last \in R(SLasts(f, bias)) :
        /\ act' = [name |-> "Sweep", impl |-> impl, first |-> f, k |-> last]
        /\ res' = Err /\ UNCHANGED kv
        /\ hist' = Append(hist, [a |-> act', claims |-> SweepClaims(impl, f, last), fc |-> FirstClass(f), lc |-> PosClass(last),
                                 pres |-> PresProj])

\* ---- one tampered node of a range proof, under a true or singly falsified claim (`first` a model key)
\* the proof set as the code holds it: one entry per key, Prove(first) first
RECURSIVE DedupFrom(_, _, _)
DedupFrom(acc, s, i) == IF i > Len(s) THEN acc
                        ELSE DedupFrom(IF Has(acc, s[i].key) THEN acc ELSE Append(acc, s[i]), s, i + 1)
RangeProofSet(impl, first, last) ==
  DedupFrom(Prove(kv, impl, first, FALSE), IF first = last THEN <<>> ELSE Prove(kv, impl, last, FALSE), 1)
IndexIn(pf, key) == CHOOSE i \in 1..Len(pf) : pf[i].key = key /\ \A j \in 1..(i - 1) : pf[j].key # key
TQuery ==
  \E impl \in R(Impls), w \in R(1..4) :
   \E k \in R(IF w = 1 /\ PresentKeys(kv) # {} THEN PresentKeys(kv) ELSE Keys \cup Near \cup PresentKeys(kv)) :
    \* w: 1 the single-element case, 2 the empty-claim case (neither recomputes the root), 3 / 4 any case
    \E c \in R(LET all == TamperClaims(kv, k)
                   pick == {x \in all : CaseOf(k, x) = (IF w = 1 THEN "single" ELSE "empty")} IN
               IF w \in {1, 2} /\ pick # {} THEN pick ELSE all) :
      LET p1 == Prove(kv, impl, k, FALSE)
          p2 == Prove(kv, impl, c.last, FALSE)
          pf == RangeProofSet(impl, k, c.last)
          ok == {t \in RTampers(pf) : REnabled(pf, t)}
          \* w odd: the node the boundary's path ends in (it holds the leaf / the divergence)
          atEnd == {t \in ok : t.op # "none" /\ t.op # "drop" /\ t.i = Len(p1)}
          \* w = 1: ... its leaf-side child replaced (with the value an alter-value claim asserts)
          atEndJunk == {t \in atEnd : t.op \in {"c:=junk", "l:=junk", "r:=junk"}} IN
      \E tm \in R(IF w = 1 /\ atEndJunk # {} THEN atEndJunk ELSE IF w \in {1, 3} /\ atEnd # {} THEN atEnd ELSE ok) :
        LET onFirst == tm.op = "none" \/ tm.i <= Len(p1)
            o == IF impl = "trie2" THEN VRange(Root(kv), k, c.cl, Apply(pf, k, tm), FALSE) ELSE [r |-> ""] IN
        /\ act' = [name |-> "RTamper", impl |-> impl, k |-> k, last |-> c.last, m |-> c.m, cl |-> c.cl, tm |-> tm,
                   path |-> IF onFirst THEN "first" ELSE "last",
                   idx |-> IF tm.op = "none" THEN 0 ELSE IF onFirst THEN tm.i ELSE IndexIn(p2, pf[tm.i].key),
                   case |-> CaseOf(k, c)]
        /\ res' = Err /\ UNCHANGED kv
        /\ hist' = Append(hist, [a |-> act', holds |-> ClaimHolds(kv, k, c), more |-> MoreTrue(kv, c),
                                 mv |-> IF o.r = "accept" THEN (IF o.more THEN "accept+" ELSE "accept-") ELSE o.r,
                                 shape |-> Shape(p1), shape2 |-> Shape(p2), pres |-> PresProj])

\* the whole trie without any proof (proof = nil): the claim must be the complete content
WQuery ==
  \E impl \in R(Impls), cached \in R(BOOLEAN) :
    LET T == PresentKeys(kv) IN
    \E mu \in R({[m |-> "none", claim |-> Pairs(T), expect |-> "accept"]}
               \cup {[m |-> "omit", claim |-> Pairs(T \ {x}), expect |-> "reject"] : x \in T}) :
      /\ act' = [name |-> "Range", impl |-> impl, cached |-> cached, first |-> [k |-> [i \in 1..H |-> 0], j |-> H, dir |-> "exact"], m |-> mu.m, claim |-> mu.claim, whole |-> TRUE]
      /\ res' = Err /\ UNCHANGED kv
      /\ hist' = Append(hist, [a |-> act', expect |-> mu.expect, more |-> FALSE,
                               pres |-> {[k |-> x, v |-> kv[x]] : x \in PresentKeys(kv)}])

\* ---- proof sets shared between the keys of one request (Proof.tla, "shared proof sets"; engine TestSharedProofSets)
\* Graft: the sub-trie below prefix p is copied below another prefix q of the same length - equal sub-tries at two
\* positions, which a value alphabet tied to the keys can never produce
GraftKV(p, q) == [k \in Keys |-> IF IsPrefixOf(q, k) THEN kv[p \o Drop(k, Len(p))] ELSE kv[k]]
GraftFrom(j) == LET all == {Take(k, j) : k \in PresentKeys(kv)}
                    big == {x \in all : Cardinality(Under(PresentKeys(kv), x)) >= 2} IN     \* a binary node on top
                IF big # {} THEN big ELSE all
GraftStep ==
  \E j \in R(LET js == {i \in 1..(H - 1) : \E k \in PresentKeys(kv) : Cardinality(Under(PresentKeys(kv), Take(k, i))) >= 2} IN
            IF js # {} THEN js ELSE 1..(H - 1)) :
    \E p \in R(GraftFrom(j)) :
      \E q \in R(LET all == {x \in SeqsOfLen(j) : x # p}
                       good == {x \in all : Twins(GraftKV(p, x)) # {}} IN      \* ... below different edges
                   IF good # {} THEN good ELSE all) :
        /\ kv' = GraftKV(p, q)
        /\ act' = [name |-> "Graft", p |-> p, q |-> q] /\ res' = Err
        /\ hist' = Append(hist, [a |-> act', pres |-> {[k |-> x, v |-> kv'[x]] : x \in PresentKeys(kv')}])
\* Multi: one request = an ordered list of 2..4 distinct keys; the set is filled by one Prove call per key (as
\* rpc/v10/storage.go does per trie); the step carries the verdict of every key against the accumulated set.  The
\* engine runs the request in EVERY order: the verdicts (the key's value / absence) do not depend on it.
TwinKeys == UNION {Under(Keys, pq[1]) \cup Under(Keys, pq[2]) : pq \in Twins(kv)}
MultiPool(w) == LET c == CASE w \in {1, 4} -> TwinKeys
                           [] w = 2 -> PresentKeys(kv) \cup Near
                           [] OTHER -> Keys IN
                IF Cardinality(c) >= 4 THEN c ELSE Keys
MultiQuery ==
  \E impl \in R(Impls), cached \in R(BOOLEAN), n \in R(2..4), w \in R(1..4) :
    \E pool \in {MultiPool(w)} :
      \E k1 \in R(pool) : \E k2 \in R(pool \ {k1}) : \E k3 \in R(pool \ {k1, k2}) : \E k4 \in R(pool \ {k1, k2, k3}) :
        \E req \in {SubSeq(<<k1, k2, k3, k4>>, 1, n)} : \E set \in {SharedSet(kv, impl, req, cached, "none")} :
          /\ act' = [name |-> "Multi", impl |-> impl, cached |-> cached, req |-> req]
          /\ res' = Err /\ UNCHANGED kv
          /\ hist' = Append(hist, [a |-> act', outs |-> [i \in 1..n |-> Simplify(Verify(impl, Root(kv), req[i], set))],
                                   truths |-> [i \in 1..n |-> kv[req[i]]], shape |-> Shape(set),
                                   twins |-> Cardinality(Twins(kv)), pres |-> PresProj])

PutStep ==
  /\ \/ \E k \in R(Keys), v \in R(Vals) : Put(k, v)
     \/ \E k \in R(Near), v \in R(Vals) : Put(k, v)
     \/ \E k \in R(Near), v \in R(Vals) : Put(k, v)
     \/ \E k \in R(PresentKeys(kv)) : Put(k, 0)
  /\ hist' = Append(hist, [a |-> act', pres |-> {[k |-> x, v |-> kv'[x]] : x \in PresentKeys(kv')}])

\* build first (a few keys), then query
Step == IF Len(hist) < BuildLen THEN PutStep
        ELSE IF SharedOnly
        THEN IF PresentKeys(kv) = {} THEN PutStep
             ELSE \E w \in R(1..8) : IF w = 1 \/ Len(hist) = BuildLen \/ (w <= 4 /\ Twins(kv) = {}) THEN GraftStep
                                     ELSE IF w = 2 THEN PutStep ELSE MultiQuery
        ELSE IF SweepOnly
        \* (TLC's simulator evaluates every disjunct of a step before it picks one: the expensive sweep / tamper
        \*  steps are chosen by a random selector first and live in simulation runs of their own)
        THEN IF PresentKeys(kv) = {} THEN PutStep
             ELSE \E w \in R(1..2) : IF w = 2 THEN TQuery ELSE SQuery
        ELSE \/ MQuery \/ MQuery \/ MQuery \/ RQuery \/ RQuery \/ GQuery \/ GQuery \/ EQuery \/ EQueryLeft \/ WQuery \/ PutStep

Emit == /\ PrintT(ToJson(hist))
        /\ kv' = EmptyKV /\ act' = [name |-> "Init"] /\ res' = Err /\ hist' = <<>>

MBTNext == IF Len(hist) >= MBTLen THEN Emit ELSE Step
=============================================================================

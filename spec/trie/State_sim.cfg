\* behaviour generation for the state level
CONSTANTS
  Contracts = {"c1", "c2", "c3"}
  Sys = "sys"
  Slots = {"s1", "s2", "s3", "s4"}
  MaxVal = 3
  Classes = {"h1", "h2"}
  MaxNonce = 3
  Sierra = {"k1", "k2"}
  Compiled = {"x1", "x2"}
  MaxBlocks = 1000000
  MaxDiff = 6
  ReadFaults = TRUE
  Bug = "none"
  MBTLen = 24
INIT MBTInit
NEXT MBTNext
CHECK_DEADLOCK FALSE

\* quick: two-step writes under the per-message mutex; <= 3 frames
\* measured: 19 430 distinct / 37 641 generated states, depth 33
CONSTANTS
  FrameAlphabet <- FramesMutex
  MaxFrames = 3
  MaxSubs = 2
  MaxNotes = 2
  MaxEntries = 2
  PoolSize = 2
  AllowClose = FALSE
  AllowShutdown = FALSE
  SplitWrites = TRUE
  WriteMutex = TRUE
  WaitActivation = TRUE
  FixNonRequest = FALSE
  FixCloseReason = FALSE
  DrainRemainder = TRUE
INIT Init
NEXT Next
VIEW view
INVARIANTS TypeOK POnePerFrame PContent PInvocations PWholeFrames PRespFIFO PNotesFIFO PAfterActivation PNoNoteAfterUnsub PClientView PReadLimit PInternalClose PCloseIsLast PDocumentedExit PLaterAnswered PDrained
PROPERTIES PNoWriteAfterExit PExitFinal PErrorMeansNothingWritten
CHECK_DEADLOCK FALSE

------------------------------- MODULE WsConn -------------------------------
(* G04 (specification growth) - one JSON-RPC WebSocket connection of jsonrpc.Websocket
   (jsonrpc/websocket.go) on top of jsonrpc.Server.HandleReadWriter (jsonrpc/server.go).

   What the code does (read, not assumed):

   * Websocket.ServeHTTP is ONE loop per connection:  conn.Reader -> Server.HandleReadWriter ->
     drain the message -> conn.Reader ...   A message (frame) is handled to completion, its
     response written, before the next one is read: frames are handled SEQUENTIALLY.  The only
     concurrency is (a) the worker pool inside ONE batch frame (entries finish in any order, the
     array is written when all are done) and (b) goroutines started by handlers that keep the
     jsonrpc.Conn handed to them in the context and write server-initiated messages later.
   * A handler-held Conn writes through the same websocketConn as the loop.  juno has no write
     mutex of its own ("rw must permit concurrent writes"): whole-frame atomicity is delegated to
     coder/websocket's per-message mutex.  WriteMutex models that delegation; with SplitWrites a
     write is two steps so that TLC can interleave writers.
   * connection.Write blocks on the per-message `activated` channel: nothing a handler (goroutine)
     writes can overtake the initial response of the message that created it.  If that initial
     write fails, `initialErr` makes every later write through that Conn fail.
   * The context given to a handler is cancelled when its message is done; Conn.Context() is the
     connection context: cancelled when ServeHTTP returns (defer cancel) or when the server's
     shutdown channel closes.  After ServeHTTP has returned every write through the Conn fails
     (the websocket is closed); between the shutdown signal and the return a write may still win
     the race and reach the SAME connection.
   * A message longer than ReadLimit: the library writes a close frame 1009 (StatusMessageTooBig);
     the -32700 answer the server then computes can no longer be written; ServeHTTP returns.  If
     the first JSON value of the oversized message lies inside the limit ("bigtail") it IS handled
     and answered, the close happens while the rest is drained.

   * MESSAGE FRAMING.  A websocket message is one or more frames; HandleReader stops reading as soon as the first JSON
     value is complete (json.Decoder on a 128-byte bufio.Reader), so when HandleReadWriter returns the message may
     have an UNREAD REMAINDER: the empty FIN frame of a message sent through a streaming writer (JSON in a non-final
     frame + empty final continuation frame - wsjson.Write, many client libraries), or payload bytes of the current
     frame (insignificant whitespace / padding behind the value that fell behind a read boundary: a 128-byte request
     followed by "\n", a request followed by more whitespace than the decoder buffers).  The loop therefore DRAINS
     the message (io.Copy(io.Discard, r)) before it asks for the next one; coder/websocket refuses the next
     conn.Reader otherwise ("previous message not read to completion", close 1011) or parses the unread payload
     as the next frame header (protocol error, close 1002): the first message is answered, every LATER message on
     the connection is not.  fm is the framing of a client message ("whole" | "frag" | "pad"), rem the unread
     remainder after HandleReadWriter ("none" | "fin" | "bytes"); DrainRemainder (TRUE = the code as it is) is the
     mechanism, ReadDesync what happens without it.

   Response CONTENT is not re-modelled: per entry it is what JsonRpc.tla (C11) says, through an
   INSTANCE of that module (transport independence = the same operators decide the answer).
   Known deviation inherited from C11: FixNonRequest = FALSE (a valid-JSON non-request sent as a
   single frame is answered -32700 instead of -32600).

   Handlers of the replayer (harness/engines/ws), mirrored here because ordering promises are about
   them: m2(ctx, a, b) echoes; sub(ctx, key, tag) registers subscription `key` on this connection
   and starts a goroutine that writes numbered notifications through the Conn until it is
   cancelled (unsub) or Conn.Context() is done; unsub(ctx, key, tag) cancels it, WAITS for the
   goroutine to end and then answers true (rpc/v10 Unsubscribe does the same); boom(ctx, n, tag)
   returns a value encoding/json cannot serialise (error text short for n = 1, longer than a close
   frame's reason for n = 2): HandleReader fails, ServeHTTP ends the connection with 1011. *)
EXTENDS Naturals, Integers, Sequences, FiniteSets, TLC

CONSTANTS
  FrameAlphabet,   \* frames the client may send
  MaxFrames,       \* frames per connection
  MaxSubs,         \* subscription keys 1..MaxSubs
  MaxNotes,        \* Write calls per subscription goroutine
  MaxEntries,      \* longest batch
  PoolSize,        \* NewServer(poolMaxGoroutines)
  AllowClose,      \* the client may close the connection
  AllowShutdown,   \* the server's shutdown channel may close
  SplitWrites,     \* a write is two steps (head, tail) instead of one
  WriteMutex,      \* TRUE: writers exclude each other for a whole frame (coder/websocket)
  WaitActivation,  \* TRUE: connection.Write waits for the initial response (code as it is)
  FixNonRequest,   \* FALSE: code as it is (C11 known finding)
  FixCloseReason,  \* FALSE: code as it is: ServeHTTP cuts the close reason at 125 bytes, a close frame
                   \* carries at most 123: with a longer error text NO close frame is sent (finding of G04)
  DrainRemainder   \* TRUE: code as it is: the loop reads the rest of a message after answering it (mechanism switch)

Subs    == 1..MaxSubs
Idx     == 1..MaxEntries
Writers == 0..MaxSubs            \* 0 = the connection loop, k = goroutine of subscription k

(* the method table of the replayer: every method takes the context and two required params *)
WsMethods ==
  [m \in {"m2", "sub", "unsub", "boom"} |->
     [ctx |-> TRUE, params |-> <<[name |-> "a", opt |-> FALSE, ty |-> "int"], [name |-> "b", opt |-> FALSE, ty |-> "str"]>>]]

JR == INSTANCE JsonRpc WITH
        Methods <- WsMethods, EntryAlphabet <- {}, TopKinds <- {}, MaxEntries <- MaxEntries,
        PoolSize <- PoolSize, BatchDisabled <- FALSE, FarChoices <- {FALSE},
        FixNotif <- TRUE, FixNonRequest <- FixNonRequest, FixLongWs <- TRUE,
        \* the replayer's methods take (ctx, a int, b string): no pointer parameter, no validator
        FixNullRequired <- TRUE, HasValidator <- FALSE, NilPointerSkipsValidation <- TRUE,
        \* the connection's context stays live while a message is handled (WithRequestTimeout is not modelled), no gate
        CtxChoices <- {"live"}, GateChoices <- {FALSE}, SilentOnCtx <- {},
        cx <- "live", cx0 <- "live", gated <- FALSE, seen <- <<>>,
        top <- "none", far <- FALSE, entries <- <<>>, phase <- "done", nxt <- 1, running <- {},
        called <- <<>>, stage <- <<>>, out <- <<>>, shape <- "nothing", log <- <<>>

(* A frame: k = "single" | "batch" | "garbage" | "big" | "bigtail"; es = its entries (JsonRpc
   entries).  big: the JSON value crosses ReadLimit; bigtail: a request inside the limit followed
   by padding beyond it. *)
Fr(k, es) == [k |-> k, es |-> es, fm |-> "whole"]
(* ... in another framing: "frag" = the JSON text in non-final frame(s) + an empty FIN frame; "pad" = one frame, the
   JSON value followed by whitespace that ends behind a read boundary (all within ReadLimit) *)
FrF(k, es, fm) == [k |-> k, es |-> es, fm |-> fm]
Framings == {"whole", "frag", "pad"}
RemOf(fr) == IF fr.k = "bigtail" THEN "bytes" ELSE IF fr.fm = "frag" THEN "fin" ELSE IF fr.fm = "pad" THEN "bytes" ELSE "none"

CodeSubExists == 45     \* sub: the key is already taken on this server
CodeNoSub     == 46     \* unsub: no active subscription with that key on this connection
CodeCancelled == 77     \* a gated handler whose context was cancelled
ClosedTooBig  == 1009
ClosedIntErr  == 1011
ClosedProto   == 1002

(* the handler is invoked for this entry (operational reading of C11) *)
Invokes(e) == ~JR!DecodeErr(e) /\ JR!HandleRequest(1, e).inv # JR!NoInv
IsSub(e)   == Invokes(e) /\ e.meth = "sub"
IsUnsub(e) == Invokes(e) /\ e.meth = "unsub"
KeyOf(e)   == IF JR!HandleRequest(1, e).inv.args[1] = "p" THEN 1 ELSE 2
(* the answer to e cannot be serialised (a notification's result is never looked at) *)
IsBoom(e)  == Invokes(e) /\ e.meth = "boom" /\ JR!HasId(e)

(* wire contents, one record shape for TLC *)
NoFrame == [t |-> "none", f |-> 0, k |-> 0, n |-> 0, code |-> 0, shape |-> "-", body |-> <<>>]
RespFrame(f, shape, body) == [t |-> "resp", f |-> f, k |-> 0, n |-> 0, code |-> 0, shape |-> shape, body |-> body]
NoteFrame(k, n) == [t |-> "note", f |-> 0, k |-> k, n |-> n, code |-> 0, shape |-> "object", body |-> <<>>]
CloseFrame(c)   == [t |-> "close", f |-> 0, k |-> 0, n |-> 0, code |-> c, shape |-> "-", body |-> <<>>]

VARIABLES
  sent,     \* frames written by the client, in order (the server's input is FIFO)
  nread,    \* how many of them the loop has taken
  cur,      \* 0: the loop is in conn.Reader; else the frame being handled
  est,      \* [Idx -> "idle" | "queued" | "called" | "finished"] entries of frame cur
  pend,     \* [Idx -> response computed at the call, appended when the handler returns]
  acc,      \* responses gathered for frame cur
  tail,     \* a bigtail frame was answered; draining it will hit the limit
  rem,      \* the unread remainder of the message just answered (only without the drain): "none" | "fin" | "bytes"
  wire,     \* server -> client: <<[w, part, c]>>; part 0 whole, 1 head, 2 tail
  wip,      \* [Writers -> frame being written or NoFrame]
  sub,      \* [Subs -> "none" | "active" | "cancelled" | "told" | "done"]
  owner,    \* [Subs -> <<frame, entry>> that created it, <<0, 0>> none]
  unsubby,  \* [Subs -> <<frame, entry>> of the unsub that cancelled it]
  act,      \* [Subs -> the creating message's `activated` channel is closed]
  ierr,     \* [Subs -> initialErr of the creating message]
  gor,      \* [Subs -> "idle" | "pending"]  pending = inside Conn.Write
  natt,     \* [Subs -> Write calls so far]
  ninv,     \* [(frame, entry) -> handler invocations]
  failedf,  \* frame whose handling ended the connection (write failure, read limit), 0 none
  client,   \* "open" | "closing"
  cseen,    \* length of the wire the client has consumed when it stopped reading
  srv,      \* "serving" | "exited"   (ServeHTTP returned)
  shut,     \* the shutdown channel is closed
  ctxc,     \* Conn.Context() is cancelled
  step      \* output only: the action just taken and what it put on the wire

vars == <<sent, nread, cur, est, pend, acc, tail, rem, wire, wip, sub, owner, unsubby, act, ierr, gor,
          natt, ninv, failedf, client, cseen, srv, shut, ctxc, step>>
view == <<sent, nread, cur, est, pend, acc, tail, rem, wire, wip, sub, owner, unsubby, act, ierr, gor,
          natt, ninv, failedf, client, cseen, srv, shut, ctxc>>

FE == (1..MaxFrames) \X Idx

St(a, x, y, r) == [a |-> a, x |-> x, y |-> y, res |-> r]

Init ==
  /\ sent = <<>> /\ nread = 0 /\ cur = 0
  /\ est = [i \in Idx |-> "idle"] /\ pend = [i \in Idx |-> JR!NoResp] /\ acc = <<>> /\ tail = FALSE /\ rem = "none"
  /\ wire = <<>> /\ wip = [w \in Writers |-> NoFrame]
  /\ sub = [k \in Subs |-> "none"] /\ owner = [k \in Subs |-> <<0, 0>>] /\ unsubby = [k \in Subs |-> <<0, 0>>]
  /\ act = [k \in Subs |-> FALSE] /\ ierr = [k \in Subs |-> FALSE]
  /\ gor = [k \in Subs |-> "idle"] /\ natt = [k \in Subs |-> 0]
  /\ ninv = [p \in FE |-> 0] /\ failedf = 0
  /\ client = "open" /\ cseen = 0 /\ srv = "serving" /\ shut = FALSE /\ ctxc = FALSE
  /\ step = St("Init", 0, 0, "-")

----------------------------------------------------------------------------
(* writing *)
Idle(w)    == wip[w] = NoFrame
MutexFree  == \A v \in Writers : Idle(v)
BeginOK(w) == Idle(w) /\ (WriteMutex => MutexFree)
Put(w, part, c) == Append(wire, [w |-> w, part |-> part, c |-> c])

----------------------------------------------------------------------------
(* the client *)
ClientSend(fr) ==
  /\ client = "open" /\ srv = "serving" /\ ~shut /\ Len(sent) < MaxFrames
  /\ \A i \in 1..Len(sent) : sent[i].k \notin {"big", "bigtail"}   \* nothing is read after those
  /\ sent' = Append(sent, fr)
  /\ step' = St("ClientSend", Len(sent) + 1, 0, "-")
  /\ UNCHANGED <<nread, cur, est, pend, acc, tail, rem, wire, wip, sub, owner, unsubby, act, ierr, gor, natt,
                 ninv, failedf, client, cseen, srv, shut, ctxc>>

(* conn.Close(StatusNormalClosure): a close frame is sent, further data frames are discarded *)
ClientClose ==
  /\ AllowClose /\ client = "open" /\ srv = "serving"
  /\ client' = "closing" /\ cseen' = Len(wire)
  /\ step' = St("ClientClose", 0, 0, "-")
  /\ UNCHANGED <<sent, nread, cur, est, pend, acc, tail, rem, wire, wip, sub, owner, unsubby, act, ierr, gor, natt,
                 ninv, failedf, srv, shut, ctxc>>

----------------------------------------------------------------------------
(* the connection loop *)
FirstResp(fr) ==     \* answers that need no handler (computed before / without any call)
  CASE fr.k = "garbage" -> JR!TopError(JR!CodeParse)
    [] fr.k = "batch" /\ fr.es = <<>> -> JR!TopError(JR!CodeInvalid)
    [] fr.k \in {"single", "bigtail"} ->
         LET e == fr.es[1] IN
         IF JR!DecodeErr(e)
           THEN <<JR!Resp(1, "error", IF FixNonRequest THEN JR!CodeInvalid ELSE JR!CodeParse, "null")>>
         ELSE IF Invokes(e) \/ JR!HandleRequest(1, e).resp = JR!NoResp THEN <<>>
         ELSE <<JR!HandleRequest(1, e).resp>>
    [] OTHER ->      \* non-empty batch: the dispatcher answers undecodable entries, workers the rest
         LET R(i) == IF JR!DecodeErr(fr.es[i]) THEN JR!Resp(i, "error", JR!CodeInvalid, "null")
                     ELSE JR!HandleRequest(i, fr.es[i]).resp
             I == {i \in DOMAIN fr.es : ~(~JR!DecodeErr(fr.es[i]) /\ Invokes(fr.es[i])) /\ R(i) # JR!NoResp}
             RECURSIVE Ser(_)
             Ser(S) == IF S = {} THEN <<>> ELSE LET m == CHOOSE x \in S : \A y \in S : x <= y
                                                 IN <<R(m)>> \o Ser(S \ {m})
         IN Ser(I)

FirstStage(fr) ==
  [i \in Idx |-> IF fr.k \in {"single", "bigtail", "batch"} /\ i \in DOMAIN fr.es
                      /\ ~JR!DecodeErr(fr.es[i]) /\ Invokes(fr.es[i])
                 THEN "queued" ELSE IF i \in DOMAIN fr.es THEN "finished" ELSE "idle"]

(* conn.Reader returned the next message.  After the shutdown signal the read may still win. *)
ServerRead ==
  /\ srv = "serving" /\ cur = 0 /\ ~tail /\ rem = "none" /\ nread < Len(sent)
  /\ LET fr == sent[nread + 1] IN
     IF fr.k = "big" THEN
       \* limitReader: writeError(StatusMessageTooBig); the -32700 answer cannot be written any more
       /\ (WriteMutex => MutexFree)
       /\ wire' = Put(0, 0, CloseFrame(ClosedTooBig))
       /\ nread' = nread + 1 /\ failedf' = nread + 1
       /\ srv' = "exited" /\ ctxc' = TRUE
       /\ step' = St("ReadBig", nread + 1, 0, "-")
       /\ UNCHANGED <<cur, est, acc>>
     ELSE
       /\ nread' = nread + 1 /\ cur' = nread + 1
       /\ est' = FirstStage(fr) /\ acc' = FirstResp(fr)
       /\ step' = St("ServerRead", nread + 1, 0, "-")
       /\ UNCHANGED <<wire, failedf, srv, ctxc>>
  /\ UNCHANGED <<sent, pend, tail, rem, wip, sub, owner, unsubby, act, ierr, gor, natt, ninv, client, cseen, shut>>

Called == {i \in Idx : est[i] = "called"}
Queued == {i \in Idx : est[i] = "queued"}

(* a worker (or, for a single request, the loop itself) calls the handler of entry i.  Tasks are
   handed to the pool in entry order and pool.Go blocks while every worker is busy, so entry i has a
   worker iff fewer than PoolSize earlier entries are unfinished; among the entries that have a
   worker the handlers start in any order. *)
Unfinished(i) == {j \in Idx : j < i /\ est[j] \in {"queued", "called"}}
Start(i) ==
  /\ srv = "serving" /\ cur # 0 /\ est[i] = "queued"
  /\ Cardinality(Unfinished(i)) < (IF sent[cur].k = "batch" THEN PoolSize ELSE 1)
  /\ LET e == sent[cur].es[i]
         k == KeyOf(e)
         h == JR!HandleRequest(i, e)
         answer(kind, code) == IF h.resp = JR!NoResp THEN JR!NoResp ELSE JR!Resp(i, kind, code, "echo")
     IN
     /\ est' = [est EXCEPT ![i] = "called"]
     /\ ninv' = [ninv EXCEPT ![<<cur, i>>] = @ + 1]
     /\ IF IsSub(e) THEN
          IF sub[k] = "none" THEN
            /\ sub' = [sub EXCEPT ![k] = "active"] /\ owner' = [owner EXCEPT ![k] = <<cur, i>>]
            /\ pend' = [pend EXCEPT ![i] = answer("result", 0)]
            /\ UNCHANGED unsubby
          ELSE /\ pend' = [pend EXCEPT ![i] = answer("error", CodeSubExists)]
               /\ UNCHANGED <<sub, owner, unsubby>>
        ELSE IF IsUnsub(e) THEN
          IF sub[k] = "active" THEN
            /\ sub' = [sub EXCEPT ![k] = "cancelled"] /\ unsubby' = [unsubby EXCEPT ![k] = <<cur, i>>]
            /\ pend' = [pend EXCEPT ![i] = answer("result", 0)]
            /\ UNCHANGED owner
          ELSE /\ pend' = [pend EXCEPT ![i] = answer("error", CodeNoSub)]
               /\ UNCHANGED <<sub, owner, unsubby>>
        ELSE /\ pend' = [pend EXCEPT ![i] = h.resp]
             /\ UNCHANGED <<sub, owner, unsubby>>
  /\ step' = St("Start", cur, i, "-")
  /\ UNCHANGED <<sent, nread, cur, acc, tail, rem, wire, wip, act, ierr, gor, natt, failedf, client, cseen, srv, shut, ctxc>>

(* unsub answers only after the goroutine it cancelled has ended *)
MayReturn(i) ==
  LET e == sent[cur].es[i] IN
  (IsUnsub(e) /\ unsubby[KeyOf(e)] = <<cur, i>>) => sub[KeyOf(e)] = "done"

(* the handler of entry i returns (the replayer opens its gate) *)
Finish(i) ==
  /\ srv = "serving" /\ cur # 0 /\ est[i] = "called" /\ MayReturn(i)
  /\ est' = [est EXCEPT ![i] = "finished"]
  /\ acc' = IF pend[i] = JR!NoResp THEN acc ELSE Append(acc, pend[i])
  /\ step' = St("Finish", cur, i, "-")
  /\ UNCHANGED <<sent, nread, cur, pend, tail, rem, wire, wip, sub, owner, unsubby, act, ierr, gor, natt, ninv,
                 failedf, client, cseen, srv, shut, ctxc>>

(* ... or it is told through its context that the connection is going away and gives up *)
FinishCancelled(i) ==
  /\ srv = "serving" /\ cur # 0 /\ est[i] = "called" /\ MayReturn(i) /\ ctxc
  /\ est' = [est EXCEPT ![i] = "finished"]
  /\ acc' = IF pend[i] = JR!NoResp THEN acc ELSE Append(acc, JR!Resp(i, "error", CodeCancelled, "echo"))
  /\ step' = St("FinishCancelled", cur, i, "-")
  /\ UNCHANGED <<sent, nread, cur, pend, tail, rem, wire, wip, sub, owner, unsubby, act, ierr, gor, natt, ninv,
                 failedf, client, cseen, srv, shut, ctxc>>

AllFinished == \A i \in Idx : est[i] \in {"idle", "finished"}
BoomIn(fr)  == fr.k = "single" /\ IsBoom(fr.es[1])
LongReason(fr) == BoomIn(fr) /\ KeyOf(fr.es[1]) = 2
CurShape == IF sent[cur].k = "batch" /\ sent[cur].es # <<>> THEN "array" ELSE "object"
CurResp  == RespFrame(cur, CurShape, acc)
OwnedByCur(k) == owner[k] # <<0, 0>> /\ owner[k][1] = cur

(* HandleReadWriter returns nil: `activated` is closed, the loop drains the message *)
Complete ==
  /\ act' = [k \in Subs |-> act[k] \/ OwnedByCur(k)]
  /\ tail' = (sent[cur].k = "bigtail" /\ DrainRemainder)
  /\ rem' = IF DrainRemainder THEN "none" ELSE RemOf(sent[cur])    \* io.Copy(io.Discard, wsc.r)
  /\ cur' = 0 /\ est' = [i \in Idx |-> "idle"] /\ pend' = [i \in Idx |-> JR!NoResp] /\ acc' = <<>>
  /\ UNCHANGED <<sent, nread, sub, owner, unsubby, ierr, gor, natt, ninv, failedf, client, cseen, srv, shut, ctxc>>

RespNone ==
  /\ srv = "serving" /\ cur # 0 /\ AllFinished /\ acc = <<>>
  /\ Complete /\ step' = St("RespNone", cur, 0, "-")
  /\ UNCHANGED <<wire, wip>>

RespBegin ==
  /\ srv = "serving" /\ cur # 0 /\ AllFinished /\ acc # <<>> /\ BeginOK(0) /\ ~BoomIn(sent[cur])
  /\ IF SplitWrites
       THEN /\ wire' = Put(0, 1, CurResp) /\ wip' = [wip EXCEPT ![0] = CurResp]
            /\ step' = St("RespBegin", cur, 0, "-")
            /\ UNCHANGED <<sent, nread, cur, est, pend, acc, tail, rem, sub, owner, unsubby, act, ierr, gor, natt, ninv,
                           failedf, client, cseen, srv, shut, ctxc>>
       ELSE /\ wire' = Put(0, 0, CurResp) /\ UNCHANGED wip
            /\ step' = St("Respond", cur, 0, "ok")
            /\ Complete

RespEnd ==
  /\ SplitWrites /\ srv = "serving" /\ cur # 0 /\ wip[0] # NoFrame
  /\ wire' = Put(0, 2, wip[0]) /\ wip' = [wip EXCEPT ![0] = NoFrame]
  /\ step' = St("RespEnd", cur, 0, "ok")
  /\ Complete

(* the initial write fails (only possible once the connection context is cancelled): initialErr is
   set, `activated` closes, the loop breaks, ServeHTTP closes the websocket (1011, best effort)
   and returns *)
RespFail(withClose) ==
  /\ srv = "serving" /\ cur # 0 /\ AllFinished /\ acc # <<>> /\ Idle(0) /\ ctxc /\ ~BoomIn(sent[cur])
  /\ act' = [k \in Subs |-> act[k] \/ OwnedByCur(k)]
  /\ ierr' = [k \in Subs |-> ierr[k] \/ OwnedByCur(k)]
  /\ failedf' = cur /\ srv' = "exited"
  /\ wire' = IF withClose /\ (WriteMutex => MutexFree) THEN Put(0, 0, CloseFrame(ClosedIntErr)) ELSE wire
  /\ cur' = 0 /\ est' = [i \in Idx |-> "idle"] /\ pend' = [i \in Idx |-> JR!NoResp] /\ acc' = <<>>
  /\ step' = St("RespFail", cur, 0, "error")
  /\ UNCHANGED <<sent, nread, tail, rem, wip, sub, owner, unsubby, gor, natt, ninv, client, cseen, shut, ctxc>>

(* json.Marshal of the response fails: HandleReadWriter returns the error (initialErr, `activated`
   closes), the loop breaks and ServeHTTP closes the websocket with StatusInternalError and the error
   text as reason - cut at 125 bytes, which is 2 more than a close frame can carry *)
RespUnser ==
  /\ srv = "serving" /\ cur # 0 /\ AllFinished /\ BoomIn(sent[cur]) /\ (WriteMutex => MutexFree)
  /\ act' = [k \in Subs |-> act[k] \/ OwnedByCur(k)]
  /\ ierr' = [k \in Subs |-> ierr[k] \/ OwnedByCur(k)]
  /\ failedf' = cur /\ srv' = "exited" /\ ctxc' = TRUE
  /\ wire' = IF FixCloseReason \/ ~LongReason(sent[cur]) THEN Put(0, 0, CloseFrame(ClosedIntErr)) ELSE wire
  /\ cur' = 0 /\ est' = [i \in Idx |-> "idle"] /\ pend' = [i \in Idx |-> JR!NoResp] /\ acc' = <<>>
  /\ step' = St("RespUnser", cur, 0, "error")
  /\ UNCHANGED <<sent, nread, tail, rem, wip, sub, owner, unsubby, gor, natt, ninv, client, cseen, shut>>

(* io.Copy(io.Discard, ...) of a bigtail message hits the limit *)
TailClose ==
  /\ srv = "serving" /\ cur = 0 /\ tail /\ (WriteMutex => MutexFree)
  /\ wire' = Put(0, 0, CloseFrame(ClosedTooBig))
  /\ srv' = "exited" /\ ctxc' = TRUE /\ tail' = FALSE /\ rem' = rem
  /\ step' = St("TailClose", nread, 0, "-")
  /\ UNCHANGED <<sent, nread, cur, est, pend, acc, wip, sub, owner, unsubby, act, ierr, gor, natt, ninv,
                 failedf, client, cseen, shut>>

(* WITHOUT the drain: the loop asks for the next message while the previous one has an unread remainder.  Only its FIN
   frame is missing: conn.Reader refuses ("previous message not read to completion"), ServeHTTP closes with 1011.
   Payload bytes are unread: the library parses them as the next frame header - protocol error, close 1002.  Either
   way the connection is gone although nothing the client sent was wrong; what it sends later is never answered. *)
ReadDesync ==
  /\ srv = "serving" /\ cur = 0 /\ rem # "none" /\ (WriteMutex => MutexFree)
  /\ wire' = Put(0, 0, CloseFrame(IF rem = "fin" THEN ClosedIntErr ELSE ClosedProto))
  /\ srv' = "exited" /\ ctxc' = TRUE /\ rem' = "none"
  /\ step' = St("ReadDesync", nread, 0, "-")
  /\ UNCHANGED <<sent, nread, cur, est, pend, acc, tail, wip, sub, owner, unsubby, act, ierr, gor, natt, ninv,
                 failedf, client, cseen, shut>>

(* conn.Reader returns the client's close frame (everything sent before it has been handled) or the
   cancelled context *)
ServerExit(withClose) ==
  /\ srv = "serving" /\ cur = 0 /\ ~tail /\ rem = "none"
  /\ \/ client = "closing" /\ nread = Len(sent) /\ ~withClose
     \/ shut
  /\ srv' = "exited" /\ ctxc' = TRUE
  /\ wire' = IF withClose /\ (WriteMutex => MutexFree) THEN Put(0, 0, CloseFrame(ClosedIntErr)) ELSE wire
  /\ step' = St("ServerExit", 0, 0, "-")
  /\ UNCHANGED <<sent, nread, cur, est, pend, acc, tail, rem, wip, sub, owner, unsubby, act, ierr, gor, natt, ninv,
                 failedf, client, cseen, shut>>

ServerShutdown ==
  /\ AllowShutdown /\ ~shut /\ srv = "serving"
  /\ shut' = TRUE /\ ctxc' = TRUE
  /\ step' = St("ServerShutdown", 0, 0, "-")
  /\ UNCHANGED <<sent, nread, cur, est, pend, acc, tail, rem, wire, wip, sub, owner, unsubby, act, ierr, gor, natt,
                 ninv, failedf, client, cseen, srv>>

----------------------------------------------------------------------------
(* subscription goroutines *)
NoteStart(k) ==      \* the goroutine calls Conn.Write
  /\ sub[k] = "active" /\ gor[k] = "idle" /\ natt[k] < MaxNotes
  /\ gor' = [gor EXCEPT ![k] = "pending"] /\ natt' = [natt EXCEPT ![k] = @ + 1]
  /\ step' = St("NoteStart", k, natt[k] + 1, "-")
  /\ UNCHANGED <<sent, nread, cur, est, pend, acc, tail, rem, wire, wip, sub, owner, unsubby, act, ierr, ninv,
                 failedf, client, cseen, srv, shut, ctxc>>

Unblocked(k) == WaitActivation => act[k]

NoteBegin(k) ==
  /\ gor[k] = "pending" /\ Unblocked(k) /\ ~ierr[k] /\ srv = "serving" /\ BeginOK(k)
  /\ IF SplitWrites
       THEN /\ wire' = Put(k, 1, NoteFrame(k, natt[k])) /\ wip' = [wip EXCEPT ![k] = NoteFrame(k, natt[k])]
            /\ step' = St("NoteBegin", k, natt[k], "-") /\ UNCHANGED gor
       ELSE /\ wire' = Put(k, 0, NoteFrame(k, natt[k])) /\ UNCHANGED wip
            /\ gor' = [gor EXCEPT ![k] = "idle"]
            /\ step' = St("NoteWrite", k, natt[k], "ok")
  /\ UNCHANGED <<sent, nread, cur, est, pend, acc, tail, rem, sub, owner, unsubby, act, ierr, natt, ninv,
                 failedf, client, cseen, srv, shut, ctxc>>

NoteEnd(k) ==        \* the connection may have died under the writer: the frame stays truncated
  /\ SplitWrites /\ wip[k] # NoFrame
  /\ wire' = IF srv = "serving" THEN Put(k, 2, wip[k]) ELSE wire
  /\ wip' = [wip EXCEPT ![k] = NoFrame] /\ gor' = [gor EXCEPT ![k] = "idle"]
  /\ step' = St("NoteEnd", k, natt[k], IF srv = "serving" THEN "ok" ELSE "error")
  /\ UNCHANGED <<sent, nread, cur, est, pend, acc, tail, rem, sub, owner, unsubby, act, ierr, natt, ninv,
                 failedf, client, cseen, srv, shut, ctxc>>

NoteFail(k) ==       \* Write returns an error; nothing reaches any connection
  /\ gor[k] = "pending" /\ Idle(k) /\ Unblocked(k)
  /\ ierr[k] \/ ctxc \/ srv = "exited" \/ client = "closing"   \* a closing peer: the loop may be gone any moment
  /\ gor' = [gor EXCEPT ![k] = "idle"]
  /\ step' = St("NoteFail", k, natt[k], "error")
  /\ UNCHANGED <<sent, nread, cur, est, pend, acc, tail, rem, wire, wip, sub, owner, unsubby, act, ierr, natt, ninv,
                 failedf, client, cseen, srv, shut, ctxc>>

Told(k) ==           \* the goroutine sees Conn.Context().Done() and ends
  /\ sub[k] = "active" /\ gor[k] = "idle" /\ ctxc
  /\ sub' = [sub EXCEPT ![k] = "told"]
  /\ step' = St("Told", k, 0, "-")
  /\ UNCHANGED <<sent, nread, cur, est, pend, acc, tail, rem, wire, wip, owner, unsubby, act, ierr, gor, natt, ninv,
                 failedf, client, cseen, srv, shut, ctxc>>

GorExit(k) ==        \* the goroutine sees the cancellation by unsub and ends
  /\ sub[k] = "cancelled" /\ gor[k] = "idle"
  /\ sub' = [sub EXCEPT ![k] = "done"]
  /\ step' = St("GorExit", k, 0, "-")
  /\ UNCHANGED <<sent, nread, cur, est, pend, acc, tail, rem, wire, wip, owner, unsubby, act, ierr, gor, natt, ninv,
                 failedf, client, cseen, srv, shut, ctxc>>

----------------------------------------------------------------------------
CanSend == client = "open" /\ srv = "serving" /\ ~shut /\ Len(sent) < MaxFrames

Next ==
  \/ CanSend /\ \E fr \in FrameAlphabet : ClientSend(fr)
  \/ ClientClose \/ ServerShutdown
  \/ ServerRead \/ RespNone \/ RespBegin \/ RespEnd \/ RespUnser \/ TailClose \/ ReadDesync
  \/ \E c \in BOOLEAN : RespFail(c) \/ ServerExit(c)
  \/ \E i \in Idx : Start(i) \/ Finish(i) \/ FinishCancelled(i)
  \/ \E k \in Subs : NoteStart(k) \/ NoteBegin(k) \/ NoteEnd(k) \/ NoteFail(k) \/ Told(k) \/ GorExit(k)

Fair == /\ \A k \in Subs : WF_vars(Told(k)) /\ WF_vars(NoteFail(k)) /\ WF_vars(NoteEnd(k)) /\ WF_vars(NoteBegin(k))
        /\ \A i \in Idx : WF_vars(FinishCancelled(i))
        /\ WF_vars(\E c \in BOOLEAN : RespFail(c) \/ ServerExit(c)) /\ WF_vars(RespNone)

Spec == Init /\ [][Next]_vars
FairSpec == Spec /\ Fair

----------------------------------------------------------------------------
(* Properties *)
Range(s) == {s[i] : i \in DOMAIN s}
W == wire
Begun(i)  == W[i].part \in {0, 1}
RespAt(f) == {i \in DOMAIN W : Begun(i) /\ W[i].c.t = "resp" /\ W[i].c.f = f}
NotesAt(k) == {i \in DOMAIN W : Begun(i) /\ W[i].c.t = "note" /\ W[i].c.k = k}

TypeOK ==
  /\ nread <= Len(sent) /\ Len(sent) <= MaxFrames /\ cur \in {0, nread}
  /\ Cardinality(Called) <= PoolSize
  /\ \A k \in Subs : natt[k] <= MaxNotes /\ (sub[k] = "none" <=> owner[k] = <<0, 0>>)
  /\ srv = "exited" => ctxc
  /\ shut => ctxc
  /\ rem \in {"none", "fin", "bytes"}
  /\ \A f \in 1..Len(sent) : sent[f].fm \in Framings

(* what frame f owes, by entry: the answer classes of JsonRpc.tla (as the code is: the one known
   deviation switched in on the single path) *)
Silent(e) == JR!DeclSilent(e)
SingleNonRequest(fr, e) == ~FixNonRequest /\ fr.k \in {"single", "bigtail"} /\ JR!DecodeErr(e)
EntryRespOK(f, fr, i, e, r) ==
  IF SingleNonRequest(fr, e) THEN r = JR!Resp(i, "error", JR!CodeParse, "null")
  ELSE IF r.kind = "error" /\ r.code = CodeCancelled THEN shut /\ r.e = i /\ r.id = "echo" /\ Invokes(e)
  ELSE IF IsSub(e) THEN
    r = JR!Resp(i, IF owner[KeyOf(e)] = <<f, i>> THEN "result" ELSE "error",
                   IF owner[KeyOf(e)] = <<f, i>> THEN 0 ELSE CodeSubExists, "echo")
  ELSE IF IsUnsub(e) THEN
    r = JR!Resp(i, IF unsubby[KeyOf(e)] = <<f, i>> THEN "result" ELSE "error",
                   IF unsubby[KeyOf(e)] = <<f, i>> THEN 0 ELSE CodeNoSub, "echo")
  ELSE JR!DeclRespOK(i, e, r)

Owes(fr) ==
  \/ fr.k = "garbage" \/ (fr.k = "batch" /\ fr.es = <<>>)
  \/ fr.k \in {"single", "bigtail", "batch"} /\ \E i \in DOMAIN fr.es : ~Silent(fr.es[i])

Handled(f) == f <= nread /\ f # cur /\ f # failedf

(* (1) exactly one response frame per frame that owes one, none otherwise, never two; the loop
   never skips a frame *)
POnePerFrame ==
  /\ \A f \in 1..Len(sent) : Cardinality(RespAt(f)) <= 1
  /\ \A f \in 1..Len(sent) : Handled(f) => Cardinality(RespAt(f)) = (IF Owes(sent[f]) THEN 1 ELSE 0)
  /\ \A f \in 1..Len(sent) : f > nread \/ f = cur => RespAt(f) = {} \/ (f = cur /\ ~Idle(0))
  /\ failedf # 0 => srv = "exited"

(* (1) ... with the content the single-shot model prescribes: one answer per owed entry, right id /
   kind / code, an array iff a non-empty batch *)
PContent ==
  \A x \in DOMAIN W : (Begun(x) /\ W[x].c.t = "resp") =>
    LET c == W[x].c
        fr == sent[c.f] IN
    /\ c.body # <<>>
    /\ c.shape = (IF fr.k = "batch" /\ fr.es # <<>> THEN "array" ELSE "object")
    /\ IF fr.k = "garbage" THEN c.body = JR!TopError(JR!CodeParse)
       ELSE IF fr.es = <<>> THEN c.body = JR!TopError(JR!CodeInvalid)
       ELSE /\ \A i \in DOMAIN fr.es :
                 Cardinality({j \in DOMAIN c.body : c.body[j].e = i}) = (IF Silent(fr.es[i]) THEN 0 ELSE 1)
            /\ \A j \in DOMAIN c.body : /\ c.body[j].e \in DOMAIN fr.es
                                        /\ EntryRespOK(c.f, fr, c.body[j].e, fr.es[c.body[j].e], c.body[j])

(* each valid request of a handled frame invoked its handler exactly once; nothing else did *)
PInvocations ==
  \A p \in FE :
    /\ ninv[p] <= 1
    /\ (ninv[p] = 1) => p[1] <= nread /\ p[2] \in DOMAIN sent[p[1]].es /\ Invokes(sent[p[1]].es[p[2]])
    /\ (Handled(p[1]) /\ p[2] \in DOMAIN sent[p[1]].es /\ Invokes(sent[p[1]].es[p[2]])) => ninv[p] = 1

(* (2) frames are whole: a head is followed by its own tail (or the connection died there) *)
PWholeFrames ==
  \A i \in DOMAIN W :
    /\ W[i].part = 1 => (i = Len(W) \/ (W[i + 1].part = 2 /\ W[i + 1].w = W[i].w /\ W[i + 1].c = W[i].c))
    /\ W[i].part = 2 => (i > 1 /\ W[i - 1].part = 1 /\ W[i - 1].w = W[i].w)
    /\ (W[i].part = 1 /\ i = Len(W)) => (~Idle(W[i].w) \/ srv = "exited")

(* (3) once ServeHTTP has returned the connection context is cancelled and nothing is written *)
PNoWriteAfterExit == [][srv = "exited" => wire' = wire]_vars
PExitFinal        == [][srv = "exited" => srv' = "exited" /\ ctxc']_vars
(* ... a failed Write is reported to the goroutine (never a silent success elsewhere): checked on the
   real code; in the model "error" results occur only when nothing was put on the wire *)
PErrorMeansNothingWritten == [][step'.res = "error" /\ step'.a \notin {"RespFail", "RespUnser"} => wire' = wire]_vars
(* every goroutine is told *)
PToldEventually == (srv = "exited") ~> (\A k \in Subs : sub[k] # "active" \/ gor[k] = "pending")
PAllTold        == (srv = "exited") ~> (\A k \in Subs : sub[k] # "active")

(* (4) responses in request order (sequential handling) *)
PRespFIFO ==
  \A i, j \in DOMAIN W :
    (i < j /\ Begun(i) /\ Begun(j) /\ W[i].c.t = "resp" /\ W[j].c.t = "resp") => W[i].c.f < W[j].c.f
(* a subscription's notifications are FIFO, without gaps while the connection context is alive *)
PNotesFIFO ==
  \A k \in Subs :
    /\ \A i, j \in NotesAt(k) : i < j => W[i].c.n < W[j].c.n
    /\ (~ctxc /\ client = "open") => {W[i].c.n : i \in NotesAt(k)} = 1..(natt[k] - (IF gor[k] = "pending" /\ Idle(k) THEN 1 ELSE 0))
(* nothing overtakes the initial response of the message that created the subscription *)
PAfterActivation ==
  \A k \in Subs : \A j \in NotesAt(k) :
    Owes(sent[owner[k][1]]) => \E i \in RespAt(owner[k][1]) : i < j /\ (W[i].part = 0 \/ (i + 1 < j))
(* nothing follows the answer of the unsub that ended the subscription *)
PNoNoteAfterUnsub ==
  \A k \in Subs : unsubby[k] # <<0, 0>> =>
    \A i \in RespAt(unsubby[k][1]) : \A j \in NotesAt(k) : j < i
(* the client's view: FIFO prefix of the wire; nothing addressed to it is lost while it reads *)
PClientView == client = "open" => cseen = 0

(* (5) read limit *)
PReadLimit ==
  \A f \in 1..nread :
    /\ sent[f].k = "big" =>
         /\ RespAt(f) = {} /\ srv = "exited" /\ failedf = f
         /\ W[Len(W)].c = CloseFrame(ClosedTooBig)
         /\ \A p \in FE : p[1] = f => ninv[p] = 0
    /\ (sent[f].k = "bigtail" /\ srv = "exited" /\ ~shut /\ client = "open") =>
         W[Len(W)].c = CloseFrame(ClosedTooBig)
(* a connection the server ends because it cannot answer is closed with 1011 - as the code is, only if
   the error text fits a close frame; PureInternalClose is the promise without that deviation *)
InternalClose(pure) ==
  \A f \in 1..nread : (BoomIn(sent[f]) /\ failedf = f) =>
    /\ RespAt(f) = {} /\ srv = "exited"
    /\ IF pure \/ FixCloseReason \/ ~LongReason(sent[f])
         THEN W # <<>> /\ W[Len(W)].c = CloseFrame(ClosedIntErr)
         ELSE \A i \in DOMAIN W : W[i].c.t # "close"
PInternalClose    == InternalClose(FALSE)
PureInternalClose == InternalClose(TRUE)
(* FRAMING.  The server ends a connection only for a documented reason: the client closed, the server shuts down, a
   message beyond ReadLimit, an answer it could not write / serialise.  In particular the way a message was cut into
   frames, or what followed its JSON value inside the read limit, is none ... *)
ExitDocumented ==
  \/ shut \/ client = "closing" \/ failedf # 0
  \/ \E f \in 1..nread : sent[f].k \in {"big", "bigtail"}
PDocumentedExit == srv = "exited" => ExitDocumented
(* ... so every owed frame of every LATER message is answered: a message that owes a response and has none is
   unread / in flight on a serving connection, or the connection ended for a documented reason *)
PLaterAnswered ==
  \A f \in 1..Len(sent) :
    (Owes(sent[f]) /\ RespAt(f) = {} /\ srv = "exited") => ExitDocumented
(* the as-is loop never leaves a remainder behind *)
PDrained == DrainRemainder => rem = "none"
PCloseIsLast ==
  \A i \in DOMAIN W : W[i].c.t = "close" => i = Len(W)
=============================================================================

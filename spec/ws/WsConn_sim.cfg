\* behaviour generation (tlc -simulate): <= 6 frames of <= 3 entries, 2 subscriptions x 3 notifications, pool of 2
CONSTANTS
  FrameAlphabet <- FramesCore
  MaxFrames = 6
  MaxSubs = 2
  MaxNotes = 3
  MaxEntries = 3
  PoolSize = 2
  AllowClose = TRUE
  AllowShutdown = TRUE
  SplitWrites = FALSE
  WriteMutex = TRUE
  WaitActivation = TRUE
  FixNonRequest = FALSE
  FixCloseReason = FALSE
  DrainRemainder = TRUE
  MaxSteps = 60
INIT MBTInit
NEXT MBTNext
INVARIANTS TypeOK POnePerFrame PContent PInvocations PWholeFrames PRespFIFO PNotesFIFO PAfterActivation PNoNoteAfterUnsub PClientView PReadLimit PInternalClose PCloseIsLast PDocumentedExit PLaterAnswered PDrained
CHECK_DEADLOCK FALSE

\* MESSAGE FRAMING: <= 3 messages, each a single frame / fragmented with an empty FIN frame / followed by padding inside
\* the read limit, over {request, notification, unknown method, garbage, batch, subscribe}; 1 subscription
CONSTANTS
  FrameAlphabet <- FramesFraming
  MaxFrames = 3
  MaxSubs = 1
  MaxNotes = 1
  MaxEntries = 2
  PoolSize = 2
  AllowClose = FALSE
  AllowShutdown = FALSE
  SplitWrites = FALSE
  WriteMutex = TRUE
  WaitActivation = TRUE
  FixNonRequest = FALSE
  FixCloseReason = FALSE
  DrainRemainder = TRUE
INIT Init
NEXT Next
VIEW view
INVARIANTS TypeOK POnePerFrame PContent PInvocations PWholeFrames PRespFIFO PNotesFIFO PAfterActivation PNoNoteAfterUnsub PClientView PReadLimit PInternalClose PCloseIsLast PDocumentedExit PLaterAnswered PDrained
PROPERTIES PNoWriteAfterExit PExitFinal PErrorMeansNothingWritten
CHECK_DEADLOCK FALSE

\* EXPECTED VIOLATION of PureInternalClose (the code as it is drops the close frame for long error texts)
\* internal-error close: <= 2 frames over {ok, sub, boom short, boom long}, client close and shutdown allowed
CONSTANTS
  FrameAlphabet <- FramesBoom
  MaxFrames = 2
  MaxSubs = 2
  MaxNotes = 1
  MaxEntries = 2
  PoolSize = 2
  AllowClose = TRUE
  AllowShutdown = TRUE
  SplitWrites = FALSE
  WriteMutex = TRUE
  WaitActivation = TRUE
  FixNonRequest = FALSE
  FixCloseReason = FALSE
  DrainRemainder = TRUE
INIT Init
NEXT Next
VIEW view
INVARIANTS TypeOK POnePerFrame PContent PInvocations PWholeFrames PRespFIFO PNotesFIFO PAfterActivation PNoNoteAfterUnsub PClientView PReadLimit PInternalClose PCloseIsLast PDocumentedExit PLaterAnswered PDrained PureInternalClose
PROPERTIES PNoWriteAfterExit PExitFinal PErrorMeansNothingWritten
CHECK_DEADLOCK FALSE

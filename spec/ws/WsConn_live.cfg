\* liveness: every subscription goroutine is eventually told after ServeHTTP returned (weak fairness); no VIEW
CONSTANTS
  FrameAlphabet <- FramesEnd
  MaxFrames = 2
  MaxSubs = 2
  MaxNotes = 1
  MaxEntries = 2
  PoolSize = 2
  AllowClose = TRUE
  AllowShutdown = TRUE
  SplitWrites = FALSE
  WriteMutex = TRUE
  WaitActivation = TRUE
  FixNonRequest = FALSE
SPECIFICATION FairSpec
PROPERTIES PAllTold
CHECK_DEADLOCK FALSE

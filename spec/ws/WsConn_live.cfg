\* liveness: every subscription goroutine is eventually told after ServeHTTP returned (weak fairness); no VIEW; 1 subscription
\* measured: 48 045 distinct / 112 909 generated states, depth 21
CONSTANTS
  FrameAlphabet <- FramesLive
  MaxFrames = 2
  MaxSubs = 1
  MaxNotes = 1
  MaxEntries = 2
  PoolSize = 2
  AllowClose = TRUE
  AllowShutdown = TRUE
  SplitWrites = FALSE
  WriteMutex = TRUE
  WaitActivation = TRUE
  FixNonRequest = FALSE
  FixCloseReason = FALSE
  DrainRemainder = TRUE
SPECIFICATION FairSpec
PROPERTIES PAllTold
CHECK_DEADLOCK FALSE

\* EXPECTED VIOLATION of PAfterActivation: connection.Write without the wait on `activated`
CONSTANTS
  FrameAlphabet <- FramesSubs
  MaxFrames = 2
  MaxSubs = 2
  MaxNotes = 1
  MaxEntries = 2
  PoolSize = 2
  AllowClose = FALSE
  AllowShutdown = FALSE
  SplitWrites = FALSE
  WriteMutex = TRUE
  WaitActivation = FALSE
  FixNonRequest = FALSE
  FixCloseReason = FALSE
  DrainRemainder = TRUE
INIT Init
NEXT Next
VIEW view
INVARIANTS TypeOK POnePerFrame PContent PInvocations PWholeFrames PRespFIFO PNotesFIFO PAfterActivation PNoNoteAfterUnsub PClientView PReadLimit PInternalClose PCloseIsLast PDocumentedExit PLaterAnswered PDrained
PROPERTIES PNoWriteAfterExit PExitFinal PErrorMeansNothingWritten
CHECK_DEADLOCK FALSE

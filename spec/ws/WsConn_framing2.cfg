\* quick: MESSAGE FRAMING, <= 2 messages: a first message of every shape (single frame / fragmented with an empty FIN frame /
\* padding behind the value, x request / notification / garbage / batch / subscribe / oversized tail), then a later one
CONSTANTS
  FrameAlphabet <- FramesFraming
  MaxFrames = 2
  MaxSubs = 1
  MaxNotes = 1
  MaxEntries = 2
  PoolSize = 2
  AllowClose = FALSE
  AllowShutdown = FALSE
  SplitWrites = FALSE
  WriteMutex = TRUE
  WaitActivation = TRUE
  FixNonRequest = FALSE
  FixCloseReason = FALSE
  DrainRemainder = TRUE
INIT Init
NEXT Next
VIEW view
INVARIANTS TypeOK POnePerFrame PContent PInvocations PWholeFrames PRespFIFO PNotesFIFO PAfterActivation PNoNoteAfterUnsub PClientView PReadLimit PInternalClose PCloseIsLast PDocumentedExit PLaterAnswered PDrained
PROPERTIES PNoWriteAfterExit PExitFinal PErrorMeansNothingWritten
CHECK_DEADLOCK FALSE

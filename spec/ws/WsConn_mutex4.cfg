\* thorough: two-step writes under the per-message mutex; <= 4 frames
\* measured: 297 157 distinct / 618 231 generated states, depth 41
CONSTANTS
  FrameAlphabet <- FramesMutex
  MaxFrames = 4
  MaxSubs = 2
  MaxNotes = 2
  MaxEntries = 2
  PoolSize = 2
  AllowClose = FALSE
  AllowShutdown = FALSE
  SplitWrites = TRUE
  WriteMutex = TRUE
  WaitActivation = TRUE
  FixNonRequest = FALSE
  FixCloseReason = FALSE
  DrainRemainder = TRUE
INIT Init
NEXT Next
VIEW view
INVARIANTS TypeOK POnePerFrame PContent PInvocations PWholeFrames PRespFIFO PNotesFIFO PAfterActivation PNoNoteAfterUnsub PClientView PReadLimit PInternalClose PCloseIsLast PDocumentedExit PLaterAnswered PDrained
PROPERTIES PNoWriteAfterExit PExitFinal PErrorMeansNothingWritten
CHECK_DEADLOCK FALSE

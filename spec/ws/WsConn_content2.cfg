\* every answer class of C11 singly and in batches of <= 3; <= 2 frames
\* measured: 143 939 distinct / 254 386 generated states, depth 21
CONSTANTS
  FrameAlphabet <- FramesContent
  MaxFrames = 2
  MaxSubs = 1
  MaxNotes = 1
  MaxEntries = 3
  PoolSize = 2
  AllowClose = FALSE
  AllowShutdown = FALSE
  SplitWrites = FALSE
  WriteMutex = TRUE
  WaitActivation = TRUE
  FixNonRequest = FALSE
  FixCloseReason = FALSE
  DrainRemainder = TRUE
INIT Init
NEXT Next
VIEW view
INVARIANTS TypeOK POnePerFrame PContent PInvocations PWholeFrames PRespFIFO PNotesFIFO PAfterActivation PNoNoteAfterUnsub PClientView PReadLimit PInternalClose PCloseIsLast PDocumentedExit PLaterAnswered PDrained
PROPERTIES PNoWriteAfterExit PExitFinal PErrorMeansNothingWritten
CHECK_DEADLOCK FALSE

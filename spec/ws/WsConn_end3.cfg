\* thorough: client close, server shutdown, read limit; <= 3 frames
\* measured: 2 659 332 distinct / 7 308 245 generated states, depth 29 (about 7 min with 4 workers)
CONSTANTS
  FrameAlphabet <- FramesEnd3
  MaxFrames = 3
  MaxSubs = 2
  MaxNotes = 1
  MaxEntries = 2
  PoolSize = 2
  AllowClose = TRUE
  AllowShutdown = TRUE
  SplitWrites = FALSE
  WriteMutex = TRUE
  WaitActivation = TRUE
  FixNonRequest = FALSE
  FixCloseReason = FALSE
  DrainRemainder = TRUE
INIT Init
NEXT Next
VIEW view
INVARIANTS TypeOK POnePerFrame PContent PInvocations PWholeFrames PRespFIFO PNotesFIFO PAfterActivation PNoNoteAfterUnsub PClientView PReadLimit PInternalClose PCloseIsLast PDocumentedExit PLaterAnswered PDrained
PROPERTIES PNoWriteAfterExit PExitFinal PErrorMeansNothingWritten
CHECK_DEADLOCK FALSE

------------------------------ MODULE WsConnMBT ------------------------------
(* Behaviour export for the replayer (harness/engines/ws): tlc -simulate draws connection
   behaviours - client frames from a weighted alphabet (every answer class of C11, batches,
   subscribe / unsubscribe, garbage, oversized messages), the server loop, the worker pool's
   completion order, subscription goroutines writing notifications, client close and server
   shutdown - and prints one JSON row per behaviour.

   SimNext takes only steps whose ORDER the replayer can enforce on the real server (it holds the
   handlers at gates and tells the goroutines when to write): a Write call that is not blocked
   completes before anything else happens; at most one Write is parked on the `activated` channel
   at a time; the shutdown channel closes only while the loop is idle in conn.Reader and no Write
   is outstanding (what happens to requests in flight at shutdown is a race in the real code, it is
   explored exhaustively by TLC and exercised by a directed round of the engine instead). *)
EXTENDS MCWsConn, Json

CONSTANTS MaxSteps
VARIABLES hist, steps,
  coin,      \* drawn afresh at every step: decides the rare actions (so that ENABLED SimNext is exact)
  nextfr     \* the frame the client would send next, drawn afresh at every step
mbtvars == <<vars, hist, steps, coin, nextfr>>

Pick(s) == s[RandomElement(1..Len(s))]

\* dummy parameters keep TLC from constant-folding the random draws
RKey(d) == Pick(<<1, 1, 2>>)
RSingleEntry(d) ==
  Pick(<<E_ok, E_ok, E_okn, E_okn, E_apperr, E_nometh, E_badpar, E_badtyp, E_invalid, E_badid, E_notif, E_notif,
         E_notifnl, E_notifnm, E_notifbp, E_scalar, E_null, E_memtyp>>)
RBatchEntry(d) ==
  Pick(<<E_ok, E_ok, E_okn, E_apperr, E_nometh, E_badpar, E_invalid, E_badid, E_notif, E_notif, E_notifnm,
         E_scalar, E_memtyp, E_sub(1), E_sub(2), E_subn(1)>>)
RBatch(d) == LET n == Pick(<<1, 2, 2, 2, 3, 3, 3>>) IN [i \in 1..n |-> RBatchEntry(i)]
RFm(d) == Pick(<<"whole", "whole", "whole", "frag", "frag", "pad", "pad">>)
RFrame0(d) ==
  LET r == RandomElement(1..100) IN
  IF r <= 26 THEN S(RSingleEntry(d))
  ELSE IF r <= 44 THEN S(E_sub(RKey(d)))
  ELSE IF r <= 48 THEN S(E_subn(RKey(d)))
  ELSE IF r <= 60 THEN S(E_unsub(RKey(d)))
  ELSE IF r <= 84 THEN B(RBatch(d))
  ELSE IF r <= 89 THEN Garbage
  ELSE IF r <= 91 THEN B(<<>>)
  ELSE IF r <= 94 THEN Big
  ELSE IF r <= 97 THEN BigTail
  ELSE S(E_boom(RKey(d)))
(* ... in a random framing (an oversized message is what it is) *)
RFrame(d) == LET fr == RFrame0(d) IN IF fr.k \in {"big", "bigtail"} THEN fr ELSE WithFm(fr, RFm(d))

Parked == {k \in Subs : gor[k] = "pending" /\ ~act[k]}
Urgent == {k \in Subs : gor[k] = "pending" /\ act[k]}
Quiet  == \A k \in Subs : gor[k] = "idle"

(* which of two subscribes of one key in ONE batch wins is a race of the pool's workers *)
NoDupSub(fr) == \A i, j \in DOMAIN fr.es : (i < j /\ IsSub(fr.es[i]) /\ IsSub(fr.es[j])) => KeyOf(fr.es[i]) # KeyOf(fr.es[j])

(* transitions the real server takes on its own as soon as they are possible *)
Autonomous ==
  \/ ServerRead \/ RespNone \/ RespBegin \/ RespUnser \/ TailClose
  \/ \E i \in Idx : Start(i)
  \/ \E k \in Subs : GorExit(k)
  \/ (client = "closing" /\ ServerExit(FALSE))
  \/ (shut /\ ServerExit(coin % 2 = 0))

(* ... and the ones the replayer decides *)
Controlled ==
  \/ (Parked = {} /\ NoDupSub(nextfr) /\ ClientSend(nextfr))
  \/ \E i \in Idx : Finish(i)
  \/ \E k \in Subs : /\ (client = "open" \/ srv = "exited")
                      /\ (~shut \/ srv = "exited")
                      /\ (act[k] \/ (Parked = {} /\ nread = Len(sent)))
                      /\ NoteStart(k)
  \/ \E k \in Subs : (srv = "exited") /\ Told(k)
  \/ (coin <= 7 /\ Quiet /\ ClientClose)
  \/ (coin > 93 /\ Quiet /\ cur = 0 /\ nread = Len(sent) /\ ~tail /\ ServerShutdown)

SimNext ==
  IF Urgent # {} THEN \E k \in Urgent : NoteBegin(k) \/ NoteFail(k)
  ELSE IF ENABLED Autonomous THEN Autonomous
  ELSE Controlled

Draw == coin' = RandomElement(1..100) /\ \E fr \in {RFrame(steps)} : nextfr' = fr
MBTInit == Init /\ hist = <<>> /\ steps = 0 /\ coin = 50 /\ nextfr = S(E_ok)

NewOnWire == SubSeq(wire', Len(wire) + 1, Len(wire'))
Row == [a |-> step'.a, x |-> step'.x, y |-> step'.y, res |-> step'.res,
        put |-> [i \in 1..Len(NewOnWire) |-> NewOnWire[i].c],
        fr |-> IF step'.a = "ClientSend" THEN sent'[Len(sent')] ELSE Fr("-", <<>>),
        inv |-> IF step'.a = "ClientSend" THEN [i \in DOMAIN nextfr.es |-> Invokes(nextfr.es[i])] ELSE <<>>,
        parked |-> IF step'.a = "NoteStart" THEN ~act[step'.x] ELSE FALSE]

Step == SimNext /\ hist' = Append(hist, Row) /\ steps' = steps + 1 /\ Draw

Emit ==
  /\ PrintT(ToJson([steps |-> hist, sub |-> sub, natt |-> natt, srv |-> srv, client |-> client, shut |-> shut,
                    nread |-> nread, cur |-> cur]))
  /\ sent' = <<>> /\ nread' = 0 /\ cur' = 0
  /\ est' = [i \in Idx |-> "idle"] /\ pend' = [i \in Idx |-> JR!NoResp] /\ acc' = <<>> /\ tail' = FALSE /\ rem' = "none"
  /\ wire' = <<>> /\ wip' = [w \in Writers |-> NoFrame]
  /\ sub' = [k \in Subs |-> "none"] /\ owner' = [k \in Subs |-> <<0, 0>>] /\ unsubby' = [k \in Subs |-> <<0, 0>>]
  /\ act' = [k \in Subs |-> FALSE] /\ ierr' = [k \in Subs |-> FALSE]
  /\ gor' = [k \in Subs |-> "idle"] /\ natt' = [k \in Subs |-> 0]
  /\ ninv' = [p \in FE |-> 0] /\ failedf' = 0
  /\ client' = "open" /\ cseen' = 0 /\ srv' = "serving" /\ shut' = FALSE /\ ctxc' = FALSE
  /\ step' = St("Init", 0, 0, "-")
  /\ hist' = <<>> /\ steps' = 0 /\ Draw

MBTNext == IF steps >= MaxSteps \/ ~ENABLED SimNext THEN Emit ELSE Step
=============================================================================

\* quick: <= 3 frames over the core alphabet, 2 subscriptions, every completion order / notification placement
\* measured: 27 434 distinct / 53 034 generated states, depth 26
CONSTANTS
  FrameAlphabet <- FramesCore
  MaxFrames = 3
  MaxSubs = 2
  MaxNotes = 2
  MaxEntries = 2
  PoolSize = 2
  AllowClose = FALSE
  AllowShutdown = FALSE
  SplitWrites = FALSE
  WriteMutex = TRUE
  WaitActivation = TRUE
  FixNonRequest = FALSE
  FixCloseReason = FALSE
  DrainRemainder = TRUE
INIT Init
NEXT Next
VIEW view
INVARIANTS TypeOK POnePerFrame PContent PInvocations PWholeFrames PRespFIFO PNotesFIFO PAfterActivation PNoNoteAfterUnsub PClientView PReadLimit PInternalClose PCloseIsLast PDocumentedExit PLaterAnswered PDrained
PROPERTIES PNoWriteAfterExit PExitFinal PErrorMeansNothingWritten
CHECK_DEADLOCK FALSE

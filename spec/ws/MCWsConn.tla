------------------------------ MODULE MCWsConn ------------------------------
(* Constants a .cfg cannot express: the frame alphabets (entries are JsonRpc.tla entries). *)
EXTENDS WsConn

O(v, m, p, i) == JR!Obj(v, m, p, i)
Pos(s)        == JR!PPos(s)

E_ok      == O("v2", "m2", Pos(<<"p", "p">>), "int")                      \* result
E_okn     == O("v2", "m2", JR!PNamed("p", "q", JR!NoTok), "str")          \* result, named params, string id
E_apperr  == O("v2", "m2", Pos(<<"q", "p">>), "int")                      \* application error 44
E_nometh  == O("v2", "unknown", JR!PNull, "int")                          \* -32601
E_badpar  == O("v2", "m2", Pos(<<"p">>), "str")                           \* -32602
E_badtyp  == O("v2", "m2", Pos(<<"bad", "p">>), "int")                    \* -32602 (wrong JSON type)
E_invalid == O("v1", "m2", Pos(<<"p", "p">>), "int")                      \* -32600, id echoed or null
E_badid   == O("v2", "m2", Pos(<<"p", "p">>), "float")                    \* -32600, id null
E_notif   == O("v2", "m2", Pos(<<"p", "p">>), "absent")                   \* notification, handler invoked
E_notifnl == O("v2", "m2", JR!PNamed("p", "p", JR!NoTok), "null")         \* "id": null, same
E_notifnm == O("v2", "unknown", JR!PAbsent, "absent")                     \* notification, unknown method: silent
E_notifbp == O("v2", "m2", Pos(<<"p">>), "absent")                        \* notification, bad params: silent
E_scalar  == JR!NonObj("scalar")                                          \* C11 known finding on the single path
E_null    == JR!NonObj("null")
E_memtyp  == O("v2", "nonstr", JR!PAbsent, "int")                         \* C11 known finding on the single path
E_sub(k)   == O("v2", "sub",   Pos(<<IF k = 1 THEN "p" ELSE "q", "p">>), "int")
E_subn(k)  == O("v2", "sub",   Pos(<<IF k = 1 THEN "p" ELSE "q", "p">>), "absent")   \* subscribe by notification
E_unsub(k) == O("v2", "unsub", Pos(<<IF k = 1 THEN "p" ELSE "q", "p">>), "str")

E_boom(k)  == O("v2", "boom",  Pos(<<IF k = 1 THEN "p" ELSE "q", "p">>), "int")    \* unserialisable result; k = 2: long error text

S(e) == Fr("single", <<e>>)
B(s) == Fr("batch", s)
Garbage == Fr("garbage", <<>>)
Big     == Fr("big", <<>>)
BigTail == Fr("bigtail", <<E_ok>>)

(* connection machinery: one representative per behaviour class *)
FramesCore == {S(E_ok), S(E_notif), S(E_nometh), Garbage, B(<<E_ok, E_notif>>),
               S(E_sub(1)), S(E_sub(2)), S(E_unsub(1))}
FramesSubs == {S(E_ok), B(<<E_sub(1), E_ok>>), S(E_sub(1)), S(E_subn(2)), S(E_unsub(1)), S(E_unsub(2))}
FramesEnd  == {S(E_ok), S(E_notif), B(<<E_ok, E_sub(2)>>), S(E_sub(1)), S(E_unsub(1)), Big, BigTail, S(E_boom(1)), S(E_boom(2))}
FramesEnd3 == {S(E_ok), B(<<E_ok, E_sub(2)>>), S(E_sub(1)), Big, BigTail, S(E_boom(2))}
FramesBoom == {S(E_ok), S(E_sub(1)), S(E_boom(1)), S(E_boom(2))}
FramesLive == {S(E_sub(1)), B(<<E_ok, E_sub(1)>>), Big, S(E_boom(2))}
FramesMutex == {S(E_ok), S(E_sub(1)), S(E_sub(2)), B(<<E_ok, E_ok>>)}

(* framing: the message shapes x what they owe; a first message of each shape, then later ones *)
WithFm(fr, fm) == [fr EXCEPT !.fm = fm]
FramesFraming == {WithFm(fr, fm) : fr \in {S(E_ok), S(E_notif), Garbage, B(<<E_ok, E_notif>>)}, fm \in Framings}
                   \cup {WithFm(S(E_sub(1)), "frag"), WithFm(S(E_sub(1)), "pad"), BigTail}

(* content: every answer class of C11, singly and in batches *)
ContentEntries == {E_ok, E_okn, E_apperr, E_nometh, E_badpar, E_badtyp, E_invalid, E_badid, E_notif, E_notifnl,
                   E_notifnm, E_notifbp, E_scalar, E_null, E_memtyp, E_sub(1), E_unsub(1)}
FramesContent == {S(e) : e \in ContentEntries} \cup {Garbage, B(<<>>)}
                   \cup {B(<<e1, e2>>) : e1, e2 \in {E_ok, E_apperr, E_nometh, E_notif, E_notifnm, E_scalar, E_badid, E_sub(1)}}
                   \cup {B(<<E_ok, E_notif, E_nometh>>), B(<<E_notif, E_notifnm, E_notifbp>>), B(<<E_sub(1), E_ok, E_sub(1)>>)}
=============================================================================

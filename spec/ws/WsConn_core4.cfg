\* thorough: <= 4 frames over the core alphabet, 2 subscriptions, every completion order / notification placement
\* measured: 544 741 distinct / 1 141 918 generated states, depth 33
CONSTANTS
  FrameAlphabet <- FramesCore
  MaxFrames = 4
  MaxSubs = 2
  MaxNotes = 2
  MaxEntries = 2
  PoolSize = 2
  AllowClose = FALSE
  AllowShutdown = FALSE
  SplitWrites = FALSE
  WriteMutex = TRUE
  WaitActivation = TRUE
  FixNonRequest = FALSE
  FixCloseReason = FALSE
  DrainRemainder = TRUE
INIT Init
NEXT Next
VIEW view
INVARIANTS TypeOK POnePerFrame PContent PInvocations PWholeFrames PRespFIFO PNotesFIFO PAfterActivation PNoNoteAfterUnsub PClientView PReadLimit PInternalClose PCloseIsLast PDocumentedExit PLaterAnswered PDrained
PROPERTIES PNoWriteAfterExit PExitFinal PErrorMeansNothingWritten
CHECK_DEADLOCK FALSE

\* quick: client close, server shutdown, read limit; <= 2 frames
\* measured: 86 183 distinct / 213 340 generated states, depth 22
CONSTANTS
  FrameAlphabet <- FramesEnd
  MaxFrames = 2
  MaxSubs = 2
  MaxNotes = 1
  MaxEntries = 2
  PoolSize = 2
  AllowClose = TRUE
  AllowShutdown = TRUE
  SplitWrites = FALSE
  WriteMutex = TRUE
  WaitActivation = TRUE
  FixNonRequest = FALSE
  FixCloseReason = FALSE
  DrainRemainder = TRUE
INIT Init
NEXT Next
VIEW view
INVARIANTS TypeOK POnePerFrame PContent PInvocations PWholeFrames PRespFIFO PNotesFIFO PAfterActivation PNoNoteAfterUnsub PClientView PReadLimit PInternalClose PCloseIsLast PDocumentedExit PLaterAnswered PDrained
PROPERTIES PNoWriteAfterExit PExitFinal PErrorMeansNothingWritten
CHECK_DEADLOCK FALSE

\* EXPECTED VIOLATION of PLaterAnswered: the loop does not drain the rest of a message after answering it (DrainRemainder = FALSE):
\* after a fragmented / padded first message the connection is ended (1011 / 1002) and a later message is never answered
CONSTANTS
  FrameAlphabet <- FramesFraming
  MaxFrames = 3
  MaxSubs = 1
  MaxNotes = 1
  MaxEntries = 2
  PoolSize = 2
  AllowClose = FALSE
  AllowShutdown = FALSE
  SplitWrites = FALSE
  WriteMutex = TRUE
  WaitActivation = TRUE
  FixNonRequest = FALSE
  FixCloseReason = FALSE
  DrainRemainder = FALSE
INIT Init
NEXT Next
VIEW view
INVARIANTS PLaterAnswered
CHECK_DEADLOCK FALSE

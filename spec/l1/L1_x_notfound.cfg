\* MUTANT: a not-found answer of FinalisedHeight inside setL1Head is replaced by LatestHeight - must violate HeadWithinReported
CONSTANTS
  MaxBlocks = 3
  MaxEvents = 3
  MaxPerBlock = 2
  MaxReorgs = 1
  MaxRestarts = 1
  MaxFail = 1
  ChunkSizes = {1, 2, 10}
  MaxWriteFail = 0
  CatchUpWriteErrorFatal = TRUE
  SwallowWriteError = FALSE
  AnnounceBeforeWrite = FALSE
  MaxReads = 0
  CachedAccessor = FALSE
  ErrKinds = {"transport", "timeout", "notfound", "cancel"}
  NotFoundMeansLatest = TRUE
  FinalityAfterNotices = TRUE
INIT Init
NEXT Next
VIEW view
INVARIANTS TypeOK ChainSane
PROPERTIES HeadWithinReported
CHECK_DEADLOCK FALSE

\* reachability (vacuity guard): a read of the accessor overlapping a SetL1Head exists - must violate NoOverlap
CONSTANTS
  MaxBlocks = 3
  MaxEvents = 2
  MaxPerBlock = 2
  MaxReorgs = 0
  MaxRestarts = 1
  MaxFail = 0
  ChunkSizes = {2, 10}
  MaxWriteFail = 0
  CatchUpWriteErrorFatal = TRUE
  SwallowWriteError = FALSE
  AnnounceBeforeWrite = FALSE
  MaxReads = 3
  CachedAccessor = FALSE
  ErrKinds = {"transport", "timeout", "notfound", "cancel"}
  NotFoundMeansLatest = FALSE
  FinalityAfterNotices = TRUE
INIT Init
NEXT Next
VIEW view
INVARIANTS NoOverlap
CHECK_DEADLOCK FALSE

\* MUTANT: as L1_x_notfound.cfg; the consequence for the record - must violate StoredFinalisedCanonical (head above the finalised height, removed by a later reorg)
CONSTANTS
  MaxBlocks = 3
  MaxEvents = 3
  MaxPerBlock = 2
  MaxReorgs = 1
  MaxRestarts = 1
  MaxFail = 1
  ChunkSizes = {1, 2, 10}
  MaxWriteFail = 0
  CatchUpWriteErrorFatal = TRUE
  SwallowWriteError = FALSE
  AnnounceBeforeWrite = FALSE
  MaxReads = 0
  CachedAccessor = FALSE
  ErrKinds = {"transport", "timeout", "notfound", "cancel"}
  NotFoundMeansLatest = TRUE
  FinalityAfterNotices = TRUE
INIT Init
NEXT Next
VIEW view
INVARIANTS StoredFinalisedCanonical
CHECK_DEADLOCK FALSE

\* MUTANT: Blockchain.SetL1Head announces on the feed before it writes (a failed write was announced) - must violate AnnouncedIsRecorded
CONSTANTS
  MaxBlocks = 3
  MaxEvents = 3
  MaxPerBlock = 2
  MaxReorgs = 1
  MaxRestarts = 1
  MaxFail = 1
  ChunkSizes = {1, 2, 10}
  MaxWriteFail = 1
  CatchUpWriteErrorFatal = TRUE
  SwallowWriteError = FALSE
  AnnounceBeforeWrite = TRUE
  MaxReads = 0
  CachedAccessor = FALSE
  ErrKinds = {"transport", "timeout", "notfound", "cancel"}
  NotFoundMeansLatest = FALSE
  FinalityAfterNotices = TRUE
INIT Init
NEXT Next
VIEW view
INVARIANTS TypeOK StoredFinalisedCanonical ChainSane AnnouncedIsRecorded
PROPERTIES RunningImpliesRecorded StopOnlyOnWriteFailure
CHECK_DEADLOCK FALSE

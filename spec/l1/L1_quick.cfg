\* exhaustive: 3 L1 blocks, 3 events, 1 reorg, 1 failure, chunk size in {1,2,10}
\* measured: 1 425 375 distinct / 4 745 524 generated states, depth 30 (about 1 min on 4 workers)
CONSTANTS
  MaxBlocks = 3
  MaxEvents = 3
  MaxPerBlock = 2
  MaxReorgs = 1
  MaxRestarts = 1
  MaxFail = 1
  ChunkSizes = {1, 2, 10}
  FinalityAfterNotices = TRUE
INIT Init
NEXT Next
VIEW view
INVARIANTS TypeOK StoredFinalisedCanonical BufferSane ChainSane
PROPERTIES SetHeadExact OnlySetHeadWrites Monotone RestartIsNoOp
CHECK_DEADLOCK FALSE

\* exhaustive: 3 L1 blocks, 3 events, 1 reorg, 1 failure, 1 failed write of the head record, 1 restart, chunk size in {1,2,10}
\* (repaired design: CatchUpWriteErrorFatal = TRUE; the code before the repair is L1_x_catchupwrite.cfg)
\* measured: 3 575 174 distinct / 13 046 991 generated states, depth 34 (55-60 s on 4 loaded workers;
\*           without write failures: 3 259 276 / 12 025 282, 46 s on the same machine)
CONSTANTS
  MaxBlocks = 3
  MaxEvents = 3
  MaxPerBlock = 2
  MaxReorgs = 1
  MaxRestarts = 1
  MaxFail = 1
  ChunkSizes = {1, 2, 10}
  MaxWriteFail = 1
  CatchUpWriteErrorFatal = TRUE
  SwallowWriteError = FALSE
  AnnounceBeforeWrite = FALSE
  FinalityAfterNotices = TRUE
INIT Init
NEXT Next
VIEW view
INVARIANTS TypeOK StoredFinalisedCanonical BufferSane ChainSane AnnouncedIsRecorded
PROPERTIES SetHeadExact RunningImpliesRecorded StopOnlyOnWriteFailure OnlySetHeadWrites Monotone RestartIsNoOp
CHECK_DEADLOCK FALSE

\* exhaustive: 3 L1 blocks, 3 events, 1 reorg, 1 failure, 1 restart, chunk size in {1,2,10}
\* measured: 3 259 276 distinct / 12 025 282 generated states (44 s on 12 workers)
CONSTANTS
  MaxBlocks = 3
  MaxEvents = 3
  MaxPerBlock = 2
  MaxReorgs = 1
  MaxRestarts = 1
  MaxFail = 1
  ChunkSizes = {1, 2, 10}
  FinalityAfterNotices = TRUE
INIT Init
NEXT Next
VIEW view
INVARIANTS TypeOK StoredFinalisedCanonical BufferSane ChainSane
PROPERTIES SetHeadExact OnlySetHeadWrites Monotone RestartIsNoOp
CHECK_DEADLOCK FALSE

\* exhaustive: 3 L1 blocks, 3 events, 1 reorg, 1 failure, 1 failed write of the head record, 1 restart, chunk size in {1,2,10}
\* (repaired design: CatchUpWriteErrorFatal = TRUE; the code before the repair is L1_x_catchupwrite.cfg)
\* (the accessor dimension is off here, MaxReads = 0: see L1_acc.cfg; four error kinds)
\* measured: 3 575 174 distinct / 15 109 827 generated states, depth 34 (with one error kind: 13 046 991 generated;
\*           55-60 s on 4 workers of an idle machine before the error kinds, same CPU time within 5 % with them)
CONSTANTS
  MaxBlocks = 3
  MaxEvents = 3
  MaxPerBlock = 2
  MaxReorgs = 1
  MaxRestarts = 1
  MaxFail = 1
  ChunkSizes = {1, 2, 10}
  MaxWriteFail = 1
  CatchUpWriteErrorFatal = TRUE
  SwallowWriteError = FALSE
  AnnounceBeforeWrite = FALSE
  MaxReads = 0
  CachedAccessor = FALSE
  ErrKinds = {"transport", "timeout", "notfound", "cancel"}
  NotFoundMeansLatest = FALSE
  FinalityAfterNotices = TRUE
INIT Init
NEXT Next
VIEW view
INVARIANTS TypeOK StoredFinalisedCanonical BufferSane ChainSane AnnouncedIsRecorded
PROPERTIES FailedFinIsRetried HeadWithinReported SetHeadExact RunningImpliesRecorded StopOnlyOnWriteFailure OnlySetHeadWrites Monotone RestartIsNoOp
CHECK_DEADLOCK FALSE

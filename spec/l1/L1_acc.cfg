\* the accessor dimension, exhaustive: reads of Blockchain.L1Head() (start .. end) overlapping the client's SetL1Head, a restart
\* with a record on disk, a failed write; 3 L1 blocks, 2 events, no reorg, no call failure, chunk size in {2,10}
\* measured: 372 504 distinct / 1 332 065 generated states, depth 33 (13 s on 4 workers)
CONSTANTS
  MaxBlocks = 3
  MaxEvents = 2
  MaxPerBlock = 2
  MaxReorgs = 0
  MaxRestarts = 1
  MaxFail = 0
  ChunkSizes = {2, 10}
  MaxWriteFail = 1
  CatchUpWriteErrorFatal = TRUE
  SwallowWriteError = FALSE
  AnnounceBeforeWrite = FALSE
  MaxReads = 3
  CachedAccessor = FALSE
  ErrKinds = {"transport", "timeout", "notfound", "cancel"}
  NotFoundMeansLatest = FALSE
  FinalityAfterNotices = TRUE
INIT Init
NEXT Next
VIEW view
INVARIANTS TypeOK StoredFinalisedCanonical AccessorIsRecord AnnouncedIsRecorded
PROPERTIES ReportedIsRecorded ReadsMonotone SetHeadExact RunningImpliesRecorded OnlySetHeadWrites Monotone RestartIsNoOp
CHECK_DEADLOCK FALSE

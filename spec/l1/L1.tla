-------------------------------- MODULE L1 --------------------------------
(* C17 - the recorded L1 head is always a finalised, still-canonical L1 state commit.

   Two processes.

   The L1 NODE (environment, assumed well-behaved as the property states): a chain of L1 blocks
   with 0..2 LogStateUpdate events each, a monotone finalised height, reorgs of the non-finalised
   suffix, one log subscription that is up or down, eth_getLogs that succeeds or fails.  It never
   un-finalises a block, it pushes logs in chain order, and for every reorged log that it had
   delivered it delivers the removal notice (so a reorg that drops delivered logs needs a live
   subscription).

   The CLIENT, l1.Client as written (l1/l1.go): Run = ensureChainID ; catchUpL1HeadUpdates
   (LatestHeight ; FinalisedHeight ; backward FilterStateUpdate chunks until a finalised event was
   seen or genesis was reached ; setL1Head) ; watchL1StateUpdates (subscribe loop ; select loop
   over update channel / subscription error / ticker -> setL1Head).  setL1Head = finalisedHeight
   retry loop ; pick the buffered entry with the highest L1 number <= finalised ; delete every
   entry <= finalised ; persist.  One action per provider call (its return is the linearisation
   point) plus Consume (one update taken from the channel), TickStart and HandleSubErr.

   STORAGE FAULTS (the write of the L1-head record).  The property speaks about the head "the node
   records"; it is read conditionally: WHILE THE CLIENT KEEPS RUNNING the record equals the best
   merged finalised event.  A failed Put of the record may end the client (Run returns the error,
   the node stops - every service return cancels the node -, a restart re-scans), it may not leave
   a running client with a stale record: setL1Head has already deleted every finalised entry,
   the chosen head included, from the buffer before it writes, so there is nothing to retry with.
   SetHead therefore takes the outcome of the write (wok); as coded a failed write on the tick path
   stops the client (pc = "stopped": the client object is dead, its subscription unsubscribed);
   on the catch-up path the error travels through catchUpL1HeadUpdates into Run, which treats
   every catch-up error as "best effort" and goes on to the live subscription
   (CatchUpWriteErrorFatal = FALSE is the code as it is; TRUE the repaired design).
   Blockchain.SetL1Head writes first and announces the head on the L1-head feed second (no event
   for a failed write): `announced` is the last head sent on the feed.

   THE ACCESSOR (the head the node REPORTS).  The property speaks about the head "the node records
   (and uses for finality status ...)": the rest of the node (rpc handlers, metrics, db info) never
   looks at the database record, it calls Blockchain.L1Head().  That accessor is an observable of its
   own: `stored` is the durable record, a READ is a call of the accessor with a start and an end
   (ReadStart .. ReadEnd) that may overlap a SetL1Head of the client, and a restart builds a new
   Blockchain object on the record left on disk.  As coded the accessor is core.GetL1Head on the
   database, so a read is the Get at its start.  ReportedIsRecorded: what a read returns is a value
   the record held at some moment between the read's start and its end - in particular a read that
   starts after a SetL1Head has completed returns that head or a later one; ReadsMonotone: completed
   reads never go back; AccessorIsRecord: with no read in flight the accessor would answer the record.
   CachedAccessor (MUTANT switch) gives the accessor an in-memory copy that SetL1Head refreshes and a
   reader fills on a miss, check-then-act: the reader's database value is stored when the read ENDS,
   whatever was written meanwhile.  L1_x_cache.cfg must violate ReportedIsRecorded (restart with a
   head on disk; first read overlaps the first SetL1Head; every later read reports the old head).

   ERROR KINDS.  A failing answer of the L1 node has a kind (ErrKinds): a transport error, a timeout
   (context.DeadlineExceeded of the per-call context), eth.ErrNotFound ("the node cannot name a
   finalised block": a null answer to eth_getBlockByNumber("finalized")), context.Canceled coming out
   of the provider while the client's own context is live.  The client as written looks at none of
   them (it only asks its own context): every failing FinalisedHeight answer inside setL1Head is
   retried and leaves buffer and head untouched (FailedFinIsRetried); a failing answer anywhere in the
   catch-up scan abandons the scan.  The head moves only at a FinalisedHeight answer that REPORTED a
   finalised height, and not above that height (HeadWithinReported).  NotFoundMeansLatest (MUTANT
   switch): a not-found answer inside setL1Head is taken as "everything up to the tip is final";
   L1_x_notfound.cfg must violate HeadWithinReported, L1_x_notfound2.cfg StoredFinalisedCanonical
   (a later, perfectly legal reorg of the non-finalised block leaves a removed commit recorded).
   `act` (output only, hidden from VIEW) names the last step: [a, o, f] = action, outcome kind,
   finalised height the answer reported (-1: none).

   Events are numbered 1,2,3.. in creation order; l1of/l2of give their L1 block and Starknet block
   number.  0 = no event. *)
EXTENDS Naturals, Integers, Sequences, FiniteSets, TLC

CONSTANTS
  MaxBlocks,     \* highest L1 height
  MaxEvents,     \* events ever created (all forks)
  MaxPerBlock,   \* events per L1 block (2)
  MaxReorgs,
  MaxFail,       \* injected failures (calls + subscription drops)
  MaxRestarts,   \* node restarts: a NEW client (empty buffer, new channel) on the SAME database
  ChunkSizes,    \* catch-up chunk sizes to choose from
  MaxWriteFail,  \* injected failures of the Put of the L1-head record (0: the store never fails)
  CatchUpWriteErrorFatal,
      \* how Run treats a failed write of the head at the end of the catch-up scan.
      \* FALSE: as in the code before the repair - the error is logged with every other catch-up
      \* error ("resuming with live subscription only") and the client goes on, its buffer pruned.
      \* TRUE (repaired): Run returns the error, like the tick path does.
  SwallowWriteError,
      \* MUTANT switch (never the code): TRUE = setL1Head on the tick path logs a failed write and
      \* returns nil ("retry on the next poll").  L1_x_swallow.cfg must violate RunningImpliesRecorded.
  AnnounceBeforeWrite,
      \* MUTANT switch: TRUE = Blockchain.SetL1Head sends the head on the feed before it writes
      \* (a failed write has been announced).  L1_x_announce.cfg must violate AnnouncedIsRecorded.
  MaxReads,
      \* calls of the accessor Blockchain.L1Head() by the rest of the node (0: the dimension is off)
  CachedAccessor,
      \* MUTANT switch (never the code): TRUE = Blockchain keeps an in-memory copy of the head;
      \* SetL1Head stores the new head in it after the write, L1Head() serves it and, on a miss, reads the
      \* database and stores what it read when it returns (check-then-act).  L1_x_cache.cfg must violate
      \* ReportedIsRecorded.
  ErrKinds,
      \* kinds of failing answers of the L1 node: subset of {"transport", "timeout", "notfound", "cancel"}
  NotFoundMeansLatest,
      \* MUTANT switch: TRUE = the finalisedHeight helper of setL1Head answers a "notfound" failure of
      \* FinalisedHeight with LatestHeight instead of retrying.  L1_x_notfound.cfg must violate HeadWithinReported.
  FinalityAfterNotices
      \* TRUE (the registered assumption on the L1 node's timing): a height is reported finalised
      \* only after the removal notices of reorgs at or below it have left the client's channel.
      \* On Ethereum finality trails the head by two epochs (~13 min) while a notice is consumed
      \* within microseconds of its delivery.  FALSE: no such assumption - TLC then exhibits the
      \* schedule in which the ticker case of the client's select loop wins against a queued
      \* notice and a removed commit is persisted (see L1_lag.cfg).

Ev == 1..MaxEvents
Heights == 0..MaxBlocks          \* 0 = genesis, carries no event

VARIABLES
  \* ---- L1 node
  blocks,        \* height -> sequence of event ids (canonical chain), heights 1..top
  top,           \* latest height
  fin,           \* finalised height
  nEv,           \* events created so far
  l1of, l2of,    \* event id -> L1 height / Starknet block number
  reorgs,
  subUp,         \* a live subscription exists at the node
  subPos,        \* logs of blocks <= subPos were pushed to (or predate) the subscription
  subErr,        \* an error sits in the subscription's Err() channel
  chan,          \* the client's update channel: sequence of [id, removed]
  delivered,     \* events handed to the client (pushed into chan or returned by a filter call)
  \* ---- client
  pc,            \* "chainid" "latest" "fin0" "filter" "catchfin" "watch" "loop" "tickfin" "stopped"
  chunk,         \* catchUpChunkSize of this run
  cFin, cTo, cFound,   \* catch-up locals: finalised snapshot, upper end of the next chunk, foundFinalised
  buffer,        \* nonFinalisedLogs: height -> event id (0 = no entry)
  stored,        \* the persisted L1 head (event id, 0 = none)
  fails,
  wfails,        \* failed writes of the head record so far
  restarts,
  \* ---- history, for the property only
  applied,       \* events merged into the buffer at some time
  removedSeen,   \* events whose removal notice was merged
  announced,     \* the last head sent on the L1-head feed (0 none)
  \* ---- the accessor Blockchain.L1Head() and its readers
  cache,         \* CachedAccessor only: the in-memory copy (0 = empty)
  rd,            \* the read in flight: [pc |-> "idle" | "miss" | "hit", val |-> what it will return,
                 \*   seen |-> the values the record has held since the read started (history)]
  nreads,        \* reads started so far
  reported,      \* what the last completed read returned (history; 0 none)
  \* ---- output only (not in VIEW)
  act            \* the last step: [a |-> action, o |-> outcome kind, f |-> reported finalised height or -1]

nodeVars   == <<blocks, top, fin, nEv, l1of, l2of, reorgs, subUp, subPos, subErr, chan, delivered>>
chainVars  == <<blocks, top, fin, nEv, l1of, l2of, reorgs, subPos>>   \* nodeVars without the subscription / delivery part
clientVars == <<pc, chunk, cFin, cTo, cFound, buffer, stored, fails, wfails, restarts>>
histVars   == <<applied, removedSeen, announced>>
vars == <<nodeVars, clientVars, histVars>>
accVars == <<cache, rd, nreads, reported>>
allVars == <<vars, accVars, act>>

Outcomes == {"ok"} \cup ErrKinds
Idle == [pc |-> "idle", val |-> 0, seen |-> {}]

Max(S) == CHOOSE x \in S : \A y \in S : y <= x
Min(S) == CHOOSE x \in S : \A y \in S : x <= y
SeqToSet(s) == {s[i] : i \in DOMAIN s}

Canonical(e) == e \in Ev /\ e <= nEv /\ l1of[e] <= top /\ e \in SeqToSet(blocks[l1of[e]])
CanonicalEvents == {e \in 1..nEv : Canonical(e)}
(* Starknet block number of the next commit on the canonical chain *)
NextL2 == IF CanonicalEvents = {} THEN 0 ELSE l2of[Max(CanonicalEvents)] + 1   \* the first commit is Starknet block 0

Init ==
  /\ blocks = [h \in 1..MaxBlocks |-> <<>>] /\ top = 0 /\ fin = 0 /\ nEv = 0
  /\ l1of = [e \in Ev |-> 0] /\ l2of = [e \in Ev |-> 0]
  /\ reorgs = 0 /\ subUp = FALSE /\ subPos = 0 /\ subErr = FALSE /\ chan = <<>> /\ delivered = {}
  /\ pc = "chainid" /\ chunk \in ChunkSizes /\ cFin = 0 /\ cTo = 0 /\ cFound = FALSE
  /\ buffer = [h \in Heights |-> 0] /\ stored = 0 /\ fails = 0 /\ wfails = 0 /\ restarts = 0
  /\ applied = {} /\ removedSeen = {} /\ announced = 0
  /\ cache = 0 /\ rd = Idle /\ nreads = 0 /\ reported = 0
  /\ act = [a |-> "Init", o |-> "ok", f |-> -1]

----------------------------------------------------------------------------
(* L1 node *)

Mine(n) ==
  /\ top < MaxBlocks /\ n \in 0..MaxPerBlock /\ nEv + n <= MaxEvents
  /\ LET ids == [i \in 1..n |-> nEv + i] IN
     /\ blocks' = [blocks EXCEPT ![top + 1] = ids]
     /\ l1of' = [e \in Ev |-> IF e \in nEv + 1..nEv + n THEN top + 1 ELSE l1of[e]]
     /\ l2of' = [e \in Ev |-> IF e \in nEv + 1..nEv + n THEN NextL2 + (e - nEv - 1) ELSE l2of[e]]
  /\ top' = top + 1 /\ nEv' = nEv + n
  /\ UNCHANGED <<fin, reorgs, subUp, subPos, subErr, chan, delivered, clientVars, histVars>>

PendingNotice(h) == \E i \in DOMAIN chan : chan[i].removed /\ l1of[chan[i].id] <= h
Finalise(h) ==
  /\ fin < h /\ h <= top
  /\ FinalityAfterNotices => ~PendingNotice(h)
  /\ fin' = h
  /\ UNCHANGED <<blocks, top, nEv, l1of, l2of, reorgs, subUp, subPos, subErr, chan, delivered, clientVars, histVars>>

EventsOf(lo, hi) == {e \in 1..nEv : Canonical(e) /\ lo <= l1of[e] /\ l1of[e] <= hi}
(* a set of events as a sequence in chain order (= id order on one chain) *)
RECURSIVE InOrder(_)
InOrder(S) == IF S = {} THEN <<>> ELSE LET m == Min(S) IN <<m>> \o InOrder(S \ {m})

(* blocks above k are replaced; the node reports every delivered log among them as removed *)
Reorg(k) ==
  /\ reorgs < MaxReorgs /\ fin <= k /\ k < top
  /\ LET gone == EventsOf(k + 1, top) \cap delivered IN
     /\ gone # {} => subUp                       \* well-behaved: the notice can be delivered
     /\ chan' = chan \o [i \in 1..Cardinality(gone) |-> [id |-> InOrder(gone)[i], removed |-> TRUE]]
  /\ blocks' = [h \in 1..MaxBlocks |-> IF h > k THEN <<>> ELSE blocks[h]]
  /\ top' = k /\ reorgs' = reorgs + 1
  /\ subPos' = IF subPos > k THEN k ELSE subPos
  /\ UNCHANGED <<fin, nEv, l1of, l2of, subUp, subErr, delivered, clientVars, histVars>>

(* the node pushes the logs of the next block to the subscription *)
Push ==
  /\ subUp /\ subPos < top
  /\ LET b == blocks[subPos + 1] IN
     /\ chan' = chan \o [i \in 1..Len(b) |-> [id |-> b[i], removed |-> FALSE]]
     /\ delivered' = delivered \cup SeqToSet(b)
  /\ subPos' = subPos + 1
  /\ UNCHANGED <<blocks, top, fin, nEv, l1of, l2of, reorgs, subUp, subErr, clientVars, histVars>>

(* the subscription breaks: an error is sent on Err(), nothing more is pushed *)
SubFail ==
  /\ subUp /\ fails < MaxFail
  /\ subUp' = FALSE /\ subErr' = TRUE /\ fails' = fails + 1
  /\ UNCHANGED <<blocks, top, fin, nEv, l1of, l2of, reorgs, subPos, chan, delivered,
                 pc, chunk, cFin, cTo, cFound, buffer, stored, wfails, restarts, histVars>>

----------------------------------------------------------------------------
(* client *)

(* applyStateUpdate *)
Apply(buf, m) ==
  IF m.removed THEN [h \in Heights |-> IF h >= l1of[m.id] THEN 0 ELSE buf[h]]
  ELSE [buf EXCEPT ![l1of[m.id]] = m.id]

RECURSIVE ApplyAll(_, _)
ApplyAll(buf, ms) == IF ms = <<>> THEN buf ELSE ApplyAll(Apply(buf, ms[1]), Tail(ms))

(* setL1Head after finalisedHeight returned f: the entry it picks and what it leaves buffered
   (every entry at or below f is deleted BEFORE the head is written) *)
Cand(f) == {h \in Heights : buffer[h] # 0 /\ h <= f}
HeadOf(f) == buffer[Max(Cand(f))]
Pruned(f) == [h \in Heights |-> IF h <= f THEN 0 ELSE buffer[h]]
NoBuffer == [h \in Heights |-> 0]

CanFail == fails < MaxFail
Failed  == fails' = fails + 1

ChainID(ok) ==
  /\ pc = "chainid"
  /\ IF ok THEN pc' = "latest" /\ fails' = fails ELSE CanFail /\ Failed /\ pc' = pc     \* retried
  /\ UNCHANGED <<nodeVars, chunk, restarts, cFin, cTo, cFound, buffer, stored, wfails, histVars>>

(* a failure anywhere in the scan abandons catch-up; Run goes on to the live subscription *)
Latest(ok) ==
  /\ pc = "latest"
  /\ IF ok THEN pc' = "fin0" /\ cTo' = top /\ fails' = fails
           ELSE CanFail /\ Failed /\ pc' = "watch" /\ cTo' = cTo
  /\ UNCHANGED <<nodeVars, chunk, restarts, cFin, cFound, buffer, stored, wfails, histVars>>

Fin0(ok) ==
  /\ pc = "fin0"
  /\ IF ok THEN pc' = "filter" /\ cFin' = fin /\ cFound' = FALSE /\ fails' = fails
           ELSE CanFail /\ Failed /\ pc' = "watch" /\ UNCHANGED <<cFin, cFound>>
  /\ UNCHANGED <<nodeVars, chunk, restarts, cTo, buffer, stored, wfails, histVars>>

ChunkFrom == IF cTo + 1 > chunk THEN cTo + 1 - chunk ELSE 0

Filter(ok) ==
  /\ pc = "filter"
  /\ IF ok THEN
       LET got == EventsOf(ChunkFrom, cTo)
           found == cFound \/ \E e \in got : l1of[e] <= cFin IN
       /\ buffer' = ApplyAll(buffer, [i \in 1..Cardinality(got) |-> [id |-> InOrder(got)[i], removed |-> FALSE]])
       /\ delivered' = delivered \cup got /\ applied' = applied \cup got
       /\ cFound' = found
       /\ IF found \/ ChunkFrom = 0 THEN pc' = "catchfin" /\ cTo' = cTo
                                    ELSE pc' = "filter" /\ cTo' = ChunkFrom - 1
       /\ fails' = fails
     ELSE /\ CanFail /\ Failed /\ pc' = "watch"        \* the partial buffer stays
          /\ UNCHANGED <<buffer, delivered, applied, cFound, cTo>>
  /\ UNCHANGED <<blocks, top, fin, nEv, l1of, l2of, reorgs, subUp, subPos, subErr, chan,
                 chunk, cFin, stored, wfails, restarts, removedSeen, announced>>

(* Run has returned: the client object is dead, its subscription unsubscribed (deferred in
   receiveL1StateUpdates), whatever it had buffered or not yet taken from its channel is gone.
   Like Restart, without a new client. *)
ClientGone ==
  /\ cFin' = 0 /\ cTo' = 0 /\ cFound' = FALSE /\ buffer' = NoBuffer
  /\ chan' = <<>> /\ subUp' = FALSE /\ subErr' = FALSE
  /\ delivered' = (IF stored' = 0 THEN {} ELSE {stored'})
  /\ applied' = (IF stored' = 0 THEN {} ELSE {stored'}) /\ removedSeen' = {}

(* the finalisedHeight retry loop of setL1Head, at the end of catch-up and on every tick, then the
   pick / prune / write of setL1Head.  o: how FinalisedHeight answered ("ok" or the kind of failure);
   wok: the Put of the head record succeeded (only a setL1Head that found a finalised entry writes:
   otherwise wok is TRUE); fatal: the caller returns a write error from Run.
   As coded every failure is retried whatever its kind.  NotFoundMeansLatest: a not-found answer is
   replaced by LatestHeight (taken in the same step) and setL1Head goes on with the tip as "finalised". *)
FinAndSet(from, to, o, wok, fatal) ==
  LET fallback == NotFoundMeansLatest /\ o = "notfound"
      ok == o = "ok" \/ fallback
      f == IF fallback THEN top ELSE fin              \* the height setL1Head takes for finalised
  IN
  /\ pc = from
  /\ fails' = (IF o = "ok" THEN fails ELSE fails + 1)
  /\ (o # "ok") => CanFail
  /\ IF ~ok THEN                                        \* retried
          /\ wok /\ pc' = pc
          /\ UNCHANGED <<nodeVars, cFin, cTo, cFound, buffer, stored, wfails, histVars>>
     ELSE IF Cand(f) = {} THEN                          \* "No finalised logs": nothing is written
          /\ wok /\ pc' = to
          /\ UNCHANGED <<nodeVars, cFin, cTo, cFound, buffer, stored, wfails, histVars>>
     ELSE IF wok THEN                                   \* written, then announced on the feed
          /\ stored' = HeadOf(f) /\ announced' = HeadOf(f) /\ buffer' = Pruned(f) /\ pc' = to
          /\ UNCHANGED <<nodeVars, cFin, cTo, cFound, wfails, applied, removedSeen>>
     ELSE                                               \* the Put failed; the buffer is pruned already
          /\ wfails < MaxWriteFail /\ wfails' = wfails + 1
          /\ stored' = stored
          /\ announced' = (IF AnnounceBeforeWrite THEN HeadOf(f) ELSE announced)
          /\ IF fatal THEN /\ pc' = "stopped" /\ ClientGone /\ UNCHANGED chainVars
                      ELSE /\ pc' = to /\ buffer' = Pruned(f)
                           /\ UNCHANGED <<nodeVars, cFin, cTo, cFound, applied, removedSeen>>
  /\ UNCHANGED <<chunk, restarts>>

CatchFin(o, wok) == FinAndSet("catchfin", "watch", o, wok, CatchUpWriteErrorFatal)
TickFin(o, wok)  == FinAndSet("tickfin", "loop", o, wok, ~SwallowWriteError)

(* subscribeToUpdates: a new subscription starts at the current head *)
Watch(ok) ==
  /\ pc = "watch"
  /\ IF ok THEN /\ pc' = "loop" /\ subUp' = TRUE /\ subPos' = top /\ subErr' = FALSE /\ fails' = fails
           ELSE /\ CanFail /\ Failed /\ pc' = pc /\ UNCHANGED <<subUp, subPos, subErr>>
  /\ UNCHANGED <<blocks, top, fin, nEv, l1of, l2of, reorgs, chan, delivered,
                 chunk, cFin, cTo, cFound, buffer, stored, wfails, restarts, histVars>>

(* case stateUpdate := <-updateCh *)
Consume ==
  /\ pc = "loop" /\ chan # <<>>
  /\ buffer' = Apply(buffer, chan[1])
  /\ chan' = Tail(chan)
  /\ IF chan[1].removed THEN removedSeen' = removedSeen \cup {chan[1].id} /\ applied' = applied
                        ELSE applied' = applied \cup {chan[1].id} /\ removedSeen' = removedSeen
  /\ UNCHANGED <<blocks, top, fin, nEv, l1of, l2of, reorgs, subUp, subPos, subErr, delivered,
                 pc, chunk, cFin, cTo, cFound, stored, fails, wfails, restarts, announced>>

(* case err := <-sub.Err() *)
HandleSubErr ==
  /\ pc = "loop" /\ subErr
  /\ subErr' = FALSE /\ pc' = "watch"
  /\ UNCHANGED <<blocks, top, fin, nEv, l1of, l2of, reorgs, subUp, subPos, chan, delivered,
                 chunk, cFin, cTo, cFound, buffer, stored, fails, wfails, restarts, histVars>>

(* case <-ticker.C *)
TickStart ==
  /\ pc = "loop"
  /\ pc' = "tickfin"
  /\ UNCHANGED <<nodeVars, chunk, restarts, cFin, cTo, cFound, buffer, stored, fails, wfails, histVars>>

(* The node process is restarted (gracefully or not - l1.Client persists nothing but the head):
   a new Client starts from ensureChainID with an empty buffer and a new update channel; whatever
   the old one had buffered or not yet taken from its channel is gone, the old subscription is dead.
   The database, and with it the recorded head, survives.  What "delivered to it" means starts
   afresh, except that the recorded head itself stays a commit the node knows about.
   A client that stopped after a failed write is restarted the same way (the operator / supervisor
   starts the node again). *)
Restart ==
  /\ restarts < MaxRestarts
  /\ restarts' = restarts + 1
  /\ pc' = "chainid" /\ cFin' = 0 /\ cTo' = 0 /\ cFound' = FALSE
  /\ buffer' = [h \in Heights |-> 0]
  /\ chan' = <<>> /\ subUp' = FALSE /\ subErr' = FALSE
  /\ delivered' = (IF stored = 0 THEN {} ELSE {stored})
  /\ applied' = (IF stored = 0 THEN {} ELSE {stored}) /\ removedSeen' = {}
  /\ UNCHANGED <<blocks, top, fin, nEv, l1of, l2of, reorgs, subPos, chunk, stored, fails, wfails, announced>>

NodeNext == \/ \E n \in 0..MaxPerBlock : Mine(n)
            \/ \E h \in Heights : Finalise(h)
            \/ \E k \in Heights : Reorg(k)
            \/ Push \/ SubFail

Act(a, o, f) == act' = [a |-> a, o |-> o, f |-> f]
Rep(o) == IF o = "ok" THEN fin ELSE -1        \* the finalised height a FinalisedHeight answer reports

----------------------------------------------------------------------------
(* the accessor Blockchain.L1Head() *)

(* what a step of the client does to the accessor side: Blockchain.SetL1Head refreshes the in-memory
   copy after the write (CachedAccessor); a read in flight has now overlapped one more value of the
   record; a restart is a new process - a new Blockchain object, the old readers are gone *)
AccFollow ==
  IF restarts' # restarts THEN
    cache' = 0 /\ rd' = Idle /\ UNCHANGED <<nreads, reported>>
  ELSE IF stored' # stored THEN
    /\ cache' = (IF CachedAccessor THEN stored' ELSE cache)
    /\ rd' = (IF rd.pc = "idle" THEN rd ELSE [rd EXCEPT !.seen = @ \cup {stored'}])
    /\ UNCHANGED <<nreads, reported>>
  ELSE UNCHANGED accVars

(* L1Head() is entered: as coded core.GetL1Head(database); with the in-memory copy: serve it, on a
   miss read the database *)
ReadStart ==
  /\ rd.pc = "idle" /\ nreads < MaxReads
  /\ nreads' = nreads + 1
  /\ rd' = (IF CachedAccessor /\ cache # 0 THEN [pc |-> "hit", val |-> cache, seen |-> {stored}]
                                           ELSE [pc |-> "miss", val |-> stored, seen |-> {stored}])
  /\ UNCHANGED <<vars, cache, reported>> /\ Act("ReadStart", "ok", -1)

(* L1Head() returns; a reader that missed stores what it read (a not-found is not stored) *)
ReadEnd ==
  /\ rd.pc # "idle"
  /\ cache' = (IF CachedAccessor /\ rd.pc = "miss" /\ rd.val # 0 THEN rd.val ELSE cache)
  /\ reported' = rd.val /\ rd' = Idle
  /\ UNCHANGED <<vars, nreads>> /\ Act("ReadEnd", "ok", -1)

(* what a call of the accessor entered now would return *)
AccessorView == IF CachedAccessor /\ cache # 0 THEN cache ELSE stored

(* every step of the node or the client, completed by its effect on the accessor side and by `act`
   (one named action per disjunct, so that TLC's coverage stays per action) *)
NodeTail == UNCHANGED accVars /\ Act("Node", "ok", -1)
ClientTail(a, o, f) == AccFollow /\ Act(a, o, f)
AMine(n)     == Mine(n) /\ NodeTail
AFinalise(h) == Finalise(h) /\ NodeTail
AReorg(k)    == Reorg(k) /\ NodeTail
APush        == Push /\ NodeTail
ASubFail     == SubFail /\ NodeTail
AChainID(o)  == ChainID(o = "ok") /\ ClientTail("ChainID", o, -1)
ALatest(o)   == Latest(o = "ok") /\ ClientTail("Latest", o, -1)
AFin0(o)     == Fin0(o = "ok") /\ ClientTail("Fin0", o, Rep(o))
AFilter(o)   == Filter(o = "ok") /\ ClientTail("Filter", o, -1)
AWatch(o)    == Watch(o = "ok") /\ ClientTail("Watch", o, -1)
ACatchFin(o, wok) == CatchFin(o, wok) /\ ClientTail("CatchFin", o, Rep(o))
ATickFin(o, wok)  == TickFin(o, wok) /\ ClientTail("TickFin", o, Rep(o))
AConsume      == Consume /\ ClientTail("Consume", "ok", -1)
AHandleSubErr == HandleSubErr /\ ClientTail("HandleSubErr", "ok", -1)
ATickStart    == TickStart /\ ClientTail("TickStart", "ok", -1)
ARestart      == Restart /\ ClientTail("Restart", "ok", -1)

Next == \/ \E n \in 0..MaxPerBlock : AMine(n)
        \/ \E h \in Heights : AFinalise(h)
        \/ \E k \in Heights : AReorg(k)
        \/ APush \/ ASubFail
        \/ \E o \in Outcomes : AChainID(o) \/ ALatest(o) \/ AFin0(o) \/ AFilter(o) \/ AWatch(o)
        \/ \E o \in Outcomes, wok \in BOOLEAN : ACatchFin(o, wok) \/ ATickFin(o, wok)
        \/ AConsume \/ AHandleSubErr \/ ATickStart
        \/ ARestart
        \/ ReadStart \/ ReadEnd
Spec == Init /\ [][Next]_allVars

----------------------------------------------------------------------------
(* Properties *)

TypeOK ==
  /\ top \in Heights /\ fin \in Heights /\ fin <= top /\ nEv \in 0..MaxEvents
  /\ pc \in {"chainid", "latest", "fin0", "filter", "catchfin", "watch", "loop", "tickfin", "stopped"}
  /\ wfails \in 0..MaxWriteFail /\ announced \in 0..MaxEvents
  /\ stored \in 0..MaxEvents /\ fails \in 0..MaxFail /\ reorgs \in 0..MaxReorgs /\ restarts \in 0..MaxRestarts
  /\ subPos <= top /\ delivered \subseteq 1..nEv /\ applied \subseteq delivered
  /\ cache \in 0..MaxEvents /\ nreads \in 0..MaxReads /\ reported \in 0..MaxEvents
  /\ rd.pc \in {"idle", "miss", "hit"} /\ rd.val \in 0..MaxEvents /\ rd.seen \subseteq 0..MaxEvents
  /\ ErrKinds \subseteq {"transport", "timeout", "notfound", "cancel"}

(* the best delivered (merged), not removed event at or below height f; 0 if there is none.
   Inside one block the later log wins. *)
Live(f) == {e \in applied \ removedSeen : l1of[e] <= f}
Best(S) == IF S = {} THEN 0
           ELSE CHOOSE e \in S : \A o \in S : l1of[o] < l1of[e] \/ (l1of[o] = l1of[e] /\ o <= e)

(* the recorded head is a delivered, finalised, still canonical state commit *)
StoredFinalisedCanonical ==
  stored # 0 => /\ stored \in applied
                /\ l1of[stored] <= fin
                /\ Canonical(stored)
                /\ stored \notin removedSeen

(* every setL1Head leaves exactly the best live merged event at or below the reported finalised
   height in the database *)
IsSetHeadStep == \/ pc = "tickfin" /\ pc' = "loop"
                 \/ pc = "catchfin" /\ pc' = "watch"
SetHeadExact == [][IsSetHeadStep => stored' = Best(Live(fin))]_vars

(* The conditional reading of the property under storage faults: whenever a setL1Head completes
   (FinalisedHeight answered) and the client is still running afterwards, the record is the best
   live merged event at or below the reported finalised height - whatever happened to the write.
   A client may stop on a failed write; it may not go on with a stale record. *)
IsSetHeadEnd == pc \in {"tickfin", "catchfin"} /\ pc' # pc /\ restarts' = restarts
RunningImpliesRecorded == [][(IsSetHeadEnd /\ pc' # "stopped") => stored' = Best(Live(fin))]_vars

(* the client stops only because a write of the head failed, and the record is then untouched *)
StopOnlyOnWriteFailure == [][(pc' = "stopped" /\ pc # "stopped") => (wfails' = wfails + 1 /\ stored' = stored)]_vars

(* what was announced on the L1-head feed is what is recorded (write first, announce second) *)
AnnouncedIsRecorded == announced = stored

(* not a property: its violation (L1_x_stop.cfg) shows that the stop after a failed write is reachable *)
NeverStopped == pc # "stopped"

(* ... and at all times it is at least as good as what was known at the last setL1Head: nothing
   but a setL1Head changes it *)
OnlySetHeadWrites == [][stored' # stored => IsSetHeadStep]_vars

(* a restart is a no-op on the recorded head *)
RestartIsNoOp == [][restarts' # restarts => stored' = stored]_vars

(* never regresses to an older Starknet block (nor to an older L1 block) *)
Monotone == [][(stored # 0 /\ stored' # stored) =>
                 /\ stored' # 0 /\ l2of[stored'] > l2of[stored] /\ l1of[stored'] >= l1of[stored]]_vars

(* buffer discipline the argument rests on: everything still buffered lies above every height a
   setL1Head has already consumed, and only merged, unremoved events are buffered *)
BufferSane ==
  \A h \in Heights : buffer[h] # 0 =>
     /\ l1of[buffer[h]] = h /\ buffer[h] \in applied \ removedSeen
     /\ (stored # 0 /\ restarts = 0) => h >= l1of[stored]   \* (a restarted client may re-read older commits)

(* canonical commits carry increasing Starknet block numbers (sanity of the node model) *)
ChainSane == \A a, b \in CanonicalEvents : a < b => l2of[a] < l2of[b] /\ l1of[a] <= l1of[b]

----------------------------------------------------------------------------
(* Properties of the accessor (the head the node reports) *)

IsReadEnd == rd.pc # "idle" /\ rd'.pc = "idle" /\ restarts' = restarts

(* a read returns a value the record held at some moment between its start and its end; so a read
   that starts after a SetL1Head has completed returns that head or a later one *)
ReportedIsRecorded == [][IsReadEnd => rd.val \in rd.seen]_allVars

(* completed reads never go back to an older Starknet block, nor from a head to none *)
NotOlder(a, b) == b = 0 \/ (a # 0 /\ l2of[a] >= l2of[b])
ReadsMonotone == [][IsReadEnd => NotOlder(rd.val, reported)]_allVars

(* with no read in flight the accessor would answer the record *)
AccessorIsRecord == rd.pc = "idle" => AccessorView = stored

(* not a property: its violation shows that a read overlapping a SetL1Head is reachable (vacuity guard) *)
NoOverlap == rd.pc = "idle" \/ Cardinality(rd.seen) = 1

(* Properties of the error kinds *)

IsFinAnswer == act'.a \in {"CatchFin", "TickFin"}
(* a failing FinalisedHeight answer inside setL1Head, of whatever kind, is retried: the client stays
   where it is, buffer, record and feed untouched *)
FailedFinIsRetried == [][(IsFinAnswer /\ act'.o # "ok") =>
                            (pc' = pc /\ stored' = stored /\ buffer' = buffer /\ announced' = announced)]_allVars
(* the head moves only at a FinalisedHeight answer in which the L1 node reported a finalised height,
   and never to an event above that height *)
HeadWithinReported == [][stored' # stored =>
                            (IsFinAnswer /\ act'.o = "ok" /\ l1of[stored'] <= act'.f)]_allVars

view == <<nodeVars, clientVars, histVars, accVars>>
=============================================================================

\* exhaustive: 4 L1 blocks, 3 events, 1 reorg, 1 failure, 1 failed write of the head record, 1 restart, chunk size in {1,2,10}
\* measured: 19 047 218 distinct / 77 731 804 generated states, depth 37 (6 min on 8 loaded workers;
\*           without write failures 17 338 704 / 71 368 433)
\* (4 blocks / 4 events: > 25 M distinct states without restarts - not affordable; larger bounds are sampled by trace validation)
CONSTANTS
  MaxBlocks = 4
  MaxEvents = 3
  MaxPerBlock = 2
  MaxReorgs = 1
  MaxRestarts = 1
  MaxFail = 1
  ChunkSizes = {1, 2, 10}
  MaxWriteFail = 1
  CatchUpWriteErrorFatal = TRUE
  SwallowWriteError = FALSE
  AnnounceBeforeWrite = FALSE
  MaxReads = 0
  CachedAccessor = FALSE
  ErrKinds = {"transport", "timeout", "notfound", "cancel"}
  NotFoundMeansLatest = FALSE
  FinalityAfterNotices = TRUE
INIT Init
NEXT Next
VIEW view
INVARIANTS TypeOK StoredFinalisedCanonical BufferSane ChainSane AnnouncedIsRecorded
PROPERTIES FailedFinIsRetried HeadWithinReported SetHeadExact RunningImpliesRecorded StopOnlyOnWriteFailure OnlySetHeadWrites Monotone RestartIsNoOp
CHECK_DEADLOCK FALSE

\* exhaustive: 4 L1 blocks, 3 events, 1 reorg, 1 failure, chunk size in {1,2,10}
\* measured: 7 533 372 distinct / 28 367 937 generated states (3 min on 8 workers)
\* (4 blocks / 4 events: > 25 M distinct states, 20 min - not affordable; larger bounds are sampled by trace validation)
CONSTANTS
  MaxBlocks = 4
  MaxEvents = 3
  MaxPerBlock = 2
  MaxReorgs = 1
  MaxRestarts = 1
  MaxFail = 1
  ChunkSizes = {1, 2, 10}
  FinalityAfterNotices = TRUE
INIT Init
NEXT Next
VIEW view
INVARIANTS TypeOK StoredFinalisedCanonical BufferSane ChainSane
PROPERTIES SetHeadExact OnlySetHeadWrites Monotone RestartIsNoOp
CHECK_DEADLOCK FALSE

\* the code BEFORE the repair: Run logs a failed write at the end of catch-up like any other catch-up error and goes on to the live subscription - must violate RunningImpliesRecorded
CONSTANTS
  MaxBlocks = 3
  MaxEvents = 3
  MaxPerBlock = 2
  MaxReorgs = 1
  MaxRestarts = 1
  MaxFail = 1
  ChunkSizes = {1, 2, 10}
  MaxWriteFail = 1
  CatchUpWriteErrorFatal = FALSE
  SwallowWriteError = FALSE
  AnnounceBeforeWrite = FALSE
  MaxReads = 0
  CachedAccessor = FALSE
  ErrKinds = {"transport", "timeout", "notfound", "cancel"}
  NotFoundMeansLatest = FALSE
  FinalityAfterNotices = TRUE
INIT Init
NEXT Next
VIEW view
INVARIANTS TypeOK StoredFinalisedCanonical ChainSane AnnouncedIsRecorded
PROPERTIES RunningImpliesRecorded
CHECK_DEADLOCK FALSE

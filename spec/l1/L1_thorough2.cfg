\* exhaustive: 3 L1 blocks, 3 events, 2 reorgs, 2 failures, 1 failed write of the head record (the client then stays stopped), no restart, chunk size in {1,2,10}
\* measured: 10 854 603 distinct / 41 291 840 generated states, depth 35 (3.5 min on 8 loaded workers)
CONSTANTS
  MaxBlocks = 3
  MaxEvents = 3
  MaxPerBlock = 2
  MaxReorgs = 2
  MaxRestarts = 0
  MaxFail = 2
  ChunkSizes = {1, 2, 10}
  MaxWriteFail = 1
  CatchUpWriteErrorFatal = TRUE
  SwallowWriteError = FALSE
  AnnounceBeforeWrite = FALSE
  MaxReads = 0
  CachedAccessor = FALSE
  ErrKinds = {"transport", "timeout", "notfound", "cancel"}
  NotFoundMeansLatest = FALSE
  FinalityAfterNotices = TRUE
INIT Init
NEXT Next
VIEW view
INVARIANTS TypeOK StoredFinalisedCanonical BufferSane ChainSane AnnouncedIsRecorded
PROPERTIES FailedFinIsRetried HeadWithinReported SetHeadExact RunningImpliesRecorded StopOnlyOnWriteFailure OnlySetHeadWrites Monotone RestartIsNoOp
CHECK_DEADLOCK FALSE

\* MUTANT: setL1Head on the tick path swallows a failed write of the head (log + return nil): a running client with a stale record - must violate RunningImpliesRecorded
CONSTANTS
  MaxBlocks = 3
  MaxEvents = 3
  MaxPerBlock = 2
  MaxReorgs = 1
  MaxRestarts = 1
  MaxFail = 1
  ChunkSizes = {1, 2, 10}
  MaxWriteFail = 1
  CatchUpWriteErrorFatal = TRUE
  SwallowWriteError = TRUE
  AnnounceBeforeWrite = FALSE
  FinalityAfterNotices = TRUE
INIT Init
NEXT Next
VIEW view
INVARIANTS TypeOK StoredFinalisedCanonical ChainSane AnnouncedIsRecorded
PROPERTIES RunningImpliesRecorded
CHECK_DEADLOCK FALSE

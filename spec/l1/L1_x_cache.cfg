\* MUTANT: Blockchain.L1Head() served from an in-memory copy that a reader fills check-then-act - must violate ReportedIsRecorded
CONSTANTS
  MaxBlocks = 3
  MaxEvents = 2
  MaxPerBlock = 2
  MaxReorgs = 0
  MaxRestarts = 1
  MaxFail = 0
  ChunkSizes = {2, 10}
  MaxWriteFail = 0
  CatchUpWriteErrorFatal = TRUE
  SwallowWriteError = FALSE
  AnnounceBeforeWrite = FALSE
  MaxReads = 3
  CachedAccessor = TRUE
  ErrKinds = {"transport", "timeout", "notfound", "cancel"}
  NotFoundMeansLatest = FALSE
  FinalityAfterNotices = TRUE
INIT Init
NEXT Next
VIEW view
INVARIANTS TypeOK StoredFinalisedCanonical
PROPERTIES ReportedIsRecorded
CHECK_DEADLOCK FALSE

------------------------------ MODULE L1Trace ------------------------------
(* Trace validation of the real l1.Client against L1.tla.

   trace.ndjson holds MANY runs, each introduced by a Reset event.  Every line is
   {"ev": name, "x": int, "y": int, "q": int, "w": int, "k": string}.

   Who logs what (harness/engines/l1): the scripted L1 provider is gated - every call of the client
   blocks until the scheduler answers it - and the scheduler acts only while the client is blocked.
   So the log order is the real order:
     Call*   the client entered a provider method (q = len(update channel) at that moment, -1 while
             the channel does not exist yet)
     Mine / Finalise / Reorg / Push / SubFail   what the scripted L1 node did meanwhile
     Restart the harness stopped the client and started a new one - with a NEW Blockchain object - on
             the same database
     Read    Blockchain.L1Head() called and returned by the harness while the client is blocked or
             stopped (x = event id, 0 none): a read that overlaps nothing
     ReadStart / ReadEnd   a call of Blockchain.L1Head() by a reader goroutine that OVERLAPS the client's
             SetL1Head: the store under the Blockchain holds the reader's Get of the L1-head key after
             it has completed and before it returns.  ReadStart is logged when the reader is parked
             there (x = the head its Get found; the client is blocked in FinalisedHeight), the
             scheduler then answers the call, the client runs its setL1Head, and when it is blocked
             in its next call the reader is released: ReadEnd (x = what L1Head() returned)
     Ret*    the scheduler's answer (x = 1 ok / 0 error, k = kind of the error: "transport", "timeout",
             "notfound" (eth.ErrNotFound), "cancel"; y = value; RetFin: w = 1 when the store
             under the Blockchain was armed to fail the next Put of the L1-head record)
     WriteFail  logged by the store wrapper at the Put it failed (x = event id of the head that was
             to be written)
     Stopped Client.Run returned by itself (x = 1 with an error, 0 without); the harness then reads
             the head and starts a new client (Restart)
     NewHead EventListener.OnNewL1Head (x = event id)
     Feed    a head taken from a subscription of the Blockchain's L1-head feed (x = event id); the
             harness drains the subscription every time the client is blocked or has stopped, and
             the client performs at most one SetL1Head between two provider calls, so the feed is
             observed without loss and in order
   The one thing that cannot be observed is WHEN the select loop takes an update from the channel:
   Consume is a silent step here, allowed only while no call is pending, and the q field of the
   next Call pins how many were taken.  A head that was persisted must be announced (NewHead)
   and seen on the feed (Feed) before the client's next call; a failed write must have been
   observed (WriteFail) before the client's next call or its stop, and is neither announced nor
   sent on the feed. *)
EXTENDS L1, Json

Trace == ndJsonDeserialize("trace.ndjson")

VARIABLES l,        \* index of the next trace line
          pend,     \* the provider call the client is blocked in ("-" none)
          announce, \* head persisted by the last setL1Head and not yet announced (0 none)
          fpend,    \* head persisted by the last setL1Head and not yet seen on the feed (0 none)
          wpend     \* head whose write the last setL1Head was to fail, failure not yet observed (0 none)

tvars == <<vars, accVars, l, pend, announce, fpend, wpend>>
NoOblig == announce = 0 /\ fpend = 0 /\ wpend = 0
NoOblig_ == announce' = 0 /\ fpend' = 0 /\ wpend' = 0

HW == 7   \* TLC register: high-water mark of l

Ev_ == Trace[l]
IsEvent(name) == l <= Len(Trace) /\ Ev_.ev = name
Adv == l' = l + 1

TraceInit == Init /\ l = 1 /\ pend = "-" /\ NoOblig /\ TLCSet(HW, 1)

(* a new run: everything back to the initial state, with this run's chunk size *)
TraceReset ==
  /\ IsEvent("Reset") /\ Adv /\ pend' = "-" /\ NoOblig_
  /\ blocks' = [h \in 1..MaxBlocks |-> <<>>] /\ top' = 0 /\ fin' = 0 /\ nEv' = 0
  /\ l1of' = [e \in Ev |-> 0] /\ l2of' = [e \in Ev |-> 0]
  /\ reorgs' = 0 /\ subUp' = FALSE /\ subPos' = 0 /\ subErr' = FALSE /\ chan' = <<>> /\ delivered' = {}
  /\ pc' = "chainid" /\ chunk' = Ev_.x /\ cFin' = 0 /\ cTo' = 0 /\ cFound' = FALSE
  /\ buffer' = [h \in Heights |-> 0] /\ stored' = 0 /\ fails' = 0 /\ wfails' = 0 /\ restarts' = 0
  /\ applied' = {} /\ removedSeen' = {} /\ announced' = 0
  /\ cache' = 0 /\ rd' = Idle /\ nreads' = 0 /\ reported' = 0

Keep == pend' = pend /\ UNCHANGED <<announce, fpend, wpend>>

(* ---- the scripted L1 node ---- *)
TraceMine     == IsEvent("Mine") /\ Adv /\ Keep /\ Mine(Ev_.x)
TraceFinalise == IsEvent("Finalise") /\ Adv /\ Keep /\ Finalise(Ev_.x)
TraceReorg    == IsEvent("Reorg") /\ Adv /\ Keep /\ Reorg(Ev_.x)
TracePush     == IsEvent("Push") /\ Adv /\ Keep /\ Push
TraceSubFail  == IsEvent("SubFail") /\ Adv /\ Keep /\ SubFail

(* the harness stopped the client (context cancelled while it was blocked in a call, Run returned)
   and started a NEW client on the same database *)
TraceRestart  == IsEvent("Restart") /\ Adv /\ pend' = "-" /\ NoOblig /\ NoOblig_ /\ Restart

(* ---- the client enters a provider method ---- *)
Enter(m) == pend = "-" /\ NoOblig /\ pend' = m /\ NoOblig_ /\ Adv
QOK == Ev_.q >= 0 => Len(chan') = Ev_.q

TraceCallChainID == IsEvent("CallChainID") /\ Enter("ChainID") /\ pc = "chainid" /\ UNCHANGED vars
TraceCallLatest  == IsEvent("CallLatest") /\ Enter("Latest") /\ pc = "latest" /\ UNCHANGED vars
TraceCallFilter  == /\ IsEvent("CallFilter") /\ Enter("Filter") /\ pc = "filter"
                    /\ Ev_.x = ChunkFrom /\ Ev_.y = cTo /\ UNCHANGED vars
TraceCallFin ==
  /\ IsEvent("CallFin") /\ Enter("Fin")
  /\ \/ pc \in {"fin0", "catchfin", "tickfin"} /\ UNCHANGED vars
     \/ TickStart                                   \* case <-ticker.C
  /\ QOK
TraceCallWatch ==
  /\ IsEvent("CallWatch") /\ Enter("Watch")
  /\ \/ pc = "watch" /\ UNCHANGED vars
     \/ HandleSubErr                                \* case err := <-sub.Err()
  /\ QOK

(* ---- the scheduler answers ---- *)
Leave(m) == pend = m /\ pend' = "-" /\ Adv
Ok == Ev_.x = 1
Out == IF Ok THEN "ok" ELSE Ev_.k            \* the outcome kind of the answer
KindOK == Out \in Outcomes

TraceRetChainID == IsEvent("RetChainID") /\ Leave("ChainID") /\ KindOK /\ ChainID(Ok) /\ NoOblig_
TraceRetLatest  == IsEvent("RetLatest") /\ Leave("Latest") /\ KindOK /\ Latest(Ok) /\ (Ok => Ev_.y = top) /\ NoOblig_
TraceRetFilter  == /\ IsEvent("RetFilter") /\ Leave("Filter") /\ KindOK
                   /\ Ok => Ev_.y = Cardinality(EventsOf(ChunkFrom, cTo))
                   /\ Filter(Ok) /\ NoOblig_
TraceRetFin ==
  /\ IsEvent("RetFin") /\ Leave("Fin") /\ KindOK /\ (Ok => Ev_.y = fin)
  /\ \/ pc = "fin0" /\ Fin0(Ok) /\ NoOblig_
     \/ /\ pc \in {"catchfin", "tickfin"}
        /\ LET writes == Ok /\ Cand(fin) # {}            \* this setL1Head reaches Blockchain.SetL1Head
               wok == ~writes \/ Ev_.w = 0               \* an armed store fails the Put, if there is one
               head == IF writes THEN HeadOf(fin) ELSE 0 IN
           /\ (CatchFin(Out, wok) \/ TickFin(Out, wok))
           /\ announce' = (IF wok THEN head ELSE 0)
           /\ fpend' = (IF wok THEN head ELSE 0)
           /\ wpend' = (IF wok THEN 0 ELSE head)
TraceRetWatch == IsEvent("RetWatch") /\ Leave("Watch") /\ KindOK /\ Watch(Ok) /\ NoOblig_

(* ---- observations of the client's effects ---- *)
TraceNewHead == /\ IsEvent("NewHead") /\ Adv /\ pend' = pend
                /\ announce # 0 /\ Ev_.x = announce /\ announce' = 0 /\ UNCHANGED <<vars, fpend, wpend>>
(* the feed: sent inside Blockchain.SetL1Head after the write; the harness takes it from its
   subscription at the next point where the client is blocked or stopped, hence after NewHead *)
TraceFeed    == /\ IsEvent("Feed") /\ Adv /\ pend' = pend
                /\ fpend # 0 /\ Ev_.x = fpend /\ fpend' = 0 /\ announce = 0 /\ UNCHANGED <<vars, announce, wpend>>
TraceWriteFail == /\ IsEvent("WriteFail") /\ Adv /\ pend' = pend
                  /\ wpend # 0 /\ Ev_.x = wpend /\ wpend' = 0 /\ UNCHANGED <<vars, announce, fpend>>
(* Run returned by itself: only the stop after a failed write is a behaviour of the specification *)
TraceStopped == IsEvent("Stopped") /\ Adv /\ Keep /\ pend = "-" /\ NoOblig /\ pc = "stopped" /\ UNCHANGED vars
(* the head is read while the client is blocked in a call or has stopped *)
TraceRead    == IsEvent("Read") /\ Adv /\ Keep /\ (pend # "-" \/ pc = "stopped") /\ Ev_.x = stored /\ UNCHANGED vars
(* ... which is ReadStart ; ReadEnd with nothing in between (no read of a reader goroutine is in flight
   when the harness reads): the accessor side of that pair of steps *)
ReadAtOnce == rd.pc = "idle" /\ Ev_.x = AccessorView /\ reported' = Ev_.x /\ nreads' = nreads + 1
              /\ UNCHANGED <<cache, rd>>
(* a read of a reader goroutine that overlaps the client's setL1Head *)
TraceReadStart == /\ IsEvent("ReadStart") /\ Adv /\ Keep /\ pend # "-"
                  /\ ReadStart /\ Ev_.x = rd'.val
TraceReadEnd   == /\ IsEvent("ReadEnd") /\ Adv /\ Keep /\ (pend # "-" \/ pc = "stopped")
                  /\ ReadEnd /\ Ev_.x = rd.val /\ rd.val \in rd.seen /\ NotOlder(rd.val, reported)

(* ---- the unobservable step ---- *)
TraceConsume == pend = "-" /\ Consume /\ l' = l /\ Keep

TraceNext ==
  \/ TraceReset /\ UNCHANGED act
  \/ /\ \/ TraceMine \/ TraceFinalise \/ TraceReorg \/ TracePush \/ TraceSubFail \/ TraceRestart
        \/ TraceCallChainID \/ TraceCallLatest \/ TraceCallFilter \/ TraceCallFin \/ TraceCallWatch
        \/ TraceRetChainID \/ TraceRetLatest \/ TraceRetFilter \/ TraceRetFin \/ TraceRetWatch
        \/ TraceNewHead \/ TraceFeed \/ TraceWriteFail \/ TraceStopped
        \/ TraceConsume
     /\ AccFollow /\ UNCHANGED act
  \/ TraceRead /\ ReadAtOnce /\ UNCHANGED act
  \/ TraceReadStart \/ TraceReadEnd

(* acceptance: some behaviour of L1 (with silent Consumes) matches the whole file *)
TraceProgress == (l > TLCGet(HW) => TLCSet(HW, l)) /\ TRUE
TraceAccepted ==
  IF TLCGet(HW) = Len(Trace) + 1 THEN TRUE
  ELSE Print(<<"TRACE-REJECTED-AT", TLCGet(HW)>>, FALSE)

traceview == <<vars, accVars, l, pend, announce, fpend, wpend>>
=============================================================================

\* the accessor dimension with reorgs (thorough tier): 2 reads overlapping the client, 3 L1 blocks, 3 events, 1 reorg, no call failure, 1 failed write, 1 restart, chunk size in {2,10}
\* measured: 5 121 032 distinct / 20 302 138 generated states (with 1 call failure and chunk {1,2,10}: 23 087 978 / 112 650 752 - not affordable)
CONSTANTS
  MaxBlocks = 3
  MaxEvents = 3
  MaxPerBlock = 2
  MaxReorgs = 1
  MaxRestarts = 1
  MaxFail = 0
  ChunkSizes = {2, 10}
  MaxWriteFail = 1
  CatchUpWriteErrorFatal = TRUE
  SwallowWriteError = FALSE
  AnnounceBeforeWrite = FALSE
  MaxReads = 2
  CachedAccessor = FALSE
  ErrKinds = {"transport", "timeout", "notfound", "cancel"}
  NotFoundMeansLatest = FALSE
  FinalityAfterNotices = TRUE
INIT Init
NEXT Next
VIEW view
INVARIANTS TypeOK StoredFinalisedCanonical AccessorIsRecord AnnouncedIsRecorded
PROPERTIES ReportedIsRecorded ReadsMonotone SetHeadExact RunningImpliesRecorded OnlySetHeadWrites Monotone RestartIsNoOp
CHECK_DEADLOCK FALSE

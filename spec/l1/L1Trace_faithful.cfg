\* trace validation against the code BEFORE the repair of the catch-up write-error handling (known finding listed as "known")
CONSTANTS
  MaxBlocks = 10
  MaxEvents = 10
  MaxPerBlock = 2
  MaxReorgs = 3
  MaxRestarts = 3
  MaxFail = 4
  ChunkSizes = {1, 2, 3, 10}
  MaxWriteFail = 2
  CatchUpWriteErrorFatal = FALSE
  SwallowWriteError = FALSE
  AnnounceBeforeWrite = FALSE
  MaxReads = 1000000
  CachedAccessor = FALSE
  ErrKinds = {"transport", "timeout", "notfound", "cancel"}
  NotFoundMeansLatest = FALSE
  FinalityAfterNotices = TRUE
INIT TraceInit
NEXT TraceNext
VIEW traceview
CONSTRAINT TraceProgress
INVARIANTS TypeOK StoredFinalisedCanonical BufferSane ChainSane AnnouncedIsRecorded AccessorIsRecord
POSTCONDITION TraceAccepted
CHECK_DEADLOCK FALSE

\* reachability (vacuity guard, thorough tier): a failed write of the head does stop the client - must violate NeverStopped
CONSTANTS
  MaxBlocks = 3
  MaxEvents = 3
  MaxPerBlock = 2
  MaxReorgs = 1
  MaxRestarts = 1
  MaxFail = 1
  ChunkSizes = {1, 2, 10}
  MaxWriteFail = 1
  CatchUpWriteErrorFatal = TRUE
  SwallowWriteError = FALSE
  AnnounceBeforeWrite = FALSE
  FinalityAfterNotices = TRUE
INIT Init
NEXT Next
VIEW view
INVARIANTS NeverStopped
CHECK_DEADLOCK FALSE

\* no timing assumption on the node: TLC exhibits the persisted removed commit (expected violation)
CONSTANTS
  MaxBlocks = 3
  MaxEvents = 3
  MaxPerBlock = 2
  MaxReorgs = 1
  MaxRestarts = 1
  MaxFail = 1
  ChunkSizes = {1, 2, 10}
  MaxWriteFail = 0
  CatchUpWriteErrorFatal = TRUE
  SwallowWriteError = FALSE
  AnnounceBeforeWrite = FALSE
  MaxReads = 0
  CachedAccessor = FALSE
  ErrKinds = {"transport", "timeout", "notfound", "cancel"}
  NotFoundMeansLatest = FALSE
  FinalityAfterNotices = FALSE
INIT Init
NEXT Next
VIEW view
INVARIANTS StoredFinalisedCanonical

CHECK_DEADLOCK FALSE

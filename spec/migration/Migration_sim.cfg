\* behaviour generation (tlc -simulate), repaired design: the registry shape of node/migration.go
\* (M, O, O, M), older binary of length 3, three state tokens incl. the empty one, 2 units of work
CONSTANTS
  N = 4
  Optional = {2, 3}
  RegLens = {3, 4}
  States = {"s1", "s2", "e"}
  W = 2
  MaxStarts = 6
  MaxFaults = 4
  AllowYield = TRUE
  FixH7 = TRUE
  FixH19 = TRUE
INIT MBTInit
NEXT MBTNext
CHECK_DEADLOCK FALSE

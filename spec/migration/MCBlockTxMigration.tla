--------------------------- MODULE MCBlockTxMigration ---------------------------
(* Model-checking instance of BlockTxMigration; all constants are plain values set in the .cfg. *)
EXTENDS BlockTxMigration
=============================================================================

------------------------------- MODULE MCMigration -------------------------------
(* Model-checking instance of Migration: the constants are plain sets / numbers and live in the
   .cfg files; this module exists so that every config names the same root module. *)
EXTENDS Migration
=============================================================================

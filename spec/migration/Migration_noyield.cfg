\* runner, repaired design, unfinished Migrate never yields without cancellation: StrictOrder is non-trivial, exhaustive: registry (M, O, M), older binary of length 2,
\* one state token, one unit of work, 3 process starts, 2 injected store faults
CONSTANTS
  N = 3
  Optional = {2}
  RegLens = {2, 3}
  States = {"s1"}
  W = 1
  MaxStarts = 3
  MaxFaults = 2
  AllowYield = FALSE
  FixH7 = TRUE
  FixH19 = TRUE
INIT Init
NEXT Next
VIEW view
INVARIANTS TypeOK AppliedImpliesComplete AppliedWithinLastTarget InOrderOnce StrictOrder RunOkMeansFinal InterOnlyForUnapplied
PROPERTIES AppliedOnlyByCommitAfterNilNil AppliedMonotone NeverRerunApplied AdmittedCoversApplied AdmittedCoversOptIns AdmittedKnowsLastTarget RefusedTouchesNothing WorkMonotone
CHECK_DEADLOCK FALSE

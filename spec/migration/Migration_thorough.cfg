\* runner, repaired design, exhaustive, thorough tier: registry (M, O, O, M) as in node/migration.go,
\* older binary of length 3, two state tokens, 4 process starts, 3 injected store faults
CONSTANTS
  N = 4
  Optional = {2, 3}
  RegLens = {3, 4}
  States = {"s1", "e"}
  W = 1
  MaxStarts = 4
  MaxFaults = 3
  AllowYield = TRUE
  FixH7 = TRUE
  FixH19 = TRUE
INIT Init
NEXT Next
VIEW view
INVARIANTS TypeOK AppliedImpliesComplete AppliedWithinLastTarget InOrderOnce StrictOrder RunOkMeansFinal InterOnlyForUnapplied
PROPERTIES AppliedOnlyByCommitAfterNilNil AppliedMonotone NeverRerunApplied AdmittedCoversApplied AdmittedCoversOptIns AdmittedKnowsLastTarget RefusedTouchesNothing WorkMonotone
CHECK_DEADLOCK FALSE

\* block-transactions migration, repaired design (FixH15, FixH20), exhaustive: 6 blocks with 0..2
\* transactions in EVERY placement (729 initial states), ranges of 2, 2 ingestors, <= 2 crashes, <= 1 cancellation,
\* batches may be handed over early
CONSTANTS
  NBlocks = 6
  R = 2
  I = 2
  MaxTx = 2
  MaxCrashes = 2
  MaxCancels = 1
  EarlyFlush = TRUE
  FixH15 = TRUE
  FixH20 = TRUE
INIT Init
NEXT Next
VIEW view
INVARIANTS TypeOK Preserved NeverLost OnlyOriginal
PROPERTIES BlobStable AppliedStable
CHECK_DEADLOCK FALSE

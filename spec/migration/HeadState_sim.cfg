\* behaviour generation (tlc -simulate): the C03 alphabet without CASM migration: 3 user contracts,
\* both system contracts, 3 slots, values 0..3, one Cairo-0 and two Sierra classes, protocol versions
\* on both sides of 0.14.0, 2..4 blocks before and 5 after the upgrade
CONSTANTS
  Users = {"c1", "c2", "c3"}
  Sys = {"sys1", "sys2"}
  Slots = {"s1", "s2", "s3"}
  MaxV = 3
  Cairo0 = {"k0"}
  Sierra = {"k1", "k2"}
  MaxPre = 4
  MaxPost = 5
  MaxOps = 0
  Vers = {0, 1}
  MaxCrashes = 0
  LazyBackfill = TRUE
  SimMaxOps = 6
INIT MBTInit
NEXT MBTNext
INVARIANTS RootIsCommitment HeadReads RecRootZeroOrAccurate
CHECK_DEADLOCK FALSE

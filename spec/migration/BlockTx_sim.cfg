\* behaviour generation (tlc -simulate), repaired design, the constants of the code: ranges of 10,
\* 4 ingestors, no early hand-over (batches of a few KB never reach 96 MB); 35 blocks = 4 ranges
CONSTANTS
  NBlocks = 35
  R = 10
  I = 4
  MaxTx = 3
  MaxCrashes = 2
  MaxCancels = 1
  EarlyFlush = FALSE
  FixH15 = TRUE
  FixH20 = TRUE
INIT MBTInit
NEXT MBTNext
CHECK_DEADLOCK FALSE

\* block-transactions migration, repaired design (FixH15, FixH20), exhaustive, thorough tier: 8 blocks with 0..2
\* transactions in EVERY placement (6561 initial states), ranges of 2, 2 ingestors, <= 3 crashes,
\* batches may be handed over early
CONSTANTS
  NBlocks = 8
  R = 2
  I = 2
  MaxTx = 2
  MaxCrashes = 3
  EarlyFlush = TRUE
  FixH15 = TRUE
  FixH20 = TRUE
INIT Init
NEXT Next
VIEW view
INVARIANTS TypeOK Preserved NeverLost OnlyOriginal
PROPERTIES BlobStable AppliedStable
CHECK_DEADLOCK FALSE

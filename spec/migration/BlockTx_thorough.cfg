\* block-transactions migration, repaired design (FixH15, FixH20), exhaustive, thorough tier: 8 blocks,
\* each empty or not in EVERY placement (256 initial states), ranges of 2 (4 ranges), 2 ingestors,
\* <= 3 crashes, <= 1 cancellation, batches may be handed over early
CONSTANTS
  NBlocks = 8
  R = 2
  I = 2
  MaxTx = 1
  MaxCrashes = 3
  MaxCancels = 1
  EarlyFlush = TRUE
  FixH15 = TRUE
  FixH20 = TRUE
INIT Init
NEXT Next
VIEW view
INVARIANTS TypeOK Preserved NeverLost OnlyOriginal
PROPERTIES BlobStable AppliedStable
CHECK_DEADLOCK FALSE

--------------------------- MODULE BlockTxMigrationMBT ---------------------------
(* Behaviour generation for the gated replay of the block-transactions migration: a behaviour is a
   random chain shape (orig; with whole empty ranges and leading empty blocks) plus a schedule of the
   ingestors with crashes, up to the moment the migration is recorded as applied.  It is printed as
   one JSON object and the machine is re-initialised with a new shape. *)
EXTENDS MCBlockTxMigration, Json

VARIABLE hist
mbtvars == <<vars, hist>>

R1(S) == {RandomElement(S)}

(* a chain shape: up to two whole ranges are empty, sometimes a run of leading blocks is empty
   (e1, e2, k are bound by the caller so that they are drawn once, not once per block) *)
NR == (NBlocks - 1) \div R
Shape(e1, e2, k) ==
  LET lead == IF k = 1 THEN R + 2 ELSE IF k = 2 THEN R + 7 ELSE IF k = 3 THEN 5 ELSE 0 IN
  [b \in Blocks |-> IF (b \div R) \in {e1, e2} \/ b < lead THEN 0 ELSE RandomElement(0..MaxTx)]

Fresh(o) ==
  /\ orig' = o /\ old' = o
  /\ blob' = [b \in Blocks |-> NoBlob]
  /\ applied' = FALSE /\ phase' = "down" /\ next' = 0
  /\ held' = Idle /\ batch' = NoBatches /\ crashes' = 0
  /\ cancelled' = FALSE /\ cancels' = 0
  /\ act' = [name |-> "Init"]

Reset == \E e1 \in R1(0..(3 * NR)), e2 \in R1(0..(3 * NR)), k \in R1(1..8) : Fresh(Shape(e1, e2, k))

MBTInit ==
  /\ \E e1 \in R1(0..(3 * NR)), e2 \in R1(0..(3 * NR)), k \in R1(1..8) : orig = Shape(e1, e2, k)
  /\ old = orig
  /\ blob = [b \in Blocks |-> NoBlob]
  /\ applied = FALSE /\ phase = "down" /\ next = 0
  /\ held = Idle /\ batch = NoBatches /\ crashes = 0
  /\ cancelled = FALSE /\ cancels = 0
  /\ act = [name |-> "Init"]
  /\ hist = <<>>

SimNext ==
  CASE phase = "down" -> Begin
    [] held = Idle -> RoundEnd
    [] OTHER ->
         \E r \in R1(1..7) :
           IF r = 1 /\ crashes < MaxCrashes THEN Crash
           ELSE IF r = 2 /\ ~cancelled /\ cancels < MaxCancels THEN Cancel
           ELSE \E i \in R1({j \in Ing : held[j] # NoRange}) : Finish(i, FALSE)

Seq0(f) == [k \in 1..NBlocks |-> f[k - 1]]
Step == SimNext /\ hist' = Append(hist, [a |-> act', old |-> Seq0(old'), blob |-> Seq0(blob'),
                                           applied |-> applied', held |-> held'])

Emit ==
  /\ PrintT(ToJson([orig |-> Seq0(orig), steps |-> hist]))
  /\ Reset /\ hist' = <<>>

MBTNext == IF applied THEN Emit ELSE Step
=============================================================================

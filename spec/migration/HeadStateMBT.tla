------------------------------- MODULE HeadStateMBT -------------------------------
(* Behaviour generation for the head-state replayer (engines/headstate): a chain of random valid
   blocks applied by the new state, the records put back into the legacy layout, the migration
   (as ONE step: its result is the function `Migrated` of the old database whatever the batches,
   order and crashes - that is invariant Resumable, checked exhaustively; the crash points the
   binding injects are drawn here), then blocks on the migrated database.  Each step records the
   ground truth, the new-layout records (incl. which storage map the persisted root commits to)
   and the declared classes after the step.  One JSON line per behaviour, then reset. *)
EXTENDS MCHeadState, Json

CONSTANTS SimMaxOps
VARIABLES hist, hver
mbtvars == <<vars, hist, hver>>

One(x) == {x}
Kinds == {"decl", "dep", "rep", "nonce", "stor"}

RECURSIVE Grow(_, _)
Grow(d, k) ==
  IF k = 0 THEN d
  ELSE LET cand(kk) == {o \in AllOps : o.k = kk /\ o \notin d /\ Valid(truth, decl, d \cup {o})}
           kinds == {kk \in Kinds : cand(kk) # {}}
       IN IF kinds = {} THEN d
          ELSE LET kk == RandomElement(kinds) IN Grow(d \cup {RandomElement(cand(kk))}, k - 1)

(* on the migrated database small diffs matter most: the FIRST touch of a migrated contract by one
   single kind of entry *)
SimBlock ==
  \E ver \in One(IF 1 \notin Vers THEN 0 ELSE IF hver = 1 \/ 0 \notin Vers \/ RandomElement(1..4) = 1 THEN 1 ELSE 0) :
  \E n \in One(IF phase = "post" /\ RandomElement(1..2) = 1 THEN RandomElement(0..2) ELSE RandomElement(0..SimMaxOps)) :
  \E d \in One(Grow({}, n)) :
    Block(d, ver) /\ hver' = ver

MigrateAll(ks) ==
  /\ phase = "old"
  /\ rec' = [a \in AllC |-> IF leg[a].cls = None THEN NoRec
                            ELSE [cls |-> leg[a].cls, nonce |-> IF leg[a].nonce = -1 THEN 0 ELSE leg[a].nonce,
                                  dh |-> leg[a].dh, sr |-> ZeroStor]]
  /\ leg' = [a \in AllC |-> NoLeg]
  /\ phase' = "post" /\ applied' = TRUE
  /\ act' = [name |-> "Migrate", crashes |-> ks]
  /\ UNCHANGED <<truth, height, leaf, decl, done, crashes, snap, preH, hver>>

SimNext ==
  CASE phase = "pre" ->
         \E r \in One(RandomElement(1..3)) :
           IF height < MaxPre /\ (height < 2 \/ r # 1) THEN SimBlock
           ELSE \E z \in One(RandomElement(BOOLEAN)) : Downgrade(z) /\ UNCHANGED hver
    [] phase = "old" ->
         \E k1 \in One(RandomElement(0..60)), k2 \in One(RandomElement(0..60)), n \in One(RandomElement(0..2)) :
           MigrateAll(IF n = 0 THEN <<>> ELSE IF n = 1 THEN <<k1>> ELSE <<k1, k2>>)
    [] OTHER ->
         \E r \in One(RandomElement(1..5)) :
           IF r = 1 /\ act.name # "Restart" THEN \E g \in One(RandomElement(BOOLEAN)) : Restart(g) /\ UNCHANGED hver
           ELSE SimBlock

Proj == [truth |-> truth', rec |-> rec', decl |-> decl', height |-> height']
Step == SimNext /\ hist' = Append(hist, [a |-> act'] @@ Proj)

Finished == phase = "post" /\ height >= preH + MaxPost

Emit ==
  /\ PrintT(ToJson(hist))
  /\ truth' = [a \in AllC |-> NoCon] /\ height' = 0 /\ decl' = {}
  /\ leaf' = [a \in AllC |-> NoLeaf] /\ rec' = [a \in AllC |-> NoRec] /\ leg' = [a \in AllC |-> NoLeg]
  /\ phase' = "pre" /\ done' = {} /\ applied' = FALSE /\ crashes' = 0
  /\ snap' = rec' /\ preH' = 0 /\ act' = [name |-> "Init"]
  /\ hist' = <<>> /\ hver' = 0

MBTInit == Init /\ hist = <<>> /\ hver = 0
MBTNext == IF Finished THEN Emit ELSE Step
=============================================================================

\* head-state migration + new state on the migrated database, the code as it is (LazyBackfill),
\* exhaustive: 2 user contracts, 1 system contract, 1 slot, values 0..1, one Cairo-0 and one Sierra
\* class, 2 blocks before and 2 after the upgrade with <= 2 entries each, <= 1 crash
CONSTANTS
  Users = {"c1", "c2"}
  Sys = {"sys1"}
  Slots = {"s1"}
  MaxV = 1
  Cairo0 = {"k0"}
  Sierra = {"k1"}
  MaxPre = 2
  MaxPost = 2
  MaxOps = 2
  Vers = {0}
  MaxCrashes = 1
  LazyBackfill = TRUE
INIT Init
NEXT Next
VIEW view
INVARIANTS TypeOK RootIsCommitment HeadReads RecRootZeroOrAccurate OneLayout Resumable NeverLost
PROPERTIES RestartIsNoOp
CHECK_DEADLOCK FALSE

\* runner AS THE CODE IS (FixH19 = FALSE): TLC must find AdmittedKnowsLastTarget violated, exhaustive: registry (M, O, M), older binary of length 2,
\* one state token, one unit of work, 3 process starts, 2 injected store faults
CONSTANTS
  N = 3
  Optional = {2}
  RegLens = {2, 3}
  States = {"s1"}
  W = 1
  MaxStarts = 3
  MaxFaults = 2
  AllowYield = TRUE
  FixH7 = TRUE
  FixH19 = FALSE
INIT Init
NEXT Next
VIEW view
INVARIANTS TypeOK
PROPERTIES AdmittedKnowsLastTarget
CHECK_DEADLOCK FALSE

------------------------------- MODULE Migration -------------------------------
(* The schema-migration runner of juno (migration/runner.go, registry.go, version.go, metadata.go)
   transcribed at the granularity of its durable mutations and of the calls it makes into a
   Migration (Before / Migrate).  Property C18, runner half.

   Durable state (the database):
     meta    = [applied : SUBSET Idx, lastTarget : SUBSET Idx]      bucket SchemaMetadata
     inter   = [Idx -> States \cup {Nil}]                           bucket SchemaIntermediateState
     work    = [Idx -> 0..W]       the data a migration has converted so far (written by Migrate itself)
   One process at a time (pc = "down": no process).  A process is
     NewRunner (Start: reads meta once into rmeta, validates opt-out / downgrade)
     Run = WriteLastTarget ; for idx in (target \ rmeta.applied) ascending:
              [ctx check] ; Before(inter[idx]) ; Migrate -> (st, e)
              e is a real error                         -> Run returns it
              st # nil                                  -> SaveInter ; return ctx.Err() (nil: NEXT idx)
              st = nil (e = nil, or e = ctx.Err() - H7) -> CommitApplied: one batch {set bit, clear inter}
           ; return ctx.Err()
   Every durable mutation takes a fault parameter f: "ok", "fail" (not applied, the call returns an
   error, Run ends), "crash" (applied, then the process is dead), "cancel" (applied, then the context
   is cancelled) -- exactly the three modes of the fault-injecting store used by the binding.
   A restart may come with a different set of enabled optional migrations and with an OLDER binary
   (a shorter registry).

   Switches (FALSE = the code as it is, TRUE = repaired):
     FixH7   do not mark a migration applied when Migrate returned (nil, ctx.Err())
     FixH19  refuse a database whose lastTarget names a migration this binary does not have
*)
EXTENDS Integers, Sequences, FiniteSets, TLC

CONSTANTS N,          \* migrations known to the newest binary are 1..N  (index - 1 in the code)
          Optional,   \* SUBSET 1..N : registered WithOptional; the others are mandatory
          RegLens,    \* registry lengths a started binary may have (N = newest, < N = older binary)
          States,     \* non-nil intermediate states a Migrate may return ("e" = empty non-nil slice)
          W,          \* units of work of each migration; Migrate returns (nil, nil) iff it reached W
          MaxStarts,  \* bound on process starts
          MaxFaults,  \* bound on injected store faults (at most one per run)
          AllowYield, \* a Migrate may return (st, nil) although nobody cancelled
          FixH7, FixH19

Idx == 1..N
Nil == "nil"
ASSUME Nil \notin States
Faults == {"ok", "fail", "crash", "cancel"}

VARIABLES meta, inter, work,                       \* durable
          pc, reg, rmeta, pending, cur, ret,       \* the process
          cancelled, calls, yielded, runFault,
          starts, faults,
          act, res                                 \* output only

durable == <<meta, inter, work>>
vars == <<meta, inter, work, pc, reg, rmeta, pending, cur, ret, cancelled, calls, yielded, runFault,
          starts, faults, act, res>>
view == <<meta, inter, work, pc, reg, rmeta, pending, cur, ret, cancelled, calls, yielded, runFault,
          starts, faults>>

Min(S) == CHOOSE x \in S : \A y \in S : x <= y
NoRet == [st |-> Nil, e |-> "nil"]
NoReg == [len |-> 0, target |-> {}]

Init ==
  /\ meta = [applied |-> {}, lastTarget |-> {}]
  /\ inter = [i \in Idx |-> Nil]
  /\ work = [i \in Idx |-> 0]
  /\ pc = "down" /\ reg = NoReg /\ rmeta = meta /\ pending = {} /\ cur = 0 /\ ret = NoRet
  /\ cancelled = FALSE /\ calls = <<>> /\ yielded = FALSE /\ runFault = FALSE
  /\ starts = 0 /\ faults = 0
  /\ act = [name |-> "Init"] /\ res = "ok"

--------------------------------------------------------------------------------
(* registry.With / WithOptional: mandatory entries are always in the target *)
Target(len, en) == ((1..len) \ Optional) \cup en

(* validateNoOptOut: bits of lastTarget missing from the target; the loop stops at the first index
   beyond the registry ("let validateNoVersionDowngrade surface that"), every index inside the
   registry is reported *)
OptOut(len, target) == (meta.lastTarget \ target) \cap (1..len)
(* lastTarget bits this binary has never heard of: a newer binary opted in / started them *)
UnknownPending(len, target) == (meta.lastTarget \ target) \ (1..len)
(* validateNoVersionDowngrade: the target must contain every applied bit *)
Downgrade(target) == ~(meta.applied \subseteq target)

Verdict(len, target) ==
  IF OptOut(len, target) # {} THEN "optout"
  ELSE IF Downgrade(target) THEN "downgrade"
  ELSE IF FixH19 /\ UnknownPending(len, target) # {} THEN "downgrade"
  ELSE "ok"

(* NewRunner *)
Start(len, en) ==
  /\ pc = "down" /\ starts < MaxStarts
  /\ en \subseteq (Optional \cap (1..len))
  /\ starts' = starts + 1
  /\ LET target == Target(len, en)
         v == Verdict(len, target) IN
     /\ act' = [name |-> "Start", len |-> len, enabled |-> en]
     /\ res' = v
     /\ IF v = "ok"
        THEN /\ pc' = "ready" /\ reg' = [len |-> len, target |-> target] /\ rmeta' = meta
        ELSE /\ pc' = "down" /\ UNCHANGED <<reg, rmeta>>
  /\ cancelled' = FALSE /\ calls' = <<>> /\ yielded' = FALSE /\ runFault' = FALSE
  /\ pending' = {} /\ cur' = 0 /\ ret' = NoRet
  /\ UNCHANGED <<durable, faults>>

(* the context handed to Run is already cancelled *)
PreCancel ==
  /\ pc = "ready" /\ ~cancelled
  /\ cancelled' = TRUE
  /\ act' = [name |-> "PreCancel"] /\ res' = "ok"
  /\ UNCHANGED <<durable, pc, reg, rmeta, pending, cur, ret, calls, yielded, runFault, starts, faults>>

FaultOK(f) == f = "ok" \/ (~runFault /\ faults < MaxFaults)
NoteFault(f) ==
  /\ runFault' = (runFault \/ f # "ok")
  /\ faults' = IF f = "ok" THEN faults ELSE faults + 1

Die == pc' = "down"

(* Run, first statement: lastTarget := target, written with the metadata read by NewRunner *)
WriteLastTarget(f) ==
  /\ pc = "ready" /\ f \in Faults /\ FaultOK(f) /\ NoteFault(f)
  /\ act' = [name |-> "WriteLastTarget", f |-> f]
  /\ LET m == [applied |-> rmeta.applied, lastTarget |-> reg.target] IN
     /\ rmeta' = m
     /\ meta' = IF f = "fail" THEN meta ELSE m
     /\ pending' = reg.target \ rmeta.applied
     /\ CASE f = "fail" -> Die /\ res' = "err" /\ UNCHANGED cancelled
          [] f = "crash" -> Die /\ res' = "crashed" /\ UNCHANGED cancelled
          [] f = "cancel" ->
               /\ cancelled' = TRUE
               /\ IF pending' = {} THEN Die /\ res' = "ok" ELSE pc' = "loop" /\ res' = "-"
          [] OTHER ->
               /\ UNCHANGED cancelled
               /\ IF pending' = {} THEN Die /\ res' = "ok" ELSE pc' = "loop" /\ res' = "-"
  /\ UNCHANGED <<inter, work, reg, cur, ret, calls, yielded, starts>>

(* loop head: pending exhausted or the context is cancelled -> Run returns *)
RunEnd ==
  /\ pc = "loop" /\ (pending = {} \/ cancelled)
  /\ Die
  /\ act' = [name |-> "RunEnd"]
  /\ res' = IF cancelled THEN "cancel" ELSE "ok"
  /\ UNCHANGED <<durable, reg, rmeta, pending, cur, ret, cancelled, calls, yielded, runFault, starts, faults>>

(* loop head otherwise: read the intermediate state of the lowest pending index, call Before *)
Before(ok) ==
  /\ pc = "loop" /\ pending # {} /\ ~cancelled
  /\ LET i == Min(pending) IN
     /\ cur' = i
     /\ calls' = Append(calls, i)
     /\ act' = [name |-> "Before", idx |-> i, arg |-> inter[i], ok |-> ok]
     /\ IF ok THEN pc' = "called" /\ res' = "-" ELSE Die /\ res' = "err"
  /\ UNCHANGED <<durable, reg, rmeta, pending, ret, cancelled, yielded, runFault, starts, faults>>

(* Migrate(ctx, db, ...) of the current migration: it converts `units` more data (one durable write
   of its own when units > 0), the environment may cancel the context while it runs, and it returns
   (st, e).  A migration is honest: (nil, nil) exactly when its work is complete. *)
MigrateOK(st, e, units, cancelNow, f) ==
  /\ st \in States \cup {Nil} /\ e \in {"nil", "cancel", "err"}
  /\ units \in 0..(W - work[cur])
  /\ f \in {"ok", "crash", "cancel"} /\ (units = 0 => f = "ok") /\ FaultOK(f)
  /\ LET w == work[cur] + units
         c == cancelled \/ cancelNow \/ f = "cancel" IN
     /\ (st = Nil /\ e = "nil") <=> (w = W)
     /\ e = "cancel" => c                      \* returning ctx.Err() needs a cancelled context
     /\ (st # Nil /\ e = "nil" /\ ~c) => AllowYield

Migrate(st, e, units, cancelNow, f) ==
  /\ pc = "called"
  /\ MigrateOK(st, e, units, cancelNow, f) /\ NoteFault(f)
  /\ LET w == work[cur] + units
         c == cancelled \/ cancelNow \/ f = "cancel" IN
     /\ work' = [work EXCEPT ![cur] = w]
     /\ cancelled' = c
     /\ ret' = [st |-> st, e |-> e]
     /\ yielded' = (yielded \/ st # Nil \/ e # "nil")
     /\ act' = [name |-> "Migrate", idx |-> cur, st |-> st, e |-> e, units |-> units,
                cancelNow |-> cancelNow, f |-> f]
     /\ IF f = "crash" THEN Die /\ res' = "crashed"
        ELSE IF e = "err" THEN Die /\ res' = "err"
        ELSE IF st # Nil THEN pc' = "save" /\ res' = "-"
        ELSE IF e = "cancel" /\ FixH7 THEN Die /\ res' = "cancel"
        ELSE pc' = "commit" /\ res' = "-"
  /\ UNCHANGED <<meta, inter, reg, rmeta, pending, cur, calls, starts>>

(* WriteIntermediateState ; return ctx.Err() *)
SaveInter(f) ==
  /\ pc = "save" /\ f \in Faults /\ FaultOK(f) /\ NoteFault(f)
  /\ act' = [name |-> "SaveInter", idx |-> cur, st |-> ret.st, f |-> f]
  /\ inter' = IF f = "fail" THEN inter ELSE [inter EXCEPT ![cur] = ret.st]
  /\ cancelled' = (cancelled \/ f = "cancel")
  /\ CASE f = "fail" -> Die /\ res' = "err" /\ UNCHANGED pending
       [] f = "crash" -> Die /\ res' = "crashed" /\ UNCHANGED pending
       [] OTHER -> IF cancelled' THEN Die /\ res' = "cancel" /\ UNCHANGED pending
                   ELSE pc' = "loop" /\ res' = "-" /\ pending' = pending \ {cur}
  /\ UNCHANGED <<meta, work, reg, rmeta, cur, ret, calls, yielded, starts>>

(* one batch: metadata with the bit set + deletion of the intermediate state *)
CommitApplied(f) ==
  /\ pc = "commit" /\ f \in Faults /\ FaultOK(f) /\ NoteFault(f)
  /\ act' = [name |-> "CommitApplied", idx |-> cur, f |-> f]
  /\ LET m == [rmeta EXCEPT !.applied = @ \cup {cur}] IN
     /\ rmeta' = m
     /\ meta' = IF f = "fail" THEN meta ELSE m
     /\ inter' = IF f = "fail" THEN inter ELSE [inter EXCEPT ![cur] = Nil]
  /\ cancelled' = (cancelled \/ f = "cancel")
  /\ CASE f = "fail" -> Die /\ res' = "err" /\ UNCHANGED pending
       [] f = "crash" -> Die /\ res' = "crashed" /\ UNCHANGED pending
       [] OTHER -> pc' = "loop" /\ res' = "-" /\ pending' = pending \ {cur}
  /\ UNCHANGED <<work, reg, cur, ret, calls, yielded, starts>>

Next ==
  \/ \E len \in RegLens, en \in SUBSET Optional : Start(len, en)
  \/ PreCancel
  \/ \E f \in Faults : WriteLastTarget(f) \/ SaveInter(f) \/ CommitApplied(f)
  \/ RunEnd
  \/ \E ok \in BOOLEAN : Before(ok)
  \/ \E st \in States \cup {Nil}, e \in {"nil", "cancel", "err"}, u \in 0..W, c \in BOOLEAN,
        f \in {"ok", "crash", "cancel"} : Migrate(st, e, u, c, f)

Spec == Init /\ [][Next]_vars

--------------------------------------------------------------------------------
TypeOK ==
  /\ meta.applied \subseteq Idx /\ meta.lastTarget \subseteq Idx
  /\ \A i \in Idx : inter[i] \in States \cup {Nil} /\ work[i] \in 0..W
  /\ pc \in {"down", "ready", "loop", "called", "save", "commit"}

(* C18: "a migration is recorded as applied only after it has actually completed" *)
AppliedImpliesComplete == \A i \in meta.applied : work[i] = W /\ inter[i] = Nil
AppliedOnlyByCommitAfterNilNil ==
  [][meta'.applied # meta.applied =>
       /\ pc = "commit" /\ ret = NoRet
       /\ meta'.applied = meta.applied \cup {cur}
       /\ inter'[cur] = Nil]_vars
AppliedMonotone == [][meta.applied \subseteq meta'.applied]_vars
AppliedWithinLastTarget == meta.applied \subseteq meta.lastTarget

(* "each pending migration runs once and in order": within a run the invocations are strictly
   ascending, every invoked index was pending, nothing applied is invoked again *)
Ascending(s) == \A a, b \in 1..Len(s) : a < b => s[a] < s[b]
InOrderOnce ==
  /\ Ascending(calls)
  /\ \A k \in 1..Len(calls) : calls[k] \in reg.target
  /\ pc \in {"called"} => cur \notin meta.applied
NeverRerunApplied == [][\A i \in meta.applied : (Len(calls') > Len(calls)) => calls'[Len(calls')] # i]_vars
(* the stronger reading - a migration starts only when every lower pending one is applied - holds
   only if an unfinished Migrate never returns (st, nil) without a cancellation (AllowYield = FALSE) *)
StrictOrder ==
  (~AllowYield /\ pc = "called") => \A i \in reg.target : i < cur => i \in meta.applied

(* refusal on opt-out and downgrade: a process is admitted only if its target covers everything
   already applied and everything a previous run had in its target *)
AdmittedCoversApplied == [][(pc = "down" /\ pc' = "ready") => meta.applied \subseteq reg'.target]_vars
AdmittedCoversOptIns ==
  [][(pc = "down" /\ pc' = "ready") => (meta.lastTarget \cap (1..reg'.len)) \subseteq reg'.target]_vars
AdmittedKnowsLastTarget ==        \* needs FixH19
  [][(pc = "down" /\ pc' = "ready") => meta.lastTarget \subseteq reg'.target]_vars
RefusedTouchesNothing == [][(pc = "down" /\ pc' = "down") => UNCHANGED durable]_vars

(* "resumes and reaches the same final database": whenever Run returns nil and no Migrate of this
   run reported unfinished work, the database is the one the uninterrupted run produces:
   every target bit applied, lastTarget = target, no intermediate state and complete data for
   every applied migration - whatever interrupts and restarts came before *)
RunOkMeansFinal ==
  (pc = "down" /\ res = "ok" /\ act.name \in {"RunEnd", "WriteLastTarget"} /\ ~yielded) =>
      /\ reg.target \subseteq meta.applied
      /\ meta.lastTarget = reg.target
      /\ \A i \in reg.target : work[i] = W /\ inter[i] = Nil
(* interruption never destroys progress: data only grows *)
WorkMonotone == [][\A i \in Idx : work[i] <= work'[i]]_vars
(* an intermediate state is kept only for a migration that is not applied *)
InterOnlyForUnapplied == \A i \in Idx : inter[i] # Nil => i \notin meta.applied
=============================================================================

--------------------------- MODULE BlockTxMigration ---------------------------
(* The block-transactions migration (migration/blocktransactions: blocktransactions.go,
   check_status.go, ingestor.go, committer.go; pipeline/pipeline.go) under the runner, with crashes.
   Property C18, data half.

   Previous layout: one entry per (block, index) for transactions and for receipts -> old[b] entries.
   Current layout:  one blob per block                                          -> blob[b].
   orig[b] is the content the database was written with (number of transactions; 0 = empty block);
   it is chosen arbitrarily in Init and never changes, so every property is checked for EVERY
   placement of empty blocks.

   Migrate:  loop { first := first block that still has old entries, aligned down to R
                    none  -> clearOldBuckets (a no-op then) ; return (nil, nil) -> runner sets the bit
                    ranges first, first+R, ... are handed IN ORDER to I concurrent ingestors;
                    an ingestor reads the blocks of its range from the DATABASE, adds a blob per
                    block and the deletion of the range's old entries to ITS batch, takes the next
                    range; when no range is left it hands its batch to the single committer, which
                    writes it atomically.  Batches therefore commit in COMPLETION order. }
   A crash loses every batch not yet written; the rerun computes `first` again.  A cancellation stops
   the source of ranges; the ingestors drain, Migrate returns "rerun", the next start computes `first`.

   Actions are at the granularity the binding can force on the real code: Finish(i) = "the
   ingestor holding range held[i] ingests it now"; its consequence (next range taken, or batch
   committed) is deterministic in the code and part of the same action.

   Switches (FALSE = the code as it is):
     FixH15  an already migrated block (no old entries, blob present) is really skipped; the code
             only skips the count validation and Puts the empty blob built from nothing
     FixH20  the work list is "blocks without a blob" instead of "blocks with old entries"; the code
             never writes a blob for an empty block that lies in a range below the first block with
             old entries, and the current accessors cannot read a block without blob
   EarlyFlush models the 96 MB batch threshold (an ingestor may hand over its batch after any range).
*)
EXTENDS Integers, Sequences, FiniteSets, TLC

CONSTANTS NBlocks, R, I, MaxTx, MaxCrashes, MaxCancels, EarlyFlush, FixH15, FixH20

Blocks == 0..(NBlocks - 1)
Ing == 1..I
NoBlob == -1
NoRange == -1

VARIABLES orig,                       \* the content written before the migration (constant of a behaviour)
          old, blob, applied,         \* durable
          phase, next, held, batch,   \* the process: "down" | "running"
          cancelled,                  \* the context of the running process is cancelled
          crashes, cancels, act

vars == <<orig, old, blob, applied, phase, next, held, batch, cancelled, crashes, cancels, act>>
view == <<orig, old, blob, applied, phase, next, held, batch, cancelled, crashes, cancels>>

EmptyBatch == [blobs |-> << >>, dels |-> {}]
Idle == [i \in Ing |-> NoRange]
NoBatches == [i \in Ing |-> EmptyBatch]

Init ==
  /\ orig \in [Blocks -> 0..MaxTx]
  /\ old = orig
  /\ blob = [b \in Blocks |-> NoBlob]
  /\ applied = FALSE /\ phase = "down" /\ next = 0
  /\ held = Idle /\ batch = NoBatches /\ crashes = 0
  /\ cancelled = FALSE /\ cancels = 0
  /\ act = [name |-> "Init"]

Min(S) == CHOOSE x \in S : \A y \in S : x <= y
HasOld == {b \in Blocks : old[b] > 0}
(* getFirstBlockToMigrate: what decides whether there is work and where it starts *)
Work == IF FixH20 THEN HasOld \cup {b \in Blocks : blob[b] = NoBlob} ELSE HasOld
First == LET m == Min(Work) IN m - (m % R)

(* ingestors take ranges in order while there are any *)
RECURSIVE Deal(_, _, _)
Deal(h, i, n) == IF i > I \/ n >= NBlocks THEN h ELSE Deal([h EXCEPT ![i] = n], i + 1, n + R)
Dealt(n) == Cardinality({i \in Ing : n + (i - 1) * R < NBlocks})

StartRound ==
  /\ held' = Deal(Idle, 1, First)
  /\ next' = First + R * Dealt(First)
  /\ batch' = NoBatches
  /\ phase' = "running"

(* Run -> runMigration -> Migrate: nothing left to do -> bit set; else first round *)
Begin ==
  /\ phase = "down" /\ ~applied
  /\ act' = [name |-> "Begin"]
  /\ IF Work = {}
     THEN applied' = TRUE /\ UNCHANGED <<phase, next, held, batch>>
     ELSE StartRound /\ UNCHANGED applied
  /\ cancelled' = FALSE
  /\ UNCHANGED <<orig, old, blob, crashes, cancels>>

(* ingestBlock reads the block's old entries from the database (never from pending batches) *)
Ingested(b) ==
  IF old[b] = 0 /\ blob[b] # NoBlob /\ FixH15 THEN -2     \* repaired: no Put at all
  ELSE old[b]                                             \* as is: Put a blob of whatever old entries exist
PutF(f, k, v) == [x \in (DOMAIN f \cup {k}) |-> IF x = k THEN v ELSE f[x]]
RECURSIVE AddRange(_, _, _)
AddRange(bt, b, hi) ==
  IF b > hi THEN bt
  ELSE LET r == Ingested(b)
           nb == IF r = -2 THEN bt.blobs ELSE PutF(bt.blobs, b, r) IN
       AddRange([blobs |-> nb, dels |-> bt.dels \cup {b}], b + 1, hi)

Hi(lo) == IF lo + R - 1 < NBlocks - 1 THEN lo + R - 1 ELSE NBlocks - 1

Commit(bt) ==
  /\ blob' = [b \in Blocks |-> IF b \in DOMAIN bt.blobs THEN bt.blobs[b] ELSE blob[b]]
  /\ old' = [b \in Blocks |-> IF b \in bt.dels THEN 0 ELSE old[b]]

(* the ingestor holding a range ingests it; then takes the next range, or - none left, or the batch
   reached the size threshold - hands its batch to the committer *)
Finish(i, flush) ==
  /\ phase = "running" /\ held[i] # NoRange
  /\ flush => (EarlyFlush /\ next < NBlocks)
  /\ LET bt == AddRange(batch[i], held[i], Hi(held[i])) IN
     /\ act' = [name |-> "Finish", r |-> held[i], flush |-> flush, commit |-> (flush \/ next >= NBlocks)]
     /\ IF next < NBlocks
        THEN /\ held' = [held EXCEPT ![i] = next] /\ next' = next + R
             /\ IF flush THEN Commit(bt) /\ batch' = [batch EXCEPT ![i] = EmptyBatch]
                ELSE batch' = [batch EXCEPT ![i] = bt] /\ UNCHANGED <<old, blob>>
        ELSE /\ held' = [held EXCEPT ![i] = NoRange] /\ UNCHANGED next
             /\ Commit(bt) /\ batch' = [batch EXCEPT ![i] = EmptyBatch]
  /\ UNCHANGED <<orig, applied, phase, cancelled, crashes, cancels>>

(* the context is cancelled while the ingestors work: the source hands out no further range (the
   pipeline still drains: every ingestor finishes the range it holds and hands over its batch) *)
Cancel ==
  /\ phase = "running" /\ ~cancelled /\ cancels < MaxCancels
  /\ act' = [name |-> "Cancel"]
  /\ cancelled' = TRUE /\ cancels' = cancels + 1
  /\ next' = IF next < NBlocks THEN NBlocks ELSE next
  /\ UNCHANGED <<orig, old, blob, applied, phase, held, batch, crashes>>

(* every ingestor is done: a cancelled Migrate returns "rerun" (the runner saves that state and Run
   returns the cancellation); otherwise Migrate loops to getFirstBlockToMigrate *)
RoundEnd ==
  /\ phase = "running" /\ held = Idle
  /\ act' = [name |-> "RoundEnd", cancelled |-> cancelled]
  /\ IF cancelled
     THEN phase' = "down" /\ UNCHANGED <<applied, next, held, batch>>
     ELSE IF Work = {}
     THEN applied' = TRUE /\ phase' = "down" /\ UNCHANGED <<next, held, batch>>
     ELSE StartRound /\ UNCHANGED applied
  /\ UNCHANGED <<orig, old, blob, cancelled, crashes, cancels>>

Crash ==
  /\ phase = "running" /\ crashes < MaxCrashes
  /\ act' = [name |-> "Crash"]
  /\ phase' = "down" /\ held' = Idle /\ batch' = NoBatches /\ crashes' = crashes + 1
  /\ UNCHANGED <<orig, old, blob, applied, next, cancelled, cancels>>

Next == Begin \/ (\E i \in Ing, fl \in BOOLEAN : Finish(i, fl)) \/ RoundEnd \/ Crash \/ Cancel
Spec == Init /\ [][Next]_vars

--------------------------------------------------------------------------------
TypeOK ==
  /\ \A b \in Blocks : old[b] \in 0..MaxTx /\ blob[b] \in (0..MaxTx) \cup {NoBlob}
  /\ phase \in {"down", "running"}

(* once recorded as applied every block - empty ones included - is readable through the current
   accessors with its original content, and nothing of the previous layout is left: the final
   database is the same whatever crashes happened on the way *)
Preserved == applied => \A b \in Blocks : blob[b] = orig[b] /\ old[b] = 0
(* at no moment, applied or not, is a transaction absent from both layouts *)
NeverLost == \A b \in Blocks : orig[b] > 0 => (old[b] = orig[b] \/ blob[b] = orig[b])
(* the layouts only ever hold original content *)
OnlyOriginal == \A b \in Blocks : old[b] \in {0, orig[b]} /\ blob[b] \in {NoBlob, orig[b]}
(* a migrated block is never rewritten *)
BlobStable == [][\A b \in Blocks : blob[b] # NoBlob => blob'[b] = blob[b]]_vars
AppliedStable == [][applied => applied']_vars
=============================================================================

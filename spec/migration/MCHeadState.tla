------------------------------- MODULE MCHeadState -------------------------------
(* Model-checking instance of HeadState; all constants are plain values set in the .cfg. *)
EXTENDS HeadState
=============================================================================

------------------------------- MODULE MigrationMBT -------------------------------
(* Behaviour generation for the runner replayer: Migration plus a history variable.  A behaviour
   ends when the last allowed process has ended; it is printed as one JSON line and the machine is
   reset, so one long -simulate run yields many behaviours.  Every action schema is instantiated
   with ONE random admissible parameter tuple per step (uniform over schemas, never disabled). *)
EXTENDS MCMigration, Json

VARIABLE hist
mbtvars == <<vars, hist>>

MBTInit == Init /\ hist = <<>>

R(S) == {RandomElement(S)}

MigrateChoices ==
  {t \in (States \cup {Nil}) \X {"nil", "cancel", "err"} \X (0..W) \X BOOLEAN \X {"ok", "crash", "cancel"} :
      MigrateOK(t[1], t[2], t[3], t[4], t[5])}
(* completing / progressing returns are what keeps a behaviour going: give them their own schema *)
MigrateGood == {t \in MigrateChoices : t[2] # "err" /\ t[5] = "ok"}
MigrateDone == {t \in MigrateChoices : t[1] = Nil /\ t[2] = "nil" /\ t[5] = "ok"}
FaultChoices == {f \in Faults : FaultOK(f)}
(* three out of four durable mutations are left alone *)
FaultPick == IF RandomElement(1..4) = 1 THEN R(FaultChoices) ELSE {"ok"}
Compatible(len) == {e \in SUBSET (Optional \cap (1..len)) : (meta.lastTarget \cap Optional) \subseteq e}

SimNext ==
  CASE pc = "down" ->
         \E r \in R(1..6) :
           IF r = 1 THEN \E len \in R(RegLens) : \E en \in R(SUBSET (Optional \cap (1..len))) : Start(len, en)
           ELSE IF r = 2 /\ Compatible(N - 1) # {} THEN \E en \in R(Compatible(N - 1)) : Start(N - 1, en)
           ELSE \E en \in R(Compatible(N)) : Start(N, en)
    [] pc = "ready" ->
         \E r \in R(1..8) : IF r = 1 /\ ~cancelled THEN PreCancel ELSE \E f \in FaultPick : WriteLastTarget(f)
    [] pc = "loop" -> RunEnd \/ (\E r \in R(1..8) : Before(r # 1))
    [] pc = "called" ->
         \E r \in R(1..4) :
           IF r = 1 THEN \E t \in R(MigrateChoices) : Migrate(t[1], t[2], t[3], t[4], t[5])
           ELSE IF r = 2 \/ MigrateDone = {} THEN \E t \in R(MigrateGood) : Migrate(t[1], t[2], t[3], t[4], t[5])
           ELSE \E t \in R(MigrateDone) : Migrate(t[1], t[2], t[3], t[4], t[5])
    [] pc = "save" -> \E f \in FaultPick : SaveInter(f)
    [] pc = "commit" -> \E f \in FaultPick : CommitApplied(f)

Step == SimNext /\ hist' = Append(hist, [a |-> act', res |-> res', meta |-> meta', inter |-> inter',
                                           work |-> work', calls |-> calls'])

Finished == pc = "down" /\ starts >= MaxStarts

Emit ==
  /\ PrintT(ToJson(hist))
  /\ meta' = [applied |-> {}, lastTarget |-> {}]
  /\ inter' = [i \in Idx |-> Nil] /\ work' = [i \in Idx |-> 0]
  /\ pc' = "down" /\ reg' = NoReg /\ rmeta' = meta' /\ pending' = {} /\ cur' = 0 /\ ret' = NoRet
  /\ cancelled' = FALSE /\ calls' = <<>> /\ yielded' = FALSE /\ runFault' = FALSE
  /\ starts' = 0 /\ faults' = 0
  /\ act' = [name |-> "Init"] /\ res' = "ok" /\ hist' = <<>>

MBTNext == IF Finished THEN Emit ELSE Step
=============================================================================

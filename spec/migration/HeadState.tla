------------------------------- MODULE HeadState -------------------------------
(* Specification growth G05: the HEAD-STATE migration (migration/state/headstate: migrator.go,
   ingestor.go, committer.go) and the life of a migrated database under the trie2-based state
   (core/state: state.go Update/commit/flush, object.go stateObject.commit, contract.go).

   What the migration does (and all it does): the legacy state keeps a contract in three per-field
   buckets ContractClassHash / ContractNonce / ContractDeploymentHeight; the new state keeps ONE
   record Contract[addr] = (ClassHash, Nonce, DeployedHeight, StorageRoot).  The migration writes
   the record from the three fields and LEAVES StorageRoot ZERO ("the running node lazily backfills
   it on the contract's first storage write"), then wipes the three buckets.  The tries are not
   its business: this specification, like the binding, speaks about a database whose tries are in
   the layout the new state reads (see G05.py for what that means on the real code).

   Modelled side by side, driven by one chain of state diffs (alphabet of C03/StateHistory.tla:
   declare, deploy, replace class, nonce, storage write incl. zero writes, system contracts):
     truth   the abstract state (what every read and the state commitment are about);
     leaf    what the contracts trie commits to, per contract: (class hash, nonce, the storage map
             its storage-root component commits to);
     rec     the new-layout record, sr = the storage map the PERSISTED StorageRoot commits to
             (the all-zero map = root 0);
     leg     the three legacy per-field entries;
   phases: "pre"  blocks applied by the new state itself (records accurate)
           "old"  the records have been put back into the legacy layout: the database as the
                  upgraded binary finds it
           "mig"  the migration process runs: batches of addresses are committed atomically in any
                  grouping and order (4 ingestors, one batch each, completion order), a rerun skips
                  an address that already has a record, then three range deletes, then the runner
                  sets the bit; a crash anywhere loses the process, not the database
           "post" blocks applied by the new state on the migrated database.

   Switch (TRUE = the code as it is): LazyBackfill - stateObject.commit opens and commits the
   storage trie of EVERY touched contract and stores the root in the record and the leaf.  FALSE is
   the design of the seeded change "skip the storage trie when no slot is dirty and the persisted
   root is zero", locally plausible, globally wrong because of the zero roots the migration leaves. *)
EXTENDS Integers, Sequences, FiniteSets, TLC

CONSTANTS Users, Sys, Slots, MaxV, Cairo0, Sierra,
          MaxPre, MaxPost,     \* blocks before / after the upgrade
          MaxOps,              \* entries per state diff (exhaustive configs)
          Vers,                \* protocol versions: 0 = before 0.14.0, 1 = 0.14.0 and later
          MaxCrashes,
          LazyBackfill

AllC == Users \cup Sys
Classes == Cairo0 \cup Sierra
Vals == 0..MaxV
None == "none"
ZeroCls == "zero"

VARIABLES truth, height, leaf, rec, leg, decl,
          phase, done, applied, crashes, snap, preH,
          act

vars == <<truth, height, leaf, rec, leg, decl, phase, done, applied, crashes, snap, preH, act>>
view == <<truth, height, leaf, rec, leg, decl, phase, done, applied, crashes, snap, preH>>

--------------------------------------------------------------------------------
(* state diffs - as in StateHistory.tla *)
NoA == "-"
ODecl(c)       == [k |-> "decl",  a |-> NoA, s |-> NoA, c |-> c,    v |-> -1]
ODep(a, c)     == [k |-> "dep",   a |-> a,   s |-> NoA, c |-> c,    v |-> -1]
ORep(a, c)     == [k |-> "rep",   a |-> a,   s |-> NoA, c |-> c,    v |-> -1]
ONonce(a, v)   == [k |-> "nonce", a |-> a,   s |-> NoA, c |-> None, v |-> v]
OStor(a, s, v) == [k |-> "stor",  a |-> a,   s |-> s,   c |-> None, v |-> v]

AllOps ==
  {ODecl(c) : c \in Classes}
  \cup {ODep(a, c) : a \in Users, c \in Classes} \cup {ORep(a, c) : a \in Users, c \in Classes}
  \cup {ONonce(a, v) : a \in Users, v \in Vals}
  \cup {OStor(a, s, v) : a \in AllC, s \in Slots, v \in Vals}

SameKey(o, p) == o.k = p.k /\ o.a = p.a /\ o.s = p.s /\ (o.k = "decl" => o.c = p.c)
WellFormed(d) == \A o \in d, p \in d : SameKey(o, p) => o = p
Pick(S) == CHOOSE x \in S : TRUE
DeclSet(d) == {o.c : o \in {x \in d : x.k = "decl"}}
DepOf(d, a) == LET S == {o \in d : o.k = "dep" /\ o.a = a} IN IF S = {} THEN None ELSE Pick(S).c
RepOf(d, a) == LET S == {o \in d : o.k = "rep" /\ o.a = a} IN IF S = {} THEN None ELSE Pick(S).c
NonceOf(d, a) == LET S == {o \in d : o.k = "nonce" /\ o.a = a} IN IF S = {} THEN -1 ELSE Pick(S).v
StorOf(d, a, s) == LET S == {o \in d : o.k = "stor" /\ o.a = a /\ o.s = s} IN IF S = {} THEN -1 ELSE Pick(S).v
StorTouched(d, a) == \E s \in Slots : StorOf(d, a, s) # -1
Touched(d, a) == DepOf(d, a) # None \/ RepOf(d, a) # None \/ NonceOf(d, a) # -1 \/ StorTouched(d, a)

(* the diffs of an exhaustive configuration: at most MaxOps (<= 3) entries *)
Diffs ==
  {{}} \cup (IF MaxOps >= 1 THEN {{o} : o \in AllOps} ELSE {})
       \cup (IF MaxOps >= 2 THEN {{o, p} : o \in AllOps, p \in AllOps} ELSE {})
       \cup (IF MaxOps >= 3 THEN {{o, p, q} : o \in AllOps, p \in AllOps, q \in AllOps} ELSE {})

ZeroStor == [s \in Slots |-> 0]
NoCon == [dep |-> FALSE, cls |-> None, nonce |-> 0, stor |-> ZeroStor]

(* which diffs a block may carry on top of state T; system contracts never receive zero writes
   (they hold block hashes; see SysZeroWrites in StateHistory.tla) *)
Valid(T, D, d) ==
  /\ WellFormed(d)
  /\ \A o \in d :
       LET declared(c) == c \in D \/ c \in DeclSet(d)
           live(a) == T[a].dep \/ DepOf(d, a) # None IN
       CASE o.k = "decl"  -> o.c \notin D
         [] o.k = "dep"   -> ~T[o.a].dep /\ declared(o.c)
         [] o.k = "rep"   -> T[o.a].dep /\ declared(o.c)
         [] o.k = "nonce" -> live(o.a)
         [] o.k = "stor"  -> IF o.a \in Sys THEN o.v # 0 ELSE live(o.a)

ApplyT(T, d) ==
  [a \in AllC |->
      LET c == T[a]
          created == DepOf(d, a) # None \/ (a \in Sys /\ StorTouched(d, a)) IN
      [dep |-> c.dep \/ created,
       cls |-> IF DepOf(d, a) # None THEN DepOf(d, a)
               ELSE IF RepOf(d, a) # None THEN RepOf(d, a)
               ELSE IF a \in Sys /\ ~c.dep /\ created THEN ZeroCls ELSE c.cls,
       nonce |-> IF NonceOf(d, a) # -1 THEN NonceOf(d, a) ELSE c.nonce,
       stor |-> [s \in Slots |-> IF StorOf(d, a, s) # -1 THEN StorOf(d, a, s) ELSE c.stor[s]]]]

--------------------------------------------------------------------------------
NoLeaf == [cls |-> None, nonce |-> 0, sr |-> ZeroStor]
NoRec == [cls |-> None, nonce |-> 0, dh |-> -1, sr |-> ZeroStor]
NoLeg == [cls |-> None, nonce |-> -1, dh |-> -1]      \* nonce -1: no ContractNonce entry

Init ==
  /\ truth = [a \in AllC |-> NoCon] /\ height = 0 /\ decl = {}
  /\ leaf = [a \in AllC |-> NoLeaf]
  /\ rec = [a \in AllC |-> NoRec]
  /\ leg = [a \in AllC |-> NoLeg]
  /\ phase = "pre" /\ done = {} /\ applied = FALSE /\ crashes = 0
  /\ snap = rec /\ preH = 0
  /\ act = [name |-> "Init"]

(* core/state Update + commit + flush of block `height` with diff d on the current database:
   every touched contract gets a state object; commit() fixes its storage root; the leaf is the
   commitment of the object; flush persists the object *)
NewState(d) ==
  LET T2 == ApplyT(truth, d)
      base(a) == IF DepOf(d, a) # None THEN [NoRec EXCEPT !.cls = DepOf(d, a), !.dh = height]
                 ELSE IF a \in Sys /\ rec[a] = NoRec THEN [NoRec EXCEPT !.cls = ZeroCls, !.dh = height]
                 ELSE rec[a]
      \* the storage root the object ends up with
      sr(a) == IF LazyBackfill \/ StorTouched(d, a) \/ base(a).sr # ZeroStor THEN T2[a].stor ELSE base(a).sr
      obj(a) == [cls |-> T2[a].cls, nonce |-> T2[a].nonce, dh |-> base(a).dh, sr |-> sr(a)]
  IN /\ truth' = T2
     /\ rec' = [a \in AllC |-> IF Touched(d, a) THEN obj(a) ELSE rec[a]]
     /\ leaf' = [a \in AllC |-> IF Touched(d, a) THEN [cls |-> obj(a).cls, nonce |-> obj(a).nonce, sr |-> obj(a).sr]
                                ELSE leaf[a]]
     /\ decl' = decl \cup DeclSet(d)
     /\ height' = height + 1

Block(d, ver) ==
  /\ \/ (phase = "pre" /\ height < MaxPre)
     \/ (phase = "post" /\ height < preH + MaxPost)
  /\ ver \in Vers
  /\ Valid(truth, decl, d)
  /\ NewState(d)
  /\ act' = [name |-> "Block", ops |-> d, ver |-> ver, post |-> (phase = "post")]
  /\ UNCHANGED <<leg, phase, done, applied, crashes, snap, preH>>

(* the database as the upgraded binary finds it: contract records in the legacy layout. A legacy
   database has no ContractNonce entry for a contract whose nonce never changed. *)
Downgrade(explicitZero) ==
  /\ phase = "pre" /\ height > 0
  /\ leg' = [a \in AllC |-> IF rec[a] = NoRec THEN NoLeg
                            ELSE [cls |-> rec[a].cls,
                                  nonce |-> IF rec[a].nonce = 0 /\ ~explicitZero THEN -1 ELSE rec[a].nonce,
                                  dh |-> rec[a].dh]]
  /\ snap' = rec /\ preH' = height
  /\ rec' = [a \in AllC |-> NoRec]
  /\ phase' = "old"
  /\ act' = [name |-> "Downgrade", explicitZero |-> explicitZero]
  /\ UNCHANGED <<truth, height, leaf, decl, done, applied, crashes>>

Pending == {a \in AllC : leg[a].cls # None}       \* pendingAddresses iterates ContractClassHash

(* a (re)start of the migration process *)
Begin ==
  /\ phase = "old" /\ ~applied
  /\ phase' = "mig" /\ done' = {}
  /\ act' = [name |-> "Begin"]
  /\ UNCHANGED <<truth, height, leaf, rec, leg, decl, applied, crashes, snap, preH>>

(* one ingestor's batch is written: every address in it that had no record yet gets one built from
   the three fields, storage root zero *)
Batch(S) ==
  /\ phase = "mig" /\ S # {} /\ S \subseteq (Pending \ done)
  /\ rec' = [a \in AllC |-> IF a \in S /\ rec[a] = NoRec
                            THEN [cls |-> leg[a].cls, nonce |-> IF leg[a].nonce = -1 THEN 0 ELSE leg[a].nonce,
                                  dh |-> leg[a].dh, sr |-> ZeroStor]
                            ELSE rec[a]]
  /\ done' = done \cup S
  /\ act' = [name |-> "Batch", addrs |-> S]
  /\ UNCHANGED <<truth, height, leaf, leg, decl, phase, applied, crashes, snap, preH>>

(* wipeDeprecatedBuckets: three range deletes, in this order; then Migrate returns (nil, nil) and
   the runner's commit batch sets the bit. `done = AllC` marks "all batches written". *)
Wipe(field) ==
  /\ phase = "mig" /\ Pending \subseteq done
  /\ CASE field = "cls"   -> leg' = [a \in AllC |-> [leg[a] EXCEPT !.cls = None]]
       [] field = "nonce" -> (\A a \in AllC : leg[a].cls = None) /\ leg' = [a \in AllC |-> [leg[a] EXCEPT !.nonce = -1]]
       [] field = "dh"    -> (\A a \in AllC : leg[a].cls = None /\ leg[a].nonce = -1) /\ leg' = [a \in AllC |-> NoLeg]
  /\ (field = "cls" => \E a \in AllC : leg[a].cls # None)
  /\ (field = "nonce" => \E a \in AllC : leg[a].nonce # -1 \/ leg[a].dh # -1)
  /\ (field = "dh" => \E a \in AllC : leg[a].dh # -1)
  /\ act' = [name |-> "Wipe", field |-> field]
  /\ UNCHANGED <<truth, height, leaf, rec, decl, phase, done, applied, crashes, snap, preH>>

SetApplied ==
  /\ phase = "mig" /\ \A a \in AllC : leg[a] = NoLeg
  /\ applied' = TRUE /\ phase' = "post"
  /\ act' = [name |-> "SetApplied"]
  /\ UNCHANGED <<truth, height, leaf, rec, leg, decl, done, crashes, snap, preH>>

Crash ==
  /\ phase = "mig" /\ crashes < MaxCrashes
  /\ phase' = "old" /\ done' = {} /\ crashes' = crashes + 1
  /\ act' = [name |-> "Crash"]
  /\ UNCHANGED <<truth, height, leaf, rec, leg, decl, applied, snap, preH>>

(* new node objects on the same database (graceful or not): nothing the state is kept in lives
   outside the database, so a restart changes nothing *)
Restart(graceful) ==
  /\ phase \in {"pre", "post"} /\ height > 0
  /\ act' = [name |-> "Restart", graceful |-> graceful]
  /\ UNCHANGED <<truth, height, leaf, rec, leg, decl, phase, done, applied, crashes, snap, preH>>

Next ==
  \/ \E g \in BOOLEAN : Restart(g)
  \/ \E d \in Diffs, ver \in Vers : Block(d, ver)
  \/ \E z \in BOOLEAN : Downgrade(z)
  \/ Begin \/ Crash \/ SetApplied
  \/ \E S \in SUBSET AllC : Batch(S)
  \/ \E f \in {"cls", "nonce", "dh"} : Wipe(f)

Spec == Init /\ [][Next]_vars

--------------------------------------------------------------------------------
RestartIsNoOp == [][act'.name = "Restart" => UNCHANGED <<truth, height, leaf, rec, leg, decl, phase, applied>>]_vars
TypeOK == phase \in {"pre", "old", "mig", "post"} /\ height \in 0..(MaxPre + MaxPost)

(* the contracts trie commits to the abstract state: (P1) right after the migration, (P3) after
   every block applied on the migrated database - whatever kind of entry touches a migrated
   contract first *)
Commitment == [a \in AllC |-> IF truth[a].dep THEN [cls |-> truth[a].cls, nonce |-> truth[a].nonce, sr |-> truth[a].stor]
                              ELSE NoLeaf]
RootIsCommitment == leaf = Commitment

(* (P1) head reads of class hash and nonce go through the record (storage goes through the storage
   trie, whose content is the truth by construction here and is compared on the real code) *)
HeadReads ==
  phase = "post" => \A a \in AllC :
     IF truth[a].dep THEN rec[a] # NoRec /\ rec[a].cls = truth[a].cls /\ rec[a].nonce = truth[a].nonce
     ELSE rec[a] = NoRec
(* the persisted storage root is either the lazy zero or accurate, never stale *)
RecRootZeroOrAccurate == \A a \in AllC : rec[a].sr \in {ZeroStor, truth[a].stor}
(* a contract at rest in the new layout: one record XOR legacy fields (both only inside a run) *)
OneLayout == phase \in {"pre", "post"} => \A a \in AllC : leg[a] = NoLeg

(* (P2) whatever batches, order, crashes: the migrated database is the function of the old one
   that the uninterrupted run computes - the old record with storage root zero, nothing else *)
Migrated == [a \in AllC |-> IF snap[a] = NoRec THEN NoRec ELSE [snap[a] EXCEPT !.sr = ZeroStor]]
Resumable == act.name = "SetApplied" => rec = Migrated /\ \A a \in AllC : leg[a] = NoLeg
(* nothing is lost on the way: at any moment every deployed contract is readable in one layout *)
NeverLost ==
  phase \in {"old", "mig"} => \A a \in AllC : truth[a].dep =>
     \/ (rec[a] # NoRec /\ rec[a].cls = truth[a].cls /\ rec[a].nonce = truth[a].nonce)
     \/ (leg[a].cls = truth[a].cls /\ (leg[a].nonce = truth[a].nonce \/ (leg[a].nonce = -1 /\ truth[a].nonce = 0)))
=============================================================================

\* events (v10) without an L1 head, FixL1None: served, properties hold
\* measured (8 TLC workers shared over 3 runs): 185846 distinct / 423740 generated states, depth 20, 40.2s
CONSTANTS NSubs = 1 NConn = 1 InitLen = 2 MaxLen = 4 MaxTag = 4 MaxReverts = 1 MaxL1 = 1 MaxPc = 0 MaxTx = 2 MaxGw = 0 MaxRecv = 0 MaxTicks = 0 MaxBack = 3 MaxGot = 6
  Ver = 10 Kinds <- KEvents StartAtL1 <- NoL1 NoLag = TRUE QuietSub = TRUE ReorgPrio = TRUE TeeStage = FALSE Window = FALSE FixL1None = TRUE FixL1Order = FALSE BlockIds <- BidsSmall
INIT Init
NEXT Next
VIEW view
INVARIANTS TypeOK HistPrefix FiltersRespected PcOnce StatusNoRepeat EventsComplete NoSilentDeath
PROPERTIES EndedIsSilent NoInternalError
CHECK_DEADLOCK FALSE

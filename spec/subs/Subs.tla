-------------------------------- MODULE Subs --------------------------------
(* G08 (specification growth) — JSON-RPC SUBSCRIPTIONS as the code is:
   rpc/v10/subscriptions.go, subscription_{heads,events,status,transactions,receipts}.go, the v9 twins,
   rpc/v8/subscriptions.go, rpc/rpccore/preconfirmed_deduper.go; standing on feed.Feed (Feed.tla, G01),
   on sync.Synchronizer.storeTask / revertHead (what is sent on which feed, in which order), on the
   pre-confirmed poller's publish, on Blockchain.SetL1Head and on the connection of jsonrpc
   (WsConn.tla, G04: writes block, per-message activation, Unsubscribe waits for the goroutine).

   STRUCTURE OF THE CODE THAT THE MODEL FOLLOWS
     chain / sync     Store, Revert (RevertHead + the currReorg bookkeeping of sync.revertHead);
                      after a Store the synchroniser sends, one after the other, the accumulated
                      reorg range on reorgFeed (if any) and the block on newHeads (`notify`, SyncSend).
     feeds            two lossy stages in series: the handler's Run() subscribes ONCE per feed with a
                      plain (keep-first) one-slot subscription and a Tee goroutine forwards into the
                      handler's own feed (`tee`, TeeForward); every subscription holds a keep-LAST
                      one-slot subscription of the handler's feed per callback it has (`slot`).
     a subscription   the request handler (SubResolve: the height read; SubRegister: everything
                      else - start block, range checks, L1 head, feed subscriptions, goroutine
                      start) and ONE goroutine: onStart (historical loop), then a select over its
                      slots and its context.  The goroutine is modelled from blocking point to
                      blocking point: it is blocked in a connection write (`pend`: the client has
                      not taken the frame yet), in the select (idle), or in the status ticker loop
                      ("tick").  Deliver = the client takes the pending frame and the goroutine
                      runs to its next blocking point; Take = the select receives from one slot
                      and the handler runs to its first write; Exit = the select sees ctx.Done().
     connection       Unsubscribe (cancel, WAIT for the goroutine, answer), close (every write
                      fails, every context is cancelled).

   WHAT THE CODE DOES NOT DO (each a CONSTANT switch; FALSE = the code as it is)
     FixL1None   subscribeEvents (v9, v10) reads the L1 head with bcReader.L1Head() and turns
                 db.ErrKeyNotFound into an internal error: on a node that has no L1 head (yet)
                 every subscribeEvents request fails.
     FixL1Order  Blockchain.SetL1Head sends the L1-head event before it writes the database and the
                 status subscription answers the event by re-reading the L1 head from the database:
                 handled in between, the transition to ACCEPTED_ON_L1 is never reported (L1Reported).
   and what it does by design of the lossy feeds (no switch; the strong properties hold only under
   the three environment assumptions NoLag, QuietSub, ReorgPrio; each is a CONSTANT, each one
   switched off alone makes TLC exhibit the failure, each failure is reproduced on the real code):
     - a head sent while the subscriber is busy overwrites the head waiting in its keep-last slot:
       the overwritten header / the events of that block are never delivered (no re-synchronisation
       in v9 / v10; v8's event subscription re-reads the range from the database);
     - the height is read before the feed subscriptions are made: a block stored in between is
       never delivered; a block stored before the height read whose head is sent after the feed
       subscription is delivered twice;
     - reorg notices and heads travel through different feeds, Tee goroutines and select cases:
       a header of the new fork can overtake the reorg notice; a second reorg overwrites the
       notice of the first;
     - v10 re-reads the block commitments BY NUMBER when it handles a head: after the block was
       reverted the subscription ends silently (or mixes the header with the commitments of the
       block that replaced it);
     - the transaction status is not looked at again after a reorg notice;
     - (A2, excluded from the model by WinEnv, shown on the code by the probe) a revert between
       the height read and the event filter's read makes the catch-up range of an events
       subscription reach into the pre-confirmed chain.
   v8 differs where it matters: its heads catch-up walks headers (the start header is the one the
   request resolved; the loop ends on EQUALITY with the latest number read at subscribe time, so a
   start above that number runs to the end of the chain and then ends the subscription), and its
   event subscription ignores the head it receives and re-reads nextBlock..head.Number from the
   database (EventsCaughtUpV8: nothing is lost for good whatever the lag).
   A repair of the lossy-feed consequences is NOT modelled (it is a redesign: register on the
   feeds before reading the height, treat a head as a wake-up and re-read next..height from the
   database checking the parent link against the last delivered header, let a newer reorg notice
   MERGE with the one waiting in the slot instead of overwriting it).                            *)
EXTENDS Integers, Sequences, FiniteSets, TLC

CONSTANTS
  NSubs, NConn,
  InitLen,       \* blocks 0..InitLen-1 exist at start (tags 1..InitLen)
  MaxLen,        \* heights 0..MaxLen-1
  MaxTag,        \* tags 1..MaxTag (one per Store)
  MaxReverts, MaxL1, MaxPc, MaxTx, MaxGw, MaxRecv, MaxTicks,
  MaxBack,       \* rpccore.MaxBlocksBack
  MaxGot,        \* frames per subscription (bounds the history)
  Ver,           \* 8, 9, 10
  Kinds,         \* subscription kinds offered: subset of {"heads","events","status","txs"}
  StartAtL1,     \* initial L1 head (-1: none)
  NoLag,         \* ASSUMPTION switch: the chain / L1 / poller / gateway move only when every subscriber has consumed everything
  QuietSub,      \* ASSUMPTION switch: nobody subscribes while the synchroniser is between a Store and its sends
  ReorgPrio,     \* ASSUMPTION switch: a reorg notice is handled before any head sent after it (the select has no such priority)
  TeeStage,      \* TRUE: the Tee goroutine is a step of its own (it can lose); FALSE: forwards at once
  Window,        \* TRUE: the environment may act between the height read and the registration
  FixL1None, FixL1Order

Subs  == 1..NSubs
Conns == 1..NConn
Tags  == 1..MaxTag
Txs   == 1..MaxTx

VARIABLES
  chain,     \* sequence of tags: chain[n+1] is the block at height n
  blk,       \* [Tags -> [h, p, txs]]: height, parent tag (0 for genesis), transactions; h = -1: unused
  nTag, nTx, nRev, nL1, nPc, nGw, nRecv, nTick,
  l1,        \* L1 head number in the DATABASE, -1: none
  l1pend,    \* Blockchain.SetL1Head between its feed send and its database write (-1: none)
  pc,        \* the pre-confirmed block the poller last applied: [num, rid, txs]
  gw,        \* [Txs -> 0 (unknown) | 1 (RECEIVED) | 2 (CANDIDATE)]: what the gateway says
  orph,      \* transactions of the block reverted last (may be included again)
  reorg,     \* sync.currReorg
  notify,    \* what storeTask still has to send: sequence of [f, h, r]
  tee,       \* Tee subscriptions of the handler: [h, r, p, l]
  slot,      \* [Subs -> [h, r, p, l, x]]: keep-last slots of the subscription's feed subscriptions
  sub,       \* [Subs -> subscription record]
  got,       \* [Subs -> frames the client has received]
  open,      \* [Conns -> BOOLEAN]
  req,       \* [Conns -> 0 | s]: an Unsubscribe(s) waiting for the goroutine
  act, res

vars == <<chain, blk, nTag, nTx, nRev, nL1, nPc, nGw, nRecv, nTick, l1, l1pend, pc, gw, orph, reorg, notify, tee, slot, sub, got, open, req, act, res>>
view == <<chain, blk, nTag, nTx, nRev, nL1, nPc, nGw, nRecv, nTick, l1, l1pend, pc, gw, orph, reorg, notify, tee, slot, sub, got, open, req>>

-----------------------------------------------------------------------------
Fr(k, a, b, c, d) == [k |-> k, a |-> a, b |-> b, c |-> c, d |-> d]
NoFr  == Fr("none", 0, 0, 0, 0)
NoR   == [sh |-> -1, st |-> 0, eh |-> -1, et |-> 0]
NoP   == [num |-> -1, rid |-> 0, txs |-> <<>>]
NoBlk == [h |-> -1, p |-> 0, txs |-> <<>>]
NoSlots == [h |-> 0, r |-> NoR, p |-> NoP, l |-> -1, x |-> 0]
NoDed == [num |-> 0, rid |-> 0, seen |-> {}]

RECEIVED == 1  CANDIDATE == 2  PRECONF == 3  L2 == 4  L1F == 5

FreeSub == [st |-> "free", kind |-> "none", conn |-> 0, bid |-> [k |-> "latest", n |-> 0], flt |-> FALSE,
            fl2 |-> FALSE, flp |-> FALSE, flr |-> FALSE, tx |-> 0,
            start |-> 0, last |-> 0, t0 |-> 0, tl |-> 0, l1at |-> -1, mode |-> "none", cur |-> 0, pend |-> NoFr, todo |-> <<>>,
            canc |-> FALSE, lastst |-> 0, ded |-> NoDed, nextb |-> 0]

Height == Len(chain) - 1
TagAt(n) == chain[n + 1]
Has(n) == n >= 0 /\ n <= Height
InSeq(x, q) == \E i \in 1..Len(q) : q[i] = x
OnChain(t) == blk[t].h >= 0 /\ Has(blk[t].h) /\ TagAt(blk[t].h) = t
PcVisible == pc.num = Len(chain)
TxAt(t) == {n \in 0..Height : InSeq(t, blk[TagAt(n)].txs)}
MaxOf(S) == CHOOSE x \in S : \A y \in S : y <= x
L1Set == l1 >= 0

(* rpc TransactionStatus: pre-confirmed chain first, then the committed store, then the gateway;
   0 = TXN_HASH_NOT_FOUND *)
StatusOf(t) ==
  IF PcVisible /\ InSeq(t, pc.txs) THEN PRECONF
  ELSE IF TxAt(t) # {} THEN (IF L1Set /\ l1 >= MaxOf(TxAt(t)) THEN L1F ELSE L2)
  ELSE gw[t]

Match(r, t) == ~r.flt \/ t % 2 = 1
Sel(r, txs) == SelectSeq(txs, LAMBDA t : Match(r, t))

(* which feeds a subscription has a callback (hence a slot) for *)
Lis(r, f) ==
  CASE r.kind = "heads"  -> f \in {"h", "r"}
    [] r.kind = "events" -> f \in {"h", "r"} \/ (f = "p" /\ r.flp /\ Ver >= 9)
    [] r.kind = "status" -> f \in {"h", "r", "l"} \/ (f = "p" /\ Ver >= 9)
    [] r.kind = "txs"    -> f = "r" \/ (f = "h" /\ r.fl2) \/ (f = "p" /\ r.flp) \/ (f = "x" /\ r.flr)
    [] OTHER -> FALSE

Running(s) == sub[s].st = "run"
Idle(s) == Running(s) /\ sub[s].mode = "live" /\ sub[s].pend = NoFr
Full(s, f) ==
  CASE f = "h" -> slot[s].h # 0 [] f = "r" -> slot[s].r # NoR [] f = "p" -> slot[s].p # NoP
    [] f = "l" -> slot[s].l # -1 [] f = "x" -> slot[s].x # 0
Feeds == {"h", "r", "p", "l", "x"}
NReady(s) == Cardinality({f \in Feeds : Full(s, f)}) + (IF sub[s].canc THEN 1 ELSE 0)

-----------------------------------------------------------------------------
(* ---- frames *)
HeadFr(t, c) == Fr("head", t, blk[t].h, c, 0)            \* c: tag whose commitments are attached (v10)
ReorgFr(r) == Fr("reorg", r.sh, r.st, r.eh, r.et)
EvFrames(r, tag, num, txs, fin) == LET m == Sel(r, txs) IN [i \in 1..Len(m) |-> Fr("event", tag, num, m[i], fin)]
TxFrames(r, tag, num, txs, fin) == LET m == Sel(r, txs) IN [i \in 1..Len(m) |-> Fr("tx", m[i], fin, tag, num)]

RECURSIVE CanonEvents(_, _, _, _)
(* events of the canonical blocks from..to as the event filter returns them NOW; label = the
   historical rule (L1 at or below the L1 head read at subscribe time) when lab, else none (v8) *)
CanonEvents(r, from, to, lab) ==
  IF from > to \/ ~Has(from) THEN <<>>
  ELSE EvFrames(r, TagAt(from), from, blk[TagAt(from)].txs,
                IF ~lab THEN 0 ELSE IF r.l1at >= from THEN L1F ELSE L2) \o CanonEvents(r, from + 1, to, lab)

Dead(r) == [r EXCEPT !.st = "done", !.pend = NoFr, !.todo = <<>>, !.mode = "none"]

(* the goroutine has nothing pending: it goes on to its next blocking point *)
RECURSIVE Advance(_)
Advance(r) ==
  IF r.todo # <<>> THEN
    IF r.canc /\ r.kind = "events" THEN Dead(r)                 \* the event loops look at ctx before every send
    ELSE [r EXCEPT !.pend = Head(r.todo), !.todo = Tail(r.todo)]
  ELSE IF r.mode = "hist" /\ r.kind = "heads" /\ Ver >= 9 THEN          \* for n := start; n <= latest; n++ { ctx?; read; send }
    IF r.cur > r.last THEN [r EXCEPT !.mode = "live"]
    ELSE IF r.canc THEN Dead(r)
    ELSE IF ~Has(r.cur) THEN Dead(r)                            \* BlockHeaderByNumber fails: the subscription ends
    ELSE [r EXCEPT !.pend = HeadFr(TagAt(r.cur), TagAt(r.cur)), !.cur = r.cur + 1]
  ELSE IF r.mode = "hist" /\ r.kind = "heads" THEN                       \* v8: for { ctx?; send cur; if cur.Number == latest.Number return; cur = read(cur+1) }
    IF r.cur > r.start /\ r.cur - 1 = r.last THEN [r EXCEPT !.mode = "live"]
    ELSE IF r.cur = r.start THEN (IF r.canc THEN Dead(r) ELSE [r EXCEPT !.pend = HeadFr(r.t0, r.t0), !.cur = r.cur + 1])   \* the header the request resolved
    ELSE IF ~Has(r.cur) \/ r.canc THEN Dead(r)                  \* past the end of the chain (start above the stale latest): ends
    ELSE [r EXCEPT !.pend = HeadFr(TagAt(r.cur), TagAt(r.cur)), !.cur = r.cur + 1]
  ELSE IF r.mode = "hist" THEN [r EXCEPT !.mode = "live"]
  ELSE r

(* a handler produced frames fs with new record r: first frame into the write *)
Emit(r, fs) == Advance([r EXCEPT !.todo = fs])

(* rpc checkTxStatus: [r, ok] *)
Check(r) ==
  LET st == StatusOf(r.tx) IN
  IF st = 0 THEN [r |-> r, ok |-> FALSE]
  ELSE IF st = r.lastst THEN [r |-> r, ok |-> TRUE]
  ELSE [r |-> Emit([r EXCEPT !.lastst = st], <<Fr("status", st, 0, 0, 0)>>), ok |-> TRUE]

DedReset(d, num, rid) == IF d.num # num \/ d.rid # rid THEN [num |-> num, rid |-> rid, seen |-> {}] ELSE d

-----------------------------------------------------------------------------
Init ==
  /\ chain = [i \in 1..InitLen |-> i]
  /\ blk = [t \in Tags |-> IF t <= InitLen THEN [h |-> t - 1, p |-> t - 1, txs |-> <<>>] ELSE NoBlk]
  /\ nTag = InitLen /\ nTx = 0 /\ nRev = 0 /\ nL1 = 0 /\ nPc = 0 /\ nGw = 0 /\ nRecv = 0 /\ nTick = 0
  /\ l1 = StartAtL1 /\ l1pend = -1 /\ pc = NoP /\ gw = [t \in Txs |-> 0] /\ orph = <<>>
  /\ reorg = NoR /\ notify = <<>>
  /\ tee = [h |-> 0, r |-> NoR, p |-> NoP, l |-> -1]
  /\ slot = [s \in Subs |-> NoSlots]
  /\ sub = [s \in Subs |-> FreeSub]
  /\ got = [s \in Subs |-> <<>>]
  /\ open = [c \in Conns |-> TRUE] /\ req = [c \in Conns |-> 0]
  /\ act = [name |-> "Init"] /\ res = [kind |-> "none"]

(* slots of subscriptions that ended are released (feed unsubscriptions in the goroutine's defer) *)
Clean(sl, sb) == [s \in Subs |-> IF sb[s].st = "run" THEN sl[s] ELSE NoSlots]

(* nothing is in flight anywhere *)
TeeEmpty == tee = [h |-> 0, r |-> NoR, p |-> NoP, l |-> -1]
CaughtUp ==
  /\ notify = <<>> /\ TeeEmpty /\ l1pend = -1
  /\ \A s \in Subs : /\ sub[s].st \in {"free", "run", "done"}
                     /\ Running(s) => (sub[s].mode = "tick" \/ (Idle(s) /\ NReady(s) = 0))
EnvOK == ~NoLag \/ CaughtUp
SubOK == ~QuietSub \/ (notify = <<>> /\ TeeEmpty)
OrderOK(s) == ~ReorgPrio \/ (slot[s].r = NoR /\ tee.r = NoR /\ \A i \in 1..Len(notify) : notify[i].f # "r")

(* a subscribe request sits between its height read and its registration: only the chain and the
   synchroniser move there (that is what the gate of the binding reaches) and the goroutines go on;
   an events subscription admits no Revert there (assumption A2: its historical range would reach
   into the pre-confirmed chain, which this model does not describe) *)
InWindow == \E s \in Subs : sub[s].st = "resolved"
Free == ~InWindow
WinEnv(kinds) == InWindow /\ Window /\ ~QuietSub /\ \A s \in Subs : sub[s].st = "resolved" => sub[s].kind \in kinds

UNCH_ENV == UNCHANGED <<chain, blk, nTag, nTx, nRev, nL1, nPc, nGw, nRecv, nTick, l1, l1pend, pc, gw, orph, reorg, notify>>
UNCH_CHAIN == UNCHANGED <<chain, blk, nTag, nRev, orph, reorg>>

-----------------------------------------------------------------------------
(* ---- the chain as the synchroniser drives it *)
Store(content) ==
  /\ Free \/ (WinEnv({"heads", "events"}) /\ content \in {"empty", "fresh"})
  /\ EnvOK /\ notify = <<>> /\ nTag < MaxTag /\ Len(chain) < MaxLen
  /\ LET t == nTag + 1
         txs == CASE content = "empty" -> <<>>
                  [] content = "fresh" -> <<nTx + 1>>
                  [] content = "pc"    -> pc.txs
                  [] content = "orph"  -> orph
     IN /\ content = "fresh" => nTx < MaxTx
        /\ content = "pc" => (PcVisible /\ pc.txs # <<>>)
        /\ content = "orph" => orph # <<>>
        /\ \A i \in 1..Len(txs) : TxAt(txs[i]) = {}
        /\ nTx' = IF content = "fresh" THEN nTx + 1 ELSE nTx
        /\ blk' = [blk EXCEPT ![t] = [h |-> Len(chain), p |-> chain[Len(chain)], txs |-> txs]]
        /\ chain' = Append(chain, t) /\ nTag' = t
        /\ orph' = IF content = "orph" THEN <<>> ELSE orph
        /\ notify' = (IF reorg # NoR THEN <<[f |-> "r", h |-> 0, r |-> reorg]>> ELSE <<>>) \o <<[f |-> "h", h |-> t, r |-> NoR]>>
        /\ reorg' = NoR
        /\ act' = [name |-> "Store", tag |-> t, h |-> Len(chain), txs |-> txs]
  /\ res' = [kind |-> "ok"]
  /\ UNCHANGED <<nRev, nL1, nPc, nGw, nRecv, nTick, l1, l1pend, pc, gw, tee, slot, sub, got, open, req>>

Revert ==
  /\ Free \/ WinEnv({"heads"})
  /\ EnvOK /\ notify = <<>> /\ nRev < MaxReverts /\ Len(chain) > 1
  /\ LET t == chain[Len(chain)] h == Height IN
     /\ chain' = SubSeq(chain, 1, Len(chain) - 1)
     /\ reorg' = IF reorg = NoR THEN [sh |-> h, st |-> t, eh |-> h, et |-> t] ELSE [reorg EXCEPT !.sh = h, !.st = t]
     /\ orph' = blk[t].txs
     /\ act' = [name |-> "Revert", tag |-> t]
  /\ nRev' = nRev + 1 /\ res' = [kind |-> "ok"]
  /\ UNCHANGED <<blk, nTag, nTx, nL1, nPc, nGw, nRecv, nTick, l1, l1pend, pc, gw, notify, tee, slot, sub, got, open, req>>

(* Feed.Send into the handler's Tee subscription (plain: dropped when its slot is full); with
   TeeStage = FALSE the Tee goroutine forwards at once: every listening subscription's keep-last
   slot is overwritten *)
Into(sl, f, v) ==
  [s \in Subs |-> IF Running(s) /\ Lis(sub[s], f)
                  THEN CASE f = "h" -> [sl[s] EXCEPT !.h = v] [] f = "r" -> [sl[s] EXCEPT !.r = v]
                         [] f = "p" -> [sl[s] EXCEPT !.p = v] [] f = "l" -> [sl[s] EXCEPT !.l = v]
                         [] f = "x" -> [sl[s] EXCEPT !.x = v]
                  ELSE sl[s]]
TeeVal(f) == CASE f = "h" -> tee.h [] f = "r" -> tee.r [] f = "p" -> tee.p [] f = "l" -> tee.l
TeeNone(f) == CASE f = "h" -> 0 [] f = "r" -> NoR [] f = "p" -> NoP [] f = "l" -> -1
TeeSet(f, v) == CASE f = "h" -> [tee EXCEPT !.h = v] [] f = "r" -> [tee EXCEPT !.r = v]
                  [] f = "p" -> [tee EXCEPT !.p = v] [] f = "l" -> [tee EXCEPT !.l = v]
SendOn(f, v) ==
  IF TeeStage
  THEN /\ tee' = IF TeeVal(f) = TeeNone(f) THEN TeeSet(f, v) ELSE tee
       /\ slot' = slot
  ELSE /\ tee' = tee
       /\ slot' = Into(slot, f, v)

SyncSend ==
  /\ notify # <<>>
  /\ LET m == Head(notify) IN
     /\ IF m.f = "h" THEN SendOn("h", m.h) ELSE SendOn("r", m.r)
     /\ act' = [name |-> "SyncSend", f |-> m.f]
  /\ notify' = Tail(notify) /\ res' = [kind |-> "ok"]
  /\ UNCHANGED <<chain, blk, nTag, nTx, nRev, nL1, nPc, nGw, nRecv, nTick, l1, l1pend, pc, gw, orph, reorg, sub, got, open, req>>

TeeForward(f) ==
  /\ TeeStage /\ TeeVal(f) # TeeNone(f)
  /\ slot' = Into(slot, f, TeeVal(f)) /\ tee' = TeeSet(f, TeeNone(f))
  /\ act' = [name |-> "TeeForward", f |-> f] /\ res' = [kind |-> "ok"]
  /\ UNCH_ENV /\ UNCHANGED <<sub, got, open, req>>

(* Blockchain.SetL1Head: the event goes on the feed FIRST, the database is written SECOND (L1Write):
   a subscriber that handles the event in between reads the OLD L1 head.  FixL1Order = TRUE: the
   database is written before the event is sent. *)
SetL1(n) ==
  /\ Free /\ EnvOK /\ nL1 < MaxL1 /\ n > l1 /\ l1pend = -1
  /\ nL1' = nL1 + 1 /\ SendOn("l", n)
  /\ IF FixL1Order THEN l1' = n /\ l1pend' = -1 ELSE l1' = l1 /\ l1pend' = n
  /\ act' = [name |-> "SetL1", n |-> n] /\ res' = [kind |-> "ok"]
  /\ UNCHANGED <<chain, blk, nTag, nTx, nRev, nPc, nGw, nRecv, nTick, pc, gw, orph, reorg, notify, sub, got, open, req>>

L1Write ==
  /\ l1pend # -1
  /\ l1' = l1pend /\ l1pend' = -1
  /\ act' = [name |-> "L1Write"] /\ res' = [kind |-> "ok"]
  /\ UNCHANGED <<chain, blk, nTag, nTx, nRev, nL1, nPc, nGw, nRecv, nTick, pc, gw, orph, reorg, notify, tee, slot, sub, got, open, req>>

(* the poller: AdvanceTo(height+1); a full block opens a new round at height+1, a delta appends
   to the current round; what ApplyUpdate returns is published *)
PcFull(withTx) ==
  /\ Free /\ EnvOK /\ nPc < MaxPc /\ (withTx => nTx < MaxTx)
  /\ pc' = [num |-> Len(chain), rid |-> nPc + 1, txs |-> IF withTx THEN <<nTx + 1>> ELSE <<>>]
  /\ nTx' = IF withTx THEN nTx + 1 ELSE nTx
  /\ nPc' = nPc + 1 /\ SendOn("p", pc')
  /\ act' = [name |-> "PcFull", num |-> pc'.num, rid |-> pc'.rid, txs |-> pc'.txs] /\ res' = [kind |-> "ok"]
  /\ UNCHANGED <<chain, blk, nTag, nRev, nL1, nGw, nRecv, nTick, l1, l1pend, gw, orph, reorg, notify, sub, got, open, req>>

PcDelta ==
  /\ Free /\ EnvOK /\ nPc < MaxPc /\ nTx < MaxTx /\ PcVisible /\ Len(pc.txs) < 2
  /\ pc' = [pc EXCEPT !.txs = Append(@, nTx + 1)]
  /\ nTx' = nTx + 1 /\ nPc' = nPc + 1 /\ SendOn("p", pc')
  /\ act' = [name |-> "PcDelta", num |-> pc.num, rid |-> pc.rid, txs |-> <<nTx + 1>>, base |-> Len(pc.txs)] /\ res' = [kind |-> "ok"]
  /\ UNCHANGED <<chain, blk, nTag, nRev, nL1, nGw, nRecv, nTick, l1, l1pend, gw, orph, reorg, notify, sub, got, open, req>>

(* the gateway learns of a transaction (RECEIVED), then schedules it (CANDIDATE) *)
Gw(t) ==
  /\ Free /\ EnvOK /\ nGw < MaxGw /\ gw[t] < CANDIDATE
  /\ gw' = [gw EXCEPT ![t] = @ + 1] /\ nGw' = nGw + 1
  /\ act' = [name |-> "Gw", t |-> t, st |-> gw[t] + 1] /\ res' = [kind |-> "ok"]
  /\ UNCHANGED <<chain, blk, nTag, nTx, nRev, nL1, nPc, nRecv, nTick, l1, l1pend, pc, orph, reorg, notify, tee, slot, sub, got, open, req>>

(* the received-transaction feed (mempool / gateway submission): sent straight on the handler's feed *)
Recv(t) ==
  /\ Free /\ EnvOK /\ nRecv < MaxRecv /\ Ver >= 9
  /\ slot' = Into(slot, "x", t) /\ nRecv' = nRecv + 1 /\ UNCHANGED nTick
  /\ act' = [name |-> "Recv", t |-> t] /\ res' = [kind |-> "ok"]
  /\ UNCHANGED <<chain, blk, nTag, nTx, nRev, nL1, nPc, nGw, l1, l1pend, pc, gw, orph, reorg, notify, tee, sub, got, open, req>>

-----------------------------------------------------------------------------
(* ---- requests *)
BlockIds == {[k |-> "latest", n |-> 0]} \cup {[k |-> "num", n |-> n] : n \in 0..MaxLen} \cup {[k |-> "hash", n |-> t] : t \in 1..(MaxTag + 1)}

(* the handler reads the height (v8: the head's header) *)
SubResolve(s, c, kind, bid, flt, fl2, flp, flr, tx) ==
  /\ sub[s].st = "free" /\ open[c] /\ req[c] = 0 /\ kind \in Kinds /\ SubOK
  /\ \A t \in Subs : t < s => sub[t].st # "free"
  /\ \A t \in Subs : sub[t].st # "resolved"
  /\ kind \in {"status", "txs"} => bid.k = "latest"
  /\ bid.k = "hash" => (bid.n <= nTag \/ bid.n = MaxTag + 1)          \* a hash the client can know, or an unknown one
  /\ kind # "txs" => (~fl2 /\ ~flr)
  /\ kind \in {"heads", "status"} => (~flp /\ ~flt)
  /\ kind = "txs" => (fl2 \/ flp \/ flr)
  /\ (Ver = 8) => (~flp /\ kind \in {"heads", "events"})
  /\ kind = "status" <=> tx # 0
  /\ sub' = [sub EXCEPT ![s] = [FreeSub EXCEPT !.st = "resolved", !.kind = kind, !.conn = c, !.bid = bid, !.flt = flt,
                                               !.fl2 = fl2, !.flp = flp, !.flr = flr, !.tx = tx,
                                               !.last = Height, !.tl = chain[Len(chain)]]]
  /\ act' = [name |-> "SubResolve", s |-> s, c |-> c, kind |-> kind, bid |-> bid, flt |-> flt, fl2 |-> fl2, flp |-> flp, flr |-> flr, tx |-> tx]
  /\ res' = [kind |-> "none"]
  /\ UNCH_ENV /\ UNCHANGED <<tee, slot, got, open, req>>

(* resolveBlockRange after the height read, with the height that was read *)
StartOf(r) ==
  CASE r.bid.k = "latest" -> [e |-> 0, n |-> r.last, t |-> r.tl]
    [] r.bid.k = "hash" ->
         IF r.bid.n <= MaxTag /\ OnChain(r.bid.n)
         THEN (IF r.last >= MaxBack /\ blk[r.bid.n].h <= r.last - MaxBack THEN [e |-> 68, n |-> 0, t |-> 0]
               ELSE [e |-> 0, n |-> blk[r.bid.n].h, t |-> r.bid.n])
         ELSE [e |-> 24, n |-> 0, t |-> 0]
    [] r.bid.k = "num" ->
         IF (Ver = 8 /\ ~Has(r.bid.n)) \/ (Ver >= 9 /\ r.bid.n > r.last) THEN [e |-> 24, n |-> 0, t |-> 0]
         ELSE IF r.last >= MaxBack /\ r.bid.n <= r.last - MaxBack THEN [e |-> 68, n |-> 0, t |-> 0]
         ELSE [e |-> 0, n |-> r.bid.n, t |-> IF Has(r.bid.n) THEN TagAt(r.bid.n) ELSE 0]

(* onStart up to its first blocking point *)
Started(r) ==
  CASE r.kind = "heads" -> Advance([r EXCEPT !.mode = "hist", !.cur = r.start])
    [] r.kind = "events" ->
         IF Ver = 8 THEN Emit([r EXCEPT !.mode = "hist", !.nextb = r.last + 1], CanonEvents(r, r.start, r.last, FALSE))
         ELSE Emit([r EXCEPT !.mode = "hist"], CanonEvents(r, r.start, r.last, TRUE))
    [] r.kind = "status" ->
         LET c == Check([r EXCEPT !.mode = "live"]) IN
         IF c.ok THEN c.r ELSE [r EXCEPT !.mode = "tick"]
    [] r.kind = "txs" -> [r EXCEPT !.mode = "live"]

SubRegister(s) ==
  /\ sub[s].st = "resolved"
  /\ LET r == sub[s]
         so == IF r.kind \in {"heads", "events"} THEN StartOf(r) ELSE [e |-> 0, n |-> 0, t |-> 0]
         err == IF so.e # 0 THEN so.e
                ELSE IF r.kind = "events" /\ Ver >= 9 /\ ~L1Set /\ ~FixL1None THEN -32603
                ELSE 0
     IN IF err # 0
        THEN /\ sub' = [sub EXCEPT ![s] = FreeSub]
             /\ res' = [kind |-> "error", code |-> err]
             /\ slot' = slot
        ELSE /\ sub' = [sub EXCEPT ![s] = Started([r EXCEPT !.st = "run", !.start = so.n, !.t0 = so.t, !.l1at = l1])]
             /\ res' = [kind |-> "ok"]
             /\ slot' = Clean(slot, sub')
  /\ act' = [name |-> "SubRegister", s |-> s]
  /\ UNCH_ENV /\ UNCHANGED <<tee, got, open, req>>

(* ---- the goroutine *)
Deliver(s) ==
  /\ Free /\ Running(s) /\ sub[s].pend # NoFr /\ Len(got[s]) < MaxGot
  /\ got' = [got EXCEPT ![s] = Append(@, sub[s].pend)]
  /\ LET f == sub[s].pend
         r0 == [sub[s] EXCEPT !.pend = NoFr, !.canc = @ \/ (f.k = "status" /\ f.a = L1F)]   \* sub.cancel() after ACCEPTED_ON_L1
     IN sub' = [sub EXCEPT ![s] = Advance(r0)]
  /\ slot' = Clean(slot, sub')
  /\ act' = [name |-> "Deliver", s |-> s] /\ res' = [kind |-> "frame", f |-> sub[s].pend]
  /\ UNCH_ENV /\ UNCHANGED <<tee, open, req>>

(* the handler of one received item up to its first write: [r, ok] *)
OnItem(r, f, sl) ==
  CASE f = "r" ->
         [ok |-> TRUE, r |-> Emit([r EXCEPT !.ded = IF r.kind \in {"events", "txs"} THEN NoDed ELSE @,
                                            !.nextb = IF r.kind = "events" /\ Ver = 8 THEN sl.r.sh ELSE @], <<ReorgFr(sl.r)>>)]
    [] f = "h" /\ r.kind = "heads" ->
         IF Ver = 10 THEN (IF Has(blk[sl.h].h) THEN [ok |-> TRUE, r |-> Emit(r, <<HeadFr(sl.h, TagAt(blk[sl.h].h))>>)]
                           ELSE [ok |-> FALSE, r |-> r])                      \* BlockCommitmentsByNumber fails
         ELSE [ok |-> TRUE, r |-> Emit(r, <<HeadFr(sl.h, sl.h)>>)]
    [] f = "h" /\ r.kind = "events" ->
         IF Ver = 8
         THEN LET fs == CanonEvents(r, r.nextb, blk[sl.h].h, FALSE) IN      \* re-read from the database: nextBlock..head.Number (as far as the chain goes now)
              IF fs # <<>> /\ r.canc THEN [ok |-> FALSE, r |-> r]
              ELSE [ok |-> TRUE, r |-> Emit([r EXCEPT !.nextb = blk[sl.h].h + 1], fs)]
         ELSE LET fs == EvFrames(r, sl.h, blk[sl.h].h, blk[sl.h].txs, L2) IN
              IF fs # <<>> /\ r.canc THEN [ok |-> FALSE, r |-> r] ELSE [ok |-> TRUE, r |-> Emit(r, fs)]
    [] f = "p" /\ r.kind = "events" ->
         LET m == Sel(r, sl.p.txs)
             d == IF m # <<>> THEN DedReset(r.ded, sl.p.num, sl.p.rid) ELSE r.ded
             new == SelectSeq(m, LAMBDA t : t \notin d.seen)
             d2 == [d EXCEPT !.seen = @ \cup {m[i] : i \in 1..Len(m)}]
         IN IF m # <<>> /\ r.canc THEN [ok |-> FALSE, r |-> r]
            ELSE [ok |-> TRUE, r |-> Emit([r EXCEPT !.ded = d2], [i \in 1..Len(new) |-> Fr("event", 0, sl.p.num, new[i], PRECONF)])]
    [] f = "h" /\ r.kind = "txs" -> [ok |-> TRUE, r |-> Emit(r, TxFrames(r, sl.h, blk[sl.h].h, blk[sl.h].txs, L2))]
    [] f = "p" /\ r.kind = "txs" ->
         LET m == Sel(r, sl.p.txs)
             d == IF m # <<>> THEN DedReset(r.ded, sl.p.num, sl.p.rid) ELSE r.ded
             new == SelectSeq(m, LAMBDA t : t \notin d.seen)
             d2 == [d EXCEPT !.seen = @ \cup {m[i] : i \in 1..Len(m)}]
         IN [ok |-> TRUE, r |-> Emit([r EXCEPT !.ded = d2], [i \in 1..Len(new) |-> Fr("tx", new[i], PRECONF, 0, sl.p.num)])]
    [] f = "x" /\ r.kind = "txs" -> [ok |-> TRUE, r |-> Emit(r, IF Match(r, sl.x) THEN <<Fr("tx", sl.x, RECEIVED, 0, 0)>> ELSE <<>>)]
    [] f \in {"h", "p"} /\ r.kind = "status" -> IF r.lastst < L2 THEN Check(r) ELSE [ok |-> TRUE, r |-> r]
    [] f = "l" /\ r.kind = "status" -> Check(r)

SlotClear(sl, f) ==
  CASE f = "h" -> [sl EXCEPT !.h = 0] [] f = "r" -> [sl EXCEPT !.r = NoR] [] f = "p" -> [sl EXCEPT !.p = NoP]
    [] f = "l" -> [sl EXCEPT !.l = -1] [] f = "x" -> [sl EXCEPT !.x = 0]

Take(s, f) ==
  /\ Idle(s) /\ Full(s, f) /\ (f = "h" => OrderOK(s))
  /\ LET o == OnItem(sub[s], f, slot[s]) IN
     /\ sub' = [sub EXCEPT ![s] = IF o.ok THEN o.r ELSE Dead(sub[s])]
     /\ slot' = Clean([slot EXCEPT ![s] = SlotClear(@, f)], sub')
  /\ act' = [name |-> "Take", s |-> s, f |-> f] /\ res' = [kind |-> "ok"]
  /\ UNCH_ENV /\ UNCHANGED <<tee, got, open, req>>

(* ctx.Done() wins the select (the only ready case, or a random choice among the ready ones) *)
Exit(s) ==
  /\ Running(s) /\ sub[s].canc
  /\ \/ Idle(s)
     \/ sub[s].mode = "tick"
  /\ sub' = [sub EXCEPT ![s] = Dead(@)] /\ slot' = Clean(slot, sub')
  /\ act' = [name |-> "Exit", s |-> s] /\ res' = [kind |-> "ok"]
  /\ UNCH_ENV /\ UNCHANGED <<tee, got, open, req>>

(* the status subscription's initial loop: the 1 s tickers of ALL waiting subscriptions fire (one
   clock); after 5 minutes those that still find nothing give up *)
Ticking(s) == Running(s) /\ sub[s].mode = "tick" /\ ~sub[s].canc
Ticked(r) == LET c == Check([r EXCEPT !.mode = "live"]) IN IF c.ok THEN c.r ELSE r
Tick ==
  /\ nTick < MaxTicks /\ \E s \in Subs : Ticking(s)
  /\ sub' = [s \in Subs |-> IF Ticking(s) THEN Ticked(sub[s]) ELSE sub[s]]
  /\ nTick' = nTick + 1
  /\ act' = [name |-> "Tick"] /\ res' = [kind |-> "ok"]
  /\ UNCHANGED <<chain, blk, nTag, nTx, nRev, nL1, nPc, nGw, nRecv, l1, l1pend, pc, gw, orph, reorg, notify, tee, slot, got, open, req>>

TickTimeout ==
  /\ \E s \in Subs : Ticking(s)
  /\ sub' = [s \in Subs |-> IF Ticking(s) THEN (IF StatusOf(sub[s].tx) = 0 THEN Dead(sub[s]) ELSE Ticked(sub[s])) ELSE sub[s]]
  /\ slot' = Clean(slot, sub')
  /\ act' = [name |-> "TickTimeout"] /\ res' = [kind |-> "ok"]
  /\ UNCH_ENV /\ UNCHANGED <<tee, got, open, req>>

(* ---- unsubscribe, close *)
UnsubCall(c, s) ==
  /\ open[c] /\ req[c] = 0 /\ sub[s].st \in {"run", "done"}
  /\ \A t \in Subs : sub[t].st # "resolved"
  /\ IF Running(s) /\ sub[s].conn = c
     THEN /\ sub' = [sub EXCEPT ![s].canc = TRUE] /\ req' = [req EXCEPT ![c] = s] /\ res' = [kind |-> "wait"]
     ELSE /\ UNCHANGED <<sub, req>> /\ res' = [kind |-> "error", code |-> 66]
  /\ act' = [name |-> "UnsubCall", c |-> c, s |-> s]
  /\ UNCH_ENV /\ UNCHANGED <<tee, slot, got, open>>

UnsubDone(c) ==
  /\ req[c] # 0 /\ sub[req[c]].st = "done" /\ open[c]
  /\ req' = [req EXCEPT ![c] = 0]
  /\ act' = [name |-> "UnsubDone", c |-> c, s |-> req[c]] /\ res' = [kind |-> "true"]
  /\ UNCH_ENV /\ UNCHANGED <<tee, slot, sub, got, open>>

(* the connection ends: every write fails from now on, every subscription context is cancelled;
   nothing of what the goroutines still do is visible, they all end *)
CloseConn(c) ==
  /\ open[c] /\ \A t \in Subs : sub[t].st # "resolved"
  /\ open' = [open EXCEPT ![c] = FALSE] /\ req' = [req EXCEPT ![c] = 0]
  /\ sub' = [s \in Subs |-> IF Running(s) /\ sub[s].conn = c THEN Dead(sub[s]) ELSE sub[s]]
  /\ slot' = Clean(slot, sub')
  /\ act' = [name |-> "CloseConn", c |-> c] /\ res' = [kind |-> "ok"]
  /\ UNCH_ENV /\ UNCHANGED <<tee, got>>

-----------------------------------------------------------------------------
Next ==
  \/ \E c \in {"empty", "fresh", "pc", "orph"} : Store(c)
  \/ Revert
  \/ \E n \in 0..(MaxLen - 1) : SetL1(n)
  \/ L1Write
  \/ \E b \in BOOLEAN : PcFull(b)
  \/ PcDelta
  \/ \E t \in Txs : Gw(t)
  \/ \E t \in Txs : Recv(t)
  \/ SyncSend
  \/ \E f \in {"h", "r", "p", "l"} : TeeForward(f)
  \/ \E s \in Subs : \E f \in Feeds : Take(s, f)
  \/ \E s \in Subs : Exit(s)
  \/ Tick
  \/ TickTimeout
  \/ \E c \in Conns : UnsubDone(c)
  \/ \E s \in Subs : Deliver(s)
  \/ \E c \in Conns, s \in Subs : UnsubCall(c, s)
  \/ \E c \in Conns : CloseConn(c)
  \/ \E s \in Subs, c \in Conns, kind \in Kinds, bid \in BlockIds, flt, fl2, flp, flr \in BOOLEAN, tx \in 0..MaxTx :
        SubResolve(s, c, kind, bid, flt, fl2, flp, flr, tx)
  \/ \E s \in Subs : SubRegister(s)

Spec == Init /\ [][Next]_vars

-----------------------------------------------------------------------------
(* ================= PROPERTIES ================= *)
Active(s) == sub[s].st \in {"run", "done"}

(* --- what holds for the code as it is, under every schedule --- *)

(* frames are written only while the subscription is registered; a closed connection, an ended
   subscription and a free slot hold nothing *)
TypeOK ==
  /\ \A s \in Subs : sub[s].st \in {"free", "resolved", "run", "done"}
  /\ \A s \in Subs : ~Running(s) => (slot[s] = NoSlots /\ sub[s].pend = NoFr /\ sub[s].todo = <<>>)
  /\ \A s \in Subs : (Running(s) /\ sub[s].conn # 0) => open[sub[s].conn]
  /\ \A c \in Conns : req[c] # 0 => (open[c] /\ sub[req[c]].conn = c /\ sub[req[c]].canc)
  /\ \A s \in Subs : \A f \in Feeds : Full(s, f) => Lis(sub[s], f)

(* nothing is delivered after the answer of the unsubscribe, nothing after the connection closed
   (action properties: the history of an ended subscription never grows) *)
EndedIsSilent == [][\A s \in Subs : sub[s].st = "done" => got'[s] = got[s]]_vars

(* a request is never answered with an internal error (FixL1None = FALSE: refuted on a node without an L1 head) *)
NoInternalError == [][res'.kind = "error" => res'.code \in {24, 66, 68}]_vars

(* the historical part of a heads subscription: the first frames are the headers of start..last
   in order, without gap or duplicate, as long as no reorg reaches into the range *)
RECURSIVE HeadsOf(_, _)
HeadsOf(q, i) == IF i > Len(q) THEN <<>> ELSE (IF q[i].k = "head" THEN <<q[i]>> ELSE <<>>) \o HeadsOf(q, i + 1)
HistPrefix ==
  \A s \in Subs : (Active(s) /\ sub[s].kind = "heads") =>
     LET hs == HeadsOf(got[s], 1) IN
     \A i \in 1..Len(hs) : (i <= sub[s].last - sub[s].start + 1 /\ \A j \in 1..i : hs[j].b = sub[s].start + j - 1)
                           \/ i > sub[s].last - sub[s].start + 1 \/ nRev > 0

(* a transaction status is never reported twice in a row; ACCEPTED_ON_L1 is the last status *)
RECURSIVE StatusesOf(_, _)
StatusesOf(q, i) == IF i > Len(q) THEN <<>> ELSE (IF q[i].k = "status" THEN <<q[i].a>> ELSE <<>>) \o StatusesOf(q, i + 1)
StatusNoRepeat ==
  \A s \in Subs : (Active(s) /\ sub[s].kind = "status") =>
     LET st == StatusesOf(got[s], 1) IN
     \A i \in 1..(Len(st) - 1) : st[i] # st[i + 1]

(* between two reorg notices a pre-confirmed item (event of a transaction / transaction) is sent once *)
RECURSIVE PcOnceFrom(_, _, _)
PcOnceFrom(q, i, seen) ==
  IF i > Len(q) THEN TRUE
  ELSE IF q[i].k = "reorg" THEN PcOnceFrom(q, i + 1, {})
  ELSE IF q[i].k = "event" /\ q[i].d = PRECONF THEN (<<q[i].b, q[i].c>> \notin seen /\ PcOnceFrom(q, i + 1, seen \cup {<<q[i].b, q[i].c>>}))
  ELSE IF q[i].k = "tx" /\ q[i].b = PRECONF THEN (<<q[i].d, q[i].a>> \notin seen /\ PcOnceFrom(q, i + 1, seen \cup {<<q[i].d, q[i].a>>}))
  ELSE PcOnceFrom(q, i + 1, seen)
PcOnce == \A s \in Subs : Active(s) => PcOnceFrom(got[s], 1, {})

(* finality filters: a subscription gets only what it asked for *)
FiltersRespected ==
  \A s \in Subs : Active(s) => \A i \in 1..Len(got[s]) :
     LET f == got[s][i] IN
     /\ f.k = "event" => (sub[s].kind = "events" /\ Match(sub[s], f.c) /\ (f.d = PRECONF => sub[s].flp))
     /\ f.k = "tx" => (/\ sub[s].kind = "txs" /\ Match(sub[s], f.a)
                       /\ (f.b = PRECONF => sub[s].flp) /\ (f.b = L2 => sub[s].fl2) /\ (f.b = RECEIVED => sub[s].flr))
     /\ f.k = "head" => sub[s].kind = "heads"
     /\ f.k = "status" => sub[s].kind = "status"

(* --- what a user relies on; holds under NoLag /\ QuietSub /\ ReorgPrio, fails without each --- *)

(* a client that applies the frames of a heads subscription keeps a consistent copy of the chain
   from its start block: every header extends the previous one, a reorg notice names exactly the
   top range of what the client holds (start / end number and hash), the headers of the new fork
   follow the notice *)
RECURSIVE FoldHeads(_, _, _)
FoldHeads(q, i, st) ==
  IF i > Len(q) \/ ~st.ok THEN st
  ELSE LET f == q[i] top == st.base + Len(st.view) - 1 IN
    IF f.k = "head" THEN
      FoldHeads(q, i + 1, [st EXCEPT !.ok = /\ f.b = st.base + Len(st.view)
                                              /\ (st.view # <<>> => blk[f.a].p = st.view[Len(st.view)])
                                              /\ f.c = f.a,
                                      !.view = Append(@, f.a)])
    ELSE IF f.k = "reorg" THEN
      IF st.view = <<>> THEN FoldHeads(q, i + 1, [st EXCEPT !.base = IF f.a < @ THEN f.a ELSE @])
      ELSE IF f.a > top THEN FoldHeads(q, i + 1, st)               \* blocks the client never held (it subscribed after the revert)
      ELSE IF f.a < st.base THEN FoldHeads(q, i + 1, [st EXCEPT !.ok = (f.c >= top /\ (f.c = top => f.d = st.view[Len(st.view)])), !.view = <<>>, !.base = f.a])
      ELSE FoldHeads(q, i + 1, [st EXCEPT !.ok = /\ f.c >= top /\ (f.c = top => f.d = st.view[Len(st.view)])
                                                  /\ st.view[f.a - st.base + 1] = f.b,
                                          !.view = SubSeq(@, 1, f.a - st.base)])
    ELSE FoldHeads(q, i + 1, st)
ClientView(s) == FoldHeads(got[s], 1, [ok |-> TRUE, view |-> <<>>, base |-> sub[s].start])

HeadsViewOK == \A s \in Subs : (Active(s) /\ sub[s].kind = "heads") => ClientView(s).ok

(* ... and the copy is complete whenever everything has been consumed *)
Settled(s) == Idle(s) /\ CaughtUp /\ reorg = NoR /\ ~sub[s].canc /\ Len(got[s]) < MaxGot
HeadsComplete ==
  \A s \in Subs : (sub[s].kind = "heads" /\ Settled(s)) =>
     LET v == ClientView(s) IN v.ok /\ v.base <= Height + 1 /\ v.view = SubSeq(chain, v.base + 1, Len(chain))

(* a subscription ends only because the client unsubscribed or the connection went away *)
NoSilentDeath ==
  \A s \in Subs : (sub[s].st = "done" /\ sub[s].kind \in {"heads", "events", "txs"}) => (sub[s].canc \/ ~open[sub[s].conn])

(* events: the canonical events a client holds after applying the frames (a reorg notice drops
   those at or above its start) are exactly the matching events of the chain from the start block,
   in chain order, each once *)
RECURSIVE FoldEvents(_, _, _)
FoldEvents(q, i, acc) ==
  IF i > Len(q) THEN acc
  ELSE LET f == q[i] IN
    IF f.k = "event" /\ f.a # 0 THEN FoldEvents(q, i + 1, Append(acc, <<f.a, f.b, f.c>>))
    ELSE IF f.k = "reorg" THEN FoldEvents(q, i + 1, SelectSeq(acc, LAMBDA e : e[2] < f.a))
    ELSE FoldEvents(q, i + 1, acc)
RECURSIVE WantEvents(_, _)
WantEvents(r, n) == IF n > Height THEN <<>>
                    ELSE LET m == Sel(r, blk[TagAt(n)].txs) IN [i \in 1..Len(m) |-> <<TagAt(n), n, m[i]>>] \o WantEvents(r, n + 1)
EventsComplete ==
  \A s \in Subs : (sub[s].kind = "events" /\ Settled(s)) => FoldEvents(got[s], 1, <<>>) = WantEvents(sub[s], sub[s].start)

(* v8 re-reads nextBlock..head.Number from the database on every head: whatever the schedule, what
   the client holds is complete up to the last head it handled (nothing is lost for good, the
   missing tail comes with the next head) *)
RECURSIVE WantEventsTo(_, _, _)
WantEventsTo(r, n, to) == IF n > Height \/ n > to THEN <<>>
                          ELSE LET m == Sel(r, blk[TagAt(n)].txs) IN [i \in 1..Len(m) |-> <<TagAt(n), n, m[i]>>] \o WantEventsTo(r, n + 1, to)
EventsCaughtUpV8 ==
  \A s \in Subs : (sub[s].kind = "events" /\ Ver = 8 /\ Settled(s)) =>
     FoldEvents(got[s], 1, <<>>) = WantEventsTo(sub[s], sub[s].start, sub[s].nextb - 1)

(* new transactions / receipts with ACCEPTED_ON_L2: exactly the matching transactions of the
   blocks stored after the subscription, in order, each once *)
RECURSIVE FoldTxs(_, _, _)
FoldTxs(q, i, acc) ==
  IF i > Len(q) THEN acc
  ELSE LET f == q[i] IN
    IF f.k = "tx" /\ f.b = L2 THEN FoldTxs(q, i + 1, Append(acc, <<f.c, f.d, f.a>>))
    ELSE IF f.k = "reorg" THEN FoldTxs(q, i + 1, SelectSeq(acc, LAMBDA e : e[2] < f.a))
    ELSE FoldTxs(q, i + 1, acc)
RECURSIVE WantTxs(_, _)
WantTxs(r, n) == IF n > Height THEN <<>>
                 ELSE LET m == IF TagAt(n) > r.tl THEN Sel(r, blk[TagAt(n)].txs) ELSE <<>> IN [i \in 1..Len(m) |-> <<TagAt(n), n, m[i]>>] \o WantTxs(r, n + 1)
TxsComplete ==
  \A s \in Subs : (sub[s].kind = "txs" /\ sub[s].fl2 /\ Settled(s)) => FoldTxs(got[s], 1, <<>>) = WantTxs(sub[s], 0)

(* ACCEPTED_ON_L1 is the last status and ends the subscription *)
StatusL1Last ==
  \A s \in Subs : (Active(s) /\ sub[s].kind = "status") =>
     LET st == StatusesOf(got[s], 1) IN \A i \in 1..(Len(st) - 1) : st[i] # L1F

(* once everything is consumed, a transaction at or below the L1 head has been reported ACCEPTED_ON_L1
   (refuted with FixL1Order = FALSE: the event was handled before the database write) *)
L1Reported ==
  \A s \in Subs : (sub[s].kind = "status" /\ Settled(s) /\ StatusOf(sub[s].tx) = L1F /\ nRev = 0) => sub[s].lastst = L1F

(* the status a client was told last is the status the node would answer now (refuted for the
   code as it is even under the three assumptions: no re-evaluation after a reorg notice) *)
StatusCurrent ==
  \A s \in Subs : (sub[s].kind = "status" /\ Settled(s) /\ (sub[s].lastst >= PRECONF \/ StatusOf(sub[s].tx) >= PRECONF)) =>
     sub[s].lastst = StatusOf(sub[s].tx)
=============================================================================

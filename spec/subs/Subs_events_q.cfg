\* events (v10) as coded, every schedule (quick)
\* measured (8 TLC workers shared over 3 runs): 197150 distinct / 611644 generated states, depth 22, 39.6s
CONSTANTS NSubs = 1 NConn = 1 InitLen = 2 MaxLen = 4 MaxTag = 3 MaxReverts = 1 MaxL1 = 0 MaxPc = 2 MaxTx = 2 MaxGw = 0 MaxRecv = 0 MaxTicks = 0 MaxBack = 3 MaxGot = 6
  Ver = 10 Kinds <- KEvents StartAtL1 = 0 NoLag = FALSE QuietSub = FALSE ReorgPrio = FALSE TeeStage = FALSE Window = TRUE FixL1None = FALSE FixL1Order = FALSE BlockIds <- BidsSmall
INIT Init
NEXT Next
VIEW view
INVARIANTS TypeOK HistPrefix FiltersRespected PcOnce StatusNoRepeat
PROPERTIES EndedIsSilent
CHECK_DEADLOCK FALSE

------------------------------ MODULE MCSubs ------------------------------
EXTENDS Subs
KHeads == {"heads"}
KEvents == {"events"}
KStatus == {"status"}
KTxs == {"txs"}
KAll == {"heads", "events", "status", "txs"}
KHE == {"heads", "events"}
NoL1 == -1
=============================================================================

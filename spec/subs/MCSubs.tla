------------------------------ MODULE MCSubs ------------------------------
EXTENDS Subs
KHeads == {"heads"}
KEvents == {"events"}
KStatus == {"status"}
KTxs == {"txs"}
KAll == {"heads", "events", "status", "txs"}
KHE == {"heads", "events"}
NoL1 == -1
BidsSmall == {[k |-> "latest", n |-> 0], [k |-> "num", n |-> 0], [k |-> "num", n |-> 1]}
BidsLatest == {[k |-> "latest", n |-> 0]}
BidsMed == {[k |-> "latest", n |-> 0], [k |-> "num", n |-> 0], [k |-> "num", n |-> 1], [k |-> "num", n |-> 3], [k |-> "hash", n |-> 2], [k |-> "hash", n |-> 9]}
=============================================================================

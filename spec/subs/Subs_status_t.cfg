\* transaction status (v10) as coded, every schedule
\* measured (8 TLC workers shared over 3 runs): 3927055 distinct / 17056452 generated states, depth 30, 316.1s
CONSTANTS NSubs = 1 NConn = 1 InitLen = 1 MaxLen = 3 MaxTag = 3 MaxReverts = 1 MaxL1 = 1 MaxPc = 1 MaxTx = 1 MaxGw = 2 MaxRecv = 0 MaxTicks = 2 MaxBack = 3 MaxGot = 6
  Ver = 10 Kinds <- KStatus StartAtL1 <- NoL1 NoLag = FALSE QuietSub = FALSE ReorgPrio = FALSE TeeStage = FALSE Window = FALSE FixL1None = FALSE FixL1Order = FALSE BlockIds <- BidsLatest
INIT Init
NEXT Next
VIEW view
INVARIANTS TypeOK HistPrefix FiltersRespected PcOnce StatusNoRepeat
PROPERTIES EndedIsSilent
CHECK_DEADLOCK FALSE

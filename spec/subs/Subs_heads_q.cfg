\* heads (v10), the code as it is under every schedule: Tee stage, window between height read and registration, reorg
\* measured (8 TLC workers shared over 3 runs): 72019 distinct / 209570 generated states, depth 24, 18.3s
CONSTANTS NSubs = 1 NConn = 1 InitLen = 2 MaxLen = 4 MaxTag = 4 MaxReverts = 1 MaxL1 = 0 MaxPc = 0 MaxTx = 1 MaxGw = 0 MaxRecv = 0 MaxTicks = 0 MaxBack = 3 MaxGot = 6
  Ver = 10 Kinds <- KHeads StartAtL1 <- NoL1 NoLag = FALSE QuietSub = FALSE ReorgPrio = FALSE TeeStage = TRUE Window = TRUE FixL1None = FALSE FixL1Order = FALSE BlockIds <- BidsMed
INIT Init
NEXT Next
VIEW view
INVARIANTS TypeOK HistPrefix FiltersRespected PcOnce StatusNoRepeat
PROPERTIES EndedIsSilent
CHECK_DEADLOCK FALSE

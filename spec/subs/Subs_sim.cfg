\* simulation constants for the lockstep replay (Ver, Kinds, StartAtL1 and the Fix switches are rewritten per run by checks/G08.py)
CONSTANTS NSubs = 4 NConn = 2 InitLen = 2 MaxLen = 6 MaxTag = 12 MaxReverts = 4 MaxL1 = 3 MaxPc = 5 MaxTx = 8 MaxGw = 4 MaxRecv = 2 MaxTicks = 3
  MaxBack = 1024 MaxGot = 24 Ver = 10 Kinds <- KAll StartAtL1 = 0 NoLag = FALSE QuietSub = FALSE ReorgPrio = FALSE TeeStage = FALSE Window = TRUE FixL1None = FALSE FixL1Order = FALSE
  MaxSteps = 90
INIT MBTInit
NEXT MBTNext
CHECK_DEADLOCK FALSE

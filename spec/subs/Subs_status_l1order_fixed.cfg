\* transaction status under the three assumptions, FixL1Order: L1Reported holds
\* measured (8 TLC workers shared over 3 runs): 819514 distinct / 2204726 generated states, depth 29, 114.5s
CONSTANTS NSubs = 1 NConn = 1 InitLen = 1 MaxLen = 3 MaxTag = 3 MaxReverts = 1 MaxL1 = 1 MaxPc = 1 MaxTx = 1 MaxGw = 2 MaxRecv = 0 MaxTicks = 2 MaxBack = 3 MaxGot = 6
  Ver = 10 Kinds <- KStatus StartAtL1 <- NoL1 NoLag = TRUE QuietSub = TRUE ReorgPrio = TRUE TeeStage = FALSE Window = FALSE FixL1None = FALSE FixL1Order = TRUE BlockIds <- BidsLatest
INIT Init
NEXT Next
VIEW view
INVARIANTS TypeOK HistPrefix FiltersRespected PcOnce StatusNoRepeat StatusL1Last L1Reported
PROPERTIES EndedIsSilent
CHECK_DEADLOCK FALSE

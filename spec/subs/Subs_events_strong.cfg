\* events (v10) under the three assumptions
\* measured (8 TLC workers shared over 3 runs): 475726 distinct / 1047394 generated states, depth 25, 90.7s
CONSTANTS NSubs = 1 NConn = 1 InitLen = 2 MaxLen = 4 MaxTag = 4 MaxReverts = 1 MaxL1 = 0 MaxPc = 2 MaxTx = 2 MaxGw = 0 MaxRecv = 0 MaxTicks = 0 MaxBack = 3 MaxGot = 6
  Ver = 10 Kinds <- KEvents StartAtL1 = 0 NoLag = TRUE QuietSub = TRUE ReorgPrio = TRUE TeeStage = FALSE Window = FALSE FixL1None = FALSE FixL1Order = FALSE BlockIds <- BidsSmall
INIT Init
NEXT Next
VIEW view
INVARIANTS TypeOK HistPrefix FiltersRespected PcOnce StatusNoRepeat EventsComplete NoSilentDeath
PROPERTIES EndedIsSilent
CHECK_DEADLOCK FALSE

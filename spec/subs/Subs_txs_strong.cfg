\* new transactions / receipts under the three assumptions
\* measured (8 TLC workers shared over 3 runs): 1152924 distinct / 2905340 generated states, depth 27, 90.1s
CONSTANTS NSubs = 1 NConn = 1 InitLen = 1 MaxLen = 3 MaxTag = 3 MaxReverts = 1 MaxL1 = 0 MaxPc = 2 MaxTx = 2 MaxGw = 0 MaxRecv = 1 MaxTicks = 0 MaxBack = 3 MaxGot = 6
  Ver = 10 Kinds <- KTxs StartAtL1 <- NoL1 NoLag = TRUE QuietSub = TRUE ReorgPrio = TRUE TeeStage = FALSE Window = FALSE FixL1None = FALSE FixL1Order = FALSE BlockIds <- BidsLatest
INIT Init
NEXT Next
VIEW view
INVARIANTS TypeOK HistPrefix FiltersRespected PcOnce StatusNoRepeat TxsComplete NoSilentDeath
PROPERTIES EndedIsSilent
CHECK_DEADLOCK FALSE

\* events (v10) on a node without an L1 head, as coded: EXPECTED VIOLATION of NoInternalError
\* measured (8 TLC workers shared over 3 runs): 64 distinct / 71 generated states, depth 4, 3.0s - ends with the expected violation of NoInternalError
CONSTANTS NSubs = 1 NConn = 1 InitLen = 2 MaxLen = 4 MaxTag = 3 MaxReverts = 1 MaxL1 = 0 MaxPc = 0 MaxTx = 1 MaxGw = 0 MaxRecv = 0 MaxTicks = 0 MaxBack = 3 MaxGot = 6
  Ver = 10 Kinds <- KEvents StartAtL1 <- NoL1 NoLag = TRUE QuietSub = TRUE ReorgPrio = TRUE TeeStage = FALSE Window = FALSE FixL1None = FALSE FixL1Order = FALSE BlockIds <- BidsSmall
INIT Init
NEXT Next
VIEW view
PROPERTIES NoInternalError
CHECK_DEADLOCK FALSE

\* new transactions / receipts (v10) as coded, every schedule (quick)
\* measured (8 TLC workers shared over 3 runs): 45432 distinct / 180791 generated states, depth 17, 11.0s
CONSTANTS NSubs = 1 NConn = 1 InitLen = 1 MaxLen = 2 MaxTag = 2 MaxReverts = 1 MaxL1 = 0 MaxPc = 1 MaxTx = 2 MaxGw = 0 MaxRecv = 1 MaxTicks = 0 MaxBack = 3 MaxGot = 6
  Ver = 10 Kinds <- KTxs StartAtL1 <- NoL1 NoLag = FALSE QuietSub = FALSE ReorgPrio = FALSE TeeStage = FALSE Window = FALSE FixL1None = FALSE FixL1Order = FALSE BlockIds <- BidsLatest
INIT Init
NEXT Next
VIEW view
INVARIANTS TypeOK HistPrefix FiltersRespected PcOnce StatusNoRepeat
PROPERTIES EndedIsSilent
CHECK_DEADLOCK FALSE

\* heads (v8) as coded, every schedule
\* measured (8 TLC workers shared over 3 runs): 66937 distinct / 196087 generated states, depth 24, 17.1s
CONSTANTS NSubs = 1 NConn = 1 InitLen = 2 MaxLen = 4 MaxTag = 4 MaxReverts = 1 MaxL1 = 0 MaxPc = 0 MaxTx = 1 MaxGw = 0 MaxRecv = 0 MaxTicks = 0 MaxBack = 3 MaxGot = 6
  Ver = 8 Kinds <- KHeads StartAtL1 <- NoL1 NoLag = FALSE QuietSub = FALSE ReorgPrio = FALSE TeeStage = TRUE Window = TRUE FixL1None = FALSE FixL1Order = FALSE BlockIds <- BidsMed
INIT Init
NEXT Next
VIEW view
INVARIANTS TypeOK HistPrefix FiltersRespected PcOnce StatusNoRepeat
PROPERTIES EndedIsSilent
CHECK_DEADLOCK FALSE

\* events (v8): complete up to the last handled head WITHOUT NoLag and QuietSub (it re-reads the range from the database); only ReorgPrio is assumed
\* measured (8 TLC workers shared over 3 runs): 21140 distinct / 52526 generated states, depth 18, 5.0s
CONSTANTS NSubs = 1 NConn = 1 InitLen = 2 MaxLen = 4 MaxTag = 4 MaxReverts = 1 MaxL1 = 0 MaxPc = 0 MaxTx = 2 MaxGw = 0 MaxRecv = 0 MaxTicks = 0 MaxBack = 3 MaxGot = 6
  Ver = 8 Kinds <- KEvents StartAtL1 = 0 NoLag = FALSE QuietSub = FALSE ReorgPrio = TRUE TeeStage = FALSE Window = TRUE FixL1None = FALSE FixL1Order = FALSE BlockIds <- BidsSmall
INIT Init
NEXT Next
VIEW view
INVARIANTS TypeOK HistPrefix FiltersRespected PcOnce StatusNoRepeat EventsCaughtUpV8
PROPERTIES EndedIsSilent
CHECK_DEADLOCK FALSE

\* two subscriptions (heads + events) on two connections as coded: unsubscribe ownership, close, independence
\* measured (8 TLC workers shared over 3 runs): 2259356 distinct / 10559347 generated states, depth 26, 326.9s
CONSTANTS NSubs = 2 NConn = 2 InitLen = 2 MaxLen = 3 MaxTag = 3 MaxReverts = 1 MaxL1 = 0 MaxPc = 0 MaxTx = 1 MaxGw = 0 MaxRecv = 0 MaxTicks = 0 MaxBack = 3 MaxGot = 6
  Ver = 10 Kinds <- KHE StartAtL1 = 0 NoLag = FALSE QuietSub = FALSE ReorgPrio = FALSE TeeStage = FALSE Window = FALSE FixL1None = FALSE FixL1Order = FALSE BlockIds <- BidsLatest
INIT Init
NEXT Next
VIEW view
INVARIANTS TypeOK HistPrefix FiltersRespected PcOnce StatusNoRepeat
PROPERTIES EndedIsSilent
CHECK_DEADLOCK FALSE

\* heads (v10), assumption NoLag dropped, no reorg: EXPECTED VIOLATION of HeadsViewOK (a gap)
\* measured (8 TLC workers shared over 3 runs): 3675 distinct / 8364 generated states, depth 13, 4.1s - ends with the expected violation of HeadsViewOK
CONSTANTS NSubs = 1 NConn = 1 InitLen = 2 MaxLen = 5 MaxTag = 5 MaxReverts = 0 MaxL1 = 0 MaxPc = 0 MaxTx = 1 MaxGw = 0 MaxRecv = 0 MaxTicks = 0 MaxBack = 3 MaxGot = 6
  Ver = 10 Kinds <- KHeads StartAtL1 <- NoL1 NoLag = FALSE QuietSub = TRUE ReorgPrio = TRUE TeeStage = TRUE Window = FALSE FixL1None = FALSE FixL1Order = FALSE BlockIds <- BidsSmall
INIT Init
NEXT Next
VIEW view
INVARIANTS HeadsViewOK
CHECK_DEADLOCK FALSE

\* events (v10), NoLag dropped: EXPECTED VIOLATION of EventsComplete
\* measured (8 TLC workers shared over 3 runs): 5232 distinct / 10111 generated states, depth 9, 6.4s - ends with the expected violation of EventsComplete
CONSTANTS NSubs = 1 NConn = 1 InitLen = 2 MaxLen = 4 MaxTag = 4 MaxReverts = 1 MaxL1 = 0 MaxPc = 0 MaxTx = 2 MaxGw = 0 MaxRecv = 0 MaxTicks = 0 MaxBack = 3 MaxGot = 6
  Ver = 10 Kinds <- KEvents StartAtL1 = 0 NoLag = FALSE QuietSub = TRUE ReorgPrio = TRUE TeeStage = FALSE Window = FALSE FixL1None = FALSE FixL1Order = FALSE BlockIds <- BidsSmall
INIT Init
NEXT Next
VIEW view
INVARIANTS EventsComplete
CHECK_DEADLOCK FALSE

\* transaction status under the three assumptions: EXPECTED VIOLATION of L1Reported (SetL1Head: feed first, database second)
\* measured (8 TLC workers shared over 3 runs): 4553 distinct / 7019 generated states, depth 8, 3.8s - ends with the expected violation of L1Reported
CONSTANTS NSubs = 1 NConn = 1 InitLen = 1 MaxLen = 3 MaxTag = 3 MaxReverts = 1 MaxL1 = 1 MaxPc = 1 MaxTx = 1 MaxGw = 2 MaxRecv = 0 MaxTicks = 2 MaxBack = 3 MaxGot = 6
  Ver = 10 Kinds <- KStatus StartAtL1 <- NoL1 NoLag = TRUE QuietSub = TRUE ReorgPrio = TRUE TeeStage = FALSE Window = FALSE FixL1None = FALSE FixL1Order = FALSE BlockIds <- BidsLatest
INIT Init
NEXT Next
VIEW view
INVARIANTS L1Reported
CHECK_DEADLOCK FALSE

------------------------------ MODULE SubsMBT ------------------------------
(* Behaviours for the lockstep replay on the real handlers.  What the binding cannot steer is kept
   out of the generated behaviours (it stays in the exhaustive runs, the free-running rounds and the
   directed probes):
     - the Go select picks at random among ready cases: a step is generated only if afterwards no
       idle subscription has two ready cases (Det);
     - goroutines run as soon as they can: internal steps (Tee forward, Take, Exit, the answer of
       a waiting Unsubscribe) have priority over everything the harness does (Quiet);
   The harness compares, after every step, the frame each subscription is blocked on and the
   number of registered subscriptions (at quiet states), and every answer. *)
EXTENDS MCSubs, Json
CONSTANT MaxSteps
VARIABLES hist, steps

R(S) == {RandomElement(S)}

Quiet ==
  /\ TeeEmpty /\ l1pend = -1
  /\ \A s \in Subs : ~(Idle(s) /\ NReady(s) >= 1)
  /\ \A s \in Subs : ~(Running(s) /\ sub[s].mode = "tick" /\ sub[s].canc)
  /\ \A c \in Conns : ~(req[c] # 0 /\ sub[req[c]].st = "done")
Det == \A s \in Subs : Idle(s) => NReady(s) <= 1

Forced ==
  \/ \E f \in {"h", "r", "p", "l"} : TeeForward(f)
  \/ \E s \in Subs : \E f \in Feeds : Take(s, f)
  \/ \E s \in Subs : Exit(s)
  \/ \E c \in Conns : UnsubDone(c)
  \/ (\A s \in Subs : ~(Idle(s) /\ Full(s, "l"))) /\ L1Write     \* the harness holds the database write back until the idle subscribers have handled the event

(* subscriptions that are mostly accepted, all kinds about equally often *)
SimSubscribe ==
  \E s \in Subs, c \in R(Conns), i \in R(1..8), j \in R(1..10), flt \in R(BOOLEAN), a \in R(BOOLEAN), b \in R(BOOLEAN), d \in R(BOOLEAN), tx \in R(1..(IF nTx + 1 < MaxTx THEN nTx + 1 ELSE MaxTx)) :
     LET k0 == CASE i \in {1, 2} -> "heads" [] i \in {3, 4, 5} -> "events" [] i \in {6, 7} -> "status" [] OTHER -> "txs"
         kind == IF k0 \in Kinds THEN k0 ELSE "heads"
         bid == CASE j <= 3 -> [k |-> "latest", n |-> 0]
                  [] j \in {4, 5, 6} -> [k |-> "num", n |-> RandomElement(0..Height)]
                  [] j = 7 -> [k |-> "num", n |-> RandomElement(0..MaxLen)]
                  [] j \in {8, 9} -> [k |-> "hash", n |-> chain[RandomElement(1..Len(chain))]]
                  [] OTHER -> [k |-> "hash", n |-> RandomElement(1..(MaxTag + 1))]
         fl2 == kind = "txs" /\ a
         flr == kind = "txs" /\ Ver >= 9 /\ d
         flp == (kind = "txs" /\ (b \/ (~fl2 /\ ~flr))) \/ (kind = "events" /\ Ver >= 9 /\ b)
     IN SubResolve(s, c, kind, IF kind \in {"heads", "events"} THEN bid ELSE [k |-> "latest", n |-> 0],
                   IF kind \in {"events", "txs"} THEN flt ELSE FALSE, fl2, flp, flr, IF kind = "status" THEN tx ELSE 0)

External ==
  \/ \E c \in R({"empty", "fresh", "fresh", "pc", "pc", "orph"}) : Store(c)
  \/ Revert
  \/ SyncSend \/ SyncSend
  \/ \E n \in R(0..(MaxLen - 1)) : SetL1(n)
  \/ \E b \in R(BOOLEAN) : PcFull(b)
  \/ PcDelta
  \/ \E t \in R(Txs) : Gw(t)
  \/ \E t \in R(Txs) : Recv(t)
  \/ \E s \in R(Subs) : Deliver(s)
  \/ \E s \in Subs : Deliver(s)
  \/ \E s \in Subs : Deliver(s)
  \/ Tick
  \/ nTick >= 2 /\ TickTimeout
  \/ \E c \in R(Conns), s \in R(Subs) : UnsubCall(c, s)
  \/ \E c \in R(Conns) : steps > 55 /\ CloseConn(c)
  \/ SimSubscribe \/ SimSubscribe

SimNext ==
  IF ~Quiet THEN Forced
  ELSE IF InWindow
  THEN \/ \E s \in Subs : SubRegister(s)
       \/ ((\E c \in R({"empty", "fresh"}) : Store(c)) \/ SyncSend \/ Revert) /\ Det'
  ELSE External /\ Det'

MBTInit == Init /\ hist = <<>> /\ steps = 0
Proj == [pend |-> [s \in Subs |-> sub[s].pend], reg |-> Cardinality({s \in Subs : sub[s].st = "run"}),
         st |-> [s \in Subs |-> sub[s].st], chain |-> chain, quiet |-> Quiet, l1 |-> l1]
Step == SimNext /\ steps' = steps + 1 /\ hist' = Append(hist, [a |-> act', res |-> res', post |-> Proj'])
EmitBeh == /\ PrintT(ToJson([steps |-> hist]))
        /\ chain' = [i \in 1..InitLen |-> i]
        /\ blk' = [t \in Tags |-> IF t <= InitLen THEN [h |-> t - 1, p |-> t - 1, txs |-> <<>>] ELSE NoBlk]
        /\ nTag' = InitLen /\ nTx' = 0 /\ nRev' = 0 /\ nL1' = 0 /\ nPc' = 0 /\ nGw' = 0 /\ nRecv' = 0 /\ nTick' = 0
        /\ l1' = StartAtL1 /\ l1pend' = -1 /\ pc' = NoP /\ gw' = [t \in Txs |-> 0] /\ orph' = <<>>
        /\ reorg' = NoR /\ notify' = <<>>
        /\ tee' = [h |-> 0, r |-> NoR, p |-> NoP, l |-> -1]
        /\ slot' = [s \in Subs |-> NoSlots] /\ sub' = [s \in Subs |-> FreeSub] /\ got' = [s \in Subs |-> <<>>]
        /\ open' = [c \in Conns |-> TRUE] /\ req' = [c \in Conns |-> 0]
        /\ act' = [name |-> "Init"] /\ res' = [kind |-> "none"] /\ hist' = <<>> /\ steps' = 0
(* the random instantiation of a schema may be disabled: a Skip keeps the behaviour going *)
Skip == steps' = steps + 1 /\ UNCHANGED <<vars, hist>>
MBTNext == IF steps >= MaxSteps THEN EmitBeh ELSE (Step \/ Skip)
=============================================================================

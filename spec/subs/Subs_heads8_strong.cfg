\* heads (v8) under the three assumptions
\* measured (8 TLC workers shared over 3 runs): 96666 distinct / 208840 generated states, depth 32, 11.7s
CONSTANTS NSubs = 1 NConn = 1 InitLen = 2 MaxLen = 4 MaxTag = 5 MaxReverts = 2 MaxL1 = 0 MaxPc = 0 MaxTx = 1 MaxGw = 0 MaxRecv = 0 MaxTicks = 0 MaxBack = 3 MaxGot = 6
  Ver = 8 Kinds <- KHeads StartAtL1 <- NoL1 NoLag = TRUE QuietSub = TRUE ReorgPrio = TRUE TeeStage = TRUE Window = FALSE FixL1None = FALSE FixL1Order = FALSE BlockIds <- BidsMed
INIT Init
NEXT Next
VIEW view
INVARIANTS TypeOK HistPrefix FiltersRespected PcOnce StatusNoRepeat HeadsViewOK HeadsComplete NoSilentDeath
PROPERTIES EndedIsSilent
CHECK_DEADLOCK FALSE

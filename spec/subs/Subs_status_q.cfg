\* transaction status (v10) as coded, every schedule (quick)
\* measured (8 TLC workers shared over 3 runs): 63402 distinct / 268893 generated states, depth 21, 12.0s
CONSTANTS NSubs = 1 NConn = 1 InitLen = 1 MaxLen = 2 MaxTag = 2 MaxReverts = 1 MaxL1 = 1 MaxPc = 1 MaxTx = 1 MaxGw = 1 MaxRecv = 0 MaxTicks = 1 MaxBack = 3 MaxGot = 6
  Ver = 10 Kinds <- KStatus StartAtL1 <- NoL1 NoLag = FALSE QuietSub = FALSE ReorgPrio = FALSE TeeStage = FALSE Window = FALSE FixL1None = FALSE FixL1Order = FALSE BlockIds <- BidsLatest
INIT Init
NEXT Next
VIEW view
INVARIANTS TypeOK HistPrefix FiltersRespected PcOnce StatusNoRepeat
PROPERTIES EndedIsSilent
CHECK_DEADLOCK FALSE

\* heads (v10), assumption NoLag dropped: EXPECTED VIOLATION of HeadsViewOK / NoSilentDeath
\* measured (8 TLC workers shared over 3 runs): 244 distinct / 392 generated states, depth 7, 3.4s - ends with the expected violation of NoSilentDeath
CONSTANTS NSubs = 1 NConn = 1 InitLen = 2 MaxLen = 4 MaxTag = 5 MaxReverts = 2 MaxL1 = 0 MaxPc = 0 MaxTx = 1 MaxGw = 0 MaxRecv = 0 MaxTicks = 0 MaxBack = 3 MaxGot = 6
  Ver = 10 Kinds <- KHeads StartAtL1 <- NoL1 NoLag = FALSE QuietSub = TRUE ReorgPrio = TRUE TeeStage = TRUE Window = FALSE FixL1None = FALSE FixL1Order = FALSE BlockIds <- BidsSmall
INIT Init
NEXT Next
VIEW view
INVARIANTS HeadsViewOK NoSilentDeath
CHECK_DEADLOCK FALSE

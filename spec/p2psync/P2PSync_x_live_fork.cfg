\* EXPECTED VIOLATION Converges (to A): a fork peer at the head
CONSTANTS HA = 2 HB = 2 ForkAt = 1 Start = 0 MaxIter = 0 WithCancel = FALSE
  Peers = {"honest", "fork"}
  Verify = TRUE Retry = TRUE CheckedStore = TRUE CtxAwareSends = TRUE FieldsChecked = TRUE
  ClassOf <- MCIdentity EmptyA <- MCEmptyMix EmptyB <- MCEmptyB
SPECIFICATION LiveSpec
VIEW view
PROPERTIES Converges
CHECK_DEADLOCK FALSE

\* a fork that branches BELOW the node's head cannot capture it: prefix of A
CONSTANTS HA = 3 HB = 3 ForkAt = 1 Start = 2 MaxIter = 3 WithCancel = TRUE
  Peers = {"honest", "fork"}
  Verify = TRUE Retry = TRUE CheckedStore = TRUE CtxAwareSends = TRUE FieldsChecked = TRUE
  ClassOf <- MCIdentity EmptyA <- MCEmptyMix EmptyB <- MCEmptyB
INIT Init
NEXT Next
VIEW view
INVARIANTS TypeOK StoredIsChain OnlyVerified EmittedVerified PrefixOfA NoSkip NoLeak ExitOnlyAfterCancel NoCrash
PROPERTIES StoreExtends
CHECK_DEADLOCK FALSE

\* EXPECTED VIOLATION Converges: no retry
CONSTANTS HA = 2 HB = 0 ForkAt = 0 Start = 0 MaxIter = 0 WithCancel = FALSE
  Peers = {"honest", "corrupt"}
  Verify = TRUE Retry = FALSE CheckedStore = TRUE CtxAwareSends = TRUE FieldsChecked = TRUE
  ClassOf <- MCIdentity EmptyA <- MCEmptyMix EmptyB <- MCNoEmpty
SPECIFICATION LiveSpec
VIEW view
PROPERTIES Converges
CHECK_DEADLOCK FALSE

\* a peer on another fork: the node's chain is still a verified chain of SOME peer (PrefixOfA not claimed)
CONSTANTS HA = 2 HB = 3 ForkAt = 1 Start = 0 MaxIter = 3 WithCancel = TRUE
  Peers = {"honest", "fork", "other"}
  Verify = TRUE Retry = TRUE CheckedStore = TRUE CtxAwareSends = TRUE FieldsChecked = TRUE
  ClassOf <- MCIdentity EmptyA <- MCEmptyMix EmptyB <- MCEmptyB
INIT Init
NEXT Next
VIEW view
INVARIANTS TypeOK StoredIsChain OnlyVerified EmittedVerified NoSkip NoLeak ExitOnlyAfterCancel NoCrash
PROPERTIES StoreExtends
CHECK_DEADLOCK FALSE

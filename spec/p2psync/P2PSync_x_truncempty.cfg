\* EXPECTED VIOLATION TruncNeverContributes (a reachability witness, not a defect): a verified fork block one of whose parts is the empty prefix a truncating peer sent
CONSTANTS HA = 2 HB = 2 ForkAt = 1 Start = 1 MaxIter = 2 WithCancel = TRUE
  Peers = {"fork", "trunc"}
  Verify = TRUE Retry = TRUE CheckedStore = TRUE CtxAwareSends = TRUE FieldsChecked = TRUE
  ClassOf <- MCIdentity EmptyA <- MCNoEmpty EmptyB <- MCEmptyB
INIT Init
NEXT Next
VIEW view
INVARIANTS TypeOK StoredIsChain OnlyVerified EmittedVerified NoSkip NoLeak ExitOnlyAfterCancel NoCrash TruncNeverContributes
PROPERTIES StoreExtends
CHECK_DEADLOCK FALSE

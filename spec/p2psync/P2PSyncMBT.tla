---------------------------- MODULE P2PSyncMBT ----------------------------
(* Behaviour generation for the lockstep replay of P2PSync.tla on the real p2p/sync Service.
   The harness is the environment: it releases the height read (a gate in the database read of
   getNextHeight), answers each Peerstore().Peers() call with the one peer the behaviour names,
   feeds each stream's answer when the behaviour says Deliver, stores what it took from Listen()
   when the behaviour says Consume, cancels the context.  It acts only when every goroutine of the
   service is durably blocked (testing/synctest), i.e. when no internal step is enabled; taking a
   body from Listen() into its one-slot mailbox is done eagerly at every such point (Recv is
   internal here).  An error body is not distinguished from no body (the harness drops error
   bodies as they come): the generator takes the silent branch of AdaptRun.  Where a class has more
   than one abstract answer (AnsSet: a truncating peer cuts before or after the first item) the
   Deliver step carries the chosen one (`k`) and the harness picks a concrete variant of it.
   Every history entry carries the projection of the state BEFORE the harness step; the last
   entry ("End") carries the final one. *)
EXTENDS P2PSyncWorld, Json

CONSTANT MaxSteps
VARIABLES hist, steps

R(S) == {RandomElement(S)}

SimInternal ==
  \/ ProcSpawn \/ ProcSendCancelled \/ ProcEnd
  \/ (AdaptRun /\ (~cancelled => adapt' # "sendErr"))
  \/ AdaptOkCancelled \/ AdaptErrCancelled
  \/ BridgeTake \/ BridgeOuterClosed \/ BridgeOuterCancel \/ BridgeRecv \/ BridgeInnerClosed
  \/ BridgeInnerCancel \/ BridgeFwdCancel \/ Exit \/ LoopTop \/ Recv

Quiescent == ~ENABLED SimInternal

Ids(seq) == [i \in 1..Len(seq) |-> [c |-> seq[i].c, h |-> seq[i].h]]
RunPos == CASE run = "reading" -> "height"
            [] run = "opening" -> "peers"
            [] run = "exited"  -> "exited"
            [] run = "idle"    -> "idle"       \* only when MaxIter is exhausted
            [] OTHER           -> "busy"
Proj == [stored  |-> Ids(stored),
         alive   |-> alive,
         run     |-> RunPos,
         nopen   |-> IF run = "opening" THEN nopen ELSE 0,
         waiting |-> IF run = "bridge" THEN {p \in PartSet : got[p].k = "pending"} ELSE {},
         hand    |-> [k |-> hand.k, c |-> hand.c, h |-> hand.h],
         leak    |-> Leaked]

Harness ==
  \/ ReadHeight
  \/ Open \/ Open \/ Open
  \/ \E p \in R(PartSet) : Deliver(p)
  \/ \E p \in PartSet : Deliver(p)
  \/ Consume \/ Consume
  \/ (steps > 20 /\ RandomElement(1..30) = 1 /\ Cancel)

SimNext == IF Quiescent THEN Harness ELSE SimInternal

MBTInit == Init /\ hist = <<>> /\ steps = 0

Step ==
  /\ SimNext
  /\ IF Quiescent
     THEN hist' = Append(hist, [a |-> act', pre |-> Proj]) /\ steps' = steps + 1
     ELSE UNCHANGED <<hist, steps>>

Emit ==
  /\ PrintT(ToJson(Append(hist, [a |-> [name |-> "End"], pre |-> Proj])))
  /\ stored' = [i \in 1..Start |-> Entry(Id("A", i - 1), TRUE)]
  /\ alive' = Peers /\ run' = "idle" /\ n' = 0 /\ nopen' = 0
  /\ asg' = [p \in PartSet |-> NoPeer] /\ got' = [p \in PartSet |-> Pending]
  /\ proc' = "off" /\ adapt' = "off" /\ abody' = NoBody /\ bridge' = "off" /\ carry' = NoBody
  /\ hand' = NoBody /\ emitted' = FALSE /\ cancelled' = FALSE /\ iters' = 0 /\ lucky' = FALSE
  /\ act' = [name |-> "Init"] /\ hist' = <<>> /\ steps' = 0

Done == Quiescent /\ (steps >= MaxSteps \/ ~ENABLED Harness)
MBTNext == IF Done THEN Emit ELSE Step
=============================================================================

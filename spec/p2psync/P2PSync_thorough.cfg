\* repaired design, 3 blocks, 4 peers
CONSTANTS HA = 3 HB = 0 ForkAt = 0 Start = 0 MaxIter = 4 WithCancel = TRUE
  Peers = {"honest", "corrupt", "other", "mute"}
  Verify = TRUE Retry = TRUE CheckedStore = TRUE CtxAwareSends = TRUE FieldsChecked = TRUE
  ClassOf <- MCIdentity EmptyA <- MCEmptyMix EmptyB <- MCNoEmpty
INIT Init
NEXT Next
VIEW view
INVARIANTS TypeOK StoredIsChain OnlyVerified EmittedVerified PrefixOfA NoSkip NoLeak ExitOnlyAfterCancel NoCrash
PROPERTIES StoreExtends
CHECK_DEADLOCK FALSE

\* EXPECTED VIOLATION NoLeak: the code as it is, cancellation while a goroutine is at a send that does not watch the context
CONSTANTS HA = 2 HB = 0 ForkAt = 0 Start = 0 MaxIter = 3 WithCancel = TRUE
  Peers = {"honest", "corrupt"}
  Verify = TRUE Retry = TRUE CheckedStore = TRUE CtxAwareSends = FALSE FieldsChecked = FALSE
  ClassOf <- MCIdentity EmptyA <- MCEmptyMix EmptyB <- MCNoEmpty
INIT Init
NEXT Next
VIEW view
INVARIANTS TypeOK StoredIsChain OnlyVerified EmittedVerified PrefixOfA NoSkip NoLeak ExitOnlyAfterCancel NoCrash
PROPERTIES StoreExtends
CHECK_DEADLOCK FALSE

\* EXPECTED VIOLATION ExitOnlyAfterCancel: mutant that gives up after a failed iteration
CONSTANTS HA = 2 HB = 0 ForkAt = 0 Start = 0 MaxIter = 3 WithCancel = FALSE
  Peers = {"honest", "corrupt", "trunc"}
  Verify = TRUE Retry = FALSE CheckedStore = TRUE CtxAwareSends = TRUE FieldsChecked = TRUE
  ClassOf <- MCIdentity EmptyA <- MCEmptyMix EmptyB <- MCNoEmpty
INIT Init
NEXT Next
VIEW view
INVARIANTS TypeOK StoredIsChain OnlyVerified EmittedVerified PrefixOfA NoSkip NoLeak ExitOnlyAfterCancel NoCrash
PROPERTIES StoreExtends
CHECK_DEADLOCK FALSE

---------------------------- MODULE P2PSyncTrace ----------------------------
(* Trace validation of the free-running rounds against P2PSync.tla.

   The harness runs the real Service on real goroutines inside a synctest bubble (fake clock for
   the 10 s read deadlines), with the real random peer choice over scripted peers of mixed
   behaviour classes, and a consumer that stores what comes out of Listen().  Events, in one global
   order (a mutex taken inside the environment call):

     Open part peer        NewStream to peer succeeded (logged atomically with its context check)
     Req part peer n       the requesting side completed its request for part of block n
     DialFail peer         NewStream failed (the code then removes the peer)
     NoPeers               the peerstore was empty when a peer was to be drawn
     Recv k c h            the consumer took a body from Listen(): k = "good" (block c,h) or "err"
     Store ok c h          Blockchain.Store of that body returned
     Drop                  the consumer dropped an error body
     Cancel                the context was cancelled
     Exit                  Service.Run returned (Listen() is closed)
     Reset                 next round

   Silent: LoopTop, ReadHeight (its value shows in the next Open's n), Deliver, every pipeline step.
   Acceptance: high-water mark of the consumed line (TLCSet register 1), depth-first queue. *)
EXTENDS P2PSyncWorld, Json

VARIABLE l
tvars == <<vars, l>>
Trace == ndJsonDeserialize("trace.ndjson")

TraceInit == Init /\ l = 1
IsEvent(e) == l <= Len(Trace) /\ Trace[l].ev = e /\ l' = l + 1
E == Trace[l]

TReset ==
  /\ IsEvent("Reset")
  /\ stored' = [i \in 1..Start |-> Entry(Id("A", i - 1), TRUE)]
  /\ alive' = Peers /\ run' = "idle" /\ n' = 0 /\ nopen' = 0
  /\ asg' = [p \in PartSet |-> NoPeer] /\ got' = [p \in PartSet |-> Pending]
  /\ proc' = "off" /\ adapt' = "off" /\ abody' = NoBody /\ bridge' = "off" /\ carry' = NoBody
  /\ hand' = NoBody /\ emitted' = FALSE /\ cancelled' = FALSE /\ iters' = 0 /\ lucky' = FALSE
  /\ act' = [name |-> "Init"]

TOpen     == IsEvent("Open") /\ Open /\ act'.name = "Open" /\ act'.part = E.part /\ act'.peer = E.peer
TReq      == IsEvent("Req") /\ asg[E.part] = E.peer /\ n = E.n /\ UNCHANGED vars
TDialFail == IsEvent("DialFail") /\ Open /\ act'.name \in {"DialFail", "OpenCancelled"} /\ act'.peer = E.peer
TNoPeers  == IsEvent("NoPeers") /\ Open /\ act'.name = "NoPeers"
TRecv     == IsEvent("Recv") /\ Recv /\ act'.k = E.k /\ (E.k = "good" => act'.c = E.c /\ act'.h = E.h)
TStore    == IsEvent("Store") /\ Consume /\ act'.name = "Store" /\ act'.ok = E.ok /\ act'.c = E.c /\ act'.h = E.h
TDrop     == IsEvent("Drop") /\ Consume /\ act'.name = "DropErr"
TCancel   == IsEvent("Cancel") /\ Cancel
TExit     == IsEvent("Exit") /\ Exit

Silent ==
  /\ \/ ReadHeight \/ (\E p \in PartSet : Deliver(p))
     \/ ProcSpawn \/ ProcSendCancelled \/ ProcEnd \/ AdaptRun \/ AdaptOkCancelled \/ AdaptErrCancelled
     \/ BridgeTake \/ BridgeOuterClosed \/ BridgeOuterCancel \/ BridgeRecv \/ BridgeInnerClosed
     \/ BridgeInnerCancel \/ BridgeFwdCancel \/ LoopTop
  /\ l' = l

TraceNext == TReset \/ TOpen \/ TReq \/ TDialFail \/ TNoPeers \/ TRecv \/ TStore \/ TDrop \/ TCancel \/ TExit \/ Silent

ASSUME TLCSet(1, 0)
HighWater == IF l > TLCGet(1) THEN TLCSet(1, l) ELSE TRUE
TraceConstraint == HighWater
TraceAccepted == IF TLCGet(1) = Len(Trace) + 1 THEN TRUE
                 ELSE PrintT(<<"HIGHWATER", TLCGet(1)>>) /\ FALSE
TraceView == <<view, l>>
=============================================================================

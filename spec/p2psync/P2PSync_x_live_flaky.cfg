\* EXPECTED VIOLATION Converges: the only honest peer's dial fails once, it is removed from the peerstore and never comes back
CONSTANTS HA = 2 HB = 0 ForkAt = 0 Start = 0 MaxIter = 0 WithCancel = FALSE
  Peers = {"flaky", "corrupt"}
  Verify = TRUE Retry = TRUE CheckedStore = TRUE CtxAwareSends = TRUE FieldsChecked = TRUE
  ClassOf <- MCIdentity EmptyA <- MCEmptyMix EmptyB <- MCNoEmpty
SPECIFICATION LiveSpec
VIEW view
PROPERTIES Converges
CHECK_DEADLOCK FALSE

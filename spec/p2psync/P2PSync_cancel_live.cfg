\* repaired: after cancellation every goroutine ends and Listen() is closed
CONSTANTS HA = 2 HB = 0 ForkAt = 0 Start = 0 MaxIter = 2 WithCancel = TRUE
  Peers = {"honest", "corrupt"}
  Verify = TRUE Retry = TRUE CheckedStore = TRUE CtxAwareSends = TRUE FieldsChecked = TRUE
  ClassOf <- MCIdentity EmptyA <- MCEmptyMix EmptyB <- MCNoEmpty
SPECIFICATION LiveSpec
VIEW view
PROPERTIES CancelEndsAll
CHECK_DEADLOCK FALSE

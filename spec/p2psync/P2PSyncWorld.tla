---------------------------- MODULE P2PSyncWorld ----------------------------
(* The world of a simulated / recorded run: which class each peer has and which parts of which
   block are empty. checks/G10.py REWRITES this module for every world it uses (the same
   description goes to the Go engine, which builds the chains from it); this copy is the world
   "mixed" and only documents the shape. *)
EXTENDS MCP2PSync
SimClass == [p \in Peers |-> CASE p = "h1" -> "honest" [] p = "h2" -> "benign" [] p = "c1" -> "corrupt"
                                [] p = "t1" -> "trunc" [] p = "o1" -> "other" [] p = "m1" -> "mute"
                                [] p = "f1" -> "fork" [] p = "d1" -> "down" [] p = "k1" -> "flaky"]
SimEmptyA == {<<1, "txs">>, <<1, "evs">>, <<1, "cls">>, <<1, "sd">>, <<2, "cls">>, <<2, "sd">>,
              <<3, "txs">>, <<3, "evs">>, <<3, "cls">>, <<5, "evs">>, <<5, "cls">>, <<5, "sd">>}
SimEmptyB == {<<2, "evs">>, <<2, "cls">>, <<3, "sd">>, <<4, "txs">>, <<4, "evs">>, <<4, "cls">>}
=============================================================================

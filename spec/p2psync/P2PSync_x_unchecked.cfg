\* EXPECTED VIOLATION StoredIsChain: mutant consumer that stores without Store's head check (the duplicate emission then lands twice)
CONSTANTS HA = 2 HB = 0 ForkAt = 0 Start = 0 MaxIter = 3 WithCancel = FALSE
  Peers = {"honest"}
  Verify = TRUE Retry = TRUE CheckedStore = FALSE CtxAwareSends = TRUE FieldsChecked = TRUE
  ClassOf <- MCIdentity EmptyA <- MCEmptyMix EmptyB <- MCNoEmpty
INIT Init
NEXT Next
VIEW view
INVARIANTS TypeOK StoredIsChain OnlyVerified EmittedVerified PrefixOfA NoSkip NoLeak ExitOnlyAfterCancel NoCrash
PROPERTIES StoreExtends
CHECK_DEADLOCK FALSE

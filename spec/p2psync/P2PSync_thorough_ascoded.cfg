\* as coded, 3 blocks, start 1
CONSTANTS HA = 3 HB = 0 ForkAt = 0 Start = 1 MaxIter = 4 WithCancel = TRUE
  Peers = {"honest", "trunc", "down", "benign"}
  Verify = TRUE Retry = TRUE CheckedStore = TRUE CtxAwareSends = FALSE FieldsChecked = FALSE
  ClassOf <- MCIdentity EmptyA <- MCEmptyMix EmptyB <- MCNoEmpty
INIT Init
NEXT Next
VIEW view
INVARIANTS TypeOK StoredIsChain OnlyVerified EmittedVerified PrefixOfA NoSkip ExitOnlyAfterCancel NoCrash
PROPERTIES StoreExtends
CHECK_DEADLOCK FALSE

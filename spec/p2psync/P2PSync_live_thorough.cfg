\* liveness under fairness: with one honest peer among faulty ones the node reaches the honest height
CONSTANTS HA = 2 HB = 0 ForkAt = 0 Start = 0 MaxIter = 0 WithCancel = FALSE
  Peers = {"honest", "corrupt", "mute", "other"}
  Verify = TRUE Retry = TRUE CheckedStore = TRUE CtxAwareSends = TRUE FieldsChecked = TRUE
  ClassOf <- MCIdentity EmptyA <- MCEmptyMix EmptyB <- MCNoEmpty
SPECIFICATION LiveSpec
VIEW view
PROPERTIES Converges
CHECK_DEADLOCK FALSE

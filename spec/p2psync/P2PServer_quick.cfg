\* repaired iterator: every request of the domain (M = 16 stands for 2^64)
CONSTANTS H = 5 M = 16 Starts = {0, 1, 3, 4, 5, 9, 15} Limits = {0, 1, 2, 3, 7, 15} Steps = {0, 1, 2, 3, 11, 14, 15}
  CheckedArith = TRUE NilIterChecked = TRUE
SPECIFICATION FairSpec
INVARIANTS NoPanic Conforms
PROPERTIES Terminates
CHECK_DEADLOCK FALSE

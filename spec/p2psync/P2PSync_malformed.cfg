\* repaired design: a peer that leaves sub-messages out never ends the process, nothing unverified is emitted
CONSTANTS HA = 2 HB = 0 ForkAt = 0 Start = 0 MaxIter = 3 WithCancel = TRUE
  Peers = {"honest", "malformed"}
  Verify = TRUE Retry = TRUE CheckedStore = TRUE CtxAwareSends = TRUE FieldsChecked = TRUE
  ClassOf <- MCIdentity EmptyA <- MCEmptyMix EmptyB <- MCNoEmpty
INIT Init
NEXT Next
VIEW view
INVARIANTS TypeOK StoredIsChain OnlyVerified EmittedVerified PrefixOfA NoSkip NoLeak ExitOnlyAfterCancel NoCrash
PROPERTIES StoreExtends
CHECK_DEADLOCK FALSE

\* a fork and a truncating peer: an empty prefix of an honest answer is the truth for the fork block whose part is empty — still only verified blocks
CONSTANTS HA = 2 HB = 3 ForkAt = 1 Start = 0 MaxIter = 3 WithCancel = TRUE
  Peers = {"honest", "fork", "trunc"}
  Verify = TRUE Retry = TRUE CheckedStore = TRUE CtxAwareSends = TRUE FieldsChecked = TRUE
  ClassOf <- MCIdentity EmptyA <- MCEmptyMix EmptyB <- MCEmptyB
INIT Init
NEXT Next
VIEW view
INVARIANTS TypeOK StoredIsChain OnlyVerified EmittedVerified NoSkip NoLeak ExitOnlyAfterCancel NoCrash
PROPERTIES StoreExtends
CHECK_DEADLOCK FALSE

---------------------------- MODULE MCP2PSync ----------------------------
EXTENDS P2PSync
(* one peer per behaviour class: the peer's name is its class *)
MCIdentity == [p \in Peers |-> p]
MCNoEmpty  == {}
(* block 0 declares no class; block 1 is completely empty *)
MCEmptyMix == {<<0, "cls">>, <<1, "txs">>, <<1, "evs">>, <<1, "cls">>, <<1, "sd">>}
(* the fork's own block at height 1 has no events and no classes *)
MCEmptyB   == {<<1, "evs">>, <<1, "cls">>}
=============================================================================

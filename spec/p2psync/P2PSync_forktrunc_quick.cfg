\* a fork and a truncating peer, the node below the fork point: an empty prefix of an honest answer is the truth for the fork block whose part is empty — still only verified blocks of some peer's chain
CONSTANTS HA = 2 HB = 2 ForkAt = 1 Start = 1 MaxIter = 2 WithCancel = TRUE
  Peers = {"fork", "trunc"}
  Verify = TRUE Retry = TRUE CheckedStore = TRUE CtxAwareSends = TRUE FieldsChecked = TRUE
  ClassOf <- MCIdentity EmptyA <- MCNoEmpty EmptyB <- MCEmptyB
INIT Init
NEXT Next
VIEW view
INVARIANTS TypeOK StoredIsChain OnlyVerified EmittedVerified NoSkip NoLeak ExitOnlyAfterCancel NoCrash
PROPERTIES StoreExtends
CHECK_DEADLOCK FALSE

------------------------------ MODULE P2PSync ------------------------------
(* G10 — juno's peer-to-peer block synchronisation, requesting side, as it is coded at the pinned
   commit (p2p/sync/sync.go, p2p/sync/client.go, adapters/p2p2core, utils/pipeline).

   What the code does.  Service.Run loops: read the chain height, n := height + 1 (0 on an empty
   database); BlockFetcher.ProcessBlock(n) opens FIVE streams one after the other (headers,
   transactions(+receipts), events, classes, state diffs — each to a peer drawn at random from the
   peerstore, Iteration{start n, forward, limit 1, step 1}); one goroutine per stream collects the
   answer up to Fin / end of stream / read error / the 10 s read deadline and hands ONE part to the
   pipeline (the header goroutine hands one part per header message, keyed by the header's own
   number); Stage and FanIn (spec/prims/Stages.tla, G06) funnel the parts into
   processSpecBlockParts, which keeps the first part of each kind per block number and, once the
   five parts of n are there, starts adaptAndSanityCheckBlock: protobuf -> core types, counts
   against the header, classes compiled and hashed, the state diff rebuilt against the local state
   at n-1, Blockchain.SanityCheckNewHeight (block hash from all header fields and the recomputed
   commitments, transaction hashes, class hashes).  The result (a body, an error body, or nothing)
   travels through pipeline.Bridge to the UNBUFFERED channel behind Service.Listen().  The
   iteration ends when all five part goroutines have ended; the next iteration reads the height
   again.  NOTHING in p2p/sync stores a block: at this commit the consumer of Listen() is gone
   from node.go (the consensus driver calls ProcessBlock with its own channel).  The harness
   therefore plays the consumer the code had before (Store of every error-free body, in arrival
   order) — `Consume` below — and the properties are about the chain that consumer builds.

   Model.  Chains are abstract: block ids [c, h] (chain A = honest, B = a fork sharing heights
   < ForkAt with A).  A part's content is None (no header), Empty (an empty list, which IS the truth
   for a block whose part is empty), Bad (anything that is not the content of the block the header
   names) or Blk(id).  A peer's behaviour class fixes what it answers (Ans).  Goroutines are
   modelled from blocking point to blocking point where cancellation can separate them; Stage /
   FanIn delivery is one step (their own specification is G06's).

   Switches.  Mechanisms (TRUE = as coded; FALSE = expected-violation mutants): Verify, Retry,
   CheckedStore.  Defects (FALSE = as coded at the pinned commit, TRUE = repaired):
     CtxAwareSends  the send `orderedBlockBodiesCh <- ...` in processSpecBlockParts and every
                    `bodyCh <- BlockBody{Err: ...}` in adaptAndSanityCheckBlock do not watch the
                    context, their only receiver (Bridge) does: a cancellation between the
                    goroutine's context check and its send blocks it for ever (repaired f3916c0);
     FieldsChecked  adapters/p2p2core and the hash functions behind them dereference sub-messages a
                    peer may leave out (class `malformed`): the goroutine of
                    adaptAndSanityCheckBlock panics, nothing recovers it, the process dies
                    (repaired 3529932: the answer is refused with an error body). *)
EXTENDS Naturals, Sequences, FiniteSets, TLC

CONSTANTS HA,            \* blocks of the honest chain A: heights 0 .. HA-1
          HB,            \* blocks of chain B (0: no fork); B[h] = A[h] for h < ForkAt
          ForkAt,
          Start,         \* the node starts with A[0 .. Start-1]
          Peers,         \* peer names
          ClassOf,       \* [Peers -> behaviour class]
          EmptyA, EmptyB,\* sets of <<h, part>>: that part of that chain's block is empty
          MaxIter,       \* bound on iterations of Service.Run (0: unbounded)
          WithCancel,    \* the context may be cancelled
          Verify, Retry, CheckedStore,   \* mechanisms (TRUE = code)
          CtxAwareSends, FieldsChecked   \* defect switches (FALSE = the pinned commit)

Parts   == <<"hdr", "txs", "evs", "cls", "sd">>     \* the order ProcessBlock opens the streams in
PartSet == {Parts[i] : i \in 1..5}
Classes == {"honest", "benign", "flaky", "down", "fork", "mute", "trunc", "other", "corrupt", "malformed"}

C(k, c, h) == [k |-> k, c |-> c, h |-> h]
None    == C("none", "-", 0)
Empty   == C("empty", "-", 0)
Bad     == C("bad", "-", 0)
Mal     == C("mal", "-", 0)      \* a message that lacks a field the requesting side reads through
Pending == C("pending", "-", 0)
Blk(id) == C("blk", id.c, id.h)

Id(c, h)      == IF c = "B" /\ h < ForkAt THEN [c |-> "A", h |-> h] ELSE [c |-> c, h |-> h]
LenOf(c)      == IF c = "A" THEN HA ELSE HB
IsEmpty(id, p) == <<id.h, p>> \in (IF id.c = "A" THEN EmptyA ELSE EmptyB)
T(id, p)      == IF p = "hdr" THEN Blk(id) ELSE IF IsEmpty(id, p) THEN Empty ELSE Blk(id)
Missing(p)    == IF p = "hdr" THEN None ELSE Empty
ServeFrom(c, p, n) == IF n < LenOf(c) THEN T(Id(c, n), p) ELSE Missing(p)

(* What a peer of class k answers when asked for part p of block n (through the real server for
   the honest part of it; the rest is the fault stage of the harness):
   honest/benign/flaky  the truth (benign: reordered where order does not matter, junk after Fin,
                        Fin twice; flaky: its dial may fail);
   fork                 the truth of chain B;
   mute                 nothing / Fin only / reset / silence until the read deadline / a peer that
                        does not have block n yet;
   trunc                a proper prefix of the answer, no Fin: NO complete item (an empty list — which
                        is the truth for a block of ANOTHER chain whose part is empty) or some but
                        not all of them (see AnsSet; every non-empty part has at least two items);
   other                the answer for a neighbouring block;
   corrupt              one value changed, or one item too many;
   malformed            one sub-message of one item left out (a well-formed protobuf message all the
                        same), in a place the requesting side reads through. *)
Ans(k, p, n) ==
  CASE k \in {"honest", "benign", "flaky"} -> ServeFrom("A", p, n)
    [] k = "fork"    -> ServeFrom("B", p, n)
    [] k = "mute"    -> Missing(p)
    [] k = "trunc"   -> IF p = "hdr" THEN None
                        ELSE IF ServeFrom("A", p, n).k = "blk" THEN Bad ELSE Empty
    [] k = "other"   -> LET m == IF n > 0 THEN n - 1 ELSE n + 1 IN
                        IF p = "hdr" THEN None    \* a header is filed under ITS number
                        ELSE IF ServeFrom("A", p, m).k = "blk" THEN Bad ELSE Empty
    [] k = "corrupt" -> IF p = "hdr" THEN (IF n < HA THEN Bad ELSE None) ELSE Bad
    [] k = "malformed" -> IF p = "hdr" THEN (IF n < HA THEN Mal ELSE None) ELSE Mal
    [] OTHER         -> Missing(p)

(* the answers of a class whose abstract effect is not a function of the request *)
AnsSet(k, p, n) ==
  IF k = "trunc" /\ p # "hdr" /\ ServeFrom("A", p, n).k = "blk" THEN {Empty, Bad} ELSE {Ans(k, p, n)}

NoBody  == [k |-> "none", c |-> "-", h |-> 0, sound |-> TRUE]
ErrBody == [k |-> "err", c |-> "-", h |-> 0, sound |-> TRUE]
Good(id, s) == [k |-> "good", c |-> id.c, h |-> id.h, sound |-> s]
NoPeer  == "-"

VARIABLES stored,     \* the node's chain: sequence of [c, h, sound]
          alive,      \* the peerstore
          run,        \* Service.Run's goroutine: "idle" "reading" "opening" "bridge" "exited"
          n,          \* block number of the current iteration
          nopen,      \* streams opened so far in this iteration
          asg,        \* part -> peer it was requested from
          got,        \* part -> content that reached processSpecBlockParts (Pending: not yet)
          proc,       \* processSpecBlockParts' goroutine: "off" "recv" "pre" "send" "done"
          adapt,      \* adaptAndSanityCheckBlock's goroutine: "off" "run" "sendOk" "sendErr" "done"
          abody,      \* what it is about to send
          bridge,     \* pipeline.Bridge (in Run's goroutine): "off" "outer" "inner" "fwd"
          carry,      \* the body Bridge is forwarding
          hand,       \* the consumer: the body it received and has not yet handled
          emitted,    \* this iteration produced an error-free body
          cancelled, iters, lucky,
          act         \* last action (output only)

vars == <<stored, alive, run, n, nopen, asg, got, proc, adapt, abody, bridge, carry, hand, emitted,
          cancelled, iters, lucky, act>>
view == <<stored, alive, run, n, nopen, asg, got, proc, adapt, abody, bridge, carry, hand, emitted,
          cancelled, iters, lucky>>

Entry(id, s) == [c |-> id.c, h |-> id.h, sound |-> s]
Init ==
  /\ stored = [i \in 1..Start |-> Entry(Id("A", i - 1), TRUE)]
  /\ alive = Peers /\ run = "idle" /\ n = 0 /\ nopen = 0
  /\ asg = [p \in PartSet |-> NoPeer] /\ got = [p \in PartSet |-> Pending]
  /\ proc = "off" /\ adapt = "off" /\ abody = NoBody /\ bridge = "off" /\ carry = NoBody
  /\ hand = NoBody /\ emitted = FALSE /\ cancelled = FALSE /\ iters = 0 /\ lucky = FALSE
  /\ act = [name |-> "Init"]

A0(name) == act' = [name |-> name]

(* ---------------------------------------------------------------- Service.Run / ProcessBlock *)
HonestAlive == {q \in alive : ClassOf[q] \in {"honest", "benign"}}

LoopTop ==         \* `if err := ctx.Err(); err != nil { break }` passed; about to read the height
  /\ run = "idle" /\ ~cancelled
  /\ (MaxIter = 0 \/ iters < MaxIter)
  /\ run' = "reading" /\ A0("LoopTop")
  /\ UNCHANGED <<stored, alive, n, nopen, asg, got, proc, adapt, abody, bridge, carry, hand, emitted, cancelled, iters, lucky>>

ReadHeight ==
  /\ run = "reading"
  /\ run' = "opening" /\ n' = Len(stored) /\ nopen' = 0
  /\ asg' = [p \in PartSet |-> NoPeer] /\ got' = [p \in PartSet |-> Pending]
  /\ proc' = "off" /\ adapt' = "off" /\ abody' = NoBody /\ bridge' = "off" /\ carry' = NoBody
  /\ emitted' = FALSE
  /\ iters' = IF MaxIter = 0 THEN 0 ELSE iters + 1
  /\ lucky' \in BOOLEAN          \* prophecy: this iteration draws honest peers only (fairness)
  /\ act' = [name |-> "ReadHeight", n |-> n']
  /\ UNCHANGED <<stored, alive, hand, cancelled>>

Exit ==            \* `if ctx.Err() != nil { break }`; deferred close(blockCh)
  /\ run = "idle" /\ cancelled
  /\ run' = "exited" /\ A0("Exit")
  /\ UNCHANGED <<stored, alive, n, nopen, asg, got, proc, adapt, abody, bridge, carry, hand, emitted, cancelled, iters, lucky>>

Abort(name, q) ==  \* ProcessBlock returns an error: cancelIteration(), `continue`
  /\ run' = (IF Retry THEN "idle" ELSE "exited")
  /\ act' = [name |-> name, peer |-> q, part |-> Parts[nopen + 1]]
  /\ UNCHANGED <<stored, n, nopen, asg, got, proc, adapt, abody, bridge, carry, hand, emitted, cancelled, iters, lucky>>

Open ==
  /\ run = "opening" /\ nopen < 5
  /\ LET p == Parts[nopen + 1] IN
     \/ /\ alive = {} /\ Abort("NoPeers", NoPeer) /\ alive' = alive             \* errNoPeers
     \/ /\ cancelled /\ \E q \in alive :        \* NewStream(ctx) fails; randomPeerStream removes the peer
                         alive' = alive \ {q} /\ Abort("OpenCancelled", q)
     \/ /\ ~cancelled
        /\ \E q \in alive :
            /\ lucky /\ HonestAlive # {} => q \in HonestAlive
            /\ \/ /\ ClassOf[q] \in {"down", "flaky"}          \* dial fails: removePeer
                  /\ ~(lucky /\ ClassOf[q] = "flaky")
                  /\ alive' = alive \ {q} /\ Abort("DialFail", q)
               \/ /\ ClassOf[q] # "down"
                  /\ alive' = alive
                  /\ asg' = [asg EXCEPT ![p] = q] /\ nopen' = nopen + 1
                  /\ IF nopen + 1 = 5
                     THEN run' = "bridge" /\ proc' = "recv" /\ bridge' = "outer"
                     ELSE UNCHANGED <<run, proc, bridge>>
                  /\ act' = [name |-> "Open", part |-> p, peer |-> q]
                  /\ UNCHANGED <<stored, n, got, adapt, abody, carry, hand, emitted, cancelled, iters, lucky>>

(* ---------------------------------------------------------------- processSpecBlockParts *)
Complete(g) == g["hdr"].k \in {"blk", "bad", "mal"} /\ \A p \in PartSet : g[p].k # "pending"
AllDelivered == \A p \in PartSet : got[p].k # "pending"

Deliver(p) ==       \* a part goroutine's answer reaches the processor (through Stage and FanIn)
  /\ run = "bridge" /\ proc = "recv" /\ ~cancelled /\ got[p].k = "pending"
  /\ \E a \in AnsSet(ClassOf[asg[p]], p, n) :
       /\ got' = [got EXCEPT ![p] = a]
       /\ act' = [name |-> "Deliver", part |-> p, k |-> a.k]
  /\ proc' = IF Complete(got') THEN "pre" ELSE "recv"     \* `select { case <-ctx.Done(): default:`
  /\ UNCHANGED <<stored, alive, run, n, nopen, asg, adapt, abody, bridge, carry, hand, emitted, cancelled, iters, lucky>>

ProcSpawn ==        \* previous root read, adapt goroutine started, now at the send
  /\ proc = "pre" /\ proc' = "send" /\ adapt' = "run" /\ A0("ProcSpawn")
  /\ UNCHANGED <<stored, alive, run, n, nopen, asg, got, abody, bridge, carry, hand, emitted, cancelled, iters, lucky>>

ProcSendCancelled ==    \* only in the repaired code does this send watch the context
  /\ CtxAwareSends /\ proc = "send" /\ cancelled /\ proc' = "recv" /\ A0("ProcSendCancelled")
  /\ UNCHANGED <<stored, alive, run, n, nopen, asg, got, adapt, abody, bridge, carry, hand, emitted, cancelled, iters, lucky>>

ProcEnd ==          \* FanIn's channel closed (all five part goroutines ended, or the context)
  /\ proc = "recv" /\ (AllDelivered \/ cancelled) /\ proc' = "done" /\ A0("ProcEnd")
  /\ UNCHANGED <<stored, alive, run, n, nopen, asg, got, adapt, abody, bridge, carry, hand, emitted, cancelled, iters, lucky>>

(* ---------------------------------------------------------------- adaptAndSanityCheckBlock *)
Assemble(g) ==
  LET h == g["hdr"] IN
  IF h.k # "blk" THEN ErrBody
  ELSE LET id == [c |-> h.c, h |-> h.h]
           sound == \A p \in PartSet \ {"hdr"} : g[p] = T(id, p)
       IN IF Verify /\ ~sound THEN ErrBody ELSE Good(id, sound)

Malformed == \E p \in PartSet : got[p].k = "mal"

AdaptRun ==
  /\ adapt = "run"
  /\ cancelled \/ FieldsChecked \/ ~Malformed
  /\ IF cancelled
     THEN adapt' = "sendErr" /\ abody' = ErrBody          \* `case <-ctx.Done(): bodyCh <- BlockBody{Err: ctx.Err()}`
     ELSE LET b == Assemble(got) IN
          IF b.k = "good" THEN adapt' = "sendOk" /\ abody' = b
          ELSE \E e \in BOOLEAN :                          \* an error body, or (count mismatch) nothing
                 IF e THEN adapt' = "sendErr" /\ abody' = ErrBody ELSE adapt' = "done" /\ abody' = NoBody
  /\ A0("AdaptRun")
  /\ UNCHANGED <<stored, alive, run, n, nopen, asg, got, proc, bridge, carry, hand, emitted, cancelled, iters, lucky>>

AdaptCrash ==           \* a nil dereference in this goroutine: the process is gone, with everything in it
  /\ adapt = "run" /\ ~cancelled /\ ~FieldsChecked /\ Malformed
  /\ run' = "crashed" /\ proc' = "done" /\ adapt' = "done" /\ bridge' = "off"
  /\ abody' = NoBody /\ carry' = NoBody /\ hand' = NoBody /\ A0("Crash")
  /\ UNCHANGED <<stored, alive, n, nopen, asg, got, emitted, cancelled, iters, lucky>>

AdaptOkCancelled ==     \* `select { case <-ctx.Done(): case bodyCh <- BlockBody{...}: }`
  /\ adapt = "sendOk" /\ cancelled /\ adapt' = "done" /\ abody' = NoBody /\ A0("AdaptOkCancelled")
  /\ UNCHANGED <<stored, alive, run, n, nopen, asg, got, proc, bridge, carry, hand, emitted, cancelled, iters, lucky>>

AdaptErrCancelled ==
  /\ CtxAwareSends /\ adapt = "sendErr" /\ cancelled /\ adapt' = "done" /\ abody' = NoBody /\ A0("AdaptErrCancelled")
  /\ UNCHANGED <<stored, alive, run, n, nopen, asg, got, proc, bridge, carry, hand, emitted, cancelled, iters, lucky>>

(* ---------------------------------------------------------------- pipeline.Bridge (Run's goroutine) *)
BridgeTake ==       \* outer select: the processor's send meets the receive
  /\ bridge = "outer" /\ proc = "send" /\ bridge' = "inner" /\ proc' = "recv" /\ A0("BridgeTake")
  /\ UNCHANGED <<stored, alive, run, n, nopen, asg, got, adapt, abody, carry, hand, emitted, cancelled, iters, lucky>>

EndIter(name) ==
  /\ bridge' = "off"
  /\ run' = (IF Retry \/ emitted THEN "idle" ELSE "exited")
  /\ A0(name)
  /\ UNCHANGED <<stored, alive, n, nopen, asg, got, proc, adapt, abody, carry, hand, emitted, cancelled, iters, lucky>>

BridgeOuterClosed == bridge = "outer" /\ proc = "done" /\ EndIter("EndIter")
BridgeOuterCancel == bridge = "outer" /\ cancelled /\ EndIter("EndIterCancelled")

BridgeRecv ==       \* inner select: the adapt goroutine's send meets the receive
  /\ bridge = "inner" /\ adapt \in {"sendOk", "sendErr"}
  /\ carry' = abody /\ bridge' = "fwd" /\ adapt' = "done" /\ abody' = NoBody /\ A0("BridgeRecv")
  /\ UNCHANGED <<stored, alive, run, n, nopen, asg, got, proc, hand, emitted, cancelled, iters, lucky>>

BridgeInnerClosed ==
  /\ bridge = "inner" /\ adapt = "done" /\ bridge' = "outer" /\ A0("BridgeInnerClosed")
  /\ UNCHANGED <<stored, alive, run, n, nopen, asg, got, proc, adapt, abody, carry, hand, emitted, cancelled, iters, lucky>>

BridgeInnerCancel ==
  /\ bridge = "inner" /\ cancelled /\ bridge' = "outer" /\ A0("BridgeInnerCancel")
  /\ UNCHANGED <<stored, alive, run, n, nopen, asg, got, proc, adapt, abody, carry, hand, emitted, cancelled, iters, lucky>>

Recv ==             \* `out <- val` on the unbuffered Listen() channel meets the consumer's receive
  /\ bridge = "fwd" /\ hand.k = "none"
  /\ hand' = carry /\ carry' = NoBody /\ bridge' = "inner"
  /\ emitted' = (emitted \/ carry.k = "good")
  /\ act' = [name |-> "Recv", k |-> carry.k, c |-> carry.c, h |-> carry.h]
  /\ UNCHANGED <<stored, alive, run, n, nopen, asg, got, proc, adapt, abody, cancelled, iters, lucky>>

BridgeFwdCancel ==
  /\ bridge = "fwd" /\ cancelled /\ carry' = NoBody /\ bridge' = "inner" /\ A0("BridgeFwdCancel")
  /\ UNCHANGED <<stored, alive, run, n, nopen, asg, got, proc, adapt, abody, hand, emitted, cancelled, iters, lucky>>

(* ---------------------------------------------------------------- the consumer of Listen() *)
ParentOf(b) == Id(b.c, b.h - 1)
Accepts(b) ==       \* Blockchain.Store: the block extends the head (number, parent hash), and the
                    \* state it was verified against is the head's
  IF CheckedStore
  THEN /\ b.h = Len(stored)
       /\ b.h > 0 => LET top == stored[Len(stored)] IN ParentOf(b) = [c |-> top.c, h |-> top.h]
  ELSE TRUE

Consume ==
  /\ hand.k # "none"
  /\ hand' = NoBody
  /\ IF hand.k = "good" /\ Accepts(hand)
     THEN /\ stored' = Append(stored, Entry([c |-> hand.c, h |-> hand.h], hand.sound))
          /\ act' = [name |-> "Store", ok |-> TRUE, c |-> hand.c, h |-> hand.h]
     ELSE /\ stored' = stored
          /\ act' = [name |-> IF hand.k = "good" THEN "Store" ELSE "DropErr", ok |-> FALSE, c |-> hand.c, h |-> hand.h]
  /\ UNCHANGED <<alive, run, n, nopen, asg, got, proc, adapt, abody, bridge, carry, emitted, cancelled, iters, lucky>>

Cancel ==
  /\ WithCancel /\ ~cancelled /\ run \notin {"exited", "crashed"} /\ cancelled' = TRUE /\ A0("Cancel")
  /\ UNCHANGED <<stored, alive, run, n, nopen, asg, got, proc, adapt, abody, bridge, carry, hand, emitted, iters, lucky>>

Internal ==
  \/ ProcSpawn \/ ProcSendCancelled \/ ProcEnd \/ AdaptRun \/ AdaptCrash \/ AdaptOkCancelled \/ AdaptErrCancelled
  \/ BridgeTake \/ BridgeOuterClosed \/ BridgeOuterCancel \/ BridgeRecv \/ BridgeInnerClosed
  \/ BridgeInnerCancel \/ BridgeFwdCancel \/ Exit \/ LoopTop
Sys  == ReadHeight \/ Open \/ (\E p \in PartSet : Deliver(p)) \/ Internal \/ Recv \/ Consume
Next == Sys \/ Cancel
Spec == Init /\ [][Next]_vars

(* ---------------------------------------------------------------- properties *)
TypeOK ==
  /\ run \in {"idle", "reading", "opening", "bridge", "exited", "crashed"} /\ proc \in {"off", "recv", "pre", "send", "done"}
  /\ adapt \in {"off", "run", "sendOk", "sendErr", "done"} /\ bridge \in {"off", "outer", "inner", "fwd"}
  /\ alive \subseteq Peers /\ nopen \in 0..5 /\ n \in 0..(HA + HB + 1)

RealBlock(e) == e.h < LenOf(e.c) /\ Id(e.c, e.h) = [c |-> e.c, h |-> e.h]

(* the node's chain is a chain: block i at position i, each a real block of some peer's chain
   linked to its predecessor — in order, exactly once, nothing skipped *)
StoredIsChain ==
  \A i \in 1..Len(stored) :
    /\ stored[i].h = i - 1 /\ RealBlock(stored[i])
    /\ i > 1 => ParentOf(stored[i]) = [c |-> stored[i - 1].c, h |-> stored[i - 1].h]

(* nothing unverified: every stored block's five parts were the parts of the block its header names *)
OnlyVerified == \A i \in 1..Len(stored) : stored[i].sound
EmittedVerified == (hand.k = "good" => hand.sound) /\ (carry.k = "good" => carry.sound)

(* without a peer on another fork the node's chain is a prefix of the honest chain *)
PrefixOfA == \A i \in 1..Len(stored) : stored[i].c = "A" /\ stored[i].h < HA

(* requests are for the successor of the head at the time the height was read: nothing is skipped *)
NoSkip == run \in {"opening", "bridge"} => n <= Len(stored)

(* a consumed body changes the chain by at most one block, and only a block that extends the head *)
StoreExtends ==
  [][stored' # stored => /\ Len(stored') = Len(stored) + 1
                        /\ SubSeq(stored', 1, Len(stored)) = stored]_vars

(* cancellation: a goroutine whose only receiver is gone is blocked for ever *)
Leaked == bridge = "off" /\ \/ proc = "send" /\ ~ENABLED ProcSendCancelled
                            \/ adapt = "sendErr" /\ ~ENABLED AdaptErrCancelled
NoLeak == ~Leaked
(* NOT a property (expected-violation run P2PSync_x_truncempty.cfg, a reachability witness): a cut
   answer can be part of a verified block — cut before its first item it is an empty list, and that
   is the truth for a fork block whose part is empty *)
TruncNeverContributes ==
  carry.k = "good" => \A p \in PartSet : asg[p] = NoPeer \/ ClassOf[asg[p]] # "trunc"

(* nothing a peer sends ends the process *)
NoCrash == run # "crashed"
WoundDown == run = "exited" /\ proc \in {"off", "done"} /\ adapt \in {"off", "done"}
CancelEndsAll == cancelled ~> WoundDown
ExitOnlyAfterCancel == run = "exited" => cancelled

(* fairness: every step of the node and of the consumer is eventually taken; infinitely many
   iterations draw honest peers for all five requests (random choice among finitely many peers) *)
LuckyRead == ReadHeight /\ lucky'
Fair == WF_vars(Sys) /\ SF_vars(LuckyRead)
      /\ WF_vars(Consume) /\ WF_vars(Recv) /\ WF_vars(Internal) /\ WF_vars(Open)
      /\ \A p \in PartSet : WF_vars(Deliver(p))
LiveSpec == Init /\ [][Next]_vars /\ Fair
Converges == <>[](Len(stored) = HA /\ PrefixOfA)
=============================================================================

\* EXPECTED VIOLATION NoPanic: as coded, a request without iteration
CONSTANTS H = 5 M = 16 Starts = {0, 1, 3, 4, 5, 9, 15} Limits = {0, 1, 2, 3, 7, 15} Steps = {0, 1, 2, 3, 11, 14, 15}
  CheckedArith = TRUE NilIterChecked = FALSE
SPECIFICATION FairSpec
INVARIANTS NoPanic Conforms
PROPERTIES Terminates
CHECK_DEADLOCK FALSE

\* EXPECTED VIOLATION CancelEndsAll: as coded
CONSTANTS HA = 2 HB = 0 ForkAt = 0 Start = 0 MaxIter = 2 WithCancel = TRUE
  Peers = {"honest", "corrupt"}
  Verify = TRUE Retry = TRUE CheckedStore = TRUE CtxAwareSends = FALSE FieldsChecked = FALSE
  ClassOf <- MCIdentity EmptyA <- MCEmptyMix EmptyB <- MCNoEmpty
SPECIFICATION LiveSpec
VIEW view
PROPERTIES CancelEndsAll
CHECK_DEADLOCK FALSE

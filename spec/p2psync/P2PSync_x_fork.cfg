\* EXPECTED VIOLATION PrefixOfA: a peer on a fork that branches at the node's head captures the node
CONSTANTS HA = 2 HB = 2 ForkAt = 1 Start = 0 MaxIter = 3 WithCancel = FALSE
  Peers = {"honest", "fork"}
  Verify = TRUE Retry = TRUE CheckedStore = TRUE CtxAwareSends = TRUE FieldsChecked = TRUE
  ClassOf <- MCIdentity EmptyA <- MCEmptyMix EmptyB <- MCEmptyB
INIT Init
NEXT Next
VIEW view
INVARIANTS TypeOK StoredIsChain OnlyVerified EmittedVerified PrefixOfA NoSkip NoLeak ExitOnlyAfterCancel NoCrash
PROPERTIES StoreExtends
CHECK_DEADLOCK FALSE

------------------------------ MODULE P2PServer ------------------------------
(* G10 — the serving side of p2p sync (p2p/server/server.go, iterator.go): the iteration contract.

   A request names a start (block number, or a block hash), a direction, a limit and a step.  The
   answer is, for each block of the arithmetic progression start, start +/- step, ... — at most
   `limit` of them, ending before the first one the chain does not have — that block's messages
   (one header; or its transactions with receipts; its events; its contract diffs and declared
   classes; its class definitions), and then ONE Fin.  A request the server refuses (step 0,
   limit 0, unknown direction, no start, unknown hash) is answered with nothing at all: the stream
   is closed without Fin.

   Implementation layer = the iterator as coded, one action per loop turn, on machine integers
   modulo M (M stands for 2^64).  Declarative layer = Decl.  The property is their equality.
   Switches (FALSE = as coded at the pinned commit, TRUE = repaired — branch g10 of /repo):
     CheckedArith    iterator.Next() adds / subtracts the step without looking at overflow: a huge
                     step wraps round into the chain, so a "forward" request can be answered with
                     lower blocks (and vice versa); repaired 7a6bfa4: the iteration ends at the bounds;
     NilIterChecked  newIterator dereferences request.Iteration without a nil check: a request
                     without an iteration (an EMPTY message) panics the stream handler's goroutine —
                     the process dies; repaired 2f31e28: refused like any other malformed iteration.
   P2PServer_quick.cfg is the repaired iterator (the contract holds for every request),
   P2PServer_ascoded.cfg the pinned commit (ConformsAsCoded: the contract outside the two defects),
   P2PServer_x_wrap.cfg / _x_nil.cfg show each defect violating the contract on its own. *)
EXTENDS Integers, Sequences, TLC

CONSTANTS H,            \* the chain holds blocks 0 .. H-1
          M,            \* machine integers are 0 .. M-1
          Starts, Limits, Steps,
          CheckedArith, NilIterChecked

Dirs      == {"fwd", "bwd", "bad"}
StartKind == {"num", "hash", "nilhash", "unknownhash", "nostart"}

Requests ==
  [iter : {TRUE}, kind : StartKind, start : Starts, limit : Limits, step : Steps, dir : Dirs]
  \cup {[iter |-> FALSE, kind |-> "num", start |-> 0, limit |-> 0, step |-> 0, dir |-> "fwd"]}

Has(b) == b < H

(* ---------------------------------------------------------------- declarative layer *)
Refused(r) ==
  \/ ~r.iter
  \/ r.dir = "bad"
  \/ r.kind \in {"nilhash", "unknownhash", "nostart"}
  \/ r.kind = "hash" /\ ~Has(r.start)
  \/ r.step = 0 \/ r.limit = 0

(* the k-th element (k = 0, 1, ...) of the progression over the unbounded integers, or "out" *)
Elem(r, k) ==
  IF r.dir = "fwd" THEN r.start + k * r.step
  ELSE IF k * r.step > r.start THEN M * M       \* below zero: not a block
  ELSE r.start - k * r.step

RECURSIVE DeclFrom(_, _)
DeclFrom(r, k) ==
  IF k >= r.limit \/ ~Has(Elem(r, k)) THEN <<>>
  ELSE <<Elem(r, k)>> \o DeclFrom(r, k + 1)

Decl(r) == IF Refused(r) THEN [blocks |-> <<>>, end |-> (IF ~r.iter THEN "refused-noiter" ELSE "refused")]
           ELSE [blocks |-> DeclFrom(r, 0), end |-> "fin"]

(* ---------------------------------------------------------------- the iterator as coded *)
VARIABLES req, pc, bn, lim, reached, out, fin
vars == <<req, pc, bn, lim, reached, out, fin>>

Init == /\ req \in Requests /\ pc = "new" /\ bn = 0 /\ lim = 0 /\ reached = FALSE /\ out = <<>> /\ fin = "open"

NewIterator ==
  /\ pc = "new"
  /\ IF ~req.iter
     THEN /\ pc' = "done" /\ fin' = (IF NilIterChecked THEN "refused-noiter" ELSE "panic")
          /\ UNCHANGED <<bn, lim>>
     ELSE IF Refused(req)
     THEN pc' = "done" /\ fin' = "refused" /\ UNCHANGED <<bn, lim>>
     ELSE pc' = "loop" /\ bn' = req.start /\ lim' = req.limit /\ fin' = fin
  /\ UNCHANGED <<req, reached, out>>

Valid == lim # 0 /\ ~reached

Turn ==   \* `for it.Valid() { msg, err := getMsg(it); if err != nil { break }; yield(msg); it.Next() }`
  /\ pc = "loop"
  /\ IF ~Valid THEN pc' = "fin" /\ UNCHANGED <<bn, lim, reached, out>>
     ELSE IF ~Has(bn) THEN reached' = TRUE /\ pc' = "fin" /\ UNCHANGED <<bn, lim, out>>   \* db.ErrKeyNotFound
     ELSE /\ out' = Append(out, bn)
          /\ lim' = lim - 1
          /\ LET raw == IF req.dir = "fwd" THEN bn + req.step ELSE bn + M - req.step IN
             IF CheckedArith /\ (IF req.dir = "fwd" THEN bn + req.step >= M ELSE req.step > bn)
             THEN reached' = TRUE /\ bn' = bn
             ELSE reached' = reached /\ bn' = raw % M
          /\ pc' = "loop"
  /\ UNCHANGED <<req, fin>>

Fin == pc = "fin" /\ pc' = "done" /\ fin' = "fin" /\ UNCHANGED <<req, bn, lim, reached, out>>

Next == NewIterator \/ Turn \/ Fin
Spec == Init /\ [][Next]_vars
FairSpec == Spec /\ WF_vars(Next)

Result == [blocks |-> out, end |-> fin]
Conforms == pc = "done" => Result = Decl(req)
NoPanic  == fin # "panic"
(* without the two repairs the answer is still the declared one unless the request has no
   iteration, or the first element of the progression that is not a block wraps round into the chain *)
Machine(r, k) == (r.start + k * (IF r.dir = "fwd" THEN r.step ELSE M - r.step)) % M
WrapsIn(r) == \E k \in 0..(r.limit - 1) :
                /\ \A j \in 0..(k - 1) : Has(Elem(r, j))
                /\ ~Has(Elem(r, k)) /\ Has(Machine(r, k))
ConformsAsCoded == pc = "done" /\ req.iter /\ (Refused(req) \/ ~WrapsIn(req)) => Result = Decl(req)
Terminates == <>(pc = "done")
=============================================================================

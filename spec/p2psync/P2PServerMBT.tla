---------------------------- MODULE P2PServerMBT ----------------------------
(* Exports every request of the domain with the declared answer (Decl) and the answer of the
   iterator as configured (Result): one JSON line per request when its run ends. -workers 1. *)
EXTENDS P2PServer, Json
MBTNext ==
  /\ Next
  /\ pc' = "done" => PrintT(ToJson([req |-> req, res |-> [blocks |-> out', end |-> fin'], decl |-> Decl(req)]))
=============================================================================

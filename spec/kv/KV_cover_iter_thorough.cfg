\* edge cover of the iterator sub-machine, thorough tier: batches with up to 2 operations under the iterator; -workers 1
CONSTANTS
  KeyBytes <- KeysSmall
  Prefixes <- PrefixesCover
  Vals <- ValsFull
  MaxBatchOps = 2
  MaxSteps = 99
  EnableBatch = TRUE
  EnableSnap = TRUE
  EnableIter = TRUE
  NilBoundUnbounded = TRUE
  AllowPrefixNoBound = TRUE
  CoverMode = "iter"
INIT CoverInit
NEXT CoverNext
VIEW coverview
INVARIANTS IterSorted IterPositionsConsistent
PROPERTIES SnapshotIsolation StoreChangesOnlyByWrites IndexedReadsOwnWrites HasAgreesWithGet SnapshotReadsFrozen IterSeekIsLowerBound IterStepsAreAdjacent IterPrevIsAdjacent
CHECK_DEADLOCK FALSE

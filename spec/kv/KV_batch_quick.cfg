\* store + batches + Update helpers; exhaustive
CONSTANTS
  KeyBytes <- KeysSmall
  Prefixes <- PrefixesSmall
  Vals <- ValsSmall
  MaxBatchOps = 2
  MaxSteps = 4
  EnableBatch = TRUE
  EnableSnap = FALSE
  EnableIter = FALSE
  NilBoundUnbounded = TRUE
  AllowPrefixNoBound = FALSE
INIT Init
NEXT Next
VIEW view
INVARIANTS TypeOK
PROPERTIES DurabilityEventsAreNoOps StoreChangesOnlyByWrites FailedUpdateAppliesNothing BatchIsSequential IndexedReadsOwnWrites HasAgreesWithGet
CHECK_DEADLOCK FALSE

CONSTANTS
  KeyBytes <- KeysFull
  Prefixes <- PrefixesFull
  Vals <- ValsFull
  MaxBatchOps = 4
  MaxSteps = 0
  EnableBatch = TRUE
  EnableSnap = TRUE
  EnableIter = TRUE
  NilBoundUnbounded = TRUE
  AllowPrefixNoBound = TRUE
INIT TraceInit
NEXT TraceNext
VIEW TraceView
CONSTRAINT TraceConstraint
POSTCONDITION TraceAccepted
CHECK_DEADLOCK FALSE

\* everything enabled together (batches x snapshots x iterators) over a tiny alphabet; exhaustive.
\* The expected-violation configurations KV_x_*.cfg are this one with a mutant switched on.
CONSTANTS
  KeyBytes <- KeysTiny
  Prefixes <- PrefixesTiny
  Vals <- ValsTiny
  MaxBatchOps = 1
  MaxSteps = 5
  EnableBatch = TRUE
  EnableSnap = TRUE
  EnableIter = TRUE
  NilBoundUnbounded = TRUE
  AllowPrefixNoBound = FALSE
INIT Init
NEXT Next
VIEW view
INVARIANTS TypeOK IterSorted IterPositionsConsistent
PROPERTIES DurabilityEventsAreNoOps SnapshotIsolation StoreChangesOnlyByWrites FailedUpdateAppliesNothing BatchIsSequential IndexedReadsOwnWrites HasAgreesWithGet SnapshotReadsFrozen IterSeekIsLowerBound IterStepsAreAdjacent IterPrevIsAdjacent
CHECK_DEADLOCK FALSE

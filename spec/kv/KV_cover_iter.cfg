\* edge cover of the iterator sub-machine (KVCover.tla, CoverMode "iter"); run with -workers 1
CONSTANTS
  KeyBytes <- KeysSmall
  Prefixes <- PrefixesCover
  Vals <- ValsFull
  MaxBatchOps = 1
  MaxSteps = 99
  EnableBatch = TRUE
  EnableSnap = TRUE
  EnableIter = TRUE
  NilBoundUnbounded = TRUE
  AllowPrefixNoBound = TRUE
  CoverMode = "iter"
INIT CoverInit
NEXT CoverNext
VIEW coverview
INVARIANTS IterSorted IterPositionsConsistent
PROPERTIES SnapshotIsolation StoreChangesOnlyByWrites IndexedReadsOwnWrites HasAgreesWithGet SnapshotReadsFrozen IterSeekIsLowerBound IterStepsAreAdjacent IterPrevIsAdjacent
CHECK_DEADLOCK FALSE

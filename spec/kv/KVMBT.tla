------------------------------- MODULE KVMBT -------------------------------
(* Behaviour generation for the replayer: KV plus a history variable; at MaxSteps the history is
   printed as one JSON line and the machine is reset, so one long -simulate run yields many
   behaviours. *)
EXTENDS MCKV, Json

VARIABLE hist
mbtvars == <<vars, hist>>

MBTDepth == MaxSteps

MBTInit == Init /\ hist = <<>>

(* Simulation picks uniformly among successor STATES, which would drown the rare schemas (iterator
   moves) under the parameter-rich ones (Update); so each schema is instantiated with one random
   parameter choice per step: uniform over schemas instead. *)
R(S) == {RandomElement(S)}
SimNext ==
  \/ \E k \in R(K), v \in R(Vals) : Put(k, v)
  \/ \E k \in R(K), v \in R(Vals \ {""}) : Put(k, v)      \* twice: keep the store populated
  \/ \E k \in R(K) : Delete(k)
  \/ \E k \in R(K), c \in R(BOOLEAN) : Get(k, c)
  \/ \E k \in R(K) : Has(k)
  \/ \E k \in R(K), c \in R(BOOLEAN) : BatchGet(k, c)
  \/ \E k \in R(K) : BatchHas(k)
  \/ \E k \in R(K), c \in R(BOOLEAN) : SnapGet(k, c)
  \/ \E k \in R(K) : SnapHas(k)
  \/ \E k \in R(K) : IterSeek(k)
  \/ \E s \in R(K), e \in R(K) : DeleteRange(s, e)
  \/ \E ops \in R(UpdateOps), rk \in R(0..NK), f \in R(BOOLEAN), h \in R({"update", "write"}) :
        UpdateFn(ops, IF h = "write" THEN 0 ELSE rk, f, h)
  \/ \E ix \in R(BOOLEAN), sz \in R(BOOLEAN) : NewBatch(ix, sz)
  \/ \E o \in R(BatchOpAlphabet) : BatchAdd(o, "BatchOp")
  \/ \E o \in R({PutOp(k, v) : k \in K, v \in Vals}) : BatchAdd(o, "BatchOp")
  \/ BatchSize \/ BatchWrite \/ BatchDiscard
  \/ NewSnapshot \/ SnapClose
  \/ \E src \in R({"store", "batch", "snap"}), p \in R(Prefixes), ub \in R(BOOLEAN) : NewIter(src, p, ub)
  \/ \E p \in R(Prefixes \ {<<>>}) : NewIter("store", p, TRUE)
  \/ IterFirst \/ IterNext \/ IterPrev \/ IterNext \/ IterClose
  \/ Flush \/ Reopen

Step == SimNext /\ hist' = Append(hist, [a |-> act', res |-> res', store |-> store'])

Emit ==
  /\ PrintT(ToJson(hist))
  /\ store' = [k \in K |-> Absent] /\ batch' = NoBatch /\ snap' = NoSnap /\ it' = NoIt
  /\ steps' = 0 /\ act' = [name |-> "Init"] /\ res' = NoRes /\ hist' = <<>>

MBTNext == IF steps >= MaxSteps THEN Emit ELSE Step
=============================================================================

\* thorough tier of KV_all_tiny.cfg: everything enabled together over the tiny alphabet, 7 calls; exhaustive.
CONSTANTS
  KeyBytes <- KeysTiny
  Prefixes <- PrefixesTiny
  Vals <- ValsTiny
  MaxBatchOps = 2
  MaxSteps = 7
  EnableBatch = TRUE
  EnableSnap = TRUE
  EnableIter = TRUE
  NilBoundUnbounded = TRUE
  AllowPrefixNoBound = FALSE
INIT Init
NEXT Next
VIEW view
INVARIANTS TypeOK IterSorted IterPositionsConsistent
PROPERTIES DurabilityEventsAreNoOps SnapshotIsolation StoreChangesOnlyByWrites FailedUpdateAppliesNothing BatchIsSequential IndexedReadsOwnWrites HasAgreesWithGet SnapshotReadsFrozen IterSeekIsLowerBound IterStepsAreAdjacent IterPrevIsAdjacent
CHECK_DEADLOCK FALSE

\* store + batches + Update helpers; exhaustive, thorough tier
CONSTANTS
  KeyBytes <- KeysSmall
  Prefixes <- PrefixesSmall
  Vals <- ValsSmall
  MaxBatchOps = 3
  MaxSteps = 5
  EnableBatch = TRUE
  EnableSnap = FALSE
  EnableIter = FALSE
  NilBoundUnbounded = TRUE
  AllowPrefixNoBound = FALSE
INIT Init
NEXT Next
VIEW view
INVARIANTS TypeOK
PROPERTIES DurabilityEventsAreNoOps StoreChangesOnlyByWrites FailedUpdateAppliesNothing BatchIsSequential IndexedReadsOwnWrites HasAgreesWithGet
CHECK_DEADLOCK FALSE

\* EXPECTED VIOLATION of ReadersSeeOnePoint: Batch.Write applied key by key
CONSTANTS
  KeyBytes <- KeysLin
  Prefixes <- PrefixesLin
  Vals <- ValsSmall
  MaxBatchOps = 0
  MaxSteps = 0
  EnableBatch = FALSE
  EnableSnap = FALSE
  EnableIter = FALSE
  NilBoundUnbounded = TRUE
  AllowPrefixNoBound = TRUE
  Readers = {1}
  MaxCalls = 1
  MaxReads = 1
  Vias = {"batch"}
  ReadKinds = {"iter"}
  BatchMode = "keybykey"
  RangeMode = "atomic"
  IterMode = "atomic"
  SnapMode = "atomic"
INIT LinInit
NEXT LinNext
VIEW linview
INVARIANTS LinTypeOK ReadersSeeOnePoint
PROPERTIES WriterCallsAreAtomic
CHECK_DEADLOCK FALSE

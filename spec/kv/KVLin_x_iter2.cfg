\* EXPECTED VIOLATION of ReadersSeeOnePoint: iterator lists keys and fetches values at two points
CONSTANTS
  KeyBytes <- KeysLin
  Prefixes <- PrefixesLin
  Vals <- ValsSmall
  MaxBatchOps = 0
  MaxSteps = 0
  EnableBatch = FALSE
  EnableSnap = FALSE
  EnableIter = FALSE
  NilBoundUnbounded = TRUE
  AllowPrefixNoBound = TRUE
  Readers = {1}
  MaxCalls = 2
  MaxReads = 1
  Vias = {"batch"}
  ReadKinds = {"iter"}
  BatchMode = "atomic"
  RangeMode = "atomic"
  IterMode = "twopoint"
  SnapMode = "atomic"
INIT LinInit
NEXT LinNext
VIEW linview
INVARIANTS LinTypeOK ReadersSeeOnePoint
PROPERTIES WriterCallsAreAtomic
CHECK_DEADLOCK FALSE

------------------------------- MODULE KVLin -------------------------------
(* Reader-visible atomicity of the storage contract (property C15, "concurrent readers with a
   writer").  KV.tla is the contract as seen by ONE caller: a call is one step.  Seen by several
   callers a call has a duration, and the backends implement the long ones in several critical
   sections (db/memory: collect the keys of an iterator, sort, copy the values; copy the map for a
   snapshot; replay a batch's write log; Pebble: take a read state, publish a sequence number).
   This module is that refinement level:

     - `store` (KV's variable) stays the ABSTRACT content; it changes only at the linearisation
       point of a writer call - Put, Delete, DeleteRange, Batch.Write, Update(fn), Write(fn): the
       whole operation list at once (ApplyOps of KV.tla);
     - `mem` is what the backend holds; a writer call reaches it in one step or, depending on the
       mechanism constants, key by key; a reader call reads it in one step or in several;
     - every reader call has a window: it opens at the call (RBegin) and closes when the call that
       fixes the content returns - Get/Has: the call itself; NewIterator and NewSnapshot: the
       creation (everything read through the handle afterwards belongs to that window: later
       writes are invisible).  `cand` collects the abstract contents the store had inside the
       window.

   The contract (ReadersSeeOnePoint): the complete observation of a reader call - for an iterator
   the whole sequence of (key, value) pairs it yields, for a snapshot what an iteration of the
   snapshot yields - equals the view of ONE abstract content of its window; never a mixture of
   two, never one from before the call, never one from after the creation.

   Mechanism constants (the value "atomic" is the code as it is; the others are the defect classes
   the contract excludes, each with an expected-violation configuration):
     BatchMode  "keybykey"  Batch.Write replays its log through the store's own Put/Delete
     RangeMode  "keybykey"  DeleteRange locks per key
     IterMode   "twopoint"  NewIterator lists the keys in one critical section and fetches the
                            values in a second one (a key deleted in between yields an empty value)
                "lazy"      the iterator keeps the key list and reads values when asked
     SnapMode   "twopoint"  NewSnapshot copies the map in two critical sections
                "live"      the snapshot is a reference to the live content

   The Go engine (harness/engines/kv/kvlin_test.go) runs TLC-generated writer programs and reader
   menus of this module on the real backends with every model key blown up to a GROUP of real keys
   (thousands of entries, so that the critical sections are long), and evaluates
   ReadersSeeOnePoint on every observation: lo = calls known complete before RBegin, hi = calls
   started when the window closed, the observation must be the view of content lo..hi. *)
EXTENDS MCKV

CONSTANTS Readers,     \* set of reader ids
          MaxCalls,    \* writer calls in a behaviour
          MaxReads,    \* reader calls in a behaviour
          Vias,        \* how the writer issues a call: "direct" "batch" "indexed" "update" "write" "sync" "buffer"
          ReadKinds,   \* subset of {"get", "iter", "snap"}
          BatchMode, RangeMode, IterMode, SnapMode

VARIABLES mem,      \* [K -> Vals \cup {Absent}]  content of the backend
          w,        \* the writer: [pc, ops, todo, via]
          rd,       \* [Readers -> reader record]
          ncalls, nreads

lvars == <<vars, mem, w, rd, ncalls, nreads>>
linview == <<store, mem, w, rd, ncalls, nreads>>

KVRest == UNCHANGED <<batch, snap, it, steps, act, res>>

EmptyStore == [k \in K |-> Absent]

(* the j-th writer call writes the value "v<j>": every content the store ever has is
   distinguishable per key from every other one that differs from it *)
Tag(j) == "v" \o ToString(j)

PointOps(j) == {PutOp(k, Tag(j)) : k \in K} \cup {DelOp(k) : k \in K}
RangeOps == {RangeOp(q[1], q[2]) : q \in {x \in K \X K : x[1] < x[2]}}
(* a call: one operation, or a list of two (enough for "later wins", for a mixture to exist, and
   for a range delete next to a put); longer lists add nothing at this level *)
CallOps(j) == {<<o>> : o \in PointOps(j) \cup RangeOps}
                \cup {<<a, b>> : a \in PointOps(j), b \in PointOps(j)}
                \cup {<<a, b>> : a \in RangeOps, b \in {PutOp(k, Tag(j)) : k \in K}}

HasRangeOp(ops) == \E i \in 1..Len(ops) : ops[i].op = "delrange"
ViaOK(via, ops) ==
  /\ via = "direct" => Len(ops) = 1
  /\ via = "buffer" => ~HasRangeOp(ops)        \* BufferBatch has no range delete

(* per-key elementary writes of an operation list (what a key-by-key mechanism performs) *)
RECURSIVE Dels(_, _)
Dels(s, e) == IF s >= e THEN <<>> ELSE <<DelOp(s)>> \o Dels(s + 1, e)
RECURSIVE Expand(_)
Expand(ops) ==
  IF ops = <<>> THEN <<>>
  ELSE (IF Head(ops).op = "delrange" THEN Dels(Head(ops).s, Head(ops).e) ELSE <<Head(ops)>>)
         \o Expand(Tail(ops))

WIdle == [pc |-> "idle", ops |-> <<>>, todo |-> <<>>, via |-> "none"]
RIdle == [st |-> "idle", kind |-> "none", k |-> 0, p |-> <<>>, ub |-> FALSE, cand |-> {},
          keys |-> <<>>, vals |-> <<>>, data |-> EmptyStore, obs |-> <<>>]

LinInit ==
  /\ Init
  /\ mem = EmptyStore
  /\ w = WIdle
  /\ rd = [r \in Readers |-> RIdle]
  /\ ncalls = 0 /\ nreads = 0

--------------------------------------------------------------------------
(* windows *)
OpenStates == {"begun", "keys", "half", "built", "read"}

(* the abstract content changes to s: every open window sees it *)
Widen(s) == rd' = [r \in Readers |->
                     IF rd[r].st \in OpenStates THEN [rd[r] EXCEPT !.cand = @ \cup {s}] ELSE rd[r]]

--------------------------------------------------------------------------
(* the writer *)
WMode == IF w.via = "direct"
         THEN (IF w.ops[1].op = "delrange" THEN RangeMode ELSE "atomic")
         ELSE BatchMode

WBegin(ops, via) ==
  /\ w.pc = "idle" /\ ncalls < MaxCalls /\ ViaOK(via, ops)
  /\ w' = [pc |-> "called", ops |-> ops, todo |-> Expand(ops), via |-> via]
  /\ ncalls' = ncalls + 1
  /\ UNCHANGED <<store, mem, rd, nreads>> /\ KVRest

(* one critical section: the linearisation point *)
WCommit ==
  /\ w.pc = "called" /\ (WMode = "atomic" \/ w.todo = <<>>)
  /\ store' = ApplyOps(store, w.ops)
  /\ mem' = ApplyOps(mem, w.ops)
  /\ Widen(store')
  /\ w' = [w EXCEPT !.pc = "applied", !.todo = <<>>]
  /\ UNCHANGED <<ncalls, nreads>> /\ KVRest

(* key by key: one elementary write per critical section; the call takes effect (abstractly) with
   the first of them - wherever one puts that point, a reader in between sees a content that is
   neither the one before nor the one after *)
WStep ==
  /\ w.pc \in {"called", "applying"} /\ WMode = "keybykey" /\ w.todo # <<>>
  /\ mem' = ApplyOp(mem, Head(w.todo))
  /\ IF w.pc = "called"
     THEN store' = ApplyOps(store, w.ops) /\ Widen(store')
     ELSE UNCHANGED <<store, rd>>
  /\ w' = [w EXCEPT !.pc = IF Tail(w.todo) = <<>> THEN "applied" ELSE "applying", !.todo = Tail(@)]
  /\ UNCHANGED <<ncalls, nreads>> /\ KVRest

WEnd ==
  /\ w.pc = "applied"
  /\ w' = WIdle
  /\ UNCHANGED <<store, mem, rd, ncalls, nreads>> /\ KVRest

--------------------------------------------------------------------------
(* readers *)
RangeKeys(d, p, ub) == SortedSeq({k \in K : d[k] # Absent /\ InRange(k, p, ub)})
ItemsOf(ks, vs) == [i \in 1..Len(ks) |-> <<ks[i], vs[i]>>]
ValOrEmpty(v) == IF v = Absent THEN "" ELSE v     \* Go: map lookup of a missing key yields nil
ValsOf(d, ks) == [i \in 1..Len(ks) |-> ValOrEmpty(d[ks[i]])]

(* what a reader call with parameters q observes when the content is d *)
ViewOf(d, q) == IF q.kind = "get" THEN <<ReadRes(d, q.k)>>
                ELSE LET ks == RangeKeys(d, q.p, q.ub) IN ItemsOf(ks, ValsOf(d, ks))

ROnly == UNCHANGED <<store, mem, w, ncalls>> /\ KVRest
RStep == UNCHANGED <<store, mem, w, ncalls, nreads>> /\ KVRest

RBegin(r, kind, k, p, ub) ==
  /\ rd[r].st = "idle" /\ nreads < MaxReads /\ kind \in ReadKinds
  /\ (p = <<>>) => ~ub
  /\ (p # <<>> /\ ~ub) => AllowPrefixNoBound
  /\ rd' = [rd EXCEPT ![r] = [RIdle EXCEPT !.st = "begun", !.kind = kind,
                                         !.k = IF kind = "get" THEN k ELSE 0,
                                         !.p = IF kind = "get" THEN <<>> ELSE p,
                                         !.ub = IF kind = "get" THEN FALSE ELSE ub,
                                         !.cand = {store}]]
  /\ nreads' = nreads + 1
  /\ ROnly

(* Get / Has: one critical section *)
RGet(r) ==
  /\ rd[r].st = "begun" /\ rd[r].kind = "get"
  /\ rd' = [rd EXCEPT ![r].st = "read", ![r].obs = <<ReadRes(mem, rd[r].k)>>]
  /\ RStep

RGetEnd(r) ==
  /\ rd[r].st = "read"
  /\ rd' = [rd EXCEPT ![r].st = "finished"]
  /\ RStep

(* NewIterator on the store *)
RCollect(r) ==
  /\ rd[r].st = "begun" /\ rd[r].kind = "iter"
  /\ LET ks == RangeKeys(mem, rd[r].p, rd[r].ub) IN
     rd' = [rd EXCEPT ![r].keys = ks,
                      ![r].vals = IF IterMode = "atomic" THEN ValsOf(mem, ks) ELSE <<>>,
                      ![r].st = IF IterMode = "atomic" THEN "built" ELSE "keys"]
  /\ RStep

RFetch(r) ==
  /\ rd[r].st = "keys" /\ IterMode = "twopoint"
  /\ rd' = [rd EXCEPT ![r].vals = ValsOf(mem, rd[r].keys), ![r].st = "built"]
  /\ RStep

(* NewSnapshot *)
LowHalf == {k \in K : 2 * k <= NK + 1}
RCopy(r) ==
  /\ rd[r].st = "begun" /\ rd[r].kind = "snap"
  /\ rd' = [rd EXCEPT ![r].data = CASE SnapMode = "atomic" -> mem
                                    [] SnapMode = "twopoint" -> [k \in K |-> IF k \in LowHalf THEN mem[k] ELSE Absent]
                                    [] OTHER -> EmptyStore,
                      ![r].st = IF SnapMode = "twopoint" THEN "half" ELSE "built"]
  /\ RStep

RCopy2(r) ==
  /\ rd[r].st = "half"
  /\ rd' = [rd EXCEPT ![r].data = [k \in K |-> IF k \in LowHalf THEN @[k] ELSE mem[k]], ![r].st = "built"]
  /\ RStep

(* the creating call returns: the window closes *)
RCreated(r) ==
  /\ \/ rd[r].st = "built" /\ rd[r].kind \in {"iter", "snap"}
     \/ rd[r].st = "keys" /\ IterMode = "lazy"
  /\ rd' = [rd EXCEPT ![r].st = "created"]
  /\ RStep

(* the handle is read to the end (any time later) *)
RConsume(r) ==
  /\ rd[r].st = "created"
  /\ LET q == rd[r]
         o == IF q.kind = "iter"
              THEN ItemsOf(q.keys, IF IterMode = "lazy" THEN ValsOf(mem, q.keys) ELSE q.vals)
              ELSE LET d == IF SnapMode = "live" THEN mem ELSE q.data
                       ks == RangeKeys(d, q.p, q.ub) IN ItemsOf(ks, ValsOf(d, ks))
     IN rd' = [rd EXCEPT ![r].obs = o, ![r].st = "finished"]
  /\ RStep

RReturn(r) ==
  /\ rd[r].st = "finished"
  /\ rd' = [rd EXCEPT ![r] = RIdle]
  /\ RStep

--------------------------------------------------------------------------
LinNext ==
  \/ \E via \in Vias : \E ops \in CallOps(ncalls + 1) : WBegin(ops, via)
  \/ WCommit \/ WStep \/ WEnd
  \/ \E r \in Readers :
       \/ \E kind \in ReadKinds, k \in K, p \in Prefixes, ub \in BOOLEAN : RBegin(r, kind, k, p, ub)
       \/ RGet(r) \/ RGetEnd(r) \/ RCollect(r) \/ RFetch(r) \/ RCopy(r) \/ RCopy2(r)
       \/ RCreated(r) \/ RConsume(r) \/ RReturn(r)

LinSpec == LinInit /\ [][LinNext]_lvars

--------------------------------------------------------------------------
(* THE CONTRACT: a completed reader call observed one abstract content of its window *)
ReadersSeeOnePoint ==
  \A r \in Readers : rd[r].st = "finished" =>
     \E s \in rd[r].cand : rd[r].obs = ViewOf(s, rd[r])

(* the backend holds the abstract content whenever no writer call is in flight *)
MemIsStoreWhenQuiescent == w.pc \in {"idle", "applied"} => mem = store

(* a writer call is one transition of the abstract content: all of its operations or none *)
WriterCallsAreAtomic ==
  [][store' # store => (w.pc = "called" /\ store' = ApplyOps(store, w.ops))]_lvars

LinTypeOK ==
  /\ mem \in [K -> {Tag(j) : j \in 1..MaxCalls} \cup {Absent}]
  /\ store \in [K -> {Tag(j) : j \in 1..MaxCalls} \cup {Absent}]
  /\ \A r \in Readers : Cardinality(rd[r].cand) <= MaxCalls + 1

(* vacuity guards (expected to be VIOLATED: the interesting region is reachable) *)
NoWideWindow == \A r \in Readers : rd[r].st = "finished" => Cardinality(rd[r].cand) < 3
=============================================================================

------------------------------- MODULE KVCover -------------------------------
(* Shape-complete behaviour generation "in the small" for the replayer (property C15).

   KVMBT.tla SAMPLES behaviours; a shape that needs several ingredients at once (a key that is in
   the store AND deleted by the open indexed batch AND then asked with Has; an iterator positioned
   on a late key AND re-seeked to an earlier one) has a tiny probability per behaviour and was
   never generated.  This module instead lets TLC enumerate, exhaustively and breadth-first, the
   state graph of KV.tla under a GUIDE (a sub-relation of KV!Next: canonical loading of the store,
   then one snapshot or one batch, then iterators / reads on it), classifies every transition by
   its SHAPE (a set of tokens, see Tokens below), and prints the behaviour leading to a transition
   whenever the transition carries a token not seen before: the printed behaviours are an EDGE
   COVER of the graph modulo shape.  `hist` is not part of the VIEW, so TLC keeps for every state
   the first (= a shortest) history reaching it; the set of tokens seen so far lives in TLC
   register 1 (run with -workers 1).  checks/C15.py drops behaviours that are a prefix of another
   one and replays the rest on every backend and wrapper, in every run.

   CoverMode "iter":  the iterator sub-machine on each source (store, snapshot that differs from
                      the live store, indexed batch with one operation): every (source, range shape,
                      number of keys, position class, action, for Seek: target before/at/after the
                      current key, target below/in/above the range, exact hit/next key/miss, moved
                      back/stay/forward) transition; snapshot reads (Get/Has) by (in snapshot?, in store?)
   CoverMode "batch": the batch sub-machine: every (key in store?, history of the batch's operations
                      on the key: none/p/d/r/pd/dp/rp/pr/..., read kind Get/Has/iterator) read
                      through an indexed batch; Write of plain and indexed batches by the same
                      classes; Size; the Update / Write helpers with a read in the callback; direct
                      store calls by presence of the key. *)
EXTENDS MCKV, Json

CONSTANTS CoverMode

VARIABLES hist,   \* the calls so far: what the replayer gets
          fin     \* a closing call (Write/Discard/Close of the source, a helper, a direct write
                  \* after loading) ends the behaviour: its successor is not explored

cvars == <<vars, hist, fin>>
coverview == <<store, batch, snap, it, fin>>

ASSUME TLCSet(1, {})

--------------------------------------------------------------------------
(* the guide *)
Quiet == ~batch.open /\ ~snap.open /\ ~it.open

LoadVal(k) == IF k = 2 THEN "" ELSE "a"        \* one empty value among the loaded ones
Load == \E k \in K : Quiet /\ (\A j \in k..NK : store[j] = Absent) /\ Put(k, LoadVal(k))

\* operations put into a batch: new value "b"; proper ranges and one empty range
CoverOps == {PutOp(k, "b") : k \in K} \cup {DelOp(k) : k \in K}
              \cup {RangeOp(se[1], se[2]) : se \in {x \in K \X K : x[1] < x[2]}} \cup {RangeOp(2, 2)}

Moves == IterFirst \/ IterNext \/ IterPrev \/ IterClose \/ \E k \in K : IterSeek(k)

IterGuideOpen ==      \* calls that keep the behaviour going
  \/ Load
  \/ Quiet /\ NewSnapshot
     \* make the live store differ from the snapshot: one write after it was taken
  \/ snap.open /\ ~it.open /\ store = snap.data
       /\ \E k \in K : (store[k] # Absent /\ Delete(k)) \/ Put(k, "b")
  \/ snap.open /\ ~it.open /\ \E k \in K : SnapHas(k) \/ \E c \in BOOLEAN : SnapGet(k, c)
  \/ Quiet /\ NewBatch(TRUE, FALSE)
  \/ batch.open /\ ~it.open /\ \E o \in CoverOps : BatchAdd(o, "BatchOp")
  \/ \E src \in {"store", "batch", "snap"}, p \in Prefixes, ub \in BOOLEAN : NewIter(src, p, ub)
  \/ Moves
IterGuideClose == ~it.open /\ (SnapClose \/ BatchWrite \/ BatchDiscard)

BatchGuideOpen ==
  \/ Load
  \/ Quiet /\ \E ix \in BOOLEAN, sz \in BOOLEAN : NewBatch(ix, sz)
  \/ batch.open /\ ~it.open /\ \E o \in CoverOps : BatchAdd(o, "BatchOp")
  \/ ~it.open /\ \E k \in K : BatchHas(k) \/ \E c \in BOOLEAN : BatchGet(k, c)
  \/ ~it.open /\ BatchSize
  \/ NewIter("batch", <<>>, FALSE)
  \/ (it.st = "fresh" /\ IterFirst) \/ (it.st = "valid" /\ IterNext) \/ (it.st = "dead" /\ IterClose)
  \/ Quiet /\ \E k \in K : Has(k) \/ \E c \in BOOLEAN : Get(k, c)
BatchGuideClose ==
  \/ ~it.open /\ (BatchWrite \/ BatchDiscard)
  \/ Quiet /\ \E k \in K : Delete(k) \/ Put(k, "b")
  \/ Quiet /\ \E s \in K, e \in K : DeleteRange(s, e)
  \/ Quiet /\ \E ops \in {<<>>} \cup {<<o>> : o \in CoverOps}
                           \cup {<<PutOp(k, "b"), DelOp(k2)>> : k \in K, k2 \in K}
                           \cup {<<DelOp(k), PutOp(k2, "b")>> : k \in K, k2 \in K}
                           \cup {<<RangeOp(1, NK), PutOp(k, "b")>> : k \in K},
                 rk \in 0..NK, f \in BOOLEAN, h \in {"update", "write"} : UpdateFn(ops, rk, f, h)
  \/ Quiet /\ (Flush \/ Reopen)

GuideOpen == IF CoverMode = "iter" THEN IterGuideOpen ELSE BatchGuideOpen
GuideClose == IF CoverMode = "iter" THEN IterGuideClose ELSE BatchGuideClose

--------------------------------------------------------------------------
(* shape of a transition: a set of strings *)
B(b) == IF b THEN "1" ELSE "0"
N(i) == ToString(i)
Min3(n) == IF n > 3 THEN 3 ELSE n

Shape(p, ub) == IF p = <<>> THEN "nil"
                ELSE IF ~ub THEN "pfx-nobound"
                ELSE IF UpperBound(p) = <<>> THEN "allff-ub" ELSE "pfx-ub"

(* which of the batch's operations touched key k, in order: "" none, p put, d delete, r covering range *)
RECURSIVE HistClass(_, _)
HistClass(ops, k) ==
  IF ops = <<>> THEN ""
  ELSE LET o == Head(ops) IN
       (IF o.op = "put" /\ o.k = k THEN "p"
        ELSE IF o.op = "del" /\ o.k = k THEN "d"
        ELSE IF o.op = "delrange" /\ o.s <= k /\ k < o.e THEN "r" ELSE "") \o HistClass(Tail(ops), k)

PosClass == CASE it.st = "fresh" -> "fresh"
              [] it.st = "seekmiss" -> "seekmiss"
              [] it.st = "dead" -> IF it.pos = 0 THEN "dead-lo" ELSE "dead-hi"
              [] it.st = "valid" -> IF Len(it.keys) = 1 THEN "only"
                                    ELSE IF it.pos = 1 THEN "first"
                                    ELSE IF it.pos = Len(it.keys) THEN "last" ELSE "mid"

(* does the iterator's source differ from the live store inside the iterator's range? *)
SrcDiffers == it.src # "store" /\ \E k \in K : InRange(k, it.p, it.ub) /\ Source(it.src)[k] # store[k]

ItPrefix == "it/" \o it.src \o "/" \o Shape(it.p, it.ub) \o "/n" \o N(Min3(Len(it.keys))) \o "/" \o PosClass

Tokens ==
  LET a == act' r == res' n == act'.name IN
  CASE n \in {"IterFirst", "IterNext", "IterPrev"} ->
         {ItPrefix \o "/" \o n \o "/" \o r.kind \o "/diff" \o B(SrcDiffers)}
    [] n = "IterClose" -> {"it/" \o it.src \o "/" \o PosClass \o "/IterClose"}
    [] n = "IterSeek" ->
         LET k == a.k
             rel == IF it.st # "valid" THEN "na"
                    ELSE IF k < it.keys[it.pos] THEN "before" ELSE IF k = it.keys[it.pos] THEN "at" ELSE "after"
             rng == IF InRange(k, it.p, it.ub) THEN "in"
                    ELSE IF LexLess(KeyBytes[k], it.p) THEN "below" ELSE "above"
             hit == IF r.kind # "at" THEN "miss" ELSE IF r.k = k THEN "exact" ELSE "next"
             mv == IF it.st # "valid" \/ r.kind # "at" THEN "na"
                   ELSE IF it'.pos < it.pos THEN "back" ELSE IF it'.pos = it.pos THEN "stay" ELSE "fwd"
         IN {ItPrefix \o "/IterSeek/" \o rel \o "/" \o rng \o "/" \o hit \o "/" \o mv}
    [] n = "NewIter" ->
         LET d == Source(a.src)
             lo == \E k \in K : d[k] # Absent /\ LexLess(KeyBytes[k], a.p)
             hi == \E k \in K : d[k] # Absent /\ ~InRange(k, a.p, a.ub) /\ ~LexLess(KeyBytes[k], a.p)
             ctx == IF batch.open THEN "batch" ELSE IF snap.open THEN "snap" ELSE "quiet"
         IN {"newiter/" \o a.src \o "/" \o Shape(a.p, a.ub) \o "/" \o ctx \o "/n" \o N(Min3(Len(it'.keys)))
               \o "/lo" \o B(lo) \o "/hi" \o B(hi)}
            \cup (IF a.src = "batch"
                  THEN {"bread/iter/" \o B(store[k] # Absent) \o "/" \o HistClass(batch.ops, k) \o "/"
                          \o B(\E i \in 1..Len(it'.keys) : it'.keys[i] = k) : k \in K}
                  ELSE {})
    [] n \in {"Get", "Has"} -> {"read/" \o n \o "/" \o B(store[a.k] # Absent) \o "/" \o r.kind}
    [] n \in {"BatchGet", "BatchHas"} ->
         {"bread/" \o n \o "/" \o B(store[a.k] # Absent) \o "/" \o HistClass(batch.ops, a.k) \o "/" \o r.kind}
    [] n \in {"SnapGet", "SnapHas"} ->
         {"sread/" \o n \o "/" \o B(snap.data[a.k] # Absent) \o "/" \o B(store[a.k] # Absent) \o "/" \o r.kind}
    [] n = "BatchWrite" ->
         {"bwrite/" \o B(batch.indexed) \o "/" \o B(store[k] # Absent) \o "/" \o HistClass(batch.ops, k) : k \in K}
    [] n = "BatchDiscard" -> {"bdiscard/" \o B(batch.indexed) \o "/" \o N(Len(batch.ops))}
    [] n = "BatchSize" -> {"bsize/" \o B(batch.indexed) \o "/" \o N(Len(batch.ops)) \o "/" \o B(r.exact)}
    [] n = "NewBatch" -> {"newbatch/" \o B(a.indexed) \o "/" \o B(a.sized)}
    [] n = "BatchOp" -> {"bop/" \o B(batch.indexed) \o "/" \o a.o.op \o "/" \o N(Len(batch.ops))}
    [] n = "Update" ->
         {"update/" \o a.helper \o "/" \o B(a.fail) \o "/" \o B(store[k] # Absent) \o "/" \o HistClass(a.ops, k)
            \o "/" \o (IF a.rk = k THEN "read" ELSE "-") : k \in K}
    [] n = "Delete" -> {"delete/" \o B(store[a.k] # Absent) \o "/" \o B(snap.open)}
    [] n = "Put" -> {"put/" \o B(store[a.k] # Absent) \o "/" \o B(snap.open)}
    [] n = "DeleteRange" ->
         {"drange/" \o B(store[k] # Absent) \o "/" \o B(a.s <= k /\ k < a.e) : k \in K}
           \cup {"drange/order/" \o (IF a.s < a.e THEN "lt" ELSE IF a.s = a.e THEN "eq" ELSE "gt")}
    [] OTHER -> {"other/" \o n}

--------------------------------------------------------------------------
CoverInit == Init /\ hist = <<>> /\ fin = FALSE

Export ==
  LET new == Tokens \ TLCGet(1) IN
  IF new = {} THEN TRUE
  ELSE /\ TLCSet(1, TLCGet(1) \cup new)
       /\ PrintT(ToJson([cls |-> new, beh |-> hist']))

CoverNext ==
  /\ ~fin
  /\ \/ GuideOpen /\ fin' = FALSE
     \/ GuideClose /\ fin' = TRUE
  /\ hist' = Append(hist, [a |-> act', res |-> res', store |-> store'])
  /\ Export
=============================================================================

------------------------------- MODULE KVTrace -------------------------------
(* Trace validation for the concurrent half of C15: one writer and several readers run against a
   real backend; every call is logged at its start (before the call) and at its end (after it
   returned) in one global order.  The specification places the linearisation point of each call
   as a SILENT step between the two: `Apply` for the writer (the whole batch at once — atomicity),
   `Capture` for a reader (the store content a point read / a freshly created iterator / a freshly
   created snapshot sees — isolation).  TLC accepts the trace iff some placement of the silent steps
   explains every logged result; e.g. a scan that observed half of a batch, or an iterator / snapshot
   that changed after it was created, has no explanation.

   Events (ndjson, field ev):
     Reset                         new store, new run
     WStart  ops                   writer call (direct op = one-element list, batch/Update = list)
     WEnd
     RStart  r kind k|p,ub         reader r: kind \in {"get","scan","snap"}
     RCreated r                    iterator / snapshot handle obtained (scan, snap only)
     REnd    r res | items         result: point read result, or list of <<k, v>> pairs          *)
EXTENDS MCKV, Json

VARIABLES l,        \* next trace line
          wpend,    \* pending writer ops (<<>> = none)
          wapplied,
          rd        \* [Readers -> [st, kind, k, p, ub, cap]]

tvars == <<vars, l, wpend, wapplied, rd>>

Trace == ndJsonDeserialize("trace.ndjson")
Readers == 1..4

Idle == [st |-> "idle", kind |-> "none", k |-> 0, p |-> <<>>, ub |-> FALSE, cap |-> <<>>]

KVUnchanged == UNCHANGED <<batch, snap, it, steps, act, res>>

TraceInit ==
  /\ Init
  /\ l = 1 /\ wpend = <<>> /\ wapplied = FALSE
  /\ rd = [r \in Readers |-> Idle]

IsEvent(e) == l <= Len(Trace) /\ Trace[l].ev = e /\ l' = l + 1

TReset ==
  /\ IsEvent("Reset")
  /\ store' = [k \in K |-> Absent]
  /\ wpend' = <<>> /\ wapplied' = FALSE /\ rd' = [r \in Readers |-> Idle]
  /\ KVUnchanged

TWStart ==
  /\ IsEvent("WStart") /\ wpend = <<>>
  /\ wpend' = Trace[l].ops /\ wapplied' = FALSE
  /\ UNCHANGED <<store, rd>> /\ KVUnchanged

(* silent: the writer's call takes effect — all of its operations at once *)
Apply ==
  /\ wpend # <<>> /\ ~wapplied
  /\ store' = ApplyOps(store, wpend)
  /\ wapplied' = TRUE
  /\ UNCHANGED <<l, wpend, rd>> /\ KVUnchanged

TWEnd ==
  /\ IsEvent("WEnd") /\ wpend # <<>> /\ wapplied
  /\ wpend' = <<>> /\ wapplied' = FALSE
  /\ UNCHANGED <<store, rd>> /\ KVUnchanged

TRStart ==
  /\ IsEvent("RStart")
  /\ LET e == Trace[l] r == e.r IN
     /\ rd[r].st = "idle"
     /\ rd' = [rd EXCEPT ![r] = [st |-> "started", kind |-> e.kind,
                                 k |-> IF e.kind = "get" THEN e.k ELSE 0,
                                 p |-> IF e.kind = "scan" THEN e.p ELSE <<>>,
                                 ub |-> IF e.kind = "scan" THEN e.ub ELSE FALSE,
                                 cap |-> <<>>]]
  /\ UNCHANGED <<store, wpend, wapplied>> /\ KVUnchanged

Items(d, ks) == [i \in 1..Len(ks) |-> <<ks[i], d[ks[i]]>>]

(* silent: reader r observes the store *)
Capture(r) ==
  /\ rd[r].st = "started"
  /\ LET q == rd[r]
         c == CASE q.kind = "get" -> <<ReadRes(store, q.k)>>
                [] q.kind = "scan" -> Items(store, SortedSeq({k \in K : store[k] # Absent /\ InRange(k, q.p, q.ub)}))
                [] q.kind = "snap" -> Items(store, SortedSeq({k \in K : store[k] # Absent}))
     IN rd' = [rd EXCEPT ![r] = [q EXCEPT !.st = "captured", !.cap = c]]
  /\ UNCHANGED <<l, store, wpend, wapplied>> /\ KVUnchanged

TRCreated ==
  /\ IsEvent("RCreated")
  /\ LET r == Trace[l].r IN
     /\ rd[r].st = "captured" /\ rd[r].kind \in {"scan", "snap"}
     /\ rd' = [rd EXCEPT ![r].st = "created"]
  /\ UNCHANGED <<store, wpend, wapplied>> /\ KVUnchanged

TREnd ==
  /\ IsEvent("REnd")
  /\ LET e == Trace[l] r == e.r q == rd[r] IN
     /\ IF q.kind = "get"
        THEN q.st = "captured" /\ q.cap = <<e.res>>
        ELSE q.st = "created" /\ q.cap = e.items
     /\ rd' = [rd EXCEPT ![r] = Idle]
  /\ UNCHANGED <<store, wpend, wapplied>> /\ KVUnchanged

TraceNext ==
  \/ TReset \/ TWStart \/ TWEnd \/ TRStart \/ TRCreated \/ TREnd
  \/ Apply
  \/ \E r \in Readers : Capture(r)

TraceSpec == TraceInit /\ [][TraceNext]_tvars

(* acceptance: some behaviour consumed the whole trace (high-water mark in a TLC register) *)
ASSUME TLCSet(1, 0)
HighWater == IF l > TLCGet(1) THEN TLCSet(1, l) ELSE TRUE
TraceConstraint == HighWater
TraceAccepted == IF TLCGet(1) = Len(Trace) + 1 THEN TRUE
                 ELSE PrintT(<<"HIGHWATER", TLCGet(1)>>) /\ FALSE
TraceView == <<store, l, wpend, wapplied, rd>>
=============================================================================

\* EXPECTED VIOLATION of ReadersSeeOnePoint: DeleteRange applied key by key
CONSTANTS
  KeyBytes <- KeysLin
  Prefixes <- PrefixesLin
  Vals <- ValsSmall
  MaxBatchOps = 0
  MaxSteps = 0
  EnableBatch = FALSE
  EnableSnap = FALSE
  EnableIter = FALSE
  NilBoundUnbounded = TRUE
  AllowPrefixNoBound = TRUE
  Readers = {1}
  MaxCalls = 2
  MaxReads = 1
  Vias = {"direct"}
  ReadKinds = {"iter"}
  BatchMode = "atomic"
  RangeMode = "keybykey"
  IterMode = "atomic"
  SnapMode = "atomic"
INIT LinInit
NEXT LinNext
VIEW linview
INVARIANTS LinTypeOK ReadersSeeOnePoint
PROPERTIES WriterCallsAreAtomic
CHECK_DEADLOCK FALSE

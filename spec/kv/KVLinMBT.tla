------------------------------- MODULE KVLinMBT -------------------------------
(* Behaviour generation for the concurrent round of the kv engine (TestKVLinearizable): behaviours
   of KVLin.tla, projected on what the engine can impose on the real code - the writer's program
   (the calls in order, each with the abstract content it leaves) and the readers' menu (the reader
   calls in the order they were begun).  The schedule itself belongs to the Go runtime; the engine
   evaluates ReadersSeeOnePoint on every observation.  At the end of a behaviour the history is
   printed as one JSON line and the machine is reset. *)
EXTENDS KVLin, Json

VARIABLE hist
mbtlvars == <<lvars, hist>>

MBTLinInit == LinInit /\ hist = <<>>

R(S) == IF S = {} THEN {} ELSE {RandomElement(S)}

SimLinNext ==
  \/ \E via \in R(Vias) : \E ops \in R({o \in CallOps(ncalls + 1) : ViaOK(via, o)}) : WBegin(ops, via)
  \* schema-uniform: the direct range delete and the refill would otherwise be rare among the calls
  \/ \E o \in R(RangeOps) : WBegin(<<o>>, "direct")
  \/ \E via \in R(Vias \ {"direct"}) :
       \E a \in R({PutOp(k, Tag(ncalls + 1)) : k \in K}), b \in R({PutOp(k, Tag(ncalls + 1)) : k \in K}) : WBegin(<<a, b>>, via)
  \/ WCommit \/ WStep \/ WEnd
  \/ \E r \in R({x \in Readers : rd[x].st = "idle"}) :
       \/ \E kind \in R(ReadKinds), k \in R(K), p \in R(Prefixes), ub \in R(BOOLEAN) : RBegin(r, kind, k, p, ub)
       \/ \E p \in R(Prefixes \ {<<>>}) : RBegin(r, "iter", 1, p, TRUE)
  \/ \E r \in Readers :
       \/ RGet(r) \/ RGetEnd(r) \/ RCollect(r) \/ RFetch(r) \/ RCopy(r) \/ RCopy2(r)
       \/ RCreated(r) \/ RConsume(r) \/ RReturn(r)

Began == CHOOSE r \in Readers : rd[r].st = "idle" /\ rd'[r].st = "begun"

LinStep ==
  /\ SimLinNext
  /\ hist' = IF ncalls' # ncalls
             THEN Append(hist, [t |-> "w", ops |-> w'.ops, via |-> w'.via, store |-> ApplyOps(store, w'.ops)])
             ELSE IF nreads' # nreads
             THEN Append(hist, [t |-> "r", kind |-> rd'[Began].kind, k |-> rd'[Began].k,
                                p |-> rd'[Began].p, ub |-> rd'[Began].ub])
             ELSE hist

Quiescent == w.pc = "idle" /\ \A r \in Readers : rd[r].st = "idle"

LinEmit ==
  /\ PrintT(ToJson(hist))
  /\ store' = EmptyStore /\ mem' = EmptyStore /\ w' = WIdle /\ rd' = [r \in Readers |-> RIdle]
  /\ ncalls' = 0 /\ nreads' = 0 /\ hist' = <<>>
  /\ KVRest

MBTLinNext == IF ncalls >= MaxCalls /\ nreads >= MaxReads /\ Quiescent THEN LinEmit ELSE LinStep
=============================================================================

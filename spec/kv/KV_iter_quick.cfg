\* store + snapshot + iterators; exhaustive
CONSTANTS
  KeyBytes <- KeysSmall
  Prefixes <- PrefixesSmall
  Vals <- ValsSmall
  MaxBatchOps = 0
  MaxSteps = 5
  EnableBatch = FALSE
  EnableSnap = TRUE
  EnableIter = TRUE
  NilBoundUnbounded = TRUE
  AllowPrefixNoBound = FALSE
INIT Init
NEXT Next
VIEW view
INVARIANTS TypeOK IterSorted IterPositionsConsistent
PROPERTIES DurabilityEventsAreNoOps SnapshotIsolation StoreChangesOnlyByWrites IterSeekIsLowerBound IterStepsAreAdjacent IterPrevIsAdjacent HasAgreesWithGet SnapshotReadsFrozen
CHECK_DEADLOCK FALSE

------------------------------- MODULE KV -------------------------------
(* The storage contract of juno's db.KeyValueStore (db/database.go, db/batch.go, db/iterator.go,
   db/snapshot.go) as ONE abstract machine that every backend (db/memory, db/pebblev2, db/pebble,
   and the bufferbatch/syncbatch wrappers) must implement.  Property C15.

   Keys are byte strings.  To keep TLC fast the model speaks about key *indices* 1..NK into the
   constant sequence KeyBytes, which is sorted in byte-lexicographic order (ASSUMEd below), so key
   order is integer order; the byte content matters only for prefix / upper-bound computations.
   The same table is sent to the Go replayer, which turns indices back into bytes.

   One action = one call of the storage interface.  `act` and `res` are output-only variables
   (the call and its return value); they are what the replayer compares, together with `store`.

   Interface -> action (every method of db.KeyValueStore / Batch / IndexedBatch / Snapshot /
   Iterator is one, with its own result):
     store     Has -> Has; Get(key, cb) -> Get (cbf: the callback fails); Put; Delete; DeleteRange;
               NewIterator(prefix, withUpperBound) -> NewIter("store", p, ub) (result: the content);
               NewBatch / NewBatchWithSize / NewIndexedBatch / NewIndexedBatchWithSize ->
               NewBatch(indexed, sized); NewSnapshot; Update(fn) / Write(fn) -> UpdateFn(ops, rk, fail,
               helper) (fn writes ops, then reads rk through the indexed batch); Close + open -> Reopen;
               Impl (to flush the write buffer) -> Flush
     batch     Put / Delete / DeleteRange -> BatchAdd; Size -> BatchSize; Write -> BatchWrite;
               Close -> BatchDiscard; indexed: Get -> BatchGet, Has -> BatchHas, NewIterator -> NewIter("batch")
     snapshot  Get -> SnapGet; Has -> SnapHas; NewIterator -> NewIter("snap"); Close -> SnapClose
     iterator  First / Next / Prev / Seek -> IterFirst / IterNext / IterPrev / IterSeek (result: Valid,
               Key, Value - and UncopiedValue, which must equal Value); Close -> IterClose *)
EXTENDS Integers, Sequences, FiniteSets, TLC

CONSTANTS KeyBytes,      \* sequence of byte strings (each a sequence of 0..255), sorted, distinct
          Prefixes,      \* set of byte strings usable as iterator prefixes (<<>> = nil)
          Vals,          \* set of strings (may contain the empty string)
          MaxBatchOps,   \* bound on the length of a batch's operation log
          MaxSteps,      \* bound on the number of calls in a behaviour (exhaustive configs)
          EnableBatch, EnableSnap, EnableIter,
          NilBoundUnbounded,  \* TRUE: an all-0xff prefix with upper bound iterates to the end (Pebble);
                              \* FALSE would describe db/memory before the H14 fix
          AllowPrefixNoBound  \* TRUE: also explore the (prefix # nil, withUpperBound = FALSE) shape

(* Mutant switch: "none" is the contract.  Every other value replaces ONE clause of one action by
   a plausible wrong implementation; the expected-violation configurations (KV_x_*.cfg) override
   this definition (CONSTANTS Mutant <- Mut...) and TLC must report the named property violated:
   the properties are sensitive to that class of defect.  Not a CONSTANT so that the other modules
   of the family (KVLin, KVTrace) and their configurations are unaffected.
     "seek-from-current"        Seek searches from the current position when the iterator is valid
     "prev-after-seekmiss"      Prev after a Seek past the end stays invalid
     "has-ignores-own-delete"   Has through an indexed batch falls through the batch's own delete
     "batchiter-ignores-range"  an iterator over an indexed batch ignores the batch's range deletes
     "snap-has-live"            Has on a snapshot answers from the live store *)
Mutant == "none"

NK == Len(KeyBytes)
K == 1..NK
Absent == "-"            \* never a member of Vals
ASSUME Absent \notin Vals

VARIABLES store,   \* [K -> Vals \cup {Absent}]
          batch,   \* [open, indexed, ops]   ops: sequence of [op, k, v, s, e]
          snap,    \* [open, data]
          it,      \* [open, src, p, ub, keys, vals, pos, st]  st \in {"fresh","valid","seekmiss","dead"}
          steps,
          act, res

vars == <<store, batch, snap, it, steps, act, res>>
view == <<store, batch, snap, it, steps>>

--------------------------------------------------------------------------
(* byte-string helpers *)
Min(a, b) == IF a < b THEN a ELSE b

LexLess(a, b) ==
  \E i \in 1..(Min(Len(a), Len(b)) + 1) :
     /\ \A j \in 1..(i - 1) : a[j] = b[j]
     /\ IF i > Len(a) THEN i <= Len(b) ELSE (i <= Len(b) /\ a[i] < b[i])
LexLeq(a, b) == a = b \/ LexLess(a, b)

ASSUME \A i \in 1..(NK - 1) : LexLess(KeyBytes[i], KeyBytes[i + 1])

HasPrefix(k, p) == Len(p) <= Len(k) /\ \A j \in 1..Len(p) : k[j] = p[j]

(* dbutils.UpperBound: strip trailing 0xff bytes, increment the last remaining byte; <<>> when
   every byte is 0xff (or the prefix is empty): "no upper bound". *)
RECURSIVE UpperBound(_)
UpperBound(p) ==
  IF Len(p) = 0 THEN <<>>
  ELSE IF p[Len(p)] = 255 THEN UpperBound(SubSeq(p, 1, Len(p) - 1))
  ELSE [p EXCEPT ![Len(p)] = @ + 1]

(* The keys an iterator created with (prefix, withUB) ranges over, per the contract:
   lower bound = prefix (inclusive); upper bound = UpperBound(prefix) (exclusive) when requested and
   it exists.  With a proper upper bound this is exactly "keys having the prefix". *)
InRange(k, p, ub) ==
  /\ LexLeq(p, KeyBytes[k])
  /\ (ub /\ (UpperBound(p) # <<>> \/ ~NilBoundUnbounded)) =>
        (UpperBound(p) # <<>> /\ LexLess(KeyBytes[k], UpperBound(p)))

(* ordered sequence of the indices in S *)
RECURSIVE SortedSeq(_)
SortedSeq(S) == IF S = {} THEN <<>>
                ELSE LET m == CHOOSE x \in S : \A y \in S : x <= y IN <<m>> \o SortedSeq(S \ {m})

--------------------------------------------------------------------------
(* batch semantics: an ordered log applied atomically; later operations win; a range delete
   removes every key in [s, e) present at that point of the log (store content + earlier ops). *)
ApplyOp(d, o) ==
  CASE o.op = "put" -> [d EXCEPT ![o.k] = o.v]
    [] o.op = "del" -> [d EXCEPT ![o.k] = Absent]
    [] o.op = "delrange" -> [k \in K |-> IF o.s <= k /\ k < o.e THEN Absent ELSE d[k]]

RECURSIVE ApplyOps(_, _)
ApplyOps(d, ops) == IF ops = <<>> THEN d ELSE ApplyOps(ApplyOp(d, Head(ops)), Tail(ops))

BatchView == ApplyOps(store, batch.ops)      \* what reads through an indexed batch see

NoBatch == [open |-> FALSE, indexed |-> FALSE, ops |-> <<>>]
NoSnap == [open |-> FALSE, data |-> [k \in K |-> Absent]]
NoIt == [open |-> FALSE, src |-> "none", p |-> <<>>, ub |-> FALSE, keys |-> <<>>, vals |-> <<>>, pos |-> 0, st |-> "fresh"]
NoRes == [kind |-> "none"]

PutOp(k, v) == [op |-> "put", k |-> k, v |-> v, s |-> 0, e |-> 0]
DelOp(k) == [op |-> "del", k |-> k, v |-> Absent, s |-> 0, e |-> 0]
RangeOp(s, e) == [op |-> "delrange", k |-> 0, v |-> Absent, s |-> s, e |-> e]

HasRange(ops) == \E i \in 1..Len(ops) : ops[i].op = "delrange"

Init ==
  /\ store = [k \in K |-> Absent]
  /\ batch = NoBatch
  /\ snap = NoSnap
  /\ it = NoIt
  /\ steps = 0
  /\ act = [name |-> "Init"]
  /\ res = NoRes

Tick == steps < MaxSteps /\ steps' = steps + 1

ReadRes(d, k) == IF d[k] = Absent THEN [kind |-> "notfound"] ELSE [kind |-> "value", v |-> d[k]]
(* Get(key, cb): the callback runs only when the key exists; when it fails (cbf) Get returns its error *)
ReadResCb(d, k, cbf) == IF d[k] # Absent /\ cbf THEN [kind |-> "cberr"] ELSE ReadRes(d, k)
HasRes(d, k) == [kind |-> "has", b |-> d[k] # Absent]

--------------------------------------------------------------------------
(* direct store calls *)
(* Contract: while a batch holds a range delete nobody writes to the store directly — db/memory
   resolves a batch's range delete against the store at call time, Pebble at commit time; juno's
   single-writer discipline never interleaves the two. *)
DirectWriteAllowed == ~(batch.open /\ HasRange(batch.ops))

Put(k, v) ==
  /\ Tick /\ DirectWriteAllowed
  /\ store' = [store EXCEPT ![k] = v]
  /\ act' = [name |-> "Put", k |-> k, v |-> v] /\ res' = [kind |-> "ok"]
  /\ UNCHANGED <<batch, snap, it>>

Delete(k) ==
  /\ Tick /\ DirectWriteAllowed
  /\ store' = [store EXCEPT ![k] = Absent]
  /\ act' = [name |-> "Delete", k |-> k] /\ res' = [kind |-> "ok"]
  /\ UNCHANGED <<batch, snap, it>>

DeleteRange(s, e) ==
  /\ Tick /\ DirectWriteAllowed
  /\ store' = ApplyOp(store, RangeOp(s, e))
  /\ act' = [name |-> "DeleteRange", s |-> s, e |-> e] /\ res' = [kind |-> "ok"]
  /\ UNCHANGED <<batch, snap, it>>

Get(k, cbf) ==
  /\ Tick
  /\ act' = [name |-> "Get", k |-> k, cbf |-> cbf] /\ res' = ReadResCb(store, k, cbf)
  /\ UNCHANGED <<store, batch, snap, it>>

Has(k) ==
  /\ Tick
  /\ act' = [name |-> "Has", k |-> k] /\ res' = HasRes(store, k)
  /\ UNCHANGED <<store, batch, snap, it>>

(* Update(fn) / Write(fn): fn receives an indexed (helper "update") or a write-only (helper "write")
   batch; when fn fails nothing is applied.  With the indexed batch fn may read: after its
   operations it reads key rk (0 = no read) through the batch with Get and Has - the result `rd`
   is what the batch's own writes over the store give. *)
UpdateFn(ops, rk, fail, helper) ==
  /\ Tick /\ DirectWriteAllowed
  /\ helper \in {"update", "write"} /\ (helper = "write" => rk = 0)
  /\ Len(ops) <= MaxBatchOps               \* the callback fills a batch: same bound as a batch's log
  /\ store' = IF fail THEN store ELSE ApplyOps(store, ops)
  /\ act' = [name |-> "Update", ops |-> ops, rk |-> rk, fail |-> fail, helper |-> helper]
  /\ res' = [kind |-> IF fail THEN "cberr" ELSE "ok",
             rd |-> IF rk = 0 THEN "" ELSE
                    LET v == ApplyOps(store, ops)[rk] IN IF v = Absent THEN "notfound" ELSE "value:" \o v]
  /\ UNCHANGED <<batch, snap, it>>

(* Durability events have no abstract effect: flushing the write buffer to disk (Pebble memtable
   flush / compaction) at any time, and closing and reopening the database (a restart; only with no
   batch, snapshot or iterator open).  They are actions so that the replayer exercises them: a
   backend whose content changes across a flush or a restart breaks the contract. *)
Flush ==
  /\ Tick
  /\ act' = [name |-> "Flush"] /\ res' = [kind |-> "ok"]
  /\ UNCHANGED <<store, batch, snap, it>>

Reopen ==
  /\ Tick /\ ~batch.open /\ ~snap.open /\ ~it.open
  /\ act' = [name |-> "Reopen"] /\ res' = [kind |-> "ok"]
  /\ UNCHANGED <<store, batch, snap, it>>

--------------------------------------------------------------------------
(* batches *)
(* NewBatch / NewBatchWithSize / NewIndexedBatch / NewIndexedBatchWithSize: the size is a hint *)
NewBatch(indexed, sized) ==
  /\ Tick /\ EnableBatch /\ ~batch.open
  /\ batch' = [open |-> TRUE, indexed |-> indexed, ops |-> <<>>]
  /\ act' = [name |-> "NewBatch", indexed |-> indexed, sized |-> sized] /\ res' = [kind |-> "ok"]
  /\ UNCHANGED <<store, snap, it>>

BatchAdd(o, nm) ==
  /\ Tick /\ batch.open /\ Len(batch.ops) < MaxBatchOps
  /\ batch' = [batch EXCEPT !.ops = Append(@, o)]
  /\ act' = [name |-> nm, o |-> o] /\ res' = [kind |-> "ok"]
  /\ UNCHANGED <<store, snap, it>>

BatchGet(k, cbf) ==
  /\ Tick /\ batch.open /\ batch.indexed
  /\ act' = [name |-> "BatchGet", k |-> k, cbf |-> cbf] /\ res' = ReadResCb(BatchView, k, cbf)
  /\ UNCHANGED <<store, batch, snap, it>>

(* the last operation of the log that touches key k (0: none) *)
LastOwn(ops, k) ==
  LET own == {i \in 1..Len(ops) :
                \/ (ops[i].op \in {"put", "del"} /\ ops[i].k = k)
                \/ (ops[i].op = "delrange" /\ ops[i].s <= k /\ k < ops[i].e)}
  IN IF own = {} THEN 0 ELSE CHOOSE i \in own : \A j \in own : j <= i

BatchHas(k) ==
  /\ Tick /\ batch.open /\ batch.indexed
  /\ act' = [name |-> "BatchHas", k |-> k]
  /\ res' = IF Mutant = "has-ignores-own-delete" /\ LastOwn(batch.ops, k) # 0
                /\ batch.ops[LastOwn(batch.ops, k)].op # "put"
             THEN HasRes(store, k) ELSE HasRes(BatchView, k)
  /\ UNCHANGED <<store, batch, snap, it>>

(* Batch.Size(): the bytes of the keys and values put / deleted so far.  A range delete adds an
   unspecified amount >= 0 (db/memory resolves it to per-key deletes, Pebble counts nothing), so
   with a range delete in the log the number is a lower bound (exact = FALSE). *)
RECURSIVE OpsBytes(_)
OpsBytes(ops) ==
  IF ops = <<>> THEN 0
  ELSE LET o == Head(ops) IN
       (CASE o.op = "put" -> Len(KeyBytes[o.k]) + Len(o.v)
          [] o.op = "del" -> Len(KeyBytes[o.k])
          [] OTHER -> 0) + OpsBytes(Tail(ops))

BatchSize ==
  /\ Tick /\ batch.open
  /\ act' = [name |-> "BatchSize"]
  /\ res' = [kind |-> "size", n |-> OpsBytes(batch.ops), exact |-> ~HasRange(batch.ops)]
  /\ UNCHANGED <<store, batch, snap, it>>

(* Contract: an iterator is closed before the batch / snapshot it reads from is written or closed. *)
ItOn(src) == it.open /\ it.src = src

BatchWrite ==
  /\ Tick /\ batch.open /\ ~ItOn("batch")
  /\ store' = BatchView
  /\ batch' = NoBatch
  /\ act' = [name |-> "BatchWrite"] /\ res' = [kind |-> "ok"]
  /\ UNCHANGED <<snap, it>>

BatchDiscard ==
  /\ Tick /\ batch.open /\ ~ItOn("batch")
  /\ batch' = NoBatch
  /\ act' = [name |-> "BatchDiscard"] /\ res' = [kind |-> "ok"]
  /\ UNCHANGED <<store, snap, it>>

--------------------------------------------------------------------------
(* snapshots *)
NewSnapshot ==
  /\ Tick /\ EnableSnap /\ ~snap.open
  /\ snap' = [open |-> TRUE, data |-> store]
  /\ act' = [name |-> "NewSnapshot"] /\ res' = [kind |-> "ok"]
  /\ UNCHANGED <<store, batch, it>>

SnapGet(k, cbf) ==
  /\ Tick /\ snap.open
  /\ act' = [name |-> "SnapGet", k |-> k, cbf |-> cbf] /\ res' = ReadResCb(snap.data, k, cbf)
  /\ UNCHANGED <<store, batch, snap, it>>

SnapHas(k) ==
  /\ Tick /\ snap.open
  /\ act' = [name |-> "SnapHas", k |-> k]
  /\ res' = HasRes(IF Mutant = "snap-has-live" THEN store ELSE snap.data, k)
  /\ UNCHANGED <<store, batch, snap, it>>

SnapClose ==
  /\ Tick /\ snap.open /\ ~ItOn("snap")
  /\ snap' = NoSnap
  /\ act' = [name |-> "SnapClose"] /\ res' = [kind |-> "ok"]
  /\ UNCHANGED <<store, batch, it>>

--------------------------------------------------------------------------
(* iterators: the content is fixed when the iterator is created *)
NoRangeOps(ops) == SelectSeq(ops, LAMBDA o : o.op # "delrange")
Source(src) == CASE src = "store" -> store
                 [] src = "batch" -> IF Mutant = "batchiter-ignores-range"
                                     THEN ApplyOps(store, NoRangeOps(batch.ops)) ELSE BatchView
                 [] src = "snap" -> snap.data

RECURSIVE ItemsStr(_, _, _)
ItemsStr(ks, vs, i) ==
  IF i > Len(ks) THEN "" ELSE ToString(ks[i]) \o "=" \o vs[i] \o ";" \o ItemsStr(ks, vs, i + 1)

NewIter(src, p, ub) ==
  /\ Tick /\ EnableIter /\ ~it.open
  /\ src = "batch" => (batch.open /\ batch.indexed)
  /\ src = "snap" => snap.open
  /\ (p = <<>>) => ~ub                      \* contract: (nil, FALSE) or (prefix, TRUE) ...
  /\ (p # <<>> /\ ~ub) => AllowPrefixNoBound \* ... plus the (prefix, FALSE) shape when explored
  /\ LET d == Source(src)
         ks == SortedSeq({k \in K : d[k] # Absent /\ InRange(k, p, ub)}) IN
     it' = [open |-> TRUE, src |-> src, p |-> p, ub |-> ub, keys |-> ks, vals |-> [i \in 1..Len(ks) |-> d[ks[i]]], pos |-> 0, st |-> "fresh"]
  /\ act' = [name |-> "NewIter", src |-> src, p |-> p, ub |-> ub]
     \* the result is the content the new iterator ranges over, "k=v;k=v;..." in key order
  /\ res' = [kind |-> "ok", items |-> ItemsStr(it'.keys, it'.vals, 1)]
  /\ UNCHANGED <<store, batch, snap>>

ItRes(i) == IF i >= 1 /\ i <= Len(it.keys)
            THEN [kind |-> "at", k |-> it.keys[i], v |-> it.vals[i]]
            ELSE [kind |-> "invalid"]

MoveTo(i, nm, missState) ==
  /\ it' = [it EXCEPT !.pos = i, !.st = IF i >= 1 /\ i <= Len(it.keys) THEN "valid" ELSE missState]
  /\ res' = ItRes(i)
  /\ act' = nm
  /\ UNCHANGED <<store, batch, snap>>

IterFirst == Tick /\ it.open /\ MoveTo(1, [name |-> "IterFirst"], "dead")

(* Seek(k): first key >= k; on a miss the iterator sits one past the end and Prev steps back *)
IterSeek(k) ==
  /\ Tick /\ it.open
  /\ LET from == IF Mutant = "seek-from-current" /\ it.st = "valid" THEN it.pos ELSE 1
         hits == {i \in from..Len(it.keys) : it.keys[i] >= k}
         i == IF hits = {} THEN Len(it.keys) + 1 ELSE CHOOSE x \in hits : \A y \in hits : x <= y IN
     MoveTo(i, [name |-> "IterSeek", k |-> k], "seekmiss")

IterNext ==
  /\ Tick /\ it.open /\ it.st \in {"fresh", "valid"}
  /\ MoveTo(IF it.st = "fresh" THEN 1 ELSE it.pos + 1, [name |-> "IterNext"], "dead")

IterPrev ==
  /\ Tick /\ it.open /\ it.st \in {"fresh", "valid", "seekmiss"}
  /\ MoveTo(IF it.st = "fresh" THEN 1
            ELSE IF it.st = "seekmiss" /\ Mutant = "prev-after-seekmiss" THEN it.pos
            ELSE it.pos - 1, [name |-> "IterPrev"], "dead")

IterClose ==
  /\ Tick /\ it.open
  /\ it' = NoIt
  /\ act' = [name |-> "IterClose"] /\ res' = [kind |-> "ok"]
  /\ UNCHANGED <<store, batch, snap>>

--------------------------------------------------------------------------
BatchOpAlphabet ==
  {PutOp(k, v) : k \in K, v \in Vals} \cup {DelOp(k) : k \in K}
    \cup {RangeOp(s, e) : s \in K, e \in K}

(* callbacks of Update: short op lists *)
UpdateOps == {<<>>} \cup {<<o>> : o \in BatchOpAlphabet}
               \cup {<<PutOp(k, v), DelOp(k2)>> : k \in K, k2 \in K, v \in Vals}

(* what the callback reads after its writes: nothing, a key it wrote (or the start of a range it
   deleted), or key 1 (mostly one it did not touch).  Exhaustive exploration only; the simulated
   and the cover behaviours read any key. *)
UpdateReadKeys(ops) ==
  {0, 1} \cup {ops[i].k : i \in {j \in 1..Len(ops) : ops[j].op # "delrange"}}
         \cup {ops[i].s : i \in {j \in 1..Len(ops) : ops[j].op = "delrange"}}

Next ==
  \/ \E k \in K, v \in Vals : Put(k, v)
  \/ \E k \in K : Delete(k) \/ Has(k) \/ BatchHas(k) \/ SnapHas(k) \/ IterSeek(k)
  \/ \E k \in K, cbf \in BOOLEAN : Get(k, cbf) \/ BatchGet(k, cbf) \/ SnapGet(k, cbf)
  \/ \E s \in K, e \in K : DeleteRange(s, e)
  \/ \E ops \in UpdateOps, f \in BOOLEAN :
        \/ UpdateFn(ops, 0, f, "write")
        \/ \E rk \in UpdateReadKeys(ops) : UpdateFn(ops, rk, f, "update")
  \/ \E ix \in BOOLEAN, sz \in BOOLEAN : NewBatch(ix, sz)
  \/ \E o \in BatchOpAlphabet : BatchAdd(o, "BatchOp")
  \/ BatchSize \/ BatchWrite \/ BatchDiscard
  \/ NewSnapshot \/ SnapClose
  \/ \E src \in {"store", "batch", "snap"}, p \in Prefixes, ub \in BOOLEAN : NewIter(src, p, ub)
  \/ IterFirst \/ IterNext \/ IterPrev \/ IterClose
  \/ Flush \/ Reopen

Spec == Init /\ [][Next]_vars

--------------------------------------------------------------------------
(* Properties of the contract itself (checked by TLC on every transition / state) *)

TypeOK ==
  /\ store \in [K -> Vals \cup {Absent}]
  /\ batch.open \in BOOLEAN /\ Len(batch.ops) <= MaxBatchOps
  /\ snap.data \in [K -> Vals \cup {Absent}]
  /\ it.pos \in 0..(NK + 1)

(* Durability: a flush or a restart never changes the content *)
DurabilityEventsAreNoOps == [][act'.name \in {"Flush", "Reopen"} => store' = store]_vars

(* Snapshot isolation: no call other than creating/closing the snapshot changes what it reads *)
SnapshotIsolation == [][snap.open /\ snap'.open => snap'.data = snap.data]_vars

(* All-or-nothing: the store changes only by a direct write, a successful Update, or a batch
   Write; opening/filling/discarding a batch, failed callbacks and every read leave it alone *)
StoreChangesOnlyByWrites ==
  [][store' # store => act'.name \in {"Put", "Delete", "DeleteRange", "Update", "BatchWrite"}]_vars
FailedUpdateAppliesNothing == [][(act'.name = "Update" /\ act'.fail) => store' = store]_vars

(* A batch is equivalent to applying its operations one by one, in order (later wins) *)
BatchIsSequential ==
  [][act'.name = "BatchWrite" => store' = ApplyOps(store, batch.ops)]_vars

(* Indexed-batch reads - Get, Has, and a new iterator - see the batch's own writes over the store
   as of the read: the LAST operation of the log touching the key decides (a put gives its value, a
   delete or a covering range delete hides the key), the store decides when there is none *)
OwnRead(k) ==
  LET last == LastOwn(batch.ops, k) IN
  IF last = 0 THEN store[k]
  ELSE IF batch.ops[last].op = "put" THEN batch.ops[last].v ELSE Absent
OwnView == [k \in K |-> OwnRead(k)]

IndexedReadsOwnWrites ==
  [][/\ act'.name = "BatchGet" => res' = ReadResCb(OwnView, act'.k, act'.cbf)
     /\ act'.name = "BatchHas" => res' = HasRes(OwnView, act'.k)
     /\ (act'.name = "NewIter" /\ act'.src = "batch") =>
           /\ \A k \in K : (\E i \in 1..Len(it'.keys) : it'.keys[i] = k)
                               <=> (OwnRead(k) # Absent /\ InRange(k, act'.p, act'.ub))
           /\ \A i \in 1..Len(it'.keys) : it'.vals[i] = OwnRead(it'.keys[i])]_vars

(* Has answers what Get answers (store; for the batch see above, for the snapshot below) *)
HasAgreesWithGet == [][act'.name = "Has" => res'.b = (store[act'.k] # Absent)]_vars

(* A snapshot is the store content at its creation; its reads (Get, Has, iterators) answer from
   it whatever happens to the store afterwards (with SnapshotIsolation: snap.data never changes) *)
SnapshotReadsFrozen ==
  [][/\ act'.name = "NewSnapshot" => snap'.data = store
     /\ act'.name = "SnapGet" => res' = ReadResCb(snap.data, act'.k, act'.cbf)
     /\ act'.name = "SnapHas" => res' = HasRes(snap.data, act'.k)
     /\ (act'.name = "NewIter" /\ act'.src = "snap") =>
           \A i \in 1..Len(it'.keys) : it'.vals[i] = snap.data[it'.keys[i]]]_vars

(* Iterators: keys strictly ascending, all inside the requested range, and complete for it *)
IterSorted == it.open => \A i \in 1..(Len(it.keys) - 1) : it.keys[i] < it.keys[i + 1]
IterPositionsConsistent ==
  it.open => /\ (it.st = "valid" <=> (it.pos >= 1 /\ it.pos <= Len(it.keys)))
             /\ (it.st = "seekmiss" => it.pos = Len(it.keys) + 1)
IterSeekIsLowerBound ==
  [][act'.name = "IterSeek" =>
       IF res'.kind = "at"
       THEN /\ res'.k >= act'.k
            /\ \A i \in 1..Len(it.keys) : it.keys[i] >= act'.k => it.keys[i] >= res'.k
       ELSE \A i \in 1..Len(it.keys) : it.keys[i] < act'.k]_vars
IterStepsAreAdjacent ==
  [][(act'.name = "IterNext" /\ it.st = "valid" /\ res'.kind = "at") =>
        (res'.k > it.keys[it.pos] /\ ~\E i \in 1..Len(it.keys) : it.keys[it.pos] < it.keys[i] /\ it.keys[i] < res'.k)]_vars
(* Prev from a valid position gives the greatest smaller key, Prev after a Seek past the end gives
   the last key; invalid only when there is none *)
IterPrevIsAdjacent ==
  [][(act'.name = "IterPrev" /\ it.st \in {"valid", "seekmiss"}) =>
        LET below == {i \in 1..Len(it.keys) : it.st = "valid" => it.keys[i] < it.keys[it.pos]} IN
        IF below = {} THEN res'.kind = "invalid"
        ELSE /\ res'.kind = "at"
             /\ \E i \in below : it.keys[i] = res'.k /\ \A j \in below : it.keys[j] <= res'.k]_vars
=============================================================================

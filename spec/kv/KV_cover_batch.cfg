\* edge cover of the batch / helper sub-machine (KVCover.tla, CoverMode "batch"); run with -workers 1
CONSTANTS
  KeyBytes <- KeysSmall
  Prefixes <- PrefixesSmall
  Vals <- ValsFull
  MaxBatchOps = 2
  MaxSteps = 99
  EnableBatch = TRUE
  EnableSnap = FALSE
  EnableIter = TRUE
  NilBoundUnbounded = TRUE
  AllowPrefixNoBound = FALSE
  CoverMode = "batch"
INIT CoverInit
NEXT CoverNext
VIEW coverview
PROPERTIES StoreChangesOnlyByWrites FailedUpdateAppliesNothing BatchIsSequential IndexedReadsOwnWrites HasAgreesWithGet DurabilityEventsAreNoOps
CHECK_DEADLOCK FALSE

\* EXPECTED VIOLATION of NoWideWindow: windows spanning two commits are reachable
CONSTANTS
  KeyBytes <- KeysLin
  Prefixes <- PrefixesLin
  Vals <- ValsSmall
  MaxBatchOps = 0
  MaxSteps = 0
  EnableBatch = FALSE
  EnableSnap = FALSE
  EnableIter = FALSE
  NilBoundUnbounded = TRUE
  AllowPrefixNoBound = TRUE
  Readers = {1}
  MaxCalls = 2
  MaxReads = 1
  Vias = {"batch"}
  ReadKinds = {"iter"}
  BatchMode = "atomic"
  RangeMode = "atomic"
  IterMode = "atomic"
  SnapMode = "atomic"
INIT LinInit
NEXT LinNext
VIEW linview
INVARIANTS NoWideWindow
PROPERTIES WriterCallsAreAtomic
CHECK_DEADLOCK FALSE

\* behaviour generation (tlc -simulate) for the concurrent round: writer programs and reader menus
CONSTANTS
  KeyBytes <- KeysLin
  Prefixes <- PrefixesLinFull
  Vals <- ValsSmall
  MaxBatchOps = 0
  MaxSteps = 0
  EnableBatch = FALSE
  EnableSnap = FALSE
  EnableIter = FALSE
  NilBoundUnbounded = TRUE
  AllowPrefixNoBound = TRUE
  Readers = {1, 2, 3}
  MaxCalls = 16
  MaxReads = 12
  Vias = {"direct", "batch", "indexed", "update", "write", "sync", "buffer"}
  ReadKinds = {"get", "iter", "snap"}
  BatchMode = "atomic"
  RangeMode = "atomic"
  IterMode = "atomic"
  SnapMode = "atomic"
INIT MBTLinInit
NEXT MBTLinNext
CHECK_DEADLOCK FALSE

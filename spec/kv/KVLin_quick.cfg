\* concurrent level, mechanisms as in the code: the contract holds
CONSTANTS
  KeyBytes <- KeysLin
  Prefixes <- PrefixesLin
  Vals <- ValsSmall
  MaxBatchOps = 0
  MaxSteps = 0
  EnableBatch = FALSE
  EnableSnap = FALSE
  EnableIter = FALSE
  NilBoundUnbounded = TRUE
  AllowPrefixNoBound = TRUE
  Readers = {1}
  MaxCalls = 2
  MaxReads = 1
  Vias = {"direct", "batch"}
  ReadKinds = {"get", "iter", "snap"}
  BatchMode = "atomic"
  RangeMode = "atomic"
  IterMode = "atomic"
  SnapMode = "atomic"
INIT LinInit
NEXT LinNext
VIEW linview
INVARIANTS LinTypeOK ReadersSeeOnePoint MemIsStoreWhenQuiescent
PROPERTIES WriterCallsAreAtomic
CHECK_DEADLOCK FALSE

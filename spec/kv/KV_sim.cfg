\* behaviour generation (tlc -simulate): everything enabled, full alphabets
CONSTANTS
  KeyBytes <- KeysFull
  Prefixes <- PrefixesFull
  Vals <- ValsFull
  MaxBatchOps = 4
  MaxSteps = 24
  EnableBatch = TRUE
  EnableSnap = TRUE
  EnableIter = TRUE
  NilBoundUnbounded = TRUE
  AllowPrefixNoBound = TRUE
INIT MBTInit
NEXT MBTNext
CHECK_DEADLOCK FALSE

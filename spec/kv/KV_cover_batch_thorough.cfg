\* edge cover of the batch / helper sub-machine, thorough tier: operation histories up to 3 per batch
CONSTANTS
  KeyBytes <- KeysSmall
  Prefixes <- PrefixesSmall
  Vals <- ValsFull
  MaxBatchOps = 3
  MaxSteps = 99
  EnableBatch = TRUE
  EnableSnap = FALSE
  EnableIter = TRUE
  NilBoundUnbounded = TRUE
  AllowPrefixNoBound = FALSE
  CoverMode = "batch"
INIT CoverInit
NEXT CoverNext
VIEW coverview
PROPERTIES StoreChangesOnlyByWrites FailedUpdateAppliesNothing BatchIsSequential IndexedReadsOwnWrites HasAgreesWithGet DurabilityEventsAreNoOps
CHECK_DEADLOCK FALSE

\* EXPECTED VIOLATION of ReadersSeeOnePoint: snapshot is a live reference
CONSTANTS
  KeyBytes <- KeysLin
  Prefixes <- PrefixesLin
  Vals <- ValsSmall
  MaxBatchOps = 0
  MaxSteps = 0
  EnableBatch = FALSE
  EnableSnap = FALSE
  EnableIter = FALSE
  NilBoundUnbounded = TRUE
  AllowPrefixNoBound = TRUE
  Readers = {1}
  MaxCalls = 2
  MaxReads = 1
  Vias = {"batch"}
  ReadKinds = {"snap"}
  BatchMode = "atomic"
  RangeMode = "atomic"
  IterMode = "atomic"
  SnapMode = "live"
INIT LinInit
NEXT LinNext
VIEW linview
INVARIANTS LinTypeOK ReadersSeeOnePoint
PROPERTIES WriterCallsAreAtomic
CHECK_DEADLOCK FALSE

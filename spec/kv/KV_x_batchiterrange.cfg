\* expected violation: KV_all_tiny.cfg with the mutant BatchIterIgnoresRange
CONSTANTS
  KeyBytes <- KeysTiny
  Prefixes <- PrefixesTiny
  Vals <- ValsTiny
  MaxBatchOps = 1
  MaxSteps = 5
  EnableBatch = TRUE
  EnableSnap = TRUE
  EnableIter = TRUE
  NilBoundUnbounded = TRUE
  AllowPrefixNoBound = FALSE
  Mutant <- MutBatchIterIgnoresRange
INIT Init
NEXT Next
VIEW view
INVARIANTS TypeOK IterSorted IterPositionsConsistent
PROPERTIES DurabilityEventsAreNoOps SnapshotIsolation StoreChangesOnlyByWrites FailedUpdateAppliesNothing BatchIsSequential IndexedReadsOwnWrites HasAgreesWithGet SnapshotReadsFrozen IterSeekIsLowerBound IterStepsAreAdjacent IterPrevIsAdjacent
CHECK_DEADLOCK FALSE

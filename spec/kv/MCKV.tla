------------------------------- MODULE MCKV -------------------------------
(* Model-checking / behaviour-generation instance of KV (constants that a .cfg cannot express,
   the MBT history wrapper, and the JSON emission used by tools/vlib.py). *)
EXTENDS KV

\* key alphabets (sorted byte-lexicographically)
KeysSmall == << <<0>>, <<0, 0>>, <<0, 255>>, <<255>> >>
\* keys are non-empty: juno always prefixes a bucket byte (the empty key is probed separately, see checks/C15.py)
KeysFull == << <<0>>, <<0, 0>>, <<0, 255>>, <<1>>, <<255>>, <<255, 255>> >>
PrefixesSmall == { <<>>, <<0>>, <<255>> }
\* the edge cover (KVCover.tla): <<0, 255>> gives a proper prefix range with keys below AND above it
PrefixesCover == { <<>>, <<0>>, <<0, 255>>, <<255>> }
PrefixesFull == { <<>>, <<0>>, <<0, 0>>, <<0, 255>>, <<1>>, <<255>>, <<255, 255>> }
\* tiny alphabet: all features together, exhaustively, and the mutants
KeysTiny == << <<0>>, <<0, 255>> >>
PrefixesTiny == { <<>>, <<0>> }
ValsTiny == {"a"}
ValsSmall == {"a", "b"}
ValsFull == {"", "a", "b"}

\* mutants (expected-violation configurations KV_x_*.cfg: CONSTANTS Mutant <- Mut...)
MutSeekFromCurrent == "seek-from-current"
MutPrevAfterSeekMiss == "prev-after-seekmiss"
MutHasIgnoresOwnDelete == "has-ignores-own-delete"
MutBatchIterIgnoresRange == "batchiter-ignores-range"
MutSnapHasLive == "snap-has-live"

\* alphabet of the concurrent level (KVLin.tla): each key stands for a GROUP of real keys
\* <<g>> \o <<i1, i2>> in the Go engine, so no key may extend another one
KeysLin == << <<1>>, <<2>>, <<3>> >>
PrefixesLin == { <<>>, <<2>> }
PrefixesLinFull == { <<>>, <<1>>, <<2>>, <<3>> }

=============================================================================

------------------------------- MODULE MCKV -------------------------------
(* Model-checking / behaviour-generation instance of KV (constants that a .cfg cannot express,
   the MBT history wrapper, and the JSON emission used by tools/vlib.py). *)
EXTENDS KV

\* key alphabets (sorted byte-lexicographically)
KeysSmall == << <<0>>, <<0, 0>>, <<0, 255>>, <<255>> >>
\* keys are non-empty: juno always prefixes a bucket byte (the empty key is probed separately, see checks/C15.py)
KeysFull == << <<0>>, <<0, 0>>, <<0, 255>>, <<1>>, <<255>>, <<255, 255>> >>
PrefixesSmall == { <<>>, <<0>>, <<255>> }
PrefixesFull == { <<>>, <<0>>, <<0, 0>>, <<0, 255>>, <<1>>, <<255>>, <<255, 255>> }
ValsSmall == {"a", "b"}
ValsFull == {"", "a", "b"}

\* alphabet of the concurrent level (KVLin.tla): each key stands for a GROUP of real keys
\* <<g>> \o <<i1, i2>> in the Go engine, so no key may extend another one
KeysLin == << <<1>>, <<2>>, <<3>> >>
PrefixesLin == { <<>>, <<2>> }
PrefixesLinFull == { <<>>, <<1>>, <<2>>, <<3>> }

=============================================================================

---------------------------- MODULE PreConfirmedMBT ----------------------------
(* Behaviour generation for the replayer: PreConfirmed plus a history variable.  After MBTSteps
   steps the history is printed as one JSON line and the machine is reset, so one long
   `-simulate` run yields many behaviours.  The constant tables (per-transaction diffs, canonical
   blocks, ...) are printed once, so that the Go side concretises exactly what TLC used. *)
EXTENDS MCPreConfirmed, Json

CONSTANTS MBTSteps,   \* steps per behaviour
          MBTMode     \* "storage": ChainStorage called directly; "poller": driven by the poller

VARIABLES hist, steps
mbtvars == <<vars, hist, steps>>

Tables ==
  [tables |-> TRUE, sk |-> SK, txdiff |-> TxDiff, txdecl |-> TxDecl, canondiff |-> CanonDiff,
   genesis |-> Genesis, classids |-> ClassIds, canonclasses |-> CanonClasses, blank |-> Blank,
   maxhead |-> MaxHead]

MBTInit ==
  /\ IF MBTMode = "poller" THEN InitPoller ELSE Init
  /\ hist = <<>> /\ steps = 0
  /\ PrintT(ToJson(Tables))

(* Simulation picks uniformly among successor states; each schema is instantiated with ONE random
   parameter choice per step so that parameter-rich schemas do not drown the others, and the
   "likely to succeed" schemas are listed next to the fully random ones so that behaviours spend
   most of their steps on calls that publish something. *)
R(S) == {RandomElement(S)}

TipSlot == chain[Len(chain)]
LiveNumsFull == IF Len(chain) = 0 THEN {pOld} ELSE Oldest(chain)..(Tip(chain) + 1)
ApplyAny(u, num, bc, o, cls) == ApplyCall(u, num, bc, o, cls, AllTags)

StorageSim ==
  \* calls a well-behaved single writer makes
  \/ \E b \in R(FullBlocks), num \in R(LiveNumsFull), cls \in R(ClassSets) : ApplyAny(FullUpd(b), num, 0, pOld, cls)
  \/ \E b \in R(FullBlocks), cls \in R(ClassSets) :
        ApplyAny(FullUpd(b), IF Len(chain) = 0 THEN pOld ELSE Tip(chain) + 1, 0, pOld, cls)
  \/ /\ Len(chain) > 0
     /\ \E b \in R({x \in FullBlocks : x.id = TipSlot.id \/ x.id = Blank}), cls \in R(ClassSets) :
          ApplyAny(FullUpd(b), Tip(chain), 0, pOld, cls)
  \/ /\ Len(chain) > 0
     /\ LET ds == {d \in Deltas : d.id = TipSlot.id /\ Len(TipSlot.txs) + Len(d.txs) <= MaxTx} IN
        /\ ds # {}
        /\ \E d \in R(ds), cls \in R(ClassSets) : ApplyAny(DeltaUpd(d), Tip(chain), Len(TipSlot.txs), pOld, cls)
  \/ /\ Len(chain) > 0
     /\ LET ds == {d \in Deltas : d.id = TipSlot.id /\ Len(TipSlot.txs) + Len(d.txs) <= MaxTx} IN
        /\ ds # {}
        /\ \E d \in R(ds) : ApplyAny(DeltaUpd(d), Tip(chain), Len(TipSlot.txs), pOld, {})
  \/ /\ Len(chain) > 0
     /\ \E cls \in R(ClassSets) : ApplyAny(NoChangeUpd, Tip(chain), 0, pOld, cls)
  \/ AdvanceTo(CHead + 1)
  \/ AdvanceTo(CHead + 1)
  \* anything at all
  \/ \E u \in R(Updates), num \in R(Nums), bc \in R(0..MaxTx), o \in R(OldestChoices \cup {pOld}), cls \in R(ClassSets) :
        ApplyAny(u, num, bc, o, cls)
  \/ \E d \in R(Deltas), num \in R(LiveNumsFull), bc \in R(0..MaxTx), cls \in R(ClassSets) :
        ApplyAny(DeltaUpd(d), num, bc, pOld, cls)
  \/ \E num \in R(LiveNumsFull), cls \in R(ClassSets) : ApplyAny(NoChangeUpd, num, 0, pOld, cls)
  \/ \E o \in R(1..(MaxHead + 2)) : AdvanceTo(o)

EnvSim ==
  \/ (Len(chain) > 0 \/ steps > 2 * (MBTSteps \div 3)) /\ Snapshot(CHead + 1)
  \/ (Len(chain) > 0 \/ steps > 2 * (MBTSteps \div 3)) /\ \E n \in R(1..(MaxHead + 1)) : Snapshot(n)
  \/ /\ Len(chain) > 0
     /\ \E n \in R(Oldest(chain)..Tip(chain)) : Snapshot(n)
  \/ ReaderChain
  \/ \E v \in R(Variants) : HeadAdvance(v)
  \/ HeadRevert

(* a data source that mostly answers like the feeder gateway would for the hints it was given *)
PollerSim ==
  \/ TickStart(TRUE) \/ TickStart(TRUE) \/ TickStart(FALSE)
  \* same round: no change / delta
  \/ /\ pc = "latest" /\ pk.id # ""
     /\ LatestResp(NoChangeUpd, pk.from, FALSE)
  \/ /\ pc = "latest"
     /\ LET ds == {d \in Deltas : d.id = pk.id /\ pk.cnt + Len(d.txs) <= MaxTx} IN
        ds # {} /\ \E d \in R(ds) : LatestResp(DeltaUpd(d), pk.from, FALSE)
  \* a full block at the same height (new round or first sight), or further ahead
  \/ \E b \in R(FullBlocks) : LatestResp(FullUpd(b), pk.from, FALSE)
  \/ \E b \in R(FullBlocks), j \in R(1..2) : LatestResp(FullUpd(b), pk.from + j, FALSE)
  \/ \E u \in R(Updates), L \in R(Nums) : LatestResp(u, L, FALSE)
  \* backfill answers
  \/ /\ pc = "bynum" /\ pk.n = pk.from /\ pk.id # ""
     /\ ByNumResp(NoChangeUpd, FALSE)
  \/ /\ pc = "bynum" /\ pk.n = pk.from
     /\ LET ds == {d \in Deltas : d.id = pk.id /\ pk.cnt + Len(d.txs) <= MaxTx} IN
        ds # {} /\ \E d \in R(ds) : ByNumResp(DeltaUpd(d), FALSE)
  \/ \E b \in R(FullBlocks) : ByNumResp(FullUpd(b), FALSE)
  \/ \E b \in R(FullBlocks) : ByNumResp(FullUpd(b), FALSE)
  \/ \E u \in R(Updates) : ByNumResp(u, FALSE)
  \* always possible: the data source fails (also keeps the simulation from stopping at the bounds)
  \/ LatestResp(NoChangeUpd, pk.from, TRUE)
  \/ ByNumResp(NoChangeUpd, TRUE)

SimNext == IF MBTMode = "poller" THEN PollerSim \/ (\E c \in R(1..3) : c = 1 /\ EnvSim) ELSE StorageSim \/ EnvSim

Step ==
  /\ SimNext
  /\ steps' = steps + 1
  /\ hist' = Append(hist, [a |-> act', res |-> res', chain |-> chain', canon |-> canon',
                           views |-> views', pold |-> pOld', pc |-> pc', pk |-> pk'])

(* the expected reads and squashed slot diffs are functions of the recorded state; they are
   computed once per recorded step here rather than for every candidate successor in Step *)
WithReads(h) ==
  [a |-> h.a, res |-> h.res, chain |-> h.chain, canon |-> h.canon, views |-> h.views,
   pold |-> h.pold, pc |-> h.pc, pk |-> h.pk,
   reads |-> ReadsC(h.canon, h.views),
   diffs |-> [i \in 1..Len(h.chain) |-> SlotDiff(h.chain[i])]]

Emit ==
  /\ PrintT(ToJson([i \in 1..Len(hist) |-> WithReads(hist[i])]))
  /\ chain' = <<>> /\ canon' = <<>> /\ views' = <<>> /\ pOld' = 1
  /\ pc' = (IF MBTMode = "poller" THEN "idle" ELSE "off") /\ pk' = IdlePk
  /\ nupd' = 0 /\ nenv' = 0
  /\ act' = [name |-> "Init"] /\ res' = [st |-> "ok"]
  /\ hist' = <<>> /\ steps' = 0

MBTNext == IF steps >= MBTSteps THEN Emit ELSE Step
=============================================================================

---------------------------- MODULE PreConfirmedTrace ----------------------------
(* Trace validation of the CONCURRENT runs of the real ChainStorage (engine TestPreconfConc).

   One iteration of the engine = one "Reset" line, the single writer's calls in order ("W": the
   call, its result, the chain published afterwards), then the distinct observations of the reader
   goroutines ("R": the block the view was asked for, the writer's completed-call counter read
   before (s1) and after (s2) obtaining the view, the view's slots, and the reads made through it).

   W lines must be steps of PreConfirmed's own actions (same result, same published chain).
   R lines are the property: the view must be SnapshotOf(C, asked) for one of the chains C that
   were published between the two counter values -- C_s1 .. C_(s2+1), the call after s2 may already
   have swapped the pointer -- and every read through it must be the specification's overlay on
   the (static) canonical chain.  A view that mixes two chains, has a gap, does not start at
   `asked`, or changed after the fact has no such explanation. *)
EXTENDS MCPreConfirmed, Json

Trace == ndJsonDeserialize("trace.ndjson")

VARIABLES l, pub
tvars == <<vars, l, pub>>

StaticCanon == [i \in 1..MaxHead |-> 1]

SeqToSet(q) == {q[i] : i \in 1..Len(q)}
AsSlot(e) == [num |-> e.num, id |-> e.id, txs |-> e.txs, cls |-> SeqToSet(e.cls)]
AsSlots(es) == [i \in 1..Len(es) |-> AsSlot(es[i])]
SameSlots(a, b) == Len(a) = Len(b) /\ \A i \in 1..Len(a) : a[i] = b[i]

TraceInit ==
  /\ chain = <<>> /\ canon = StaticCanon /\ views = <<>>
  /\ pOld = 1 /\ pc = "off" /\ pk = IdlePk /\ nupd = 0 /\ nenv = 0
  /\ act = [name |-> "Init"] /\ res = [st |-> "ok"]
  /\ l = 1 /\ pub = << <<>> >>

IsEvent(e) == l <= Len(Trace) /\ Trace[l].ev = e /\ l' = l + 1

TraceReset ==
  /\ IsEvent("Reset")
  /\ chain' = <<>> /\ pOld' = 1 /\ pub' = << <<>> >>
  /\ act' = [name |-> "Init"] /\ res' = [st |-> "ok"]
  /\ UNCHANGED <<canon, views, pc, pk, nupd, nenv>>

TraceW ==
  /\ IsEvent("W")
  /\ LET e == Trace[l] IN
     /\ e.k = Len(pub)
     /\ IF e.a.name = "ApplyUpdate"
        THEN ApplyCall([kind |-> e.a.u.kind, id |-> e.a.u.id, txs |-> e.a.u.txs], e.a.num, e.a.base,
                       e.a.oldest, SeqToSet(e.a.cls), AllTags)
        ELSE e.a.name = "AdvanceTo" /\ AdvanceTo(e.a.o)
     /\ res'.st = e.st /\ res'.tag = e.tag
     /\ SameSlots(chain', AsSlots(e.chain))
  /\ pub' = Append(pub, chain')

Min2(a, b) == IF a < b THEN a ELSE b

ReadsExplained(e, v) ==
  e.hasreads =>
    /\ Len(e.st) = Len(v.slots) /\ Len(e.cl) = Len(v.slots)
    /\ \A j \in 1..Len(v.slots) :
         /\ \A q \in SK : e.st[j][q] = CodeStateAtC(StaticCanon, v, v.slots[j].num, q)
         /\ \A k \in ClassIds : e.cl[j][k] = CodeClassAtC(StaticCanon, v, v.slots[j].num, k)
    /\ \A t \in TxIds : e.tx[t] = CodeTxLookup(v, t)

TraceR ==
  /\ IsEvent("R")
  /\ LET e == Trace[l]
         obs == AsSlots(e.slots)
         hi == Min2(e.s2 + 1, Len(pub) - 1)
         v == [asked |-> e.asked, slots |-> obs]
     IN /\ \E j \in e.s1..hi : SameSlots(obs, SnapshotOf(pub[j + 1], e.asked))
        /\ ViewAligned(v)
        /\ ReadsExplained(e, v)
  /\ UNCHANGED <<vars, pub>>

TraceNext == TraceReset \/ TraceW \/ TraceR
TraceSpec == TraceInit /\ [][TraceNext]_tvars

(* every line consumed: one state per line plus the initial state *)
TraceAccepted ==
  LET d == TLCGet("stats").diameter IN
  IF d - 1 = Len(Trace) THEN TRUE
  ELSE Print(<<"TRACE-REJECTED-AT-LINE", d>>, FALSE)
=============================================================================

\* trace validation of concurrent runs (see PreConfirmedTrace.tla); alphabets as in the simulation
CONSTANTS
  MaxHead = 3
  MaxSlots = 4
  MaxTx = 4
  MaxUpd <- Unbounded
  MaxViews = 0
  MaxEnv <- Unbounded
  Blank <- MCBlank
  SK <- MCSK
  C2All <- MCC2All
  DeployKey = "h2"
  TxIds <- MCTxIds
  TxDiff <- MCTxDiff
  TxDecl <- MCTxDecl
  ClassIds <- MCClassIds
  FullBlocks <- FullBlocksAny
  Deltas <- DeltasAny
  ClassSets <- ClassSets2
  Variants = {1, 2}
  CanonDiff <- MCCanonDiff
  Genesis <- MCGenesis
  CanonClasses <- MCCanonClasses
  Rogue = TRUE
SPECIFICATION TraceSpec
INVARIANTS TypeOK ChainContiguous
POSTCONDITION TraceAccepted
CHECK_DEADLOCK FALSE

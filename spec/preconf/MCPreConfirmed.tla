---------------------------- MODULE MCPreConfirmed ----------------------------
(* Constant definitions for model checking / behaviour generation of PreConfirmed (what a .cfg
   cannot express).  The same tables are sent to the Go replayer (printed by PreConfirmedMBT),
   which turns them into felts, transactions, state diffs and classes. *)
EXTENDS PreConfirmed

Unbounded == -1
MCBlank == "0x0"
RealIds == {"a", "b"}
AllIds == RealIds \cup {MCBlank}

(* state keys: sCK = storage slot K of contract C, nC = nonce, hC = class hash.
   c1 exists since genesis; c2 is deployed only by transaction 4 (its h2 write). *)
MCSK == {"s11", "s12", "n1", "h1", "s21", "s22", "n2", "h2"}
MCC2All == {"s21", "s22", "n2", "h2"}
D(f) == [k \in MCSK |-> IF k \in DOMAIN f THEN f[k] ELSE -1]

MCTxIds == 1..5
MCTxDiff == << D([s11 |-> 1, n1 |-> 1]),
               D([s11 |-> 2, s12 |-> 1]),
               D([s11 |-> 3, h1 |-> 2, n1 |-> 2]),
               D([h2 |-> 1, s21 |-> 1]),
               D([s12 |-> 0]) >>     \* a zero write: found-in-diff must win over the base value
MCTxDecl == << {}, {"k1"}, {}, {}, {"k2"} >>
MCClassIds == {"A", "k1", "k2"}
MCCanonClasses == {"A"}

MCGenesis == [k \in MCSK |-> CASE k = "s11" -> 7 [] k = "h1" -> 1 [] OTHER -> 0]
MCCanonDiff == << << D([s11 |-> 8, n1 |-> 1]), D([s12 |-> 5]) >>,
                  << D([s12 |-> 6]), D([s11 |-> 9, n1 |-> 2]) >>,
                  << D([n1 |-> 3, s11 |-> 4]), D([s12 |-> 7]) >>,
                  << D([s12 |-> 8]), D([s11 |-> 5]) >> >>

(* exhaustive alphabets: the content of a round is a prefix of the round's transaction list *)
Round(i) == CASE i = "a" -> <<1, 2>> [] i = "b" -> <<3, 4>> [] OTHER -> <<5, 1>>
FullBlocksRound == {[id |-> i, txs |-> SubSeq(Round(i), 1, k)] : i \in AllIds, k \in 0..2}
DeltasRound == {[id |-> i, txs |-> SubSeq(Round(i), bm[1] + 1, bm[1] + bm[2])] :
                  i \in AllIds, bm \in {<<0, 1>>, <<0, 2>>, <<1, 1>>}}
(* two real rounds only, and the blank placeholder with no transactions *)
FullBlocksSmall == {b \in FullBlocksRound : b.id # MCBlank \/ Len(b.txs) = 0}
DeltasSmall == {d \in DeltasRound : d.id # MCBlank}

FullBlocksTiny == {b \in FullBlocksSmall : Len(b.txs) <= 1}
DeltasTiny == {d \in DeltasSmall : Len(d.txs) = 1 /\ d.txs[1] \in {1, 3}}

FullBlocksMini == {b \in FullBlocksTiny : b.id # "b"}
DeltasMini == {d \in DeltasTiny : d.id # "b"}

(* simulation alphabets: any transaction list *)
SeqsUpTo(S, n) == UNION {[1..k -> S] : k \in 0..n}
FullBlocksAny == {[id |-> i, txs |-> t] : i \in AllIds, t \in SeqsUpTo(MCTxIds, 2)}
DeltasAny == {[id |-> i, txs |-> t] : i \in AllIds, t \in SeqsUpTo(MCTxIds, 2) \ {<<>>}}

ClassSets0 == {{}}
ClassSets1 == {{}, {"k1"}}
ClassSets2 == SUBSET {"k1", "k2"}
=============================================================================

\* storage level, exhaustive: head 0..3, <= 3 slots, <= 6 writer calls, ids {a, b, blank},
\* 0..2 transactions per slot, one view taken at any moment and asked for any block
CONSTANTS
  MaxHead = 3
  MaxSlots = 3
  MaxTx = 2
  MaxUpd <- Unbounded
  MaxViews = 1
  MaxEnv <- Unbounded
  Blank <- MCBlank
  SK <- MCSK
  C2All <- MCC2All
  DeployKey = "h2"
  TxIds <- MCTxIds
  TxDiff <- MCTxDiff
  TxDecl <- MCTxDecl
  ClassIds <- MCClassIds
  FullBlocks <- FullBlocksSmall
  Deltas <- DeltasSmall
  ClassSets <- ClassSets0
  Variants = {1}
  CanonDiff <- MCCanonDiff
  Genesis <- MCGenesis
  CanonClasses <- MCCanonClasses
  Rogue = FALSE
INIT Init
NEXT Next
VIEW view
INVARIANTS TypeOK ChainContiguous ViewsAligned OverlayCorrect LookupExact Aligned
PROPERTIES ViewsImmutable SnapshotIsSuffix RejectedPublishesNothing WritesAreLocal AdvanceKeepsSuffix PollerNeverMisaligned
CHECK_DEADLOCK FALSE

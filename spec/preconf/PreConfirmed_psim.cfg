\* behaviour generation (tlc -simulate), the poller driving the storage
CONSTANTS
  MaxHead = 3
  MaxSlots = 4
  MaxTx = 4
  MaxUpd <- Unbounded
  MaxViews = 4
  MaxEnv <- Unbounded
  Blank <- MCBlank
  SK <- MCSK
  C2All <- MCC2All
  DeployKey = "h2"
  TxIds <- MCTxIds
  TxDiff <- MCTxDiff
  TxDecl <- MCTxDecl
  ClassIds <- MCClassIds
  FullBlocks <- FullBlocksAny
  Deltas <- DeltasAny
  ClassSets <- ClassSets2
  Variants = {1, 2}
  CanonDiff <- MCCanonDiff
  Genesis <- MCGenesis
  CanonClasses <- MCCanonClasses
  Rogue = FALSE
  MBTSteps = 28
  MBTMode = "poller"
INIT MBTInit
NEXT MBTNext
CHECK_DEADLOCK FALSE

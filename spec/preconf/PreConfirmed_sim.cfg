\* behaviour generation (tlc -simulate), ChainStorage called directly, full alphabets, rogue calls
CONSTANTS
  MaxHead = 3
  MaxSlots = 4
  MaxTx = 4
  MaxUpd <- Unbounded
  MaxViews = 4
  MaxEnv <- Unbounded
  Blank <- MCBlank
  SK <- MCSK
  C2All <- MCC2All
  DeployKey = "h2"
  TxIds <- MCTxIds
  TxDiff <- MCTxDiff
  TxDecl <- MCTxDecl
  ClassIds <- MCClassIds
  FullBlocks <- FullBlocksAny
  Deltas <- DeltasAny
  ClassSets <- ClassSets2
  Variants = {1, 2}
  CanonDiff <- MCCanonDiff
  Genesis <- MCGenesis
  CanonClasses <- MCCanonClasses
  Rogue = TRUE
  MBTSteps = 28
  MBTMode = "storage"
INIT MBTInit
NEXT MBTNext
CHECK_DEADLOCK FALSE

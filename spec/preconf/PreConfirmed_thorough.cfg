\* storage level, exhaustive over call sequences of ANY length: head 0..3, <= 3 slots, ids {a, b,
\* blank}, 0..2 txs per slot, no newClasses (those are in the other configurations); every obtainable view checked in every state
\* measured: 57,856 distinct / 858,193 generated states, depth 17 (~100 s)
CONSTANTS
  MaxHead = 3
  MaxSlots = 3
  MaxTx = 2
  MaxUpd <- Unbounded
  MaxViews = 0
  MaxEnv <- Unbounded
  Blank <- MCBlank
  SK <- MCSK
  C2All <- MCC2All
  DeployKey = "h2"
  TxIds <- MCTxIds
  TxDiff <- MCTxDiff
  TxDecl <- MCTxDecl
  ClassIds <- MCClassIds
  FullBlocks <- FullBlocksSmall
  Deltas <- DeltasSmall
  ClassSets <- ClassSets0
  Variants = {1}
  CanonDiff <- MCCanonDiff
  Genesis <- MCGenesis
  CanonClasses <- MCCanonClasses
  Rogue = FALSE
INIT Init
NEXT Next
VIEW view
INVARIANTS TypeOK ChainContiguous Aligned EveryPotentialViewOK
PROPERTIES RejectedPublishesNothing WritesAreLocal AdvanceKeepsSuffix PollerNeverMisaligned
CHECK_DEADLOCK FALSE

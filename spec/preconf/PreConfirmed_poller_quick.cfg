\* the poller driving the storage, split at its waits, against an arbitrary data source and a
\* moving head: head 0..2, <= 2 slots, any number of ticks
\* measured: 6,426 distinct / 313,489 generated states, depth 20 (~7 s)
CONSTANTS
  MaxHead = 2
  MaxSlots = 2
  MaxTx = 2
  MaxUpd <- Unbounded
  MaxViews = 0
  MaxEnv <- Unbounded
  Blank <- MCBlank
  SK <- MCSK
  C2All <- MCC2All
  DeployKey = "h2"
  TxIds <- MCTxIds
  TxDiff <- MCTxDiff
  TxDecl <- MCTxDecl
  ClassIds <- MCClassIds
  FullBlocks <- FullBlocksSmall
  Deltas <- DeltasSmall
  ClassSets <- ClassSets0
  Variants = {1}
  CanonDiff <- MCCanonDiff
  Genesis <- MCGenesis
  CanonClasses <- MCCanonClasses
  Rogue = FALSE
INIT InitPoller
NEXT NextPoller
VIEW view
INVARIANTS TypeOK ChainContiguous Aligned EveryPotentialViewOK
PROPERTIES RejectedPublishesNothing WritesAreLocal AdvanceKeepsSuffix PollerNeverMisaligned
CHECK_DEADLOCK FALSE

\* storage level with an explicit view carried through all later steps (one disjunct per code
\* case, used with -coverage): head 0..1, <= 2 slots, ids {a, blank}, <= 1 tx per slot, newClasses {} or {k1}, one view
\* measured: 14,964 distinct / 642,925 generated states, depth 15 (~60 s with -coverage 1; every action taken)
CONSTANTS
  MaxHead = 1
  MaxSlots = 2
  MaxTx = 1
  MaxUpd <- Unbounded
  MaxViews = 1
  MaxEnv <- Unbounded
  Blank <- MCBlank
  SK <- MCSK
  C2All <- MCC2All
  DeployKey = "h2"
  TxIds <- MCTxIds
  TxDiff <- MCTxDiff
  TxDecl <- MCTxDecl
  ClassIds <- MCClassIds
  FullBlocks <- FullBlocksMini
  Deltas <- DeltasMini
  ClassSets <- ClassSets1
  Variants = {1}
  CanonDiff <- MCCanonDiff
  Genesis <- MCGenesis
  CanonClasses <- MCCanonClasses
  Rogue = FALSE
INIT Init
NEXT NextNamed
VIEW view
INVARIANTS TypeOK ChainContiguous Aligned EveryPotentialViewOK ViewsAligned OverlayCorrect LookupExact
PROPERTIES RejectedPublishesNothing WritesAreLocal AdvanceKeepsSuffix PollerNeverMisaligned ViewsImmutable SnapshotIsSuffix
CHECK_DEADLOCK FALSE

\* storage level, exhaustive over call sequences of ANY length: head 0..2 with two fork variants per block,
\* <= 2 slots, ids {a, b, blank}, 0..2 txs per slot, newClasses {} or {k1}; every view
\* obtainable in every reachable state is checked (EveryPotentialViewOK)
\* measured: 19,551 distinct / 458,116 generated states, depth 12 (~35 s)
CONSTANTS
  MaxHead = 2
  MaxSlots = 2
  MaxTx = 2
  MaxUpd <- Unbounded
  MaxViews = 0
  MaxEnv <- Unbounded
  Blank <- MCBlank
  SK <- MCSK
  C2All <- MCC2All
  DeployKey = "h2"
  TxIds <- MCTxIds
  TxDiff <- MCTxDiff
  TxDecl <- MCTxDecl
  ClassIds <- MCClassIds
  FullBlocks <- FullBlocksSmall
  Deltas <- DeltasSmall
  ClassSets <- ClassSets1
  Variants = {1, 2}
  CanonDiff <- MCCanonDiff
  Genesis <- MCGenesis
  CanonClasses <- MCCanonClasses
  Rogue = FALSE
INIT Init
NEXT Next
VIEW view
INVARIANTS TypeOK ChainContiguous Aligned EveryPotentialViewOK
PROPERTIES RejectedPublishesNothing WritesAreLocal AdvanceKeepsSuffix PollerNeverMisaligned
CHECK_DEADLOCK FALSE
